import Firefly.Proof.VmmRegion
import Firefly.Proof.VmmMemUtil
import Firefly.Proof.VmmBoot
/-!
# C04 — Page-table operations implement exactly the requested address translation

"After any sequence of map, unmap, region-map and identity-map requests, translating a virtual
address yields the frame most recently mapped for its page plus the page offset, with exactly the
requested permission bits in the hardware entry, or reports it unmapped if the page was never mapped
or has been unmapped; translations of all other pages are unchanged, newly created page-table levels
start empty, and the TLB entry of every changed page is invalidated. Performing the operation on an
address space that is not active leaves the active one bit-for-bit as it was. If a frame for a new
page-table level cannot be allocated the operation returns that error and no other page's
translation changes."

Vocabulary (definitions in `Firefly/Proof/Vmm*.lean`, model in `Firefly/Model/Vmm.lean`):
`mmu`/`mmuWalk` is the hardware walk; `Window st R` says the recursive window of the active root
shows the address space rooted at `R`; `Chain m R va L T` says `T` is the level-`L` table of `va`'s
path; `Path m R va T1 T2 T3` says the three upper levels of `va` exist; `E va L` is the entry
address `walk` computes at level `L`; `kidx va L` the table index of `va` at level `L`.
-/
namespace Firefly.C04
open Firefly.Vmm Firefly.Gen.C04

/-- The entry addresses `walk` computes by its add / shift-left recurrence from `pdtVirtualAddr`, in
closed form, for every virtual address: level `L` has `4-L` leading index fields 511 (the recursive
slot), then the indices of `va` above level `L`, and byte offset `8 · index L`. -/
theorem recursive_window_addresses (va : W) :
    (E va 0).toNat = 2 ^ 64 - 2 ^ 12 + 8 * kidx va 0 ∧
    (E va 1).toNat = 2 ^ 64 - 2 ^ 21 + 2 ^ 12 * kidx va 0 + 8 * kidx va 1 ∧
    (E va 2).toNat = 2 ^ 64 - 2 ^ 30 + 2 ^ 21 * kidx va 0 + 2 ^ 12 * kidx va 1 + 8 * kidx va 2 ∧
    (E va 3).toNat = 2 ^ 64 - 2 ^ 39 + 2 ^ 30 * kidx va 0 + 2 ^ 21 * kidx va 1 + 2 ^ 12 * kidx va 2 + 8 * kidx va 3 :=
  ⟨E0_toNat va, E1_toNat va, E2_toNat va, E3_toNat va⟩

/-- **The recursive-mapping trick is sound.** If the active root's last entry points to `R` and `R`'s
last entry to itself, then for every `va` and level `L`: when `T` is the level-`L` table on `va`'s
path, the entry address computed by `walk` dereferences — through the hardware walk from CR3 — to
word `kidx va L` of exactly that table. -/
theorem recursive_window {st : St} {R : W} (hw : Window st R) (va : W) (L : Nat) (T : W) (hL : L ≤ 3)
    (hc : Chain st.mem R va L T) (hb : st.mem.backed (frameN T) = true) :
    ptePtr st (E va L) = some (frameN T, kidx va L) :=
  ptePtr_E hw va L T hL hc hb

/-- **Translate.** Through the window, `Translate va` returns exactly what the hardware finds when it
walks the tables of `R` (`frame·4096 + va mod 4096` of the leaf entry), or `ErrInvalidMapping` when a
level is not present; it changes nothing. (`Sane`: the tables on the path are RAM, no huge bits.) -/
theorem translate_correct {st : St} {R : W} (hw : Window st R) (va : W) (hs : Sane st.mem R va) :
    translate st va =
      .ok ((match mmuWalk st.mem va [39, 30, 21, 12] R with
            | some pa => (0, pa)
            | none => (eInvalidMapping, 0)), st) :=
  translate_eq_hw hw va hs

/-- `Map` on a page whose three upper levels exist, at the level of individual memory words: exactly
one word of physical memory changes, to `frame<<12 | flags`; the hardware's resulting translation of
the page; the flush list; no allocation.  (The general case is `map_refines`.) -/
theorem map_present_exact {st : St} {R T1 T2 T3 : W} (page frame flags : W) (hw : Window st R)
    (p : Path st.mem R (pageAddr page) T1 T2 T3)
    (hd : frameN T3 ≠ frameN R ∧ frameN T3 ≠ frameN T1 ∧ frameN T3 ≠ frameN T2)
    (hf : FrameOK frame) (hfl : FlagsOK flags)
    (hg : (st.protect && frame == st.zeroFrame && (flags &&& fRW) != 0) = false) :
    ∃ st', mapOp st page frame flags = .ok (0, st') ∧
      (∀ F j, st'.mem.rd F j =
        if F = frameN T3 ∧ j = kidx (pageAddr page) 3 then (frame <<< 12) ||| flags else st.mem.rd F j) ∧
      mmuWalk st'.mem (pageAddr page) [39, 30, 21, 12] R =
        (if flags &&& 1#64 = 0#64 then none else some ((frame <<< 12) + (pageAddr page &&& 0xfff#64))) ∧
      st'.flushes = st.flushes ++ [pageAddr page] ∧ st'.free = st.free ∧ st'.cr3 = st.cr3 := by
  refine ⟨_, mapOp_present page frame flags hw p hg, ?_, ?_, rfl, rfl, rfl⟩
  · intro F j
    simp only [St.flush, St.wrLoc, rd_wr, mkEntry_eq]
    by_cases h : F = frameN T3 ∧ j = kidx (pageAddr page) 3
    · obtain ⟨rfl, rfl⟩ := h; simp
    · have : ¬(frameN T3 = F ∧ kidx (pageAddr page) 3 = j) := fun hh => h ⟨hh.1.symm, hh.2.symm⟩
      simp [h, this]
  · have := mmuWalk_leaf_written p (mkEntry frame flags) hd
    simp only [St.flush, St.wrLoc]
    rw [this, mkEntry_low 1#64 (by decide), mkEntry_frame hf hfl]

/-- **Allocation failure changes nothing.** The page's path exists down to level `L < 3`, the
level-`L` entry is empty and the allocator fails: `Map` returns the allocator's error and the state
(every word of memory, so every translation of every page) is exactly as before. -/
theorem map_alloc_failure {st : St} {R : W} (page frame flags : W) (hw : Window st R) (L : Nat) (hL : L < 3) (T : W)
    (hc : Chain st.mem R (pageAddr page) L T) (hb : st.mem.backed (frameN T) = true)
    (hp : st.mem.rd (frameN T) (kidx (pageAddr page) L) &&& 1#64 = 0#64)
    (hh : st.mem.rd (frameN T) (kidx (pageAddr page) L) &&& 128#64 = 0#64)
    (hf : st.free = [])
    (hg : (st.protect && frame == st.zeroFrame && (flags &&& fRW) != 0) = false) :
    mapOp st page frame flags = .ok (eAlloc, st) :=
  mapOp_allocfail page frame flags hw L hL T hc hb hp hh hf hg

/-- **Creating one new level** (any of the three upper levels, any state): `Map`'s callback links the
allocator's frame `f` with Present|RW into the empty level-`L` entry and clears *exactly* frame `f` —
the Memset address it computes from the entry's own virtual address resolves to `f` through the
window — the window stays intact and the path continues through the (empty) new table. -/
theorem map_new_level_step {st : St} {R : W} (va : W) (L : Nat) (hL : L < 3) (T : W) (hw : Window st R)
    (hc : Chain st.mem R va L T) (hb : st.mem.backed (frameN T) = true)
    (hp : st.mem.rd (frameN T) (kidx va L) &&& 1#64 = 0#64) (hh : st.mem.rd (frameN T) (kidx va L) &&& 128#64 = 0#64)
    {f : W} {rest : List W} (hf : st.free = f :: rest) (hfo : FrameOK f) (hfb : st.mem.backed f.toNat = true)
    (hA : f.toNat ≠ frameN (st.cr3 &&& hwMask)) (hR : f.toNat ≠ frameN R)
    (hfc : ∀ k T', k ≤ L → Chain st.mem R va k T' → f.toNat ≠ frameN T')
    (hlocA : ¬(frameN T = frameN (st.cr3 &&& hwMask) ∧ kidx va L = 511))
    (hlocR : ¬(frameN T = frameN R ∧ kidx va L = 511))
    (hlc : ∀ k T', k < L → Chain st.mem R va k T' → ¬(frameN T = frameN T' ∧ kidx va L = kidx va k))
    (page frame flags : W) (err : Nat) :
    mapCb page frame flags L (E va L) (frameN T, kidx va L) err st =
      .ok ((true, err), allocStep st f rest (frameN T, kidx va L)) ∧
    Window (allocStep st f rest (frameN T, kidx va L)) R ∧
    Chain (allocStep st f rest (frameN T, kidx va L)).mem R va (L + 1) (f <<< 12) ∧
    (∀ j, (allocStep st f rest (frameN T, kidx va L)).mem.rd f.toNat j = 0) :=
  have h := newLevel va L hL T hw hc hb hp hh hf hfo hfb hA hR hfc hlocA hlocR hlc page frame flags err
  ⟨h.1, h.2.1, h.2.2, fun j => by simp [allocStep, St.wrLoc]⟩

/-- **`Map` creating the leaf table** (one new level, whole operation): the path exists down to the
level-2 table whose entry is empty, the allocator hands out a fresh frame `f`.  `Map` succeeds; `f`
is consumed; afterwards the hardware translates the page to `(frame, flags)`; the new table `f` is
empty except for the page's entry; the page is flushed. -/
theorem map_new_leaf_table {st : St} {R T1 T2 : W} (page frame flags : W) (hw : Window st R)
    (l0 : Link st.mem R (kidx (pageAddr page) 0) T1) (l1 : Link st.mem T1 (kidx (pageAddr page) 1) T2)
    (hb2 : st.mem.backed (frameN T2) = true)
    (hp : st.mem.rd (frameN T2) (kidx (pageAddr page) 2) &&& 1#64 = 0#64)
    (hh : st.mem.rd (frameN T2) (kidx (pageAddr page) 2) &&& 128#64 = 0#64)
    {f : W} {rest : List W} (hf : st.free = f :: rest) (hfo : FrameOK f) (hfb : st.mem.backed f.toNat = true)
    (hfd : f.toNat ≠ frameN (st.cr3 &&& hwMask) ∧ f.toNat ≠ frameN R ∧ f.toNat ≠ frameN T1 ∧ f.toNat ≠ frameN T2)
    (htd : frameN T2 ≠ frameN (st.cr3 &&& hwMask) ∧ frameN T2 ≠ frameN R ∧ frameN T2 ≠ frameN T1)
    (hfr : FrameOK frame) (hfl : FlagsOK flags)
    (hg : (st.protect && frame == st.zeroFrame && (flags &&& fRW) != 0) = false) :
    ∃ st', mapOp st page frame flags = .ok (0, st') ∧ st'.free = rest ∧
      st'.flushes = st.flushes ++ [pageAddr page] ∧
      mmuWalk st'.mem (pageAddr page) [39, 30, 21, 12] R =
        (if flags &&& 1#64 = 0#64 then none else some ((frame <<< 12) + (pageAddr page &&& 0xfff#64))) ∧
      (∀ j, j ≠ kidx (pageAddr page) 3 → st'.mem.rd f.toNat j = 0) := by
  obtain ⟨hm, hpath⟩ := mapOp_new_leaf_table page frame flags hw l0 l1 hb2 hp hh hf hfo hfb hfd htd hg
  have hfN : frameN (f <<< 12) = f.toNat := frameN_shl12 hfo
  refine ⟨_, hm, rfl, rfl, ?_, ?_⟩
  · have := mmuWalk_leaf_written hpath (mkEntry frame flags)
      (by rw [hfN]; exact ⟨hfd.2.1, hfd.2.2.1, hfd.2.2.2⟩)
    rw [hfN] at this
    simp only [St.flush, St.wrLoc]
    rw [this, mkEntry_low 1#64 (by decide), mkEntry_frame hfr hfl]
  · intro j hj
    simp only [St.flush, St.wrLoc, allocStep, rd_wr, rd_setFrame]
    rw [if_neg (fun h => hj h.2.symm)]
    simp

/-- **All other pages unchanged** by a store to one page-table word: the hardware translation of any
`va'` whose path never reads that word is the same before and after.  (With `map_present_exact` /
`unmap_refines`: the stored word is the leaf entry of the mapped page; in a tree of tables only the
page itself reads it.) -/
theorem other_pages_unchanged (m : Mem) (R : W) (F j : Nat) (v : W) (va' : W)
    (htop : m.rd (frameN R) (kidx va' 0) &&& 128#64 = 0#64)
    (hav : ∀ L T, L ≤ 3 → Chain m R va' L T → ¬(F = frameN T ∧ j = kidx va' L)) :
    mmuWalk (m.wr F j v) va' [39, 30, 21, 12] R = mmuWalk m va' [39, 30, 21, 12] R :=
  mmuWalk_wr_avoid m R F j v va' htop hav

/-- **Unmap**, page present down to its leaf table: the present bit of the leaf entry is cleared
(every other bit of every word of memory is kept), the hardware no longer translates the page, the
page is flushed, nothing is allocated. -/
theorem unmap_refines {st : St} {R T1 T2 T3 : W} (page : W) (hw : Window st R)
    (p : Path st.mem R (pageAddr page) T1 T2 T3)
    (hd : frameN T3 ≠ frameN R ∧ frameN T3 ≠ frameN T1 ∧ frameN T3 ≠ frameN T2) :
    ∃ st', unmapOp st page = .ok (0, st') ∧
      (∀ F j, st'.mem.rd F j =
        if F = frameN T3 ∧ j = kidx (pageAddr page) 3 then st.mem.rd F j &&& ~~~1#64 else st.mem.rd F j) ∧
      mmuWalk st'.mem (pageAddr page) [39, 30, 21, 12] R = none ∧
      st'.flushes = st.flushes ++ [pageAddr page] ∧ st'.free = st.free := by
  refine ⟨_, unmapOp_present page hw p, ?_, ?_, rfl, rfl⟩
  · intro F j
    simp only [St.flush, St.wrLoc, rd_wr, clearFlags]
    have : fPresent = 1#64 := by decide
    rw [this]
    by_cases h : F = frameN T3 ∧ j = kidx (pageAddr page) 3
    · obtain ⟨rfl, rfl⟩ := h; simp
    · have : ¬(frameN T3 = F ∧ kidx (pageAddr page) 3 = j) := fun hh => h ⟨hh.1.symm, hh.2.symm⟩
      simp [h, this]
  · have := mmuWalk_leaf_written p (clearFlags (st.mem.rd (frameN T3) (kidx (pageAddr page) 3)) fPresent) hd
    simp only [St.flush, St.wrLoc]
    rw [this, if_pos]
    have : fPresent = 1#64 := by decide
    rw [clearFlags, this, BitVec.and_assoc]
    have : ~~~1#64 &&& 1#64 = 0#64 := by decide
    rw [this]; simp

/-- **Unmap of a page whose level `L < 3` is missing** reports `ErrInvalidMapping` and changes nothing. -/
theorem unmap_unmapped {st : St} {R : W} (page : W) (hw : Window st R) (L : Nat) (hL : L < 3) (T : W)
    (hc : Chain st.mem R (pageAddr page) L T) (hb : st.mem.backed (frameN T) = true)
    (hp : st.mem.rd (frameN T) (kidx (pageAddr page) L) &&& 1#64 = 0#64) :
    unmapOp st page = .ok (eInvalidMapping, st) :=
  unmapOp_absent page hw L hL T hc hb hp

/-- `PageDirectoryTable.Map` on an inactive table whose path for the page exists, word by word: every
word of physical memory except the leaf entry in the inactive table's own leaf table is bit-identical
afterwards (the active root's last entry has been swapped and restored); flushes: swapped entry,
page, restored entry.  (The general case is `inactive_leaves_active_bit_identical`.) -/
theorem inactive_present_exact {st : St} {A P T1 T2 T3 : W} (h : Inactive st A P)
    (page frame flags : W) (p : Path st.mem (P <<< 12) (pageAddr page) T1 T2 T3)
    (hd : A.toNat ≠ frameN T1 ∧ A.toNat ≠ frameN T2 ∧ A.toNat ≠ frameN T3)
    (hg : (st.protect && frame == st.zeroFrame && (flags &&& fRW) != 0) = false) :
    ∃ st', pdtMap st P page frame flags = .ok (0, st') ∧
      (∀ F j, ¬(F = frameN T3 ∧ j = kidx (pageAddr page) 3) → st'.mem.rd F j = st.mem.rd F j) ∧
      st'.mem.rd (frameN T3) (kidx (pageAddr page) 3) = mkEntry frame flags ∧
      st'.flushes = st.flushes ++ [frameAddr A + lastEntryOff, pageAddr page, frameAddr A + lastEntryOff] ∧
      st'.cr3 = st.cr3 := by
  obtain ⟨st', h1, h2, h3, h4, _⟩ := pdtMap_inactive_present h page frame flags p hd hg
  refine ⟨st', h1, ?_, ?_, h3, h4⟩
  · intro F j hne; rw [h2, if_neg hne]
  · rw [h2, if_pos ⟨rfl, rfl⟩]

/-- **map_refines — `Map` in every case.**  `Good st R own`: the tables reachable from `R` form a tree
(ghost map `own`), seen through the active root's recursive window, and the frames the allocator
will hand out are RAM, < 2^40, pairwise distinct and outside the tree.  For every such state, every
page outside the recursive slot, every frame and every flag word, `Map` never faults and:
* on success (code 0) the abstract address space is the old one updated at the page to the entry
  `frame<<12 | flags` (absent if the flags lack Present) — *all other pages unchanged* — and the
  flush list is `[page]`;
* on any error nothing is flushed and *no page's translation changes*; the error is the allocator's
  (the allocator is then empty — possibly after some new, empty levels were created) or the
  zero-frame guard's (state untouched);
* every table created by the call is all-zero except the entry on the page's path; memory outside
  the tree is untouched; the tree only grows, by frames taken from the front of the allocator;
  the state is `Good` again (so the statement composes over histories). -/
theorem map_refines {st : St} {R : W} {own : Own} (g : Good st R own) (page frame flags : W)
    (hu : UserVA (pageAddr page)) :
    ∃ code st' own', mapOp st page frame flags = .ok (code, st') ∧ Good st' R own' ∧
      (code = 0 → st'.flushes = st.flushes ++ [pageAddr page] ∧
        ∀ va', UserVA va' → hwEntry st'.mem R va' =
          if SamePage va' (pageAddr page) then
            (if mkEntry frame flags &&& 1#64 = 0#64 then none else some (mkEntry frame flags))
          else hwEntry st.mem R va') ∧
      (code ≠ 0 → st'.flushes = st.flushes ∧ (∀ va', UserVA va' → hwEntry st'.mem R va' = hwEntry st.mem R va') ∧
        ((code = eAlloc ∧ st'.free = []) ∨
         (code = eRWZero ∧ st' = st ∧ st.protect = true ∧ frame = st.zeroFrame ∧ (flags &&& fRW) ≠ 0))) ∧
      (∀ F L pre j, own F = none → own' F = some (L, pre) → st'.mem.rd F j ≠ 0#64 → j = kidx (pageAddr page) L) ∧
      (∀ F j, own' F = none → st'.mem.rd F j = st.mem.rd F j) ∧
      (∀ F x, own F = some x → own' F = some x) ∧ (∃ used, st.free = used ++ st'.free) ∧ SameRegs st st' := by
  obtain ⟨code, st', own', h1, post, out⟩ := mapOp_full g page frame flags hu
  refine ⟨code, st', own', h1, post.good, ?_, ?_, post.newz, post.foot, post.ext, post.sub, post.regs⟩
  · intro hc
    rcases out with (⟨_, h2, h3⟩ | ⟨h1', _⟩) | ⟨h1', _⟩
    · exact ⟨h2, h3⟩
    · rw [h1'] at hc; simp [eAlloc] at hc
    · rw [h1'] at hc; simp [eRWZero] at hc
  · intro hc
    rcases out with (⟨h1', _⟩ | ⟨h1', h2, h3, h4⟩) | ⟨h1', h2, h3, h4, h5⟩
    · exact absurd h1' hc
    · exact ⟨h3, h4, Or.inl ⟨h1', h2⟩⟩
    · subst h2; exact ⟨rfl, fun _ _ => rfl, Or.inr ⟨h1', rfl, h3, h4, h5⟩⟩

/-- **unmap_full — `Unmap` in every case**: either the page's leaf table exists — then the present bit
of its entry is cleared, the page is absent afterwards, all other pages are unchanged, the page is
flushed, nothing is allocated and memory outside the tree is untouched — or a level is missing — then
`ErrInvalidMapping` is returned, the page was already absent and the state is unchanged. -/
theorem unmap_full {st : St} {R : W} {own : Own} (g : Good st R own) (page : W) (hu : UserVA (pageAddr page)) :
    ∃ code st', unmapOp st page = .ok (code, st') ∧
      ((code = 0 ∧ Good st' R own ∧ SameRegs st st' ∧ st'.free = st.free ∧
          st'.flushes = st.flushes ++ [pageAddr page] ∧
          (∀ F j, own F = none → st'.mem.rd F j = st.mem.rd F j) ∧
          (∀ F L pre j, own F = some (L, pre) → st'.mem.rd F j ≠ st.mem.rd F j →
            L = 3 ∧ pre = idxs (pageAddr page) 3 ∧ j = kidx (pageAddr page) 3) ∧
          ∀ va', UserVA va' → hwEntry st'.mem R va' =
            if SamePage va' (pageAddr page) then none else hwEntry st.mem R va') ∨
       (code = eInvalidMapping ∧ st' = st ∧ hwEntry st.mem R (pageAddr page) = none)) :=
  unmapOp_full g page hu

/-- **Translate, abstractly**: for every address outside the recursive slot, `Translate` returns the
abstract entry's frame address plus the page offset, or `ErrInvalidMapping` if the page is absent,
and changes nothing. -/
theorem translate_abstract {st : St} {R : W} {own : Own} (g : Good st R own) (va : W) (hu : UserVA va) :
    translate st va =
      .ok ((match hwEntry st.mem R va with
            | some e => (0, (e &&& hwMask) + (va &&& 0xfff#64))
            | none => (eInvalidMapping, 0)), st) :=
  translate_abs g va hu

/-- **history — every sequence of `Map` / `Unmap` requests.**  From every well-formed state, for every
list of requests on pages outside the recursive slot (any frames, any flags, allocator running out
anywhere): no request faults, the state stays well formed, and the address space the hardware sees
afterwards is the fold of the abstract updates (`absStep`): the most recent successful `Map` of a
page wins, a page unmapped or never mapped is absent, a request never affects another page, a failed
request affects nothing. -/
theorem history {R : W} (ops : List Op) (st : St) (own : Own) (g : Good st R own)
    (hu : ∀ op ∈ ops, UserVA (pageAddr op.page)) :
    ∃ codes st' own', runOps st ops = .ok (codes, st') ∧ codes.length = ops.length ∧ Good st' R own' ∧
      SameRegs st st' ∧
      ∀ va', UserVA va' → hwEntry st'.mem R va' = absRun (hwEntry st.mem R) ops codes va' :=
  history_refines ops st own g hu

/-- the fold is decided from the end: the last request on a page determines its entry -/
theorem history_last_wins (as : AS) (ops : List Op) (cs : List Nat) (op : Op) (c : Nat) (h : cs.length = ops.length) :
    absRun as (ops ++ [op]) (cs ++ [c]) = absStep (absRun as ops cs) op c :=
  absRun_snoc as ops cs op c h

/-- **inactive_leaves_active_bit_identical — `PageDirectoryTable.Map` on a table that is not active,
every case.**  `Dual st A P ownA ownP`: the active address space (root frame `A`) and the inactive one
(root frame `P`) are both well formed and share no table; the allocator's frames belong to neither.
Then for every page outside the recursive slot, every frame and flags, whatever number of new levels
the call creates and wherever the allocator fails: the call never faults; *every word of memory that
is not part of the inactive table's own tree is bit-identical afterwards* — all tables of the active
address space, the active root's last entry (swapped and restored) included; CR3 is unchanged; the
inactive address space changes exactly as `map_refines` says; flushes are swapped entry, (page,)
restored entry; both address spaces are again well formed and disjoint. -/
theorem inactive_leaves_active_bit_identical {st : St} {A P : W} {ownA ownP : Own} (d : Dual st A P ownA ownP)
    (page frame flags : W) (hu : UserVA (pageAddr page)) :
    ∃ code st' ownP', pdtMap st P page frame flags = .ok (code, st') ∧ Dual st' A P ownA ownP' ∧
      (∀ F x, ownP F = some x → ownP' F = some x) ∧
      (∀ F j, ownP' F = none → st'.mem.rd F j = st.mem.rd F j) ∧
      (∀ F x, ownA F = some x → ∀ j, st'.mem.rd F j = st.mem.rd F j) ∧
      SameRegs st st' ∧ (∃ used, st.free = used ++ st'.free) ∧
      PdtOutcome st st' A P (pageAddr page) (mkEntry frame flags) code frame flags := by
  obtain ⟨code, st', ownP', h1, d', h2, h3, h4, h5, h6⟩ := pdtMap_full d page frame flags hu
  refine ⟨code, st', ownP', h1, d', h2, h3, ?_, h4, h5, h6⟩
  intro F x hF j
  exact h3 F j (d'.disj F (by rw [hF]; simp))

/-- the same for `PageDirectoryTable.Unmap` on an inactive table: no fault, every word outside the
inactive tree (all active tables, entry 511 swapped and restored) bit-identical, the inactive address
space loses the page or `ErrInvalidMapping` is returned and nothing changes. -/
theorem inactive_unmap_leaves_active_bit_identical {st : St} {A P : W} {ownA ownP : Own}
    (d : Dual st A P ownA ownP) (page : W) (hu : UserVA (pageAddr page)) :
    ∃ code st', pdtUnmap st P page = .ok (code, st') ∧ Dual st' A P ownA ownP ∧
      (∀ F j, ownP F = none → st'.mem.rd F j = st.mem.rd F j) ∧ SameRegs st st' ∧ st'.free = st.free ∧
      ((code = 0 ∧ ∀ va', UserVA va' → hwEntry st'.mem (P <<< 12) va' =
          if SamePage va' (pageAddr page) then none else hwEntry st.mem (P <<< 12) va') ∨
       (code = eInvalidMapping ∧ hwEntry st.mem (P <<< 12) (pageAddr page) = none ∧
          ∀ va', UserVA va' → hwEntry st'.mem (P <<< 12) va' = hwEntry st.mem (P <<< 12) va')) :=
  pdtUnmap_full d page hu

/-- **Region mapping maps exactly the pages of the region**: the page loop of `MapRegion` /
`IdentityMapRegion` is `Map` applied, in order, to `n` consecutive pages paired with `n` consecutive
frames (stopping at the first error), and `n = ⌈size / 4096⌉`. -/
theorem region_pages (flags : W) (n : Nat) (page frame : W) (st : St) :
    mapLoop flags n page frame st = seqMap flags (run page frame n) st ∧
    (run page frame n).length = n ∧
    (∀ i, i < n → (run page frame n)[i]? = some (page + BitVec.ofNat 64 i, frame + BitVec.ofNat 64 i)) ∧
    (∀ size : W, roundWraps size = false → (roundUp size >>> pageShift).toNat = (size.toNat + 4095) / 4096) :=
  ⟨mapLoop_eq_seqMap flags n page frame st, run_length page frame n, fun i hi => run_get page frame n i hi,
    roundUp_pages⟩

/-- **region_refines — the page loop of `MapRegion` / `IdentityMapRegion` at the level of address
spaces** (with `region_pages`: that loop is `seqMap` over `n = ⌈size/4096⌉` consecutive pages and
frames): it never faults, the address space stays well formed, and afterwards it is the old address
space with the first `k` requests applied in order — `k` is all of them on success; on the
allocator's (or the guard's) error the pages before the failing one are mapped and nothing else
changed. -/
theorem region_refines {R : W} (fl : W) (l : List (W × W)) (st : St) (own : Own) (g : Good st R own)
    (hu : ∀ x ∈ l, UserVA (pageAddr x.1)) :
    ∃ code st' own' k, seqMap fl l st = .ok (code, st') ∧ Good st' R own' ∧ SameRegs st st' ∧ k ≤ l.length ∧
      (∀ F x, own F = some x → own' F = some x) ∧
      (∀ F j, own' F = none → st'.mem.rd F j = st.mem.rd F j) ∧
      (∀ va', UserVA va' → hwEntry st'.mem R va' = applyCalls (hwEntry st.mem R) (withFlags fl (l.take k)) va') ∧
      (code = 0 → k = l.length) ∧ (code ≠ 0 → code = eAlloc ∨ code = eRWZero) :=
  seqMap_full fl l st own g hu

/-- **pdt_init_refines — `PageDirectoryTable.Init` of a fresh frame** (RAM, < 2^40, not a table, not in
the allocator, not the active root; temporary mapping not refused): either the temporary mapping
cannot get its tables (allocator error returned, CR3 unchanged), or `P` becomes a well-formed, empty
address space (one all-zero table whose last entry maps itself, Present|RW) disjoint from the active
one, whose entries are unchanged except that the temporary page ends unmapped. -/
theorem pdt_init_refines {st : St} {A P : W} {ownA : Own} (g : Good st (A <<< 12) ownA) (hcr3 : st.cr3 = A <<< 12)
    (hfa : FrameOK A) (hfo : FrameOK P) (hpb : st.mem.backed P.toNat = true) (hpn : ownA P.toNat = none)
    (hpf : ∀ f ∈ st.free, f.toNat ≠ P.toNat) (hpa : P.toNat ≠ A.toNat) (htf : st.tmpFail = false)
    (hz : (st.protect && P == st.zeroFrame) = false) :
    ∃ code st', pdtInit st P = .ok (code, st') ∧
      ((code = 0 ∧ ∃ ownA', InitPost st st' A P ownA ownA') ∨
       (code = eAlloc ∧ st'.free = [] ∧ st'.cr3 = st.cr3)) :=
  pdtInit_full g hcr3 hfa hfo hpb hpn hpf hpa htf hz

/-! ## `kernel.Memset` / `kernel.Memcopy` (mem_util.go) — inside the model, not assumed -/

/-- **memset_fills.** `Memset` as written (`target[0] = value`, then doubling `copy` calls with a 64-bit
index), for every memory, address, value and every size ≤ 2^63: it terminates; exactly the `size`
bytes at `addr` become `value`; every other byte is unchanged; the loop body runs `it` times with
`2^(it-1) < size ≤ 2^it` — ⌈log2 size⌉ doublings, at most 63.  (`size = 0`: nothing happens.) -/
theorem memset_fills (mem : Firefly.MemUtil.Bytes) (addr : Nat) (v : Firefly.MemUtil.Byte) (size : BitVec 64)
    (hs : size.toNat ≤ 2 ^ 63) :
    ∃ mem' it, Firefly.MemUtil.memset mem addr v size = .done mem' it ∧
      (∀ i, mem' i = if addr ≤ i ∧ i < addr + size.toNat then v else mem i) ∧
      (size ≠ 0 → size.toNat ≤ 2 ^ it ∧ (it ≠ 0 → 2 ^ (it - 1) < size.toNat)) ∧ it ≤ 63 :=
  Firefly.MemUtil.memset_fills_core mem addr v size hs

/-- the domain bound is sharp: for `size = 2^63 + 1` the index wraps to 0 and the loop never ends -/
theorem memset_needs_size_le_2_63 :
    (match Firefly.MemUtil.memset (fun _ => 0) 0 0 (BitVec.ofNat 64 (2 ^ 63 + 1)) with
      | .hang => true | .done _ _ => false) = true :=
  Firefly.MemUtil.memset_hangs_witness

/-- **memcopy_copies.** `Memcopy(src, dst, size)`: the `size` bytes at `dst` become the bytes that were at
`src` (Go's `copy` reads the source first), every other byte is unchanged; `size = 0`: nothing. -/
theorem memcopy_copies (mem : Firefly.MemUtil.Bytes) (src dst : Nat) (size : BitVec 64) (i : Nat) :
    Firefly.MemUtil.memcopy mem src dst size i =
      if dst ≤ i ∧ i < dst + size.toNat then mem (src + (i - dst)) else mem i :=
  Firefly.MemUtil.memcopy_copies_core mem src dst size i

/-- **clearTable_eq_memset.** The model's "clear frame `f`" step — what `map_refines`' "new tables are
all-zero", `pdt_init_refines` and `reserve_zeroed_frame` rest on — *is* `Memset(f·4096, 0, 4096)` as
written, applied to the byte view of the model's memory: it terminates after 12 doublings and the two
memories agree on every byte. -/
theorem clearTable_eq_memset (m : Mem) (f : Nat) :
    ∃ mem' it, Firefly.MemUtil.memset (byteView m) (f * 4096) 0 4096#64 = .done mem' it ∧ it = 12 ∧
      ∀ pa, mem' pa = byteView (m.setFrame f (fun _ => 0)) pa :=
  Firefly.Vmm.clearTable_eq_memset m f

/-- **flags_architectural.** The kernel's flag constants and frame mask, as regenerated from the compiled
package, are the x86-64 page-table entry bits — stated against *literals*, so a constant that drifts
(e.g. an alias inserted into the `iota` block) breaks this theorem: Present bit 0, RW 1, User 2,
WriteThrough 3, NoCache 4, Accessed 5, Dirty 6, HugePage 7, Global 8, CopyOnWrite 9 (software),
NoExecute 63, frame field bits 12–51; 4 levels of 9 bits at shifts 39/30/21/12. -/
theorem flags_architectural :
    Firefly.Gen.C04.flagPresent = 2 ^ 0 ∧ Firefly.Gen.C04.flagRW = 2 ^ 1 ∧
    Firefly.Gen.C04.flagUserAccessible = 2 ^ 2 ∧ Firefly.Gen.C04.flagWriteThroughCaching = 2 ^ 3 ∧
    Firefly.Gen.C04.flagDoNotCache = 2 ^ 4 ∧ Firefly.Gen.C04.flagAccessed = 2 ^ 5 ∧
    Firefly.Gen.C04.flagDirty = 2 ^ 6 ∧ Firefly.Gen.C04.flagHugePage = 2 ^ 7 ∧
    Firefly.Gen.C04.flagGlobal = 2 ^ 8 ∧ Firefly.Gen.C04.flagCopyOnWrite = 2 ^ 9 ∧
    Firefly.Gen.C04.flagNoExecute = 2 ^ 63 ∧ Firefly.Gen.C04.ptePhysPageMask = 0x000ffffffffff000 ∧
    Firefly.Gen.C04.pageLevels = 4 ∧ Firefly.Gen.C04.pageLevelBits = [9, 9, 9, 9] ∧
    Firefly.Gen.C04.pageLevelShifts = [39, 30, 21, 12] ∧ Firefly.Gen.C04.pageShift = 12 := by decide

/-- D13 (domain boundary): `SetFrame` does not mask the frame number: frame 2^40 spills into bit 52
and the hardware frame field reads 0.  Frame numbers < 2^40 (`FrameOK`) are a hypothesis above. -/
theorem setframe_needs_40_bits :
    frameOf (setFrame 0 (w (2 ^ 40))) = 0 ∧ setFrame 0 (w (2 ^ 40)) &&& ~~~physMask ≠ 0 := by decide

/-! ## non-vacuity: a concrete state with a recursive root and a mapped path -/

/-- root = frame 1 (entry 511 → itself, entry 0 → frame 2), frame 2 [0] → 3, frame 3 [0] → 4 -/
def exSt : St :=
  { mem := { base := 0, n := 16,
             log := [.word 1 511 0x1003#64, .word 1 0 0x2003#64, .word 2 0 0x3003#64, .word 3 0 0x4003#64] },
    cr3 := 0x1000#64 }

example : Window exSt 0x1000#64 :=
  ⟨⟨by decide, by decide, by decide, by decide⟩, ⟨by decide, by decide, by decide, by decide⟩⟩
example : Path exSt.mem 0x1000#64 (pageAddr 0) 0x2000#64 0x3000#64 0x4000#64 :=
  ⟨⟨by decide, by decide, by decide, by decide⟩, ⟨by decide, by decide, by decide, by decide⟩,
   ⟨by decide, by decide, by decide, by decide⟩, by decide⟩
example : FrameOK 77#64 ∧ FlagsOK 3#64 := by unfold FrameOK FlagsOK; decide
example : (mapOp exSt 0 77#64 3#64).toOption.map (·.1) = some 0 := by decide


/-- the hypothesis of `map_refines` / `history` holds of the boot state (`Proof/VmmBoot.lean`): every
history from boot is covered -/
example : Good bootSt 0x1000#64 bootOwn := boot_good

example : UserVA (pageAddr 0x12345#64) := by unfold UserVA; decide

end Firefly.C04
