import Firefly.Proof.PmmBoot
/-!
# C02 — Early-boot allocator: ascending unique frames, never kernel or reserved RAM

Statement (properties.jsonl): before the main allocator exists, each early allocation returns a
frame that lies wholly inside available RAM, outside the kernel image, and strictly above every
frame returned earlier; when no such frame remains it reports out-of-memory instead of returning a
frame. Repeating the same number of allocations from a reset state returns the same frames in the
same order, so the frames consumed during boot can be recovered exactly at hand-over.

Domain hypotheses (the property's quantifier): the memory map is sorted and non-overlapping
(`SortedMap`), the kernel image has a page-aligned start and lies inside one available region
(`KernelPlaced`). Frames and addresses are unbounded naturals; the Go code's `uint64` arithmetic
agrees with it when `addr + len < 2^64`, which the bootloader guarantees (trusted; the
correspondence run compares model and code on such maps).
-/
namespace Firefly.C02
open Firefly.Pmm Firefly.Gen.Pmm

/-- a frame of a candidate region is wholly inside that (available) region's bytes -/
theorem frame_wholly_inside (r : Region) (f : Nat) (h1 : regionStart r ≤ f) (h2 : f < regionEndExcl r) :
    r.addr ≤ f * 4096 ∧ (f + 1) * 4096 ≤ r.addr + r.len := by
  have e : pageSize = 4096 := by decide
  simp only [regionStart, regionEndExcl, e] at h1 h2
  omega

/-- **boot_sound** — one early allocation from any state reached by successful allocations:
the frame lies wholly inside a region reported available, is not a kernel frame, is strictly above
the previous frame, and the allocation count goes up by one. -/
theorem boot_sound (m : List Region) (ksA keA : Nat) (hs : SortedMap m) (hp : KernelPlaced m ksA keA)
    (b b' : Boot) (f : Nat) (hks : b.kStart = (bootInit ksA keA).kStart)
    (hke : b.kEnd = (bootInit ksA keA).kEnd) (hb : BootOk b) (h : bootAlloc m b = (b', some f)) :
    (∃ r ∈ m, r.typ = memAvailable ∧ r.addr ≤ f * 4096 ∧ (f + 1) * 4096 ≤ r.addr + r.len) ∧
    ¬ (ksA / 4096 ≤ f ∧ f * 4096 < keA) ∧
    (b.allocCount ≠ 0 → b.last < f) ∧ b'.last = f ∧ b'.allocCount = b.allocCount + 1 ∧ BootOk b' := by
  have hgeo := geo_of_placed hs hp
  have ok := bootAlloc_sound (b := b) (by rw [hks, hke]; exact hgeo) (chain_of_sorted hs)
    (by rw [hks, hke]; exact bootInit_k_le hp.nonempty) hb h
  obtain ⟨r, hr, hc, h1, h2⟩ := ok.inRegion
  refine ⟨⟨r, hr, hc.1, frame_wholly_inside r f h1 h2⟩, ?_, ok.above, ok.last, ok.count, ok.ok⟩
  have nk := ok.notKernel
  rw [hks, hke] at nk
  unfold bootInit at nk
  simp only at nk
  have : pageSize = 4096 := by decide
  rw [this] at nk
  have := hp.nonempty
  omega

/-- **boot_strictly_ascending** — any number of successful allocations from the reset state
returns a strictly increasing (hence duplicate-free) list of frames, each wholly inside available
RAM and outside the kernel image. -/
theorem boot_strictly_ascending (m : List Region) (ksA keA : Nat) (hs : SortedMap m)
    (hp : KernelPlaced m ksA keA) (n : Nat) (b' : Boot) (fs : List Nat)
    (h : bootRun m n (bootInit ksA keA) = some (b', fs)) :
    fs.length = n ∧ b'.allocCount = n ∧ fs.Pairwise (· < ·) ∧
    ∀ f ∈ fs, ¬ (ksA / 4096 ≤ f ∧ f * 4096 < keA) ∧
      ∃ r ∈ m, r.typ = memAvailable ∧ r.addr ≤ f * 4096 ∧ (f + 1) * 4096 ≤ r.addr + r.len := by
  obtain ⟨h1, h2, _, _, _, h6, h7, _⟩ := bootRun_sound (chain_of_sorted hs) (bootInit_k_le hp.nonempty) n
    (bootInit ksA keA) rfl rfl (geo_of_placed hs hp) (bootOk_init _ _) h
  refine ⟨h1, by simpa [bootInit] using h2, h6, ?_⟩
  intro f hf
  obtain ⟨_, nk, r, hr, hc, g1, g2⟩ := h7 f hf
  refine ⟨?_, r, hr, hc.1, frame_wholly_inside r f g1 g2⟩
  unfold bootInit at nk
  simp only at nk
  have : pageSize = 4096 := by decide
  rw [this] at nk
  have := hp.nonempty
  omega

/-- **boot_oom_is_safe** — a failed allocation returns no frame and does not count. -/
theorem boot_oom_is_safe (m : List Region) (b b' : Boot) (h : bootAlloc m b = (b', none)) :
    b'.allocCount = b.allocCount ∧ b'.kStart = b.kStart ∧ b'.kEnd = b.kEnd :=
  bootAlloc_none h

/-- **boot_oom_is_final** — "when no such frame remains it reports out-of-memory": once an
allocation fails, every later allocation fails too and nothing changes any more, so exhaustion is
a stable state and no frame is ever produced after it. -/
theorem boot_oom_is_final (m : List Region) (ksA keA : Nat) (hs : SortedMap m) (hp : KernelPlaced m ksA keA)
    (b b' : Boot) (hks : b.kStart = (bootInit ksA keA).kStart) (hke : b.kEnd = (bootInit ksA keA).kEnd)
    (hb : BootOk b) (h : bootAlloc m b = (b', none)) : bootAlloc m b' = (b', none) :=
  bootAlloc_oom_final (by rw [hks, hke]; exact geo_of_placed hs hp) (chain_of_sorted hs)
    (by rw [hks, hke]; exact bootInit_k_le hp.nonempty) hb h

/-- **replay_exact** — resetting the allocator (count 0, cursor 0) after `n` successful
allocations and allocating `n` times again returns the same frames in the same order. -/
theorem replay_exact (m : List Region) (ksA keA : Nat) (hs : SortedMap m) (hp : KernelPlaced m ksA keA)
    (n : Nat) (b' : Boot) (fs : List Nat) (h : bootRun m n (bootInit ksA keA) = some (b', fs)) :
    bootRun m n { b' with allocCount := 0, last := 0 } = some (b', fs) :=
  Firefly.Pmm.replay_exact m ksA keA n b' fs (chain_of_sorted hs) hp.nonempty (geo_of_placed hs hp) h

/-! ## Non-vacuity: a concrete unaligned three-region map with the kernel in the trailing partial
page of its region (the placement that exposed the defect fixed in /repo commit 62f78c7) -/

def exMap : List Region :=
  [{ addr := 0x1000, len := 0x1800, typ := 1 }, { addr := 0x3000, len := 0x1000, typ := 2 },
   { addr := 0xa000, len := 0xb000, typ := 1 }]

example : SortedMap exMap := by unfold SortedMap exMap; decide
example : KernelPlaced exMap 0x2000 0x2800 :=
  ⟨by decide, by decide, ⟨{ addr := 0x1000, len := 0x1800, typ := 1 }, by simp [exMap], by decide, by decide, by decide⟩⟩
example : (bootRun exMap 3 (bootInit 0x2000 0x2800)).map (·.2) = some [1, 10, 11] := by decide

end Firefly.C02
