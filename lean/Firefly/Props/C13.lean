import Firefly.Gen.C13
import Firefly.Spec.C13
import Firefly.Proof.AmlTree
import Firefly.Proof.AmlTreeOps
import Firefly.Proof.AmlTreeAbs
import Firefly.Proof.AmlTreeFind
/-!
# C13 — Namespace tree stays well-formed and path lookup follows ACPI search rules

Statement (properties.jsonl): after any sequence of object creation, append, insert-after, detach
and free operations, the namespace is a tree: every child's parent and sibling links agree with its
parent's child list in both directions, no freed object is reachable, and freed slots are reused
before the pool grows.  A path lookup over the tree, taking each node's children as its scope,
returns exactly the node ACPI's search rules designate — absolute paths from the root, each `^` one
level up, single-segment names searched in the starting scope and then each enclosing scope,
multi-segment names resolved downward only — and reports not-found otherwise, without ever crashing
on a malformed expression.

Model: `Firefly/Model/AmlTree.lean` (mirror of `obj_tree.go`).  Spec: `Firefly/Spec/C13.lean`
(`WF`, `Forest`, `abs`, `resolve`, `Path`/`encode`, the caller contracts `newPre … freePre`).
-/
namespace Firefly.C13
open Firefly.AmlTree Firefly.AmlTree.ObjectTree

/-- the constants the model uses are the ones the Go code has now -/
theorem tie_constants :
    Firefly.Gen.C13.invalidIndex = InvalidIndex ∧ Firefly.Gen.C13.amlNameLen = amlNameLen ∧
    Firefly.Gen.C13.pOpIntFreedObject = pOpIntFreedObject ∧ Firefly.Gen.C13.pOpScope = pOpScope ∧
    Firefly.Gen.C13.pOpIntScopeBlock = pOpIntScopeBlock := by decide

/-- the certificate checker the replay oracle runs on the implementation's dumped pool is sound:
whatever certificate it is given, acceptance implies `WF`. -/
theorem wfCert_sound {t : ObjectTree} {rk pos : Array Nat} {fl : List Nat}
    (h : wfCert t rk pos fl = true) : WF t := wfCert_sound' h

/-- `wfCheck` (the oracle) accepts only well-formed pools -/
theorem wfCheck_sound {t : ObjectTree} (h : wfCheck t = true) : WF t := by
  unfold wfCheck at h
  exact wfCert_sound' h

/-- **find_total** — on a well-formed pool whose root slot 0 is live, `Find` from any live scope (or
the sentinel) on **any** byte string returns normally — never `.panic`, never `.outOfFuel` — and
the result is the sentinel or a live position (never a freed slot). -/
theorem find_total {t : ObjectTree} (w : WF t) (hroot : live t 0 = true) (scope : Nat)
    (hs : scope = INV ∨ live t scope = true) (expr : List UInt8) :
    ∃ r, t.Find scope expr = .ok r ∧ (r = INV ∨ live t r = true) :=
  find_ok w scope expr hroot hs

/-- `findRelative` from a live scope is total on any byte string -/
theorem findRelative_total {t : ObjectTree} (w : WF t) (scope : Nat) (hs : live t scope = true)
    (expr : List UInt8) : ∃ r, t.findRelative scope expr = .ok r ∧ (r = INV ∨ live t r = true) :=
  findRelative_ok w expr hs

/-- `NumArgs` is total and counts the abstract child list (`nil` ↦ 0) -/
theorem numArgs_correct {t : ObjectTree} (w : WF t) (i : Nat) (hl : live t i = true) :
    t.NumArgs (some i) = .ok ((abs t).kids i).length ∧ t.NumArgs none = .ok 0 := by
  obtain ⟨l, hc, ha, hlen⟩ := w.args_eq hl
  have := countLoop_eq w.size_le l t.fuel _ 0 hc (by simp [ObjectTree.fuel]; omega)
  simp only [Fi] at this
  simp [ObjectTree.NumArgs, obj_eq (live_lt hl), bind, Except.bind, this, abs, ha]

/-- `ArgAt` is total and indexes the abstract child list (`nil` ↦ `nil`) -/
theorem argAt_correct {t : ObjectTree} (w : WF t) (i k : Nat) (hl : live t i = true) :
    t.ArgAt (some i) k = .ok (((abs t).kids i)[k]?) ∧ t.ArgAt none k = .ok none := by
  obtain ⟨l, hc, ha, hlen⟩ := w.args_eq hl
  have := argLoop_eq w.size_le k l t.fuel _ 0 hc (by simp [ObjectTree.fuel]; omega) (by omega)
  simp only [Fi] at this
  simp [ObjectTree.ArgAt, obj_eq (live_lt hl), bind, Except.bind, this, abs, ha]

/-- `ClosestNamedAncestor` is total when every live object's `infoIndex` lies inside the opcode
table (`named` is defined there) -/
theorem closestNamedAncestor_total {t : ObjectTree} (w : WF t) (named : Nat → Option Bool)
    (hn : ∀ i, live t i = true → (named (slot t i).infoIndex).isSome = true)
    (i : Nat) (hl : live t i = true) :
    ∃ r, t.ClosestNamedAncestor named (some i) = .ok r ∧ (r = INV ∨ live t r = true) := by
  obtain ⟨l, hc, hlen⟩ := w.parChain (P t i) (w.links hl).1
  have := closestLoop_ok w.size_le named hn l t.fuel _ hc (by simp [ObjectTree.fuel]; omega)
  simpa [ObjectTree.ClosestNamedAncestor, obj_eq (live_lt hl), bind, Except.bind, P, GoodIdx] using this

/-- **no_freed_reachable** — in a well-formed pool every link of a live object is the sentinel or
a live object, and every member of a live object's child list is live and has that object as its
parent (child lists agree with parent links). -/
theorem no_freed_reachable {t : ObjectTree} (w : WF t) (i : Nat) (hl : live t i = true) :
    (∀ x ∈ [P t i, Pv t i, Nx t i, Fi t i, La t i], x = INV ∨ live t x = true) ∧
    (∀ k ∈ (abs t).kids i, live t k = true ∧ P t k = i) := by
  constructor
  · have := w.links hl
    intro x hx
    simp only [List.mem_cons, List.mem_nil_iff, or_false] at hx
    rcases hx with rfl | rfl | rfl | rfl | rfl
    · exact this.1
    · exact this.2.1
    · exact this.2.2.1
    · exact this.2.2.2.1
    · exact this.2.2.2.2
  · obtain ⟨l, hc, ha, _⟩ := w.args_eq hl
    simp only [abs, ha]
    exact w.chain_parent l (Fi t i) i hc (fun hne => ((w.localP hl).2.2.2.2.2.1 hne).1)

/-- **child_lists_agree** — in a well-formed pool, parent links and child lists agree in both
directions: `k` is in the (abstract, ordered) child list of a live object `p` exactly when `k` is a
live object whose parent link is `p`. -/
theorem child_lists_agree {t : ObjectTree} (w : WF t) (p : Nat) (hl : live t p = true) (k : Nat) :
    k ∈ (abs t).kids p ↔ (live t k = true ∧ P t k = p) := w.kids_mem p hl k

/-- the abstract forest has no parent pointers; its derived parent (the node whose child list
contains `i`) is exactly the pool's parent link -/
theorem forest_parent_is_link {t : ObjectTree} (w : WF t) (i : Nat) (hl : live t i = true) :
    (abs t).parentOf i = if P t i = INV then none else some (P t i) := w.parentOf_abs i hl

/-- **find_correct** — for every valid path expression `p` (`Path.valid`: segments start with
`A–Z`/`_`, at most 255 of them, not the empty relative name; any prefix `\` or `^…^`; canonical,
MultiNamePrefix or raw-concatenated encoding — with **any** segment count, also 65–90 and 95 after
the D8 repair), every live scope, on a well-formed pool whose root slot 0 is live:
`Find` on the encoded bytes returns exactly what the four-clause ACPI rule `resolve` designates on the
abstracted forest (children = scope, parents derived from the child lists), `InvalidIndex` when the
rule finds nothing. -/
theorem find_correct {t : ObjectTree} (w : WF t) (hroot : live t 0 = true) (scope : Nat)
    (hs : live t scope = true) (p : Path) (hv : p.valid = true) :
    t.Find scope (encode p) = .ok (optIdx (resolve (abs t) scope p)) :=
  find_correct' w hroot scope hs p hv

/-- what the replay oracle decodes is a valid path whose encoding is the expression it was given, so
every oracle comparison `Find … = resolve …` is an instance of `find_correct` -/
theorem decode_sound {e : List UInt8} {p : Path} (h : decode e = some p) : p.valid = true ∧ encode p = e := by
  unfold decode at h
  cases hc : decodeCandidate e with
  | none => simp [hc] at h
  | some q =>
    simp only [hc] at h
    split at h
    · rename_i hv
      simp only [Bool.and_eq_true, decide_eq_true_eq] at hv
      cases h
      exact hv
    · cases h

/-- **free_slots_reused_first** — `newObject` on a well-formed pool: if some slot is freed the pool
does not grow and the returned position is a freed slot; only if no slot is freed does the pool
grow, by exactly one, and the new position is the old length. -/
theorem free_slots_reused_first {t t' : ObjectTree} (w : WF t) (opcode info th i : Nat)
    (h : t.newObject opcode info th = .ok (t', i)) :
    ((∃ j, j < t.pool.size ∧ live t j = false) →
        t'.pool.size = t.pool.size ∧ i < t.pool.size ∧ live t i = false) ∧
    ((∀ j, j < t.pool.size → live t j = true) →
        t'.pool.size = t.pool.size + 1 ∧ i = t.pool.size) := by
  obtain ⟨fl, hc, hall⟩ := w.free
  have hh := freeChain_head w.size_le hc
  by_cases h0 : t.freeListHeadIndex = InvalidIndex
  · have hfl : fl = [] := hh.1.1 h0
    have hlive : ∀ j, j < t.pool.size → live t j = true := by
      intro j hj
      cases hj' : live t j with
      | true => rfl
      | false => have := hall j hj hj'; simp [hfl] at this
    simp only [ObjectTree.newObject, h0, ne_eq, not_true_eq_false, if_false, pure, Except.pure,
      Except.ok.injEq, Prod.mk.injEq] at h
    obtain ⟨rfl, rfl⟩ := h
    refine ⟨fun ⟨j, hj, hl⟩ => ?_, fun _ => by simp⟩
    rw [hlive j hj] at hl; cases hl
  · obtain ⟨hlt, hnl⟩ := hh.2 h0
    simp only [ObjectTree.newObject, ne_eq, h0, not_false_eq_true, if_true, obj_eq hlt, bind, Except.bind] at h
    rw [upd_eq _ (by simpa using hlt)] at h
    simp only [pure, Except.pure, Except.ok.injEq, Prod.mk.injEq] at h
    obtain ⟨rfl, rfl⟩ := h
    refine ⟨fun _ => ⟨by simp [setAt], hlt, hnl⟩, fun hall' => ?_⟩
    rw [hall' _ hlt] at hnl; cases hnl

/-- **newObject_preserves_WF** — `newObject` under `pool.size < 2^32-1` and an opcode other than
the freed marker succeeds, preserves `WF`, and changes nothing but one slot `i`, not live before,
which now holds a live object with all five links `InvalidIndex` (a new detached node without
arguments). -/
theorem newObject_preserves_WF {t : ObjectTree} (w : WF t) (opcode info th : Nat)
    (hpre : newPre t = true) (hop : opcode ≠ pOpIntFreedObject) :
    ∃ t' i, t.newObject opcode info th = .ok (t', i) ∧ WF t' ∧
      live t i = false ∧ live t' i = true ∧ (∀ x, x ≠ i → slot t' x = slot t x ∧ live t' x = live t x) ∧
      P t' i = INV ∧ Pv t' i = INV ∧ Nx t' i = INV ∧ Fi t' i = INV ∧ La t' i = INV := by
  obtain ⟨t', i, h, w', fr⟩ := newObject_wf w opcode info th (by simpa [newPre] using hpre) hop
  exact ⟨t', i, h, w', fr.nlive, fr.liven, fun x hx => ⟨fr.same x hx, fr.livex x hx⟩,
    fr.pn, fr.pvn, fr.nxn, fr.fin, fr.lan⟩

/-- **detach_preserves_WF** — `detach(obj, arg)` under its contract (`detachPre`: both live, `arg`'s
parent link is `obj`) returns normally, the pool stays well-formed, the live set and names are
unchanged, and the links change exactly as unlinking `arg` from its sibling list prescribes. -/
theorem detach_preserves_WF {t : ObjectTree} (w : WF t) {obj arg : Nat} (hpre : detachPre t obj arg = true) :
    ∃ t', t.detach obj arg = .ok t' ∧ WF t' ∧
      t'.pool.size = t.pool.size ∧ (∀ x, live t' x = live t x) ∧ (∀ x, (slot t' x).name = (slot t x).name) ∧
      (∀ x, P t' x = if x = arg then INV else P t x) ∧
      (∀ x, Pv t' x = if x = arg then INV else if x = Nx t arg ∧ Nx t arg ≠ INV then Pv t arg else Pv t x) ∧
      (∀ x, Nx t' x = if x = arg then INV else if x = Pv t arg ∧ Pv t arg ≠ INV then Nx t arg else Nx t x) ∧
      (∀ x, Fi t' x = if x = obj ∧ Fi t obj = arg then Nx t arg else Fi t x) ∧
      (∀ x, La t' x = if x = obj ∧ La t obj = arg then Pv t arg else La t x) := detach_wf w hpre

/-- **append_preserves_WF** — `append(obj, arg)` under its contract (`appendPre`: both live, `arg`
detached, `obj` not inside `arg`'s subtree) returns normally, the pool stays well-formed, the live
set and names are unchanged, and `arg` becomes the last child of `obj`. -/
theorem append_preserves_WF {t : ObjectTree} (w : WF t) {obj arg : Nat} (hpre : appendPre t obj arg = true) :
    ∃ t', t.append obj arg = .ok t' ∧ WF t' ∧
      t'.pool.size = t.pool.size ∧ (∀ x, live t' x = live t x) ∧ (∀ x, (slot t' x).name = (slot t x).name) ∧
      (∀ x, P t' x = if x = arg then obj else P t x) ∧
      (∀ x, Pv t' x = if x = arg then La t obj else Pv t x) ∧
      (∀ x, Nx t' x = if x = arg then INV else if x = La t obj ∧ La t obj ≠ INV then arg else Nx t x) ∧
      (∀ x, Fi t' x = if x = obj ∧ La t obj = INV then arg else Fi t x) ∧
      (∀ x, La t' x = if x = obj then arg else La t x) := append_wf w hpre

/-- **appendAfter_preserves_WF** — `appendAfter(obj, arg, nextTo)` under its contract
(`appendAfterPre`: as `append`, and `nextTo` is a live child of `obj`) returns normally, the pool
stays well-formed, and `arg` becomes the child of `obj` right after `nextTo`. -/
theorem appendAfter_preserves_WF {t : ObjectTree} (w : WF t) {obj arg nextTo : Nat}
    (hpre : appendAfterPre t obj arg nextTo = true) :
    ∃ t', t.appendAfter obj arg nextTo = .ok t' ∧ WF t' ∧
      t'.pool.size = t.pool.size ∧ (∀ x, live t' x = live t x) ∧ (∀ x, (slot t' x).name = (slot t x).name) ∧
      (∀ x, P t' x = if x = arg then obj else P t x) ∧
      (∀ x, Pv t' x = if x = arg then nextTo else if x = Nx t nextTo ∧ Nx t nextTo ≠ INV then arg else Pv t x) ∧
      (∀ x, Nx t' x = if x = arg then Nx t nextTo else if x = nextTo then arg else Nx t x) ∧
      (∀ x, Fi t' x = Fi t x) ∧
      (∀ x, La t' x = if x = obj ∧ Nx t nextTo = INV then arg else La t x) := appendAfter_wf w hpre

/-- **free_preserves_WF** — `free(obj)` under its contract (`freePre`: live, no arguments) returns
normally (the explicit Go panic is not reached), the pool stays well-formed, `obj` is the only
object that dies, it becomes the head of the free list in front of the old head, and every other
slot is what `detach(parent, obj)` left (or unchanged if `obj` had no parent). -/
theorem free_preserves_WF {t : ObjectTree} (w : WF t) {obj : Nat} (hpre : freePre t obj = true) :
    ∃ t', t.free obj = .ok t' ∧ WF t' ∧ t'.pool.size = t.pool.size ∧
      (∀ x, live t' x = (live t x && decide (x ≠ obj))) ∧
      t'.freeListHeadIndex = obj ∧ Nx t' obj = t.freeListHeadIndex ∧
      ∃ t1, ((P t obj = INV ∧ t1 = t) ∨ (P t obj ≠ INV ∧ t.detach (P t obj) obj = .ok t1)) ∧
        ∀ x, x ≠ obj → slot t' x = slot t1 x := free_wf w hpre

/-! ### effect of each operation on the abstract forest (`abs` before / after) -/

/-- **newObject_effect** — one new node `i` without children; every other node keeps its name and
child list. -/
theorem newObject_effect {t : ObjectTree} (w : WF t) (opcode info th : Nat)
    (hpre : newPre t = true) (hop : opcode ≠ pOpIntFreedObject) :
    ∃ t' i, t.newObject opcode info th = .ok (t', i) ∧ WF t' ∧ live t i = false ∧
      (∀ x, x ∈ (abs t').ids ↔ (x ∈ (abs t).ids ∨ x = i)) ∧
      (∀ x, x ≠ i → (abs t').name x = (abs t).name x) ∧
      (abs t').kids i = [] ∧ ∀ p, live t p = true → (abs t').kids p = (abs t).kids p :=
  newObject_abs w opcode info th hpre hop

/-- **append_effect** — same nodes and names; `arg` is added at the end of `obj`'s child list and
no other child list changes. -/
theorem append_effect {t : ObjectTree} (w : WF t) {obj arg : Nat} (hpre : appendPre t obj arg = true) :
    ∃ t', t.append obj arg = .ok t' ∧ WF t' ∧ (abs t').ids = (abs t).ids ∧
      (∀ x, (abs t').name x = (abs t).name x) ∧
      ∀ p, live t p = true → (abs t').kids p = if p = obj then (abs t).kids obj ++ [arg] else (abs t).kids p :=
  append_abs w hpre

/-- **appendAfter_effect** — same nodes and names; `arg` is inserted into `obj`'s child list right
after `nextTo` and no other child list changes. -/
theorem appendAfter_effect {t : ObjectTree} (w : WF t) {obj arg nextTo : Nat}
    (hpre : appendAfterPre t obj arg nextTo = true) :
    ∃ t', t.appendAfter obj arg nextTo = .ok t' ∧ WF t' ∧ (abs t').ids = (abs t).ids ∧
      (∀ x, (abs t').name x = (abs t).name x) ∧
      ∀ p, live t p = true →
        (abs t').kids p = if p = obj then insertAfter nextTo arg ((abs t).kids obj) else (abs t).kids p :=
  appendAfter_abs w hpre

/-- **detach_effect** — same nodes and names; `arg` is removed from `obj`'s child list and no other
child list changes (`arg` keeps its own children). -/
theorem detach_effect {t : ObjectTree} (w : WF t) {obj arg : Nat} (hpre : detachPre t obj arg = true) :
    ∃ t', t.detach obj arg = .ok t' ∧ WF t' ∧ (abs t').ids = (abs t).ids ∧
      (∀ x, (abs t').name x = (abs t).name x) ∧
      ∀ p, live t p = true → (abs t').kids p = if p = obj then ((abs t).kids obj).erase arg else (abs t).kids p :=
  detach_abs w hpre

/-- **free_effect** — `obj` disappears from the node set and from every child list (it was in at
most its parent's); every other node keeps its name and its other children. -/
theorem free_effect {t : ObjectTree} (w : WF t) {obj : Nat} (hpre : freePre t obj = true) :
    ∃ t', t.free obj = .ok t' ∧ WF t' ∧
      (∀ x, x ∈ (abs t').ids ↔ (x ∈ (abs t).ids ∧ x ≠ obj)) ∧
      (∀ x, x ≠ obj → (abs t').name x = (abs t).name x) ∧
      ∀ p, live t p = true → p ≠ obj → (abs t').kids p = ((abs t).kids p).erase obj :=
  free_abs w hpre

/-- **ops_preserve_WF** — every editing operation, run under its caller contract on a well-formed
pool, returns normally (no `.panic`, no `.outOfFuel`) and leaves a well-formed pool. -/
theorem ops_preserve_WF {t : ObjectTree} (w : WF t) (o : Op) (hpre : o.pre t = true) :
    ∃ t', o.run t = .ok t' ∧ WF t' := by
  cases o with
  | new opcode info th =>
    simp only [Op.pre, Bool.and_eq_true, decide_eq_true_eq] at hpre
    obtain ⟨t', i, h, w', _⟩ := newObject_wf w opcode info th (by simpa [newPre] using hpre.1) hpre.2
    exact ⟨t', by simp [Op.run, h, Except.map], w'⟩
  | append obj arg =>
    obtain ⟨t', h, w', _⟩ := append_wf w hpre; exact ⟨t', h, w'⟩
  | appendAfter obj arg nextTo =>
    obtain ⟨t', h, w', _⟩ := appendAfter_wf w hpre; exact ⟨t', h, w'⟩
  | detach obj arg =>
    obtain ⟨t', h, w', _⟩ := detach_wf w hpre; exact ⟨t', h, w'⟩
  | free obj =>
    obtain ⟨t', h, w', _⟩ := free_wf w hpre; exact ⟨t', h, w'⟩

/-- **history** — induction over operation lists: any contract-respecting history (`Legal`) of
creations, appends, insert-afters, detaches and frees, started on a well-formed pool (in particular
the empty pool), runs to completion without `.panic`/`.outOfFuel` and ends in a well-formed pool. -/
theorem history (ops : List Op) : ∀ t : ObjectTree, WF t → Legal t ops →
    ∃ t', runOps t ops = .ok t' ∧ WF t' := by
  induction ops with
  | nil => intro t w _; exact ⟨t, rfl, w⟩
  | cons o os ih =>
    intro t w hl
    obtain ⟨t1, h1, w1⟩ := ops_preserve_WF w o hl.1
    obtain ⟨t', h', w'⟩ := ih t1 w1 (hl.2 t1 h1)
    exact ⟨t', by simp [runOps, h1, Except.bind, h'], w'⟩

/-! ## non-vacuity: concrete well-formed pools, and a concrete lookup -/

/-- the default scopes: root `\` with `_GPE _PR_ _SB_ _SI_ _TZ_` -/
def exTree : ObjectTree :=
  match NewObjectTree.CreateDefaultScopes 113 0 with
  | .ok t => t
  | .error _ => NewObjectTree

example : WF NewObjectTree := wfCheck_sound (by decide)
/-- a legal history from the empty pool: root, two children, insert between, detach, free, reuse -/
example : Legal NewObjectTree [.new 502 113 0, .new 385 106 0, .new 385 106 0, .append 0 1, .append 0 2,
    .new 8 3 0, .appendAfter 0 3 1, .detach 0 2, .free 2, .new 8 3 0, .append 3 2] :=
  legal_of_legalB _ _ (by decide)
example : WF exTree ∧ live exTree 0 = true ∧ live exTree 3 = true ∧ newPre exTree = true :=
  ⟨wfCheck_sound (by decide), by decide, by decide, by decide⟩
/-- `_SB_` from scope `_SB_` is found in the enclosing (root) scope; `^_TZ_` goes one level up -/
example : exTree.Find 3 (Name.ofString "_SB_").toList = .ok 3 ∧
    exTree.Find 3 (0x5e :: (Name.ofString "_TZ_").toList) = .ok 5 ∧
    exTree.Find 3 [0x5e, 0x5e] = .ok INV := by decide
example : (⟨.up 2, [], .canon⟩ : Path).valid = true ∧ (⟨.root, [Name.ofString "_SB_", Name.ofString "PCI0"], .canon⟩ : Path).valid = true ∧
    decode (encode ⟨.up 1, [Name.ofString "_TZ_"], .canon⟩) = some ⟨.up 1, [Name.ofString "_TZ_"], .canon⟩ := by decide
example : exTree.NumArgs (some 0) = .ok 5 ∧ (abs exTree).kids 0 = [1, 2, 3, 4, 5] := by decide
/-- a pool with a freed slot: the next `newObject` reuses it -/
example : ∃ t t' , exTree.free 4 = .ok t ∧ WF t ∧ t.newObject 1 1 0 = .ok (t', 4) ∧ t'.pool.size = 6 := by
  refine ⟨_, _, rfl, wfCheck_sound (by decide), rfl, by decide⟩

end Firefly.C13
