import Firefly.Spec.C16
import Firefly.Proof.RingLemmas
import Firefly.Proof.PrefixLemmas
import Firefly.Proof.HalLemmas
/-!
# C16 — Device bring-up: ordered probing, first console/TTY win, no boot log lost

Statement (properties.jsonl): drivers are probed in non-decreasing detection order whatever order
they were registered in; a driver whose initialisation fails is reported on the log and never
becomes active, and only the first console and first terminal to initialise become the active pair.
Whichever of the two comes up first, the terminal ends up attached to the console, active, and
receiving kernel log output, and everything logged before that moment (up to the early buffer's
capacity, oldest dropped first) appears on it exactly once, in order, ahead of later output.

Models: `Model/Ring.lean` (kfmt/ringbuf.go + the drain of SetOutputSink), `Model/Prefix.lean`
(kfmt/prefix_writer.go), `Model/Hal.lean` (hal/hal.go). `sort.Sort` is the parameter `sort`,
assumed (`SortedPerm`) to return a permutation in non-decreasing detection order; the harness
checks that assumption on every run. All theorems quantify over every ring start position, every
driver list, every failing subset and every chunking of the log output before and after.
-/
namespace Firefly.C16
open Firefly.Ring Firefly.Prefix Firefly.Hal Firefly.C16.Spec

/-! ## the early ring buffer -/

/-- **ring_is_last_N** — for every history of writes and partial reads (any read-buffer sizes)
starting from an empty ring at any index, (1) every read returned exactly the oldest unread bytes
of the plain "keep the last `cap` bytes" queue, and (2) draining afterwards with *any* positive
buffer size yields exactly that queue's content — the not-yet-read suffix of the written stream
truncated to its last `ringBufferSize-1` bytes, in order — and leaves the ring empty. -/
theorem ring_is_last_N (p : Nat) (hp : p < N) (ops : List RingOp) (k : Nat) (hk : 0 < k) :
    let run := runRing (emptyAt p) ops
    let spec := runQueue [] ops (run.2.map List.length)
    (run.1.drain k (N + 1)).1 = spec.1 ∧ run.2 = spec.2 ∧ (run.1.drain k (N + 1)).2.contents = [] := by
  intro run spec
  obtain ⟨h1, h2, h3⟩ := runRing_refines ops (emptyAt p) (emptyAt_wf p hp)
  rw [emptyAt_contents] at h2 h3
  have hl : run.1.len < N + 1 := by
    have := len_le_cap run.1 h1
    have := N_pos
    unfold cap at *; omega
  obtain ⟨d1, d2, _⟩ := drain_spec k hk (N + 1) run.1 h1 hl
  exact ⟨d1.trans h2, h3, d2⟩

/-- only writes, then `SetOutputSink`'s drain: the sink receives the last `cap` bytes written -/
theorem ring_writes_then_drain (p : Nat) (hp : p < N) (chunks : List (List UInt8)) (k : Nat) (hk : 0 < k) :
    ((chunks.foldl Ring.write (emptyAt p)).drain k (N + 1)).1 = lastN cap chunks.flatten := by
  have hw : ∀ (cs : List (List UInt8)) (rb : Ring), rb.WF →
      (cs.foldl Ring.write rb).WF ∧ (cs.foldl Ring.write rb).contents = lastN cap (rb.contents ++ cs.flatten) := by
    intro cs
    induction cs with
    | nil => intro rb h; simp; exact ⟨h, (lastN_of_le _ _ (by rw [contents_length]; exact len_le_cap rb h)).symm⟩
    | cons c t ih =>
      intro rb h
      obtain ⟨i1, i2⟩ := ih (rb.write c) (write_wf rb c h)
      refine ⟨i1, ?_⟩
      simp only [List.foldl_cons, List.flatten_cons]
      rw [i2, write_contents rb c h, lastN_lastN_append, List.append_assoc]
  obtain ⟨h1, h2⟩ := hw chunks (emptyAt p) (emptyAt_wf p hp)
  have hl : (chunks.foldl Ring.write (emptyAt p)).len < N + 1 := by
    have := len_le_cap _ h1
    have := N_pos
    unfold cap at *; omega
  rw [(drain_spec k hk (N + 1) _ h1 hl).1, h2, emptyAt_contents, List.nil_append]

/-- a read never returns more than the buffer holds, makes progress whenever it can, and reports
EOF exactly when nothing is unread -/
theorem ring_read_bounded (rb : Ring) (h : rb.WF) (k : Nat) :
    (rb.read k).out.length ≤ k ∧ (0 < k → rb.contents ≠ [] → (rb.read k).out ≠ []) ∧
    ((rb.read k).eof = true ↔ rb.contents = []) := by
  obtain ⟨_, r2, r3, _, r5, _, r7⟩ := read_spec rb k h
  refine ⟨r2 ▸ r3, ?_, r5⟩
  intro hk hne he
  have := r7 hk hne
  rw [← r2, he] at this
  simp at this

/-- the compiled buffer size is a power of two (the code masks indices with `size-1`) and one slot stays free -/
theorem ring_capacity : N = 2 ^ Firefly.Gen.C16.ringBufferBits ∧ cap + 1 = N :=
  ⟨N_eq_pow, by have := N_pos; unfold cap; omega⟩

/-! ## the per-line prefix -/

/-- **prefix_lines** — for every sequence of `Write`s (every chunking) the sink sees the input with
the prefix in front of the first byte of every line and nowhere else, and the writer ends at a line
start exactly when the input so far ends with a newline. -/
theorem prefix_lines (pw : PW) (ps : List (List UInt8)) :
    (pwStream pw ps).1 = prefixStream pw.pfx pw.atStart ps.flatten ∧
    (pwStream pw ps).2.atStart = lineState pw.atStart ps.flatten ∧
    (pwStream pw ps).2.pfx = pw.pfx := by
  induction ps generalizing pw with
  | nil => simp [pwStream, prefixStream, lineState]
  | cons p t ih =>
    obtain ⟨i1, i2, i3⟩ := ih (pw.write p).pw
    simp only [pwStream, List.flatten_cons]
    rw [i1, i2, i3, write_stream, write_atStart, write_pfx, prefixStream_append, lineState_append]
    exact ⟨rfl, rfl, rfl⟩

/-- the chunking of the input does not matter -/
theorem prefix_chunking_irrelevant (pw : PW) (ps qs : List (List UInt8)) (h : ps.flatten = qs.flatten) :
    (pwStream pw ps).1 = (pwStream pw qs).1 := by
  rw [(prefix_lines pw ps).1, (prefix_lines pw qs).1, h]

/-- `Write` reports the number of input bytes, not counting prefixes -/
theorem prefix_write_count (pw : PW) (p : List UInt8) : (pw.write p).n = p.length := write_n pw p

/-! ## bring-up -/

/-- **probe_order** — whatever the registration order, `Probe` is called once per registered driver,
in the order `sort.Sort` produced, hence in non-decreasing detection order; `DriverInit` is called
exactly for the drivers whose probe found hardware, in the same order. -/
theorem probe_order (sort : List Driver → List Driver) (p : Nat) (hp : p < N) (before after : List (List UInt8))
    (regs : List Driver) (hs : SortedPerm regs (sort regs)) :
    let st := bringUp sort p before regs after
    st.probes = (sort regs).map (·.id) ∧
    (st.probes).Perm (regs.map (·.id)) ∧
    (sort regs).Pairwise (fun a b => a.order ≤ b.order) ∧
    st.inits = ((sort regs).filter (·.probeOk)).map (·.id) := by
  intro st
  obtain ⟨_, h2, h3, _⟩ := bringUp_spec sort p hp before regs after
  exact ⟨h2, h2 ▸ hs.1.map _, hs.2, h3⟩

/-- **first_wins** — the active console / TTY are the first console / TTY in probe order whose probe
and initialisation both succeeded (none if there is none), and the active-driver list is exactly the
drivers that came up, in probe order. -/
theorem first_wins (sort : List Driver → List Driver) (p : Nat) (hp : p < N) (before after : List (List UInt8))
    (regs : List Driver) :
    let st := bringUp sort p before regs after
    st.activeConsole = (firstOf .console (sort regs)).map (·.id) ∧
    st.activeTTY = (firstOf .tty (sort regs)).map (·.id) ∧
    st.activeDrivers = activeIds (sort regs) := by
  intro st
  obtain ⟨_, _, _, h4, h5, h6, _⟩ := bringUp_spec sort p hp before regs after
  exact ⟨h4, h5, h6⟩

/-- **failed_never_active** — every active driver, the active console and the active TTY are
registered drivers whose probe and initialisation succeeded (so a driver that failed either is in
none of them), and every initialisation failure is on the log as `init failed: <msg>\n`, each of
its lines behind that driver's prefix. -/
theorem failed_never_active (sort : List Driver → List Driver) (p : Nat) (hp : p < N)
    (before after : List (List UInt8)) (regs : List Driver) (hs : SortedPerm regs (sort regs)) :
    let st := bringUp sort p before regs after
    (∀ i ∈ st.activeDrivers, ∃ d ∈ regs, d.id = i ∧ succ d = true) ∧
    (∀ i, st.activeConsole = some i → ∃ d ∈ regs, d.id = i ∧ succ d = true ∧ d.kind = .console) ∧
    (∀ i, st.activeTTY = some i → ∃ d ∈ regs, d.id = i ∧ succ d = true ∧ d.kind = .tty) ∧
    (∀ d ∈ regs, d.probeOk = true → ∀ msg, d.initErr = some msg →
      ∃ pre post s, st.logged = pre ++ prefixStream (halPrefix d) s (ascii "init failed: " ++ msg ++ [10]) ++ post) := by
  intro st
  obtain ⟨_, _, _, h4, h5, h6, h7⟩ := bringUp_spec sort p hp before regs after
  have hmem : ∀ d, d ∈ sort regs → d ∈ regs := fun d h => hs.1.mem_iff.1 h
  refine ⟨?_, ?_, ?_, ?_⟩
  · intro i hi
    rw [h6] at hi
    simp only [activeIds, List.mem_map, List.mem_filter] at hi
    obtain ⟨d, ⟨hd, hsu⟩, rfl⟩ := hi
    exact ⟨d, hmem d hd, rfl, hsu⟩
  · intro i hi
    rw [h4] at hi
    simp only [Option.map_eq_some_iff] at hi
    obtain ⟨d, hf, rfl⟩ := hi
    have := List.find?_some hf
    simp only [Bool.and_eq_true, beq_iff_eq] at this
    exact ⟨d, hmem d (List.mem_of_find?_eq_some hf), rfl, this.1, this.2⟩
  · intro i hi
    rw [h5] at hi
    simp only [Option.map_eq_some_iff] at hi
    obtain ⟨d, hf, rfl⟩ := hi
    have := List.find?_some hf
    simp only [Bool.and_eq_true, beq_iff_eq] at this
    exact ⟨d, hmem d (List.mem_of_find?_eq_some hf), rfl, this.1, this.2⟩
  · intro d hd hpo msg hmsg
    have hd' : d ∈ sort regs := hs.1.mem_iff.2 hd
    obtain ⟨l1, l2, hl⟩ := List.append_of_mem hd'
    have hlog : driverLog d = prefixStream (halPrefix d) true d.initLog.flatten ++
        prefixStream (halPrefix d) (lineState true d.initLog.flatten) (ascii "init failed: " ++ msg ++ [10]) := by
      simp only [driverLog, hpo, if_true, tailOf, hmsg]
      rw [prefixStream_append]
    refine ⟨before.flatten ++ (l1.map driverLog).flatten ++ prefixStream (halPrefix d) true d.initLog.flatten,
      (l2.map driverLog).flatten ++ after.flatten, lineState true d.initLog.flatten, ?_⟩
    rw [h7, hl]
    simp only [List.map_append, List.map_cons, List.flatten_append, List.flatten_cons, hlog, List.append_assoc]

/-- **linked_both_orders** — if some console and some TTY come up — in either order — then at the
end the first such TTY is the kernel's output sink, is attached to the first such console and is in
the Active state; if either is missing, output still goes to the early buffer and no TTY was touched. -/
theorem linked_both_orders (sort : List Driver → List Driver) (p : Nat) (hp : p < N)
    (before after : List (List UInt8)) (regs : List Driver) :
    let st := bringUp sort p before regs after
    (∀ c t, firstOf .console (sort regs) = some c → firstOf .tty (sort regs) = some t →
      st.sink = some t.id ∧ st.activeTTY = some t.id ∧ st.ttyAttached = some c.id ∧ st.ttyState = stateActive) ∧
    ((firstOf .console (sort regs) = none ∨ firstOf .tty (sort regs) = none) →
      st.sink = none ∧ st.ttyAttached = none ∧ st.ttyState = stateInactive ∧ st.ttyRecv = []) := by
  intro st
  obtain ⟨⟨_, hsink, hnone, hsome, _⟩, _, _, h4, h5, _, _⟩ := bringUp_spec sort p hp before regs after
  refine ⟨?_, ?_⟩
  · intro c t hc ht
    have hs : st.sink = some t.id := by rw [hsink, h4, h5, hc, ht]; rfl
    obtain ⟨a1, a2, _, _⟩ := hsome t.id hs
    refine ⟨hs, by rw [h5, ht]; rfl, ?_, a2⟩
    rw [a1, h4, hc]; rfl
  · intro h
    have hs : st.sink = none := by
      rw [hsink, h4, h5]
      rcases h with h | h <;> rw [h] <;> simp
    obtain ⟨n1, _, _, n4, n5⟩ := hnone hs
    exact ⟨hs, n4, n5, n1⟩

/-- **log_exactly_once** — the log as a whole is the output before bring-up, then every probed
driver's output line-prefixed in probe order, then the output after; if the pair was linked at the
moment `n` bytes had been logged, the terminal received exactly (the last `ringBufferSize-1` of
those `n` bytes) ++ (every byte logged later) — each once, in order — and the early buffer is empty;
if no pair came up, no terminal received anything and the early buffer still holds the last
`ringBufferSize-1` bytes of the log. Holds for every chunking of all three phases. -/
theorem log_exactly_once (sort : List Driver → List Driver) (p : Nat) (hp : p < N)
    (before after : List (List UInt8)) (regs : List Driver) :
    let st := bringUp sort p before regs after
    st.logged = before.flatten ++ ((sort regs).map driverLog).flatten ++ after.flatten ∧
    (∀ t, st.sink = some t → ∃ n, st.linkedAt = some n ∧ n ≤ st.logged.length ∧
      st.ttyRecv = ttyStream (st.logged.take n) (st.logged.drop n) ∧ st.ring.contents = []) ∧
    (st.sink = none → st.ttyRecv = [] ∧ st.ring.contents = lastN cap st.logged) := by
  intro st
  obtain ⟨⟨_, _, hnone, hsome, _⟩, _, _, _, _, _, h7⟩ := bringUp_spec sort p hp before regs after
  refine ⟨h7, ?_, ?_⟩
  · intro t ht
    obtain ⟨_, _, a3, n, a4, a5, a6⟩ := hsome t ht
    exact ⟨n, a4, a5, a6, a3⟩
  · intro hs
    obtain ⟨n1, _, n3, _, _⟩ := hnone hs
    exact ⟨n1, n3⟩

/-- **attached_once** — the terminal is attached (`AttachTo`) and activated (`SetState(Active)`)
exactly once, at the link, and never again — however many further consoles and terminals initialise
afterwards — and not at all if no pair comes up. (`tty.VT.AttachTo` re-allocates a blank buffer and
homes the cursor, so a second attach would make the terminal forget the boot log.) -/
theorem attached_once (sort : List Driver → List Driver) (p : Nat) (hp : p < N)
    (before after : List (List UInt8)) (regs : List Driver) :
    let st := bringUp sort p before regs after
    st.ttyAttachCalls = (if st.sink.isSome then 1 else 0) ∧
    st.ttySetStateCalls = (if st.sink.isSome then 1 else 0) := by
  intro st
  obtain ⟨⟨_, _, _, _, hcnt⟩, _⟩ := bringUp_spec sort p hp before regs after
  exact hcnt

/-- **terminal_shows_log** — with the shipped terminal as the TTY: a terminal that was blank when
attached (`attached_once`: it is attached once) and behaves like the reference terminal of C17 on
the bytes it receives shows, at the end, exactly the reference terminal fed with (the last
`ringBufferSize-1` bytes logged before the link) ++ (every byte logged after it): no byte of the boot
log is missing, repeated or out of order on the terminal, whatever the console geometry, scrollback
and tab width. (That the shipped `tty.VT` refines the reference terminal is C17; that its console
shows the terminal's viewport is C18.) -/
theorem terminal_shows_log (sort : List Driver → List Driver) (p : Nat) (hp : p < N)
    (before after : List (List UInt8)) (regs : List Driver) (w h sb tab : Nat) :
    let st := bringUp sort p before regs after
    ∀ t, st.sink = some t → ∃ n, st.linkedAt = some n ∧
      shown w h sb tab st.ttyRecv = shown w h sb tab (ttyStream (st.logged.take n) (st.logged.drop n)) := by
  intro st t ht
  obtain ⟨_, hl, _⟩ := log_exactly_once sort p hp before after regs
  obtain ⟨n, h1, _, h3, _⟩ := hl t ht
  exact ⟨n, h1, by rw [h3]⟩

/-- **link_moment** — "that moment": the terminal becomes the sink right after the status line of
the driver whose arrival completes the (first console, first TTY) pair — `linkCount` drivers into
the probe order, whichever of the two kinds that driver is — so the bytes subject to the
early-buffer capacity are exactly the output before bring-up plus the complete output of those
drivers, and nothing logged later passes through the buffer. -/
theorem link_moment (sort : List Driver → List Driver) (p : Nat) (hp : p < N)
    (before after : List (List UInt8)) (regs : List Driver) :
    (bringUp sort p before regs after).linkedAt =
      (linkCount (sort regs) false false).map fun j =>
        (before.flatten ++ (((sort regs).take j).map driverLog).flatten).length := by
  rw [bringUp_linkedAt sort p hp before regs after]
  unfold linkMoment
  cases linkCount (sort regs) false false <;> simp

/-- the detection-order constants of the compiled code are ordered as their names say and fit an int8 -/
theorem detect_order_constants :
    Firefly.Gen.C16.detectOrderEarly < Firefly.Gen.C16.detectOrderBeforeACPI ∧
    Firefly.Gen.C16.detectOrderBeforeACPI < Firefly.Gen.C16.detectOrderACPI ∧
    Firefly.Gen.C16.detectOrderACPI < Firefly.Gen.C16.detectOrderLast ∧
    -128 ≤ Firefly.Gen.C16.detectOrderEarly ∧ Firefly.Gen.C16.detectOrderLast ≤ 127 := by decide

/-! ## non-vacuity -/

/-- an insertion sort on detection order: a concrete `sort` satisfying the assumption -/
def insertByOrder (d : Driver) : List Driver → List Driver
  | [] => [d]
  | x :: xs => if d.order < x.order then d :: x :: xs else x :: insertByOrder d xs
def sortByOrder (l : List Driver) : List Driver := l.foldr insertByOrder []

def exCons : Driver := { id := 0, order := 0, kind := .console, probeOk := true, name := ascii "c", major := 1, minor := 0, patch := 0, initLog := [ascii "up\n"], initErr := none }
def exTty : Driver := { id := 1, order := -128, kind := .tty, probeOk := true, name := ascii "t", major := 1, minor := 2, patch := 3, initLog := [], initErr := none }
def exBad : Driver := { id := 2, order := -127, kind := .tty, probeOk := true, name := ascii "b", major := 0, minor := 0, patch := 0, initLog := [ascii "x"], initErr := some (ascii "boom") }

/-- the assumption on `sort` is satisfiable on a list registered out of order … -/
example : (sortByOrder [exCons, exTty, exBad]).map (·.id) = [1, 2, 0] := by decide
example : ((sortByOrder [exCons, exTty, exBad]).map (·.order)) = [-128, -127, 0] := by decide
/-- … the TTY comes up first, the console last, and they end up linked; the failing TTY is not active -/
example : let st := bringUp sortByOrder 2040 [ascii "early"] [exCons, exTty, exBad] [ascii "late"]
    st.sink = some 1 ∧ st.activeConsole = some 0 ∧ st.ttyAttached = some 0 ∧ st.activeDrivers = [1, 0] ∧
    st.probes = [1, 2, 0] := by decide +kernel
/-- a history with writes and partial reads, and a prefix writer mid-line, exist -/
example : (runRing (emptyAt 5) [.write [1, 2, 3], .read 2, .write [4], .read 0]).2 = [[1, 2], []] := by decide +kernel
example : (5 : Nat) < N := by unfold N; decide
example : (pwStream { pfx := [80], bap := 0 } [[1, 10, 2], [3, 10]]).1 = [80, 1, 10, 80, 2, 3, 10] := by decide

end Firefly.C16
