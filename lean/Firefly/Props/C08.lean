import Firefly.Model.Spin
namespace Firefly.C08
open Firefly.Spin

theorem placeholder_partial : (init 0).sh.lock = 0 := rfl

end Firefly.C08
