import Firefly.Model.Spin
import Firefly.Model.SpinCfg
import Firefly.Proof.Spin
import Firefly.Proof.SpinInv
import Firefly.Proof.SpinRun
import Firefly.Proof.SpinRefinesLock
import Firefly.Proof.SpinLockedSim
import Firefly.Proof.SpinClients
/-!
# C08 — Spinlock gives mutual exclusion; try-acquire never lies

Statement (properties.jsonl): at most one task holds a spinlock at any time: a blocking acquire
returns only while no one else holds the lock, a try-acquire returns true exactly when it took the
lock and false without side effects when someone else holds it, and after a release the lock can
be taken again. Work done inside the lock by one holder is visible to the next holder.  For every
interleaving of blocking acquires, try-acquires and releases by any number of tasks.

All theorems are about the machine of `Model/Spin.lean` running the **generated** programs
`Gen.C08.acquireAsm` (from `spinlock_amd64.s`), `acquireGo`, `tryGo`, `releaseGo` (from
`spinlock.go`): for every configuration `cfg` (address of the lock word, nil or non-nil
`yieldFn`), every number of threads `n`, every schedule (`Reachable cfg n s`), every value the
yield function leaves in the registers.  Interleaving is sequentially consistent; x86-TSO and real
parallelism are outside the model (trusted: XCHG is a full barrier, `sync/atomic` is sequentially
consistent).  Starvation freedom is not claimed (a test-and-set lock has none).

`Owner t` (Proof/Spin.lean): `t` is a holder (`t.held`: Acquire returned / TryToAcquire returned
true, Release not yet called), or has won the exchange inside Acquire/TryToAcquire and not yet
returned, or has called Release and not yet executed its store.
-/
namespace Firefly.C08
open Firefly.Spin Firefly.Gen.C08

/-- **tie_intact** — the fact generator could translate the current source: every instruction,
prefix and operand of `spinlock_amd64.s`, every routine the Go methods call, and every client of the
lock is in the model.  When it cannot (an unknown mnemonic, a new TEXT symbol, a Go method that calls
another routine, …) the generated file carries the reason in `Gen.C08.tieBroken` and this theorem —
with everything about the programs — stops checking: the tie is broken explicitly, by name. -/
theorem tie_intact : Gen.C08.tieBroken = [] := by decide

/-- **canonical_program_is_source_program** — `Gen.C08.acquireAsm`, the program all theorems below are
about, is the source program `Gen.C08.rawAsm` (the instructions of `spinlock_amd64.s` in source
order) re-linearised: under `Gen.C08.canonOrigin` the entries correspond and every instruction of
`acquireAsm` other than an unconditional jump is the same instruction of `rawAsm` with the same
successors, where `JZ t` / `JNZ t` are read as one branch node with (if-ZF, if-not-ZF) successors and
unconditional jumps only redirect edges (`Model/SpinCfg.lean`).  The fact generator's re-lineariser —
which makes the proofs independent of block layout and jump polarity — is therefore checked on every
run, not trusted. -/
theorem canonical_program_is_source_program :
    sameGraph Gen.C08.rawAsm Gen.C08.acquireAsm Gen.C08.canonOrigin = true := by decide

/-- **mutex** — in every reachable state at most one thread is a holder. -/
theorem mutex {cfg : Config} {n : Nat} {s : State} (hr : Reachable cfg n s)
    {i j : Nat} {ti tj : Thread} (hi : s.threads[i]? = some ti) (hj : s.threads[j]? = some tj)
    (hhi : ti.held = true) (hhj : tj.held = true) : i = j :=
  (reachable_inv hr).uniq i j ti tj hi hj (Or.inl hhi) (Or.inl hhj)

/-- **mutex_owners** — stronger: at most one thread *owns* the lock, counting threads that have
won the exchange but not yet returned and threads in `Release` before their store. -/
theorem mutex_owners {cfg : Config} {n : Nat} {s : State} (hr : Reachable cfg n s)
    {i j : Nat} {ti tj : Thread} (hi : s.threads[i]? = some ti) (hj : s.threads[j]? = some tj)
    (hoi : Owner ti) (hoj : Owner tj) : i = j :=
  (reachable_inv hr).uniq i j ti tj hi hj hoi hoj

/-- **lock_word** — the lock word is always 0 or 1, and it is 1 exactly when some thread owns the
lock (a holder, a winner that has not returned yet, or a releaser that has not stored yet). -/
theorem lock_word {cfg : Config} {n : Nat} {s : State} (hr : Reachable cfg n s) :
    (s.sh.lock = 0 ∨ s.sh.lock = 1) ∧
    (s.sh.lock = 1 ↔ ∃ (i : Nat) (t : Thread), s.threads[i]? = some t ∧ Owner t) := by
  have hI := reachable_inv hr
  exact ⟨hI.word, hI.own1, fun ⟨i, t, hi, ho⟩ => hI.own0 i t hi ho⟩

/-- **acquire_returns_only_when_free** — for a step of thread `i` inside `archAcquireSpinlock`
(instruction `pc` of the generated program):
(1) `RET` is executed only by a thread that owns the lock, and only `RET` leaves the function;
(2) ownership is gained only by instruction 3, `XCHGL 0(AX), BX`, executed while the lock word was
    0 — so no other thread owned the lock at that moment — and it leaves the word at 1;
(3) ownership, once gained, is kept until the return (and the word stays 1). -/
theorem acquire_returns_only_when_free {cfg : Config} {n : Nat} {s s' : State} (hr : Reachable cfg n s)
    {i : Nat} {ch : Choice} {t t' : Thread} {m : Method} {rpc pc : Nat}
    (hi : s.threads[i]? = some t) (hph : t.ph = .asm m rpc pc)
    (hs : step cfg s i ch = some s') (hi' : s'.threads[i]? = some t') :
    (acquireAsm[pc]? = some .ret → Owner t) ∧
    (∀ m' pc', t'.ph = .go m' pc' → acquireAsm[pc]? = some .ret) ∧
    (¬ Owner t → Owner t' →
      acquireAsm[pc]? = some (.xchgl (.mem .AX 0) (.reg .BX)) ∧ s.sh.lock = 0 ∧ s'.sh.lock = 1 ∧
      ∀ (j : Nat) (tj : Thread), s.threads[j]? = some tj → ¬ Owner tj) ∧
    (Owner t → Owner t' ∧ s'.sh.lock = 1) := by
  have hI := reachable_inv hr
  obtain ⟨t0, sh', t1, hi0, hts, rfl⟩ := step_cases hs
  rw [hi] at hi0; cases hi0
  rw [get_set_self hi] at hi'; cases hi'
  have : ∃ hv, (sh', t') = asmStep cfg s.sh t m rpc pc hv := by
    unfold tstep at hts
    rw [hph] at hts
    cases ch <;> simp at hts
    · exact ⟨none, hts.symm⟩
    · exact ⟨_, hts.symm⟩
  obtain ⟨hv, he⟩ := this
  have h := asm_own cfg s.sh t rpc pc m hv hph (hI.loc i t hi) hI.word (hI.own0 i t hi)
  simp only [← he] at h
  obtain ⟨h1, h2, h3, h4⟩ := h
  refine ⟨h3, h4, ?_, h1⟩
  intro hno ho'
  obtain ⟨rfl, h0, h1'⟩ := h2 hno ho'
  refine ⟨rfl, h0, h1', ?_⟩
  intro j tj hj hoj
  have := hI.own0 j tj hj hoj
  omega

/-- **try_exact** — a step of thread `i` inside `TryToAcquire` (generated body `tryGo`):
at index 0 it atomically reads the lock word into `tmp` and leaves 1 there — when the word was
already 1 the shared state is unchanged (1 rewritten over 1); at index 1 it returns
`tmp == 0` without touching shared state: `true` exactly when its swap read 0, and then the caller
is a holder and the only one; `false` leaves the caller's `held` as it was.  No step of
`TryToAcquire` changes any other thread. -/
theorem try_exact {cfg : Config} {n : Nat} {s s' : State} (hr : Reachable cfg n s)
    {i : Nat} {ch : Choice} {t t' : Thread} {pc : Nat}
    (hi : s.threads[i]? = some t) (hph : t.ph = .go .try_ pc)
    (hs : step cfg s i ch = some s') (hi' : s'.threads[i]? = some t') :
    (pc = 0 ∨ pc = 1) ∧
    (pc = 0 → t'.ph = .go .try_ 1 ∧ t'.tmp = s.sh.lock ∧ s'.sh.lock = 1 ∧ s'.sh.ctr = s.sh.ctr ∧
      t'.held = t.held ∧ (s.sh.lock ≠ 0 → s'.sh = s.sh)) ∧
    (pc = 1 → t'.ph = .idle ∧ t'.ret = some (t.tmp == 0) ∧ s'.sh = s.sh ∧
      (t.tmp = 0 → t'.held = true ∧
        ∀ (j : Nat) (tj : Thread), s'.threads[j]? = some tj → tj.held = true → j = i) ∧
      (t.tmp ≠ 0 → t'.held = t.held)) ∧
    (∀ j, j ≠ i → s'.threads[j]? = s.threads[j]?) := by
  have hI := reachable_inv hr
  have hr' : Reachable cfg n s' := Reachable.step i ch hr hs
  have hoth := fun j (hne : j ≠ i) => step_other (j := j) hs hne
  obtain ⟨t0, sh', t1, hi0, hts, rfl⟩ := step_cases hs
  rw [hi] at hi0; cases hi0
  have hi'' := hi'
  rw [get_set_self hi] at hi'; cases hi'
  have hL := hI.loc i t hi
  simp only [Local, hph] at hL
  have hpc : pc = 0 ∨ pc = 1 := by omega
  have he : (sh', t') = goStep s.sh t .try_ pc := by
    unfold tstep at hts
    rw [hph] at hts
    cases ch <;> simp at hts <;> exact hts.symm
  refine ⟨hpc, ?_, ?_, hoth⟩
  · rintro rfl
    simp [goStep, body, tryGo, two32] at he
    obtain ⟨rfl, rfl⟩ := he
    refine ⟨rfl, rfl, rfl, rfl, rfl, ?_⟩
    intro hne
    rcases hI.word with h | h
    · exact absurd h hne
    · cases hsh : s.sh; simp [hsh] at h ⊢; exact h.symm
  · rintro rfl
    simp [goStep, body, tryGo, finish] at he
    obtain ⟨rfl, rfl⟩ := he
    refine ⟨rfl, rfl, rfl, ?_, ?_⟩
    · intro h0
      refine ⟨by simp [h0], ?_⟩
      intro j tj hj hhj
      exact mutex hr' hj hi'' hhj (by simp [h0])
    · intro hne
      have : (t.tmp == 0) = false := by simpa using hne
      simp [this]

/-- **release_reacquirable** — the store of `Release` leaves the lock word 0; and in every
reachable state whose lock word is 0, any idle thread `i` that runs alone takes the lock in a
bounded number of steps: 3 moves through `TryToAcquire` (which returns `true`), 10 moves through
`Acquire` — afterwards it is a holder and the word is 1. -/
theorem release_reacquirable {cfg : Config} {n : Nat} {s : State} (hr : Reachable cfg n s)
    {i : Nat} {t : Thread} (hi : s.threads[i]? = some t) :
    (∀ ch s' t', t.ph = .go .release 0 → step cfg s i ch = some s' → s'.threads[i]? = some t' →
      s'.sh.lock = 0 ∧ t'.ph = .go .release 1) ∧
    (s.sh.lock = 0 → t.ph = .idle →
      (∃ s' t', runSched cfg s (solo i tryMoves) = some s' ∧ s'.threads[i]? = some t' ∧
        t'.ph = .idle ∧ t'.held = true ∧ t'.ret = some true ∧ s'.sh.lock = 1) ∧
      (∃ s' t', runSched cfg s (solo i acquireMoves) = some s' ∧ s'.threads[i]? = some t' ∧
        t'.ph = .idle ∧ t'.held = true ∧ s'.sh.lock = 1)) := by
  have hI := reachable_inv hr
  constructor
  · intro ch s' t' hph hs hi'
    obtain ⟨t0, sh', t1, hi0, hts, rfl⟩ := step_cases hs
    rw [hi] at hi0; cases hi0
    rw [get_set_self hi] at hi'; cases hi'
    unfold tstep at hts
    rw [hph] at hts
    cases ch <;> simp [goStep, body, releaseGo, two32] at hts <;>
      (obtain ⟨rfl, rfl⟩ := hts; exact ⟨rfl, rfl⟩)
  · intro h0 hph
    have hh : t.held = false := by
      cases h : t.held
      · rfl
      · have := hI.own0 i t hi (Or.inl h); omega
    constructor
    · obtain ⟨t', hrun, h1, h2, h3⟩ := try_alone cfg s.sh t h0 hph
      exact ⟨_, t', runSched_solo cfg i tryMoves s t _ t' hi hrun, get_set_self hi, h1, h2, h3, rfl⟩
    · obtain ⟨t', hrun, h1, h2⟩ := acquire_alone cfg s.sh t h0 hph hh
      exact ⟨_, t', runSched_solo cfg i acquireMoves s t _ t' hi hrun, get_set_self hi, h1, h2, rfl⟩

/-- **handover_visible** — with a plain protected counter that holders read and then write back
incremented inside their critical sections, the counter always equals the number of completed
increments (no lost update: every holder saw the writes of all previous holders), and a value a
holder has read and not yet written back is still the current one.  Proved under sequentially
consistent interleaving. -/
theorem handover_visible {cfg : Config} {n : Nat} {s : State} (hr : Reachable cfg n s) :
    s.sh.ctr = s.sh.incs ∧
    ∀ (i : Nat) (t : Thread) (v : Nat), s.threads[i]? = some t → t.loc = some v → v = s.sh.ctr ∧ t.held = true :=
  ⟨(reachable_inv hr).ctr, (reachable_inv hr).cs⟩

/-- **deadlock_free** — in every reachable state no thread has faulted and every thread can make
a step (nothing ever blocks: waiting is spinning); and if the thread that owns the lock keeps
stepping (finishing its call, then calling `Release`) the lock word becomes 0 within 7 of its own
moves, whatever state the other threads are in.  (Starvation freedom is not claimed.) -/
theorem deadlock_free {cfg : Config} {n : Nat} {s : State} (hr : Reachable cfg n s)
    {i : Nat} {t : Thread} (hi : s.threads[i]? = some t) :
    t.ph ≠ .fault ∧
    (∃ ch s', step cfg s i ch = some s') ∧
    (Owner t → ∃ chs s', chs.length ≤ 7 ∧ runSched cfg s (solo i chs) = some s' ∧ s'.sh.lock = 0) := by
  have hI := reachable_inv hr
  have hL := hI.loc i t hi
  refine ⟨?_, ?_, ?_⟩
  · intro h; simp [Local, h] at hL
  · obtain ⟨ch, ⟨sh', t'⟩, h⟩ := can_step cfg s.sh t hL
    exact ⟨ch, { sh := sh', threads := s.threads.set i t' }, by simp [step, hi, h]⟩
  · intro ho
    obtain ⟨chs, sh', t', hlen, hrun, h0⟩ := owner_can_free cfg s.sh t hL ho
    exact ⟨chs, _, hlen, runSched_solo cfg i chs s t sh' t' hi hrun, h0⟩

/-- **spin_refines_abstract_lock** — forward simulation from the spin-lock machine (regenerated
programs, any number of threads, any schedule, clients that Release only while holding) to the
abstract lock that C09's `Model/Locked.lean` builds on (`absStep`: `holder : Option Nat`; `acq i`
enabled only while `holder = none`; `rel i` only for the holder).  The visible event of a machine
step is read off the lock word (`evOf`: 0→nonzero is `acq i`, nonzero→0 is `rel i`, else `tau`); the
abstraction `Abs s h` says that `h` is the unique `Owner`.
(1) initially nobody holds; (2) every step of every thread is matched by the abstract lock on its
event — the winning `XCHGL` / successful `TryToAcquire` swap by `acq`, the `Release` store by `rel`,
everything else by a stutter — and re-establishes the abstraction; (3) hence the event trace of
every execution is a trace of the abstract lock; (4) a thread that is inside its critical section
(`held`) is the abstract holder; (5) every step of the Locked machine moves its `holder` field by
such an abstract-lock step (the interface is the same). -/
theorem spin_refines_abstract_lock (cfg : Config) (n : Nat) :
    Abs (init n) none ∧
    (∀ {s s' : State} {i : Nat} {ch : Choice} {h : Option Nat}, Reachable cfg n s → Abs s h →
      step cfg s i ch = some s' → ∃ h', absStep h (evOf s s' i) = some h' ∧ Abs s' h') ∧
    (∀ {evs : List LockEv} {s : State}, Exec cfg (init n) evs s →
      ∃ hd, absRun none evs = some hd ∧ Abs s hd) ∧
    (∀ {s : State} {h : Option Nat} {i : Nat} {t : Thread}, Reachable cfg n s → Abs s h →
      s.threads[i]? = some t → t.held = true → h = some i) ∧
    (∀ {σ ρ O : Type} (S : Locked.Sys σ ρ O) (s s' : Locked.State σ ρ O) (i : Nat),
      Locked.step S s i = some s' →
      absStep s.holder (.acq i) = some s'.holder ∨ absStep s.holder (.rel i) = some s'.holder ∨
      (s.holder = some i ∧ s'.holder = some i)) :=
  ⟨abs_init n, fun hr ha hs => sim_step (reachable_inv hr) ha hs, fun h => exec_refines h,
   fun hr ha hi hh => held_is_abs_holder (reachable_inv hr) ha hi hh,
   fun S s s' i h => locked_step_is_abslock S s s' i h⟩

/-- **spin_lock_substitutes** — the composition.  `cstep` (Proof/SpinLocked.lean) is C09's machine
with the REAL lock program in place of the abstract lock: every thread loops `Acquire()`,
micro-steps of its client's next operation on the shared object, `Release()`; micro-steps are taken
between the return of `Acquire` and the call of `Release`, with no reference to an abstract holder.
Every reachable state of that machine (any object, any clients, any number of threads, any schedule)
projects (`proj`) to a reachable state of the machine of `Model/Locked.lean`; therefore every safety
property proved for all reachable states of the Locked machine — `C09.linearizable`, and through it
`no_duplicate`, `freed_is_reusable`, `totals_after_quiescence` — holds of the projection, with the
spin lock of `/repo` substituted for the abstract lock. -/
theorem spin_lock_substitutes {σ ρ O : Type} (S : Locked.Sys σ ρ O) (cfg : Config) (n : Nat) (s0 : σ)
    {c : CState σ ρ O} (h : CReachable S cfg n s0 c) :
    Locked.Reachable S s0 (proj c) ∧
    ∀ P : Locked.State σ ρ O → Prop, (∀ s, Locked.Reachable S s0 s → P s) → P (proj c) :=
  ⟨(creachable_proj S cfg n s0 h).2, fun _ hP => hP _ (creachable_proj S cfg n s0 h).2⟩

/-- **clients_disciplined** — the tie between the code and the client shape `cstep` assumes.
`Gen.C08.clients` is REGENERATED on every run: the lock skeleton (control flow + lock calls) of
every function under `kernel/` that calls `Acquire`/`Release`/`TryToAcquire` on any field or
variable of type `sync.Spinlock` (`Gen.C08.lockDecls`; today `BitmapAllocator.AllocFrame` and
`FreeFrame`).  (1) every one of them passes the lock-discipline checker of `Model/Locked.lean`;
(2) hence (soundness of the checker) on every control-flow path of every client, for any loop
iteration counts, the function leaves by `return`/end of body and its lock calls are exactly
`Acquire` then `Release` — taken once, released exactly once on every return path, never released
un-acquired; (3) this is the shape the composed machine accepts: `cstep` lets a thread call
`Acquire` only while outside (idle, not holding, no operation in progress), take micro-steps and
call `Release` only between the return of `Acquire` and the call of `Release`, and nothing else. -/
theorem clients_disciplined :
    (∀ c ∈ Gen.C08.clients, Locked.disciplined c.2 = true) ∧
    (∀ c ∈ Gen.C08.clients, ∀ (tr : List Locked.Ev) (x : Locked.Exit), Locked.Runs c.2 tr x →
      (x = .fall ∨ x = .ret) ∧ lockCalls tr = [.acq, .rel]) ∧
    (∀ {σ ρ O : Type} (S : Locked.Sys σ ρ O) (cfg : Config) (c c' : CState σ ρ O) (i : Nat),
      (cstep S cfg c i (.lock .callAcquire) = some c' →
        ∃ t, c.spin.threads[i]? = some t ∧ t.ph = .idle ∧ t.held = false ∧ (c.cl i).cur = none) ∧
      (cstep S cfg c i (.lock .callRelease) = some c' →
        ∃ t, c.spin.threads[i]? = some t ∧ t.ph = .idle ∧ t.held = true) ∧
      (cstep S cfg c i .micro = some c' →
        ∃ t, c.spin.threads[i]? = some t ∧ t.ph = .idle ∧ t.held = true) ∧
      cstep S cfg c i (.lock .callTry) = none) := by
  have h1 : ∀ c ∈ Gen.C08.clients, Locked.disciplined c.2 = true := by decide
  exact ⟨h1, fun c hc tr x hr => disciplined_calls c.2 (h1 c hc) hr, fun S cfg c c' i => cstep_call_shape S cfg c c' i⟩

/-- the scan found the clients (the statement above is not about an empty list) -/
example : Gen.C08.clients.length ≥ 2 ∧ Gen.C08.lockDecls.length ≥ 1 := by decide

/-! ## Non-vacuity: concrete schedules of the generated programs -/

private theorem reach_of_run {cfg : Config} {n : Nat} {sched : List (Nat × Choice)} (p : State → Bool)
    (h : (runSched cfg (init n) sched).any p = true) : ∃ s, Reachable cfg n s ∧ p s = true := by
  cases hrun : runSched cfg (init n) sched with
  | none => simp [hrun] at h
  | some s => exact ⟨s, runSched_reachable sched Reachable.init hrun, by simpa [hrun] using h⟩

/-- lock word at 4096, a non-nil yield function -/
def exCfg : Config := { lockAddr := 4096, yieldFn := 8192 }

def inAsm (t : Thread) : Bool := match t.ph with | .asm .. => true | _ => false

/-- Thread 0 takes the lock with TryToAcquire; thread 1 calls Acquire, loses the exchange, spins,
calls the yield function (which clobbers its registers) and keeps spinning: the lock word is 1,
thread 0 is the holder, thread 1 is inside the assembly loop. -/
example : ∃ s, Reachable exCfg 2 s ∧
    (s.sh.lock == 1 && s.threads[0]?.any (·.held) && s.threads[1]?.any (fun t => inAsm t && !t.held)) = true :=
  reach_of_run _ (by decide :
    (runSched exCfg (init 2) (solo 0 tryMoves ++ solo 1 (.callAcquire :: .run :: List.replicate 20 (.havoc 7 7 7 7 false)))).any _ = true)

/-- Hand-over: thread 0 acquires, increments the protected counter, releases; thread 1 (with
`yieldFn = nil`, as in the kernel) then acquires through the assembly path and increments what it
reads: the counter is 2 = completed increments. -/
example : ∃ s, Reachable { lockAddr := 4096, yieldFn := 0 } 2 s ∧
    (s.sh.ctr == 2 && s.sh.incs == 2 && s.sh.lock == 1 && s.threads[1]?.any (·.held)) = true :=
  reach_of_run _ (by decide :
    (runSched { lockAddr := 4096, yieldFn := 0 } (init 2)
      (solo 0 (acquireMoves ++ [.csRead, .csWrite] ++ releaseMoves) ++
       solo 1 (acquireMoves ++ [.csRead, .csWrite]))).any _ = true)

/-- A TryToAcquire on a held lock returns false and changes nothing shared. -/
example : ∃ s, Reachable exCfg 2 s ∧
    (s.sh.lock == 1 && s.threads[1]?.any (fun t => t.ret == some false && !t.held) && s.threads[0]?.any (·.held)) = true :=
  reach_of_run _ (by decide :
    (runSched exCfg (init 2) (solo 0 acquireMoves ++ solo 1 tryMoves)).any _ = true)

/-- a shared counter whose only operation is `tmp := x; x := tmp + 1` in two micro-steps -/
def exSys : Locked.Sys Nat Nat Unit :=
  { sem := fun _ => { init := 0, steps := [fun (x, _r) => (x, x), fun (_x, r) => (r + 1, r)] },
    client := fun _ h => if h.length < 1 then some () else none }

private theorem creach_of_run {σ ρ O : Type} {S : Locked.Sys σ ρ O} {cfg : Config} {n : Nat} {s0 : σ}
    {sched : List (Nat × CMove)} (p : CState σ ρ O → Bool)
    (h : (crunSched S cfg (cinit n s0) sched).any p = true) : ∃ c, CReachable S cfg n s0 c ∧ p c = true := by
  cases hrun : crunSched S cfg (cinit n s0) sched with
  | none => simp [hrun] at h
  | some c => exact ⟨c, crunSched_reachable S cfg n s0 sched CReachable.init hrun, by simpa [hrun] using h⟩

/-- The composed machine is not vacuous: two threads each run one operation through the real lock
program (thread 1 loses the exchange and spins while thread 0 is inside); the projection is a
reachable state of the Locked machine with both operations logged, the counter at 2, the lock free. -/
example : ∃ c, CReachable exSys exCfg 2 0 c ∧
    ((proj c).sh == 2 && (proj c).log.length == 2 && (proj c).holder == none &&
     ((proj c).threads 1).hist.length == 1) = true :=
  creach_of_run _ (by decide :
    (crunSched exSys exCfg (cinit 2 0)
      ([(0, .lock .callAcquire)] ++ List.replicate 9 (0, .lock .run) ++
       [(1, .lock .callAcquire)] ++ List.replicate 12 (1, .lock (.havoc 7 7 7 7 false)) ++
       [(0, .micro), (0, .micro), (0, .lock .callRelease), (0, .lock .run), (0, .lock .run)] ++
       List.replicate 18 (1, .lock .run) ++
       [(1, .micro), (1, .micro), (1, .lock .callRelease), (1, .lock .run), (1, .lock .run)])).any _ = true)

end Firefly.C08
