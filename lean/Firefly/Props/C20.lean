import Firefly.Model.Redirects
import Firefly.Proof.Redirects
/-!
# C20 — Kernel build finds every runtime redirect, exactly once, reproducibly

Statement (properties.jsonl): for every kernel source tree, the build tool's redirect table
contains exactly one entry per redirect annotation on a function declaration — source symbol
as written, destination the function's fully qualified import-path name — and nothing else:
annotations in test files, on non-functions or in ordinary comments are ignored.  Building the
same tree twice yields the same table in the same order, so the kernel image is reproducible.

Model: `Firefly.Redirects.findRedirectsWith π t` (`Model/Redirects.lean`) mirrors
`Context.FindRedirects`; `π` stands for the iteration order the Go run time would pick for a
`range` over a map and is consulted only if the generated fact `Gen.C20.rangesOverMap` says the
collection loop ranges over one.  Specification: `annotations t` lists, without any sorting or
iteration order, one element per directive comment in the doc group of a function declaration
of a non-test `.go` file.  All theorems are for every tree `t` (any depth and size).
-/
namespace Firefly.C20
open Firefly.Redirects

/-! ## Generated facts the proofs rest on (regenerated from /repo on every run) -/

/-- the directive the code matches is the one the property is about -/
theorem directive_constant : Gen.C20.redirectComment = "//go:redirect-from" := by decide

/-- destinations are qualified with the kernel's import path -/
theorem prefix_constant : Gen.C20.pkgPrefix = "github.com/ProjectSerenity/firefly/kernel" := by decide

/-- no loop on the way to `ctx.Redirects = append(…)` ranges over a Go map (go/types fact
extracted from `FindRedirects` and the functions it calls) -/
theorem no_map_range : Gen.C20.rangesOverMap = false := by decide

/-! ## Exactly once -/

/-- **exactly_once** — whatever order the declarations of a file are visited in (any family of
permutations `π`, so also under Go map iteration), the table is, as a multiset, exactly the
annotations of the tree: one entry per directive comment on a function declaration of a
non-test `.go` file, `(trimmed remainder, pkgPrefix/dir.name)`, and nothing else. -/
theorem exactly_once (π : List Decl → List Decl) (hπ : ∀ ds, (π ds).Perm ds) (t : Tree) :
    (findRedirectsWith π t).Perm (annotations t) := by
  unfold findRedirectsWith
  apply findRedirectsOrd_perm
  intro ds
  unfold declOrder
  split
  · exact hπ ds
  · exact List.Perm.refl _

/-- every entry occurs in the table exactly as often as it is annotated -/
theorem exactly_once_count (π : List Decl → List Decl) (hπ : ∀ ds, (π ds).Perm ds) (t : Tree)
    (e : Redirect) : (findRedirectsWith π t).count e = (annotations t).count e :=
  (exactly_once π hπ t).count_eq e

/-- `NUM_REDIRECTS` (the table length handed to the boot assembly) is the number of annotations -/
theorem table_length (π : List Decl → List Decl) (hπ : ∀ ds, (π ds).Perm ds) (t : Tree) :
    (findRedirectsWith π t).length = (annotations t).length :=
  (exactly_once π hπ t).length_eq

/-- **nothing_else** — an entry is in the table if and only if some non-test `.go` file of the
tree (`isSourceFile`, at directories `ds` below the root) declares a function `fn` whose doc
group contains a comment `text` that starts with the directive, the entry's source is the rest
of that comment with surrounding white space removed, and its destination is
`pkgPrefix/ds….fn`.  So nothing in the table comes from a test file, a non-function, a body or
a free-standing comment. -/
theorem nothing_else (π : List Decl → List Decl) (hπ : ∀ ds, (π ds).Perm ds) (t : Tree) (e : Redirect) :
    e ∈ findRedirectsWith π t ↔
      ∃ ds f fn doc text, FileAt t ds f ∧ isSourceFile f.name = true ∧ Decl.func fn doc ∈ f.decls ∧
        text ∈ doc ∧ directiveSrc text = some e.1 ∧ e.2 = qualify ds fn := by
  rw [(exactly_once π hπ t).mem_iff, mem_annotations_iff]
  constructor
  · rintro ⟨ds, f, hf, hm⟩
    obtain ⟨hs, fn, doc, text, h⟩ := (mem_fileAnnotations_iff ds f e).1 hm
    exact ⟨ds, f, fn, doc, text, hf, hs, h⟩
  · rintro ⟨ds, f, fn, doc, text, hf, hs, h⟩
    exact ⟨ds, f, hf, (mem_fileAnnotations_iff ds f e).2 ⟨hs, fn, doc, text, h⟩⟩

/-- **ignored_content** — the table (entries *and* order) does not change when everything the
property says is ignored is deleted from the tree (`stripList`): the whole content of test files
and of files not named `*.go`, doc comments of declarations that are not functions, every
comment outside a top-level doc group (bodies, fields, free-standing, trailing), and doc
comments without the directive prefix. -/
theorem ignored_content (π : List Decl → List Decl) (t : Tree) :
    findRedirectsWith π (stripList t) = findRedirectsWith π t := by
  unfold findRedirectsWith declOrder
  simp only [no_map_range, Bool.false_eq_true, if_false]
  exact findRedirectsOrd_id_strip t

/-- the same at the level of the specification: the annotations of a tree are those of the
stripped tree -/
theorem annotations_ignore (t : Tree) : annotations (stripList t) = annotations t :=
  listAnnotations_strip [] t

/-- an annotation is the directive prefix followed by the source symbol; the entry carries the
symbol with surrounding white space removed and the function qualified by its directory -/
theorem annotation_entry (dirs : List String) (fn text : String) :
    docRedirects dirs fn [text] =
      match directiveSrc text with
      | some src => [(src, pkgPath dirs ++ "." ++ fn)]
      | none => [] := by
  unfold docRedirects qualify
  cases h : directiveSrc text <;> simp [h]

/-! ## Reproducible -/

/-- **deterministic** — the table is a function of the tree alone: two runs (two choices `π₁`,
`π₂` of the run time) produce the same list in the same order.  Proved from the generated fact
`rangesOverMap = false`; if the code ranges over a map again this proof breaks. -/
theorem deterministic (π₁ π₂ : List Decl → List Decl) (t : Tree) :
    findRedirectsWith π₁ t = findRedirectsWith π₂ t := by
  unfold findRedirectsWith declOrder
  simp [no_map_range]

/-- **source_order** — the order of the table is walk order × declaration order × doc-comment
order. -/
theorem source_order (π : List Decl → List Decl) (t : Tree) :
    findRedirectsWith π t =
      (sourceFiles t).flatMap fun (dirs, f) =>
        f.decls.flatMap fun d =>
          match d with
          | .func fn doc => doc.filterMap fun text => (directiveSrc text).map fun src => (src, qualify dirs fn)
          | .other _ => [] := by
  unfold findRedirectsWith declOrder findRedirectsOrd
  simp only [no_map_range, Bool.false_eq_true, if_false, id]
  congr 1

/-- **listing_order_irrelevant** — the walk does not depend on the order in which the file
system lists a directory (names within a directory are distinct): same entries, same sorted
visit order, hence the same table on every machine. -/
theorem listing_order_irrelevant (t t' : Tree) (hp : t.Perm t') (hnd : (t.map Entry.name).Nodup)
    (π : List Decl → List Decl) : findRedirectsWith π t = findRedirectsWith π t' := by
  unfold findRedirectsWith findRedirectsOrd sourceFiles
  rw [sortedListing_congr [] t t' hp hnd]

/-- the same for any directory below the root -/
theorem listing_order_irrelevant_subdir (dirs : List String) (n : String) (es es' : List Entry)
    (hp : es.Perm es') (hnd : (es.map Entry.name).Nodup) :
    walkEntry dirs (.dir n es) = walkEntry dirs (.dir n es') := by
  unfold walkEntry
  rw [sortedListing_congr (dirs ++ [n]) es es' hp hnd]

/-- **canonical_determines** — at every depth at once: the table depends on the tree only
through its canonical form (`canonical`: every directory, at every depth, listed in name order).
Two trees that differ only in the order in which directories happen to be listed have the same
table. -/
theorem canonical_determines (π : List Decl → List Decl) (t t' : Tree) (h : canonical t = canonical t') :
    findRedirectsWith π t = findRedirectsWith π t' := by
  unfold findRedirectsWith findRedirectsOrd
  rw [← sourceFiles_canonical t, ← sourceFiles_canonical t', h]

/-! ## Negative witness for the defect that was repaired (D12) -/

/-- the smallest tree on which the visiting order matters: one file, two annotated functions -/
def twoFuncs : Tree :=
  [.file { name := "a.go", comments := [],
           decls := [.func "first" ["//go:redirect-from runtime.first"],
                     .func "second" ["//go:redirect-from runtime.second"]] }]

/-- **map_order_counterexample** — if the declarations of a file are visited in an order the run
time chooses (as `for node := range cmap` did), two runs can produce different tables: identity
and reversal are both permutations and disagree on `twoFuncs`. -/
theorem map_order_counterexample :
    findRedirectsOrd id twoFuncs ≠ findRedirectsOrd List.reverse twoFuncs := by decide

/-! ## Non-vacuity -/

example : findRedirects twoFuncs =
    [("runtime.first", "github.com/ProjectSerenity/firefly/kernel.first"),
     ("runtime.second", "github.com/ProjectSerenity/firefly/kernel.second")] := by decide

example : annotations twoFuncs = findRedirects twoFuncs := by decide

/-- a tree with a sub-directory, a test file, a non-function and a look-alike: one entry -/
example : findRedirects
    [.dir "mm" [.file { name := "a_test.go", comments := [], decls := [.func "t" ["//go:redirect-from runtime.inTest"]] },
                .file { name := "a.go", comments := ["//go:redirect-from runtime.free"],
                        decls := [.other ["//go:redirect-from runtime.onVar"],
                                  .func "alloc" ["// doc", "// see //go:redirect-from x", "//go:redirect-from \truntime.sysAlloc  "]] }]]
    = [("runtime.sysAlloc", "github.com/ProjectSerenity/firefly/kernel/mm.alloc")] := by decide

/-- a test file contributes nothing -/
example : findRedirects [.file { name := "a_test.go", comments := [], decls := [.func "t" ["//go:redirect-from runtime.x"]] }] = [] := by decide

/-- two listings of the same tree that differ two levels down have the same canonical form -/
example : canonical [.dir "mm" [.dir "vmm" [.file ⟨"b.go", [], []⟩, .file ⟨"a.go", [], []⟩], .file ⟨"z.go", [], []⟩]]
        = canonical [.dir "mm" [.file ⟨"z.go", [], []⟩, .dir "vmm" [.file ⟨"a.go", [], []⟩, .file ⟨"b.go", [], []⟩]]] := by rfl

/-- hypotheses of `exactly_once` and `listing_order_irrelevant` are satisfiable non-trivially -/
example : ∀ ds : List Decl, (List.reverse ds).Perm ds := fun ds => List.reverse_perm ds
example : ([Entry.dir "b" [], Entry.file ⟨"a.go", [], []⟩] : Tree).Perm [Entry.file ⟨"a.go", [], []⟩, Entry.dir "b" []] ∧
    (([Entry.dir "b" [], Entry.file ⟨"a.go", [], []⟩] : Tree).map Entry.name).Nodup :=
  ⟨List.Perm.swap _ _ _, by decide⟩

end Firefly.C20
