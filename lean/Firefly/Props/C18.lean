import Firefly.Model.Vt
import Firefly.Spec.Term
namespace Firefly.C18
end Firefly.C18
