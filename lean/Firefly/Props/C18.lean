import Firefly.Model.Vt
import Firefly.Spec.Term
import Firefly.Proof.Vt
import Firefly.Props.C17
import Firefly.Props.C19
import Firefly.Proof.VtPix
import Firefly.Gen.C18
/-!
# C18 — An active terminal and its console always show the same thing

Statement (properties.jsonl): while a terminal is active, after every write the attached console
displays exactly the terminal's current viewport — same characters and colours in every cell —
and nothing is drawn outside the console's cell grid; while it is inactive the console is not
touched at all.  Activating a terminal redraws the console so that it again equals the viewport,
whatever was written while it was inactive.  This holds with the shipped text-mode and
framebuffer consoles, where each cell shows the font glyph of its character in the cell's colours.

Quantifier: every byte stream, every interleaving of activate/deactivate with writes, every
console.

Here the console is the abstract cell grid `Firefly.Term.Console` (`Spec/Term.lean`): `write` sets
one cell, `scrollUp n` moves line `i+n` to line `i` (the last `n` lines keep their contents),
`fill` blanks a rectangle; draw requests outside the grid are counted in `outside`.  `t.out` is the
list of console calls the VT model has made (newest first), `K0.applyLog t.out` the screen that
results when they are applied to the console `K0` the terminal was attached to.  That the shipped
`VgaTextConsole` / `VesaFbConsole` implement this grid (cell ↦ text word / rendered glyph) is C19
and, for C18, the differential run against the real drivers; the theorems below are about the
terminal's side of the contract, for all geometries and histories.
-/
namespace Firefly.C18
open Firefly.Vt Firefly.Term Firefly.VtProof Firefly.VtCons Firefly.C17

/-- a console with the geometry `w × h`, whatever it shows -/
structure Screen (K : Console) (w h : Nat) : Prop where
  w : K.w = w
  h : K.h = h
  wf : WF K

/-- the invariant `Sync` (console follows viewport, every call inside the grid, nothing drawn
outside) holds after every history that starts with `NewVT` + `AttachTo` -/
private theorem history_sync {w h sb : Nat} (tab : Nat) (fg bg : UInt8) (hd : Dom w h sb) (ops : List Op)
    {K0 : Console} (hk : Screen K0 w h) {t : VT} (ht : history w h sb tab fg bg ops = .ok t) :
    Sync K0 t ∧ Inv t ∧ t.viewportWidth = w ∧ t.viewportHeight = h ∧ t.defaultFg = fg ∧ t.defaultBg = bg := by
  obtain ⟨t0, a0, i0, r0, act0, out0⟩ := attach_spec tab fg bg hd.1 hd.2.1 hd.2.2
  have hw0 : t0.viewportWidth = w := by have := congrArg Term.w r0; simpa [absVT, Term.new] using this
  have hh0 : t0.viewportHeight = h := by have := congrArg Term.h r0; simpa [absVT, Term.new] using this
  have hf0 : t0.defaultFg = fg := by have := congrArg Term.fg r0; simpa [absVT, Term.new] using this
  have hb0 : t0.defaultBg = bg := by have := congrArg Term.bg r0; simpa [absVT, Term.new] using this
  have s0 : Sync K0 t0 := Sync.init hk.wf (by rw [hk.w, hw0]) (by rw [hk.h, hh0]) out0 act0
  have hrun : run t0 ops = .ok t := by simpa [history, a0, Res.bind] using ht
  obtain ⟨t', a', i', r'⟩ := run_spec ops i0
  rw [a'] at hrun; cases hrun
  have c := run_cfg ops (absVT t0)
  rw [← r'] at c
  exact ⟨run_sync ops i0 a' K0 s0, i', c.w.trans hw0, c.h.trans hh0, c.fg.trans hf0, c.bg.trans hb0⟩

/-- **active_sync** — after every history, if the terminal is Active the console shows exactly the
terminal's viewport, cell for cell, which is the viewport of the reference terminal of C17. -/
theorem active_sync {w h sb : Nat} (tab : Nat) (fg bg : UInt8) (hd : Dom w h sb) (ops : List Op)
    {K0 : Console} (hk : Screen K0 w h) {t : VT} (ht : history w h sb tab fg bg ops = .ok t)
    (ha : t.active = true) :
    (K0.applyLog t.out).cells = (absVT t).viewport ∧
    (K0.applyLog t.out).cells = ((Term.new w h sb tab fg bg).run ops).viewport := by
  obtain ⟨s, i, _, _, _, _⟩ := history_sync tab fg bg hd ops hk ht
  have e := s.cells_eq i.toGeo ha
  exact ⟨e, by rw [e]; exact viewport_matches tab fg bg hd ops ht⟩

/-- **inactive_untouched** — while the terminal is Inactive no operation other than the activation
itself makes any console call. -/
theorem inactive_untouched {t t' : VT} (i : Inv t) (ha : t.active = false) (op : Op) (hop : op ≠ .state true)
    (h : step t op = .ok t') : t'.out = t.out :=
  (step_sync i op h).2 ha hop

/-- **inactive_untouched_history** — a history without an activation never touches the console. -/
theorem inactive_untouched_history {w h sb : Nat} (tab : Nat) (fg bg : UInt8) (hd : Dom w h sb) (ops : List Op)
    (hno : ∀ op ∈ ops, op ≠ .state true) {t : VT} (ht : history w h sb tab fg bg ops = .ok t) :
    t.out = [] ∧ t.active = false := by
  obtain ⟨t0, a0, i0, -, act0, out0⟩ := attach_spec tab fg bg hd.1 hd.2.1 hd.2.2
  have hrun : run t0 ops = .ok t := by simpa [history, a0, Res.bind] using ht
  clear ht a0
  induction ops generalizing t0 with
  | nil => cases hrun; exact ⟨out0, act0⟩
  | cons op ops ih =>
    obtain ⟨t1, a1, i1, _⟩ := step_spec i0 op
    have hne : op ≠ .state true := hno op (List.mem_cons_self ..)
    have o1 : t1.out = [] := by rw [inactive_untouched i0 act0 op hne a1]; exact out0
    have act1 : t1.active = false := by
      cases op with
      | byte b => obtain ⟨t2, b2, _, _, s2, _⟩ := writeByte_spec i0 b
                  have : step t0 (.byte b) = .ok t2 := b2
                  rw [this] at a1; cases a1; rw [s2]; exact act0
      | cursor x y => cases a1; rw [(setCursor_spec i0 x y).2.2.1]; exact act0
      | state a =>
        obtain ⟨t2, b2, _, _, s2, _⟩ := setState_spec i0 a
        have : step t0 (.state a) = .ok t2 := b2
        rw [this] at a1; cases a1
        cases a with
        | false => exact s2
        | true => exact absurd rfl hne
    have : run t0 (op :: ops) = run t1 ops := by simp [run, a1, Res.bind]
    rw [this] at hrun
    exact ih (fun op h => hno op (List.mem_cons_of_mem _ h)) t1 i1 act1 o1 hrun

/-- **activate_redraws** — activating an Inactive terminal makes console calls that turn *any*
console of the terminal's geometry, whatever it showed (in particular whatever was written while
the terminal was Inactive), into the terminal's viewport. -/
theorem activate_redraws {t t' : VT} (i : Inv t) (ha : t.active = false) (h : step t (.state true) = .ok t') :
    t'.active = true ∧ ∃ calls, t'.out = calls ++ t.out ∧
      ∀ K, Screen K t.viewportWidth t.viewportHeight → (K.applyLog calls).cells = (absVT t').viewport := by
  obtain ⟨t1, a1, i1, r1, act1, o1, d1, v1, _⟩ := setState_spec i true
  have : step t (.state true) = .ok t1 := a1
  rw [this] at h; cases h
  have hne : ¬ (t.active = true ∨ true = false) := by simp [ha]
  rw [if_neg hne] at o1
  refine ⟨act1, allRows t.data t.viewportWidth t.viewportY t.viewportHeight 1 [], ?_, ?_⟩
  · rw [o1, ← allRows_append]; rfl
  · intro K hk
    obtain ⟨b1, b2, b3, _, _, b6⟩ := allRows_apply K t.data (vy := t.viewportY) t.viewportHeight 1 []
      hk.wf hk.w (Nat.le_refl 1) (by show 1 + t.viewportHeight = K.h + 1; rw [hk.h]; omega)
    have hw : t'.viewportWidth = t.viewportWidth := by have := congrArg Term.w r1; simpa [absVT] using this
    have hh : t'.viewportHeight = t.viewportHeight := by have := congrArg Term.h r1; simpa [absVT] using this
    apply cells_eq_viewport i1.toGeo b3 (by rw [b1, hw]) (by rw [b2, hh]; exact hk.h)
    intro r c hr hc
    rw [hh] at hr; rw [hw] at hc
    have := b6 r c (by show r < K.h; rw [hk.h]; exact hr) hc
    rw [this, if_pos (by omega)]
    simp only [vcell, d1, v1, hw, Nat.add_comm]

/-- **no_outside_draw** — every console call made in any history addresses the cell grid (a cell
of the grid, a scroll by one line, a rectangle inside the grid), so the console's count of draw
requests outside the grid never moves. -/
theorem no_outside_draw {w h sb : Nat} (tab : Nat) (fg bg : UInt8) (hd : Dom w h sb) (ops : List Op)
    {K0 : Console} (hk : Screen K0 w h) {t : VT} (ht : history w h sb tab fg bg ops = .ok t) :
    (∀ c ∈ t.out, CallOk w h c) ∧ (K0.applyLog t.out).outside = K0.outside ∧
      (K0.applyLog t.out).w = w ∧ (K0.applyLog t.out).h = h := by
  obtain ⟨s, _, hw, hh, _, _⟩ := history_sync tab fg bg hd ops hk ht
  exact ⟨by rw [← hw, ← hh]; exact s.ok, s.outside, by rw [← hw]; exact s.w, by rw [← hh]; exact s.h⟩

/-! ## Composition with the shipped console drivers (C19 `refines_grid`) -/
section Shipped
open Firefly.ConsoleGrid

/-- every call of a history is inside the grid and every `Write` is in the default colours -/
private theorem history_calls {w h sb : Nat} (tab : Nat) (fg bg : UInt8) (hd : Dom w h sb) (ops : List Op)
    {K0 : Console} (hk : Screen K0 w h) {t : VT} (ht : history w h sb tab fg bg ops = .ok t) :
    ∀ call ∈ t.out, CallOk K0.w K0.h call ∧ CallDef fg bg call := by
  obtain ⟨s, _, hw, hh, hf, hb⟩ := history_sync tab fg bg hd ops hk ht
  intro call hc
  refine ⟨?_, ?_⟩
  · rw [hk.w, hk.h, ← hw, ← hh]; exact s.ok call hc
  · rw [← hf, ← hb]; exact s.cols call hc

/-- **shipped_consoles_text** — the terminal attached to the model of the shipped text-mode console
(`Model/VgaText.lean`; `c.clearChar = ' '`, the terminal's colours inside the palette), starting
from any framebuffer `fb0` that displays some abstract screen `K0`: for every history the console
model executes the terminal's calls without panicking, the framebuffer displays the abstract
console of `active_sync`, and while the terminal is Active every framebuffer word is the
character/attribute word of the corresponding viewport cell of the reference terminal. -/
theorem shipped_consoles_text (c : VgaText.Cons) (fb0 : Array UInt16) (ok : Firefly.C19.TextOk c fb0)
    (hclear : c.clearChar = 32) {sb : Nat} (tab : Nat) (fg bg : UInt8)
    (hcol : fg.toNat < c.paletteLen ∧ bg.toNat < c.paletteLen) (hd : Dom c.width c.height sb) (ops : List Op)
    (K0 : Console) (wf : WF K0) (sh0 : TextShows c (Firefly.C19.view16 fb0) K0)
    {t : VT} (ht : history c.width c.height sb tab fg bg ops = .ok t) :
    ∃ fb, Firefly.C19.textRun c fb0 t.out = some fb ∧ Firefly.C19.TextOk c fb ∧
      TextShows c (Firefly.C19.view16 fb) (K0.applyLog t.out) ∧
      (t.active = true → ∀ r col, r < c.height → col < c.width →
        Firefly.C19.view16 fb (r * c.width + col) =
          cellWordOf ((((Term.new c.width c.height sb tab fg bg).run ops).viewport.getD r []).getD col default)) := by
  have hk : Screen K0 c.width c.height := ⟨sh0.1, sh0.2.1, wf⟩
  have hcalls := history_calls tab fg bg hd ops hk ht
  have hall : ∀ call ∈ t.out, CallOk K0.w K0.h call ∧ Firefly.C19.CallColors c.paletteLen call := by
    intro call hc
    obtain ⟨h1, h2⟩ := hcalls call hc
    refine ⟨h1, ?_⟩
    cases call with
    | write ch f b x y =>
      simp only [CallDef] at h2
      simp only [Firefly.C19.CallColors]
      rw [h2.1, h2.2]; exact hcol
    | scroll d n => trivial
    | fill x y w h f b => trivial
  obtain ⟨fb, r1, ok1, sh1, _, _⟩ := Firefly.C19.text_refines_grid_log c hclear t.out fb0 K0 ok wf sh0 hall
  refine ⟨fb, r1, ok1, sh1, ?_⟩
  intro ha r col hr hc
  have e := (active_sync tab fg bg hd ops hk ht ha).2
  have := sh1.2.2 r col (by rw [sh1.2.1]; exact hr) (by rw [sh1.1]; exact hc)
  rw [this, Console.at, e]

/-- the call log of a history has the terminal's shape: single in-grid `Write`s, every `Scroll`
followed at once by the `Fill` of the vacated line -/
private theorem history_paired {w h sb : Nat} (tab : Nat) (fg bg : UInt8) (hd : Dom w h sb) (ops : List Op)
    {K0 : Console} (hk : Screen K0 w h) {t : VT} (ht : history w h sb tab fg bg ops = .ok t) :
    Paired w h t.out := by
  obtain ⟨s, _, hw, hh, _, _⟩ := history_sync tab fg bg hd ops hk ht
  rw [← hw, ← hh]; exact s.paired

/-- **shipped_consoles_pix** — the same with the model of the shipped framebuffer console
(`Model/VesaFb.lean`) for every supported depth, pitch, font (`FontOk`, blank space glyph — a
generated fact for the shipped fonts), logo offset and **every height** (left-over pixel rows below
the last text line included): the console model executes the terminal's call log without
panicking, the framebuffer displays the abstract console, and while Active every cell of the
framebuffer shows the glyph of the corresponding viewport cell of the reference terminal in its
packed colours.  On geometries with left-over pixel rows C19 specifies a `Scroll` only for the
lines that receive another line's contents (`pix_refines_grid_scroll_moved`); the terminal's log
always has the `Fill` of the vacated line right after the `Scroll` (`VtProof.Paired`, an invariant
of every history), and the pair re-establishes the display relation (`VtPix.scroll_fill`). -/
theorem shipped_consoles_pix (c : VesaFb.Cons) (f : VesaFb.Font) (fb0 : Array UInt8)
    (ok : Firefly.C19.PixOk c f fb0) (fok : Firefly.C19.FontOk f) (hsp : SpaceBlank f)
    {sb : Nat} (tab : Nat) (fg bg : UInt8)
    (hd : Dom c.cols c.rows sb) (ops : List Op)
    (K0 : Console) (wf : WF K0) (sh0 : PixShows c f (Firefly.C19.view8 fb0) K0)
    {t : VT} (ht : history c.cols c.rows sb tab fg bg ops = .ok t) :
    ∃ fb, Firefly.C19.pixRun c fb0 t.out = some fb ∧ Firefly.C19.PixOk c f fb ∧
      PixShows c f (Firefly.C19.view8 fb) (K0.applyLog t.out) ∧
      (t.active = true → ∀ r col, r < c.rows → col < c.cols →
        CellShows c f (Firefly.C19.view8 fb) (col + 1) (r + 1)
          ((((Term.new c.cols c.rows sb tab fg bg).run ops).viewport.getD r []).getD col default)) := by
  have hk : Screen K0 c.cols c.rows := ⟨sh0.1, sh0.2.1, wf⟩
  have hp := history_paired tab fg bg hd ops hk ht
  obtain ⟨fb, r1, ok1, sh1, _⟩ := Firefly.VtPix.paired_log c f fok hsp hp fb0 K0 ok wf sh0
  refine ⟨fb, r1, ok1, sh1, ?_⟩
  intro ha r col hr hc
  have e := (active_sync tab fg bg hd ops hk ht ha).2
  have := sh1.2.2 r col (by rw [sh1.2.1]; exact hr) (by rw [sh1.1]; exact hc)
  rw [Console.at, e] at this
  exact this

/-- non-vacuity of `shipped_consoles_pix` on a geometry with left-over pixel rows AND columns:
a 19×37 8-bpp framebuffer with an 8×16 font (2 columns, 2 lines, 3 left-over columns, 5 left-over
rows) is in C19's domain -/
example : Firefly.C19.PixOk { bpp := 8, bytesPerPixel := 1, width := 19, height := 37, pitch := 20, font := some { gw := 8, gh := 16, bpr := 1, data := #[] }, cols := 2, rows := 2, palette := Array.replicate 256 (0, 0, 0) }
    { gw := 8, gh := 16, bpr := 1, data := #[] } (Array.replicate (37 * 20) 0) := by
  constructor
  case size => simp
  case pal => simp
  case bytes => decide
  all_goals first | simp | decide

/-- non-vacuity of `shipped_consoles_text`: a blank 3×2 text screen (scrollback 2, the shipped
default colours 7 on 0) satisfies every hypothesis, so the theorem applies to each of its histories -/
example : ∃ (c : VgaText.Cons) (fb0 : Array UInt16) (K0 : Console), Firefly.C19.TextOk c fb0 ∧ c.clearChar = 32 ∧
    ((7 : UInt8).toNat < c.paletteLen ∧ (0 : UInt8).toNat < c.paletteLen) ∧ Dom c.width c.height 2 ∧ WF K0 ∧
    TextShows c (Firefly.C19.view16 fb0) K0 := by
  refine ⟨{ width := 3, height := 2 }, Array.replicate 6 (VgaText.cellWord 32 7 0), Console.new 3 2 ⟨32, 7, 0⟩,
    ⟨by decide, by decide, by decide, by simp, by decide⟩, rfl, by decide, by decide, new_wf 3 2 _, rfl, rfl, ?_⟩
  intro r col hr hc
  have hr' : r < 2 := hr
  have hc' : col < 3 := hc
  have hi : r * 3 + col < 6 := by omega
  simp only [Firefly.C19.view16, Array.getD_eq_getD_getElem?, Array.getElem?_replicate, if_pos hi]
  rcases (by omega : r = 0 ∨ r = 1) with h | h <;> subst h <;>
    rcases (by omega : col = 0 ∨ col = 1 ∨ col = 2) with h | h | h <;> subst h <;> rfl

end Shipped

/-! ## Non-vacuity and the generated facts the composition with the shipped consoles rests on -/

example : Screen (Console.new 80 25 ⟨0, 0, 0⟩) 80 25 := ⟨rfl, rfl, new_wf 80 25 _⟩

/-- filling with the background colour equals writing spaces only if glyph 0x20 is blank: a
generated fact for every shipped font (regenerated from /repo by the harness) -/
example : Firefly.Gen.C18.shippedFonts.all (fun f => f.2.2.2.2.2) = true := by decide

/-- the shipped consoles' default colours (what the terminal draws with) are in range of the
16-colour text palette -/
example : Firefly.Gen.C18.textDefaultFg ≤ 15 ∧ Firefly.Gen.C18.textDefaultBg < 15 := by decide

/-- the hypotheses of `activate_redraws` and `active_sync` are satisfiable: a freshly attached
80×25 terminal is Inactive, satisfies the invariant, and activating it succeeds and leaves it Active -/
example : ∃ t t', Inv t ∧ t.active = false ∧ step t (.state true) = .ok t' ∧ t'.active = true := by
  obtain ⟨t, _, i, _, act, _⟩ := attach_spec (w := 80) (h := 25) (sb := 80) 4 7 0 (by decide) (by decide) (by decide)
  obtain ⟨t', a, _, _, act', _⟩ := setState_spec i true
  exact ⟨t, t', i, act, a, act'⟩

end Firefly.C18
