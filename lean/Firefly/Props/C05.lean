import Firefly.Proof.VmmSetupFull
import Firefly.Proof.VmmBoot
import Firefly.Gen.C05
/-!
# C05 — Kernel address space maps each loaded section exactly, with W^X permissions

"The address space the kernel builds for itself maps every page of every loaded section that lies
in the kernel's virtual range to the physical page it was loaded at, writable only if the section is
writable, executable only if the section is executable, and never user-accessible; sections outside
that range are left unmapped. Virtual regions that were reserved and mapped earlier in boot keep
their translations, and the new address space is the active one when initialisation returns."

Model: `Firefly.Vmm.setupPDTForKernel` and its parts (`visitSectionsG`, `copyReservations`,
`pdtInit`, `pdtMap`, `pdtActivate`).  The statements below are about the *mapping requests*
`setupPDTForKernel` issues to `kernelPDT.Map` (which pages, which frames, which flags, in which
order, and nothing else); what one request does to the address space is C04.
-/
namespace Firefly.C05
open Firefly.Vmm

/-- the model's constants (generated for C04) are the ones the code has now -/
theorem facts_current :
    Firefly.Gen.C05.flagPresent = Firefly.Gen.C04.flagPresent ∧ Firefly.Gen.C05.flagRW = Firefly.Gen.C04.flagRW ∧
    Firefly.Gen.C05.flagNoExecute = Firefly.Gen.C04.flagNoExecute ∧
    Firefly.Gen.C05.flagUserAccessible = Firefly.Gen.C04.flagUserAccessible ∧
    Firefly.Gen.C05.elfSectionWritable = Firefly.Gen.C04.elfSectionWritable ∧
    Firefly.Gen.C05.elfSectionExecutable = Firefly.Gen.C04.elfSectionExecutable ∧
    Firefly.Gen.C05.ptePhysPageMask = Firefly.Gen.C04.ptePhysPageMask ∧
    Firefly.Gen.C05.tempMappingAddr = Firefly.Gen.C04.tempMappingAddr ∧
    Firefly.Gen.C05.pdtVirtualAddr = Firefly.Gen.C04.pdtVirtualAddr ∧
    Firefly.Gen.C05.pageLevelShifts = Firefly.Gen.C04.pageLevelShifts ∧
    Firefly.Gen.C05.pageLevelBits = Firefly.Gen.C04.pageLevelBits ∧
    Firefly.Gen.C05.pageShift = Firefly.Gen.C04.pageShift := by decide

/-- **W^X, never user.** For every ELF flag word: the page flags derived for a section have Present,
have RW exactly when the section is writable, have NX exactly when it is not executable, and
contain nothing else (in particular never User). -/
theorem section_flags_wx (sf : W) :
    let fl := sectionFlags sf
    (fl &&& fPresent = fPresent) ∧
    ((fl &&& fRW ≠ 0) ↔ (sf &&& w Firefly.Gen.C04.elfSectionWritable ≠ 0)) ∧
    ((fl &&& fNX ≠ 0) ↔ (sf &&& w Firefly.Gen.C04.elfSectionExecutable = 0)) ∧
    (fl &&& fUser = 0) ∧ (fl &&& ~~~(fPresent ||| fRW ||| fNX) = 0) := by
  have hx : w Firefly.Gen.C04.elfSectionExecutable = 4#64 := by decide
  have hw : w Firefly.Gen.C04.elfSectionWritable = 1#64 := by decide
  simp only [hx, hw]
  rw [sectionFlags_cases]
  by_cases h4 : (sf &&& 4#64) = 0#64 <;> by_cases h1 : (sf &&& 1#64) = 0#64 <;> simp [h4, h1] <;> decide

/-- Request level: for every section list, offset, state and mapping function, the visitor of
`setupPDTForKernel` issues *exactly* the requests `allSectionCalls off secs` in order (stopping at
the first error) — per section with `addr ≥ off`, `sectionPageCount` consecutive pages from
`pageOf addr` paired with consecutive frames from `(addr-off) >> 12`, all with `sectionFlags`;
sections below `off` contribute no request. -/
theorem section_requests_exact (mp : MapFn) (off : W) (secs : List Section) (err : Nat) (st : St) :
    visitSectionsG mp off secs err st = seqCalls mp (allSectionCalls off secs) err st ∧
    (∀ s, sectionCalls off s =
      (run (pageOf s.addr) ((s.addr - off) >>> Firefly.Gen.C04.pageShift) (sectionPageCount s)).map
        fun (p, f) => (p, f, sectionFlags s.flags)) ∧
    (∀ page frame n i, i < n →
      (run page frame n)[i]? = some (page + BitVec.ofNat 64 i, frame + BitVec.ofNat 64 i)) :=
  ⟨visitSectionsG_eq mp off secs err st, fun _ => rfl, fun page frame n i hi => run_get page frame n i hi⟩

/-- sections outside the kernel's virtual range are left alone: they contribute no mapping request -/
theorem below_offset_no_request (off : W) (secs : List Section) :
    allSectionCalls off secs = allSectionCalls off (secs.filter fun s => !(s.addr < off)) ∧
    (∀ s, s.addr < off → allSectionCalls off [s] = []) := by
  constructor
  · simp [allSectionCalls, List.filter_filter]
  · intro s h; simp [allSectionCalls, h]

/-- every page the section touches is requested, and no other: the page count is
`⌊(addr+size-1)/4096⌋ - ⌊addr/4096⌋ + 1` (the last page is not missed, unaligned starts included) -/
theorem section_page_count (s : Section) (h1 : 1 ≤ s.size.toNat) (hw : s.addr.toNat + s.size.toNat ≤ 2 ^ 64) :
    sectionPageCount s = (s.addr.toNat + s.size.toNat - 1) / 4096 - s.addr.toNat / 4096 + 1 :=
  sectionPageCount_eq s h1 hw

/-- **Activated.** When `setupPDTForKernel` succeeds, CR3 holds the address of the table whose root
is the first frame the allocator handed out (the new kernel table). -/
theorem activated (st : St) (off : W) (secs : List Section) (st' : St)
    (h : setupPDTForKernel st off secs = .ok (0, st')) :
    ∃ f rest, st.free = f :: rest ∧ st'.cr3 = frameAddr f :=
  setup_activated st off secs st' h

/-- **setup_refines — `setupPDTForKernel` at the level of address spaces.**  Boot address space well
formed (`Good`, CR3 = `A<<12`), guard not armed yet, temporary mapping not refused, section pages and
reserved pages outside the recursive slot, reserved pages not the temporary page.  The call never
faults.  On success: CR3 = `P<<12` with `P` the first frame the allocator handed out (= `kernelPDT`);
`P`'s tables are a well-formed tree; every reserved page was mapped at boot; and the new address
space is *exactly* the empty address space with the requests `setupCalls` (sections, then
reservations) applied in order.  On failure CR3 is unchanged and the error is the allocator's, the
guard's or `ErrInvalidMapping` (an unmapped reservation). -/
theorem setup_refines {st : St} {A : W} {ownA : Own} (g : Good st (A <<< 12) ownA) (hcr3 : st.cr3 = A <<< 12)
    (hfa : FrameOK A) (htf : st.tmpFail = false) (hprot : st.protect = false) (off : W) (secs : List Section)
    (husec : ∀ c ∈ allSectionCalls off secs, UserVA (pageAddr c.1))
    (hures : ∀ x ∈ resAddrs st.cursor (resCount st.cursor), UserVA x ∧ ¬SamePage x tempVA) :
    ∃ code st', setupPDTForKernel st off secs = .ok (code, st') ∧
      (code = 0 → ∃ P rest ownP', st.free = P :: rest ∧ st'.cr3 = P <<< 12 ∧ st'.kpdt = P ∧ FrameOK P ∧
        Owned st'.mem (P <<< 12) ownP' ∧
        (∀ x ∈ resAddrs st.cursor (resCount st.cursor), hwEntry st.mem (A <<< 12) x ≠ none) ∧
        ∀ va, UserVA va → hwEntry st'.mem (P <<< 12) va =
          applyCalls (fun _ => none) (setupCalls st.mem A off st.cursor secs) va) ∧
      (code ≠ 0 → st'.cr3 = st.cr3 ∧ (code = eAlloc ∨ code = eInvalidMapping ∨ code = eRWZero)) :=
  setup_full g hcr3 hfa htf hprot off secs husec hures

/-- **sections_exact.**  Reading `setup_refines`: when no two requested pages coincide (sections do not
share a page with one another or with a reservation), page `i` of every section with `addr ≥ off`
is mapped — at every address of that page — by the entry `frame<<12 | sectionFlags`, with
`frame = ((addr-off) >> 12) + i` (the physical page it was loaded at) and flags Present, RW iff
writable, NX iff not executable, never User (`section_flags_wx`). -/
theorem sections_exact (as : AS) (m : Mem) (A off cursor : W) (secs : List Section)
    (hdist : (setupCalls m A off cursor secs).Pairwise (fun a b => ¬SamePage (pageAddr a.1) (pageAddr b.1)))
    (hres : as = applyCalls (fun _ => none) (setupCalls m A off cursor secs))
    (s : Section) (hs : s ∈ secs) (hoff : ¬ s.addr < off) (i : Nat) (hi : i < sectionPageCount s) (va : W)
    (hva : SamePage va (pageAddr (pageOf s.addr + BitVec.ofNat 64 i))) :
    as va = some (mkEntry (((s.addr - off) >>> Firefly.Gen.C04.pageShift) + BitVec.ofNat 64 i) (sectionFlags s.flags)) := by
  have hm := sectionCall_mem off secs s hs hoff i hi
  rw [hres, applyCalls_mem _ _ va hdist (List.mem_append_left _ hm) hva, if_neg]
  rw [mkEntry_low 1#64 (by decide)]; exact sectionFlags_present _

/-- **nothing_else.**  An address that lies on no requested page (no page of a section with
`addr ≥ off`, no reserved page) is not mapped in the new address space; in particular sections below
the kernel offset stay unmapped. -/
theorem nothing_else (as : AS) (m : Mem) (A off cursor : W) (secs : List Section)
    (hres : as = applyCalls (fun _ => none) (setupCalls m A off cursor secs)) (va : W)
    (hno : ∀ c ∈ setupCalls m A off cursor secs, ¬SamePage va (pageAddr c.1)) : as va = none := by
  rw [hres, applyCalls_not_mem _ _ va hno]

/-- **reservations_kept.**  Every reserved page that was mapped at boot by entry `e` is mapped in the
new address space to the same frame (`entry & frameMask = e & frameMask`), Present|RW. -/
theorem reservations_kept (as : AS) (m : Mem) (A off cursor : W) (secs : List Section)
    (hdist : (setupCalls m A off cursor secs).Pairwise (fun a b => ¬SamePage (pageAddr a.1) (pageAddr b.1)))
    (hres : as = applyCalls (fun _ => none) (setupCalls m A off cursor secs))
    (x : W) (hx : x ∈ resAddrs cursor (resCount cursor)) (e : W) (he : hwEntry m (A <<< 12) x = some e)
    (va : W) (hva : SamePage va (pageAddr (pageOf x))) :
    ∃ e', as va = some e' ∧ e' &&& hwMask = e &&& hwMask ∧ e' &&& 0xfff#64 = fPresent ||| fRW := by
  have hm : resCall m A x ∈ setupCalls m A off cursor secs :=
    List.mem_append_right _ (List.mem_map_of_mem hx)
  have hoffs : (x &&& 0xfff#64).toNat < 4096 := by rw [and_fff]; omega
  obtain ⟨hfo, hfr⟩ := frame_roundtrip e (x &&& 0xfff#64) hoffs
  have hfl : FlagsOK (fPresent ||| fRW) := by unfold FlagsOK; decide
  refine ⟨mkEntry (((e &&& hwMask) + (x &&& 0xfff#64)) >>> Firefly.Gen.C04.pageShift) (fPresent ||| fRW), ?_, ?_, ?_⟩
  · have hcall : resCall m A x = (pageOf x, ((e &&& hwMask) + (x &&& 0xfff#64)) >>> Firefly.Gen.C04.pageShift, fPresent ||| fRW) := by
      simp only [resCall, he]
    rw [hcall] at hm
    rw [hres, applyCalls_mem _ _ va hdist hm hva, if_neg]
    rw [mkEntry_low 1#64 (by decide)]; decide
  · rw [mkEntry_frame hfo hfl, hfr]
  · rw [mkEntry_low 0xfff#64 (by decide)]; decide

/-! non-vacuity: the boot state satisfies the hypotheses of `setup_refines` -/
example : Good bootSt ((1#64) <<< 12) bootOwn ∧ bootSt.cr3 = (1#64) <<< 12 ∧ FrameOK 1#64 ∧ bootSt.protect = false :=
  ⟨boot_good, by decide, by unfold FrameOK; decide, rfl⟩
example : sectionPageCount { flags := 5, addr := 0xffff800000100ff0#64, size := 0x20#64 } = 2 := by decide
example : sectionFlags 5#64 = 3#64 ∧ sectionFlags 0#64 = 0x8000000000000001#64 := by decide

end Firefly.C05
