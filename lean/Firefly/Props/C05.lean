import Firefly.Proof.VmmSetup
import Firefly.Gen.C05
/-!
# C05 — Kernel address space maps each loaded section exactly, with W^X permissions

"The address space the kernel builds for itself maps every page of every loaded section that lies
in the kernel's virtual range to the physical page it was loaded at, writable only if the section is
writable, executable only if the section is executable, and never user-accessible; sections outside
that range are left unmapped. Virtual regions that were reserved and mapped earlier in boot keep
their translations, and the new address space is the active one when initialisation returns."

Model: `Firefly.Vmm.setupPDTForKernel` and its parts (`visitSectionsG`, `copyReservations`,
`pdtInit`, `pdtMap`, `pdtActivate`).  The statements below are about the *mapping requests*
`setupPDTForKernel` issues to `kernelPDT.Map` (which pages, which frames, which flags, in which
order, and nothing else); what one request does to the address space is C04.
-/
namespace Firefly.C05
open Firefly.Vmm

/-- the model's constants (generated for C04) are the ones the code has now -/
theorem facts_current :
    Firefly.Gen.C05.flagPresent = Firefly.Gen.C04.flagPresent ∧ Firefly.Gen.C05.flagRW = Firefly.Gen.C04.flagRW ∧
    Firefly.Gen.C05.flagNoExecute = Firefly.Gen.C04.flagNoExecute ∧
    Firefly.Gen.C05.flagUserAccessible = Firefly.Gen.C04.flagUserAccessible ∧
    Firefly.Gen.C05.elfSectionWritable = Firefly.Gen.C04.elfSectionWritable ∧
    Firefly.Gen.C05.elfSectionExecutable = Firefly.Gen.C04.elfSectionExecutable ∧
    Firefly.Gen.C05.ptePhysPageMask = Firefly.Gen.C04.ptePhysPageMask ∧
    Firefly.Gen.C05.tempMappingAddr = Firefly.Gen.C04.tempMappingAddr ∧
    Firefly.Gen.C05.pdtVirtualAddr = Firefly.Gen.C04.pdtVirtualAddr ∧
    Firefly.Gen.C05.pageLevelShifts = Firefly.Gen.C04.pageLevelShifts ∧
    Firefly.Gen.C05.pageLevelBits = Firefly.Gen.C04.pageLevelBits ∧
    Firefly.Gen.C05.pageShift = Firefly.Gen.C04.pageShift := by decide

/-- **W^X, never user.** For every ELF flag word: the page flags derived for a section have Present,
have RW exactly when the section is writable, have NX exactly when it is not executable, and
contain nothing else (in particular never User). -/
theorem section_flags_wx (sf : W) :
    let fl := sectionFlags sf
    (fl &&& fPresent = fPresent) ∧
    ((fl &&& fRW ≠ 0) ↔ (sf &&& w Firefly.Gen.C04.elfSectionWritable ≠ 0)) ∧
    ((fl &&& fNX ≠ 0) ↔ (sf &&& w Firefly.Gen.C04.elfSectionExecutable = 0)) ∧
    (fl &&& fUser = 0) ∧ (fl &&& ~~~(fPresent ||| fRW ||| fNX) = 0) := by
  have hx : w Firefly.Gen.C04.elfSectionExecutable = 4#64 := by decide
  have hw : w Firefly.Gen.C04.elfSectionWritable = 1#64 := by decide
  simp only [hx, hw]
  rw [sectionFlags_cases]
  by_cases h4 : (sf &&& 4#64) = 0#64 <;> by_cases h1 : (sf &&& 1#64) = 0#64 <;> simp [h4, h1] <;> decide

/-- Full statement of `sections_exact` / `nothing_else`: after success, the new address space maps
every page of every section with `addr ≥ off` to frame `(addr-off)/4096 + (p - addr/4096)` with
`sectionFlags`, and maps no page that belongs to no such section or reservation.

**Proved here (`_partial`)**, for every section list, offset, state and mapping function: the
visitor of `setupPDTForKernel` issues *exactly* the requests `allSectionCalls off secs` in order
(stopping at the first error) — per section with `addr ≥ off`, `sectionPageCount` consecutive pages
from `pageOf addr` paired with consecutive frames from `(addr-off) >> 12`, all with
`sectionFlags`; sections below `off` contribute no request.  That each request has the effect C04
states on the (inactive) new table, and hence the `AS`-level statement, is carried by C04's
theorems for existing levels and by the correspondence run + the oracle clauses `sections-exact`,
`w-xor-x`, `nothing-else` for new levels. -/
theorem sections_exact_partial (mp : MapFn) (off : W) (secs : List Section) (err : Nat) (st : St) :
    visitSectionsG mp off secs err st = seqCalls mp (allSectionCalls off secs) err st ∧
    (∀ s, sectionCalls off s =
      (run (pageOf s.addr) ((s.addr - off) >>> Firefly.Gen.C04.pageShift) (sectionPageCount s)).map
        fun (p, f) => (p, f, sectionFlags s.flags)) ∧
    (∀ page frame n i, i < n →
      (run page frame n)[i]? = some (page + BitVec.ofNat 64 i, frame + BitVec.ofNat 64 i)) :=
  ⟨visitSectionsG_eq mp off secs err st, fun _ => rfl, fun page frame n i hi => run_get page frame n i hi⟩

/-- sections outside the kernel's virtual range are left alone: they contribute no mapping request -/
theorem nothing_else_partial (off : W) (secs : List Section) :
    allSectionCalls off secs = allSectionCalls off (secs.filter fun s => !(s.addr < off)) ∧
    (∀ s, s.addr < off → allSectionCalls off [s] = []) := by
  constructor
  · simp [allSectionCalls, List.filter_filter]
  · intro s h; simp [allSectionCalls, h]

/-- every page the section touches is requested, and no other: the page count is
`⌊(addr+size-1)/4096⌋ - ⌊addr/4096⌋ + 1` (the last page is not missed, unaligned starts included) -/
theorem section_page_count (s : Section) (h1 : 1 ≤ s.size.toNat) (hw : s.addr.toNat + s.size.toNat ≤ 2 ^ 64) :
    sectionPageCount s = (s.addr.toNat + s.size.toNat - 1) / 4096 - s.addr.toNat / 4096 + 1 :=
  sectionPageCount_eq s h1 hw

/-- **Activated.** When `setupPDTForKernel` succeeds, CR3 holds the address of the table whose root
is the first frame the allocator handed out (the new kernel table). -/
theorem activated (st : St) (off : W) (secs : List Section) (st' : St)
    (h : setupPDTForKernel st off secs = .ok (0, st')) :
    ∃ f rest, st.free = f :: rest ∧ st'.cr3 = frameAddr f :=
  setup_activated st off secs st' h

/-! non-vacuity -/
example : sectionPageCount { flags := 5, addr := 0xffff800000100ff0#64, size := 0x20#64 } = 2 := by decide
example : sectionFlags 5#64 = 3#64 ∧ sectionFlags 0#64 = 0x8000000000000001#64 := by decide

end Firefly.C05
