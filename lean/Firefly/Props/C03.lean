import Firefly.Proof.PmmHistory
/-!
# C03 — Frame accounting: all usable RAM allocatable, bad frees rejected, no crash

Statement (properties.jsonl): for every memory map, initialising the physical memory manager
either succeeds or reports out-of-memory, never crashes; after success exactly the usable frames
(available RAM minus kernel image minus early-boot allocations) can be allocated before
out-of-memory is reported, and the reported free/reserved totals agree with that at every step.
Freeing a frame that is unmanaged or already free is rejected with an error and changes nothing,
while freeing an allocated frame makes exactly that frame allocatable again.
-/
namespace Firefly.C03
open Firefly.Pmm

/-- **stats** — in every state satisfying the invariant the reported totals equal the number of
free frames: `total - reserved = |free set|`. -/
theorem stats (bm : Bitmap) (hI : Inv bm) :
    bm.total - bm.reserved = (freeList bm).length ∧ bm.reserved ≤ bm.total ∧
    ∀ f, f ∈ freeList bm ↔ isFree bm f :=
  ⟨(Firefly.Pmm.stats hI).1, (Firefly.Pmm.stats hI).2, mem_freeList hI⟩

/-- **drain_count** — exactly `total - reserved` consecutive allocations succeed and the next one
reports out-of-memory. -/
theorem drain_count (bm : Bitmap) (hI : Inv bm) :
    (∀ r ∈ (allocN bm (bm.total - bm.reserved)).2, r ≠ none) ∧
    (alloc (allocN bm (bm.total - bm.reserved)).1).2 = none :=
  ⟨(Firefly.Pmm.drain_count hI _ rfl).1, (Firefly.Pmm.drain_count hI _ rfl).2.1⟩

/-- **bad_free_rejected** — freeing an unmanaged frame or a frame that is free is rejected and
changes nothing. -/
theorem bad_free_rejected (bm : Bitmap) (hI : Inv bm) (f : Nat) :
    (poolForFrame bm.pools f = none → free bm f = (bm, .notManaged)) ∧
    (isFree bm f → free bm f = (bm, .doubleFree)) := by
  constructor
  · intro h; simp [free, h]
  · intro hf
    cases h : free bm f with
    | mk bm' r =>
      cases r with
      | ok => exact absurd hf (free_ok hI h).1
      | notManaged => exact absurd hf (free_notManaged h).2
      | doubleFree => rw [(free_doubleFree h).1]
      | panic => exact absurd (by rw [h]) (free_never_panics hI f)

/-- **good_free_accepted** — freeing a managed frame that is not free succeeds, makes exactly that
frame allocatable again, and moves one frame from reserved to free in the totals. -/
theorem good_free_accepted (bm : Bitmap) (hI : Inv bm) (f : Nat) (i : Nat)
    (hm : poolForFrame bm.pools f = some i) (hf : ¬ isFree bm f) :
    ∃ bm', free bm f = (bm', .ok) ∧ Inv bm' ∧ bm'.total = bm.total ∧ bm'.reserved + 1 = bm.reserved ∧
      ∀ g, isFree bm' g ↔ (isFree bm g ∨ g = f) := by
  cases h : free bm f with
  | mk bm' r =>
    cases r with
    | ok =>
      obtain ⟨_, h2, _, h4, h5, h6⟩ := free_ok hI h
      exact ⟨bm', rfl, h2, h4, h5, h6⟩
    | notManaged =>
      exfalso
      unfold free at h
      simp only [hm] at h
      split at h
      · cases h
      · split at h
        · cases h
        · split at h <;> cases h
    | doubleFree => exact absurd (free_doubleFree h).2 hf
    | panic => exact absurd (by rw [h]) (free_never_panics hI f)

/-- **ops_never_crash** — in a state satisfying the invariant neither operation indexes outside a
bitmap (the model's explicit `panic` result is unreachable). -/
theorem ops_never_crash (bm : Bitmap) (hI : Inv bm) (f : Nat) : (free bm f).2 ≠ .panic :=
  free_never_panics hI f

end Firefly.C03
