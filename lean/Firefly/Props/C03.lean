import Firefly.Proof.PmmInit
/-!
# C03 — Frame accounting: all usable RAM allocatable, bad frees rejected, no crash

Statement (properties.jsonl): for every memory map, initialising the physical memory manager
either succeeds or reports out-of-memory, never crashes; after success exactly the usable frames
(available RAM minus kernel image minus early-boot allocations) can be allocated before
out-of-memory is reported, and the reported free/reserved totals agree with that at every step.
Freeing a frame that is unmanaged or already free is rejected with an error and changes nothing,
while freeing an allocated frame makes exactly that frame allocatable again.
-/
namespace Firefly.C03
open Firefly.Pmm Firefly.Gen.Pmm

/-- the frames of `m` the property calls usable, in the property's own words: wholly inside a region
reported available, not part of the kernel image `[ksA, keA)`, not among the early allocations `fs` -/
def Usable (m : List Region) (ksA keA : Nat) (fs : List Nat) (g : Nat) : Prop :=
  (∃ r ∈ m, r.typ = memAvailable ∧ r.addr ≤ g * 4096 ∧ (g + 1) * 4096 ≤ r.addr + r.len) ∧
  ¬ (ksA / 4096 ≤ g ∧ g * 4096 < keA) ∧ g ∉ fs

/-- **init_total_and_exact** — for every sorted memory map with fewer than 2^32 frames and every
kernel placement (page-aligned start, image inside one available region), after any number `k` of
successful early allocations, initialising the bitmap allocator (vmm seams succeeding) ends in `ok`
or out-of-memory and never crashes; on `ok` the early allocator has made exactly `k` + metadata-page
allocations `fs`, the representation invariant holds, and the free set is exactly the usable
frames. Together with `stats`/`drain_count` this gives: exactly the usable frames can be allocated
before out-of-memory is reported. -/
theorem init_total_and_exact (m : List Region) (ksA keA : Nat) (hs : SortedMap m)
    (hp : KernelPlaced m ksA keA) (hsm : nSum (poolsOf m) < 4294967296) (k : Nat) (b : Boot)
    (fs0 : List Nat) (hrun : bootRun m k (bootInit ksA keA) = some (b, fs0)) :
    ((bitmapInit m b true none).outcome = .ok ∨ (bitmapInit m b true none).outcome = .oom) ∧
    ((bitmapInit m b true none).outcome = .ok →
      ∃ fs, bootRun m (k + requiredBytes (poolsOf m) / pageSize) (bootInit ksA keA)
              = some ((bitmapInit m b true none).boot, fs) ∧
        Inv (bitmapInit m b true none).bm ∧
        ∀ g, isFree (bitmapInit m b true none).bm g ↔ Usable m ksA keA fs g) := by
  obtain ⟨h1, h2⟩ := init_spec m ksA keA hs hp hsm k b fs0 hrun
  refine ⟨h1, fun hok => ?_⟩
  obtain ⟨fs, hf1, hf2, hf3⟩ := h2 hok
  refine ⟨fs, hf1, hf2, fun g => ?_⟩
  rw [hf3 g, managed_iff_available]
  unfold Usable bootInit
  simp only
  have e : pageSize = 4096 := by decide
  rw [e]
  have := hp.nonempty
  constructor
  · rintro ⟨a, b', c⟩; exact ⟨a, by omega, c⟩
  · rintro ⟨a, b', c⟩; exact ⟨a, by omega, c⟩

/-- **stats** — in every state satisfying the invariant the reported totals equal the number of
free frames: `total - reserved = |free set|`. -/
theorem stats (bm : Bitmap) (hI : Inv bm) :
    bm.total - bm.reserved = (freeList bm).length ∧ bm.reserved ≤ bm.total ∧
    ∀ f, f ∈ freeList bm ↔ isFree bm f :=
  ⟨(Firefly.Pmm.stats hI).1, (Firefly.Pmm.stats hI).2, mem_freeList hI⟩

/-- **drain_count** — exactly `total - reserved` consecutive allocations succeed and the next one
reports out-of-memory. -/
theorem drain_count (bm : Bitmap) (hI : Inv bm) :
    (∀ r ∈ (allocN bm (bm.total - bm.reserved)).2, r ≠ none) ∧
    (alloc (allocN bm (bm.total - bm.reserved)).1).2 = none :=
  ⟨(Firefly.Pmm.drain_count hI _ rfl).1, (Firefly.Pmm.drain_count hI _ rfl).2.1⟩

/-- **bad_free_rejected** — freeing an unmanaged frame or a frame that is free is rejected and
changes nothing. -/
theorem bad_free_rejected (bm : Bitmap) (hI : Inv bm) (f : Nat) :
    (poolForFrame bm.pools f = none → free bm f = (bm, .notManaged)) ∧
    (isFree bm f → free bm f = (bm, .doubleFree)) := by
  constructor
  · intro h; simp [free, h]
  · intro hf
    cases h : free bm f with
    | mk bm' r =>
      cases r with
      | ok => exact absurd hf (free_ok hI h).1
      | notManaged => exact absurd hf (free_notManaged h).2
      | doubleFree => rw [(free_doubleFree h).1]
      | panic => exact absurd (by rw [h]) (free_never_panics hI f)

/-- **good_free_accepted** — freeing a managed frame that is not free succeeds, makes exactly that
frame allocatable again, and moves one frame from reserved to free in the totals. -/
theorem good_free_accepted (bm : Bitmap) (hI : Inv bm) (f : Nat) (i : Nat)
    (hm : poolForFrame bm.pools f = some i) (hf : ¬ isFree bm f) :
    ∃ bm', free bm f = (bm', .ok) ∧ Inv bm' ∧ bm'.total = bm.total ∧ bm'.reserved + 1 = bm.reserved ∧
      ∀ g, isFree bm' g ↔ (isFree bm g ∨ g = f) := by
  cases h : free bm f with
  | mk bm' r =>
    cases r with
    | ok =>
      obtain ⟨_, h2, _, h4, h5, h6⟩ := free_ok hI h
      exact ⟨bm', rfl, h2, h4, h5, h6⟩
    | notManaged =>
      exfalso
      unfold free at h
      simp only [hm] at h
      split at h
      · cases h
      · split at h
        · cases h
        · split at h <;> cases h
    | doubleFree => exact absurd (free_doubleFree h).2 hf
    | panic => exact absurd (by rw [h]) (free_never_panics hI f)

/-- **ops_never_crash** — in a state satisfying the invariant neither operation indexes outside a
bitmap (the model's explicit `panic` result is unreachable). -/
theorem ops_never_crash (bm : Bitmap) (hI : Inv bm) (f : Nat) : (free bm f).2 ≠ .panic :=
  free_never_panics hI f

/-- **init_error_paths** — when one of the two vmm seams fails, initialisation returns that error
(or out-of-memory if the early allocator runs dry first); it never reports success in that case. -/
theorem init_error_paths (m : List Region) (b : Boot) (mf : Option Nat) :
    (bitmapInit m b false mf).outcome = .reserveErr ∧
    ((metaPages m mf (requiredBytes (poolsOf m) / pageSize) 0 b).2 ≠ .ok →
      (bitmapInit m b true mf).outcome = .oom ∨ (bitmapInit m b true mf).outcome = .mapErr) :=
  Firefly.Pmm.init_error_paths m b mf

/-! ## Non-vacuity -/

def exMap : List Region :=
  [{ addr := 0x800, len := 0x3900, typ := 1 }, { addr := 0x5000, len := 0x1000, typ := 2 },
   { addr := 0x10000, len := 65 * 4096, typ := 1 }]

example : SortedMap exMap := by unfold SortedMap exMap; decide
example : KernelPlaced exMap 0x10000 0x12345 :=
  ⟨by decide, by decide, ⟨{ addr := 0x10000, len := 65 * 4096, typ := 1 }, by simp [exMap], by decide, by decide, by decide⟩⟩
example : nSum (poolsOf exMap) = 68 := by decide
example : (bitmapInit exMap (bootInit 0x10000 0x12345) true none).outcome = .ok := by decide
example : (bitmapInit exMap (bootInit 0x10000 0x12345) true none).bm.total -
    (bitmapInit exMap (bootInit 0x10000 0x12345) true none).bm.reserved = 64 := by decide

end Firefly.C03
