import Firefly.Gen.C09
namespace Firefly.C09
open Firefly.Locked

theorem skeletons_disciplined :
    disciplined Gen.C09.allocFrameSkel = true ∧ disciplined Gen.C09.freeFrameSkel = true := by decide

end Firefly.C09
