import Firefly.Gen.C09
import Firefly.Proof.Locked
import Firefly.Proof.C09Pmm
import Firefly.Proof.PmmInit
/-!
# C09 — Concurrent frame allocation and freeing never duplicates or loses a frame

Statement (properties.jsonl): when many callers allocate and free physical frames at the same time,
no frame is ever held by two callers at once, every frame freed becomes allocatable again, no call
blocks forever, and once all callers have stopped the allocator's free/reserved totals equal the
initial totals adjusted by the frames still held.  For every schedule of concurrent allocate/free
calls.

Structure of the argument.
1. `skeletons_disciplined`: the lock-discipline skeletons of `BitmapAllocator.AllocFrame` and
   `FreeFrame`, **regenerated from the Go source on every run** (`Gen/C09.lean`), pass the checker
   `disciplined`; `disciplined_sound` says what that means: on every control-flow path, for any
   number of loop iterations, the method is `Acquire; touches of allocator state; Release` and
   returns with the lock released.  (`peek` = a read of state written only by functions that run during
   initialisation and are unreachable from the two methods: `init_only_state`.)
2. `linearizable`: for any object whose operations have that shape — any shared state, any number
   of threads, every schedule — the concurrent machine of `Model/Locked.lean` is explained by the
   sequential run of the operations in the order of their acquires.
3. Instantiated with the bitmap allocator of C01/C03 (`σ = Pmm.Bitmap`, operations `alloc` /
   `free f` split into micro-steps) and clients that free only frames they hold:
   `no_duplicate`, `freed_is_reusable`, `totals_after_quiescence`; `no_deadlock` holds for every
   object.

Outside the model (trusted): mutual exclusion of the real spinlock (C08), sequentially consistent
interleaving of the micro-steps (hardware memory ordering, true parallelism: Go memory model,
DRF-SC), and that the code between `Acquire` and `Release` computes `Pmm.alloc` / `Pmm.free`
(differential testing, C01/C03 and the sequential part of the C09 harness).  "No call blocks
forever" is deadlock freedom plus finiteness of every critical section, not starvation freedom.
-/
namespace Firefly.C09
open Firefly.Locked Firefly.Locked.Pmm Firefly.Pmm

/-- **disciplined_sound** — if the checker accepts a skeleton then every trace of it, whatever the
conditions evaluate to and however often the loops iterate, (1) ends by `return` or by reaching the
end of the body, never by a stray `break`/`continue`; (2) obeys the discipline
`pre —acquire→ held —touch*→ held —release→ done` and ends in `done` (lock released); (3) apart
from reads of init-only state it is exactly `acquire, touch, …, touch, release`. -/
theorem disciplined_sound (s : Skel) (h : disciplined s = true) {tr : List Ev} {x : Exit} (hr : Runs s tr x) :
    (x = .fall ∨ x = .ret) ∧ wb .pre tr = some .done ∧
    ∃ k, lockEvents tr = Ev.acq :: (List.replicate k Ev.tch ++ [Ev.rel]) := by
  unfold disciplined at h
  cases hc : check s .pre with
  | none => simp [hc] at h
  | some o =>
    simp only [hc, Bool.and_eq_true, Bool.or_eq_true, beq_iff_eq] at h
    obtain ⟨⟨hf, hb⟩, hcn⟩ := h
    obtain ⟨q, hw, hat⟩ := check_sound hr .pre o hc
    have hq : (x = .fall ∨ x = .ret) ∧ q = .done := by
      cases x with
      | fall =>
        simp only [Outs.at] at hat
        rcases hf with hf | hf
        · rw [hf] at hat; cases hat
        · rw [hf] at hat; injection hat with hat; exact ⟨Or.inl rfl, hat.symm⟩
      | brk => simp only [Outs.at] at hat; rw [hb] at hat; cases hat
      | cont => simp only [Outs.at] at hat; rw [hcn] at hat; cases hat
      | ret => exact ⟨Or.inr rfl, hat⟩
    obtain ⟨hx, rfl⟩ := hq
    exact ⟨hx, hw, wb_pre hw⟩

/-- **skeletons_disciplined** — the skeletons extracted from the current source of
`bitmap_allocator.go` are accepted.  This is the obligation that stops checking when a return path
loses its `Release`, an access to the bitmap or the counters moves outside the critical section, or
the lock is taken twice. -/
theorem skeletons_disciplined :
    disciplined Gen.C09.allocFrameSkel = true ∧ disciplined Gen.C09.freeFrameSkel = true := by decide

/-- **init_only_state** — what the two methods (and their helpers) read outside the protected set
(`peek`: the pools slice header, `startFrame`/`endFrame`, the error variables) is written, or has its
address taken, only by functions of package `pmm` that are reachable from the initialisation entry
`Init` (which runs once, before the allocator is shared) and are **not** reachable from
`AllocFrame`/`FreeFrame` or from any function stored in a package variable — in the syntactic,
over-approximated call graph the extractor generates from the source.  So splitting
`setupPoolBitmaps` into helpers is fine; a writer called from the two methods, or from a function
nobody calls during initialisation, is not. -/
theorem init_only_state :
    Gen.C09.initOnlyWriters = [] ∧
    ∀ w ∈ Gen.C09.writers, w.2 ∈ Gen.C09.initReach ∧ w.2 ∉ Gen.C09.runReach := by decide

/-- **linearizable** — for every lock-protected object (any shared state, any operations made of
finitely many atomic micro-steps, any clients, any number of threads) and every schedule: the
reachable state is explained by the sequential run of the operations that have acquired so far, in
acquire order (`Lin`, `Model/Locked.lean`): with the lock free, the shared state and all results are
those of the sequential run; with the lock held, the holder's operation is the last one and is
partially executed on top of the sequential run of the others; every operation was issued by its
client on the history the sequential run gives it. -/
theorem linearizable {σ ρ O : Type} (S : Sys σ ρ O) (s0 : σ) {s : State σ ρ O} (hr : Reachable S s0 s) :
    Lin S s0 s := reachable_lin hr

/-- **no_deadlock** — in every reachable state some thread can take a step, unless nobody holds
the lock and every client is finished; and whoever holds the lock releases it after finitely many
of its own steps (critical sections are finite lists of micro-steps; the loops of
`AllocFrame`/`FreeFrame` are bounded by the pool and bitmap sizes, total functions in the model). -/
theorem no_deadlock {σ ρ O : Type} (S : Sys σ ρ O) (s0 : σ) {s : State σ ρ O} (hr : Reachable S s0 s) :
    ((∃ i s', step S s i = some s') ∨ (s.holder = none ∧ ∀ i, S.client i (s.threads i).hist = none)) ∧
    (∀ i, s.holder = some i → ∃ n s', stepN S i n s = some s' ∧ s'.holder = none) := by
  have hl := reachable_lin hr
  refine ⟨progress hl, fun i hh => ?_⟩
  obtain ⟨_, o, _, rem, loc, _, hc, _⟩ := hl.busy i hh
  obtain ⟨s', h1, h2⟩ := holder_finishes S i rem s o loc hh hc
  exact ⟨_, s', h1, h2⟩

/-- **no_duplicate** — the concurrent allocator started in a state satisfying the representation
invariant (C03: `Init` establishes it), any number of threads whose clients free only frames they
hold, every schedule: in every reachable state no frame is held by two threads, no thread holds a
frame twice, and every held frame comes from the initially free set. -/
theorem no_duplicate {client : Nat → List (Op × Scratch) → Option Op} (hwb : WellBehaved client)
    {s0 : Bitmap} (hI : Inv s0) {s : State Bitmap Scratch Op} (hr : Reachable (pmmSys client) s0 s) :
    (∀ j k f, f ∈ held s j → f ∈ held s k → j = k) ∧ (∀ j, (held s j).Nodup) ∧
    (∀ j f, f ∈ held s j → isFree s0 f) := by
  obtain ⟨pre, _, hh, _, hinv⟩ := reachable_seqInv hwb hI hr
  unfold held
  simp only [hh]
  refine ⟨hinv.disj, hinv.nodup, fun j f hf => ?_⟩
  exact (hinv.sim.split f).2 (Or.inr ((hinv.mem f).2 ⟨j, hf⟩))

/-- **freed_is_reusable** — whenever nobody is inside the allocator, the representation invariant
holds and the free set is exactly the initially free frames that no thread holds: a frame that was
freed (and not handed out again) is free, and as long as such a frame exists `AllocFrame` succeeds. -/
theorem freed_is_reusable {client : Nat → List (Op × Scratch) → Option Op} (hwb : WellBehaved client)
    {s0 : Bitmap} (hI : Inv s0) {s : State Bitmap Scratch Op} (hr : Reachable (pmmSys client) s0 s)
    (hq : s.holder = none) :
    Inv s.sh ∧ (∀ f, isFree s.sh f ↔ (isFree s0 f ∧ ∀ j, f ∉ held s j)) ∧
    ((∃ f, isFree s0 f ∧ ∀ j, f ∉ held s j) → ∃ bm' g, alloc s.sh = (bm', some g)) := by
  obtain ⟨pre, _, hh, hsh, hinv⟩ := reachable_seqInv hwb hI hr
  have hfree : ∀ f, isFree s.sh f ↔ (isFree s0 f ∧ ∀ j, f ∉ held s j) := by
    intro f
    unfold held
    simp only [hh, hsh hq]
    constructor
    · intro hf
      refine ⟨(hinv.sim.split f).2 (Or.inl hf), fun j hj => ?_⟩
      exact hinv.sim.disj f ((hinv.mem f).2 ⟨j, hj⟩) hf
    · rintro ⟨hu, hn⟩
      rcases (hinv.sim.split f).1 hu with hf | hH
      · exact hf
      · obtain ⟨j, hj⟩ := (hinv.mem f).1 hH
        exact absurd hj (hn j)
  have hI' : Inv s.sh := by rw [hsh hq]; exact hinv.sim.inv
  refine ⟨hI', hfree, ?_⟩
  rintro ⟨f, hf⟩
  cases ha : alloc s.sh with
  | mk bm' r =>
    cases r with
    | some g => exact ⟨bm', g, rfl⟩
    | none => exact absurd ((hfree f).2 hf) ((alloc_none hI' ha).2.1 f)

/-- **totals_after_quiescence** — whenever nobody is inside the allocator there is a duplicate-free
list `H` of exactly the frames held by the threads such that `total` is unchanged,
`reserved = initial reserved + |H|` (so `total − reserved = initial free − held`), and the number of
free frames (`stats`: `total − reserved`) plus `|H|` is the initial number of free frames. -/
theorem totals_after_quiescence {client : Nat → List (Op × Scratch) → Option Op} (hwb : WellBehaved client)
    {s0 : Bitmap} (hI : Inv s0) {s : State Bitmap Scratch Op} (hr : Reachable (pmmSys client) s0 s)
    (hq : s.holder = none) :
    ∃ H : List Nat, H.Nodup ∧ (∀ f, f ∈ H ↔ ∃ j, f ∈ held s j) ∧
      s.sh.total = s0.total ∧ s.sh.reserved = s0.reserved + H.length ∧ s.sh.reserved ≤ s.sh.total ∧
      s.sh.total - s.sh.reserved = (s0.total - s0.reserved) - H.length ∧
      (freeList s.sh).length + H.length = (freeList s0).length := by
  obtain ⟨pre, _, hh, hsh, hinv⟩ := reachable_seqInv hwb hI hr
  refine ⟨globalHeld (seqRun (pmmSys client) s0 pre).2, hinv.sim.nodup, ?_, ?_⟩
  · intro f; unfold held; simp only [hh]; exact hinv.mem f
  · rw [hsh hq]
    have h1 := hinv.total
    have h2 := hinv.reserved
    obtain ⟨h3, h4⟩ := Firefly.Pmm.stats hinv.sim.inv
    obtain ⟨h5, h6⟩ := Firefly.Pmm.stats hI
    refine ⟨h1, h2, h4, by omega, by omega⟩

/-! ## Non-vacuity -/

/-- a method that forgets `Release` on an early return is rejected … -/
example : disciplined (.block [.acquire, .touch, .ite .skip (.block [.ret]) .skip, .touch, .release, .ret]) = false := by
  decide
/-- … so is a read of protected state before `Acquire`, a write after `Release`, and a double acquire -/
example : disciplined (.block [.touch, .acquire, .touch, .release, .ret]) = false := by decide
example : disciplined (.block [.acquire, .touch, .release, .touch, .ret]) = false := by decide
example : disciplined (.block [.acquire, .loop .skip (.block [.acquire, .touch]) .skip, .release, .ret]) = false := by decide

/-- the "frame not managed" path of the generated `FreeFrame` skeleton is a trace -/
example : Runs (.block [.acquire, .touch, .ite .skip (.block [.release, .peek, .ret]) .skip, .touch, .release, .ret])
    [.acq, .tch, .rel, .pk] .ret :=
  Runs.seqFall .acquire (Runs.seqFall .touch (Runs.seqExit
    (Runs.iteThen .skip (Runs.seqFall .release (Runs.seqFall .peek .ret))) (by decide)))

/-- a loop that iterates once and then returns from inside -/
example : Runs (.block [.acquire, .loop .peek (.block [.ite .touch .cont .skip, .release, .ret]) .skip, .release, .ret])
    [.acq, .pk, .tch, .pk, .tch, .rel] .ret :=
  Runs.seqFall .acquire (Runs.seqExit
    (Runs.loopIter (tp := []) .peek (Runs.seqExit (Runs.iteThen .touch .cont) (by decide)) (Or.inr rfl) .skip
      (Runs.loopRet .peek (Runs.seqFall (Runs.iteElse .touch .skip) (Runs.seqFall .release .ret))))
    (by decide))

/-- two pools (3 and 65 frames), nothing reserved -/
def exBitmap : Bitmap := bm0 [{ addr := 0x1000, len := 0x3000, typ := 1 }, { addr := 0x10000, len := 65 * 4096, typ := 1 }]

example : Inv exBitmap := bm0_inv (by unfold SortedMap; decide) (by decide)

/-- every thread: allocate, allocate, free the first frame, stop -/
def exClient : Nat → List (Op × Scratch) → Option Op := fun _ h =>
  match h with
  | [] => some .alloc
  | [_] => some .alloc
  | [(.alloc, .done (.frame f)), (.alloc, _)] => some (.free f)
  | _ => none

example : WellBehaved exClient := by
  intro i h f hc
  unfold exClient at hc
  split at hc <;> try (simp at hc)
  subst hc
  rename_i r
  cases r with
  | done out => cases out <;> simp [heldOf, heldUpd, heldStep]
  | start => simp [heldOf, heldUpd, heldStep]
  | scanned _ => simp [heldOf, heldUpd, heldStep]
  | looked _ => simp [heldOf, heldUpd, heldStep]

/-- threads 0 and 1 interleaved: 1 is inside its second `AllocFrame` (after the scan) while 0 holds
frames 1 and 3 — a reachable busy state; frames are distinct -/
example : (runSched (pmmSys exClient) [0, 0, 0, 0, 1, 1, 1, 1, 0, 0, 0, 0, 1, 1] { sh := exBitmap }).map
    (fun s => (held s 0, held s 1, s.holder, s.sh.reserved)) = some ([3, 1], [2], some 1, 3) := by decide

/-- … and after both threads have finished (each has freed its first frame): 0 holds frame 3, 1 holds
frame 16, the lock is free and `total − reserved = 68 − 2` -/
example : (runSched (pmmSys exClient)
      [0, 0, 0, 0, 1, 1, 1, 1, 0, 0, 0, 0, 1, 1, 1, 1, 1, 1, 1, 1, 0, 0, 0, 0] { sh := exBitmap }).map
    (fun s => (held s 0, held s 1, s.holder, s.sh.total - s.sh.reserved)) = some ([3], [16], none, 66) := by decide

end Firefly.C09
