import Firefly.Model.Kfmt
import Firefly.Proof.Kfmt
import Firefly.Proof.KfmtIdx
/-!
# C15 — Kernel printf output is exact, bounded, and allocation-free

Statement (properties.jsonl): for every format string made of literal text, `%%` and the supported
verbs with an optional decimal width, the kernel formatter writes exactly: literal text unchanged,
`%%` as one percent sign, integers of every built-in integer type in base 8/10/16 with correct
magnitude and sign, left-padded to the width (spaces for decimal, zeros for octal/hex; integer
widths above 31 count as 31), strings and byte slices left-padded with spaces to the width,
booleans as true/false, and a fixed marker for each missing, surplus or wrongly-typed argument.
For any format string and arguments whatsoever it never panics, and formatting performs no heap
allocation, so it is usable before the allocator exists.

The theorems are about the model `Firefly.Kfmt` (`Model/Kfmt.lean`), whose constants
(`maxBufSize`, `len(numFmtBuf)`, the marker strings) are regenerated from the compiled Go code on
every run (`Gen/C15.lean`).  `buf` is the content of the global scratch buffer `numFmtBuf` when the
call starts: every theorem holds for *every* content, i.e. whatever earlier calls left there.

Not proved here (measured by the harness, see `level_note`): "no heap allocation" is a property of
the Go compiler's escape analysis, not of any executable model.
-/
namespace Firefly.C15
open Firefly.Kfmt Firefly.Gen.C15

/-- **fmtInt_in_bounds** — `fmtInt` never indexes outside `numFmtBuf`: every load, store and the
final slice expression of the model is bounds-checked (out of range = `.panic`), and for every
argument whatsoever (all ten integer kinds with any value — all 2^64 magnitudes, both signs, incl.
`MinInt64` — and every non-integer), every base and every width (any Go `int`, also negative or
huge) the result is `.ok`, and the buffer keeps its length. -/
theorem fmtInt_in_bounds (buf : List Byte) (a : Arg) (b : Base) (padLen : Int)
    (hbuf : buf.length = numFmtBufLen) :
    ∃ buf' out, fmtInt buf a b padLen = .ok (buf', out) ∧ buf'.length = numFmtBufLen :=
  fmtInt_total buf a b padLen hbuf

/-- **fmtInt_exact** — for an argument that its Go type can hold, `fmtInt` writes one chunk:
`renderIntArg` = sign and digits of the value in the base, padded as the property says (blanks in
front of sign+digits for decimal; zeros between sign and digits for octal/hex; widths above
`maxBufSize-1 = 31` count as 31; a negative width is no width), or the wrong-type marker. -/
theorem fmtInt_exact (buf : List Byte) (a : Arg) (b : Base) (padLen : Int)
    (hbuf : buf.length = numFmtBufLen) (hr : a.inRange = true) :
    ∃ buf', fmtInt buf a b padLen = .ok (buf', renderIntArg b padLen.toNat a) ∧
      buf'.length = numFmtBufLen :=
  Firefly.Kfmt.fmtInt_exact buf a b padLen hbuf hr

/-- **index_model_refines** — the index-level model of the `Fprintf` loop (`blockStart`,
`blockEnd`, `nextArgIndex`; every `format[i]` and `args[i]` a checked access, out of range =
`.panic`) computes exactly what the list-traversal model computes: same chunks, and a panic of
one is a panic of the other. -/
theorem index_model_refines (buf : List Byte) (format : List Byte) (args : List Arg) :
    fprintfIdx buf format args = fprintf buf format args :=
  fprintfIdx_eq buf format args

/-- **never_panics** — for arbitrary format bytes and arbitrary arguments (any number, any type,
any value) and any scratch-buffer content, `Fprintf` (index-level model: checked `format[i]`,
`args[i]`, `numFmtBuf[i]`) completes. -/
theorem never_panics (buf : List Byte) (format : List Byte) (args : List Arg)
    (hbuf : buf.length = numFmtBufLen) :
    ∃ writes, fprintfIdx buf format args = .ok writes := by
  rw [fprintfIdx_eq]
  exact scan_total format none args buf hbuf

/-- **exact** — for every format of the supported grammar (`parse` succeeds: literal bytes, `%%`,
`%[decimal width]{d,x,o,s,t}`, width below 2^63) and every argument list (too short, too long and
wrongly typed included), the concatenation of everything `Fprintf` (index-level model) writes is
exactly the specification's output: literal text, one `%`, `render` of each argument, `(MISSING)`,
`%!(WRONGTYPE)`, and one `%!(EXTRA)` per surplus argument. -/
theorem exact (buf : List Byte) (format : List Byte) (args : List Arg) (pieces : List Piece)
    (hbuf : buf.length = numFmtBufLen) (hargs : ∀ a ∈ args, a.inRange = true)
    (hfmt : parse .text format = some pieces) :
    ∃ writes, fprintfIdx buf format args = .ok writes ∧ writes.flatten = specOutput pieces args := by
  rw [fprintfIdx_eq]
  exact scan_exact format .text args buf pieces hbuf hargs (by decide) hfmt

/-- **magnitude** — the digit string the specification (hence, by `exact`, the formatter) prints
denotes the magnitude: its value in the base is `n`, every character is a digit below the base, and
there is no leading zero except for `0` itself. -/
theorem magnitude (b : Base) (n : Nat) :
    ofDigits b.divider (digitsOf b.divider n) = n ∧
    (∀ c ∈ digitsOf b.divider n, isDigitCh c = true ∧ digitVal c < b.divider) ∧
    (0 < n → ∀ h, digitVal ((digitsOf b.divider n).head h) ≠ 0) := by
  obtain ⟨hd1, hd16⟩ := base_bounds b
  have hpow : n < b.divider ^ (n + 1) :=
    calc n < b.divider ^ n := Nat.lt_pow_self hd1
      _ ≤ b.divider ^ (n + 1) := Nat.pow_le_pow_right (by omega) (by omega)
  refine ⟨ofDigits_digitsOf _ hd1 hd16 n, ?_, ?_⟩
  · intro c hc
    unfold digitsOf at hc
    exact digitsLE_valid _ (by omega) hd16 n n c (List.mem_reverse.1 hc)
  · intro hpos h
    unfold digitsOf at h ⊢
    rw [List.head_reverse]
    exact digitsLE_last _ hd1 hd16 n n hpow hpos _

/-- **bounded** — an integer is written as one chunk of at most `maxBufSize` bytes, whatever the
width. -/
theorem bounded (b : Base) (width : Nat) (neg : Bool) (mag : Nat) (h : mag < 2 ^ 64) :
    (renderInt b width neg mag).length ≤ maxBufSize :=
  renderInt_length_le b width neg mag h

/-- **padded** — the rendering of an integer has at least `min width 31` bytes (it is padded to
the width, widths above 31 counting as 31). -/
theorem padded (b : Base) (width : Nat) (neg : Bool) (mag : Nat) :
    min width (maxBufSize - 1) ≤ (renderInt b width neg mag).length := by
  cases b <;> cases neg <;> simp [renderInt, leftPad] <;> omega

/-- the generated facts the proofs rely on; a change of either constant in fmt.go that breaks the
bounds argument breaks this theorem (and `fmtInt_in_bounds`) -/
theorem buffer_facts :
    22 ≤ maxBufSize ∧ maxBufSize + 1 ≤ numFmtBufLen ∧ numFmtBufLen ≤ numFmtBufCap := by decide

/-- Quirk of the code, outside the property's domain (widths 0..10^6), recorded so that nobody is
surprised: the string padding count `padLen - len(s)` is computed in a Go `int`, so the wrapped
width `-2^63` (format `%9223372036854775808s`) with a non-empty string `s` asks for
`2^63 - len(s)` blanks (one `Write` each) instead of none. -/
theorem wrapped_string_width_quirk (s : List Byte) (h0 : 0 < s.length) (h1 : s.length < 2 ^ 63) :
    (fmtString (.str s) (-(2 ^ 63 : Int))).length = (2 ^ 63 - s.length) + s.length := by
  have h : (strPadCount (-(2 ^ 63 : Int)) s.length).toNat = 2 ^ 63 - s.length := by
    unfold strPadCount wrap64; omega
  unfold fmtString fmtRepeat
  rw [List.length_append, List.length_replicate, List.length_map, h]

/-! ## Non-vacuity: concrete instances of the hypotheses and of the behaviour -/

/-- a supported format: `"a%%%5d|%s"` -/
example : parse .text [97, 37, 37, 37, 53, 100, 124, 37, 115]
    = some [.lit 97, .pct, .verb .d 5, .lit 124, .verb .s 0] := by decide

/-- an unsupported one: `"%z"` -/
example : parse .text [37, 122] = none := by decide

example : (Arg.sgn .i64 (-9223372036854775808)).inRange = true := by decide
example : (Arg.sgn .i8 128).inRange = false := by decide
example : (List.replicate numFmtBufLen (0 : Byte)).length = numFmtBufLen := by decide

/-- `%5d` of int8(-7) is `"   -7"`; `%5x` of it is `"-00007"`; width 40 counts as 31 -/
example : renderIntArg .b10 5 (.sgn .i8 (-7)) = [32, 32, 32, 45, 55] := by decide
example : renderIntArg .b16 5 (.sgn .i8 (-7)) = [45, 48, 48, 48, 48, 55] := by decide
example : (renderIntArg .b8 40 (.uns .u64 8)).length = 31 := by decide

/-- MinInt64 in decimal -/
example : renderIntArg .b10 0 (.sgn .i64 (-9223372036854775808))
    = [45, 57, 50, 50, 51, 51, 55, 50, 48, 51, 54, 56, 53, 52, 55, 55, 53, 56, 48, 56] := by decide

/-- the model, run: `Fprintf("%zd", int(5))` writes `%!(NOVERB)` and then still formats the 5;
a trailing `%12` writes nothing; a missing argument writes the marker -/
example : fprintfIdx (List.replicate 33 0) [37, 122, 100] [.sgn .int 5] = .ok [errNoVerb, [53]] := by decide
example : fprintfIdx (List.replicate 33 0) [120, 37, 49, 50] [] = .ok [[120]] := by decide
example : fprintfIdx (List.replicate 33 0) [37, 100] [] = .ok [errMissingArg] := by decide
example : fprintfIdx (List.replicate 33 0) [37, 51, 50, 100] [.sgn .int (-1)]
    = .ok [List.replicate 29 32 ++ [45, 49]] := by decide

end Firefly.C15
