import Firefly.Model.Kfmt
namespace Firefly.C15
open Firefly.Kfmt Firefly.Gen.C15

theorem facts_partial : maxBufSize = 32 ∧ numFmtBufLen = 33 := by decide

end Firefly.C15
