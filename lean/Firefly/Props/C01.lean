import Firefly.Model.Pmm
namespace Firefly.C01
open Firefly.Pmm
theorem placeholder_free_unmanaged (bm : Bitmap) (f : Nat) (h : poolForFrame bm.pools f = none) :
    free bm f = (bm, .notManaged) := by simp [free, h]
end Firefly.C01
