import Firefly.Props.C03
/-!
# C01 — Physical frames are handed out exclusively and only from free RAM

Statement (properties.jsonl): once the physical memory manager has been initialised from a
bootloader memory map, every frame it hands out lies wholly inside a region the bootloader
reported as available, is not part of the loaded kernel image, was not already consumed by the
early-boot allocator, and is not currently held by any other caller. A frame can be handed out
again only after it has been freed.

The theorems are about the executable model `Firefly.Pmm` (tied to the Go code by the
correspondence run). `Inv` is the allocator's representation invariant, `isFree` the abstraction to
the set of free frames; `Firefly.C03.init_*` show that initialisation establishes `Inv` with
`isFree` = available RAM − kernel image − early allocations.
-/
namespace Firefly.C01
open Firefly.Pmm

/-- **alloc_refines** — `AllocFrame` returns a frame that was free, removes exactly that frame from
the free set and keeps the invariant; it reports out-of-memory only when no frame is free, and then
changes nothing. -/
theorem alloc_refines (bm : Bitmap) (hI : Inv bm) :
    (∀ bm' f, alloc bm = (bm', some f) →
      isFree bm f ∧ Inv bm' ∧ ∀ g, isFree bm' g ↔ (isFree bm g ∧ g ≠ f)) ∧
    (∀ bm', alloc bm = (bm', none) → bm' = bm ∧ ∀ g, ¬ isFree bm g) := by
  constructor
  · intro bm' f h
    obtain ⟨h1, h2, _, _, _, h6⟩ := alloc_some hI h
    exact ⟨h1, h2, h6⟩
  · intro bm' h
    obtain ⟨h1, h2, _⟩ := alloc_none hI h
    exact ⟨h1, h2⟩

/-- **free_refines** — a successful `FreeFrame` adds exactly the given (previously not free) frame
to the free set and keeps the invariant. -/
theorem free_refines (bm bm' : Bitmap) (f : Nat) (hI : Inv bm) (h : free bm f = (bm', .ok)) :
    ¬ isFree bm f ∧ Inv bm' ∧ ∀ g, isFree bm' g ↔ (isFree bm g ∨ g = f) := by
  obtain ⟨h1, h2, _, _, _, h6⟩ := free_ok hI h
  exact ⟨h1, h2, h6⟩

/-- **exclusive** — for every history of allocate/free calls (callers free only frames they hold;
other frees are of free or unmanaged frames and are rejected), from any state satisfying the
invariant: every frame handed out belongs to the set `U` of frames that were free at the start and
is not held by any caller at that moment; out-of-memory is reported only when every frame of `U` is
held. In particular a frame is handed out a second time only after a successful free of it. -/
theorem exclusive (bm : Bitmap) (hI : Inv bm) (ops : List Op) (hc : Contract bm [] ops) :
    TraceOk (isFree bm) (runOps bm [] ops).2.2 :=
  (run_ok ops (sim_init hI) hc).1

/-- the held list at the end of a history is duplicate free and disjoint from the free set, and
together they are exactly the initial free set: no frame is lost or duplicated. -/
theorem conservation (bm : Bitmap) (hI : Inv bm) (ops : List Op) (hc : Contract bm [] ops) :
    let r := runOps bm [] ops
    r.2.1.Nodup ∧ (∀ f, isFree bm f ↔ (isFree r.1 f ∨ f ∈ r.2.1)) ∧ (∀ f ∈ r.2.1, ¬ isFree r.1 f) := by
  have h := (run_ok ops (sim_init hI) hc).2
  exact ⟨h.nodup, h.split, h.disj⟩

/-- **handed_out_only_from_usable** — the property end to end: initialise the allocator from any
sorted memory map and kernel placement after `k` early allocations; then for every history of
allocate/free calls every frame handed out lies wholly inside a region reported available, is not
part of the kernel image, was not consumed by the early-boot allocator, and is not currently held
by another caller. -/
theorem handed_out_only_from_usable (m : List Region) (ksA keA : Nat) (hs : SortedMap m)
    (hp : KernelPlaced m ksA keA) (hsm : nSum (poolsOf m) < 4294967296) (k : Nat) (b : Boot)
    (fs0 : List Nat) (hrun : bootRun m k (bootInit ksA keA) = some (b, fs0))
    (hok : (bitmapInit m b true none).outcome = .ok) (ops : List Op)
    (hc : Contract (bitmapInit m b true none).bm [] ops) :
    ∃ fs, bootRun m (k + requiredBytes (poolsOf m) / Firefly.Gen.Pmm.pageSize) (bootInit ksA keA)
            = some ((bitmapInit m b true none).boot, fs) ∧
      TraceOk (Firefly.C03.Usable m ksA keA fs) (runOps (bitmapInit m b true none).bm [] ops).2.2 := by
  obtain ⟨fs, h1, h2, h3⟩ := (Firefly.C03.init_total_and_exact m ksA keA hs hp hsm k b fs0 hrun).2 hok
  refine ⟨fs, h1, ?_⟩
  have := exclusive _ h2 ops hc
  have e : isFree (bitmapInit m b true none).bm = Firefly.C03.Usable m ksA keA fs :=
    funext fun g => propext (h3 g)
  rw [e] at this
  exact this

/-- **any_map_order** — the bitmap allocator does not depend on the order in which the memory map
lists its regions: for any map of pairwise non-overlapping regions (ascending, descending or
shuffled) the freshly set-up pools satisfy the invariant, so `alloc_refines`, `free_refines`,
`exclusive` and `conservation` apply to them, and every frame handed out in any history is a whole
frame of an available region and not held by anybody else. (Only the early allocator's
"ascending" claims of C02 and the end-to-end statement above use `SortedMap`.) -/
theorem any_map_order (m : List Region) (hd : DisjointMap m) (hsm : nSum (poolsOf m) < 4294967296)
    (ops : List Op) (hc : Contract (bm0 m) [] ops) :
    Inv (bm0 m) ∧ TraceOk (managed (ranges (poolsOf m))) (runOps (bm0 m) [] ops).2.2 := by
  have hI := bm0_inv_any hd hsm
  refine ⟨hI, ?_⟩
  have := exclusive _ hI ops hc
  have e : isFree (bm0 m) = managed (ranges (poolsOf m)) := funext fun g => propext (bm0_isFree m g)
  rw [e] at this
  exact this

/-- non-vacuity: a map that lists a higher region before a lower one -/
def exDescending : List Region :=
  [{ addr := 0x200000, len := 0x40000, typ := 1 }, { addr := 0x9000, len := 0x8800, typ := 1 },
   { addr := 0x100000, len := 0x3000, typ := 2 }]
example : DisjointMap exDescending ∧ ¬ SortedMap exDescending ∧ nSum (poolsOf exDescending) < 4294967296 := by
  refine ⟨by unfold DisjointMap exDescending; decide, by unfold SortedMap exDescending; decide, by decide⟩

end Firefly.C01
