import Firefly.Proof.AmlLex
import Firefly.Proof.AmlNameRt
import Firefly.Proof.AmlNsSpec
import Firefly.Proof.AmlObjRt
import Firefly.Proof.AmlDeclRt
import Firefly.Proof.AmlFlatNs
import Firefly.Proof.AmlNestNs
import Firefly.Proof.AmlMulti
import Firefly.Model.AmlProg
import Firefly.Model.AmlNs
import Firefly.Gen.C11
/-!
# C11 — Well-formed AML is parsed into a namespace that matches the program

"For every well-formed AML table, parsing succeeds and the resulting namespace mirrors the program:
each named object … is found at the absolute path ACPI scoping rules give it … with its declared kind
and arguments in order. Constants, strings, buffers and field offsets/widths carry the encoded
values, and every method invocation … has exactly the declared number of arguments attached."

The whole-parser statement `parse_encode : parseAML (encode p) = .ok t ∧ nsOf t = namespaceOf p` is
**not** proved for the whole grammar subset (DESIGN §5: a multi-week proof over four interacting passes) — and it is
*false* of the current code for the six program shapes recorded as known findings.

What is and what is not proved for ALL inputs (everything else is decided per generated program by the
executable specification `AmlProg.namespaceOf` and the differential oracle of `./check C11`:
`nsOf (tree of the real parser) = namespaceOf program`, plus model = implementation on the whole object pool):

| statement                                                                                   | status                         |
|---------------------------------------------------------------------------------------------|--------------------------------|
| lexical round trips: integer constants, PkgLength, name strings, strings, package ends      | theorems (all encodings)       |
| object-level round trips: `parseSimpleArg` stores the encoded constant / string / name path | theorems                       |
| END TO END, one table of `Name(NAME, integer)` declarations                                 | theorem `flat_programs_agree` (stage: `flat_parse`) |
| END TO END, one table of `Device(NAME){…}` / `ThermalZone(NAME){…}` / `Processor(NAME, id, addr, len){…}` / `PowerResource(NAME, level, order){…}` nested to ANY depth around `Name(NAME, integer)`, `Name(NAME, "string")`, `Event(NAME)`, `Mutex(NAME, sync)` | theorem `nested_programs_agree` (stage: `nested_parse`) |
| END TO END, any NUMBER of such tables loaded one after the other                            | theorem `multi_table_programs_agree` |
| `Scope(…){…}` (re-opening an existing scope, absolute or relative)                          | NOT a theorem — oracle only    |
| `Method` bodies, method invocations and their argument counts                               | NOT a theorem — oracle only    |
| `OperationRegion`, `Field`/`IndexField`/`BankField` units (offsets, widths)                 | NOT a theorem — oracle only    |
| `Name` with buffer or package data (buffers and packages are deferred blocks parsed by the strict pass) | NOT a theorem — oracle only (the constant round trips above are the proved part) |
| names with a root prefix, `^` prefixes or more than one segment in a declaration            | NOT a theorem — oracle only (`name_roundtrip` is the proved part) |
| the specification's namespace is a tree; the facts this check was built against             | theorems                       |

The three end-to-end theorems are about the parser MODEL (`Model/AmlParser.lean`); every run of `./check C11` replays the
model against the Go parser on the generated programs and on the deterministic cases that are the non-vacuity examples
below.
-/
namespace Firefly.C11
open Firefly.AmlLex Firefly.AmlProg Firefly.AmlNs

/-- **Integer constants round-trip** (`Lex.const_roundtrip`): for every table `d`, position `base`,
width `n` and value `v`: if the `n` bytes at `base` are the little-endian encoding `encConst v n` and
lie below `pkgEnd`, `parseNumConstant n` returns `v mod 256^n`, succeeds, and advances by exactly `n`. -/
theorem const_roundtrip (d : Bytes) (v n base pe : Nat)
    (henc : ∀ i, i < n → d[base + i]? = (encConst v n)[i]?) (hfit : base + n ≤ pe) :
    parseNumConstant d n { offset := base, pkgEnd := pe } =
      .ok ((v % 256 ^ n, PRes.ok), { offset := base + n, pkgEnd := pe }) := by
  have henc' : ∀ i, i < n → d[base + i]? = some (UInt8.ofNat ((v / 256 ^ i) % 256)) := by
    intro i hi
    rw [henc i hi]
    simp [encConst, hi]
  have := parseNumLoop_roundtrip d v n base pe henc' hfit n 0 (by omega)
  simpa [parseNumConstant, Nat.mod_one] using this

/-- largest value + 1 a PkgLength of `w` bytes can carry (6 bits, then 4 + 8·(w−1) bits) -/
def pkgBound (w : Nat) : Nat := if w ≤ 1 then 64 else 2 ^ (4 + 8 * (w - 1))

/-- **PkgLength round-trips in all four encodings** (`Lex.pkglen_roundtrip`): for every table, position,
width `1 ≤ w ≤ 4` and value `v < pkgBound w`: if the `w` bytes at `base` are `encPkgLength v w` and lie
below `pkgEnd`, `parsePkgLength` returns exactly `v`, succeeds, and advances by exactly `w`. -/
theorem pkglen_roundtrip (d : Bytes) (v w base pe : Nat) (hw : 1 ≤ w ∧ w ≤ 4) (hv : v < pkgBound w)
    (henc : ∀ i, i < w → d[base + i]? = (encPkgLength v w)[i]?) (hfit : base + w ≤ pe) :
    parsePkgLength d { offset := base, pkgEnd := pe } =
      .ok ((v, PRes.ok), { offset := base + w, pkgEnd := pe }) := by
  have hcases : w = 1 ∨ w = 2 ∨ w = 3 ∨ w = 4 := by omega
  rcases hcases with rfl | rfl | rfl | rfl
  · have h0 := henc 0 (by omega)
    simp [pkgBound] at hv
    simp [encPkgLength] at h0
    have : v % 64 = v := by omega
    rw [this] at h0
    exact pkglen1 d v base pe hv hfit h0
  · have h0 := henc 0 (by omega)
    have h1 := henc 1 (by omega)
    simp [pkgBound] at hv
    simp [encPkgLength, List.range, List.range.loop] at h0 h1
    rw [show (64 : UInt8) + UInt8.ofNat (v % 16) = UInt8.ofNat (64 + v % 16) by simp [UInt8.ofNat_add]] at h0
    exact pkglen2 d v base pe hv hfit h0 h1
  · have h0 := henc 0 (by omega)
    have h1 := henc 1 (by omega)
    have h2 := henc 2 (by omega)
    simp [pkgBound] at hv
    simp [encPkgLength, List.range, List.range.loop] at h0 h1 h2
    rw [show (128 : UInt8) + UInt8.ofNat (v % 16) = UInt8.ofNat (128 + v % 16) by simp [UInt8.ofNat_add]] at h0
    exact pkglen3 d v base pe hv hfit h0 h1 h2
  · have h0 := henc 0 (by omega)
    have h1 := henc 1 (by omega)
    have h2 := henc 2 (by omega)
    have h3 := henc 3 (by omega)
    simp [pkgBound] at hv
    simp [encPkgLength, List.range, List.range.loop] at h0 h1 h2 h3
    rw [show (192 : UInt8) + UInt8.ofNat (v % 16) = UInt8.ofNat (192 + v % 16) by simp [UInt8.ofNat_add]] at h0
    exact pkglen4 d v base pe hv hfit h0 h1 h2 h3

/-- **Name strings round-trip in all four encodings** (`Lex.name_roundtrip`): for every table `d` (shorter than
2^32), position `base`, package end `pe ≤ len d` and every name — with or without the root prefix `\`, with any number
of parent prefixes `^`, and with no segment (NullName), one (NameSeg), two (DualNamePath) or 3…255 segments
(MultiNamePath) of four bytes each (`NameOK`: a lone segment starts with `A`–`Z` or `_`): if the bytes of
`encNameP n` sit at `base` and end below `pe`, then `parseNameString` succeeds, advances by exactly their number, and
returns the slice that starts at `base` and covers exactly these bytes (the NullName terminator excluded, as in Go:
`Scope(\)` yields the one-byte path `\`).  So the path the parser stores for a declaration is the path the program
wrote, for every name the encoder can produce. -/
theorem name_roundtrip (d : Bytes) (n : NameP) (base pe : Nat) (hsz : d.size < 4294967296) (hpe : pe ≤ d.size)
    (hok : NameOK (n.segs.map segBytes))
    (henc : ∀ i, i < (encNameP n).length → d[base + i]? = (encNameP n)[i]?) (hfit : base + (encNameP n).length ≤ pe) :
    parseNameString d { offset := base, pkgEnd := pe } =
      .ok (({ data := some base, len := (encNameP n).length - (if n.segs = [] then 1 else 0) }, PRes.ok),
        { offset := base + (encNameP n).length, pkgEnd := pe }) := by
  have := AmlLex.name_roundtrip d n.root n.carets (n.segs.map segBytes) base pe hsz hpe hok henc hfit
  rw [this]
  have e : (n.segs.map segBytes = []) ↔ (n.segs = []) := List.map_eq_nil_iff
  by_cases hq : n.segs = []
  · rw [if_pos hq, if_pos (e.mpr hq)]; rfl
  · rw [if_neg hq, if_neg (fun h => hq (e.mp h))]; rfl

/-- non-vacuity: `\_SB_.DEV0.DEV1` (root prefix, MultiNamePath of three segments) and `^^N000` satisfy `NameOK`,
and the parser reads the first one back from a table that holds it at offset 2 -/
example : NameOK (({ root := true, segs := ["_SB_", "DEV0", "DEV1"] } : NameP).segs.map segBytes) ∧
    NameOK (({ carets := 2, segs := ["N000"] } : NameP).segs.map segBytes) :=
  ⟨⟨by decide, by decide, fun s h => by cases h⟩,
   ⟨by decide, by decide, fun s h => by cases h; exact ⟨0x4e, rfl, Or.inl ⟨by decide, by decide⟩⟩⟩⟩
example : parseNameString ((#[0x10, 0x11] ++ (encNameP { root := true, segs := ["_SB_", "DEV0", "DEV1"] }).toArray ++ #[0xff]) : Bytes)
      { offset := 2, pkgEnd := 17 } = .ok (({ data := some 2, len := 15 }, PRes.ok), { offset := 17, pkgEnd := 17 }) := by
  decide +kernel

/-- **Strings round-trip** (`Lex.string_roundtrip`): for every table, position and every string of ASCII bytes
1…0x7f: if the bytes of `encString s` (the string and its zero terminator) sit at `base` and end below `pe`, then
`parseString` succeeds, consumes them all including the terminator, and returns the slice that starts at `base` and
has exactly the length of `s` — a `String` constant carries the encoded value. -/
theorem string_roundtrip (d : Bytes) (s : List UInt8) (base pe : Nat) (hpe : pe ≤ d.size)
    (hascii : ∀ b ∈ s, 1 ≤ b ∧ b ≤ 0x7f)
    (henc : ∀ i, i < (encString s).length → d[base + i]? = (encString s)[i]?) (hfit : base + (encString s).length ≤ pe) :
    parseString d { offset := base, pkgEnd := pe } =
      .ok (({ data := some base, len := s.length }, PRes.ok), { offset := base + (encString s).length, pkgEnd := pe }) :=
  AmlLex.string_roundtrip d s base pe hpe hascii henc hfit

/-- **The package end the parser computes is the end of the encoded body** (`Lex.pkg_roundtrip`): `encPkg op w body` is
`op ++ PkgLength ++ body` with a length that counts its own `w` bytes.  For every table that holds these bytes at
`base`, every width `1 ≤ w ≤ 4` whose range the length fits: `parsePkgLength`, started behind the opcode, returns a
length `n` with `start + n` = the offset just behind `body` — the `pkgEnd` that `parsePkgLenArg` pushes
(`origOffset + pkgLen`) is exactly where the encoder ended the package, and the reader stands at the first body byte. -/
theorem pkg_roundtrip (d : Bytes) (op body : List UInt8) (w base pe : Nat) (hw : 1 ≤ w ∧ w ≤ 4)
    (hv : w + body.length < pkgBound w)
    (henc : ∀ i, i < (encPkg op w body).length → d[base + i]? = (encPkg op w body)[i]?)
    (hfit : base + op.length + w ≤ pe) :
    ∃ n, parsePkgLength d { offset := base + op.length, pkgEnd := pe } =
        .ok ((n, PRes.ok), { offset := base + op.length + w, pkgEnd := pe }) ∧
      base + op.length + n = base + (encPkg op w body).length := by
  have hlen : (encPkgLength (w + body.length) w).length = w := by
    have hcases : w = 1 ∨ w = 2 ∨ w = 3 ∨ w = 4 := by omega
    rcases hcases with rfl | rfl | rfl | rfl <;> simp [encPkgLength]
  refine ⟨w + body.length, ?_, ?_⟩
  · refine pkglen_roundtrip d (w + body.length) w (base + op.length) pe hw hv ?_ hfit
    intro i hi
    have := henc (op.length + i) (by unfold encPkg; simp only [List.length_append, hlen]; omega)
    unfold encPkg at this
    rw [List.append_assoc, List.getElem?_append_right (by omega), Nat.add_sub_cancel_left,
      List.getElem?_append_left (by rw [hlen]; exact hi), ← Nat.add_assoc] at this
    exact this
  · unfold encPkg
    simp only [List.length_append, hlen]
    omega

/-- non-vacuity: the three-byte encoding of 0x12345 -/
example : parsePkgLength (#[0x85, 0x34, 0x12] : Bytes) { offset := 0, pkgEnd := 3 } =
    .ok ((0x12345, PRes.ok), { offset := 3, pkgEnd := 3 }) := by decide

/-- non-vacuity: a DWord constant inside a 6-byte table -/
example : parseNumConstant (#[0x0c, 0xef, 0xbe, 0xad, 0xde, 0x00] : Bytes) 4 { offset := 1, pkgEnd := 6 } =
    .ok ((0xdeadbeef, PRes.ok), { offset := 5, pkgEnd := 6 }) := by decide

/-- the encoder emits what the decoder reads back (instances; the general statement is `const_roundtrip`) -/
example : encInt 4 0xdeadbeef = [0x0c, 0xef, 0xbe, 0xad, 0xde] := by decide
example : encPkgLength 0x123 2 = [0x43, 0x12] := by decide
example : encode [.device 1 { segs := ["DEV0"] } [.name { segs := ["N000"] } (.int 1 7)]] =
    [0x5b, 0x82, 0x0c, 0x44, 0x45, 0x56, 0x30, 0x08, 0x4e, 0x30, 0x30, 0x30, 0x0a, 0x07] := by decide

/-- the specification assigns `Name(^N000)` inside `\_SB_.DEV0` to `\_SB_.N000` (the parent scope) -/
example : (namespaceOf [[.scope 1 { segs := ["_SB_"] } [.device 1 { segs := ["DEV0"] }
      [.name { carets := 1, segs := ["N000"] } (.int 1 1)]]]]).objs.contains (["_SB_", "N000"], "name:i1") = true := by
  decide

/-! ## the objects carry the encoded values

One level above the lexer: `parseSimpleArg` — the code that reads the constant, string and name arguments of every
declaration (`Name(NAME, 0x12)`, `Method(NAME, flags)`, `OperationRegion(NAME, space, …)` …) — from any parser state
`s` with a well-formed pool (`AmlParser.G.FP`) and room for one more object. -/

/-- **Integer constants are stored with the encoded value** (`Obj.const_object_roundtrip`; `ByteData` / `WordData` /
`DWordData` / `QWordData` with `n` = 1 / 2 / 4 / 8): if the `n` bytes at the reader are the little-endian encoding of `v`
inside the package, `parseSimpleArg` succeeds, returns a NEW object (a slot that was free, now live, not yet attached)
with the prefix opcode of that width and the value `v mod 256^n`, leaves the pool well-formed and advances the reader by
exactly `n`. -/
theorem const_object_roundtrip (d : Bytes) (s : AmlParser.PState) (h : AmlParser.G.FP d s)
    (hsz : s.tree.pool.size < 4294967295) (argType n op : Nat)
    (hat : (argType = Gen.C12.argTypeByteData ∧ n = 1 ∧ op = Gen.C12.opBytePrefix) ∨ (argType = Gen.C12.argTypeWordData ∧ n = 2 ∧ op = Gen.C12.opWordPrefix) ∨
      (argType = Gen.C12.argTypeDwordData ∧ n = 4 ∧ op = Gen.C12.opDwordPrefix) ∨ (argType = Gen.C12.argTypeQwordData ∧ n = 8 ∧ op = Gen.C12.opQwordPrefix))
    (v base pe : Nat) (hr : s.r = { offset := base, pkgEnd := pe })
    (henc : ∀ i, i < n → d[base + i]? = (encConst v n)[i]?) (hfit : base + n ≤ pe) :
    ∃ x s', AmlParser.parseSimpleArg d argType s = .ok ((some x, PRes.ok), s') ∧ AmlParser.G.FP d s' ∧
      C13.live s.tree x = false ∧ C13.live s'.tree x = true ∧ C13.P s'.tree x = C13.INV ∧
      (C13.slot s'.tree x).value = .u64 (v % 256 ^ n) ∧ (C13.slot s'.tree x).opcode = op ∧
      s'.r = { offset := base + n, pkgEnd := pe } := by
  obtain ⟨x, s', e, h', a1, a2, a3, a4, a5, a6, _⟩ :=
    AmlParser.F.const_object_roundtrip h hsz argType n op hat v base pe hr henc hfit
  exact ⟨x, s', e, h', a1, a2, a3, a4, a5, a6⟩

/-- **Name paths are stored as written** (`Obj.name_object_roundtrip`): on the bytes of `encNameP n`, `parseSimpleArg
(NameString)` succeeds and returns a NEW name-path object whose value is the `[]byte` that starts at the first byte of
the name and covers exactly the encoded bytes (without the NullName terminator) — the path `connectNamedObjArgs`,
`mergeScopeDirectives` and `relocateNamedObjects` later read is the path the program wrote. -/
theorem name_object_roundtrip (d : Bytes) (hd : d.size + 1024 ≤ 4294967296) (s : AmlParser.PState) (h : AmlParser.G.FP d s)
    (hsz : s.tree.pool.size < 4294967295) (n : NameP) (base pe : Nat) (hr : s.r = { offset := base, pkgEnd := pe })
    (hpe : pe ≤ d.size) (hok : NameOK (n.segs.map segBytes))
    (henc : ∀ i, i < (encNameP n).length → d[base + i]? = (encNameP n)[i]?) (hfit : base + (encNameP n).length ≤ pe) :
    ∃ x s', AmlParser.parseSimpleArg d Gen.C12.argTypeNameString s = .ok ((some x, PRes.ok), s') ∧ AmlParser.G.FP d s' ∧
      C13.live s.tree x = false ∧ C13.live s'.tree x = true ∧ C13.P s'.tree x = C13.INV ∧
      (C13.slot s'.tree x).value = .bytes base ((encNameP n).length - (if n.segs = [] then 1 else 0)) ∧
      (C13.slot s'.tree x).opcode = Gen.C12.opIntNamePath ∧ s'.r = { offset := base + (encNameP n).length, pkgEnd := pe } := by
  obtain ⟨x, s', e, h', a1, a2, a3, a4, a5, a6, _⟩ :=
    AmlParser.F.name_object_roundtrip hd h hsz n.root n.carets (n.segs.map segBytes) base pe hr hpe hok henc hfit
  refine ⟨x, s', e, h', a1, a2, a3, ?_, a5, a6⟩
  rw [a4]
  have e1 : (n.segs.map segBytes = []) ↔ (n.segs = []) := List.map_eq_nil_iff
  by_cases hq : n.segs = []
  · rw [if_pos hq, if_pos (e1.mpr hq)]; rfl
  · rw [if_neg hq, if_neg (fun hh => hq (e1.mp hh))]; rfl

/-- **Strings are stored with the encoded value** (`Obj.string_object_roundtrip`): on the ASCII bytes of `str` and their
terminator, `parseSimpleArg(String)` succeeds and returns a NEW object with the string opcode whose value is the `[]byte`
covering exactly `str`. -/
theorem string_object_roundtrip (d : Bytes) (s : AmlParser.PState) (h : AmlParser.G.FP d s)
    (hsz : s.tree.pool.size < 4294967295) (str : List UInt8) (base pe : Nat) (hr : s.r = { offset := base, pkgEnd := pe })
    (hpe : pe ≤ d.size) (hascii : ∀ b ∈ str, 1 ≤ b ∧ b ≤ 0x7f)
    (henc : ∀ i, i < (encString str).length → d[base + i]? = (encString str)[i]?) (hfit : base + (encString str).length ≤ pe) :
    ∃ x s', AmlParser.parseSimpleArg d Gen.C12.argTypeString s = .ok ((some x, PRes.ok), s') ∧ AmlParser.G.FP d s' ∧
      C13.live s.tree x = false ∧ C13.live s'.tree x = true ∧ C13.P s'.tree x = C13.INV ∧
      (C13.slot s'.tree x).value = .bytes base str.length ∧ (C13.slot s'.tree x).opcode = Gen.C12.opStringPrefix ∧
      s'.r = { offset := base + (encString str).length, pkgEnd := pe } := by
  obtain ⟨x, s', e, h', a1, a2, a3, a4, a5, a6, _⟩ :=
    AmlParser.F.string_object_roundtrip h hsz str base pe hr hpe hascii henc hfit
  exact ⟨x, s', e, h', a1, a2, a3, a4, a5, a6⟩

/-- **A `Name` declaration creates the named object under the current scope** (`Decl.name_decl_first_pass`): with the
reader at the bytes `08 <NameString>` of a `Name(…)` declaration inside the current package, the first pass
(`parseNextObject` in skip mode) succeeds; it creates a NEW `Name` object `x` as the LAST child of the innermost open
scope block (`topOf s`) and a NEW name-path object `c` as its only argument, whose value is the `[]byte` covering exactly
the path the program wrote; the reader stands right behind the name (the data object is parsed as the next object and
attached by `connectNamedObjArgs`, C12 item (9)), the scope stack is unchanged, every older object keeps its parent and
the pool stays well-formed. -/
theorem name_decl_first_pass (d : Bytes) (hd : d.size + 1024 ≤ 4294967296) (f : Nat) (s : AmlParser.PState)
    (h : AmlParser.G.FP d s) (hsk : s.allBlocks = false) (hne : s.scopeStack.size ≠ 0)
    (hsz : s.tree.pool.size + 2 < C13.INV) (n : NameP) (base pe : Nat) (hr : s.r = { offset := base, pkgEnd := pe })
    (hpe : pe ≤ d.size) (hok : NameOK (n.segs.map segBytes)) (hop : d[base]? = some 0x08)
    (henc : ∀ i, i < (encNameP n).length → d[base + 1 + i]? = (encNameP n)[i]?)
    (hfit : base + 1 + (encNameP n).length ≤ pe) :
    ∃ s' x c, AmlParser.parseNextObject d (f + 5) s = .ok (PRes.ok, s') ∧ AmlParser.G.FP d s' ∧
      C13.live s.tree x = false ∧ C13.live s.tree c = false ∧ C13.live s'.tree x = true ∧ C13.live s'.tree c = true ∧
      (C13.slot s'.tree x).opcode = 8 ∧ C13.P s'.tree x = AmlParser.S.topOf s ∧
      C13.La s'.tree (AmlParser.S.topOf s) = x ∧ C13.Fi s'.tree x = c ∧ C13.La s'.tree x = c ∧ C13.P s'.tree c = x ∧
      (C13.slot s'.tree c).opcode = Gen.C12.opIntNamePath ∧
      (C13.slot s'.tree c).value = .bytes (base + 1) ((encNameP n).length - (if n.segs = [] then 1 else 0)) ∧
      s'.r = { offset := base + 1 + (encNameP n).length, pkgEnd := pe } ∧ s'.scopeStack = s.scopeStack ∧
      (∀ y, C13.live s.tree y = true → C13.live s'.tree y = true ∧ C13.P s'.tree y = C13.P s.tree y) := by
  obtain ⟨a, s', e, ha, x, c, h', a1, a2, a3, a4, a5, a6, a7, a8, a9, a10, a11, a12, a13, a14, a15, _⟩ :=
    AmlParser.F.name_decl_first_pass hd f h hsk hne hsz n.root n.carets (n.segs.map segBytes) base pe hr hpe hok hop henc hfit
  subst ha
  refine ⟨s', x, c, e, h', a1, a2, a3, a4, a5, a6, a7, a8, a9, a10, a11, ?_, a13, a14, a15⟩
  rw [a12]
  have e1 : (n.segs.map segBytes = []) ↔ (n.segs = []) := List.map_eq_nil_iff
  by_cases hq : n.segs = []
  · rw [if_pos hq, if_pos (e1.mpr hq)]; rfl
  · rw [if_neg hq, if_neg (fun hh => hq (e1.mp hh))]; rfl

/-! ## the property itself, for a fragment: tables of `Name(NAME, integer)` declarations

`AmlParser.F.FlatItem` = (name segment, integer width, integer value); `FlatItem.obj` is the declaration
`Name(str, Integer)` of the grammar (`AmlProg.Obj.name { segs := [str] } (.int w v)`); `FlatItem.OK`: the segment is four
characters below 256 starting with a capital letter or `_`, the width is one the encoder writes (0 = ZeroOp/OneOp/OnesOp,
1, 2, 4, 8).  The proof follows `ParseAML` through all of its passes on these tables (Proof/AmlDeclRt, AmlConstDecl,
AmlFlatFirst: first pass; AmlFlatConnect: `connectNamedObjArgs`; AmlFlatQuiet: `mergeScopeDirectives`,
`relocateNamedObjects`, `parseDeferredBlocks`, `resolveMethodCalls`, `connectNonNamedObjArgs`; AmlFlatParse: composition;
AmlFlatNs: `nsOf` of the result and `namespaceOf` of the program). -/

/-- **`ParseAML` on a table of `Name(NAME, integer)` declarations** (`Flat.parse`).  For every such table — any number of
declarations, every integer width and value — loaded from any parser state whose pool is well-formed and has a parentless
scope-block root with childless scope-block children (the default scopes; `AmlParser.F.Base`): with the fuel the replay
uses, `ParseAML` SUCCEEDS (no error, no panic, no exhausted fuel), and the pool it returns (`AmlParser.F.Flat … [] its`) is
the old pool, untouched, plus for each declaration in order a `Name` object appended to the root's children that carries
the declared name and has exactly two arguments — its name path and an integer object with the declared value. -/
theorem flat_parse (l : List AmlParser.F.FlatItem) (hok : ∀ a ∈ l, a.OK) (d : Bytes)
    (hd : d = mkTable (encode (l.map AmlParser.F.FlatItem.obj)).toArray) (hlen : d.size ≤ 1000000000)
    (s : AmlParser.PState) (ht : AmlParser.G.TreeG s.tree) (b : AmlParser.F.Base s.tree)
    (hsz : s.tree.pool.size + 3 * l.length < C13.INV) (fuel : Nat)
    (hfuel : 2 * l.length + (AmlParser.F.K s.tree 0).length + 9 ≤ fuel) (handle : Nat) :
    ∃ s' its, AmlParser.parseAML d fuel handle s = .ok (true, s') ∧
      AmlParser.F.Flat d s.tree s'.tree handle [] its ∧ its.map (·.q) = l.map AmlParser.F.FlatItem.decl := by
  have henc := AmlParser.F.encode_flat l
  have hsize : d.size = Gen.C12.headerLen + (encode (l.map AmlParser.F.FlatItem.obj)).length := by
    rw [hd, AmlParser.F.mkTable_size]; simp
  have hbytes := AmlParser.F.mkTable_bytes (encode (l.map AmlParser.F.FlatItem.obj)).toArray
  rw [← hd] at hbytes
  simp only [List.toList_toArray] at hbytes
  rw [henc] at hbytes hsize
  have := AmlParser.F.parseAML_flat (d := d) (by omega) (by omega) (l.map AmlParser.F.FlatItem.decl)
    (fun q hq => by
      obtain ⟨a, ha, rfl⟩ := List.mem_map.1 hq
      exact (AmlParser.F.decl_ok (hok a ha)).1)
    (fun q hq => by
      obtain ⟨a, ha, rfl⟩ := List.mem_map.1 hq
      exact (AmlParser.F.decl_ok (hok a ha)).2)
    hbytes hsize.symm s ht b (by rw [List.length_map]; exact hsz) fuel (by rw [List.length_map]; exact hfuel) handle
  exact this

/-- **C11 holds for every program that is a list of `Name(NAME, integer)` declarations** (`Flat.agrees`; `C11.parse_ok` ∧
`C11.found_at_path` ∧ `C11.value` on this fragment).  For every such program — any number of declarations, every integer
width and value, well-formed single-segment names that are pairwise distinct and differ from the default scopes — loaded as
one table into the default namespace: the program is well-scoped (`namespaceOf` reports no error), the parser model accepts
the encoded table (`ParseAML` returns `nil`; no panic, no exhausted fuel), and the namespace read off the resulting object
tree (`nsOf`: absolute path ↦ kind and value of every named object; call sites) is the namespace ACPI's scoping rules assign
to the program (`namespaceOf`).  `agrees` is the check the oracle evaluates for every generated program; here it is
proved for all programs of the fragment.  (About the parser MODEL; the model-vs-implementation correspondence of
`./check C11` ties it to the Go parser on the replayed inputs.) -/
theorem flat_programs_agree (l : List AmlParser.F.FlatItem) (hok : ∀ a ∈ l, a.OK)
    (hnd : (defaultNs.objs.map (·.1) ++ l.map (fun a => [a.str])).Nodup)
    (hlen : (encode (l.map AmlParser.F.FlatItem.obj)).length ≤ 1000000000) :
    agrees [l.map AmlParser.F.FlatItem.obj] = true :=
  AmlParser.F.agrees_flat l hok hnd hlen

/-- non-vacuity: a program of the fragment (every encoding width), its hypotheses, and the instance of the theorem; the
same program is the deterministic case `b-flat-names` of `harness/aml/c11_test.go`, so every run of `./check C11` also
compares the model with the real parser and the real tree's namespace with `namespaceOf` on it -/
example : agrees [[.name { segs := ["N000"] } (.int 1 7), .name { segs := ["_X01"] } (.int 0 0), .name { segs := ["ABCD"] } (.int 8 0x1122334455667788),
    .name { segs := ["N003"] } (.int 2 0x1234), .name { segs := ["N004"] } (.int 0 5), .name { segs := ["N005"] } (.int 4 9)]] = true :=
  flat_programs_agree [⟨"N000", 1, 7⟩, ⟨"_X01", 0, 0⟩, ⟨"ABCD", 8, 0x1122334455667788⟩, ⟨"N003", 2, 0x1234⟩, ⟨"N004", 0, 5⟩, ⟨"N005", 4, 9⟩]
    (by
      intro a ha
      simp only [List.mem_cons, List.mem_nil_iff, or_false] at ha
      rcases ha with rfl | rfl | rfl | rfl | rfl | rfl <;>
        exact ⟨⟨by decide, by decide, by decide⟩, by unfold AmlParser.F.IntW; decide⟩)
    (by decide) (by decide)

/-! ## the property itself, for the nested fragment: `Device(NAME){…}` to any depth around `Name(NAME, integer | string)`, `Event`, `Mutex`

`AmlParser.F.NObj` = `name str w v` | `sname str bytes` | `dev kd pw str vals body` | `event str` | `mutex str sync` (`kd`: `device`,
`thermal`, `proc` or `power`; `pw`: the PkgLength width the encoder is forced to use; `vals`: the fixed arguments — none,
`[id, block address, block length]` of a `Processor`, `[system level, resource order]` of a `PowerResource`); `AmlParser.F.objsOf` maps a list of them to the grammar's `AmlProg.Obj`s
(`Name(str, Integer)`, `Name(str, String)`, `Device(str){body}`, `ThermalZone(str){body}`, `Processor(str, …){body}`, `PowerResource(str, …){body}`, `Event(str)`, `Mutex(str, sync)`);
`oksOf`: every segment well-formed, every integer width one the encoder writes, every string made of ASCII bytes 1…0x7f, every `pw` in 1..4 and wide enough for the
package it measures; `entsOL [] l`: the namespace entries ACPI's scoping rules give the declarations (absolute path ↦
`device` / `thermal` / `processor:<id>:<addr>:<len>` / `power:<level>:<order>` / `name:i<value>` / `name:s<hex bytes>` / `event` /
`mutex:<sync byte>`).  Proof/AmlNestFirst (first pass through nested packages: `dev_open`, `ol_nest`),
AmlNestConnect (`connectNamedObjArgs`, by induction on the number of declarations), AmlNestQuiet (the five quiet walks on
trees of any depth, fuel linear in the number of declarations), AmlNestParse, AmlNestNs. -/

/-- **`ParseAML` on a nested program** (`Nest.parse`).  For every program of the fragment, loaded from any parser state
whose pool is well-formed and has a parentless scope-block root with childless scope-block children (`AmlParser.F.Base`):
with enough fuel (linear in the number of declarations; `fuelFor` is enough), `ParseAML` SUCCEEDS, and the pool it returns
is the old pool, untouched, plus the objects of the program laid out as `ns` says (`AmlParser.F.NestT`): every `Name`
object carries its name and has its name path and its data object — the integer, or a string object whose `[]byte` value
covers exactly the string's bytes in the table — as arguments; every `Event` / `Mutex` object carries its name
and has its name path and (for `Mutex`) the sync-level byte as arguments; every device (thermal zone, processor, power resource) carries its name and has its name
path, its fixed constant arguments and a scope block as arguments; that scope block holds the device's own declarations, in order; the top-level
declarations are appended to the root's children. -/
theorem nested_parse (l : List AmlParser.F.NObj) (hok : AmlParser.F.oksOf l) (d : Bytes)
    (hd : d = mkTable (encode (AmlParser.F.objsOf l)).toArray) (hlen : d.size ≤ 1000000000)
    (s : AmlParser.PState) (ht : AmlParser.G.TreeG s.tree) (b : AmlParser.F.Base s.tree)
    (hsz : s.tree.pool.size + 3 * AmlParser.F.sizePs (AmlParser.F.psOf l) < C13.INV) (fuel : Nat)
    (hfuel : 8 * AmlParser.F.sizePs (AmlParser.F.psOf l) + (AmlParser.F.K s.tree 0).length +
      AmlParser.F.closesPs (AmlParser.F.psOf l) + 13 ≤ fuel) (handle : Nat) :
    ∃ s' ns, AmlParser.F.progs ns = AmlParser.F.psOf l ∧ AmlParser.parseAML d fuel handle s = .ok (true, s') ∧
      AmlParser.F.NestT d s.tree s'.tree handle ns := by
  have henc : encode (AmlParser.F.objsOf l) = AmlParser.F.encPs (AmlParser.F.psOf l) := by
    unfold encode; exact AmlParser.F.enc_nobjs l hok
  have hsize : d.size = Gen.C12.headerLen + (encode (AmlParser.F.objsOf l)).length := by
    rw [hd, AmlParser.F.mkTable_size]; simp
  have hbytes := AmlParser.F.mkTable_bytes (encode (AmlParser.F.objsOf l)).toArray
  rw [← hd] at hbytes
  simp only [List.toList_toArray] at hbytes
  rw [henc] at hbytes hsize
  exact AmlParser.F.parseAML_nest (d := d) (by omega) (by omega) (AmlParser.F.psOf l) (AmlParser.F.ok_nobjs l hok)
    hbytes hsize.symm s ht b hsz fuel hfuel handle

/-- **C11 holds for every program made of nested devices and integer names** (`Nest.agrees`; `C11.parse_ok` ∧
`C11.found_at_path` ∧ `C11.value` on this fragment).  For every program built from `Device(NAME){…}`, `ThermalZone(NAME){…}`, `Processor(NAME, id, addr, len){…}` and
`PowerResource(NAME, level, order){…}` — nested to any depth, with every PkgLength width and every value of the fixed arguments — and `Name(NAME, integer)` — every integer width and value —, `Name(NAME, "string")` — every ASCII string —, `Event(NAME)` and
`Mutex(NAME, sync)` — every sync byte —, with well-formed single-segment
names whose absolute paths are pairwise distinct and differ from the default scopes, loaded as one table into the default
namespace: the program is well-scoped, the parser model accepts the encoded table (`ParseAML` returns `nil`: no error, no
panic, no exhausted fuel), and the namespace read off the resulting object tree — each named object at the ABSOLUTE PATH
its enclosing devices give it, with its kind (`device` / `thermal` / `processor` / `power` / `name` / `event` / `mutex`), the fixed arguments and the integer value, the string's bytes (read back from the table the object's handle names) or the sync level — is
exactly the namespace ACPI's
scoping rules assign to the program.  (About the parser MODEL, like `flat_programs_agree`.) -/
theorem nested_programs_agree (l : List AmlParser.F.NObj) (hok : AmlParser.F.oksOf l)
    (hnd : (defaultNs.objs.map (·.1) ++ (AmlParser.F.entsOL [] l).map (·.1)).Nodup)
    (hlen : (encode (AmlParser.F.objsOf l)).length ≤ 1000000000) :
    agrees [AmlParser.F.objsOf l] = true :=
  AmlParser.F.agrees_nest l hok hnd hlen

/-- non-vacuity: a nested program (three levels, PkgLength widths 1, 2 and 3, a name reused in different scopes, a string and
an empty string), its
hypotheses, and the instance of the theorem; the same program is the deterministic case `b-nested-devices` of
`harness/aml/c11_test.go` -/
example : agrees [[.device 1 { segs := ["DEV0"] } [.name { segs := ["N000"] } (.int 1 1),
      .device 2 { segs := ["DEV1"] } [.name { segs := ["N000"] } (.int 2 0x1234), .device 3 { segs := ["DEV2"] } [],
        .name { segs := ["S000"] } (.str [0x68, 0x69])],
      .name { segs := ["N001"] } (.int 0 0)],
    .name { segs := ["N000"] } (.int 8 0x0123456789abcdef), .name { segs := ["S000"] } (.str [])]] = true :=
  nested_programs_agree [.dev .device 1 "DEV0" [] [.name "N000" 1 1, .dev .device 2 "DEV1" [] [.name "N000" 2 0x1234, .dev .device 3 "DEV2" [] [],
        .sname "S000" [0x68, 0x69]], .name "N001" 0 0],
      .name "N000" 8 0x0123456789abcdef, .sname "S000" []]
    (AmlParser.F.oks_of_b _ (by decide)) (by decide) (by decide)

/-- **C11 holds for any number of tables of the nested fragment** (`Multi.agrees`).  For every sequence of tables, each built
from `Device(NAME){…}` / `ThermalZone(NAME){…}` / `Processor(…){…}` / `PowerResource(…){…}` (nested to any depth), `Name(NAME, integer)`, `Name(NAME, "string")`, `Event(NAME)` and `Mutex(NAME, sync)`,
whose declared absolute paths are all distinct and
differ from the default scopes, loaded in order (handles 1, 2, …) into the default namespace: every table is accepted by the
parser model — the later tables are parsed into the pool the earlier ones left, whose objects `connectNamedObjArgs` and the
other passes walk over and leave alone — and the namespace read off the final object tree is the namespace ACPI's scoping
rules assign to the sequence of tables.  (`Proof/AmlMulti.lean`: `Pool`, `parseAML_pool`, `loadAll_pool`.) -/
theorem multi_table_programs_agree (ls : List (List AmlParser.F.NObj)) (hok : ∀ l ∈ ls, AmlParser.F.oksOf l)
    (hnd : (defaultNs.objs.map (·.1) ++ (ls.flatMap (AmlParser.F.entsOL [])).map (·.1)).Nodup)
    (hlen : AmlParser.F.totalLen ls ≤ 1000000000) :
    agrees (ls.map AmlParser.F.objsOf) = true :=
  AmlParser.F.agrees_multi ls hok hnd hlen

/-- non-vacuity: three tables, the first with a processor and a power resource, the second with a string (read back from the SECOND table's bytes), the third with a thermal
zone, events and mutexes at two levels (the deterministic case
`b-three-tables-devices` of `harness/aml/c11_test.go`) -/
example : agrees [[.device 1 { segs := ["DEV0"] } [.name { segs := ["N000"] } (.int 1 1)], .name { segs := ["N001"] } (.int 0 1),
      .processor 1 { segs := ["CPU0"] } 1 0x00000410 6 [.name { segs := ["N000"] } (.int 1 2)],
      .powerres 2 { segs := ["PWR0"] } 3 0x0102 [.event { segs := ["EV00"] }]],
    [.name { segs := ["N002"] } (.int 4 0xdeadbeef), .device 2 { segs := ["DEV1"] } [.device 1 { segs := ["DEV0"] } []],
      .name { segs := ["S002"] } (.str [0x74, 0x77, 0x6f])],
    [.name { segs := ["N003"] } (.int 0 7), .thermal 1 { segs := ["TZ00"] } [.name { segs := ["N000"] } (.int 1 3),
      .event { segs := ["EV00"] }, .mutex { segs := ["MX00"] } 3], .mutex { segs := ["MX00"] } 15, .event { segs := ["EV00"] }]] = true :=
  multi_table_programs_agree [[.dev .device 1 "DEV0" [] [.name "N000" 1 1], .name "N001" 0 1,
        .dev .proc 1 "CPU0" [1, 0x00000410, 6] [.name "N000" 1 2], .dev .power 2 "PWR0" [3, 0x0102] [.event "EV00"]],
      [.name "N002" 4 0xdeadbeef, .dev .device 2 "DEV1" [] [.dev .device 1 "DEV0" [] []], .sname "S002" [0x74, 0x77, 0x6f]],
      [.name "N003" 0 7, .dev .thermal 1 "TZ00" [] [.name "N000" 1 3, .event "EV00", .mutex "MX00" 3], .mutex "MX00" 15, .event "EV00"]]
    (by
      intro l hl
      simp only [List.mem_cons, List.mem_nil_iff, or_false] at hl
      rcases hl with rfl | rfl | rfl <;> exact AmlParser.F.oks_of_b _ (by decide))
    (by decide) (by decide)

/-- **The specification's namespace is a tree, for every program** (`Spec.namespace_is_tree`): whatever tables are
loaded — well-scoped or not — `namespaceOf` never declares a path twice, and every declared path with more than one
segment has its parent scope declared (ill-scoped declarations are recorded in `errors` and declare nothing).  The
oracle therefore compares the parser's tree with a well-formed namespace on every input, and "found at the absolute
path ACPI scoping rules give it" is unambiguous: a path denotes at most one object. -/
theorem namespace_is_tree (tables : List (List Obj)) :
    ((namespaceOf tables).objs.map (·.1)).Nodup ∧
    ∀ p ∈ (namespaceOf tables).objs.map (·.1), 1 < p.length → (namespaceOf tables).has (p.take (p.length - 1)) = true :=
  AmlProg.namespaceOf_ok tables

/-- **The facts this check was generated against are the facts of C12's model**: the parser model
(`Model/AmlLex`, `Model/AmlParser`) imports `Gen.C12`; a C11 run regenerates `Gen.C11` from the compiled
code, so a table that changed without C12 being re-run breaks this theorem (stale tie). -/
theorem facts_agree :
    Gen.C11.opcodeTable = Gen.C12.opcodeTable ∧ Gen.C11.opcodeMap = Gen.C12.opcodeMap ∧
    Gen.C11.extendedOpcodeMap = Gen.C12.extendedOpcodeMap ∧ Gen.C11.tableIndexInternal = Gen.C12.tableIndexInternal ∧
    Gen.C11.maxResolvePasses = Gen.C12.maxResolvePasses ∧ Gen.C11.headerLen = Gen.C12.headerLen ∧
    Gen.C11.isType2 = Gen.C12.isType2 ∧ Gen.C11.isDataObject = Gen.C12.isDataObject ∧ Gen.C11.isArg = Gen.C12.isArg :=
  ⟨rfl, rfl, rfl, rfl, rfl, rfl, rfl, rfl, rfl⟩

/-! ## witnesses: where the property is false today, and where repairs made it true

`agrees w` runs the parser *model* (which the correspondence run ties to the real parser on exactly
these programs — they are the deterministic boundary cases `b-…` of `harness/aml/c11_test.go`) on
`encode w` and compares the namespace in the resulting tree with `namespaceOf w`.  Evaluated by the
Lean kernel (`decide +kernel`: no compiled evaluation). -/

private def nm (s : String) : NameP := { segs := [s] }
private def i1 (v : Nat) : Data := .int 1 v
private def t1 (v : Nat) : Term := .int 1 v

/-- `Scope(_SB_){Device(DEV0){Device(DEV1){}}} Scope(\_SB_.DEV0.DEV1){Name(N000,1)}` -/
def wD6 : List (List Obj) :=
  [[.scope 1 (nm "_SB_") [.device 1 (nm "DEV0") [.device 1 (nm "DEV1") []]],
    .scope 1 { root := true, segs := ["_SB_", "DEV0", "DEV1"] } [.name (nm "N000") (i1 1)]]]

/-- `Scope(_SB_){Device(DEV0){Name(^N000,1)}}` -/
def wCaret : List (List Obj) :=
  [[.scope 1 (nm "_SB_") [.device 1 (nm "DEV0") [.name { carets := 1, segs := ["N000"] } (i1 1)]]]]

/-- `Method(M002,2){} Method(M000,0){ M002(Add(1,2,), 3) }` -/
def wCallArgExpr : List (List Obj) :=
  [[.method 1 (nm "M002") 2 [], .method 1 (nm "M000") 0 [.call (nm "M002") [.add (t1 1) (t1 2) none, t1 3]]]]

/-- `Method(M000,0){ If(1){} }` -/
def wIfEmpty : List (List Obj) := [[.method 1 (nm "M000") 0 [.ifs 1 (t1 1) []]]]

/-- `Method(M001,1){} Method(M000,0){ While(1){ While(2){Noop} M001(3) } }` -/
def wWhileNested : List (List Obj) :=
  [[.method 1 (nm "M001") 1 [], .method 1 (nm "M000") 0 [.whiles 1 (t1 1) [.whiles 1 (t1 2) [.noop], .call (nm "M001") [t1 3]]]]]

/-- the witnesses are well-scoped programs: the specification assigns each a namespace without error -/
theorem witnesses_well_scoped :
    (namespaceOf wD6).errors = [] ∧ (namespaceOf wCaret).errors = [] ∧ (namespaceOf wCallArgExpr).errors = [] ∧
    (namespaceOf wIfEmpty).errors = [] ∧ (namespaceOf wWhileNested).errors = [] := by decide +kernel

set_option maxRecDepth 100000 in
/-- **D6 (known finding)**: a Scope path that continues below a Device is rejected by the parser. -/
theorem d6_counterexample : modelNs wD6 = none ∧ agrees wD6 = false := by decide +kernel

set_option maxRecDepth 100000 in
/-- **`^` inside a Device (known finding)**: the table parses, but `N000` is found at `\_SB_.DEV0.N000`
instead of `\_SB_.N000`. -/
theorem name_caret_counterexample :
    agrees wCaret = false ∧
    (modelNs wCaret).map (fun ns => ns.has ["_SB_", "DEV0", "N000"]) = some true ∧
    (namespaceOf wCaret).has ["_SB_", "N000"] = true := by decide +kernel

set_option maxRecDepth 100000 in
/-- **call with an expression argument (known finding)**: the invocation of the two-argument method
`M002` does not end up with two arguments. -/
theorem call_arg_expression_counterexample :
    agrees wCallArgExpr = false ∧ (namespaceOf wCallArgExpr).calls = [(["M002"], 2)] ∧
    (modelNs wCallArgExpr).map (fun ns => ns.calls) ≠ some [(["M002"], 2)] := by decide +kernel

set_option maxRecDepth 100000 in
/-- **If with an empty body as last statement (known finding)**: rejected. -/
theorem if_empty_body_counterexample : modelNs wIfEmpty = none ∧ agrees wIfEmpty = false := by decide +kernel

set_option maxRecDepth 100000 in
/-- **nested block inside While (known finding)**: the call that follows the inner While is dropped. -/
theorem while_nested_block_counterexample :
    agrees wWhileNested = false ∧ (namespaceOf wWhileNested).calls = [(["M001"], 1)] ∧
    (modelNs wWhileNested).map (fun ns => ns.calls) = some [] := by decide +kernel


/-- `Device(DEV0){} Scope(\DEV0){ Scope(DEV0){Name(N000,1)} Device(DEV0){} }`: when `Scope(DEV0)` is met, the only `DEV0` in
sight is `\DEV0`; the nearer `\DEV0.DEV0` is declared behind it -/
def wScopeShadow : List (List Obj) :=
  [[.device 1 (nm "DEV0") [], .scope 1 { root := true, segs := ["DEV0"] }
      [.scope 1 (nm "DEV0") [.name (nm "N000") (i1 1)], .device 1 (nm "DEV0") []]]]

set_option maxRecDepth 100000 in
/-- **a single-segment `Scope(NAME)` captured by a LATER declaration (known finding)**: the parser resolves Scope directives
after the whole table has been read, so the search finds the nearer `\DEV0.DEV0` that the table declares only behind the
directive; the scoping rules (names are resolved where they are met, tables are loaded in order) put `N000` into `\DEV0`. -/
theorem scope_search_shadowed_later_counterexample :
    (namespaceOf wScopeShadow).errors = [] ∧ agrees wScopeShadow = false ∧
    (namespaceOf wScopeShadow).has ["DEV0", "N000"] = true ∧
    (modelNs wScopeShadow).map (fun ns => (ns.has ["DEV0", "DEV0", "N000"], ns.has ["DEV0", "N000"])) = some (true, false) := by
  decide +kernel

/-- `Scope(\){Name(N000,1)}` (repaired: baac752) -/
def wScopeRoot : List (List Obj) := [[.scope 1 { root := true } [.name (nm "N000") (i1 1)]]]

/-- `Method(M001,0){} Method(M000,0){ While(1){ Store(Add(1, M001()), Local0) } }` (repaired: e2a58af) -/
def wWhileCallExpr : List (List Obj) :=
  [[.method 1 (nm "M001") 0 [], .method 1 (nm "M000") 0
      [.whiles 1 (t1 1) [.store (.add (t1 1) (.call (nm "M001") []) none) 0]]]]

/-- forward and backward calls with nested calls as arguments -/
def wCalls : List (List Obj) :=
  [[.method 1 (nm "M001") 2 [.ret (.call (nm "M002") [.arg 0, .call (nm "M003") [], .arg 1])],
    .method 1 (nm "M002") 3 [], .method 1 (nm "M003") 0 [.store (.call (nm "M001") [t1 1, t1 2]) 0]]]

set_option maxRecDepth 100000 in
/-- **where the parser does meet the property** (model evaluated by the kernel): the two repaired
witnesses and a program with forward, backward and nested method calls -/
theorem repaired_and_positive_witnesses :
    agrees wScopeRoot = true ∧ agrees wWhileCallExpr = true ∧ agrees wCalls = true := by decide +kernel


end Firefly.C11
