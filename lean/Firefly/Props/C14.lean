import Firefly.Model.Acpi
import Firefly.Spec.Acpi
import Firefly.Proof.Acpi
/-!
# C14 — Only checksum-valid ACPI tables are registered, found via the right root pointer

Statement (properties.jsonl): hardware detection finds the ACPI root pointer wherever it sits on
a 16-byte boundary of the BIOS search area, accepts it only if its checksum is valid, and follows
the 32-bit root table for revision-0 firmware and the 64-bit one otherwise. Every table the root
table lists, plus the DSDT that a checksum-valid FADT points to, is registered under its signature
if and only if the bytes of the table sum to zero; tables with a bad checksum are reported and
skipped without stopping enumeration.

All theorems are about the executable model `Firefly.Acpi` (Model/Acpi.lean), instantiated with
the constants in `Firefly.Gen.C14` that the harness prints from the compiled Go code, and hold for
**every** firmware memory image `m : Nat → UInt8`, every window `[low, hi)` and every root table.
The vocabulary (`ValidRsdpAt`, `rootOf`, `considered`, `SumsToZero`) is in Spec/Acpi.lean.
-/
namespace Firefly.C14
open Firefly.Acpi Firefly.Gen.C14

/-- The search constants of the compiled code are the BIOS area `0xe0000 … 0xfffff`, scanned in
16-byte steps, and pages are 4 KiB. -/
theorem window_is_bios_area :
    rsdpLocationLow = 0xe0000 ∧ rsdpLocationHi = 0xfffff ∧ rsdpAlignment = 16 ∧ pageShift = 12 := by decide

/-- The number of bytes the compiled code sums for a root pointer, measured by the harness on the
real `locateRSDT`: 20 for revision 0, 36 otherwise — whatever the structure's own `Length` field
says (0, 20, 36, 292). -/
theorem checksum_lengths_fixed :
    rsdpChecksumLen = 20 ∧ extRsdpChecksumLen = 36 ∧ extRsdpChecksumLenLength0 = 36 ∧
    extRsdpChecksumLenLength20 = 36 ∧ extRsdpChecksumLenLength292 = 36 := by decide

/-- `validTable` accepts exactly when the plain sum of the bytes is 0 mod 256. -/
theorem checksum_is_byte_sum (m : Mem) (a n : Nat) :
    validTable m a n = true ↔ SumsToZero m a n :=
  validTable_iff m a n

/-- A table passes `mapACPITable`'s check iff its `Length` bytes sum to zero. -/
theorem table_ok_iff_sums_to_zero (m : Mem) (a : Nat) :
    tableOK m a = true ↔ SumsToZero m a (rdLE m (a + 4) 4) :=
  tableOK_iff m a

/-- **rsdp_found** — the lowest checksum-valid root pointer on the 16-byte grid of the window is
the one returned, together with the root table its revision designates (32-bit RSDT address for
revision 0, 64-bit XSDT address otherwise). -/
theorem rsdp_found (m : Mem) (low hi k : Nat) (hk : low + 16 * k < hi)
    (hv : ValidRsdpAt m (low + 16 * k)) (hlow : ∀ j, j < k → ¬ ValidRsdpAt m (low + 16 * j)) :
    locateRSDT m low hi = .found (rootOf m (low + 16 * k)).1 (rootOf m (low + 16 * k)).2 := by
  unfold locateRSDT
  rw [scan_found_iff]
  refine ⟨k, (lt_nslots_iff low hi k).2 hk, ?_, ?_⟩
  · rw [checkSlot_eq]; simp [hv]
  · intro j hj; rw [checkSlot_eq]; simp [hlow j hj]

/-- **rsdp_decoys_never** — whatever the probe returns comes from a checksum-valid root pointer
that lies on the grid inside the window and has no valid one below it; in particular a structure
with the right signature but a bad checksum (a decoy) is never accepted, nor is anything off the
16-byte grid or at or above `hi`. -/
theorem rsdp_decoys_never (m : Mem) (low hi root : Nat) (x : Bool)
    (h : locateRSDT m low hi = .found root x) :
    ∃ k, low + 16 * k < hi ∧ ValidRsdpAt m (low + 16 * k) ∧
      (∀ j, j < k → ¬ ValidRsdpAt m (low + 16 * j)) ∧ (root, x) = rootOf m (low + 16 * k) := by
  unfold locateRSDT at h
  rw [scan_found_iff] at h
  obtain ⟨k, hk, hs, hlow⟩ := h
  refine ⟨k, (lt_nslots_iff low hi k).1 hk, ?_, ?_, ?_⟩
  · rw [checkSlot_eq] at hs
    by_cases hv : ValidRsdpAt m (low + 16 * k)
    · exact hv
    · simp [hv] at hs
  · intro j hj hv
    have := hlow j hj
    rw [checkSlot_eq] at this
    simp [hv] at this
  · rw [checkSlot_eq] at hs
    by_cases hv : ValidRsdpAt m (low + 16 * k)
    · simp [hv] at hs; exact hs.symm
    · simp [hv] at hs

/-- **rsdp_none_missing** — the probe fails (`errMissingRSDP`, `probeForACPI` returns nil) exactly
when no grid position of the window holds a checksum-valid root pointer. -/
theorem rsdp_none_missing (m : Mem) (low hi : Nat) :
    locateRSDT m low hi = .missing ↔ ∀ k, low + 16 * k < hi → ¬ ValidRsdpAt m (low + 16 * k) := by
  unfold locateRSDT
  rw [scan_missing_iff]
  constructor
  · intro h k hk hv
    have := h k ((lt_nslots_iff low hi k).2 hk)
    rw [checkSlot_eq] at this
    simp [hv] at this
  · intro h k hk
    rw [checkSlot_eq]
    simp [h k ((lt_nslots_iff low hi k).1 hk)]

/-- **considered_iff** — the tables the enumeration looks at are exactly the root table's entries
and the DSDT behind every listed checksum-valid FADT. -/
theorem considered_iff (m : Mem) (root : Nat) (x : Bool) (a : Nat) :
    a ∈ considered m root x ↔
      a ∈ entries m root x ∨
      ∃ f, f ∈ entries m root x ∧ tableOK m f = true ∧ sigAt m f = fadtSignature ∧
        a = dsdtPtr m (rd m (root + 8)) f := by
  unfold considered
  rw [List.mem_flatMap]
  constructor
  · rintro ⟨e, he, ha⟩
    by_cases hc : (tableOK m e && sigAt m e == fadtSignature) = true
    · simp only [hc, if_true, List.mem_cons, List.not_mem_nil, or_false] at ha
      simp only [Bool.and_eq_true, beq_iff_eq] at hc
      rcases ha with rfl | rfl
      · exact Or.inl he
      · exact Or.inr ⟨e, he, hc.1, hc.2, rfl⟩
    · rw [if_neg hc] at ha
      simp only [List.mem_cons, List.not_mem_nil, or_false] at ha
      subst ha; exact Or.inl he
  · rintro (he | ⟨f, hf, h1, h2, rfl⟩)
    · refine ⟨a, he, ?_⟩
      split <;> simp
    · refine ⟨f, hf, ?_⟩
      simp [h1, h2]

/-- **registered_iff** — with a checksum-valid root table and distinct signatures among the
checksum-valid tables under consideration, `tableMap[s]` is the table at `a` iff `a` is listed by
the root table (or is the DSDT of a listed checksum-valid FADT), carries signature `s`, and its
bytes sum to zero. Position in the root table and bad tables before or after play no role. -/
theorem registered_iff (m : Mem) (root : Nat) (x : Bool) (hroot : tableOK m root = true)
    (hdist : ∀ a b, a ∈ considered m root x → b ∈ considered m root x →
      tableOK m a = true → tableOK m b = true → sigAt m a = sigAt m b → a = b)
    (s a : Nat) :
    (enumerateTables m root x).2.tables.lookup s = some a ↔
      a ∈ considered m root x ∧ sigAt m a = s ∧ SumsToZero m a (lenAt m a) := by
  rw [enumerateTables_ok m root x hroot, ← tableOK_iff]
  simp only
  rw [lookup_foldl_register]
  cases hf : (considered m root x).reverse.find? (fun a => tableOK m a && sigAt m a == s) with
  | some b =>
    have hp := List.find?_some hf
    have hm := List.mem_reverse.1 (List.mem_of_find?_eq_some hf)
    simp only [Bool.and_eq_true, beq_iff_eq] at hp
    simp only [Option.some.injEq]
    constructor
    · rintro rfl; exact ⟨hm, hp.2, hp.1⟩
    · rintro ⟨ha, hs, hok⟩
      exact hdist b a hm ha hp.1 hok (hp.2.trans hs.symm)
  | none =>
    rw [List.find?_eq_none] at hf
    simp only [List.lookup_nil, reduceCtorEq, false_iff]
    rintro ⟨ha, hs, hok⟩
    have := hf a (List.mem_reverse.2 ha)
    simp [hok, hs] at this

/-- **registered_dom_iff** — without any distinctness assumption: a signature is registered iff
some table under consideration carries it and sums to zero, and what is registered under it is
always such a table (the last one enumerated wins). -/
theorem registered_dom_iff (m : Mem) (root : Nat) (x : Bool) (hroot : tableOK m root = true) (s : Nat) :
    ((∃ a, (enumerateTables m root x).2.tables.lookup s = some a) ↔
      ∃ a, a ∈ considered m root x ∧ sigAt m a = s ∧ SumsToZero m a (lenAt m a)) ∧
    (∀ a, (enumerateTables m root x).2.tables.lookup s = some a →
      a ∈ considered m root x ∧ sigAt m a = s ∧ SumsToZero m a (lenAt m a)) := by
  rw [enumerateTables_ok m root x hroot]
  simp only [← tableOK_iff]
  rw [lookup_foldl_register]
  cases hf : (considered m root x).reverse.find? (fun a => tableOK m a && sigAt m a == s) with
  | some b =>
    have hp := List.find?_some hf
    have hm := List.mem_reverse.1 (List.mem_of_find?_eq_some hf)
    simp only [Bool.and_eq_true, beq_iff_eq] at hp
    simp only [Option.some.injEq]
    exact ⟨⟨fun _ => ⟨b, hm, hp.2, hp.1⟩, fun _ => ⟨b, rfl⟩⟩, fun a h => h ▸ ⟨hm, hp.2, hp.1⟩⟩
  | none =>
    rw [List.find?_eq_none] at hf
    simp only [List.lookup_nil, reduceCtorEq, exists_false, false_iff, not_exists, false_implies, implies_true, and_true]
    rintro a ⟨ha, hs, hok⟩
    have := hf a (List.mem_reverse.2 ha)
    simp [hok, hs] at this

/-- `tableMap` is a map: at most one entry per signature. -/
theorem tableMap_keys_unique (m : Mem) (root : Nat) (x : Bool) :
    ((enumerateTables m root x).2.tables.map (·.1)).Nodup := by
  by_cases hroot : tableOK m root = true
  · rw [enumerateTables_ok m root x hroot]
    exact foldl_register_keys_nodup m _ [] (by simp)
  · rw [enumerateTables_bad m root x (by simpa using hroot)]
    simp

/-- **bad_checksum_skipped_not_fatal** — with a checksum-valid root table the enumeration always
completes (`DriverInit` returns nil), and the tables skipped with a log line are exactly the
tables under consideration whose bytes do not sum to zero — one line each, in order, none lost.
(That every *other* table is still registered is `registered_iff`, which holds whatever the
position of the bad ones.) -/
theorem bad_checksum_skipped_not_fatal (m : Mem) (root : Nat) (x : Bool) (hroot : tableOK m root = true) :
    (enumerateTables m root x).1 = .ok ∧
    (enumerateTables m root x).2.skipped = (considered m root x).filter (fun a => !tableOK m a) := by
  rw [enumerateTables_ok m root x hroot]
  exact ⟨rfl, rfl⟩

/-- A root table with a bad checksum is the only thing that stops the driver: nothing is
registered and `errTableChecksumMismatch` is returned. -/
theorem root_bad_checksum_fatal (m : Mem) (root : Nat) (x : Bool) (hroot : tableOK m root = false) :
    (enumerateTables m root x).1 = .checksumMismatch ∧ (enumerateTables m root x).2.tables = [] ∧
    (enumerateTables m root x).2.skipped = [] := by
  rw [enumerateTables_bad m root x hroot]
  exact ⟨rfl, rfl, rfl⟩

/-- **entry_width** — the RSDT is read as `(Length-36)/4` little-endian 32-bit entries, the XSDT
as `(Length-36)/8` little-endian 64-bit entries, both starting right behind the 36-byte header
(root tables at least as long as their header; `rsdp_found` ties the flag to the revision). -/
theorem entry_width (m : Mem) (root : Nat) (hlen : 36 ≤ lenAt m root) :
    entries m root false =
      (List.range ((lenAt m root - 36) / 4)).map (fun i =>
        rd m (root + 36 + 4 * i) + 256 * rd m (root + 36 + 4 * i + 1) + 65536 * rd m (root + 36 + 4 * i + 2)
          + 16777216 * rd m (root + 36 + 4 * i + 3)) ∧
    entries m root true =
      (List.range ((lenAt m root - 36) / 8)).map (fun i =>
        rd m (root + 36 + 8 * i) + 256 * rd m (root + 36 + 8 * i + 1) + 65536 * rd m (root + 36 + 8 * i + 2)
          + 16777216 * rd m (root + 36 + 8 * i + 3) + 4294967296 * (
        rd m (root + 36 + 8 * i + 4) + 256 * rd m (root + 36 + 8 * i + 5) + 65536 * rd m (root + 36 + 8 * i + 6)
          + 16777216 * rd m (root + 36 + 8 * i + 7))) := by
  have hlt : lenAt m root < 2 ^ 32 := by
    have := rdLE_lt m (root + hdrLengthOff) 4
    unfold lenAt
    have e : hdrLengthSize = 4 := rfl
    rw [e]; omega
  have hp : payloadLen m root = lenAt m root - 36 := by
    unfold payloadLen
    have e : sizeofSDTHeader = 36 := rfl
    rw [e]; omega
  have e : sizeofSDTHeader = 36 := rfl
  unfold entries
  simp only [hp, e, Bool.false_eq_true, if_false, if_true, Nat.shiftRight_eq_div_pow]
  constructor
  · exact List.map_congr_left (fun i _ => rdLE_four m _)
  · refine List.map_congr_left (fun i _ => ?_)
    rw [rdLE_eight, rdLE_four]

/-- **maps_header_then_table** — every table looked at is mapped twice, in this order: its
36-byte header, then `Length` bytes from the same frame; root table first. -/
theorem maps_header_then_table (m : Mem) (root : Nat) (x : Bool) (hroot : tableOK m root = true) :
    (enumerateTables m root x).2.maps =
      (root :: considered m root x).flatMap (fun a => [(a / 4096, 36), (a / 4096, lenAt m a)]) := by
  rw [enumerateTables_ok m root x hroot]
  have e1 : pageShift = 12 := rfl
  have e2 : sizeofSDTHeader = 36 := rfl
  have e : hdrMaps m = fun a => [(a / 4096, 36), (a / 4096, lenAt m a)] := by
    funext a; simp [hdrMaps, e1, e2, Nat.shiftRight_eq_div_pow]
  simp [e]

/-! ## Non-vacuity: a concrete image (decoy in slot 0, valid revision-0 root pointer in slot 2,
RSDT at 64 listing a good table `AAAA` at 112 and a corrupted table `BBBB` at 160) -/

def exBytes : List Nat := [82, 83, 68, 32, 80, 84, 82, 32, 19, 79, 69, 77, 73, 68, 33, 0, 64, 0, 0, 0, 0, 0, 0, 0, 0, 0, 0, 0, 0, 0, 0, 0, 82, 83, 68, 32, 80, 84, 82, 32, 18, 79, 69, 77, 73, 68, 33, 0, 64, 0, 0, 0, 0, 0, 0, 0, 0, 0, 0, 0, 0, 0, 0, 0, 82, 83, 68, 84, 44, 0, 0, 0, 1, 168, 79, 69, 77, 73, 68, 33, 79, 69, 77, 84, 65, 66, 76, 69, 1, 0, 0, 0, 2, 0, 0, 0, 3, 0, 0, 0, 112, 0, 0, 0, 160, 0, 0, 0, 0, 0, 0, 0, 65, 65, 65, 65, 36, 0, 0, 0, 1, 249, 79, 69, 77, 73, 68, 33, 79, 69, 77, 84, 65, 66, 76, 69, 1, 0, 0, 0, 2, 0, 0, 0, 3, 0, 0, 0, 0, 0, 0, 0, 0, 0, 0, 0, 0, 0, 0, 0, 66, 66, 66, 66, 36, 0, 0, 0, 1, 246, 79, 69, 77, 73, 68, 33, 79, 69, 77, 84, 65, 66, 76, 69, 1, 0, 0, 0, 2, 0, 0, 0, 3, 0, 0, 0, 0, 0, 0, 0, 0, 0, 0, 0, 0, 0, 0, 0]
def exMem : Mem := fun a => UInt8.ofNat (exBytes.getD a 0)

example : ¬ ValidRsdpAt exMem 0 ∧ ¬ ValidRsdpAt exMem 16 ∧ ValidRsdpAt exMem 32 := by decide
example : (List.range 8).map (fun i => rd exMem (0 + i)) = rsdPtrSignature := by decide
example : locateRSDT exMem 0 64 = .found 64 false := by decide
example : locateRSDT exMem 0 32 = .missing := by decide
example : tableOK exMem 64 = true ∧ 36 ≤ lenAt exMem 64 ∧ entries exMem 64 false = [112, 160] := by decide
example : tableOK exMem 112 = true ∧ tableOK exMem 160 = false := by decide
example : (enumerateTables exMem 64 false).2.tables = [(1094795585, 112)] ∧
    (enumerateTables exMem 64 false).2.skipped = [160] := by decide
example : ∀ a b, a ∈ considered exMem 64 false → b ∈ considered exMem 64 false →
    tableOK exMem a = true → tableOK exMem b = true → sigAt exMem a = sigAt exMem b → a = b := by
  have hc : considered exMem 64 false = [112, 160] := by decide
  have hb : tableOK exMem 160 = false := by decide
  rw [hc]
  intro a b ha hb' h1 h2 _
  simp only [List.mem_cons, List.not_mem_nil, or_false] at ha hb'
  rcases ha with rfl | rfl <;> rcases hb' with rfl | rfl <;> simp_all

end Firefly.C14
