import Firefly.Proof.VmmRzf
import Firefly.Proof.VmmMemUtil
import Firefly.Proof.VmmBoot
import Firefly.Gen.C06
/-!
# C06 — Copy-on-write faults get a private copy; the shared zero frame is never writable

"Once the virtual memory manager is initialised, the shared zero-filled frame can never be mapped
writable through the mapping interface. A page fault on a present, read-only page marked
copy-on-write gives that page a freshly allocated writable frame whose contents equal what the page
showed before, leaves the shared frame and every other page's mapping untouched, invalidates the
page's TLB entry and resumes. Every other page fault, and any failure while resolving a
copy-on-write fault, ends in a kernel panic and never resumes the faulting code."

Model: `Firefly.Vmm.pageFault`, `gpFault`, `reserveZeroedFrame`, the guards in `mapOp` /
`mapTemporary` (`Firefly/Model/Vmm.lean`); `.ok` = the handler returns (the faulting code resumes),
`.error (.panic _)` = kernel panic.
-/
namespace Firefly.C06
open Firefly.Vmm

/-- the model's constants (generated for C04) are the ones the code has now -/
theorem facts_current :
    Firefly.Gen.C06.flagPresent = Firefly.Gen.C04.flagPresent ∧ Firefly.Gen.C06.flagRW = Firefly.Gen.C04.flagRW ∧
    Firefly.Gen.C06.flagCopyOnWrite = Firefly.Gen.C04.flagCopyOnWrite ∧
    Firefly.Gen.C06.ptePhysPageMask = Firefly.Gen.C04.ptePhysPageMask ∧
    Firefly.Gen.C06.tempMappingAddr = Firefly.Gen.C04.tempMappingAddr ∧
    Firefly.Gen.C06.pdtVirtualAddr = Firefly.Gen.C04.pdtVirtualAddr ∧
    Firefly.Gen.C06.pageLevelShifts = Firefly.Gen.C04.pageLevelShifts ∧
    Firefly.Gen.C06.pageLevelBits = Firefly.Gen.C04.pageLevelBits ∧
    Firefly.Gen.C06.pageLevels = Firefly.Gen.C04.pageLevels ∧
    Firefly.Gen.C06.invalidFrame = Firefly.Gen.C04.invalidFrame := by decide

/-- the flag constants the fault handler and the guard test are the architectural / documented bits,
stated against literals (Present 0, RW 1, User 2, CopyOnWrite 9, NoExecute 63, frame field 12–51) -/
theorem flags_architectural :
    Firefly.Gen.C06.flagPresent = 2 ^ 0 ∧ Firefly.Gen.C06.flagRW = 2 ^ 1 ∧
    Firefly.Gen.C06.flagUserAccessible = 2 ^ 2 ∧ Firefly.Gen.C06.flagHugePage = 2 ^ 7 ∧
    Firefly.Gen.C06.flagGlobal = 2 ^ 8 ∧ Firefly.Gen.C06.flagCopyOnWrite = 2 ^ 9 ∧
    Firefly.Gen.C06.flagNoExecute = 2 ^ 63 ∧ Firefly.Gen.C06.ptePhysPageMask = 0x000ffffffffff000 := by decide

/-- **The guard, at every mapping entry point.** Once `protectReservedZeroedPage` is set, `Map` of
the zero frame with the RW flag, `MapTemporary` of the zero frame, and the page loop of `MapRegion` /
`IdentityMapRegion` starting at the zero frame with RW all return the error and change nothing —
for every page, every other flag and every state. -/
theorem zero_guard (st : St) (hp : st.protect = true) :
    (∀ page flags, (flags &&& fRW) ≠ 0 → mapOp st page st.zeroFrame flags = .ok (eRWZero, st)) ∧
    mapTemporary st st.zeroFrame = .ok ((eRWZero, 0), st) ∧
    (∀ n page flags, (flags &&& fRW) ≠ 0 → mapLoop flags (n + 1) page st.zeroFrame st = .ok (eRWZero, st)) :=
  ⟨fun page flags h => mapOp_guard st page flags hp h, mapTemporary_guard st hp,
    fun n page flags h => mapLoop_guard st n page flags hp h⟩

/-- word-level form for `Map` on a page whose upper levels exist: every word of memory the call changes
is an entry that is not a writable mapping of the zero frame (general case: `zero_never_rw`). -/
theorem zero_guard_one_word {st : St} {R T1 T2 T3 : W} (page frame flags : W) (hw : Window st R)
    (p : Path st.mem R (pageAddr page) T1 T2 T3) (hp : st.protect = true) (st' : St)
    (h : mapOp st page frame flags = .ok (0, st')) :
    ∀ F j, st'.mem.rd F j ≠ st.mem.rd F j →
      st'.mem.rd F j = mkEntry frame flags ∧ ¬(frame = st.zeroFrame ∧ (flags &&& fRW) ≠ 0) := by
  have hnz := mapOp_ok_not_zero_rw st page frame flags st' hp h
  have hg : (st.protect && frame == st.zeroFrame && (flags &&& fRW) != 0) = false := by
    cases hc : (st.protect && frame == st.zeroFrame && (flags &&& fRW) != 0)
    · rfl
    · simp only [Bool.and_eq_true, beq_iff_eq, bne_iff_ne] at hc
      exact absurd ⟨hc.1.2, hc.2⟩ hnz
  rw [mapOp_present page frame flags hw p hg] at h
  cases h
  intro F j hne
  simp only [St.flush, St.wrLoc, rd_wr] at hne ⊢
  by_cases hl : frameN T3 = F ∧ kidx (pageAddr page) 3 = j
  · simp only [hl, and_self, if_true]; exact ⟨trivial, hnz⟩
  · simp only [hl, if_false] at hne; exact absurd rfl hne

/-- **zero_never_rw — over whole histories.**  `ZInv st R own`: the active address space is well formed,
the guard is armed, and no page translates to the zero frame with the RW bit.  For every history of
`Map`, page loops of `MapRegion`/`IdentityMapRegion` (`maps`), `Unmap`, `MapTemporary` and page
faults (frames < 2^40, flags outside the frame field, pages outside the recursive slot) that runs to
completion, the invariant holds again at the end — in particular no page maps the zero frame
writable, whatever the order of requests, the allocator's behaviour and the entries present. -/
theorem zero_never_rw {R : W} (ops : List KOp) (st : St) (own : Own) (z : ZInv st R own) (hd : ∀ op ∈ ops, op.dom)
    (st' : St) (h : runKs st ops = .ok st') : ∃ own', ZInv st' R own' :=
  ZInv.history ops st own z hd st' h

/-- the same for `PageDirectoryTable.Map` on an address space that is not active: its pages never map
the zero frame writable either, and the active address space keeps all its entries. -/
theorem zero_never_rw_inactive {st : St} {A P : W} {ownA ownP : Own} (d : Dual st A P ownA ownP)
    (page frame flags : W) (hu : UserVA (pageAddr page)) (hfo : FrameOK frame) (hfl : FlagsOK flags)
    (harm : st.protect = true) (hzf : FrameOK st.zeroFrame)
    (hinv : ∀ va', UserVA va' → ∀ e, hwEntry st.mem (P <<< 12) va' = some e →
      ¬(e &&& hwMask = st.zeroFrame <<< 12 ∧ e &&& fRW ≠ 0#64)) :
    ∃ code st' ownP', pdtMap st P page frame flags = .ok (code, st') ∧ Dual st' A P ownA ownP' ∧
      st'.protect = true ∧ st'.zeroFrame = st.zeroFrame ∧
      (∀ va', UserVA va' → ∀ e, hwEntry st'.mem (P <<< 12) va' = some e →
        ¬(e &&& hwMask = st'.zeroFrame <<< 12 ∧ e &&& fRW ≠ 0#64)) ∧
      (∀ va', UserVA va' → hwEntry st'.mem (A <<< 12) va' = hwEntry st.mem (A <<< 12) va') :=
  pdtMap_keeps_zero_ro d page frame flags hu hfo hfl harm hzf hinv

/-- **shared_zero_sequence.**  Any number of pages whose entries point to the shared all-zero frame
`zf` (RAM outside tables and allocator), faulted in any order, every fault returning: each page gets
its own frame `cp a` from the allocator, all of whose words are zero; distinct pages get distinct
frames; each page's entry is its old entry with CoW cleared, Present|RW set and the new frame; the
shared frame is still all-zero and still outside tables and allocator (`ZSeq` again); pages that were
not faulted (other than the temporary page) keep their entries. -/
theorem shared_zero_sequence {R : W} {zf : Nat} (addrs : List W) (st : St) (own : Own) (z : ZSeq st R own zf)
    (hd : ∀ a ∈ addrs, UserVA (pg a) ∧ ¬SamePage (pg a) tempVA ∧
      ∃ e, hwEntry st.mem R (pg a) = some e ∧ frameN (e &&& hwMask) = zf)
    (hpw : addrs.Pairwise (fun a b => ¬SamePage (pg a) (pg b)))
    (st' : St) (h : runFaults st addrs = .ok st') :
    ∃ (own' : Own) (cp : W → W), ZSeq st' R own' zf ∧
      (∀ a ∈ addrs, cp a ∈ st.free ∧ cp a ∉ st'.free ∧
        (∀ i, st'.mem.rd (cp a).toNat i = 0#64) ∧
        ∃ e, hwEntry st.mem R (pg a) = some e ∧ hwEntry st'.mem R (pg a) = some (cowEntry e (cp a))) ∧
      (∀ a ∈ addrs, ∀ b ∈ addrs, ¬SamePage (pg a) (pg b) → (cp a).toNat ≠ (cp b).toNat) ∧
      (∀ va', UserVA va' → (∀ a ∈ addrs, ¬SamePage va' (pg a)) → ¬SamePage va' tempVA →
        hwEntry st'.mem R va' = hwEntry st.mem R va') := by
  obtain ⟨own', cp, z', _, _, _, hcp, hdist, _, has⟩ := Firefly.Vmm.shared_zero_sequence addrs st own z hd hpw st' h
  refine ⟨own', cp, z', fun a ha => ?_, hdist, has⟩
  obtain ⟨c1, c2, _, c4, c5⟩ := hcp a ha
  exact ⟨c1, c2, c4, c5⟩

/-- **reserve_zeroed_frame — arming the guard.**  On a well-formed active address space whose guard is
not armed yet: either the allocator fails (error returned, guard still not armed), or the first
allocated frame `f` becomes `ReservedZeroedFrame`, all its words are zero, the guard is armed, the
address space is unchanged except that the temporary page ends unmapped, and the invariants of
`zero_never_rw` (`ZInv`, provided no page mapped `f` before) and of `shared_zero_sequence` (`ZSeq`)
hold. -/
theorem reserve_zeroed_frame {st : St} {R : W} {own : Own} (g : Good st R own) (hA : st.cr3 &&& hwMask = R)
    (htf : st.tmpFail = false) (hprot : st.protect = false) {f : W} {rest : List W} (hf : st.free = f :: rest)
    (hunmapped : ∀ va', UserVA va' → ∀ e, hwEntry st.mem R va' = some e → e &&& hwMask ≠ f <<< 12) :
    ∃ code st', reserveZeroedFrame st = .ok (code, st') ∧
      ((code = eAlloc ∧ st'.protect = false) ∨
       (code = 0 ∧ st'.protect = true ∧ st'.zeroFrame = f ∧
        ∃ own', ZSeq st' R own' f.toNat ∧ ZInv st' R own' ∧
          ∀ va', UserVA va' → hwEntry st'.mem R va' =
            if SamePage va' tempVA then none else hwEntry st.mem R va')) :=
  rzf_full g hA htf hprot hf hunmapped

/-- **copyFrame_eq_memcopy.** The model's "frame `fd` := contents of frame `fs`" step — what
`cow_private_copy`'s "the new frame holds what the page showed" rests on — *is*
`Memcopy(fs·4096, fd·4096, 4096)` as written (`Model/MemUtil.lean`; `memcopy_copies` in C04 states what
that function does), applied to the byte view of the model's memory: the two memories agree on every
byte. -/
theorem copyFrame_eq_memcopy (m : Mem) (fs fd : Nat) (pa : Nat) :
    Firefly.MemUtil.memcopy (byteView m) (fs * 4096) (fd * 4096) 4096#64 pa =
      byteView (m.setFrame fd (fun i => m.rd fs i)) pa :=
  Firefly.Vmm.copyFrame_eq_memcopy m fs fd pa

/-- `Memcopy` copies (restated here because C06's "contents equal" clause depends on it) -/
theorem memcopy_copies (mem : Firefly.MemUtil.Bytes) (src dst : Nat) (size : BitVec 64) (i : Nat) :
    Firefly.MemUtil.memcopy mem src dst size i =
      if dst ≤ i ∧ i < dst + size.toNat then mem (src + (i - dst)) else mem i :=
  Firefly.MemUtil.memcopy_copies_core mem src dst size i

/-- **Every other page fault panics.** If the handler returns at all, the walk found a leaf entry
that is present, read-only and copy-on-write, a frame was available and the temporary mapping was
not refused; contrapositive: any other entry state (missing at any level, writable, not CoW), an
empty allocator or a refused temporary mapping never resumes the faulting code — the only other
outcomes of the model are `panic` and the simulated MMU fault. For every state, address, error code. -/
theorem otherwise_panics (st : St) (addr : W) (st' : St) (h : pageFault st addr = .ok ((), st')) :
    ∃ loc, walk faultCb (pageAddr (pageOf addr)) none st = .ok (some loc, st) ∧
      hasFlags (st.rdLoc loc) fPresent = true ∧ hasFlags (st.rdLoc loc) fRW = false ∧
      hasFlags (st.rdLoc loc) fCoW = true ∧ st.free ≠ [] ∧ st.tmpFail = false :=
  pageFault_ok_inv st addr st' h

/-- The recovered fault word by word, when the tables of the temporary-mapping page already exist
(the general case is `cow_private_copy`), for every state, address, entry flags and frame contents: the handler returns; the
allocator's frame `copy` is consumed; `copy` holds exactly the old frame's 512 words; the leaf entry
becomes `cowEntry e copy` (= `e` with CoW cleared, Present|RW set, frame field `copy`); the old
(shared) frame's contents are untouched; every word of memory other than frame `copy`, the page's
leaf entry and the temporary page's leaf entry is unchanged, and the temporary page's entry is left
non-present; flushes: temporary page (map), temporary page (unmap), the faulting page. -/
theorem cow_present_exact {st : St} {R T1 T2 T3 U1 U2 U3 : W} (addr : W)
    (hA : st.cr3 &&& hwMask = R) (hw : Window st R)
    (pf : Path st.mem R (pageAddr (pageOf addr)) T1 T2 T3)
    (pt : Path st.mem R tempVA U1 U2 U3)
    (hpres : st.mem.rd (frameN T3) (kidx (pageAddr (pageOf addr)) 3) &&& 1#64 ≠ 0#64)
    (hrw : hasFlags (st.mem.rd (frameN T3) (kidx (pageAddr (pageOf addr)) 3)) fRW = false)
    (hcow : hasFlags (st.mem.rd (frameN T3) (kidx (pageAddr (pageOf addr)) 3)) fCoW = true)
    (hold : st.mem.backed (frameN (st.mem.rd (frameN T3) (kidx (pageAddr (pageOf addr)) 3) &&& hwMask)) = true)
    {copy : W} {rest : List W} (hf : st.free = copy :: rest) (hco : FrameOK copy)
    (hcb : st.mem.backed copy.toNat = true) (htf : st.tmpFail = false)
    (hz : (st.protect && copy == st.zeroFrame) = false)
    (hc : copy.toNat ≠ frameN R ∧ copy.toNat ≠ frameN T1 ∧ copy.toNat ≠ frameN T2 ∧ copy.toNat ≠ frameN T3 ∧
      copy.toNat ≠ frameN U1 ∧ copy.toNat ≠ frameN U2 ∧ copy.toNat ≠ frameN U3)
    (hu : frameN U3 ≠ frameN R ∧ frameN U3 ≠ frameN U1 ∧ frameN U3 ≠ frameN U2 ∧ frameN U3 ≠ frameN T1 ∧
      frameN U3 ≠ frameN T2 ∧ ¬(frameN U3 = frameN T3 ∧ kidx tempVA 3 = kidx (pageAddr (pageOf addr)) 3) ∧
      frameN U3 ≠ frameN (st.mem.rd (frameN T3) (kidx (pageAddr (pageOf addr)) 3) &&& hwMask))
    (ho : copy.toNat ≠ frameN (st.mem.rd (frameN T3) (kidx (pageAddr (pageOf addr)) 3) &&& hwMask) ∧
      frameN T3 ≠ frameN (st.mem.rd (frameN T3) (kidx (pageAddr (pageOf addr)) 3) &&& hwMask)) :
    let e := st.mem.rd (frameN T3) (kidx (pageAddr (pageOf addr)) 3)
    let old := frameN (e &&& hwMask)
    ∃ st', pageFault st addr = .ok ((), st') ∧ st'.free = rest ∧
      (∀ i, st'.mem.rd copy.toNat i = st.mem.rd old i) ∧
      st'.mem.rd (frameN T3) (kidx (pageAddr (pageOf addr)) 3) = cowEntry e copy ∧
      cowEntry e copy &&& hwMask = copy <<< 12 ∧
      (∀ i, st'.mem.rd old i = st.mem.rd old i) ∧
      (∀ F j, F ≠ copy.toNat → ¬(F = frameN U3 ∧ j = kidx tempVA 3) →
        ¬(F = frameN T3 ∧ j = kidx (pageAddr (pageOf addr)) 3) → st'.mem.rd F j = st.mem.rd F j) ∧
      st'.mem.rd (frameN U3) (kidx tempVA 3) &&& 1#64 = 0#64 ∧
      st'.flushes = st.flushes ++ [tempVA, tempVA, pageAddr (pageOf addr)] := by
  intro e old
  have h := pageFault_cow addr hA hw pf pt hpres hrw hcow hold hf hco hcb htf hz hc hu
  refine ⟨_, h, rfl, ?_, ?_, ?_, ?_, ?_, ?_, rfl⟩
  · intro i
    have h1 : ¬(frameN T3 = copy.toNat ∧ kidx (pageAddr (pageOf addr)) 3 = i) := fun hh => hc.2.2.2.1 hh.1.symm
    have h2 : ¬(frameN U3 = copy.toNat ∧ kidx tempVA 3 = i) := fun hh => hc.2.2.2.2.2.2 hh.1.symm
    simp [cowState, rd_wr, rd_setFrame, h1, h2]; rfl
  · simp [cowState, rd_wr]; rfl
  · exact setFrame_frame _ hco
  · intro i
    have h1 : ¬(frameN T3 = old ∧ kidx (pageAddr (pageOf addr)) 3 = i) := fun hh => ho.2 hh.1
    have h2 : ¬(frameN U3 = old ∧ kidx tempVA 3 = i) := fun hh => hu.2.2.2.2.2.2 hh.1
    have h3 : ¬ copy.toNat = old := ho.1
    simp [cowState, rd_wr, rd_setFrame, h1, h2, h3]
  · intro F j hF hU hT
    have h1 : ¬(frameN T3 = F ∧ kidx (pageAddr (pageOf addr)) 3 = j) := fun hh => hT ⟨hh.1.symm, hh.2.symm⟩
    have h2 : ¬(frameN U3 = F ∧ kidx tempVA 3 = j) := fun hh => hU ⟨hh.1.symm, hh.2.symm⟩
    have h3 : ¬ copy.toNat = F := fun hh => hF hh.symm
    simp [cowState, rd_wr, rd_setFrame, h1, h2, h3]
  · have h1 : ¬(frameN T3 = frameN U3 ∧ kidx (pageAddr (pageOf addr)) 3 = kidx tempVA 3) :=
      fun hh => hu.2.2.2.2.2.1 ⟨hh.1.symm, hh.2.symm⟩
    simp only [cowState, rd_wr, h1, if_false, and_self, if_true]
    have : fPresent = 1#64 := by decide
    rw [clearFlags, this, BitVec.and_assoc]
    have : ~~~1#64 &&& 1#64 = 0#64 := by decide
    rw [this]; simp

/-- **cow_private_copy — the copy-on-write fault, every case.**  Well-formed active address space
(`Good`, CR3 = its root); the faulting page (outside the recursive slot, not the temporary page) has a
present, read-only, copy-on-write entry `e`; the allocator's next frame is `copy`; the temporary
mapping is not refused (`tmpFail`, zero-frame guard).  Then — whether or not the temporary page's
tables exist yet — the handler either panics because the allocator ran out while creating those
tables, or returns, and then (`CowPost`): the page's entry is `e − CoW + Present|RW` with frame
`copy`, the temporary page is unmapped, *every other page's entry is unchanged*; if the page's old
frame is RAM outside the tables and the allocator, `copy` holds exactly its 512 words and the old
(shared) frame is untouched; memory outside the page tables and `copy` is untouched; flushes are
temp, temp, page; the address space is well formed again. -/
theorem cow_private_copy {st : St} {R : W} {own : Own} (g : Good st R own) (hA : st.cr3 &&& hwMask = R) (addr : W)
    (hu : UserVA (pageAddr (pageOf addr))) (hnt : ¬SamePage (pageAddr (pageOf addr)) tempVA)
    {e : W} (he : hwEntry st.mem R (pageAddr (pageOf addr)) = some e)
    (hrw : hasFlags e fRW = false) (hcow : hasFlags e fCoW = true)
    {copy : W} {rest : List W} (hf : st.free = copy :: rest) (htf : st.tmpFail = false)
    (hz : (st.protect && copy == st.zeroFrame) = false) :
    pageFault st addr = .error (.panic (200 + eAlloc)) ∨
    ∃ st' own', pageFault st addr = .ok ((), st') ∧
      CowPost st st' R own own' (pageAddr (pageOf addr)) e copy rest :=
  pageFault_full g hA addr hu hnt he hrw hcow hf htf hz

/-- the general-protection-fault handler always panics -/
theorem gpf_panics (st : St) : ∃ c, gpFault st = .error (.panic c) := ⟨_, gpFault_panics st⟩

/-! non-vacuity: the armed boot state satisfies the invariant `ZInv` (and `ZSeq` for zero frame 6);
a state with the guard armed; a recoverable fault that returns -/

/-- boot state after `reserveZeroedFrame`: guard armed, zero frame = frame 6 -/
def zbootSt : St := { bootSt with protect := true, zeroFrame := 6#64 }

private theorem zboot_good : Good zbootSt 0x1000#64 bootOwn :=
  ⟨⟨boot_good.win.top, boot_good.win.self⟩, boot_good.owned, boot_good.act, boot_good.free, boot_good.nodup⟩

example : ZInv zbootSt 0x1000#64 bootOwn :=
  ⟨zboot_good, by decide, rfl, by unfold FrameOK; decide,
    fun va' hu' e he => by rw [show zbootSt.mem = bootSt.mem from rfl, boot_empty va' hu'] at he; cases he⟩

example : ZSeq zbootSt 0x1000#64 bootOwn 6 :=
  ⟨zboot_good, by decide, by decide, by simp [bootOwn], by
    intro f hf
    simp only [zbootSt, bootSt, List.mem_cons, List.not_mem_nil, or_false] at hf
    rcases hf with rfl | rfl | rfl | rfl <;> decide,
   fun i => by simp [zbootSt, bootSt, Mem.rd, rdLog]⟩

/-- root 1 (511→1, 0→2, 510→6); 2[0]→3, 3[0]→4, 4[0] = frame 5 Present|CoW; 6[511]→7, 7[511]→8;
frame 5 holds data; the allocator will hand out frame 9 -/
def exCow : St :=
  { mem := { base := 0, n := 16,
             log := [.word 1 511 0x1003#64, .word 1 0 0x2003#64, .word 2 0 0x3003#64, .word 3 0 0x4003#64,
                     .word 4 0 0x5201#64, .word 1 510 0x6003#64, .word 6 511 0x7003#64, .word 7 511 0x8003#64,
                     .word 5 3 0xabcd#64] },
    cr3 := 0x1000#64, free := [9#64] }

example : (pageFault exCow 0x18#64).toOption.map (fun r => (r.2.mem.rd 4 0, r.2.mem.rd 9 3, r.2.free)) =
    some (0x9003#64, 0xabcd#64, []) := by decide
example : (match pageFault { exCow with free := [] } 0x18#64 with | .error (.panic 204) => true | _ => false) = true := by decide
example : ∃ st : St, st.protect = true ∧ (3#64 &&& fRW) ≠ 0 :=
  ⟨{ mem := { base := 0, n := 0, log := [] }, cr3 := 0, protect := true }, rfl, by decide⟩

end Firefly.C06
