import Firefly.Proof.VmmFault
import Firefly.Gen.C06
/-!
# C06 — Copy-on-write faults get a private copy; the shared zero frame is never writable

"Once the virtual memory manager is initialised, the shared zero-filled frame can never be mapped
writable through the mapping interface. A page fault on a present, read-only page marked
copy-on-write gives that page a freshly allocated writable frame whose contents equal what the page
showed before, leaves the shared frame and every other page's mapping untouched, invalidates the
page's TLB entry and resumes. Every other page fault, and any failure while resolving a
copy-on-write fault, ends in a kernel panic and never resumes the faulting code."

Model: `Firefly.Vmm.pageFault`, `gpFault`, `reserveZeroedFrame`, the guards in `mapOp` /
`mapTemporary` (`Firefly/Model/Vmm.lean`); `.ok` = the handler returns (the faulting code resumes),
`.error (.panic _)` = kernel panic.
-/
namespace Firefly.C06
open Firefly.Vmm

/-- the model's constants (generated for C04) are the ones the code has now -/
theorem facts_current :
    Firefly.Gen.C06.flagPresent = Firefly.Gen.C04.flagPresent ∧ Firefly.Gen.C06.flagRW = Firefly.Gen.C04.flagRW ∧
    Firefly.Gen.C06.flagCopyOnWrite = Firefly.Gen.C04.flagCopyOnWrite ∧
    Firefly.Gen.C06.ptePhysPageMask = Firefly.Gen.C04.ptePhysPageMask ∧
    Firefly.Gen.C06.tempMappingAddr = Firefly.Gen.C04.tempMappingAddr ∧
    Firefly.Gen.C06.pdtVirtualAddr = Firefly.Gen.C04.pdtVirtualAddr ∧
    Firefly.Gen.C06.pageLevelShifts = Firefly.Gen.C04.pageLevelShifts ∧
    Firefly.Gen.C06.pageLevelBits = Firefly.Gen.C04.pageLevelBits ∧
    Firefly.Gen.C06.pageLevels = Firefly.Gen.C04.pageLevels ∧
    Firefly.Gen.C06.invalidFrame = Firefly.Gen.C04.invalidFrame := by decide

/-- **The guard, at every mapping entry point.** Once `protectReservedZeroedPage` is set, `Map` of
the zero frame with the RW flag, `MapTemporary` of the zero frame, and the page loop of `MapRegion` /
`IdentityMapRegion` starting at the zero frame with RW all return the error and change nothing —
for every page, every other flag and every state. -/
theorem zero_guard (st : St) (hp : st.protect = true) :
    (∀ page flags, (flags &&& fRW) ≠ 0 → mapOp st page st.zeroFrame flags = .ok (eRWZero, st)) ∧
    mapTemporary st st.zeroFrame = .ok ((eRWZero, 0), st) ∧
    (∀ n page flags, (flags &&& fRW) ≠ 0 → mapLoop flags (n + 1) page st.zeroFrame st = .ok (eRWZero, st)) :=
  ⟨fun page flags h => mapOp_guard st page flags hp h, mapTemporary_guard st hp,
    fun n page flags h => mapLoop_guard st n page flags hp h⟩

/-- Full statement of `zero_never_rw`: over every history of `Map`, `MapTemporary`,
`PageDirectoryTable.Map`, `MapRegion`, `IdentityMapRegion` and faults after initialisation, no page
of any address space translates to the zero frame with RW.

**Proved here (`_partial`)**: one step of that invariant for `Map` on a page whose upper levels
exist — every word of memory the call changes is an entry that is *not* a writable mapping of the
zero frame (the call changes one word, to `frame<<12 | flags`, and the guard excludes
`frame = zeroFrame ∧ RW`).  New levels and the induction over histories: correspondence + the
oracle clause `zero-never-rw`, evaluated after every operation on every address space. -/
theorem zero_never_rw_partial {st : St} {R T1 T2 T3 : W} (page frame flags : W) (hw : Window st R)
    (p : Path st.mem R (pageAddr page) T1 T2 T3) (hp : st.protect = true) (st' : St)
    (h : mapOp st page frame flags = .ok (0, st')) :
    ∀ F j, st'.mem.rd F j ≠ st.mem.rd F j →
      st'.mem.rd F j = mkEntry frame flags ∧ ¬(frame = st.zeroFrame ∧ (flags &&& fRW) ≠ 0) := by
  have hnz := mapOp_ok_not_zero_rw st page frame flags st' hp h
  have hg : (st.protect && frame == st.zeroFrame && (flags &&& fRW) != 0) = false := by
    cases hc : (st.protect && frame == st.zeroFrame && (flags &&& fRW) != 0)
    · rfl
    · simp only [Bool.and_eq_true, beq_iff_eq, bne_iff_ne] at hc
      exact absurd ⟨hc.1.2, hc.2⟩ hnz
  rw [mapOp_present page frame flags hw p hg] at h
  cases h
  intro F j hne
  simp only [St.flush, St.wrLoc, rd_wr] at hne ⊢
  by_cases hl : frameN T3 = F ∧ kidx (pageAddr page) 3 = j
  · simp only [hl, and_self, if_true]; exact ⟨trivial, hnz⟩
  · simp only [hl, if_false] at hne; exact absurd rfl hne

/-- **Every other page fault panics.** If the handler returns at all, the walk found a leaf entry
that is present, read-only and copy-on-write, a frame was available and the temporary mapping was
not refused; contrapositive: any other entry state (missing at any level, writable, not CoW), an
empty allocator or a refused temporary mapping never resumes the faulting code — the only other
outcomes of the model are `panic` and the simulated MMU fault. For every state, address, error code. -/
theorem otherwise_panics (st : St) (addr : W) (st' : St) (h : pageFault st addr = .ok ((), st')) :
    ∃ loc, walk faultCb (pageAddr (pageOf addr)) none st = .ok (some loc, st) ∧
      hasFlags (st.rdLoc loc) fPresent = true ∧ hasFlags (st.rdLoc loc) fRW = false ∧
      hasFlags (st.rdLoc loc) fCoW = true ∧ st.free ≠ [] ∧ st.tmpFail = false :=
  pageFault_ok_inv st addr st' h

/-- the general-protection-fault handler always panics -/
theorem gpf_panics (st : St) : ∃ c, gpFault st = .error (.panic c) := ⟨_, gpFault_panics st⟩

/-! non-vacuity: a state with the guard armed; a recoverable fault that returns -/
example : ∃ st : St, st.protect = true ∧ (3#64 &&& fRW) ≠ 0 :=
  ⟨{ mem := { base := 0, n := 0, log := [] }, cr3 := 0, protect := true }, rfl, by decide⟩

end Firefly.C06
