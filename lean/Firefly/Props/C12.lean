import Firefly.Proof.AmlLex
import Firefly.Model.AmlParser
/-!
# C12 — Malformed AML is rejected with an error, never a crash, hang or stray pointer

"For every byte sequence presented as an AML table, parsing terminates within a bound
proportional to the input and either succeeds or returns its parse error; it never panics,
overflows the stack or loops forever. Every string, name and buffer the resulting tree refers
to lies inside the table's bytes, and the tree remains a well-formed tree that can be traversed
and printed."

Every theorem quantifies over **all** tables `d : Array UInt8` (header included) and all reader
states inside the table.  What is proved here is the lexical layer (stream reader + every decoder
the parser is built from) and the sanity of the generated opcode tables; the statements about the
whole multi-pass parser (`parseAML`) are carried by the correspondence + mutational run of
`./check C12` and are named below as what is *not* closed.
-/
namespace Firefly.C12
open Firefly.AmlLex Firefly.AmlTree Firefly.Gen.C12

/-- **Reader invariant.** `offset ≤ len ∧ pkgEnd ≤ len` is preserved by every reader operation and
every lexical decoder, for every table, every argument and every reader state, and none of them
can end in `.panic` (a Go index panic) or `.outOfFuel` (`Safe` = returns normally ∧ keeps `Inv`). -/
theorem reader_inv (d : Bytes) :
    (∀ e, Safe d (setPkgEnd d e)) ∧ Safe d (readByte d) ∧ Safe d (peekByte d) ∧ Safe d unreadByte ∧
    Safe d (dataPtr d) ∧ (∀ off, Safe d (setOffset d off)) ∧
    Safe d (parsePkgLength d) ∧ (∀ n, Safe d (parseNumConstant d n)) ∧ Safe d (parseString d) ∧
    Safe d (parseNameString d) ∧ Safe d (nextOpcode d) ∧ Safe d (peekNextOpcode d) ∧
    (∀ n, Safe d (parseByteListRaw d n)) :=
  ⟨safe_setPkgEnd d, safe_readByte d, safe_peekByte d, safe_unreadByte d, safe_dataPtr d, safe_setOffset d,
   safe_parsePkgLength d, safe_parseNumConstant d, safe_parseString d, safe_parseNameString d,
   safe_nextOpcode d, safe_peekNextOpcode d, safe_parseByteListRaw d⟩

/-- the initial reader of `ParseAML` (`Init(header, header.Length, sizeof(SDTHeader))`) is inside
the table, whatever the table length (also shorter than a header) -/
theorem init_inv (d : Bytes) (off : Nat) : Inv d (Reader.init d off) := by
  constructor
  · show (if off > d.size then d.size else off) ≤ d.size
    split <;> omega
  · exact Nat.le_refl _

example : Inv (#[1, 2, 3] : Bytes) (Reader.init #[1, 2, 3] 36) := init_inv _ _

end Firefly.C12
