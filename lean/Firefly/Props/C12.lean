import Firefly.Proof.AmlLex
import Firefly.Proof.AmlParser
import Firefly.Model.AmlParser
import Firefly.Proof.AmlFirstPass
import Firefly.Proof.AmlPasses
import Firefly.Proof.AmlFirstPassG
import Firefly.Proof.AmlMerge
import Firefly.Proof.AmlPrint
import Firefly.Proof.AmlStrict
import Firefly.Proof.AmlStrictTot
import Firefly.Proof.AmlFirstShapes
import Firefly.Proof.AmlPrefixBlock
/-!
# C12 — Malformed AML is rejected with an error, never a crash, hang or stray pointer

"For every byte sequence presented as an AML table, parsing terminates within a bound
proportional to the input and either succeeds or returns its parse error; it never panics,
overflows the stack or loops forever. Every string, name and buffer the resulting tree refers
to lies inside the table's bytes, and the tree remains a well-formed tree that can be traversed
and printed."

Every theorem quantifies over **all** tables `d : Array UInt8` (header included) and all reader
states inside the table.  What is proved here is the lexical layer (stream reader + every decoder
the parser is built from) and the sanity of the generated opcode tables; the statements about the
whole multi-pass parser (`parseAML`) are carried by the correspondence + mutational run of
`./check C12` and are named below as what is *not* closed.
-/
namespace Firefly.C12
open Firefly.AmlLex Firefly.AmlTree Firefly.Gen.C12

/-- **Reader invariant.** `offset ≤ len ∧ pkgEnd ≤ len` is preserved by every reader operation and
every lexical decoder, for every table, every argument and every reader state, and none of them
can end in `.panic` (a Go index panic) or `.outOfFuel` (`Safe` = returns normally ∧ keeps `Inv`). -/
theorem reader_inv (d : Bytes) :
    (∀ e, Safe d (setPkgEnd d e)) ∧ Safe d (readByte d) ∧ Safe d (peekByte d) ∧ Safe d unreadByte ∧
    Safe d (dataPtr d) ∧ (∀ off, Safe d (setOffset d off)) ∧
    Safe d (parsePkgLength d) ∧ (∀ n, Safe d (parseNumConstant d n)) ∧ Safe d (parseString d) ∧
    Safe d (parseNameString d) ∧ Safe d (nextOpcode d) ∧ Safe d (peekNextOpcode d) ∧
    (∀ n, Safe d (parseByteListRaw d n)) :=
  ⟨safe_setPkgEnd d, safe_readByte d, safe_peekByte d, safe_unreadByte d, safe_dataPtr d, safe_setOffset d,
   safe_parsePkgLength d, safe_parseNumConstant d, safe_parseString d, safe_parseNameString d,
   safe_nextOpcode d, safe_peekNextOpcode d, safe_parseByteListRaw d⟩

/-- the initial reader of `ParseAML` (`Init(header, header.Length, sizeof(SDTHeader))`) is inside
the table, whatever the table length (also shorter than a header) -/
theorem init_inv (d : Bytes) (off : Nat) : Inv d (Reader.init d off) := by
  constructor
  · show (if off > d.size then d.size else off) ≤ d.size
    split <;> omega
  · exact Nat.le_refl _

example : Inv (#[1, 2, 3] : Bytes) (Reader.init #[1, 2, 3] 36) := init_inv _ _


/-- **Every byte read lies below `pkgEnd`** (and so inside the table): the two primitives through
which the decoders touch the table return a byte only when `offset < pkgEnd`, and it is
`d[offset]`. (All decoders are compositions of these primitives; none indexes `d` itself.) -/
theorem reads_below_pkgEnd (d : Bytes) (r r' : Reader) (b : UInt8) :
    (readByte d r = .ok (some b, r') → r.offset < r.pkgEnd ∧ d[r.offset]? = some b ∧ r' = { r with offset := r.offset + 1 }) ∧
    (peekByte d r = .ok (some b, r') → r.offset < r.pkgEnd ∧ d[r.offset]? = some b ∧ r' = r) := by
  constructor
  · unfold readByte
    split
    · intro h; cases h
    · rename_i he
      split
      · rename_i b' hb
        intro h
        simp only [pure, Except.pure, Except.ok.injEq, Prod.mk.injEq, Option.some.injEq] at h
        obtain ⟨h1, h2⟩ := h
        subst h1; subst h2
        exact ⟨by simpa [Reader.eof] using he, hb, rfl⟩
      · intro h; cases h
  · unfold peekByte
    split
    · intro h; cases h
    · rename_i he
      split
      · rename_i b' hb
        intro h
        simp only [pure, Except.pure, Except.ok.injEq, Prod.mk.injEq, Option.some.injEq] at h
        obtain ⟨h1, h2⟩ := h
        subst h1; subst h2
        exact ⟨by simpa [Reader.eof] using he, hb, rfl⟩
      · intro h; cases h

/-- table sizes for which no `uint32` offset computation of the decoders can wrap
(`offset + 4*segCount` with `segCount ≤ 255`): tables shorter than 4 GiB − 1 KiB -/
def SizeOk (d : Bytes) : Prop := d.size + 1024 ≤ 4294967296

instance (d : Bytes) : Decidable (SizeOk d) := by unfold SizeOk; exact inferInstance

example : SizeOk (#[0x5b, 0x82] : Bytes) := by decide

/-- **Returned slices lie inside the table — lexical layer** (the decoders `slices_in_table` builds on): from every reader
state inside the table, the `[]byte` built by `parseString`, by `parseNameString` and by
`parseByteList` (for the two lengths the parser passes: `pkgEnd-offset` for a ByteList argument, and a
declared Connection-buffer length that was checked against `pkgEnd`) starts and ends inside `d`;
a successful `parseNameString` returns a slice that starts where the name started. -/
theorem lex_slices_in_table (d : Bytes) (hd : SizeOk d) (r : Reader) (h : Inv d r) :
    wp (parseString d) (fun a r' => Inv d r' ∧ SliceIn d a.1) r ∧
    wp (parseNameString d) (fun a r' => Inv d r' ∧ SliceIn d a.1 ∧ (a.2 = .ok → a.1.data = some r.offset)) r ∧
    (∀ n, r.offset + n ≤ r.pkgEnd → wp (parseByteListRaw d n) (fun sl r' => Inv d r' ∧ SliceIn d sl) r) ∧
    wp (parseByteListRaw d (u32 (r.pkgEnd + 4294967296 - r.offset))) (fun sl r' => Inv d r' ∧ SliceIn d sl) r :=
  ⟨parseString_slice d r h, parseNameString_slice d hd r h,
   fun n hn => parseByteListRaw_slice d n r h (Or.inr hn),
   parseByteListRaw_slice d _ r h (byteListArg_fits d (by unfold SizeOk at hd; omega) r h)⟩

/-- what the parser stores: a value made from an in-table slice is in-table (a nil-data slice is
stored as the empty slice, `runtime.convTslice`), and trimming a stored name to its last
segment (`relocateNamedObjects`: `namepath[nameIndex:]`) keeps it in-table -/
theorem stored_values (d : Bytes) :
    (∀ s : Slice, SliceIn d s → ∀ off len, AmlParser.sliceVal s = .bytes off len → off + len ≤ d.size) ∧
    (∀ off len k, off + len ≤ d.size → k ≤ len → (off + k) + (len - k) ≤ d.size) := by
  constructor
  · intro s hs off len hv
    unfold AmlParser.sliceVal at hv
    split at hv
    · simp only [Val.bytes.injEq] at hv; omega
    · rename_i o ho
      simp only [Val.bytes.injEq] at hv
      have := hs o ho
      omega
  · intro off len k h hk; omega

/-- executable form of the table checks (evaluated by the kernel in `opcode_table_sane`) -/
def tableChecks : Bool :=
  ((List.range 256).all fun op => opcodeMap.getD op 0 == badOpcode ||
      (opcodeTable[opcodeMap.getD op 0]?).map (·.1) == some op) &&
  ((List.range 256).all fun b => extendedOpcodeMap.getD b 0 == badOpcode ||
      (opcodeTable[extendedOpcodeMap.getD b 0]?).map (·.1) == some (0xff + b)) &&
  ((List.range 0x1ff).map fun op => pOpcodeTableIndex op false) == tableIndexStrict.toList &&
  ((List.range 0x1ff).map fun op => pOpcodeTableIndex op true) == tableIndexInternal.toList &&
  ((List.range 8).all fun i => (opcodeTable[pOpcodeTableIndex (0x1f6 + i) true]?).map (·.1) == some (0x1f6 + i)) &&
  (opcodeTable.toList.all fun e => e.2.2.2.1 ≤ 7 && e.2.2.2.1 == (e.2.2.2.2.takeWhile (· ≠ 0)).length)

set_option maxRecDepth 100000 in
/-- **Generated opcode tables are sane** (facts printed by the compiled Go code on this run):
every map entry is `badOpcode` or indexes inside the table and the row it names carries that opcode;
the model's `pOpcodeTableIndex` (with the internal-opcode formula) agrees with the compiled function
on every opcode value `0 … 0x1fe`, in both modes; the eight internal opcodes land on their own
rows; `argCount()` is the number of leading non-zero argument nibbles and at most 7; table opcodes
are distinct. -/
theorem opcode_table_sane : tableChecks = true ∧ (opcodeTable.toList.map (·.1)).Nodup :=
  ⟨by decide +kernel, by decide +kernel⟩

/-- **Totality, lexical part** (`C12.total` restricted to the functions listed): for every table and
every reader state inside it, `setPkgEnd`, `readByte`, `peekByte`, `unreadByte`, `dataPtr`,
`setOffset`, `parsePkgLength`, `parseNumConstant n`, `parseString`, `parseNameString`, `nextOpcode`,
`peekNextOpcode`, `parseByteList` return normally — never `.panic`, never `.outOfFuel` — where the two
loops (`parseString`, the prefix loop of `parseNameString`) run on fuel `len + 1`, linear in the input.
NOT covered (carried by the correspondence + mutational run only): the parser passes of
`parseAML` (`parseObjectList` … `connectNonNamedObjArgs`), whose `.panic`/`.outOfFuel` freedom needs the
object-tree invariant of C13 threaded through all passes. -/
theorem total_partial (d : Bytes) (r : Reader) (h : Inv d r) :
    (∀ n, ∃ a r', parseNumConstant d n r = .ok (a, r')) ∧ (∃ a r', parsePkgLength d r = .ok (a, r')) ∧
    (∃ a r', parseString d r = .ok (a, r')) ∧ (∃ a r', parseNameString d r = .ok (a, r')) ∧
    (∃ a r', nextOpcode d r = .ok (a, r')) ∧ (∃ a r', peekNextOpcode d r = .ok (a, r')) ∧
    (∀ n, ∃ a r', parseByteListRaw d n r = .ok (a, r')) := by
  have f : ∀ {α} {x : LexM α}, Safe d x → ∃ a r', x r = .ok (a, r') :=
    fun hx => let ⟨a, r', e, _⟩ := hx.run r h; ⟨a, r', e⟩
  exact ⟨fun n => f (safe_parseNumConstant d n), f (safe_parsePkgLength d), f (safe_parseString d),
    f (safe_parseNameString d), f (safe_nextOpcode d), f (safe_peekNextOpcode d),
    fun n => f (safe_parseByteListRaw d n)⟩

/-- the invariant the staged theorems below are about: reader window inside the table and every
`[]byte` value in the object pool inside the table (spelled out; `AmlParser.PInv` in the proofs) -/
def ParserInv (d : Bytes) (s : AmlParser.PState) : Prop :=
  (s.r.offset ≤ d.size ∧ s.r.pkgEnd ≤ d.size) ∧
  ∀ (i : Nat) (o : Obj), s.tree.pool[i]? = some o → ∀ off len, o.value = .bytes off len → off + len ≤ d.size

theorem parserInv_iff (d : Bytes) (s : AmlParser.PState) : ParserInv d s ↔ AmlParser.PInv d s := by
  constructor
  · intro h
    refine ⟨h.1, ?_⟩
    intro i o ho
    cases hv : o.value with
    | bytes off len => exact h.2 i o ho off len hv
    | _ => trivial
  · intro h
    refine ⟨h.1, ?_⟩
    intro i o ho off len hv
    have := h.2 i o ho
    rw [hv] at this; exact this

/-- **Stage (a), first pass** — `parseObjectList` and everything it calls (`parseNextObject`,
`parseObjectArgs`, `parseArgs`, `parseArg`, `parseSimpleArg`, `parseByteList`, `parseFieldElements`,
`parseNamePathOrMethodCall`, `parseStrictTermArg`, `parseTarget`, the scope/pkgEnd stacks), in both
parse modes, for every fuel: whenever it returns, the reader invariant holds and every stored slice
lies inside the table. -/
theorem first_pass_slices_in_table (d : Bytes) (hd : SizeOk d) (fuel n : Nat) (s : AmlParser.PState)
    (hs : ParserInv d s) : ∀ res s', AmlParser.parseObjectList d fuel n s = .ok (res, s') → ParserInv d s' := by
  intro res s' e
  exact (parserInv_iff d s').mpr ((AmlParser.keeps_parseObjectList hd fuel n).run s ((parserInv_iff d s).mp hs) res s' e).1

/-- **Stage (b), tree passes** — `connectNamedObjArgs`, `mergeScopeDirectives`, `relocateNamedObjects`
(incl. the relocation that trims a stored name to its last segment) and the resolve loop
(`resolveLoopPasses`): whenever they return, the invariant holds. -/
theorem tree_passes_slices_in_table (d : Bytes) (fuel n : Nat) (s : AmlParser.PState) (hs : ParserInv d s) :
    (∀ res s', AmlParser.connectNamedObjArgs d fuel 0 s = .ok (res, s') → ParserInv d s') ∧
    (∀ res s', AmlParser.mergeScopeDirectives d fuel 0 s = .ok (res, s') → ParserInv d s') ∧
    (∀ res s', AmlParser.relocateNamedObjects d fuel 0 s = .ok (res, s') → ParserInv d s') ∧
    (∀ res s', AmlParser.resolveLoopPasses d fuel n s = .ok (res, s') → ParserInv d s') := by
  have hs' := (parserInv_iff d s).mp hs
  refine ⟨?_, ?_, ?_, ?_⟩ <;> intro res s' e <;> apply (parserInv_iff d s').mpr
  · exact ((AmlParser.keeps_connectNamed (d := d) fuel).1 0).run s hs' res s' e |>.1
  · exact ((AmlParser.keeps_merge (d := d) fuel).1 0).run s hs' res s' e |>.1
  · exact ((AmlParser.keeps_relocate (d := d) fuel).1 0).run s hs' res s' e |>.1
  · exact (AmlParser.keeps_resolveLoopPasses (d := d) fuel n).run s hs' res s' e |>.1

/-- **Stage (c), deferred blocks and method calls** — `parseDeferredBlocks` (strict re-parse of
Buffer/While/BankField bodies), `resolveMethodCalls`, `connectNonNamedObjArgs`,
`attachSiblingsAsArgs`: whenever they return, the invariant holds. -/
theorem deferred_and_calls_slices_in_table (d : Bytes) (hd : SizeOk d) (fuel : Nat) (s : AmlParser.PState)
    (hs : ParserInv d s) :
    (∀ res s', AmlParser.parseDeferredBlocks d fuel fuel 0 s = .ok (res, s') → ParserInv d s') ∧
    (∀ res s', AmlParser.resolveMethodCalls d fuel 0 s = .ok (res, s') → ParserInv d s') ∧
    (∀ res s', AmlParser.connectNonNamedObjArgs fuel 0 s = .ok (res, s') → ParserInv d s') := by
  have hs' := (parserInv_iff d s).mp hs
  refine ⟨?_, ?_, ?_⟩ <;> intro res s' e <;> apply (parserInv_iff d s').mpr
  · exact ((AmlParser.keeps_deferred hd fuel fuel).1 0).run s hs' res s' e |>.1
  · exact ((AmlParser.keeps_resolve (d := d) fuel).1 0).run s hs' res s' e |>.1
  · exact ((AmlParser.keeps_connectNonNamed (d := d) fuel).1 0).run s hs' res s' e |>.1

/-- **Every stored slice lies inside the table — whole parser** (`C12.slices_in_table`, all passes:
`parseObjectList`, `connectNamedObjArgs`, the `mergeScopeDirectives`/`relocateNamedObjects` loop,
`parseDeferredBlocks`, `resolveMethodCalls`, `connectNonNamedObjArgs`).  For every table `d` with
`SizeOk d`, every fuel, every table handle and every parser state whose object pool holds only values
inside `d` (in particular the freshly created default scopes, which hold none): whenever
`parseAML` returns — with success **or** with its parse error — every `[]byte` value stored in the
resulting object pool (strings, names, buffers, connection byte lists, relocated name tails; live
and freed slots alike) satisfies `off + len ≤ len(d)`, and the reader window is inside the table.
(Partial correctness: runs of the model that end in `.panic`/`.outOfFuel` return no tree; that they do
not occur is `total`, of which `total_partial` below proves the lexical part.) -/
theorem slices_in_table (d : Bytes) (hd : SizeOk d) (fuel handle : Nat) (s : AmlParser.PState)
    (hs : ∀ (i : Nat) (o : Obj), s.tree.pool[i]? = some o → ∀ off len, o.value = .bytes off len → off + len ≤ d.size) :
    ∀ ok s', AmlParser.parseAML d fuel handle s = .ok (ok, s') →
      (∀ (i : Nat) (o : Obj), s'.tree.pool[i]? = some o → ∀ off len, o.value = .bytes off len → off + len ≤ d.size) ∧
      s'.r.offset ≤ d.size ∧ s'.r.pkgEnd ≤ d.size := by
  intro ok s' e
  have hs' : AmlParser.AllValsIn d s.tree := by
    intro i o ho
    cases hv : o.value with
    | bytes off len => exact hs i o ho off len hv
    | _ => trivial
  have := AmlParser.parseAML_keeps hd fuel handle s hs' ok s' e
  refine ⟨?_, this.1.1, this.1.2⟩
  intro i o ho off len hv
  have h := this.2 i o ho
  rw [hv] at h
  exact h

/-- non-vacuity of `slices_in_table`: the default-scope tree satisfies the hypothesis for every table -/
example (d : Bytes) : ∀ t, AmlParser.defaultTree 0 = .ok t →
    ∀ (i : Nat) (o : Obj), t.pool[i]? = some o → ∀ off len, o.value = .bytes off len → off + len ≤ d.size := by
  intro t ht
  have : t.pool.toList.all (fun o => o.value == Val.none) = true := by
    have h : (match AmlParser.defaultTree 0 with
      | .ok t => t.pool.toList.all (fun o => o.value == Val.none) | .error _ => false) = true := by decide +kernel
    rw [ht] at h; exact h
  intro i o ho off len hv
  have hm : o ∈ t.pool.toList := by
    have := Array.mem_of_getElem? ho
    exact Array.mem_toList_iff.mpr this
  have := (List.all_eq_true.mp this) o hm
  simp [hv] at this

/-! ## totality and well-formedness, stage by stage

**The full-strength statements of this half of C12 are OPEN** (not theorems of this file):

* `total` — for every table `d`, every well-formed pool and `fuelFor`: `parseAML d (fuelFor d t) h s` is `.ok _`
  (never `.panic`, never `.outOfFuel`);
* `tree_WF` — in the state `parseAML` returns, after success *and* after failure, the pool satisfies `C13.WF`;
* `print_total` — `PrettyPrint` of the resulting tree does not panic: proved below for every well-formed pool with
  correctly typed values (`print_total`, about the model of `toString`'s panic sites); that the pool `parseAML`
  returns has correctly typed values (`PrintOK`) is not derived — the oracle runs the real `PrettyPrint` on every input.

What is proved towards them, each piece named for what it is:

| piece | what it says | strength |
|---|---|---|
| `first_pass_total` | `init; scopeEnter(0); parseObjectList` (+ everything it calls) returns `.ok` | total (no panic, no fuel exhaustion with fuel ≥ 13·len+13), from ANY well-formed pool (freed slots reused) |
| `first_pass_WF` | the state it returns (ok or failed) has a `C13.WF` pool | same hypotheses |
| `connect_named_no_panic_WF` | `connectNamedObjArgs` + `attachSiblingsAsArgs` | never `.panic`, `C13.WF` kept, live set unchanged; fuel bound NOT proved |
| `relocate_no_panic_WF` | `relocateNamedObjects` | same strength |
| `connect_non_named_no_panic_WF` | `connectNonNamedObjArgs` | same strength |
| `resolve_calls_no_panic_WF` | `resolveMethodCalls` | same strength, under `CallShape` (hypothesis, kept) |
| `print_total` | the print walk over any `C13.WF` pool with correctly typed values (`PrintOK`) | total: no `.panic`, no `.outOfFuel` with `printFuel` |
| `tree_passes_no_panic_WF` | `connectNamedObjArgs(0)`; resolve loop — all of stage 3 as `ParseAML` runs it | never `.panic`, `MergeInv` kept; fuel NOT bounded |
| `shape_checks_sound` | the oracle's executable checks of `MergeInv` / `CallShape` imply them | the hypotheses are evaluated on the model's run of every replayed input |
| `parse_prefix_no_panic_WF` | `ParseAML` up to and excluding `parseDeferredBlocks` (`init`; first pass; `connectNamedObjArgs`; resolve loop), with `MergeInv` DERIVED from the first pass | never `.panic`, `C13.WF` after success and failure, `MergeInv` handed to `parseDeferredBlocks`; the first-pass part total (fuel ≥ 13·len+13); only table- and pool-level hypotheses (root a parentless scope block, freed slots nameless, no old `Scope` object with this table's handle); fuel of the tree passes NOT bounded |
| `resolve_loop_no_panic_WF` | `resolveLoopPasses` (merge + relocate until stable) | never `.panic`, `MergeInv` (so `C13.WF`) kept; number of passes / fuel NOT bounded |
| `merge_no_panic_WF` | `mergeScopeDirectives` (moves contents, frees the directive) | never `.panic`, `C13.WF` kept, only live slots freed; under `MergeInv` (shape of `Scope` directives: hypothesis, kept); fuel bound NOT proved |

| `parse_prefix_first_block` | the prefix COMPOSED with the strict pass: whichever deferred block `parseDeferredBlocks` reaches first | in the state the prefix hands over (if it did not fail), for EVERY attached object with a deferred table row: `parseDeferred` never panics, keeps `C13.WF`, and returns with fuel ≥ 16·len+15 — the hypotheses of `deferred_block_total` are DERIVED (methods complete: kept by the first pass, `connectNamedObjArgs`, merge and relocate; block object under a non-`Method`; empty scope stack); extra pool hypotheses: every old `Method` complete, room for 32 objects per table byte |
| `parse_no_panic_unless_block_succeeds` | the WHOLE of `ParseAML` (`init` … `connectNonNamedObjArgs`) | never `.panic`, and the pool returned is `C13.WF` — for every run in which no deferred block is parsed successfully (the prefix fails, or there is no deferred block, or the first one the walk reaches fails); `CallShape` for `resolveMethodCalls` DERIVED from the first pass; same pool hypotheses as `parse_prefix_first_block`; if a block succeeds the walk behind it is open |
| `deferred_block_no_panic_WF` | `parseDeferred(obj)`: the strict re-parse (`parseModeAllBlocks`) of ONE deferred block — `parseObjectArgs`, `parseArgs`, `parseArg`, `parseStrictTermArg`, `parseTarget`, `parseNextObject`, `parseNamePathOrMethodCall` with method calls, `parseFieldElements` | never `.panic`, `C13.WF` kept after success and failure, old objects kept under their parents; on success every `Method` has its flags again; under the hypotheses: every `Method` has its flags or is unnamed and encloses neither the root nor the block (what a rejected earlier table may leave behind), no `Method` on the scope stack, the block object attached under a non-`Method` (hypotheses, evaluated by the oracle in front of every block); fuel NOT bounded |
| `deferred_block_total` | the same `parseDeferred(obj)` with fuel ≥ 16·len + 15 | total: returns (no `.panic`, no `.outOfFuel`), same guarantees, same hypotheses |
| `deferred_block_checks_sound` | the oracle's executable checks imply the hypotheses of `deferred_block_no_panic_WF` | the checks run on the model's walk in front of every `parseDeferred` of every replayed input |

Not covered by any theorem: the export of the shape hypothesis `CallShape` by the first pass (`MergeInv` is
exported: `parse_prefix_no_panic_WF`; `MethodsHaveFlags` and the block facts are, for the first block and pools without
incomplete methods: `parse_prefix_first_block`), the walk `parseDeferredBlocks` over all blocks (that the hypotheses of one block hold again for the next
one; the per-block theorem gives `MethodsHaveFlags`, the scope stack and `C13.WF` back, not the facts about the next
block object), the fuel bound of the tree walks, and the composition into `parseAML`.  These
are decided per input by the oracle on the real code and by the model-vs-implementation correspondence.

`AmlParser.firstPass` is `p.init(…); p.scopeEnter(0); p.parseObjectList()` — everything `ParseAML` does before
the tree passes (`AmlParser.parseAML_eq`: `parseAML = firstPass >>= afterFirstPass`).
`AmlParser.G.TreeG` = `C13.WF` ∧ live root ∧ opcode-table indices of live objects in range. -/

/-- the first pass is a prefix of `ParseAML`: its panic / exhausted fuel would be one of `ParseAML`, and when
it fails `ParseAML` returns its parse error in the same state -/
theorem first_pass_is_prefix (d : Bytes) (fuel handle : Nat) (s : AmlParser.PState) :
    AmlParser.parseAML d fuel handle = AmlParser.firstPass d fuel handle >>= AmlParser.afterFirstPass d fuel ∧
    (∀ e, AmlParser.firstPass d fuel handle s = .error e → AmlParser.parseAML d fuel handle s = .error e) ∧
    (∀ s', AmlParser.firstPass d fuel handle s = .ok (.failed, s') → AmlParser.parseAML d fuel handle s = .ok (false, s')) :=
  ⟨AmlParser.parseAML_eq d fuel handle, AmlParser.parseAML_of_firstPass d fuel handle s⟩

/-- **The first pass is total** (`C12.total`, stage `parseObjectList`).  For every table `d` shorter than
2^32 − 2^28 bytes, every parser state whose pool is well-formed (`TreeG` = `C13.WF` ∧ live root ∧ opcode-table
indices of live objects in range; freed slots MAY exist — a second or later table — and are reused by
`newObject`) with room for 16 objects per table byte below the `uint32` index limit, every table handle and every
fuel ≥ 13·len + 13 (`fuelFor` is): `init`, `scopeEnter(0)` and `parseObjectList` with everything it calls
(`parseNextObject`, `parseObjectArgs`, `parseArgs`, `parseArg`, `parseTarget`, `parseFieldElements`,
`parseNamePathOrMethodCall`, every decoder, every tree operation) return normally: no `.panic` (no Go index /
nil / slice panic, no failed tree-operation contract), no `.outOfFuel` (no hang, recursion depth ≤ 13 frames per
table byte). -/
theorem first_pass_total (d : Bytes) (hd : d.size + 268435456 ≤ 4294967296) (s : AmlParser.PState)
    (ht : AmlParser.G.TreeG s.tree) (hsz : s.tree.pool.size + 16 * d.size ≤ 4294967295) (fuel handle : Nat)
    (hfuel : 13 * d.size + 13 ≤ fuel) :
    ∃ res s', AmlParser.firstPass d fuel handle s = .ok (res, s') := by
  obtain ⟨res, s', e, _⟩ := AmlParser.G.firstPass_tot hd ht hsz fuel handle hfuel
  exact ⟨res, s', e⟩

/-- **The first pass keeps the pool well-formed** (`C12.tree_WF`, stage `parseObjectList`, after success *and*
after failure).  Under the hypotheses of `first_pass_total`, in whatever state the first pass returns — `ok` or
`failed` — the pool satisfies `C13.WF` (parent, sibling and child links agree in both directions, the free list
is exact), the root is live, every live object's opcode-table index is in range, the reader is inside the table
and every index on the scope stack is a live slot. -/
theorem first_pass_WF (d : Bytes) (hd : d.size + 268435456 ≤ 4294967296) (s : AmlParser.PState)
    (ht : AmlParser.G.TreeG s.tree) (hsz : s.tree.pool.size + 16 * d.size ≤ 4294967295) (fuel handle : Nat)
    (hfuel : 13 * d.size + 13 ≤ fuel) :
    ∀ res s', AmlParser.firstPass d fuel handle s = .ok (res, s') →
      C13.WF s'.tree ∧ C13.live s'.tree 0 = true ∧
      (∀ i, C13.live s'.tree i = true → (opFlags (C13.slot s'.tree i).infoIndex).isSome = true) ∧
      s'.r.offset ≤ d.size ∧ s'.r.pkgEnd ≤ d.size ∧ (∀ x ∈ s'.scopeStack.toList, C13.live s'.tree x = true) := by
  intro res s' e
  obtain ⟨res2, s2, e2, h2⟩ := AmlParser.G.firstPass_tot hd ht hsz fuel handle hfuel
  rw [e] at e2
  cases e2
  exact ⟨h2.tree.wf, h2.tree.root, h2.tree.info, h2.inv.1, h2.inv.2, h2.scopes⟩

/-- non-vacuity of the two theorems: the default-scope pool satisfies `TreeG`, so does a pool with a freed slot
(the default scopes with `_SI_` freed: the next `newObject` reuses slot 4), and `fuelFor` is enough fuel -/
example : ∀ t, AmlParser.defaultTree 0 = .ok t → AmlParser.G.TreeG t := by
  intro t ht
  have h : (match AmlParser.defaultTree 0 with
    | .ok t => AmlParser.G.treeGb t | .error _ => false) = true := by decide +kernel
  rw [ht] at h
  exact AmlParser.G.treeG_of_b h
example : ∀ t t', AmlParser.defaultTree 0 = .ok t → t.free 4 = .ok t' →
    AmlParser.G.TreeG t' ∧ C13.live t' 4 = false := by
  intro t t' ht ht'
  have h : (match AmlParser.defaultTree 0 with
    | .ok t => (match t.free 4 with
      | .ok t' => AmlParser.G.treeGb t' && !C13.live t' 4 | .error _ => false) | .error _ => false) = true := by decide +kernel
  rw [ht] at h
  simp only [ht'] at h
  simp only [Bool.and_eq_true, Bool.not_eq_true'] at h
  exact ⟨AmlParser.G.treeG_of_b h.1, h.2⟩
example (d : Bytes) (t : ObjectTree) : 13 * d.size + 13 ≤ AmlParser.fuelFor d t := AmlParser.fuelFor_enough d t

/-! ### the tree passes that do not free objects: never a panic, the pool stays well-formed

`NoPanic x s Q` (`AmlParser.NPs`): run from `s`, `x` does not end in `.panic` — it returns, or the model's fuel
runs out (the fuel bound of the tree walks is *not* proved here) — and `Q` holds of whatever it returns.
`TreeInv` (`AmlParser.TP`): `C13.WF`, a live root, every live object's opcode-table index in range. -/

/-- **`connectNamedObjArgs` and `attachSiblingsAsArgs` never panic and keep the pool well-formed.**  From every
state with a well-formed pool, for every table, fuel and start object: no `.panic` (no nil dereference of
`ObjectAt`, no opcode-table index out of range, and every `detach`/`append` is called inside its contract —
the sibling moved is a child of the parent it is detached from and is not an ancestor of the object it is
appended to), and in the state returned (`ok` or `failed`) the pool is well-formed with exactly the same live
slots. -/
theorem connect_named_no_panic_WF (d : Bytes) (fuel objIndex : Nat) (s : AmlParser.PState) (h : AmlParser.TP s)
    (ho : C13.live s.tree objIndex = true) :
    AmlParser.NPs (AmlParser.connectNamedObjArgs d fuel objIndex) s
      (fun _ s' => AmlParser.TP s' ∧ s'.tree.pool.size = s.tree.pool.size ∧ ∀ x, C13.live s'.tree x = C13.live s.tree x) :=
  ((AmlParser.connectNamed_np d fuel).1 objIndex h ho).mono (fun _ _ hq => ⟨hq.1, hq.2.size, hq.2.live⟩)

/-- **`relocateNamedObjects` never panics and keeps the pool well-formed** (the root is a scope block): the
`ClosestNamedAncestor`/`Find` lookups are total, the repaired ancestor guard makes `append(target, obj)` legal,
every object that had a parent still has one, no slot is freed. -/
theorem relocate_no_panic_WF (d : Bytes) (fuel : Nat) (s : AmlParser.PState) (h : AmlParser.TP s)
    (hroot : (C13.slot s.tree 0).opcode = opIntScopeBlock) :
    AmlParser.NPs (AmlParser.relocateNamedObjects d fuel 0) s
      (fun _ s' => AmlParser.TP s' ∧ s'.tree.pool.size = s.tree.pool.size ∧ ∀ x, C13.live s'.tree x = C13.live s.tree x) :=
  ((AmlParser.relocate_np d fuel).1 0 h h.root (Or.inr hroot)).mono (fun _ _ hq => ⟨hq.1, hq.2.1.size, hq.2.1.live⟩)

/-- **`connectNonNamedObjArgs` never panics and keeps the pool well-formed** (siblings of the object and, those
exhausted, of its parent are moved under it; the parent links of all ancestors of the walk's current object are
untouched, which is what makes the "uncle" moves legal). -/
theorem connect_non_named_no_panic_WF (fuel objIndex : Nat) (s : AmlParser.PState) (h : AmlParser.TP s)
    (ho : C13.live s.tree objIndex = true) :
    AmlParser.NPs (AmlParser.connectNonNamedObjArgs fuel objIndex) s
      (fun _ s' => AmlParser.TP s' ∧ s'.tree.pool.size = s.tree.pool.size ∧ ∀ x, C13.live s'.tree x = C13.live s.tree x) :=
  ((AmlParser.connectNonNamed_np fuel).1 objIndex h ho).mono (fun _ _ hq => ⟨hq.1, hq.2.1.size, hq.2.1.live⟩)

/-- **`resolveMethodCalls` never panics and keeps the pool well-formed**, provided every unresolved
name-or-call object holds the `[]byte` of its path (`CallShape`: what `parseNamePathOrMethodCall` stores; the
unchecked type assertion `value.([]byte)` of `resolveMethodCalls` relies on it) — and it keeps `CallShape`. -/
theorem resolve_calls_no_panic_WF (d : Bytes) (fuel objIndex : Nat) (s : AmlParser.PState) (h : AmlParser.TP s)
    (hc : AmlParser.CallShape s) (ho : C13.live s.tree objIndex = true) :
    AmlParser.NPs (AmlParser.resolveMethodCalls d fuel objIndex) s
      (fun _ s' => AmlParser.TP s' ∧ AmlParser.CallShape s' ∧ s'.tree.pool.size = s.tree.pool.size ∧
        ∀ x, C13.live s'.tree x = C13.live s.tree x) :=
  ((AmlParser.resolve_np d fuel).1 objIndex h hc ho).mono (fun _ _ hq => ⟨hq.1, hq.2.1, hq.2.2.1.size, hq.2.2.1.live⟩)

/-- **`mergeScopeDirectives` never panics and keeps the pool well-formed** — the pass that frees objects while
the walk holds saved sibling indices, and whose `append` has no dynamic guard.  Hypothesis `MergeInv`
(`AmlParser.MI`): `TreeInv`, the root is a parentless scope block, and every `Scope` directive of the table being
parsed that still has arguments has the shape the first pass gives it (`ShapeAt`: its name starts with a zero byte —
it was never named —, exactly two arguments: a childless name-path object holding the `[]byte` of a path whose
single segment, if it is one, does not start with a zero byte, and a scope block).  Conclusion: no `.panic`
(the unchecked `value.([]byte)`, every `ObjectAt`, every `detach`/`append`/`free` contract: the lookup result is
never inside the directive's own subtree because `Find` does not descend through an object whose name starts with
zero — `AmlParser.find_avoid`; the sibling saved before a recursive call is not freed by it because everything a
call frees or moves lies inside the subtree it visits — the ghost context `AmlParser.Ctx`), and in the state
returned `MergeInv` holds again: `C13.WF`, no slot created, only live slots freed. -/
theorem merge_no_panic_WF (d : Bytes) (fuel : Nat) (s : AmlParser.PState) (h : AmlParser.MI d s) :
    AmlParser.NPs (AmlParser.mergeScopeDirectives d fuel 0) s
      (fun _ s' => AmlParser.MI d s' ∧ s'.tree.pool.size = s.tree.pool.size ∧
        ∀ x, C13.live s'.tree x = true → C13.live s.tree x = true) :=
  ((AmlParser.merge_np d fuel).1 (s0 := s) (X0 := 0) (Mvd := fun _ => False) 0 h.tp.wf (AmlParser.MIJ.ofMI h)
    (AmlParser.Ctx.refl s 0) h.tp.root (h.tp.wf.anc_self h.tp.root)).mono
    (fun _ _ hq => by
      obtain ⟨q1, _, _, _, q4⟩ := hq
      exact ⟨q1.toMI, q4.shr.size, q4.shr.live⟩)

/-- **The resolve loop never panics and keeps the pool well-formed**: `resolveLoopPasses` — `mergeScopeDirectives`
and `relocateNamedObjects` in turn until both report no change or one fails — under `MergeInv`, which both passes
keep (`relocateNamedObjects` never moves an argument of a `Scope` directive: the object it moves has arguments and
is not a scope block, and a directive is not a named object).  Any number of passes (the bound on the number of
passes is part of the unproved fuel bound). -/
theorem resolve_loop_no_panic_WF (d : Bytes) (fuel n : Nat) (s : AmlParser.PState) (h : AmlParser.MI d s) :
    AmlParser.NPs (AmlParser.resolveLoopPasses d fuel n) s
      (fun _ s' => AmlParser.MI d s' ∧ s'.tree.pool.size = s.tree.pool.size ∧
        ∀ x, C13.live s'.tree x = true → C13.live s.tree x = true) :=
  (AmlParser.resolveLoopPasses_np d fuel n (AmlParser.MIJ.ofMI h)).mono (fun _ _ hq => ⟨hq.1.toMI, hq.2.size, hq.2.live⟩)

/-- **The tree passes between the first pass and the deferred blocks never panic and keep the pool well-formed**
(`tree_passes`, stage 3 as `ParseAML` runs it): `connectNamedObjArgs(0)`, then — unless it failed — the resolve
loop (`AmlParser.treePasses`), under `MergeInv`, which `connectNamedObjArgs` keeps as well (the object it names
and fills is a named one, hence not a directive, and its parent is not a directive either). -/
theorem tree_passes_no_panic_WF (d : Bytes) (fuel : Nat) (s : AmlParser.PState) (h : AmlParser.MI d s) :
    AmlParser.NPs (AmlParser.treePasses d fuel) s
      (fun _ s' => AmlParser.MI d s' ∧ s'.tree.pool.size = s.tree.pool.size ∧
        ∀ x, C13.live s'.tree x = true → C13.live s.tree x = true) :=
  (AmlParser.treePasses_np d fuel (AmlParser.MIJ.ofMI h)).mono (fun _ _ hq => ⟨hq.1.toMI, hq.2.size, hq.2.live⟩)

/-- **The shape hypotheses are checked on every replayed input.**  `MergeInv` and `CallShape` are not derived
from the first pass by a theorem; instead the replay driver evaluates them on the model's run of every input
(`AmlParser.shapeAudit`: after a first pass that did not fail, and before `resolveMethodCalls`) and reports a
property failure (`clause=shape-hypothesis`) if one does not hold.  The executable checks imply the hypotheses: -/
theorem shape_checks_sound (d : Bytes) (s : AmlParser.PState) :
    (AmlParser.TP s → AmlParser.mergeInvB d s = true → AmlParser.MI d s) ∧
    (AmlParser.callShapeB s = true → AmlParser.CallShape s) :=
  ⟨fun tp h => AmlParser.mergeInvB_sound tp h, fun h => AmlParser.callShapeB_sound h⟩

/-- **`ParseAML` up to the deferred blocks never panics, keeps the pool well-formed, and the first pass establishes
`MergeInv`** (`parse_prefix`: the stages `first_pass_total`, `first_pass_WF` and `tree_passes_no_panic_WF` composed,
with the shape hypothesis of the tree passes DERIVED instead of assumed).

`AmlParser.F.parsePrefix` is what `ParseAML` does before `parseDeferredBlocks`: `init`, `scopeEnter(0)`,
`parseObjectList` (the first pass), `connectNamedObjArgs(0)` and the resolve loop (`mergeScopeDirectives` /
`relocateNamedObjects` until stable); `ParseAML` is this prefix followed by `AmlParser.F.afterPrefix` (first conjunct).

For every table `d` (length + 2^28 ≤ 2^32), every handle, every fuel, from ANY well-formed pool (`TreeG`; freed slots
may exist and are reused) with room for 16 objects per table byte, whose root is a parentless scope block, whose freed
slots carry no name (`newObject` keeps the name of a slot it reuses — true of every pool `ParseAML` itself produces:
`free` is only applied to a directive, its name and its block), and in which no `Scope` object left behind by an
earlier, rejected table carries this table's handle:

* the prefix never ends in `.panic`; in the state it hands to `parseDeferredBlocks` — or returns with an error — the
  pool is `C13.WF` with a live root and opcode-table indices in range; and if the prefix did not fail, that state
  satisfies `MergeInv` (every pending `Scope` directive of this table: unnamed, exactly two arguments, a childless
  name-path object holding the `[]byte` of the path, and a scope block);
* with fuel ≥ 13·len + 13 the first-pass part returns (no `.outOfFuel`), and unless it failed its final state already
  satisfies `MergeInv` — the per-input check `MergeInv-after-first-pass` of `shapeAudit` is redundant under these
  hypotheses (it keeps running as a cross-check).

Not derived: `CallShape` (needed behind the deferred blocks, whose walk is open) and the fuel bound of the tree passes. -/
theorem parse_prefix_no_panic_WF (d : Bytes) (hd : d.size + 268435456 ≤ 4294967296) (s : AmlParser.PState)
    (ht : AmlParser.G.TreeG s.tree) (hsz : s.tree.pool.size + 16 * d.size ≤ 4294967295) (fuel handle : Nat)
    (hroot : C13.P s.tree 0 = C13.INV ∧ (C13.slot s.tree 0).opcode = opIntScopeBlock)
    (hfreed : ∀ x, C13.live s.tree x = false → (C13.slot s.tree x).name.b0 = 0)
    (hhandle : ∀ x, C13.live s.tree x = true → (C13.slot s.tree x).opcode = opScope →
      (C13.slot s.tree x).tableHandle ≠ handle) :
    AmlParser.parseAML d fuel handle = AmlParser.F.parsePrefix d fuel handle >>= AmlParser.F.afterPrefix d fuel ∧
    AmlParser.NPs (AmlParser.F.parsePrefix d fuel handle) s
      (fun b s' => (C13.WF s'.tree ∧ C13.live s'.tree 0 = true ∧
          ∀ i, C13.live s'.tree i = true → (opFlags (C13.slot s'.tree i).infoIndex).isSome = true) ∧
        (b = true → AmlParser.MI d s')) ∧
    (13 * d.size + 13 ≤ fuel → ∃ r s1, AmlParser.firstPass d fuel handle s = .ok (r, s1) ∧
      (r ≠ .failed → AmlParser.MI d s1)) := by
  refine ⟨AmlParser.F.parseAML_prefix d fuel handle, ?_, ?_⟩
  · refine (AmlParser.F.parsePrefix_np (jf := False) hd ht hsz fuel handle hroot hfreed hhandle (fun hb => hb.elim)).mono ?_
    intro b s' ⟨tp, hmi⟩
    exact ⟨⟨tp.wf, tp.root, tp.info⟩, fun hb => (hmi hb).1.toMI⟩
  · intro hfuel
    obtain ⟨r, s1, e, _⟩ := AmlParser.G.firstPass_tot hd ht hsz fuel handle hfuel
    exact ⟨r, s1, e, fun hr =>
      (((AmlParser.F.firstPass_mi (jf := False) hd ht hsz fuel handle hroot hfreed hhandle (fun hb => hb.elim)).2 r s1 e).2.2 hr).1.toMI⟩

/-- the pool hypotheses of `parse_prefix_no_panic_WF` are decidable (`AmlParser.poolHypB`; the replay driver counts
on how many tables of every run they hold: statistics `prefix_pool_hyp_holds` / `prefix_pool_hyp_fails`) -/
theorem prefix_pool_checks_sound (s : AmlParser.PState) (handle : Nat) (h : AmlParser.poolHypB s.tree handle = true) :
    (C13.P s.tree 0 = C13.INV ∧ (C13.slot s.tree 0).opcode = opIntScopeBlock) ∧
    (∀ x, C13.live s.tree x = false → (C13.slot s.tree x).name.b0 = 0) ∧
    (∀ x, C13.live s.tree x = true → (C13.slot s.tree x).opcode = opScope → (C13.slot s.tree x).tableHandle ≠ handle) :=
  AmlParser.F.poolHyp_of_b h

/-- non-vacuity: the default-scope pool satisfies the pool hypotheses (for every handle: it holds no `Scope` object),
and so does a pool in which a slot was allocated and freed again (the next `newObject` reuses it) -/
example : ∀ t, AmlParser.defaultTree 0 = .ok t → AmlParser.poolHypB t 0 = true ∧ AmlParser.poolHypB t 1 = true := by
  intro t ht
  have h : (match AmlParser.defaultTree 0 with
    | .ok t => AmlParser.poolHypB t 0 && AmlParser.poolHypB t 1 | .error _ => false) = true := by decide +kernel
  rw [ht] at h
  simpa using h
example : ∀ t t1 n t2, AmlParser.defaultTree 0 = .ok t → t.newObject opIntNamePath 0 1 = .ok (t1, n) → t1.free n = .ok t2 →
    AmlParser.G.TreeG t2 ∧ AmlParser.poolHypB t2 1 = true ∧ C13.live t2 n = false := by
  intro t t1 n t2 ht h1 h2
  have h : (match AmlParser.defaultTree 0 with
    | .ok t => (match t.newObject opIntNamePath 0 1 with
      | .ok (t1, n) => (match t1.free n with
        | .ok t2 => AmlParser.G.treeGb t2 && AmlParser.poolHypB t2 1 && !C13.live t2 n
        | .error _ => false)
      | .error _ => false)
    | .error _ => false) = true := by decide +kernel
  rw [ht] at h
  simp only [h1, h2, Bool.and_eq_true, Bool.not_eq_true'] at h
  exact ⟨AmlParser.G.treeG_of_b h.1.1, h.1.2, h.2⟩

/-- **`ParseAML` up to and including the first deferred block** (`parse_prefix_first_block`: `parse_prefix_no_panic_WF`
composed with `deferred_block_no_panic_WF` / `deferred_block_total`, the hypotheses of the latter DERIVED).

`parseDeferredBlocks` walks the tree from the root and calls `parseDeferred(obj)` on the objects whose table row carries
`pOpFlagDeferParsing` (Buffer, Package, If, While, BankField, …); until the first such call the walk changes nothing.
For every table `d` (length + 2^28 ≤ 2^32), every handle and fuel, from any well-formed pool with room for 32 objects
per table byte that satisfies the pool hypotheses of `parse_prefix_no_panic_WF` and in which every `Method` left by
earlier tables is complete (name object, flags constant, scope block), every unresolved name-or-call object is attached
and holds the `[]byte` of its path, and the root carries the table row of a scope block (`AmlParser.MInv`,
`AmlParser.F.CSA`; decidable: `AmlParser.methodsOKB`, true of the default pool): if the
prefix does not fail, the state `s'` it hands to `parseDeferredBlocks` satisfies `MergeInv`, and for EVERY live, attached
object `obj` of `s'` with a deferred table row — in particular the one the walk reaches first — and every fuel:

* `parseDeferred(obj)` from `s'` never ends in `.panic`, whatever it returns the pool is `C13.WF` again (`FP`), every
  object that existed is still live under the same parent, and on success every `Method` has its flags and the scope
  stack is as before;
* with fuel ≥ 16·len + 15 it returns (no `.outOfFuel`).

What is proved for this: the first pass leaves every `Method` complete (it reads the name, the flags and opens the
block; tracked argument by argument like the `Scope` directives), and `connectNamedObjArgs`, `mergeScopeDirectives` and
`relocateNamedObjects` keep every `Method` complete (`AmlParser.MIJ`: what they move, free or rename is never one of the
three arguments of a method, and nothing is hung under a method or its first two arguments); they leave the reader and
the (empty) scope stack alone; an object with a deferred row is neither a `Method` nor one of a method's three arguments.
Still open: that the hypotheses hold again for the SECOND block (the walk), `CallShape`, the fuel of the tree passes. -/
theorem parse_prefix_first_block (d : Bytes) (hd : d.size + 268435456 ≤ 4294967296) (s : AmlParser.PState)
    (ht : AmlParser.G.TreeG s.tree) (hsz : s.tree.pool.size + 32 * d.size + 16 ≤ 4294967295) (fuel handle : Nat)
    (hroot : C13.P s.tree 0 = C13.INV ∧ (C13.slot s.tree 0).opcode = opIntScopeBlock)
    (hfreed : ∀ x, C13.live s.tree x = false → (C13.slot s.tree x).name.b0 = 0)
    (hhandle : ∀ x, C13.live s.tree x = true → (C13.slot s.tree x).opcode = opScope →
      (C13.slot s.tree x).tableHandle ≠ handle)
    (hmethods : AmlParser.MInv s ∧ AmlParser.F.CSA s) :
    AmlParser.NPs (AmlParser.F.parsePrefix d fuel handle) s (fun b s' => b = true → AmlParser.MI d s' ∧
      ∀ obj, C13.live s'.tree obj = true → C13.P s'.tree obj ≠ C13.INV →
        AmlParser.deferB (C13.slot s'.tree obj).infoIndex = true → ∀ fuel2,
        AmlParser.NPs (AmlParser.parseDeferred d fuel2 obj) s' (fun res s2 => AmlParser.G.FP d s2 ∧
          (∀ x, C13.live s'.tree x = true → C13.live s2.tree x = true ∧ C13.P s2.tree x = C13.P s'.tree x) ∧
          (res = .ok → AmlParser.S.MS (fun _ => False) none s2.tree ∧ s2.scopeStack = s'.scopeStack)) ∧
        (16 * d.size + 15 ≤ fuel2 → ∃ res s2, AmlParser.parseDeferred d fuel2 obj s' = .ok (res, s2) ∧
          C13.WF s2.tree)) := by
  refine (AmlParser.F.prefix_block hd ht hsz fuel handle hroot hfreed hhandle hmethods).mono ?_
  intro b s' hq hb
  obtain ⟨hmi, hall⟩ := hq hb
  refine ⟨hmi, fun obj hl hp hdf fuel2 => ⟨(hall obj hl hp hdf fuel2).1, fun hf => ?_⟩⟩
  obtain ⟨res, s2, e, h2, _⟩ := (hall obj hl hp hdf fuel2).2 hf
  exact ⟨res, s2, e, h2.tree.wf⟩

/-- **`ParseAML` never panics unless a deferred block is parsed successfully** (`parse_no_panic_unless_block_succeeds`:
the first theorem about the whole of `parseAML`).  For every table `d` (length + 2^28 ≤ 2^32), every handle and fuel,
from any pool that satisfies the hypotheses of `parse_prefix_first_block`: every run of `parseAML`

* ends in `.outOfFuel` (the model's fuel; never in `.panic`), or
* returns — `true` or `false` — with a pool that is `C13.WF`, has a live root and table rows in range, or
* is a run in which the prefix succeeded and, in the state `s'` it handed to `parseDeferredBlocks`, some attached
  object with a deferred table row can be parsed successfully by `parseDeferred` (`AmlParser.F.BlockSucceeds`) — then
  the walk over the blocks behind it is not covered by a theorem.

So the crash-freedom half of C12 is a theorem for every table that `ParseAML` rejects in the first pass, in
`connectNamedObjArgs`, in the resolve loop or in its first deferred block, and for every table without a deferred block
(no Buffer / Package / If / While / BankField … object of its own): for those `parseDeferredBlocks` is a walk that
changes nothing (`AmlParser.F.walk_np`), `resolveMethodCalls` runs under `CallShape` — which is now DERIVED: the
first pass creates every name-or-call object with the `[]byte` of its path and the tree passes keep it — and
`connectNonNamedObjArgs` under the tree invariant. -/
theorem parse_no_panic_unless_block_succeeds (d : Bytes) (hd : d.size + 268435456 ≤ 4294967296) (s : AmlParser.PState)
    (ht : AmlParser.G.TreeG s.tree) (hsz : s.tree.pool.size + 32 * d.size + 16 ≤ 4294967295) (fuel handle : Nat)
    (hroot : C13.P s.tree 0 = C13.INV ∧ (C13.slot s.tree 0).opcode = opIntScopeBlock)
    (hfreed : ∀ x, C13.live s.tree x = false → (C13.slot s.tree x).name.b0 = 0)
    (hhandle : ∀ x, C13.live s.tree x = true → (C13.slot s.tree x).opcode = opScope →
      (C13.slot s.tree x).tableHandle ≠ handle)
    (hmethods : AmlParser.MInv s ∧ AmlParser.F.CSA s) :
    (∀ e, AmlParser.parseAML d fuel handle s = .error e → e = .outOfFuel ∨
      ∃ s', AmlParser.F.parsePrefix d fuel handle s = .ok (true, s') ∧ AmlParser.F.BlockSucceeds d fuel s') ∧
    (∀ b s2, AmlParser.parseAML d fuel handle s = .ok (b, s2) →
      (C13.WF s2.tree ∧ C13.live s2.tree 0 = true ∧
        ∀ i, C13.live s2.tree i = true → (opFlags (C13.slot s2.tree i).infoIndex).isSome = true) ∨
      ∃ s', AmlParser.F.parsePrefix d fuel handle s = .ok (true, s') ∧ AmlParser.F.BlockSucceeds d fuel s') := by
  obtain ⟨h1, h2⟩ := AmlParser.F.parseAML_np hd ht hsz fuel handle hroot hfreed hhandle hmethods
  refine ⟨h1, fun b s2 e => ?_⟩
  rcases h2 b s2 e with tp | hb
  · exact Or.inl ⟨tp.wf, tp.root, tp.info⟩
  · exact Or.inr hb

/-- the method hypothesis of `parse_prefix_first_block` is decidable (the replay driver counts on how many tables of
every run it holds: statistics `prefix_methods_hyp_holds` / `prefix_methods_hyp_fails`), and the default pool satisfies
it (it holds no `Method`) -/
theorem prefix_method_check_sound (s : AmlParser.PState) (h : AmlParser.methodsOKB s.tree = true) :
    AmlParser.MInv s ∧ AmlParser.F.CSA s :=
  AmlParser.F.methodsOK_of_b h
example : ∀ t, AmlParser.defaultTree 0 = .ok t → AmlParser.methodsOKB t = true := by
  intro t ht
  have h : (match AmlParser.defaultTree 0 with
    | .ok t => AmlParser.methodsOKB t | .error _ => false) = true := by decide +kernel
  rw [ht] at h
  exact h

/-- **`PrettyPrint` is total on well-formed pools** (`C12.print_total`, for the model of `toString`'s panic sites
that the replay oracle runs, `Replay.Aml.printWalk`: the nil dereferences and dynamic type assertions of
`toString`, with the recursion over the arguments; its verdict is compared with the real `PrettyPrint` on every
input).  For every pool that satisfies `C13.WF`, has a live root and whose live objects have the dynamic value
types `toString` asserts (`PrintOK`: a method call holds the index of a live object whose second argument is an
integer, a resolved name path the index of a live object, a named field a field element, a string / name path a
`[]byte`, a DWord constant has a live parent): the walk returns normally — no `.panic`, and no `.outOfFuel` with
`printFuel` = (size+2)² frames (at most size+1 levels of at most size siblings). -/
theorem print_total (t : ObjectTree) (w : C13.WF t) (hroot : C13.live t 0 = true)
    (hp : ∀ x, C13.live t x = true → AmlParser.PrintOK t x) :
    Replay.Aml.printWalk t (Replay.Aml.printFuel t) 0 = .ok () ∧ Replay.Aml.printOutcome t = "ok" :=
  AmlParser.print_total' w hroot hp

/-! ### the strict pass, one deferred block

`Sh t m` (`AmlParser.S.Sh`): the object `m` has a first and a second argument and the second holds an integer —
what `parseNamePathOrMethodCall` reads from the `Method` a lookup returned, without a check
(`ArgAt(target, 1).value.(uint64)`).  `MethodsHaveFlags X t` (`AmlParser.S.MS X none t`): every live `Method`
outside of the set `X` satisfies `Sh`.  `Unfindable X s ref` (`AmlParser.S.UnF X s ref`): the objects of `X` are
live, and those that are `Method`s have a name that starts with a zero byte and enclose neither the root nor
`ref` — no lookup from a scope at or below `ref` returns them (`AmlParser.find_avoid`).  `X` is what a table
rejected earlier may have left behind: a `Method` whose name or flags were never read.
`BlockOK s obj` (`AmlParser.S.BlockOK`): `obj` is live, its table row is one the argument parser understands
(`rowFacts`), it is not a `Method`, and it hangs under an object that is not a `Method`.
`AmlParser.G.FP d s`: reader inside the table, `TreeG` pool, every scope-stack entry live. -/

/-- **One deferred block never panics and keeps the pool well-formed.**  For every table `d` shorter than
2^32 − 2^28 bytes, every fuel and every parser state `s` with a well-formed pool in which every `Method` has its
flags or cannot be found (`X`), no `Method` is on the scope stack, and with room for 16 objects per table byte:
`parseDeferred(obj)` — the re-parse of a deferred object's arguments in `parseModeAllBlocks`, with everything it
calls (`parseObjectArgs`, `parseArgs`, `parseArg`, `parseStrictTermArg`, `parseTarget`, `parseNextObject`,
`parseNamePathOrMethodCall` including the lookup, the method-call conversion and the argument loop,
`parseFieldElements`, `popPkgEnd`, every decoder and every tree operation) — does not end in `.panic`: no nil
dereference of `scopeCurrent()`, `ObjectAt` or `ArgAt(target, 1)`, no failed type assertion on the flags of a
method, no opcode-table index out of range, no `scopeExit` on an empty stack, and every `append` / `detach` is
called inside its contract.  In whatever state it returns — `ok` or `failed` — the pool satisfies `C13.WF`, the
root is live, table indices are in range, the reader is inside the table, every scope-stack entry is live, and
every object that existed is still live under the same parent.  On success every `Method` outside of `X` — also
the ones the block declared — has its flags, and the scope stack is as it was.  (The model's fuel may run out:
the fuel bound of the strict parse is not proved.) -/
theorem deferred_block_no_panic_WF (d : Bytes) (hd : d.size + 268435456 ≤ 4294967296) (fuel obj : Nat)
    (s : AmlParser.PState) (X : Nat → Prop) (h : AmlParser.G.FP d s) (hnm : AmlParser.S.StackNM s)
    (hms : AmlParser.S.MS X none s.tree) (hunf : AmlParser.S.UnF X s obj) (hobj : AmlParser.S.BlockOK s obj)
    (hbud : s.tree.pool.size + 16 * d.size + 16 ≤ 4294967295) :
    AmlParser.NPs (AmlParser.parseDeferred d fuel obj) s (fun res s' =>
      C13.WF s'.tree ∧ C13.live s'.tree 0 = true ∧
      (∀ i, C13.live s'.tree i = true → (opFlags (C13.slot s'.tree i).infoIndex).isSome = true) ∧
      s'.r.offset ≤ d.size ∧ s'.r.pkgEnd ≤ d.size ∧ (∀ x ∈ s'.scopeStack.toList, C13.live s'.tree x = true) ∧
      (∀ x, C13.live s.tree x = true → C13.live s'.tree x = true ∧ C13.P s'.tree x = C13.P s.tree x) ∧
      (res = .ok → AmlParser.S.MS X none s'.tree ∧ s'.scopeStack = s.scopeStack)) := by
  refine (AmlParser.S.parseDeferred_np hd fuel obj h hnm hms hunf hobj hbud).mono ?_
  intro res s' ⟨h', hold, hok⟩
  exact ⟨h'.tree.wf, h'.tree.root, h'.tree.info, h'.inv.1, h'.inv.2, h'.scopes, hold, hok⟩

/-- **One deferred block is total** (`C12.total`, one block of stage `parseDeferredBlocks`): under the hypotheses
of `deferred_block_no_panic_WF` and with fuel ≥ 16·len + 15 (`fuelFor` is), `parseDeferred(obj)` *returns* — no
`.panic` and no `.outOfFuel`: the strict re-parse of one block terminates, its recursion is at most 16 frames per
table byte deep — in a state with the same guarantees. -/
theorem deferred_block_total (d : Bytes) (hd : d.size + 268435456 ≤ 4294967296) (fuel obj : Nat)
    (s : AmlParser.PState) (X : Nat → Prop) (h : AmlParser.G.FP d s) (hnm : AmlParser.S.StackNM s)
    (hms : AmlParser.S.MS X none s.tree) (hunf : AmlParser.S.UnF X s obj) (hobj : AmlParser.S.BlockOK s obj)
    (hbud : s.tree.pool.size + 16 * d.size + 16 ≤ 4294967295) (hfuel : 16 * d.size + 15 ≤ fuel) :
    ∃ res s', AmlParser.parseDeferred d fuel obj s = .ok (res, s') ∧
      C13.WF s'.tree ∧ C13.live s'.tree 0 = true ∧
      (∀ i, C13.live s'.tree i = true → (opFlags (C13.slot s'.tree i).infoIndex).isSome = true) ∧
      s'.r.offset ≤ d.size ∧ s'.r.pkgEnd ≤ d.size ∧ (∀ x ∈ s'.scopeStack.toList, C13.live s'.tree x = true) ∧
      (∀ x, C13.live s.tree x = true → C13.live s'.tree x = true ∧ C13.P s'.tree x = C13.P s.tree x) ∧
      (res = .ok → AmlParser.S.MS X none s'.tree ∧ s'.scopeStack = s.scopeStack) := by
  obtain ⟨res, s', e, h', hold, hok⟩ := AmlParser.ST.parseDeferred_tot hd fuel obj h hnm hms hunf hobj hbud hfuel
  exact ⟨res, s', e, h'.tree.wf, h'.tree.root, h'.tree.info, h'.inv.1, h'.inv.2, h'.scopes, hold, hok⟩

example (d : Bytes) (t : ObjectTree) : 16 * d.size + 15 ≤ AmlParser.fuelFor d t := by
  unfold AmlParser.fuelFor; omega

/-- **The oracle's checks of the block hypotheses are sound**: when `blockAudit d s obj` reports nothing, `s` and
`obj` satisfy every hypothesis of `deferred_block_no_panic_WF`, with `X` = the `Method` objects of `s` that lack
their flags (`AmlParser.S.Inc`): each of them has a name starting with a zero byte and encloses neither the
root nor `obj`.  The replay driver evaluates `blockAudit` on the model's state in front of every `parseDeferred`
of every input (`auditDeferredBlocks`, the walk of `parseDeferredBlocks` with the check added) and reports a
violation as `clause=shape-hypothesis`. -/
theorem deferred_block_checks_sound (d : Bytes) (s : AmlParser.PState) (obj : Nat)
    (h : AmlParser.blockAudit d s obj = []) :
    AmlParser.G.FP d s ∧ AmlParser.S.StackNM s ∧ AmlParser.S.MS (AmlParser.S.Inc s.tree) none s.tree ∧
    AmlParser.S.UnF (AmlParser.S.Inc s.tree) s obj ∧ AmlParser.S.BlockOK s obj ∧
    s.tree.pool.size + 16 * d.size + 16 ≤ 4294967295 :=
  AmlParser.S.blockAudit_sound h

/-- the state the first pass returns satisfies the hypothesis of the tree-pass theorems -/
theorem first_pass_gives_TreeInv (d : Bytes) (s : AmlParser.PState) (h : AmlParser.G.FP d s) : AmlParser.TP s :=
  ⟨h.tree.wf, h.tree.root, h.tree.info⟩

/-- **`Parser.init` resets everything a used Parser carries** (tie to the compiled Go code): the harness fills a
`Parser` with stale scope / pkgEnd stacks, counters, mode and handle, calls the real `p.init` on an empty table and
prints what is left (`Gen.C12.initFromDirty`, regenerated on every run); the model's `init` run on the same dirty
state leaves exactly that — in particular both stacks are rebuilt (`scopeStack = []`, `pkgEndStack = [len]`), which
is what makes a rejected table harmless for the next `ParseAML` on the same `Parser`. -/
theorem init_resets_state :
    (match AmlParser.init (Array.replicate headerLen (0 : UInt8)) 5
        { scopeStack := #[1, 2, 3], pkgEndStack := #[7, 8], resolvePasses := 9, mergedScopes := 9, relocatedObjects := 9,
          allBlocks := true, tableHandle := 77 } with
      | .ok (_, s) => [s.scopeStack.size, s.pkgEndStack.size, s.resolvePasses, s.mergedScopes, s.relocatedObjects,
          (if s.allBlocks then 1 else 0), s.tableHandle, s.streamEnd, s.r.offset, s.r.pkgEnd]
      | .error _ => []) = initFromDirty := by decide

end Firefly.C12
