import Firefly.Proof.AmlLex
import Firefly.Proof.AmlParser
import Firefly.Model.AmlParser
/-!
# C12 — Malformed AML is rejected with an error, never a crash, hang or stray pointer

"For every byte sequence presented as an AML table, parsing terminates within a bound
proportional to the input and either succeeds or returns its parse error; it never panics,
overflows the stack or loops forever. Every string, name and buffer the resulting tree refers
to lies inside the table's bytes, and the tree remains a well-formed tree that can be traversed
and printed."

Every theorem quantifies over **all** tables `d : Array UInt8` (header included) and all reader
states inside the table.  What is proved here is the lexical layer (stream reader + every decoder
the parser is built from) and the sanity of the generated opcode tables; the statements about the
whole multi-pass parser (`parseAML`) are carried by the correspondence + mutational run of
`./check C12` and are named below as what is *not* closed.
-/
namespace Firefly.C12
open Firefly.AmlLex Firefly.AmlTree Firefly.Gen.C12

/-- **Reader invariant.** `offset ≤ len ∧ pkgEnd ≤ len` is preserved by every reader operation and
every lexical decoder, for every table, every argument and every reader state, and none of them
can end in `.panic` (a Go index panic) or `.outOfFuel` (`Safe` = returns normally ∧ keeps `Inv`). -/
theorem reader_inv (d : Bytes) :
    (∀ e, Safe d (setPkgEnd d e)) ∧ Safe d (readByte d) ∧ Safe d (peekByte d) ∧ Safe d unreadByte ∧
    Safe d (dataPtr d) ∧ (∀ off, Safe d (setOffset d off)) ∧
    Safe d (parsePkgLength d) ∧ (∀ n, Safe d (parseNumConstant d n)) ∧ Safe d (parseString d) ∧
    Safe d (parseNameString d) ∧ Safe d (nextOpcode d) ∧ Safe d (peekNextOpcode d) ∧
    (∀ n, Safe d (parseByteListRaw d n)) :=
  ⟨safe_setPkgEnd d, safe_readByte d, safe_peekByte d, safe_unreadByte d, safe_dataPtr d, safe_setOffset d,
   safe_parsePkgLength d, safe_parseNumConstant d, safe_parseString d, safe_parseNameString d,
   safe_nextOpcode d, safe_peekNextOpcode d, safe_parseByteListRaw d⟩

/-- the initial reader of `ParseAML` (`Init(header, header.Length, sizeof(SDTHeader))`) is inside
the table, whatever the table length (also shorter than a header) -/
theorem init_inv (d : Bytes) (off : Nat) : Inv d (Reader.init d off) := by
  constructor
  · show (if off > d.size then d.size else off) ≤ d.size
    split <;> omega
  · exact Nat.le_refl _

example : Inv (#[1, 2, 3] : Bytes) (Reader.init #[1, 2, 3] 36) := init_inv _ _


/-- **Every byte read lies below `pkgEnd`** (and so inside the table): the two primitives through
which the decoders touch the table return a byte only when `offset < pkgEnd`, and it is
`d[offset]`. (All decoders are compositions of these primitives; none indexes `d` itself.) -/
theorem reads_below_pkgEnd (d : Bytes) (r r' : Reader) (b : UInt8) :
    (readByte d r = .ok (some b, r') → r.offset < r.pkgEnd ∧ d[r.offset]? = some b ∧ r' = { r with offset := r.offset + 1 }) ∧
    (peekByte d r = .ok (some b, r') → r.offset < r.pkgEnd ∧ d[r.offset]? = some b ∧ r' = r) := by
  constructor
  · unfold readByte
    split
    · intro h; cases h
    · rename_i he
      split
      · rename_i b' hb
        intro h
        simp only [pure, Except.pure, Except.ok.injEq, Prod.mk.injEq, Option.some.injEq] at h
        obtain ⟨h1, h2⟩ := h
        subst h1; subst h2
        exact ⟨by simpa [Reader.eof] using he, hb, rfl⟩
      · intro h; cases h
  · unfold peekByte
    split
    · intro h; cases h
    · rename_i he
      split
      · rename_i b' hb
        intro h
        simp only [pure, Except.pure, Except.ok.injEq, Prod.mk.injEq, Option.some.injEq] at h
        obtain ⟨h1, h2⟩ := h
        subst h1; subst h2
        exact ⟨by simpa [Reader.eof] using he, hb, rfl⟩
      · intro h; cases h

/-- table sizes for which no `uint32` offset computation of the decoders can wrap
(`offset + 4*segCount` with `segCount ≤ 255`): tables shorter than 4 GiB − 1 KiB -/
def SizeOk (d : Bytes) : Prop := d.size + 1024 ≤ 4294967296

instance (d : Bytes) : Decidable (SizeOk d) := by unfold SizeOk; exact inferInstance

example : SizeOk (#[0x5b, 0x82] : Bytes) := by decide

/-- **Returned slices lie inside the table — lexical layer** (the decoders `slices_in_table` builds on): from every reader
state inside the table, the `[]byte` built by `parseString`, by `parseNameString` and by
`parseByteList` (for the two lengths the parser passes: `pkgEnd-offset` for a ByteList argument, and a
declared Connection-buffer length that was checked against `pkgEnd`) starts and ends inside `d`;
a successful `parseNameString` returns a slice that starts where the name started. -/
theorem lex_slices_in_table (d : Bytes) (hd : SizeOk d) (r : Reader) (h : Inv d r) :
    wp (parseString d) (fun a r' => Inv d r' ∧ SliceIn d a.1) r ∧
    wp (parseNameString d) (fun a r' => Inv d r' ∧ SliceIn d a.1 ∧ (a.2 = .ok → a.1.data = some r.offset)) r ∧
    (∀ n, r.offset + n ≤ r.pkgEnd → wp (parseByteListRaw d n) (fun sl r' => Inv d r' ∧ SliceIn d sl) r) ∧
    wp (parseByteListRaw d (u32 (r.pkgEnd + 4294967296 - r.offset))) (fun sl r' => Inv d r' ∧ SliceIn d sl) r :=
  ⟨parseString_slice d r h, parseNameString_slice d hd r h,
   fun n hn => parseByteListRaw_slice d n r h (Or.inr hn),
   parseByteListRaw_slice d _ r h (byteListArg_fits d (by unfold SizeOk at hd; omega) r h)⟩

/-- what the parser stores: a value made from an in-table slice is in-table (a nil-data slice is
stored as the empty slice, `runtime.convTslice`), and trimming a stored name to its last
segment (`relocateNamedObjects`: `namepath[nameIndex:]`) keeps it in-table -/
theorem stored_values (d : Bytes) :
    (∀ s : Slice, SliceIn d s → ∀ off len, AmlParser.sliceVal s = .bytes off len → off + len ≤ d.size) ∧
    (∀ off len k, off + len ≤ d.size → k ≤ len → (off + k) + (len - k) ≤ d.size) := by
  constructor
  · intro s hs off len hv
    unfold AmlParser.sliceVal at hv
    split at hv
    · simp only [Val.bytes.injEq] at hv; omega
    · rename_i o ho
      simp only [Val.bytes.injEq] at hv
      have := hs o ho
      omega
  · intro off len k h hk; omega

/-- executable form of the table checks (evaluated by the kernel in `opcode_table_sane`) -/
def tableChecks : Bool :=
  ((List.range 256).all fun op => opcodeMap.getD op 0 == badOpcode ||
      (opcodeTable[opcodeMap.getD op 0]?).map (·.1) == some op) &&
  ((List.range 256).all fun b => extendedOpcodeMap.getD b 0 == badOpcode ||
      (opcodeTable[extendedOpcodeMap.getD b 0]?).map (·.1) == some (0xff + b)) &&
  ((List.range 0x1ff).map fun op => pOpcodeTableIndex op false) == tableIndexStrict.toList &&
  ((List.range 0x1ff).map fun op => pOpcodeTableIndex op true) == tableIndexInternal.toList &&
  ((List.range 8).all fun i => (opcodeTable[pOpcodeTableIndex (0x1f6 + i) true]?).map (·.1) == some (0x1f6 + i)) &&
  (opcodeTable.toList.all fun e => e.2.2.2.1 ≤ 7 && e.2.2.2.1 == (e.2.2.2.2.takeWhile (· ≠ 0)).length)

set_option maxRecDepth 100000 in
/-- **Generated opcode tables are sane** (facts printed by the compiled Go code on this run):
every map entry is `badOpcode` or indexes inside the table and the row it names carries that opcode;
the model's `pOpcodeTableIndex` (with the internal-opcode formula) agrees with the compiled function
on every opcode value `0 … 0x1fe`, in both modes; the eight internal opcodes land on their own
rows; `argCount()` is the number of leading non-zero argument nibbles and at most 7; table opcodes
are distinct. -/
theorem opcode_table_sane : tableChecks = true ∧ (opcodeTable.toList.map (·.1)).Nodup :=
  ⟨by decide +kernel, by decide +kernel⟩

/-- **Totality, lexical part** (`C12.total` restricted to the functions listed): for every table and
every reader state inside it, `setPkgEnd`, `readByte`, `peekByte`, `unreadByte`, `dataPtr`,
`setOffset`, `parsePkgLength`, `parseNumConstant n`, `parseString`, `parseNameString`, `nextOpcode`,
`peekNextOpcode`, `parseByteList` return normally — never `.panic`, never `.outOfFuel` — where the two
loops (`parseString`, the prefix loop of `parseNameString`) run on fuel `len + 1`, linear in the input.
NOT covered (carried by the correspondence + mutational run only): the parser passes of
`parseAML` (`parseObjectList` … `connectNonNamedObjArgs`), whose `.panic`/`.outOfFuel` freedom needs the
object-tree invariant of C13 threaded through all passes. -/
theorem total_partial (d : Bytes) (r : Reader) (h : Inv d r) :
    (∀ n, ∃ a r', parseNumConstant d n r = .ok (a, r')) ∧ (∃ a r', parsePkgLength d r = .ok (a, r')) ∧
    (∃ a r', parseString d r = .ok (a, r')) ∧ (∃ a r', parseNameString d r = .ok (a, r')) ∧
    (∃ a r', nextOpcode d r = .ok (a, r')) ∧ (∃ a r', peekNextOpcode d r = .ok (a, r')) ∧
    (∀ n, ∃ a r', parseByteListRaw d n r = .ok (a, r')) := by
  have f : ∀ {α} {x : LexM α}, Safe d x → ∃ a r', x r = .ok (a, r') :=
    fun hx => let ⟨a, r', e, _⟩ := hx.run r h; ⟨a, r', e⟩
  exact ⟨fun n => f (safe_parseNumConstant d n), f (safe_parsePkgLength d), f (safe_parseString d),
    f (safe_parseNameString d), f (safe_nextOpcode d), f (safe_peekNextOpcode d),
    fun n => f (safe_parseByteListRaw d n)⟩

/-- the invariant the staged theorems below are about: reader window inside the table and every
`[]byte` value in the object pool inside the table (spelled out; `AmlParser.PInv` in the proofs) -/
def ParserInv (d : Bytes) (s : AmlParser.PState) : Prop :=
  (s.r.offset ≤ d.size ∧ s.r.pkgEnd ≤ d.size) ∧
  ∀ (i : Nat) (o : Obj), s.tree.pool[i]? = some o → ∀ off len, o.value = .bytes off len → off + len ≤ d.size

theorem parserInv_iff (d : Bytes) (s : AmlParser.PState) : ParserInv d s ↔ AmlParser.PInv d s := by
  constructor
  · intro h
    refine ⟨h.1, ?_⟩
    intro i o ho
    cases hv : o.value with
    | bytes off len => exact h.2 i o ho off len hv
    | _ => trivial
  · intro h
    refine ⟨h.1, ?_⟩
    intro i o ho off len hv
    have := h.2 i o ho
    rw [hv] at this; exact this

/-- **Stage (a), first pass** — `parseObjectList` and everything it calls (`parseNextObject`,
`parseObjectArgs`, `parseArgs`, `parseArg`, `parseSimpleArg`, `parseByteList`, `parseFieldElements`,
`parseNamePathOrMethodCall`, `parseStrictTermArg`, `parseTarget`, the scope/pkgEnd stacks), in both
parse modes, for every fuel: whenever it returns, the reader invariant holds and every stored slice
lies inside the table. -/
theorem first_pass_slices_in_table (d : Bytes) (hd : SizeOk d) (fuel n : Nat) (s : AmlParser.PState)
    (hs : ParserInv d s) : ∀ res s', AmlParser.parseObjectList d fuel n s = .ok (res, s') → ParserInv d s' := by
  intro res s' e
  exact (parserInv_iff d s').mpr ((AmlParser.keeps_parseObjectList hd fuel n).run s ((parserInv_iff d s).mp hs) res s' e).1

/-- **Stage (b), tree passes** — `connectNamedObjArgs`, `mergeScopeDirectives`, `relocateNamedObjects`
(incl. the relocation that trims a stored name to its last segment) and the resolve loop
(`resolveLoopPasses`): whenever they return, the invariant holds. -/
theorem tree_passes_slices_in_table (d : Bytes) (fuel n : Nat) (s : AmlParser.PState) (hs : ParserInv d s) :
    (∀ res s', AmlParser.connectNamedObjArgs d fuel 0 s = .ok (res, s') → ParserInv d s') ∧
    (∀ res s', AmlParser.mergeScopeDirectives d fuel 0 s = .ok (res, s') → ParserInv d s') ∧
    (∀ res s', AmlParser.relocateNamedObjects d fuel 0 s = .ok (res, s') → ParserInv d s') ∧
    (∀ res s', AmlParser.resolveLoopPasses d fuel n s = .ok (res, s') → ParserInv d s') := by
  have hs' := (parserInv_iff d s).mp hs
  refine ⟨?_, ?_, ?_, ?_⟩ <;> intro res s' e <;> apply (parserInv_iff d s').mpr
  · exact ((AmlParser.keeps_connectNamed (d := d) fuel).1 0).run s hs' res s' e |>.1
  · exact ((AmlParser.keeps_merge (d := d) fuel).1 0).run s hs' res s' e |>.1
  · exact ((AmlParser.keeps_relocate (d := d) fuel).1 0).run s hs' res s' e |>.1
  · exact (AmlParser.keeps_resolveLoopPasses (d := d) fuel n).run s hs' res s' e |>.1

/-- **Stage (c), deferred blocks and method calls** — `parseDeferredBlocks` (strict re-parse of
Buffer/While/BankField bodies), `resolveMethodCalls`, `connectNonNamedObjArgs`,
`attachSiblingsAsArgs`: whenever they return, the invariant holds. -/
theorem deferred_and_calls_slices_in_table (d : Bytes) (hd : SizeOk d) (fuel : Nat) (s : AmlParser.PState)
    (hs : ParserInv d s) :
    (∀ res s', AmlParser.parseDeferredBlocks d fuel fuel 0 s = .ok (res, s') → ParserInv d s') ∧
    (∀ res s', AmlParser.resolveMethodCalls d fuel 0 s = .ok (res, s') → ParserInv d s') ∧
    (∀ res s', AmlParser.connectNonNamedObjArgs fuel 0 s = .ok (res, s') → ParserInv d s') := by
  have hs' := (parserInv_iff d s).mp hs
  refine ⟨?_, ?_, ?_⟩ <;> intro res s' e <;> apply (parserInv_iff d s').mpr
  · exact ((AmlParser.keeps_deferred hd fuel fuel).1 0).run s hs' res s' e |>.1
  · exact ((AmlParser.keeps_resolve (d := d) fuel).1 0).run s hs' res s' e |>.1
  · exact ((AmlParser.keeps_connectNonNamed (d := d) fuel).1 0).run s hs' res s' e |>.1

/-- **Every stored slice lies inside the table — whole parser** (`C12.slices_in_table`, all passes:
`parseObjectList`, `connectNamedObjArgs`, the `mergeScopeDirectives`/`relocateNamedObjects` loop,
`parseDeferredBlocks`, `resolveMethodCalls`, `connectNonNamedObjArgs`).  For every table `d` with
`SizeOk d`, every fuel, every table handle and every parser state whose object pool holds only values
inside `d` (in particular the freshly created default scopes, which hold none): whenever
`parseAML` returns — with success **or** with its parse error — every `[]byte` value stored in the
resulting object pool (strings, names, buffers, connection byte lists, relocated name tails; live
and freed slots alike) satisfies `off + len ≤ len(d)`, and the reader window is inside the table.
(Partial correctness: runs of the model that end in `.panic`/`.outOfFuel` return no tree; that they do
not occur is `total`, of which `total_partial` below proves the lexical part.) -/
theorem slices_in_table (d : Bytes) (hd : SizeOk d) (fuel handle : Nat) (s : AmlParser.PState)
    (hs : ∀ (i : Nat) (o : Obj), s.tree.pool[i]? = some o → ∀ off len, o.value = .bytes off len → off + len ≤ d.size) :
    ∀ ok s', AmlParser.parseAML d fuel handle s = .ok (ok, s') →
      (∀ (i : Nat) (o : Obj), s'.tree.pool[i]? = some o → ∀ off len, o.value = .bytes off len → off + len ≤ d.size) ∧
      s'.r.offset ≤ d.size ∧ s'.r.pkgEnd ≤ d.size := by
  intro ok s' e
  have hs' : AmlParser.AllValsIn d s.tree := by
    intro i o ho
    cases hv : o.value with
    | bytes off len => exact hs i o ho off len hv
    | _ => trivial
  have := AmlParser.parseAML_keeps hd fuel handle s hs' ok s' e
  refine ⟨?_, this.1.1, this.1.2⟩
  intro i o ho off len hv
  have h := this.2 i o ho
  rw [hv] at h
  exact h

/-- non-vacuity of `slices_in_table`: the default-scope tree satisfies the hypothesis for every table -/
example (d : Bytes) : ∀ t, AmlParser.defaultTree 0 = .ok t →
    ∀ (i : Nat) (o : Obj), t.pool[i]? = some o → ∀ off len, o.value = .bytes off len → off + len ≤ d.size := by
  intro t ht
  have : t.pool.toList.all (fun o => o.value == Val.none) = true := by
    have h : (match AmlParser.defaultTree 0 with
      | .ok t => t.pool.toList.all (fun o => o.value == Val.none) | .error _ => false) = true := by decide +kernel
    rw [ht] at h; exact h
  intro i o ho off len hv
  have hm : o ∈ t.pool.toList := by
    have := Array.mem_of_getElem? ho
    exact Array.mem_toList_iff.mpr this
  have := (List.all_eq_true.mp this) o hm
  simp [hv] at this

end Firefly.C12
