import Firefly.Model.AmlLex
import Firefly.Model.AmlTree
/-!
# C11: the grammar subset as a Lean type, its encoder, and the namespace it denotes

`Prog` (= `List Obj`, one per table) is the subset of ASL the generator of `harness/aml/c11_test.go`
draws from; `encode` is its AML encoding (every PkgLength carries its forced width `w`, every integer
its encoding width, so the encoding is a function of the tree; the Go generator has a twin encoder
and the driver compares the two byte for byte); `namespaceOf` is the namespace ACPI's scoping rules
assign to a sequence of tables, written directly from the specification (ACPI 6.2 §5.3):

* a declaration's NamePath is taken relative to the current scope; `\` restarts at the root, each `^`
  drops one level; a declaration never searches upwards;
* `Scope(path)` re-opens an existing scope; a single-segment path without prefix is searched for in
  the current scope and then in every ancestor (the only place the search rule applies to
  declarations), any other path is taken relative;
* Device / Processor / PowerResource / ThermalZone / Method open a scope named by their own path;
* field units are declared in the scope of the Field that lists them.
Core Lean only.
-/
namespace Firefly.AmlProg
open Firefly.AmlLex

/-- NameString: root prefix, number of `^`, segments (4 characters each) -/
structure NameP where
  root : Bool := false
  carets : Nat := 0
  segs : List String := []
  deriving Repr, DecidableEq, Inhabited

inductive Data where
  /-- integer `v` in `w` bytes; `w = 0`: ZeroOp / OneOp / OnesOp -/
  | int (w v : Nat)
  | str (s : List UInt8)
  /-- Buffer(size){bytes}, PkgLength width `w` -/
  | buf (w size : Nat) (bytes : List UInt8)
  | pkg (w : Nat) (elems : List Data)
  deriving Repr, Inhabited

inductive Term where
  | int (w v : Nat)
  | loc (n : Nat)
  | arg (n : Nat)
  | call (name : NameP) (args : List Term)
  /-- Add(a, b, target): target `none` = NullName, `some l` = LocalL -/
  | add (a b : Term) (target : Option Nat)
  deriving Repr, Inhabited

inductive Stmt where
  | store (t : Term) (loc : Nat)
  | ret (t : Term)
  | call (name : NameP) (args : List Term)
  | ifs (w : Nat) (pred : Term) (body : List Stmt)
  | whiles (w : Nat) (pred : Term) (body : List Stmt)
  | noop
  deriving Repr, Inhabited

inductive FieldU where
  | named (name : String) (w bits : Nat)
  | reserved (w bits : Nat)
  | access (ty attr : Nat)
  /-- ExtendedAccessField: `0x03 type attrib length` -/
  | xaccess (ty attr len : Nat)
  /-- Connection with a NameString (one segment) -/
  | connName (seg : String)
  /-- Connection with BufferData: `0x02 0x11 PkgLength(w) 0x0a len bytes` -/
  | connBuf (w : Nat) (bytes : List UInt8)
  deriving Repr, Inhabited

inductive Obj where
  | name (n : NameP) (d : Data)
  | scope (w : Nat) (n : NameP) (body : List Obj)
  | device (w : Nat) (n : NameP) (body : List Obj)
  | method (w : Nat) (n : NameP) (flags : Nat) (body : List Stmt)
  | region (n : NameP) (space : Nat) (off len : Term)
  | field (w : Nat) (region : NameP) (flags : Nat) (units : List FieldU)
  | indexField (w : Nat) (idx dat : NameP) (flags : Nat) (units : List FieldU)
  /-- BankField(region, bank, value, flags){units}; `value` is an integer term -/
  | bankField (w : Nat) (region bank : NameP) (value : Term) (flags : Nat) (units : List FieldU)
  | mutex (n : NameP) (sync : Nat)
  | event (n : NameP)
  | processor (w : Nat) (n : NameP) (id addr len : Nat) (body : List Obj)
  | powerres (w : Nat) (n : NameP) (level order : Nat) (body : List Obj)
  | thermal (w : Nat) (n : NameP) (body : List Obj)
  /-- a call at definition level (legal in a table's term list) -/
  | call (name : NameP) (args : List Term)
  deriving Repr, Inhabited

/-! ## encoder -/

def segBytes (s : String) : List UInt8 := s.toList.map fun c => UInt8.ofNat c.toNat

def encNameP (n : NameP) : List UInt8 := encName n.root n.carets (n.segs.map segBytes)

/-- `op ++ PkgLength(w) ++ body`, the length counting its own `w` bytes -/
def encPkg (op : List UInt8) (w : Nat) (body : List UInt8) : List UInt8 :=
  op ++ encPkgLength (w + body.length) w ++ body

def encInt (w v : Nat) : List UInt8 :=
  if w = 0 then (if v = 0 then [0x00] else if v = 1 then [0x01] else [0xff])
  else if w = 1 then 0x0a :: encConst v 1
  else if w = 2 then 0x0b :: encConst v 2
  else if w = 4 then 0x0c :: encConst v 4
  else 0x0e :: encConst v 8

mutual
def encData : Data → List UInt8
  | .int w v => encInt w v
  | .str s => 0x0d :: encString s
  | .buf w size bytes => encPkg [0x11] w ([0x0a, UInt8.ofNat size] ++ bytes)
  | .pkg w elems => encPkg [0x12] w (UInt8.ofNat elems.length :: encDatas elems)
def encDatas : List Data → List UInt8
  | [] => []
  | d :: ds => encData d ++ encDatas ds
end

def encTarget : Option Nat → List UInt8
  | none => [0x00]
  | some l => [UInt8.ofNat (0x60 + l)]

mutual
def encTerm : Term → List UInt8
  | .int w v => encInt w v
  | .loc n => [UInt8.ofNat (0x60 + n)]
  | .arg n => [UInt8.ofNat (0x68 + n)]
  | .call name args => encNameP name ++ encTerms args
  | .add a b t => 0x72 :: (encTerm a ++ encTerm b ++ encTarget t)
def encTerms : List Term → List UInt8
  | [] => []
  | t :: ts => encTerm t ++ encTerms ts
end

mutual
def encStmt : Stmt → List UInt8
  | .store t l => 0x70 :: (encTerm t ++ [UInt8.ofNat (0x60 + l)])
  | .ret t => 0xa4 :: encTerm t
  | .call name args => encNameP name ++ encTerms args
  | .ifs w p body => encPkg [0xa0] w (encTerm p ++ encStmts body)
  | .whiles w p body => encPkg [0xa2] w (encTerm p ++ encStmts body)
  | .noop => [0xa3]
def encStmts : List Stmt → List UInt8
  | [] => []
  | s :: ss => encStmt s ++ encStmts ss
end

def encFieldU : FieldU → List UInt8
  | .named name w bits => segBytes name ++ encPkgLength bits w
  | .reserved w bits => 0x00 :: encPkgLength bits w
  | .access ty attr => [0x01, UInt8.ofNat ty, UInt8.ofNat attr]
  | .xaccess ty attr len => [0x03, UInt8.ofNat ty, UInt8.ofNat attr, UInt8.ofNat len]
  | .connName seg => 0x02 :: segBytes seg
  | .connBuf w bytes => encPkg [0x02, 0x11] w ([0x0a, UInt8.ofNat bytes.length] ++ bytes)

mutual
def encObj : Obj → List UInt8
  | .name n d => 0x08 :: (encNameP n ++ encData d)
  | .scope w n body => encPkg [0x10] w (encNameP n ++ encObjs body)
  | .device w n body => encPkg [0x5b, 0x82] w (encNameP n ++ encObjs body)
  | .method w n flags body => encPkg [0x14] w (encNameP n ++ [UInt8.ofNat flags] ++ encStmts body)
  | .region n space off len => [0x5b, 0x80] ++ encNameP n ++ [UInt8.ofNat space] ++ encTerm off ++ encTerm len
  | .field w region flags units => encPkg [0x5b, 0x81] w (encNameP region ++ [UInt8.ofNat flags] ++ (units.map encFieldU).flatten)
  | .indexField w idx dat flags units =>
    encPkg [0x5b, 0x86] w (encNameP idx ++ encNameP dat ++ [UInt8.ofNat flags] ++ (units.map encFieldU).flatten)
  | .bankField w region bank value flags units =>
    encPkg [0x5b, 0x87] w (encNameP region ++ encNameP bank ++ encTerm value ++ [UInt8.ofNat flags] ++ (units.map encFieldU).flatten)
  | .mutex n sync => [0x5b, 0x01] ++ encNameP n ++ [UInt8.ofNat sync]
  | .event n => [0x5b, 0x02] ++ encNameP n
  | .processor w n id addr len body =>
    encPkg [0x5b, 0x83] w (encNameP n ++ [UInt8.ofNat id] ++ encConst addr 4 ++ [UInt8.ofNat len] ++ encObjs body)
  | .powerres w n level order body =>
    encPkg [0x5b, 0x84] w (encNameP n ++ [UInt8.ofNat level] ++ encConst order 2 ++ encObjs body)
  | .thermal w n body => encPkg [0x5b, 0x85] w (encNameP n ++ encObjs body)
  | .call name args => encNameP name ++ encTerms args
def encObjs : List Obj → List UInt8
  | [] => []
  | o :: os => encObj o ++ encObjs os
end

/-- the AML payload (bytes after the table header) of one table -/
def encode (p : List Obj) : List UInt8 := encObjs p

/-! ## the namespace a sequence of tables denotes -/

abbrev Path := List String

/-- namespace: absolute path ↦ description (kind and arguments), in declaration order; and the call
sites (target path, number of arguments) -/
structure Namespace where
  objs : List (Path × String) := []
  /-- declared methods: path ↦ declared argument count (bits 0–2 of the flags) -/
  methods : List (Path × Nat) := []
  calls : List (Path × Nat) := []
  /-- declarations that ACPI's rules reject (target scope missing, `^` above the root) -/
  errors : List String := []
  deriving Repr, Inhabited

def Namespace.has (ns : Namespace) (p : Path) : Bool := ns.objs.any (·.1 == p)

/-- absolute path of a declaration `n` made in scope `scope` -/
def declPath (scope : Path) (n : NameP) : Option Path :=
  if n.root then some n.segs
  else if n.carets > scope.length then none
  else some (scope.take (scope.length - n.carets) ++ n.segs)

/-- upward search of a single segment: the scope itself, then each ancestor -/
def searchUp (ns : Namespace) (seg : String) : Nat → Path → Option Path
  | 0, _ => none
  | f+1, scope =>
    if ns.has (scope ++ [seg]) then some (scope ++ [seg])
    else if scope.isEmpty then none
    else searchUp ns seg f (scope.take (scope.length - 1))

/-- the object a name *reference* (Scope target, method call) denotes -/
def resolveRef (ns : Namespace) (scope : Path) (n : NameP) : Option Path :=
  if !n.root ∧ n.carets = 0 ∧ n.segs.length = 1 then searchUp ns (n.segs.headD "") (scope.length + 1) scope
  else match declPath scope n with
    | some p => if ns.has p ∨ p.isEmpty then some p else none
    | none => none


def hexNib (n : Nat) : Char := if n < 10 then Char.ofNat (48 + n) else Char.ofNat (87 + n)
def hexOf (bs : List UInt8) : String :=
  String.ofList (bs.flatMap fun b => [hexNib (b.toNat / 16), hexNib (b.toNat % 16)])

def intVal (w v : Nat) : Nat :=
  if w = 0 then (if v = 0 then 0 else if v = 1 then 1 else 18446744073709551615) else v % 256 ^ w

mutual
def dataDesc : Data → String
  | .int w v => s!"i{intVal w v}"
  | .str s => s!"s{hexOf s}"
  | .buf _ size bytes => s!"b{size % 256}:{hexOf bytes}"
  | .pkg _ elems => s!"p{elems.length % 256}[{",".intercalate (dataDescs elems)}]"
def dataDescs : List Data → List String
  | [] => []
  | d :: ds => dataDesc d :: dataDescs ds
end

def termDesc : Term → String
  | .int w v => s!"i{intVal w v}"
  | _ => "?"

-- call sites of a term, outermost first: (name, number of arguments written)
mutual
def termCalls : Term → List (NameP × Nat)
  | .call name args => (name, args.length) :: termsCalls args
  | .add a b _ => termCalls a ++ termCalls b
  | _ => []
def termsCalls : List Term → List (NameP × Nat)
  | [] => []
  | t :: ts => termCalls t ++ termsCalls ts
end

mutual
def stmtCalls : Stmt → List (NameP × Nat)
  | .store t _ => termCalls t
  | .ret t => termCalls t
  | .call name args => (name, args.length) :: termsCalls args
  | .ifs _ p body => termCalls p ++ stmtsCalls body
  | .whiles _ p body => termCalls p ++ stmtsCalls body
  | .noop => []
def stmtsCalls : List Stmt → List (NameP × Nat)
  | [] => []
  | s :: ss => stmtCalls s ++ stmtsCalls ss
end

/-- state of `namespaceOf`: the namespace so far and the call sites of the table being loaded -/
structure NsSt where
  ns : Namespace := {}
  pending : List (Path × NameP × Nat) := []
  deriving Inhabited

def NsSt.err (st : NsSt) (e : String) : NsSt := { st with ns := { st.ns with errors := st.ns.errors ++ [e] } }

/-- declare `p ↦ desc` (its parent scope must exist; names are unique per scope) -/
def NsSt.add (st : NsSt) (p : Path) (desc : String) : NsSt :=
  if st.ns.has p then st.err s!"duplicate:{".".intercalate p}"
  else if p.length > 1 ∧ !st.ns.has (p.take (p.length - 1)) then st.err s!"parent-missing:{".".intercalate p}"
  else { st with ns := { st.ns with objs := st.ns.objs ++ [(p, desc)] } }

def declUnits (scope : Path) : List FieldU → Nat → Nat → Nat → Nat → NsSt → NsSt
  | [], _, _, _, _, st => st
  | .named name _ bits :: us, off, acc, lock, upd, st =>
    declUnits scope us (off + bits) acc lock upd (st.add (scope ++ [name]) s!"field:{off}:{bits}:{acc}:{lock}:{upd}")
  | .reserved _ bits :: us, off, acc, lock, upd, st => declUnits scope us (off + bits) acc lock upd st
  | .access ty _ :: us, off, _, lock, upd, st => declUnits scope us off (ty % 256) lock upd st
  | .xaccess ty _ _ :: us, off, _, lock, upd, st => declUnits scope us off (ty % 256) lock upd st
  -- a Connection changes neither the running offset nor the access type of the units that follow
  | .connName _ :: us, off, acc, lock, upd, st => declUnits scope us off acc lock upd st
  | .connBuf _ _ :: us, off, acc, lock, upd, st => declUnits scope us off acc lock upd st

mutual
def declObj (scope : Path) : Obj → NsSt → NsSt
  | .name n d, st =>
    match declPath scope n with
    | some p => st.add p s!"name:{dataDesc d}"
    | none => st.err "caret-above-root"
  | .scope _ n body, st =>
    match resolveRef st.ns scope n with
    | some p => declObjs p body st
    | none => st.err "scope-target-missing"
  | .device _ n body, st =>
    match declPath scope n with
    | some p => declObjs p body (st.add p "device")
    | none => st.err "caret-above-root"
  | .method _ n flags body, st =>
    match declPath scope n with
    | some p =>
      let st := st.add p s!"method:{flags % 256}"
      let st := { st with ns := { st.ns with methods := st.ns.methods ++ [(p, flags % 8)] } }
      { st with pending := st.pending ++ (stmtsCalls body).map fun (nm, k) => (p, nm, k) }
    | none => st.err "caret-above-root"
  | .region n space off len, st =>
    match declPath scope n with
    | some p => st.add p s!"region:{space % 256}:{termDesc off}:{termDesc len}"
    | none => st.err "caret-above-root"
  | .field _ _ flags units, st =>
    declUnits scope units 0 (flags % 16) (flags / 16 % 2) (flags / 32 % 4) st
  | .indexField _ _ _ flags units, st =>
    declUnits scope units 0 (flags % 16) (flags / 16 % 2) (flags / 32 % 4) st
  | .bankField _ _ _ _ flags units, st =>
    declUnits scope units 0 (flags % 16) (flags / 16 % 2) (flags / 32 % 4) st
  | .mutex n sync, st =>
    match declPath scope n with
    | some p => st.add p s!"mutex:{sync % 256}"
    | none => st.err "caret-above-root"
  | .event n, st =>
    match declPath scope n with
    | some p => st.add p "event"
    | none => st.err "caret-above-root"
  | .processor _ n id addr len body, st =>
    match declPath scope n with
    | some p => declObjs p body (st.add p s!"processor:{id % 256}:{addr % 4294967296}:{len % 256}")
    | none => st.err "caret-above-root"
  | .powerres _ n level order body, st =>
    match declPath scope n with
    | some p => declObjs p body (st.add p s!"power:{level % 256}:{order % 65536}")
    | none => st.err "caret-above-root"
  | .thermal _ n body, st =>
    match declPath scope n with
    | some p => declObjs p body (st.add p "thermal")
    | none => st.err "caret-above-root"
  | .call name args, st =>
    { st with pending := st.pending ++ ((name, args.length) :: termsCalls args).map fun (nm, k) => (scope, nm, k) }
def declObjs (scope : Path) : List Obj → NsSt → NsSt
  | [], st => st
  | o :: os, st => declObjs scope os (declObj scope o st)
end

/-- resolve the call sites of the table just loaded: each must denote a method; the expected number
of attached arguments is the method's declared count (bits 0–2 of its flags) -/
def resolveCalls (st : NsSt) : NsSt :=
  let st' := st.pending.foldl (fun (acc : NsSt) (scope, nm, k) =>
    match resolveRef acc.ns scope nm with
    | some p =>
      match acc.ns.methods.find? (·.1 == p) with
      | some (_, argc) =>
        let acc := if argc ≠ k then acc.err "generator-arity" else acc
        { acc with ns := { acc.ns with calls := acc.ns.calls ++ [(p, argc)] } }
      | none => acc.err "call-target-not-method"
    | none => acc.err "call-unresolved") st
  { st' with pending := [] }

def defaultNs : Namespace :=
  { objs := [(["_GPE"], "scope"), (["_PR_"], "scope"), (["_SB_"], "scope"), (["_SI_"], "scope"), (["_TZ_"], "scope")] }

/-- the namespace denoted by loading the tables in order into the default namespace -/
def namespaceOf (tables : List (List Obj)) : Namespace :=
  (tables.foldl (fun st tbl => resolveCalls (declObjs [] tbl st)) ({ ns := defaultNs } : NsSt)).ns

/-! ## the namespace a parsed object tree holds (`nsOf`) -/

section
open Firefly.AmlTree (ObjectTree Name Val)
variable (t : ObjectTree) (tables : Array Bytes)

def nameStr (n : AmlTree.Name) : String := String.ofList (n.toList.map fun b => Char.ofNat b.toNat)

/-- the bytes of a `[]byte` value of an object of table `handle` -/
def valHex (o : AmlTree.Obj) : String :=
  match o.value with
  | .bytes off len => hexOf (sliceBytes (tables.getD (o.tableHandle - 1) #[]) off len)
  | _ => "?"

def kidsOf (i : Nat) : List Nat :=
  match t.args i with
  | .ok l => l
  | .error _ => []

/-- decimal value of an integer object, `?` if it is none -/
def natOf (i : Nat) : String :=
  match t.pool[i]? with
  | none => "?"
  | some o =>
    if o.opcode = 0x00 then "0" else if o.opcode = 0x01 then "1" else if o.opcode = 0xff then "18446744073709551615"
    else match o.value with
      | .u64 v => toString v
      | _ => "?"

def intOf (i : Nat) : String :=
  match t.pool[i]? with
  | none => "?"
  | some o =>
    if o.opcode = 0x00 then "i0" else if o.opcode = 0x01 then "i1" else if o.opcode = 0xff then "i18446744073709551615"
    else match o.value with
      | .u64 v => s!"i{v}"
      | _ => "?"

/-- description of a data object in the tree (same syntax as `dataDesc`) -/
def treeDataDesc : Nat → Nat → String
  | 0, _ => "?"
  | f+1, i =>
    match t.pool[i]? with
    | none => "?"
    | some o =>
      if o.opcode = 0x0d then s!"s{valHex tables o}"
      else if o.opcode = 0x11 then
        match kidsOf t i with
        | [sz, bl] => s!"b{natOf t sz}:{valHex tables (t.pool[bl]?.getD ({} : AmlTree.Obj))}"
        | _ => "b?"
      else if o.opcode = 0x12 then
        match kidsOf t i with
        | [cnt, sb] => s!"p{natOf t cnt}[{",".intercalate ((kidsOf t sb).map (treeDataDesc f))}]"
        | _ => "p?"
      else intOf t i

def u64Of (i : Nat) : String :=
  match t.pool[i]? with
  | some o => match o.value with | .u64 v => toString v | _ => "?"
  | none => "?"

/-- kind and arguments of a named object -/
def treeDesc (i : Nat) (o : AmlTree.Obj) : Option String :=
  let ks := kidsOf t i
  let k (n : Nat) : Nat := ks.getD n 4294967295
  if o.opcode = 0x08 then some s!"name:{treeDataDesc t tables 64 (k 1)}"
  else if o.opcode = 0x181 then some "device"
  else if o.opcode = 0x14 then some s!"method:{u64Of t (k 1)}"
  else if o.opcode = 0x17f then some s!"region:{u64Of t (k 1)}:{intOf t (k 2)}:{intOf t (k 3)}"
  else if o.opcode = 0x100 then some s!"mutex:{u64Of t (k 1)}"
  else if o.opcode = 0x101 then some "event"
  else if o.opcode = 0x182 then some s!"processor:{u64Of t (k 1)}:{u64Of t (k 2)}:{u64Of t (k 3)}"
  else if o.opcode = 0x183 then some s!"power:{u64Of t (k 1)}:{u64Of t (k 2)}"
  else if o.opcode = 0x184 then some "thermal"
  else if o.opcode = 0x1f9 then
    match o.value with
    | .field off width _ acc _ lock upd _ _ => some s!"field:{off}:{width}:{acc}:{lock}:{upd}"
    | _ => some "field:?"
  else none

/-- walk the tree: named objects with their absolute paths (and pool index), in tree order -/
def nsWalk : Nat → Nat → Path → List (Path × String × Nat)
  | 0, _, _ => []
  | f+1, i, path =>
    (kidsOf t i).flatMap fun c =>
      match t.pool[c]? with
      | none => []
      | some o =>
        if o.opcode = 0x1f6 then
          if i = 0 then (path ++ [nameStr o.name], "scope", c) :: nsWalk f c (path ++ [nameStr o.name])
          else nsWalk f c path
        else match treeDesc t tables c o with
          | some d => (path ++ [nameStr o.name], d, c) :: nsWalk f c (path ++ [nameStr o.name])
          | none => nsWalk f c path

/-- every method-call object reachable from `i`: (pool index of the target, number of arguments) -/
def callWalk : Nat → Nat → List (Nat × Nat)
  | 0, _ => []
  | f+1, i =>
    (kidsOf t i).flatMap fun c =>
      match t.pool[c]? with
      | none => []
      | some o =>
        (if o.opcode = 0x1fd then
          match o.value with
          | .idx m => [(m, (kidsOf t c).length)]
          | _ => [(4294967295, 0)]
         else []) ++ callWalk f c

/-- objects whose name-or-call ambiguity was never resolved (opcode `pOpIntNamePathOrMethodCall`) -/
def unresolvedWalk : Nat → Nat → Nat
  | 0, _ => 0
  | f+1, i => ((kidsOf t i).map fun c =>
      (match t.pool[c]? with | some o => if o.opcode = 0x1fc then 1 else 0 | none => 0) + unresolvedWalk f c).sum

/-- the namespace held by a parsed tree -/
def nsOf : Namespace :=
  let objs := nsWalk t tables (t.pool.size + 1) 0 []
  let calls := (callWalk t (t.pool.size + 1) 0).map fun (m, k) =>
    match objs.find? (·.2.2 == m) with
    | some (p, _, _) => (p, k)
    | none => (["?"], k)
  { objs := objs.map fun (p, d, _) => (p, d), calls := calls }

end

end Firefly.AmlProg
