import Firefly.Spec.C13
import Firefly.Model.AmlParser
/-!
Executable forms of the shape hypotheses of the tree-pass theorems of C12 (`MergeInv`, `CallShape`), and the
staged run of `ParseAML` that evaluates them at the points where the theorems assume them.  Core Lean only: the
replay driver runs `shapeAudit` on every input; `Proof/AmlMerge.lean` proves that the checks imply the
hypotheses.
-/
namespace Firefly.AmlParser
open Firefly.AmlLex Firefly.AmlTree Firefly.C13
open Firefly.Gen.C12

/-- a one-segment path does not start with a zero byte -/
def exprOKb (e : List UInt8) : Bool :=
  e.length != 4 || (match e[0]? with | some b => b != 0 | none => true)

/-- the shape of the `Scope` directive `x` (see `ShapeAt`) -/
def shapeAtB (d : Bytes) (t : ObjectTree) (x : Nat) : Bool :=
  (slot t x).name.b0 == 0 && (slot t x).infoIndex == pOpcodeTableIndex opScope true &&
  Fi t (Fi t x) == INV && Nx t (Fi t x) == La t x && (slot t (La t x)).opcode == opIntScopeBlock &&
  (slot t (Fi t x)).opcode != opIntScopeBlock &&
  (match (slot t (Fi t x)).value with
   | .bytes off len => exprOKb (sliceBytes d off len)
   | _ => false)

/-- `x` is a `Scope` directive of the table being parsed that still has arguments -/
def isDirB (s : PState) (x : Nat) : Bool :=
  live s.tree x && (slot s.tree x).opcode == opScope && (slot s.tree x).tableHandle == s.tableHandle && Fi s.tree x != INV

/-- the part of `MergeInv` that is not `TreeInv` -/
def mergeInvB (d : Bytes) (s : PState) : Bool :=
  C13.P s.tree 0 == INV && (slot s.tree 0).opcode == opIntScopeBlock &&
  (List.range s.tree.pool.size).all fun x => !isDirB s x || shapeAtB d s.tree x

/-- `CallShape` -/
def callShapeB (s : PState) : Bool :=
  (List.range s.tree.pool.size).all fun x =>
    !(live s.tree x && (slot s.tree x).opcode == opIntNamePathOrMethodCall) ||
      (match (slot s.tree x).value with | .bytes _ _ => true | _ => false)

/-- `ParseAML` stage by stage (the same calls in the same order as `parseAMLBody`), collecting the names of the
shape hypotheses that do not hold where a theorem assumes them: `MergeInv` after a first pass that did not fail,
`CallShape` before `resolveMethodCalls` -/
def shapeAudit (d : Bytes) (fuel handle : Nat) (s : PState) : List String :=
  match (do init d handle; scopeEnter 0; parseObjectList d fuel fuel : P PRes) s with
  | .error _ => []
  | .ok (r, s1) =>
    if r = .failed then [] else
    let f1 := if mergeInvB d s1 then [] else ["MergeInv-after-first-pass"]
    match connectNamedObjArgs d fuel 0 s1 with
    | .error _ => f1
    | .ok (r2, s2) =>
      if r2 ≠ .ok then f1 else
      match resolveLoopPasses d fuel fuel { s2 with resolvePasses := 1 } with
      | .error _ => f1
      | .ok (b3, s3) =>
        if !b3 then f1 else
        match parseDeferredBlocks d fuel fuel 0 s3 with
        | .error _ => f1
        | .ok (r4, s4) =>
          if r4 ≠ .ok then f1 else
          f1 ++ (if callShapeB s4 then [] else ["CallShape-before-resolveMethodCalls"])

end Firefly.AmlParser
