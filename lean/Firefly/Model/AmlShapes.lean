import Firefly.Spec.C13
import Firefly.Model.AmlParser
/-!
Executable forms of the shape hypotheses of the tree-pass theorems of C12 (`MergeInv`, `CallShape`), and the
staged run of `ParseAML` that evaluates them at the points where the theorems assume them.  Core Lean only: the
replay driver runs `shapeAudit` on every input; `Proof/AmlMerge.lean` proves that the checks imply the
hypotheses.
-/
namespace Firefly.AmlParser
open Firefly.AmlLex Firefly.AmlTree Firefly.C13
open Firefly.Gen.C12

/-- a one-segment path does not start with a zero byte -/
def exprOKb (e : List UInt8) : Bool :=
  e.length != 4 || (match e[0]? with | some b => b != 0 | none => true)

/-- the shape of the `Scope` directive `x` (see `ShapeAt`) -/
def shapeAtB (d : Bytes) (t : ObjectTree) (x : Nat) : Bool :=
  (slot t x).name.b0 == 0 && (slot t x).infoIndex == pOpcodeTableIndex opScope true &&
  Fi t (Fi t x) == INV && Nx t (Fi t x) == La t x && (slot t (La t x)).opcode == opIntScopeBlock &&
  (slot t (Fi t x)).opcode != opIntScopeBlock &&
  (match (slot t (Fi t x)).value with
   | .bytes off len => exprOKb (sliceBytes d off len)
   | _ => false)

/-- `x` is a `Scope` directive of the table being parsed that still has arguments -/
def isDirB (s : PState) (x : Nat) : Bool :=
  live s.tree x && (slot s.tree x).opcode == opScope && (slot s.tree x).tableHandle == s.tableHandle && Fi s.tree x != INV

/-- the part of `MergeInv` that is not `TreeInv` -/
def mergeInvB (d : Bytes) (s : PState) : Bool :=
  C13.P s.tree 0 == INV && (slot s.tree 0).opcode == opIntScopeBlock &&
  (List.range s.tree.pool.size).all fun x => !isDirB s x || shapeAtB d s.tree x

/-- the pool hypotheses of `C12.parse_prefix_no_panic_WF` for a table with handle `handle`: the root is a parentless
scope block, freed slots carry no name (`newObject` keeps the name of a slot it reuses), and no `Scope` object left
behind by an earlier table carries this table's handle -/
def poolHypB (t : ObjectTree) (handle : Nat) : Bool :=
  C13.P t 0 == INV && (slot t 0).opcode == opIntScopeBlock &&
  (List.range t.pool.size).all fun x =>
    (live t x || (slot t x).name.b0 == 0) &&
    (!live t x || (slot t x).opcode != opScope || (slot t x).tableHandle != handle)

/-- the `Method` `m` is complete: exactly three arguments — a childless name-path object, a childless byte constant (the
flags) and a scope block, each with its table row (`MK3` in `Proof/AmlMethodInv.lean`) -/
def methodOKB (t : ObjectTree) (m : Nat) : Bool :=
  let k1 := Fi t m
  let k2 := Nx t k1
  let k3 := Nx t k2
  live t k1 && live t k2 && live t k3 &&
  (match (slot t k2).value with | .u64 _ => true | _ => false) &&
  Fi t k1 == INV && Fi t k2 == INV &&
  (slot t k1).opcode == opIntNamePath && (slot t k2).opcode == opBytePrefix && (slot t k3).opcode == opIntScopeBlock &&
  (slot t k1).infoIndex == pOpcodeTableIndex opIntNamePath true && (slot t k2).infoIndex == pOpcodeTableIndex opBytePrefix true &&
  (slot t k3).infoIndex == pOpcodeTableIndex opIntScopeBlock true && (slot t m).infoIndex == pOpcodeTableIndex opMethod true &&
  Nx t k3 == INV && C13.P t m != INV

/-- the extra pool hypotheses of `C12.parse_prefix_first_block` / `C12.parse_no_panic_unless_block_succeeds`: every live
`Method` of the pool is complete, every unresolved name-or-call object is attached and holds a `[]byte`, and the root
carries the table row of a scope block -/
def methodsOKB (t : ObjectTree) : Bool :=
  ((List.range t.pool.size).all fun m => !live t m || (slot t m).opcode != opMethod || methodOKB t m) &&
  ((List.range t.pool.size).all fun x => !live t x || (slot t x).opcode != opIntNamePathOrMethodCall ||
    (C13.P t x != INV && (match (slot t x).value with | .bytes _ _ => true | _ => false))) &&
  (slot t 0).infoIndex == pOpcodeTableIndex opIntScopeBlock true

/-- the table row `i` is a deferred one (`pOpFlagDeferParsing`) -/
def deferB (i : Nat) : Bool := match opFlags i with | some fl => hasFlag fl flagDeferParsing | none => false

/-- `CallShape` -/
def callShapeB (s : PState) : Bool :=
  (List.range s.tree.pool.size).all fun x =>
    !(live s.tree x && (slot s.tree x).opcode == opIntNamePathOrMethodCall) ||
      (match (slot s.tree x).value with | .bytes _ _ => true | _ => false)

/-! ### the hypotheses of the per-block theorem of the strict pass (`C12.deferred_block_no_panic_WF`) -/

/-- the table row of `Method` -/
def methodRow : Nat := pOpcodeTableIndex opMethod true

/-- row `i` has at most seven arguments, its `TermList` follows a leading `PkgLen`, its `FieldList` a `ByteData`, its
`ByteList` a `TermArg` (the executable twin of `rowFacts` in `Proof/AmlRows.lean`) -/
def rowOKb (i : Nat) : Bool :=
  decide ((opArgCount i).getD 0 ≤ 7) &&
  (List.range 8).all fun j =>
    ((opArg i j).getD 0 != argTypeTermList || (decide (1 ≤ j) && (opArg i 0).getD 0 == argTypePkgLen)) &&
    ((opArg i j).getD 0 != argTypeFieldList || (decide (1 ≤ j) && (opArg i (j - 1)).getD 0 == argTypeByteData)) &&
    ((opArg i j).getD 0 != argTypeByteList || (decide (1 ≤ j) && (opArg i (j - 1)).getD 0 == argTypeTermArg))

/-- `m` has a first and a second argument and the second holds an integer -/
def shB (t : ObjectTree) (m : Nat) : Bool :=
  live t (Fi t m) && live t (Nx t (Fi t m)) &&
    (match (slot t (Nx t (Fi t m))).value with | .u64 _ => true | _ => false)

/-- every live `Method` has its flags argument, or nobody can find it: it has no name (first byte zero) and
encloses neither the root nor `ref` — what a rejected earlier table may leave behind -/
def unfB (t : ObjectTree) (ref : Nat) : Bool :=
  (List.range t.pool.size).all fun m => !(live t m && (slot t m).opcode == opMethod) || shB t m ||
    ((slot t m).name.b0 == 0 && !C13.isAncestorOrSelf t m t.fuel 0 && !C13.isAncestorOrSelf t m t.fuel ref)

/-- no `Method` on the scope stack -/
def stackNMb (s : PState) : Bool := s.scopeStack.toList.all fun x => (slot s.tree x).opcode != opMethod

/-- the parser state is well formed: reader inside the table, `C13.WF` pool with a live root and table indices in
range, every scope-stack entry live -/
def fpB (d : Bytes) (s : PState) : Bool :=
  decide (s.r.offset ≤ d.size) && decide (s.r.pkgEnd ≤ d.size) &&
  wfCheck s.tree && live s.tree 0 &&
  ((List.range s.tree.pool.size).all fun x => !live s.tree x || (opFlags (slot s.tree x).infoIndex).isSome) &&
  s.scopeStack.toList.all fun x => live s.tree x

/-- the deferred object: live, a row the argument parser understands, not a `Method`, attached under a non-`Method` -/
def blockOKb (s : PState) (obj : Nat) : Bool :=
  live s.tree obj && rowOKb (slot s.tree obj).infoIndex &&
  ((slot s.tree obj).opcode != opMethod) && ((slot s.tree obj).infoIndex != methodRow) &&
  (C13.P s.tree obj != INV) && ((slot s.tree (C13.P s.tree obj)).opcode != opMethod)

/-- the hypotheses of the per-block theorem that do not hold in `s` for the deferred object `obj` -/
def blockAudit (d : Bytes) (s : PState) (obj : Nat) : List String :=
  (if fpB d s then [] else ["deferred-block:state-well-formed"]) ++
  (if stackNMb s then [] else ["deferred-block:no-method-on-scope-stack"]) ++
  (if unfB s.tree obj then [] else ["deferred-block:methods-have-flags-or-unreachable"]) ++
  (if blockOKb s obj then [] else ["deferred-block:block-object"]) ++
  (if s.tree.pool.size + 16 * d.size + 16 ≤ INV then [] else ["deferred-block:object-budget"])

mutual
/-- `parseDeferredBlocks(objIndex)` with the hypotheses of the per-block theorem evaluated in front of every
`parseDeferred` (same walk, same calls) -/
def auditDeferredBlocks (d : Bytes) (fuel : Nat) : Nat → Nat → PState → List String → Res (PRes × PState × List String)
  | 0, _, _, _ => .error .outOfFuel
  | f+1, objIndex, s, acc =>
    match s.tree.ObjectAt objIndex with
    | none => .error .panic
    | some obj =>
      let o := slot s.tree obj
      match opFlags o.infoIndex with
      | none => .error .panic
      | some flags =>
        if hasFlag flags flagDeferParsing ∧ o.tableHandle = s.tableHandle then
          match parseDeferred d fuel obj s with
          | .ok (r, s') => .ok (r, s', acc ++ ("#block" :: blockAudit d s obj))
          | .error e => .error e
        else auditDeferredLoop d fuel f o.firstArgIndex s acc

def auditDeferredLoop (d : Bytes) (fuel : Nat) : Nat → Nat → PState → List String → Res (PRes × PState × List String)
  | 0, _, _, _ => .error .outOfFuel
  | f+1, argIndex, s, acc =>
    if argIndex = invalidIndex then .ok (.ok, s, acc)
    else
      match auditDeferredBlocks d fuel f argIndex s acc with
      | .error e => .error e
      | .ok (r, s1, acc1) =>
        if r ≠ .ok then .ok (.failed, s1, acc1)
        else
          match s1.tree.ObjectAt argIndex with
          | none => .error .panic
          | some a => auditDeferredLoop d fuel f (slot s1.tree a).nextSiblingIndex s1 acc1
end

/-- some attached object of `s` with a deferred table row is parsed successfully by `parseDeferred`
(`F.BlockSucceeds` in `Proof/AmlPrefixBlock.lean`) -/
def blockSucceedsB (d : Bytes) (fuel : Nat) (s : PState) : Bool :=
  (List.range s.tree.pool.size).any fun obj =>
    live s.tree obj && C13.P s.tree obj != INV && deferB (slot s.tree obj).infoIndex &&
    (match parseDeferred d fuel obj s with | .ok (.ok, _) => true | _ => false)

/-- `ParseAML` stage by stage (the same calls in the same order as `parseAMLBody`), collecting the names of the
shape hypotheses that do not hold where a theorem assumes them: `MergeInv` after a first pass that did not fail,
the hypotheses of the per-block theorem in front of every deferred block (one `#block` marker per block that was
checked), `CallShape` before `resolveMethodCalls` -/
def shapeAudit (d : Bytes) (fuel handle : Nat) (s : PState) : List String :=
  -- a marker (statistic): do the pool hypotheses of the theorem that derives `MergeInv` hold for this table?
  let f0 := [if poolHypB s.tree handle then "#pool-hyp-holds" else "#pool-hyp-fails",
             if methodsOKB s.tree then "#methods-hyp-holds" else "#methods-hyp-fails"]
  -- a marker (statistic): is the run covered by `C12.parse_no_panic_unless_block_succeeds`?
  let hyp := poolHypB s.tree handle && methodsOKB s.tree
  let cov := fun (c : Bool) => [if hyp && c then "#whole-parse-covered" else "#whole-parse-open"]
  match (do init d handle; scopeEnter 0; parseObjectList d fuel fuel : P PRes) s with
  | .error _ => f0
  | .ok (r, s1) =>
    if r = .failed then f0 ++ cov true else
    let f1 := f0 ++ (if mergeInvB d s1 then [] else ["MergeInv-after-first-pass"])
    match connectNamedObjArgs d fuel 0 s1 with
    | .error _ => f1
    | .ok (r2, s2) =>
      if r2 ≠ .ok then f1 ++ cov true else
      match resolveLoopPasses d fuel fuel { s2 with resolvePasses := 1 } with
      | .error _ => f1
      | .ok (b3, s3) =>
        if !b3 then f1 ++ cov true else
        let f1 := f1 ++ cov (!blockSucceedsB d fuel s3)
        match auditDeferredBlocks d fuel fuel 0 s3 [] with
        | .error _ => f1
        | .ok (r4, s4, f4) =>
          if r4 ≠ .ok then f1 ++ f4 else
          f1 ++ f4 ++ (if callShapeB s4 then [] else ["CallShape-before-resolveMethodCalls"])

end Firefly.AmlParser
