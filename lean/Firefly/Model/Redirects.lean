import Firefly.Gen.C20
/-!
# Model of `kbuild`'s `Context.FindRedirects` (/repo/kbuild/redirects.go) — property C20

The code: `filepath.Walk(".")` collects every path with `filepath.Ext(path) == ".go"` that does
not end in `_test.go`; each collected file is parsed and, for every function declaration that
has a doc comment group, every comment of the group whose text starts with the directive
`//go:redirect-from` appends `(TrimSpace(TrimPrefix(text, directive)), pkgPrefix/dir + "." + name)`
to `ctx.Redirects`.

Abstraction (trusted, checked by the correspondence run on generated trees): `go/parser`'s
attachment of comment groups to declarations is *input* (a file is its list of declarations
with their doc comments, plus all other comments); `filepath.Walk` visits the entries of each
directory in `sort.Strings` order of their names, descending into directories where they sort.

Core Lean only (linked into the replay driver).
-/
namespace Firefly.Redirects

/-- A top-level declaration as `FindRedirects` can tell them apart: a function (or method)
declaration with the comments of its doc group (each comment's complete text, `//…` or
`/*…*/`), or anything else (`var`, `type`, `const`, `import`) with its doc group. -/
inductive Decl where
  | func (name : String) (doc : List String)
  | other (doc : List String)
  deriving Repr, DecidableEq, Inhabited

/-- A file: its name, its top-level declarations in source order, and the text of every
comment that is *not* part of a top-level declaration's doc group (file header, free-standing
groups, comments inside bodies, on fields, on specs, trailing comments; for a file that is not
Go source: whatever it contains). -/
structure File where
  name : String
  decls : List Decl
  comments : List String
  deriving Repr, DecidableEq, Inhabited

/-- A directory entry.  Entries are listed in the order the file system happens to return
them; the walk sorts. -/
inductive Entry where
  | file (f : File)
  | dir (name : String) (entries : List Entry)
  deriving Repr, Inhabited

/-- The tree rooted at the build's working directory: the entries of `.`. -/
abbrev Tree := List Entry

def Entry.name : Entry → String
  | .file f => f.name
  | .dir n _ => n

/-- `(source symbol, destination symbol)` -/
abbrev Redirect := String × String

/-! ## Go library functions used by the code -/

/-- `unicode.IsSpace` -/
def isGoSpace (c : Char) : Bool :=
  let n := c.toNat
  n == 0x20 || (0x09 ≤ n && n ≤ 0x0d) || n == 0x85 || n == 0xa0 || n == 0x1680 ||
  (0x2000 ≤ n && n ≤ 0x200a) || n == 0x2028 || n == 0x2029 || n == 0x202f || n == 0x205f || n == 0x3000

/-- `strings.TrimSpace` -/
def trimSpace (cs : List Char) : List Char :=
  ((cs.dropWhile isGoSpace).reverse.dropWhile isGoSpace).reverse

/-- `strings.HasSuffix` -/
def hasSuffix (s suffix : String) : Bool := suffix.toList.isSuffixOf s.toList

/-- The file filter of the walk callback: `filepath.Ext(path) == ".go"` (the extension starts at
the last dot of the last path element, so this is "the name ends in `.go`") and
`!strings.HasSuffix(path, "_test.go")` (the suffix contains no separator, so only the name
matters). -/
def isSourceFile (name : String) : Bool :=
  hasSuffix name ".go" && !hasSuffix name "_test.go"

/-- `strings.HasPrefix(text, redirectComment)` and, if so,
`strings.TrimSpace(strings.TrimPrefix(text, redirectComment))`. -/
def directiveSrc (text : String) : Option String :=
  let p := Gen.C20.redirectComment.toList
  if p.isPrefixOf text.toList then some (String.ofList (trimSpace (text.toList.drop p.length))) else none

/-- `path.Join(pkgPrefix, filepath.ToSlash(filepath.Dir(file)))` for a file in the directory
reached through `dirs` from the root (`filepath.Dir` of a root file is `.`, which `Join` drops). -/
def pkgPath (dirs : List String) : String :=
  "/".intercalate (Gen.C20.pkgPrefix :: dirs)

/-- `fmt.Sprintf("%s.%s", pkgPath, decl.Name)` -/
def qualify (dirs : List String) (fn : String) : String :=
  pkgPath dirs ++ "." ++ fn

/-! ## The walk: `sourceFiles` -/

/-- insert into a list sorted by key (stable: after smaller keys, before equal ones) -/
def insertByName {α : Type} (x : String × α) : List (String × α) → List (String × α)
  | [] => [x]
  | y :: ys => if y.1 < x.1 then y :: insertByName x ys else x :: y :: ys

/-- `sort.Strings` of `readDirNames` (Go compares strings byte-wise; on UTF-8 that is code-point
order, which is `String`'s `<`) -/
def sortByName {α : Type} : List (String × α) → List (String × α)
  | [] => []
  | x :: xs => insertByName x (sortByName xs)

mutual
/-- paths collected below one entry: `(directories from the root, file)` in walk order -/
def walkEntry (dirs : List String) : Entry → List (List String × File)
  | .file f => if isSourceFile f.name then [(dirs, f)] else []
  | .dir n es => (sortByName (walkKeyed (dirs ++ [n]) es)).flatMap (·.2)
/-- each entry of a directory with what the walk collects below it, keyed by name -/
def walkKeyed (dirs : List String) : List Entry → List (String × List (List String × File))
  | [] => []
  | e :: es => (e.name, walkEntry dirs e) :: walkKeyed dirs es
end

/-- the `sourceFiles` slice after `filepath.Walk(".")` -/
def sourceFiles (t : Tree) : List (List String × File) :=
  (sortByName (walkKeyed [] t)).flatMap (·.2)

/-! ## The collection loop -/

/-- the inner loop over `decl.Doc.List` -/
def docRedirects (dirs : List String) (fn : String) (doc : List String) : List Redirect :=
  doc.filterMap fun text => (directiveSrc text).map fun src => (src, qualify dirs fn)

/-- one declaration: `*ast.FuncDecl` with a doc group, or skipped -/
def declRedirects (dirs : List String) : Decl → List Redirect
  | .func fn doc => docRedirects dirs fn doc
  | .other _ => []

/-- The collection with the order in which the declarations of one file are visited left
open: `ord` is applied to each file's declaration list. -/
def findRedirectsOrd (ord : List Decl → List Decl) (t : Tree) : List Redirect :=
  (sourceFiles t).flatMap fun (dirs, f) => (ord f.decls).flatMap (declRedirects dirs)

/-- The order in which the code visits the declarations of a file.  If the generated fact says
that the collection loop ranges over a Go map, the order is whatever the run time picks for
this run (`π`); otherwise it is source order. -/
def declOrder (π : List Decl → List Decl) : List Decl → List Decl :=
  if Gen.C20.rangesOverMap then π else id

/-- `Context.FindRedirects` as coded; `π` is the run time's choice of map iteration order (only
consulted when the code ranges over a map). -/
def findRedirectsWith (π : List Decl → List Decl) (t : Tree) : List Redirect :=
  findRedirectsOrd (declOrder π) t

/-- the executable model used by the replay driver (source order) -/
def findRedirects (t : Tree) : List Redirect := findRedirectsWith id t

/-! ## Specification: the annotations of a tree

No sorting, no iteration order: just "every directive comment in the doc group of a function
declaration of a non-test `.go` file", in listing order. -/

/-- the annotations of one file located in `dirs` -/
def fileAnnotations (dirs : List String) (f : File) : List Redirect :=
  if isSourceFile f.name then f.decls.flatMap (declRedirects dirs) else []

mutual
def entryAnnotations (dirs : List String) : Entry → List Redirect
  | .file f => fileAnnotations dirs f
  | .dir n es => listAnnotations (dirs ++ [n]) es
def listAnnotations (dirs : List String) : List Entry → List Redirect
  | [] => []
  | e :: es => entryAnnotations dirs e ++ listAnnotations dirs es
end

/-- every redirect annotation of the tree, one element per annotation -/
def annotations (t : Tree) : List Redirect := listAnnotations [] t

/-- `FileAt t ds f`: the file `f` sits in the tree `t` below the directories `ds` (outermost
first; `[]` = directly in the root). -/
inductive FileAt : List Entry → List String → File → Prop
  | here {es : List Entry} {f : File} : Entry.file f ∈ es → FileAt es [] f
  | under {es sub : List Entry} {n : String} {ds : List String} {f : File} :
      Entry.dir n sub ∈ es → FileAt sub ds f → FileAt es (n :: ds) f

/-! ## What the property says must be ignored -/

/-- a doc-group comment that carries the directive -/
def isDirective (text : String) : Bool := (directiveSrc text).isSome

def Decl.strip : Decl → Decl
  | .func fn doc => .func fn (doc.filter isDirective)
  | .other _ => .other []

/-- keep of a file only what may contribute: nothing of a test / non-`.go` file; of a source
file only the directive comments in the doc groups of functions -/
def File.strip (f : File) : File :=
  if isSourceFile f.name then { name := f.name, decls := f.decls.map Decl.strip, comments := [] }
  else { name := f.name, decls := [], comments := [] }

mutual
def Entry.strip : Entry → Entry
  | .file f => .file f.strip
  | .dir n es => .dir n (stripList es)
def stripList : List Entry → List Entry
  | [] => []
  | e :: es => e.strip :: stripList es
end

/-! ## Canonical form: every directory listed in name order -/

def insertEntry (x : Entry) : List Entry → List Entry
  | [] => [x]
  | y :: ys => if y.name < x.name then y :: insertEntry x ys else x :: y :: ys

def sortEntries : List Entry → List Entry
  | [] => []
  | x :: xs => insertEntry x (sortEntries xs)

mutual
def Entry.canon : Entry → Entry
  | .file f => .file f
  | .dir n es => .dir n (sortEntries (canonList es))
def canonList : List Entry → List Entry
  | [] => []
  | e :: es => e.canon :: canonList es
end

/-- the tree with the listing of every directory, at every depth, sorted by name -/
def canonical (t : Tree) : Tree := sortEntries (canonList t)

end Firefly.Redirects
