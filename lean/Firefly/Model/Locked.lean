/-!
# Lock discipline and lock-protected objects (C09)

Two independent pieces, both core Lean and executable.

**(a) Skeletons.**  `Skel` is the control-flow skeleton of a Go method as far as a lock is concerned:
`acquire`/`release` are the calls `alloc.mutex.Acquire()` / `alloc.mutex.Release()`, `touch` is a
statement or expression that reads or writes state the lock protects, `peek` reads state that is
written during initialisation only, `ret`/`brk`/`cont` are `return`/`break`/`continue`, `ite` and
`loop` are `if` and `for` (condition, body, post statement).  `Runs s tr x` is the nondeterministic
trace semantics: conditions evaluate either way and loops iterate any number of times.
`disciplined s` is an abstract interpretation over the three phases of a call
(`pre`: lock not yet taken, `held`, `done`: released) that accepts `s` only if on *every* path
the method takes the lock exactly once, touches protected state only while holding it, and has
released it at every `return` and at the end of the body.

**(b) The machine.**  A shared state `σ`, one lock (`holder : Option Nat`; an acquire step is
enabled only while the lock is free — what C08 proves of the spinlock), and any number of threads.
Every thread repeatedly asks its client for the next operation (the choice may depend on the results
of its earlier operations), acquires the lock, executes the operation's finite list of atomic
micro-steps on `σ × scratch`, and releases.  `step S s i` lets thread `i` take one step; a schedule is
any sequence of thread choices.  `log` is a ghost variable: the operations in acquire order.
-/
namespace Firefly.Locked

/-! ## (a) skeletons -/

inductive Skel where
  | acquire | release | touch | peek | ret | skip | brk | cont
  | seq (a b : Skel)
  | ite (c t e : Skel)
  | loop (c body post : Skel)
deriving Repr, DecidableEq

/-- a statement list -/
def Skel.block : List Skel → Skel
  | [] => .skip
  | [a] => a
  | a :: b :: rest => .seq a (Skel.block (b :: rest))

inductive Ev where | acq | rel | tch | pk
deriving Repr, DecidableEq

/-- how a statement ends: falls through, `break`, `continue`, `return` -/
inductive Exit where | fall | brk | cont | ret
deriving Repr, DecidableEq

/-- Trace semantics.  Conditions and post statements are expressions / simple statements, which
cannot transfer control in Go: they only fall through (`disciplined` rejects skeletons where they
are anything but `touch`/`peek`/`skip` sequences). -/
inductive Runs : Skel → List Ev → Exit → Prop
  | acquire : Runs .acquire [.acq] .fall
  | release : Runs .release [.rel] .fall
  | touch : Runs .touch [.tch] .fall
  | peek : Runs .peek [.pk] .fall
  | ret : Runs .ret [] .ret
  | skip : Runs .skip [] .fall
  | brk : Runs .brk [] .brk
  | cont : Runs .cont [] .cont
  | seqFall {a b ta tb x} : Runs a ta .fall → Runs b tb x → Runs (.seq a b) (ta ++ tb) x
  | seqExit {a b ta x} : Runs a ta x → x ≠ .fall → Runs (.seq a b) ta x
  | iteThen {c t e tc tt x} : Runs c tc .fall → Runs t tt x → Runs (.ite c t e) (tc ++ tt) x
  | iteElse {c t e tc te x} : Runs c tc .fall → Runs e te x → Runs (.ite c t e) (tc ++ te) x
  /-- the condition is false: the loop ends -/
  | loopDone {c b p tc} : Runs c tc .fall → Runs (.loop c b p) tc .fall
  | loopBrk {c b p tc tb} : Runs c tc .fall → Runs b tb .brk → Runs (.loop c b p) (tc ++ tb) .fall
  | loopRet {c b p tc tb} : Runs c tc .fall → Runs b tb .ret → Runs (.loop c b p) (tc ++ tb) .ret
  /-- one full iteration (the body falls through or `continue`s, then the post statement), then
  the loop again -/
  | loopIter {c b p tc tb tp tr x y} : Runs c tc .fall → Runs b tb x → (x = .fall ∨ x = .cont) →
      Runs p tp .fall → Runs (.loop c b p) tr y → Runs (.loop c b p) (tc ++ tb ++ tp ++ tr) y

/-- phase of one call with respect to the lock -/
inductive Ph where | pre | held | done
deriving Repr, DecidableEq

/-- the only legal moves: `pre —acq→ held —tch*→ held —rel→ done`; `peek` is allowed anywhere -/
def Ph.ev : Ph → Ev → Option Ph
  | .pre, .acq => some .held
  | .held, .tch => some .held
  | .held, .rel => some .done
  | p, .pk => some p
  | _, _ => none

/-- run a trace through the phase automaton; `none` = the trace breaks the discipline -/
def wb : Ph → List Ev → Option Ph
  | p, [] => some p
  | p, e :: es => match p.ev e with
    | some q => wb q es
    | none => none

/-- conditions and post statements: no lock operation, no control transfer -/
def simple : Skel → Bool
  | .touch | .peek | .skip => true
  | .seq a b => simple a && simple b
  | _ => false

/-- abstract result of a statement started in a given phase: the phase in which it can fall through /
`break` / `continue` (`none` = that exit is impossible) -/
structure Outs where
  fall : Option Ph := none
  brk : Option Ph := none
  cont : Option Ph := none
deriving Repr, DecidableEq

/-- two paths reaching the same point must agree on the phase; outer `none` = they do not -/
def joinPh : Option Ph → Option Ph → Option (Option Ph)
  | none, b => some b
  | some a, none => some (some a)
  | some a, some b => if a = b then some (some a) else none

def Outs.join (a b : Outs) : Option Outs :=
  match joinPh a.fall b.fall, joinPh a.brk b.brk, joinPh a.cont b.cont with
  | some f, some k, some c => some ⟨f, k, c⟩
  | _, _, _ => none

/-- the abstract interpreter; `none` = some path breaks the discipline (or the analysis cannot
give every program point a single phase) -/
def check : Skel → Ph → Option Outs
  | .acquire, p => (p.ev .acq).map fun q => { fall := some q }
  | .release, p => (p.ev .rel).map fun q => { fall := some q }
  | .touch, p => (p.ev .tch).map fun q => { fall := some q }
  | .peek, p => some { fall := some p }
  | .skip, p => some { fall := some p }
  | .ret, p => if p = .done then some {} else none
  | .brk, p => some { brk := some p }
  | .cont, p => some { cont := some p }
  | .seq a b, p =>
    match check a p with
    | none => none
    | some oa =>
      match oa.fall with
      | none => some oa
      | some q =>
        match check b q with
        | none => none
        | some ob => Outs.join { oa with fall := none } ob
  | .ite c t e, p =>
    if !simple c then none else
    match check c p with
    | none => none
    | some _ =>
      match check t p, check e p with
      | some ot, some oe => Outs.join ot oe
      | _, _ => none
  | .loop c b post, p =>
    if !(simple c && simple post) then none else
    match check c p with
    | none => none
    | some _ =>
      match check b p with
      | none => none
      | some ob =>
        match joinPh ob.fall ob.cont with
        | none => none
        | some none => (joinPh (some p) ob.brk).map fun ex => { fall := ex }
        | some (some r) =>
          match check post r with
          | none => none
          | some _ => if r = p then (joinPh (some p) ob.brk).map fun ex => { fall := ex } else none

/-- every path: lock taken exactly once, protected state touched only inside, lock released at
every `return` and at the end of the body; no stray `break`/`continue` -/
def disciplined (s : Skel) : Bool :=
  match check s .pre with
  | some o => (o.fall == none || o.fall == some .done) && o.brk == none && o.cont == none
  | none => false

/-! ## (b) the concurrent machine -/

/-- an operation on the shared object: initial scratch value and a finite list of atomic
micro-steps on `(shared state, scratch)`; the final scratch value is the operation's result -/
structure MicroOp (σ ρ : Type) where
  init : ρ
  steps : List (σ × ρ → σ × ρ)

def exec {σ ρ : Type} (steps : List (σ × ρ → σ × ρ)) (x : σ × ρ) : σ × ρ := steps.foldl (fun x f => f x) x

/-- the operation executed alone, start to end -/
def MicroOp.run {σ ρ : Type} (m : MicroOp σ ρ) (s : σ) : σ × ρ := exec m.steps (s, m.init)

/-- `sem`: what each operation name does; `client i h`: the next operation thread `i` issues after
the history `h` of its own completed operations and their results (`none`: the thread is finished) -/
structure Sys (σ ρ O : Type) where
  sem : O → MicroOp σ ρ
  client : Nat → List (O × ρ) → Option O

structure Thread (σ ρ O : Type) where
  hist : List (O × ρ) := []
  /-- inside the critical section: operation, micro-steps still to do, scratch -/
  cur : Option (O × List (σ × ρ → σ × ρ) × ρ) := none

structure State (σ ρ O : Type) where
  sh : σ
  holder : Option Nat := none
  threads : Nat → Thread σ ρ O := fun _ => {}
  /-- ghost: operations in the order of their acquires -/
  log : List (Nat × O) := []

def upd {α : Type} (f : Nat → α) (i : Nat) (a : α) : Nat → α := fun j => if j = i then a else f j

/-- thread `i` takes one step (`none`: it has no enabled step) -/
def step {σ ρ O : Type} (S : Sys σ ρ O) (s : State σ ρ O) (i : Nat) : Option (State σ ρ O) :=
  let t := s.threads i
  match t.cur with
  | none =>
    -- acquire: enabled only while the lock is free
    match s.holder, S.client i t.hist with
    | none, some o =>
      some { s with holder := some i, log := s.log ++ [(i, o)],
                    threads := upd s.threads i { t with cur := some (o, (S.sem o).steps, (S.sem o).init) } }
    | _, _ => none
  | some (o, f :: fs, loc) =>
    -- one atomic micro-step, only while holding the lock
    if s.holder = some i then
      some { s with sh := (f (s.sh, loc)).1, threads := upd s.threads i { t with cur := some (o, fs, (f (s.sh, loc)).2) } }
    else none
  | some (o, [], loc) =>
    -- release: the operation completes with the scratch value as its result
    if s.holder = some i then
      some { s with holder := none, threads := upd s.threads i { hist := t.hist ++ [(o, loc)], cur := none } }
    else none

/-- states reachable from `s0` under any schedule -/
inductive Reachable {σ ρ O : Type} (S : Sys σ ρ O) (s0 : σ) : State σ ρ O → Prop
  | init : Reachable S s0 { sh := s0 }
  | step {s s' : State σ ρ O} (i : Nat) : Reachable S s0 s → step S s i = some s' → Reachable S s0 s'

/-- the sequential reference: run logged operations one after another, each alone and to its end;
returns the final state and `(thread, operation, result)` for every operation -/
def seqRun {σ ρ O : Type} (S : Sys σ ρ O) : σ → List (Nat × O) → σ × List (Nat × O × ρ)
  | s, [] => (s, [])
  | s, (i, o) :: rest =>
    ((seqRun S ((S.sem o).run s).1 rest).1, (i, o, ((S.sem o).run s).2) :: (seqRun S ((S.sem o).run s).1 rest).2)

/-- the part of a sequential run that thread `i` sees: its own operations and results -/
def histOf {ρ O : Type} (i : Nat) (tr : List (Nat × O × ρ)) : List (O × ρ) :=
  tr.filterMap fun e => if e.1 = i then some e.2 else none

/-- thread `i` runs `n` steps in a row -/
def stepN {σ ρ O : Type} (S : Sys σ ρ O) (i : Nat) : Nat → State σ ρ O → Option (State σ ρ O)
  | 0, s => some s
  | n + 1, s => match step S s i with
    | some s' => stepN S i n s'
    | none => none

/-- run a schedule: the listed threads step one after another (`none`: a listed thread was not enabled) -/
def runSched {σ ρ O : Type} (S : Sys σ ρ O) : List Nat → State σ ρ O → Option (State σ ρ O)
  | [], s => some s
  | i :: rest, s => match step S s i with
    | some s' => runSched S rest s'
    | none => none

/-- **Linearizability**, as a predicate on a state of the concurrent machine started from `s0`.
The operations that have acquired so far are `s.log`, in acquire order.
* `idle`: while nobody holds the lock, the shared state is exactly the result of running the logged
  operations sequentially in that order, and every thread's results are those of the sequential run;
* `busy`: while thread `i` holds the lock, the last logged operation is `i`'s, it has executed a
  prefix `done` of its micro-steps on top of the sequential run of all earlier operations, and all
  threads' completed results are those of that sequential run; nobody else is inside;
* `legal`: every logged operation was issued by its thread's client on the history the sequential
  run gives that thread (pending operations have had no effect before their acquire: they are not
  in the log at all). -/
structure Lin {σ ρ O : Type} (S : Sys σ ρ O) (s0 : σ) (s : State σ ρ O) : Prop where
  idle : s.holder = none →
    s.sh = (seqRun S s0 s.log).1 ∧
    ∀ j, (s.threads j).cur = none ∧ (s.threads j).hist = histOf j (seqRun S s0 s.log).2
  busy : ∀ i, s.holder = some i → ∃ pre o done rem loc,
    s.log = pre ++ [(i, o)] ∧ (s.threads i).cur = some (o, rem, loc) ∧ (S.sem o).steps = done ++ rem ∧
    (s.sh, loc) = exec done ((seqRun S s0 pre).1, (S.sem o).init) ∧
    (∀ j, j ≠ i → (s.threads j).cur = none) ∧
    ∀ j, (s.threads j).hist = histOf j (seqRun S s0 pre).2
  legal : ∀ pre i o, pre ++ [(i, o)] <+: s.log → S.client i (histOf i (seqRun S s0 pre).2) = some o

end Firefly.Locked
