import Firefly.Gen.C16
/-!
# Model of `kernel/kfmt/ringbuf.go` and of the drain in `kfmt.SetOutputSink` (C16)

`ringBuffer{buffer [ringBufferSize]byte; rIndex, wIndex int}` with `Write` (overwrite-oldest) and
`Read` (two segments) exactly as coded.  Core Lean only.  Index panics of the Go code
(`rb.buffer[rb.wIndex]`, `rb.buffer[rIndex:rIndex+n]`) need an index ≥ ringBufferSize, which
`Ring.WF` excludes; `WF` is preserved by every operation (`Proof/RingLemmas`).
-/
namespace Firefly.Ring

/-- `ringBufferSize`, regenerated from the compiled code (irreducible: proofs use it only through
`N_eq_pow`, so nothing ever unfolds `x - 2047` in unary) -/
@[irreducible] def N : Nat := Firefly.Gen.C16.ringBufferSize
/-- `ringBufferSize - 1` -/
def mask : Nat := N - 1
/-- what the buffer can hold: one slot always stays free -/
def cap : Nat := N - 1

structure Ring where
  buf : Array UInt8
  r : Nat
  w : Nat

/-- an empty ring whose indices both stand at `p` -/
def emptyAt (p : Nat) : Ring := ⟨Array.replicate N 0, p, p⟩

def Ring.get (rb : Ring) (i : Nat) : UInt8 := rb.buf.getD i 0

/-- body of the `for _, b := range p` loop of `Write`:
`buffer[wIndex] = b; wIndex = (wIndex+1) & (size-1); if rIndex == wIndex { rIndex = (rIndex+1) & (size-1) }` -/
def Ring.writeByte (rb : Ring) (b : UInt8) : Ring :=
  match rb with
  | ⟨buf, r, w⟩ =>
    let buf := buf.setIfInBounds w b
    let w := (w + 1) &&& mask
    ⟨buf, if r = w then (r + 1) &&& mask else r, w⟩

/-- `ringBuffer.Write` (always returns `len(p), nil`) -/
def Ring.write (rb : Ring) (p : List UInt8) : Ring := p.foldl Ring.writeByte rb

/-- `buffer[from : from+n]` -/
def Ring.slice (rb : Ring) (start n : Nat) : List UInt8 := (List.range n).map fun i => rb.get (start + i)

structure ReadResult where
  n : Nat
  eof : Bool
  out : List UInt8
  ring : Ring

/-- `ringBuffer.Read` with `len(p) = k` -/
def Ring.read (rb : Ring) (k : Nat) : ReadResult :=
  if rb.r < rb.w then
    let n := if k < rb.w - rb.r then k else rb.w - rb.r
    ⟨n, false, rb.slice rb.r n, { rb with r := rb.r + n }⟩
  else if rb.r > rb.w then
    let n := if k < N - rb.r then k else N - rb.r
    let r' := rb.r + n
    ⟨n, false, rb.slice rb.r n, { rb with r := if r' = N then 0 else r' }⟩
  else ⟨0, true, [], rb⟩

/-- `io.Copy(dst, &ring)` with a `k`-byte buffer: read until EOF, hand every chunk to the writer.
Returns everything the writer received and the ring afterwards. `fuel` bounds the loop. -/
def Ring.drain (k : Nat) : Nat → Ring → List UInt8 × Ring
  | 0, rb => ([], rb)
  | fuel + 1, rb =>
    let res := rb.read k
    if res.eof then ([], res.ring)
    else
      let rest := Ring.drain k fuel res.ring
      (res.out ++ rest.1, rest.2)

/-- buffer size `io.Copy` allocates -/
def copyBufSize : Nat := 32768

/-- the ring part of `kfmt.SetOutputSink(w)` for non-nil `w` -/
def Ring.drainAll (rb : Ring) : List UInt8 × Ring := rb.drain copyBufSize (N + 1)

/-! ### abstract view -/

/-- number of unread bytes -/
def Ring.len (rb : Ring) : Nat := if rb.r ≤ rb.w then rb.w - rb.r else (N - rb.r) + rb.w

/-- the unread bytes, oldest first: one segment, or the segment up to the end of the buffer followed
by the segment from its start -/
def Ring.contents (rb : Ring) : List UInt8 :=
  if rb.r ≤ rb.w then rb.slice rb.r (rb.w - rb.r) else rb.slice rb.r (N - rb.r) ++ rb.slice 0 rb.w

def Ring.WF (rb : Ring) : Prop := rb.buf.size = N ∧ rb.r < N ∧ rb.w < N

/-- last `m` elements of a list -/
def lastN (m : Nat) (l : List UInt8) : List UInt8 := l.drop (l.length - m)

end Firefly.Ring
