/-!
# Tiny instruction set for the spin-lock programs (C08)

`Gen/C08.lean` (regenerated from `/repo/kernel/sync/spinlock_amd64.s` and `spinlock.go` on every
check) is a value of these types; `Model/Spin.lean` gives them their small-step semantics.
Core Lean only.  The fact generator knows exactly these constructors: an instruction, operand
form, register or symbol that is not listed here makes generation fail (broken tie) — nothing is
ever skipped.
-/
namespace Firefly.Spin

/-- general-purpose registers the program may use -/
inductive Reg where
  | AX | BX | CX | DX
  deriving DecidableEq, Repr, Hashable, Inhabited

/-- package-level symbols reachable through `·sym+off(SB)` -/
inductive Sym where
  | yieldFn
  deriving DecidableEq, Repr, Hashable, Inhabited

/-- Plan 9 operand forms -/
inductive Operand where
  /-- `$n` -/
  | imm (n : Nat)
  /-- `AX` -/
  | reg (r : Reg)
  /-- `off(R)` — memory at register + offset -/
  | mem (base : Reg) (off : Nat)
  /-- `name+off(FP)` — argument slot -/
  | fp (off : Nat)
  /-- `·sym+off(SB)` — package-level variable -/
  | sb (s : Sym) (off : Nat)
  deriving DecidableEq, Repr, Hashable, Inhabited

/-- instructions, operands in Plan 9 order (source first); jump targets are instruction indices.
Read-modify-write instructions carry `lk`: with a memory destination and no LOCK prefix they are NOT
atomic (the machine executes them as a read step and a write step); `XCHGL` with a memory operand is
implicitly locked. -/
inductive Instr where
  | movq (src dst : Operand)
  | movl (src dst : Operand)
  | xchgl (a b : Operand)
  | testl (a b : Operand)
  | testq (a b : Operand)
  | cmpl (a b : Operand)
  /-- `XORL a, b`: b ^= a. `lk` = the instruction carries a LOCK prefix -/
  | xorl (lk : Bool) (a b : Operand)
  /-- `DECL a` -/
  | decl (lk : Bool) (a : Operand)
  /-- `CMPXCHGL src, dst`: if EAX = dst then (ZF := 1; dst := src) else (ZF := 0; EAX := dst; dst rewritten) -/
  | cmpxchgl (lk : Bool) (src dst : Operand)
  | jz (target : Nat)
  | jnz (target : Nat)
  | jmp (target : Nat)
  | pause
  | call (a : Operand)
  | ret
  deriving DecidableEq, Repr, Hashable, Inhabited

/-- Atomic-operation IR of the Go method bodies (`l.state` is the only location they may touch;
the generator rejects any other address expression). `tmp` is the value of the last atomic read. -/
inductive GoOp where
  /-- `tmp := atomic.SwapUint32(&l.state, v)` -/
  | swap (v : Nat)
  /-- `atomic.StoreUint32(&l.state, v)` -/
  | store (v : Nat)
  /-- `tmp := atomic.LoadUint32(&l.state)` -/
  | load
  /-- `archAcquireSpinlock(&l.state, attempts)` -/
  | arch (attempts : Nat)
  /-- `return tmp == v` -/
  | retEq (v : Nat)
  /-- `return tmp != v` -/
  | retNe (v : Nat)
  /-- `return` (also the implicit return at the end of a body) -/
  | ret
  deriving DecidableEq, Repr, Hashable, Inhabited

end Firefly.Spin
