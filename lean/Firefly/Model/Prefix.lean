/-!
# Model of `kernel/kfmt/prefix_writer.go` (C16)

`PrefixWriter{Sink, Prefix, bytesAfterPrefix}`; `Write` mirrored statement by statement for a sink
that accepts every write completely (the ring buffer and every TTY do). The model returns the list
of `Sink.Write` calls in order. Core Lean only.
-/
namespace Firefly.Prefix

structure PW where
  pfx : List UInt8 := []
  /-- `bytesAfterPrefix` -/
  bap : Nat := 0

/-- the writer is at the start of a line (the next non-empty `Write` begins with the prefix) -/
def PW.atStart (pw : PW) : Bool := decide (pw.bap = 0)

structure LoopResult where
  /-- the `Sink.Write` calls, in order -/
  chunks : List (List UInt8)
  bap : Nat
  written : Nat

/-- the `for ; curIndex < len(p); curIndex++` loop followed by the trailing `if startIndex < curIndex`.
`seg` is `p[startIndex:curIndex]`, the first argument is `p[curIndex:]`. -/
def loop (pfx : List UInt8) : List UInt8 → List UInt8 → Nat → Nat → LoopResult
  | [], seg, bap, written =>
    if seg = [] then ⟨[], bap, written⟩ else ⟨[seg], seg.length, written + seg.length⟩
  | b :: rest, seg, bap, written =>
    if b = 10 then
      let r := loop pfx rest [] 0 (written + (seg.length + 1))
      ⟨(seg ++ [b]) :: (if rest = [] then r.chunks else pfx :: r.chunks), r.bap, r.written⟩
    else loop pfx rest (seg ++ [b]) bap written

structure WriteResult where
  chunks : List (List UInt8)
  pw : PW
  n : Nat

/-- `PrefixWriter.Write(p)` -/
def PW.write (pw : PW) (p : List UInt8) : WriteResult :=
  let r := loop pw.pfx p [] pw.bap 0
  ⟨if pw.bap = 0 ∧ p ≠ [] then pw.pfx :: r.chunks else r.chunks, { pw with bap := r.bap }, r.written⟩

/-! ### specification: the prefix goes in front of the first byte of every line -/

/-- what the sink must see for input `p` when the writer is (`atStart`) or is not at the start of a line -/
def prefixStream (pfx : List UInt8) : Bool → List UInt8 → List UInt8
  | _, [] => []
  | atStart, b :: t => (if atStart then pfx else []) ++ b :: prefixStream pfx (b == 10) t

/-- whether the writer is at the start of a line after `p` -/
def lineState (atStart : Bool) (p : List UInt8) : Bool := p.foldl (fun _ b => b == 10) atStart

end Firefly.Prefix
