import Firefly.Gen.C17
/-!
# Model of `kernel/device/tty/vt.go` (the `VT` terminal)

Operation by operation, with the same integer widths as the Go code: `uint32` arithmetic is
`Nat` reduced with `u32` at every operation, `uint`/`int` (64 bit) offsets are `Nat` (they never
reach 2^63 for 32-bit factors that matter here, see `lf`), every slice access is checked and an
out-of-range index is the explicit result `.panic`.  The console calls made by the terminal
(`cons.Write/Scroll/Fill`) are appended to the field `out` (newest first), which is how C18 sees
what the console is asked to draw.  Core Lean only (linked into `drv_C17`/`drv_C18`).
-/
namespace Firefly.Vt

/-- `uint32` reduction -/
def u32 (n : Nat) : Nat := n % 4294967296
/-- `uint` (64-bit) reduction -/
def u64 (n : Nat) : Nat := n % 18446744073709551616
/-- `a - b` in `uint32` (for `a, b < 2^32`) -/
def sub32 (a b : Nat) : Nat := (a + 4294967296 - b % 4294967296) % 4294967296

/-- one call on the attached `console.Device` -/
inductive Call where
  | write (ch fg bg : UInt8) (x y : Nat)
  | scroll (dir lines : Nat)
  | fill (x y w h : Nat) (fg bg : UInt8)
  deriving DecidableEq, Repr

structure VT where
  /-- `cons != nil` -/
  attached : Bool := false
  termWidth : Nat := 0
  termHeight : Nat := 0
  viewportWidth : Nat := 0
  viewportHeight : Nat := 0
  scrollback : Nat := 0
  data : Array UInt8 := #[]
  tabWidth : Nat := 0
  defaultFg : UInt8 := 0
  curFg : UInt8 := 0
  defaultBg : UInt8 := 0
  curBg : UInt8 := 0
  cursorX : Nat := 1
  cursorY : Nat := 1
  viewportY : Nat := 0
  dataOffset : Nat := 0
  /-- `state == StateActive` -/
  active : Bool := false
  /-- console calls made so far, newest first -/
  out : List Call := []

inductive Res where
  | ok (t : VT)
  | panic

def Res.bind : Res → (VT → Res) → Res
  | .ok t, f => f t
  | .panic, _ => .panic

def Res.isPanic : Res → Bool
  | .panic => true
  | .ok _ => false

/-- `NewVT(tabWidth, scrollback)` -/
def newVT (tabWidth scrollback : Nat) : VT :=
  { tabWidth := tabWidth, scrollback := scrollback, cursorX := 1, cursorY := 1 }

/-- checked store `d[i] = v` -/
def store (d : Array UInt8) (i : Nat) (v : UInt8) : Option (Array UInt8) :=
  if h : i < d.size then some (d.set i v h) else none

/-- `d[i] = ch; d[i+1] = fg; d[i+2] = bg`, each store checked -/
def store3 (d : Array UInt8) (i : Nat) (ch fg bg : UInt8) : Option (Array UInt8) :=
  (store d i ch).bind fun d => (store d (i + 1) fg).bind fun d => store d (i + 2) bg

/-- the buffer `AttachTo` builds: `n` bytes, (' ', fg, bg) repeated -/
def blankData (n : Nat) (fg bg : UInt8) : Array UInt8 :=
  Array.ofFn (n := n) fun i => if i.val % 3 = 0 then 32 else if i.val % 3 = 1 then fg else bg

/-- `AttachTo(cons)` for a non-nil console reporting `w × h` characters and default colours
`fg, bg`.  `make([]uint8, w*termHeight*3)` is a `uint32` product; the initialising loop steps by
three and indexes `i+1`, `i+2`, so a wrapped length that is not a multiple of three panics.
Note: `dataOffset` and `state` are *not* reset by the Go code. -/
def attachTo (t : VT) (w h : Nat) (fg bg : UInt8) : Res :=
  let th := u32 (h + t.scrollback)
  let n := u32 (u32 (w * th) * 3)
  if n % 3 ≠ 0 then .panic else
  .ok { t with attached := true, viewportWidth := w, viewportHeight := h, viewportY := 0,
               defaultFg := fg, defaultBg := bg, curFg := fg, curBg := bg,
               termWidth := w, termHeight := th, cursorX := 1, cursorY := 1,
               data := blankData n fg bg }

/-- `updateDataOffset`: a `uint32` expression converted to `uint` -/
def updateDataOffset (t : VT) : VT :=
  let off := u32 (u32 (u32 (t.viewportY + sub32 t.cursorY 1) * u32 (t.viewportWidth * 3))
                  + u32 (sub32 t.cursorX 1 * 3))
  { t with dataOffset := off }

/-- `SetCursorPosition(x, y)` -/
def setCursorPosition (t : VT) (x y : Nat) : VT :=
  if !t.attached then t else
  let x := if x < 1 then 1 else if x > t.viewportWidth then t.viewportWidth else x
  let y := if y < 1 then 1 else if y > t.viewportHeight then t.viewportHeight else y
  updateDataOffset { t with cursorX := x, cursorY := y }

/-- `cr` -/
def cr (t : VT) : VT := updateDataOffset { t with cursorX := 1 }

/-- `for offset := start; offset < end; offset++ { data[offset] = data[offset+stride] }`,
`n = end - start` iterations -/
def copyUp (stride : Nat) : (n off : Nat) → Array UInt8 → Option (Array UInt8)
  | 0, _, d => some d
  | n + 1, off, d =>
    if h : off + stride < d.size then
      copyUp stride n (off + 1) (d.set off d[off + stride] (by omega))
    else none

/-- `for offset := end; offset < end+stride; offset += 3 { data[offset..offset+2] = ' ',fg,bg }`,
`n = ⌈stride/3⌉` iterations -/
def blankN (fg bg : UInt8) : (n off : Nat) → Array UInt8 → Option (Array UInt8)
  | 0, _, d => some d
  | n + 1, off, d => (store3 d off 32 fg bg).bind fun d => blankN fg bg n (off + 3) d

/-- the buffer-scroll branch of `lf`: copy the viewport's lines up by one, blank the last one.
`int` arithmetic on 32-bit factors. -/
def scrollData (t : VT) : Option (Array UInt8) :=
  let stride := u32 (t.viewportWidth * 3)
  let startOffset := t.viewportY * stride
  let endOffset := sub32 (u32 (t.viewportY + t.viewportHeight)) 1 * stride
  (copyUp stride (endOffset - startOffset) startOffset t.data).bind fun d =>
    blankN t.defaultFg t.defaultBg ((stride + 2) / 3) endOffset d

/-- console calls are made only while the terminal is Active (`cs` newest first) -/
def emit (t : VT) (cs : List Call) : VT :=
  if t.active then { t with out := cs ++ t.out } else t

/-- "Sync console" in `lf`: `cons.Scroll(ScrollDirUp, 1)` then `cons.Fill(1, cursorY, termWidth, 1, …)` -/
def syncScroll (t : VT) : VT :=
  emit t [.fill 1 t.cursorY t.termWidth 1 t.defaultFg t.defaultBg, .scroll Firefly.Gen.C17.scrollDirUp 1]

/-- `lf(withCR)` -/
def lf (t : VT) (withCR : Bool) : Res :=
  let t := if withCR then { t with cursorX := 1 } else t
  if u32 (t.cursorY + 1) ≤ t.viewportHeight then
    .ok (updateDataOffset { t with cursorY := u32 (t.cursorY + 1) })
  else if u32 (t.viewportY + t.viewportHeight) < t.termHeight then
    .ok (updateDataOffset (syncScroll { t with viewportY := u32 (t.viewportY + 1) }))
  else
    match scrollData t with
    | none => .panic
    | some d => .ok (updateDataOffset (syncScroll { t with data := d }))

/-- `doWrite(b, advanceCursor)` -/
def doWrite (t : VT) (b : UInt8) (advance : Bool) : Res :=
  let t := emit t [.write b t.curFg t.curBg t.cursorX t.cursorY]
  match store3 t.data t.dataOffset b t.curFg t.curBg with
  | none => .panic
  | some d =>
    let t := { t with data := d }
    if advance then
      let t := { t with dataOffset := u64 (t.dataOffset + 3), cursorX := u32 (t.cursorX + 1) }
      if t.cursorX > t.viewportWidth then lf t true else .ok t
    else .ok t

/-- the tab loop: `n` times `doWrite(' ', true)` -/
def tabLoop : Nat → VT → Res
  | 0, t => .ok t
  | n + 1, t => (doWrite t 32 true).bind (tabLoop n)

/-- `WriteByte(b)`; without a console the Go code returns `io.ErrClosedPipe` and changes nothing -/
def writeByte (t : VT) (b : UInt8) : Res :=
  if !t.attached then .ok t else
  if b = 13 then .ok (cr t)
  else if b = 10 then lf t true
  else if b = 8 then
    if t.cursorX > 1 then doWrite (setCursorPosition t (sub32 t.cursorX 1) t.cursorY) 32 false
    else .ok t
  else if b = 9 then tabLoop t.tabWidth t
  else doWrite t b true

/-- `Write(data)`: byte by byte -/
def write : VT → List UInt8 → Res
  | t, [] => .ok t
  | t, b :: bs => (writeByte t b).bind (write · bs)

/-- inner loop of `SetState`: `n` cells of one line -/
def redrawRow (d : Array UInt8) (y : Nat) : (n x off : Nat) → List Call → Option (List Call)
  | 0, _, _, out => some out
  | n + 1, x, off, out =>
    match d[off]?, d[u32 (off + 1)]?, d[u32 (off + 2)]? with
    | some a, some b, some c => redrawRow d y n (u32 (x + 1)) (u32 (off + 3)) (.write a b c x y :: out)
    | _, _, _ => none

/-- outer loop of `SetState`: `n` lines starting at console line `y` -/
def redrawRows (t : VT) : (n y : Nat) → List Call → Option (List Call)
  | 0, _, out => some out
  | n + 1, y, out =>
    let off := u32 (u32 (sub32 y 1 + t.viewportY) * u32 (t.viewportWidth * 3))
    (redrawRow t.data y t.viewportWidth 1 off out).bind fun out => redrawRows t n (u32 (y + 1)) out

/-- `SetState(newState)` -/
def setState (t : VT) (active : Bool) : Res :=
  if t.active = active then .ok t else
  let t := { t with active := active }
  if active && t.attached then
    match redrawRows t t.viewportHeight 1 t.out with
    | some out => .ok { t with out := out }
    | none => .panic
  else .ok t

/-- the operations of a history -/
inductive Op where
  | byte (b : UInt8)
  | cursor (x y : Nat)
  | state (active : Bool)
  deriving DecidableEq, Repr

def step (t : VT) : Op → Res
  | .byte b => writeByte t b
  | .cursor x y => .ok (setCursorPosition t x y)
  | .state a => setState t a

def run : VT → List Op → Res
  | t, [] => .ok t
  | t, op :: ops => (step t op).bind (run · ops)

end Firefly.Vt
