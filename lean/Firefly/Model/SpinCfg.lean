import Firefly.Model.SpinIsa
/-!
# Control-flow graph of an instruction list (C08)

The fact generator re-linearises `archAcquireSpinlock` in a canonical block order (so that the
pc-indexed proofs do not depend on block layout or jump polarity) and emits BOTH the instructions in
source order (`rawAsm`) and the canonical list (`acquireAsm`), with `canonOrigin` saying which source
instruction every canonical instruction stands for.  `sameGraph` is the certificate check, evaluated
by the kernel on every run: it does not trust the re-lineariser.

A program is read as a graph whose nodes are its instructions other than `JMP`: unconditional jumps
only redirect edges (`resolveJmp`); `JZ t` at `pc` is a branch node "if ZF then t else pc+1", `JNZ t`
is "if ZF then pc+1 else t" (the same node with the successors swapped).  `sameGraph raw canon origin`
holds when the entries correspond and every node of `canon` is, under `origin`, the same instruction
of `raw` with the same successors — a functional bisimulation between the two graphs.
(That equal graphs give the same machine behaviour up to `JMP` steps is the reading of `JMP`/`JZ`/`JNZ`
in `Model/Spin.lean`; it is not proved as a theorem.)  Core Lean only.
-/
namespace Firefly.Spin

/-- follow unconditional jumps (fuel = program length) -/
def resolveJmp (P : List Instr) : Nat → Nat → Nat
  | 0, pc => pc
  | fuel + 1, pc => match P[pc]? with
    | some (.jmp t) => resolveJmp P fuel t
    | _ => pc

inductive CfgNode where
  | step (i : Instr) (next : Nat)
  | cond (ifZ ifNZ : Nat)
  | ret
  deriving DecidableEq, Repr

def cfgNode (P : List Instr) (pc : Nat) : Option CfgNode :=
  let r := resolveJmp P P.length
  match P[pc]? with
  | some (.jz t) => some (.cond (r t) (r (pc + 1)))
  | some (.jnz t) => some (.cond (r (pc + 1)) (r t))
  | some .ret => some .ret
  | some (.jmp _) => none
  | some i => some (.step i (r (pc + 1)))
  | none => none

def sameGraph (raw canon : List Instr) (origin : List Nat) : Bool :=
  let m := fun c => origin.getD c 0
  (m (resolveJmp canon canon.length 0) == resolveJmp raw raw.length 0) &&
  (List.range canon.length).all fun c =>
    match cfgNode canon c with
    | none => match canon[c]? with
      | some (.jmp t) => decide (t < canon.length)
      | _ => false
    | some (.step i n) => cfgNode raw (m c) == some (.step i (m n)) && decide (n < canon.length)
    | some (.cond z nz) =>
      cfgNode raw (m c) == some (.cond (m z) (m nz)) && decide (z < canon.length) && decide (nz < canon.length)
    | some .ret => cfgNode raw (m c) == some .ret

end Firefly.Spin
