import Firefly.Model.AmlLex
/-!
# Model of `parser.go` (package `aml`): a statement-by-statement port of `Parser.ParseAML`

Core Lean only.  `P = StateT PState (Except Err)`: the Go `Parser` struct is `PState`, a Go
`*Object` is a pool position, `parseResult` values are returned as data (`PRes`), and the two
ways the Go code can leave the language-level control flow are the two errors of `AmlTree.Err`:
`.panic` (nil dereference, index out of range, failed type assertion, explicit `panic`) and
`.outOfFuel`.  Every recursive Go function (and every loop that is not trivially bounded by the
table length) takes a fuel argument that decreases by one per call / iteration, so the fuel
bounds the length of the longest chain of nested calls and loop iterations — the quantity the
"no stack overflow, no hang" part of C12 is about.

Style: the functions are written without early `return`, `let mut` or `for` (nested `if … else`,
explicit helper functions for loop bodies) so that `Proof/AmlParser.lean` can reason about them
compositionally; the behaviour is that of the Go statements in the same order.

The code modelled is the tree *after* the repairs of this round (relocation into the own subtree
refused; Connection buffer bounded by its package; `attachSiblingsAsArgs` detaches from the real
parent; MultiNamePath length in 32 bits; prefix+NullName keeps its prefix; a strict TermArg is
attached to its parent while its own arguments are parsed).

Go run-time rule reproduced (`runtime.convTslice`): a `[]byte` whose data pointer is nil becomes
the empty slice when stored in `Object.value` (`sliceVal`).
-/
namespace Firefly.AmlParser
open Firefly.AmlTree hiding amlNameLen
open Firefly.AmlLex Firefly.Gen.C12

/-- the Go `Parser` (without `errWriter`, `tableName`) -/
structure PState where
  r : Reader := {}
  tree : ObjectTree := {}
  scopeStack : Array Nat := #[]
  pkgEndStack : Array Nat := #[]
  streamEnd : Nat := 0
  resolvePasses : Nat := 0
  mergedScopes : Nat := 0
  relocatedObjects : Nat := 0
  /-- `mode == parseModeAllBlocks` -/
  allBlocks : Bool := false
  tableHandle : Nat := 0
  deriving Inhabited

abbrev P := StateT PState Res

/-- storing a `[]byte` into `interface{}` -/
def sliceVal (s : Slice) : Val :=
  match s.data with
  | none => .bytes 0 0
  | some off => .bytes off s.len

/-- run a reader action on `p.r` -/
@[inline] def lex (x : LexM α) : P α := fun s => do
  let (a, r) ← x s.r
  pure (a, { s with r := r })

/-- run a tree operation on `p.objTree` (the tree is moved out of the state first so that the
array stays uniquely referenced) -/
@[inline] def tree (f : ObjectTree → Res ObjectTree) : P Unit := fun s => do
  let t := s.tree
  let s := { s with tree := {} }
  let t ← f t
  pure ((), { s with tree := t })

def getObj (i : Nat) : P Obj := fun s => do
  let o ← s.tree.obj i
  pure (o, s)

/-- `p.objTree.ObjectAt(i)` -/
def objectAt (i : Nat) : P (Option Nat) := fun s => pure (s.tree.ObjectAt i, s)

/-- use of a possibly-nil pointer -/
def derefP (o : Option Nat) : P Nat :=
  match o with
  | some i => pure i
  | none => throw .panic

/-- `pOpcodeTable[i]` style accesses: `none` is the Go index panic -/
def optP (o : Option α) : P α :=
  match o with
  | some a => pure a
  | none => throw .panic

/-- run a read-only tree query -/
def liftR (x : Res α) : P α := fun s => do
  let a ← x
  pure (a, s)

def updObj (i : Nat) (f : Obj → Obj) : P Unit := tree (·.upd i f)

/-- `p.objTree.newObject(opcode, p.tableHandle)` -/
def newObject (opcode : Nat) : P Nat := fun s => do
  let t := s.tree
  let s := { s with tree := {} }
  let (t, i) ← t.newObject opcode (pOpcodeTableIndex opcode true) s.tableHandle
  pure (i, { s with tree := t })

def allBlocks : P Bool := fun s => pure (s.allBlocks, s)
def tableHandle : P Nat := fun s => pure (s.tableHandle, s)

/-- `scopeCurrent()`: `ObjectAt(p.scopeStack[len-1])` -/
def scopeCurrent : P (Option Nat) := fun s =>
  match s.scopeStack.back? with
  | none => throw .panic
  | some i => pure (s.tree.ObjectAt i, s)

def scopeEnter (index : Nat) : P Unit := modify fun s => { s with scopeStack := s.scopeStack.push index }

/-- `p.scopeStack = p.scopeStack[:len-1]` (slice bounds panic when empty) -/
def scopeExit : P Unit := fun s =>
  if s.scopeStack.size = 0 then throw .panic else pure ((), { s with scopeStack := s.scopeStack.pop })

/-- `p.pkgEndStack[len-1]` if the stack is not empty -/
def pkgEndTop : P (Option Nat) := fun s => pure (s.pkgEndStack.back?, s)

/-- sizes of the two stacks -/
def stackSizes : P (Nat × Nat) := fun s => pure ((s.pkgEndStack.size, s.scopeStack.size), s)

/-- the reader (field reads `p.r.offset`, `p.r.pkgEnd`) -/
def reader : P Reader := fun s => pure (s.r, s)

/-- `p.objTree` for read-only queries -/
def getTree : P ObjectTree := fun s => pure (s.tree, s)

/-- `pushPkgEnd(pkgEnd) error` — `true` = nil -/
def pushPkgEnd (d : Bytes) (pkgEnd : Nat) : P Bool := do
  modify fun s => { s with pkgEndStack := s.pkgEndStack.push pkgEnd }
  lex (setPkgEnd d pkgEnd)

def popPkgEnd (d : Bytes) : P Unit := do
  modify fun s => if s.pkgEndStack.size ≠ 0 then { s with pkgEndStack := s.pkgEndStack.pop } else s
  match (← pkgEndTop) with
  | some e => do
    let _ ← lex (setPkgEnd d e)
    pure ()
  | none => pure ()

/-- the bytes of a `[]byte` value (`none`: the value is not a `[]byte`) -/
def valBytes (d : Bytes) : Val → Option (Nat × Nat × List UInt8)
  | .bytes off len => some (off, len, sliceBytes d off len)
  | _ => none

/-- `parseByteList(obj, dataLen)` -/
def parseByteList (d : Bytes) (obj dataLen : Nat) : P Unit := do
  updObj obj fun o => { o with opcode := opIntByteList }
  updObj obj fun o => { o with infoIndex := pOpcodeTableIndex opIntByteList true }
  let sl ← lex (parseByteListRaw d dataLen)
  updObj obj fun o => { o with value := sliceVal sl }

/-- the numeric cases of `parseSimpleArg` / `parseObjectArgs`: `obj.value, res = parseNumConstant(n)` -/
def setNumValue (d : Bytes) (obj n : Nat) : P PRes := do
  let vr ← lex (parseNumConstant d n)
  updObj obj fun o => { o with value := .u64 vr.1 }
  pure vr.2

/-- `obj.value, res = parseString()` -/
def setStringValue (d : Bytes) (obj : Nat) : P PRes := do
  let sr ← lex (parseString d)
  updObj obj fun o => { o with value := sliceVal sr.1 }
  pure sr.2

/-- `obj.value, res = parseNameString()` -/
def setNameValue (d : Bytes) (obj : Nat) : P PRes := do
  let sr ← lex (parseNameString d)
  updObj obj fun o => { o with value := sliceVal sr.1 }
  pure sr.2

/-- `obj.opcode = op` -/
def setOpcode (obj op : Nat) : P Unit := updObj obj fun o => { o with opcode := op }

/-- the tail of `parseSimpleArg`: `obj.infoIndex = pOpcodeTableIndex(obj.opcode, true); return obj, res` -/
def finishSimpleArg (obj : Nat) (res : PRes) : P (Option Nat × PRes) := do
  let o ← getObj obj
  updObj obj fun o' => { o' with infoIndex := pOpcodeTableIndex o.opcode true }
  pure (some obj, res)

/-- a numeric simple argument: `obj.opcode = op; obj.value, res = parseNumConstant(n)` -/
def simpleNum (d : Bytes) (obj op n : Nat) : P (Option Nat × PRes) := do
  setOpcode obj op
  let res ← setNumValue d obj n
  finishSimpleArg obj res

/-- `case pArgTypeString:` -/
def simpleString (d : Bytes) (obj : Nat) : P (Option Nat × PRes) := do
  setOpcode obj opStringPrefix
  let res ← setStringValue d obj
  finishSimpleArg obj res

/-- `case pArgTypeNameString:` -/
def simpleName (d : Bytes) (obj : Nat) : P (Option Nat × PRes) := do
  setOpcode obj opIntNamePath
  let res ← setNameValue d obj
  finishSimpleArg obj res

/-- `parseSimpleArg(argType)` -/
def parseSimpleArg (d : Bytes) (argType : Nat) : P (Option Nat × PRes) := do
  let obj ← newObject 0
  let off ← lex offset
  updObj obj fun o => { o with amlOffset := off }
  if argType = argTypeByteData then simpleNum d obj opBytePrefix 1
  else if argType = argTypeWordData then simpleNum d obj opWordPrefix 2
  else if argType = argTypeDwordData then simpleNum d obj opDwordPrefix 4
  else if argType = argTypeQwordData then simpleNum d obj opQwordPrefix 8
  else if argType = argTypeString then simpleString d obj
  else if argType = argTypeNameString then simpleName d obj
  else pure (none, .failed)

/-- loop state of `parseFieldElements` -/
structure FieldSt where
  nextFieldOffset : Nat := 0
  accessLength : Nat := 0
  accessType : Nat := 0
  accessAttrib : Nat := 0
  lockType : Nat := 0
  updateType : Nat := 0
  appendAfter : Nat := 0
  connectionIndex : Nat := invalidIndex

/-- `field.name[i] = b` -/
def setNameByte (field i : Nat) (b : UInt8) : P Unit :=
  updObj field fun o => { o with name := Name.ofList ((o.name.toList.take i) ++ [b] ++ (o.name.toList.drop (i+1))) }

/-- the `for i := 0; i < amlNameLen; i++ { field.name[i], err = ReadByte() }` loop -/
def readFieldName (d : Bytes) (field : Nat) : Nat → Nat → P Bool
  | 0, _ => pure true
  | n+1, i => do
    match ← lex (readByte d) with
    | none => do
      setNameByte field i 0
      pure false
    | some b => do
      setNameByte field i b
      readFieldName d field n (i+1)

/-- result of one iteration of the field-list loop: `.inl res` = `return res`, `.inr st` = next iteration -/
abbrev FieldStep := Sum PRes FieldSt

/-- `case 0x00: // ReservedField` -/
def fieldReserved (d : Bytes) (st : FieldSt) : P FieldStep := do
  let pr ← lex (parsePkgLength d)
  if pr.2 = .failed then pure (.inl .failed)
  else pure (.inr { st with nextFieldOffset := u32 (st.nextFieldOffset + pr.1) })

/-- `case 0x01: // AccessField` -/
def fieldAccess (d : Bytes) (st : FieldSt) : P FieldStep := do
  let v1 ← lex (parseNumConstant d 1)
  if v1.2 = .failed then pure (.inl v1.2) else do
  let v2 ← lex (parseNumConstant d 1)
  if v2.2 = .failed then pure (.inl v2.2)
  else pure (.inr { st with accessType := v1.1 % 256, accessAttrib := v2.1 % 256 })

/-- `case 0x03: // ExtAccessField` -/
def fieldExtAccess (d : Bytes) (st : FieldSt) : P FieldStep := do
  let v1 ← lex (parseNumConstant d 1)
  if v1.2 = .failed then pure (.inl v1.2) else do
  let v2 ← lex (parseNumConstant d 1)
  if v2.2 = .failed then pure (.inl v2.2) else do
  let v3 ← lex (parseNumConstant d 1)
  if v3.2 = .failed then pure (.inl v3.2)
  else pure (.inr { st with accessType := v1.1 % 256, accessAttrib := v2.1 % 256, accessLength := v3.1 % 256 })

/-- "Read data length" of a Connection buffer (`pkgLen > 0`): `.inl res` = `return res` -/
def connBufferLen (d : Bytes) (origOffset pkgLen : Nat) : P (Sum PRes Nat) := do
  if !(← lex (setPkgEnd d (u32 (origOffset + pkgLen)))) then pure (.inl .failed) else do
  let opr ← lex (nextOpcode d)
  if opr.2 ≠ .ok then pure (.inl opr.2) else do
  let dl ←
    if opr.1 = opBytePrefix then lex (parseNumConstant d 1)
    else if opr.1 = opWordPrefix then lex (parseNumConstant d 2)
    else if opr.1 = opDwordPrefix then lex (parseNumConstant d 4)
    else pure (0, PRes.ok)
  if dl.2 = .failed then pure (.inl dl.2) else pure (.inr dl.1)

/-- the tail of the Connection-buffer case once `dataLen` is known: bound check (repair), the byte
list object, restoring the package end and skipping the buffer; `.inr connArg` -/
def connBufferFinish (d : Bytes) (origPkgEnd origOffset pkgLen dataLen : Nat) : P (Sum PRes Nat) := do
  let r ← reader
  if r.offset + dataLen > r.pkgEnd then pure (.inl .failed) else do
  let connArg ← newObject opIntByteList
  updObj connArg fun o => { o with amlOffset := origOffset }
  parseByteList d connArg (u32 dataLen)
  let _ ← lex (setPkgEnd d origPkgEnd)
  lex (setOffset d (u32 (origOffset + pkgLen)))
  pure (.inr connArg)

/-- `case uint8(pOpBuffer):` of a Connection -/
def connBuffer (d : Bytes) : P (Sum PRes Nat) := do
  let r ← reader
  let pr ← lex (parsePkgLength d)
  if pr.2 ≠ .ok then pure (.inl pr.2)
  else if pr.1 > 0 then do
    match ← connBufferLen d r.offset pr.1 with
    | .inl res => pure (.inl res)
    | .inr dataLen => connBufferFinish d r.pkgEnd r.offset pr.1 dataLen
  else connBufferFinish d r.pkgEnd r.offset pr.1 0

/-- `default:` of a Connection: a namestring -/
def connName (d : Bytes) : P (Sum PRes Nat) := do
  let _ ← lex unreadByte
  let connArg ← newObject opIntNamePath
  let off ← lex offset
  updObj connArg fun o => { o with amlOffset := off }
  let res ← setNameValue d connArg
  if res ≠ .ok then pure (.inl res) else pure (.inr connArg)

/-- `case 0x02: // Connection` -/
def fieldConnection (d : Bytes) (curObj : Nat) (st : FieldSt) : P FieldStep := do
  match ← lex (readByte d) with
  | none => pure (.inl .failed)
  | some next2 => do
    let connection ← newObject opIntConnection
    let connectionIndex := (← getObj connection).index
    tree (·.append curObj connection)
    match ← (if next2.toNat = opBuffer then connBuffer d else connName d) with
    | .inl res => pure (.inl res)
    | .inr connArg => do
      tree (·.append connection connArg)
      pure (.inr { st with connectionIndex := connectionIndex })

/-- `default:` a named field -/
def fieldNamed (d : Bytes) (curObj : Nat) (st : FieldSt) : P FieldStep := do
  let _ ← lex unreadByte
  let field ← newObject opIntNamedField
  let off ← lex offset
  updObj field fun o => { o with amlOffset := off }
  if !(← readFieldName d field amlNameLen 0) then pure (.inl .failed) else do
  let pr ← lex (parsePkgLength d)
  if pr.2 ≠ .ok then pure (.inl pr.2) else do
  let co ← getObj curObj
  let fe : Val := .field st.nextFieldOffset pr.1 st.accessLength st.accessType
    st.accessAttrib st.lockType st.updateType st.connectionIndex co.index
  updObj field fun o => { o with value := fe }
  let parent ← derefP (← objectAt co.parentIndex)
  tree (·.appendAfter parent field st.appendAfter)
  pure (.inr { st with appendAfter := field, nextFieldOffset := u32 (st.nextFieldOffset + pr.1) })

/-- one iteration of the `for !p.r.EOF()` loop of `parseFieldElements` (after the EOF test) -/
def fieldStep (d : Bytes) (curObj : Nat) (st : FieldSt) : P FieldStep := do
  let next := ((← lex (readByte d)).getD 0).toNat
  if next = 0x00 then fieldReserved d st
  else if next = 0x01 then fieldAccess d st
  else if next = 0x03 then fieldExtAccess d st
  else if next = 0x02 then fieldConnection d curObj st
  else fieldNamed d curObj st

/-- the `for !p.r.EOF()` loop of `parseFieldElements`; fuel = table length + 1 (every iteration reads
at least one byte) -/
def fieldLoop (d : Bytes) (curObj : Nat) : Nat → FieldSt → P PRes
  | 0, _ => throw .outOfFuel
  | f+1, st => do
    if (← lex eof) then pure .shortCircuit else do
    match ← fieldStep d curObj st with
    | .inl res => pure res
    | .inr st' => fieldLoop d curObj f st'

/-- `x.value.(uint64)` (panicking type assertion) -/
def u64Value (i : Nat) : P Nat := do
  match (← getObj i).value with
  | .u64 v => pure v
  | _ => throw .panic

/-- `parseFieldElements(curObj)` -/
def parseFieldElements (d : Bytes) (curObj : Nat) : P PRes := do
  let co ← getObj curObj
  let last ← derefP (← objectAt co.lastArgIndex)
  let initialFlags := (← u64Value last) % 256
  fieldLoop d curObj (d.size + 1)
    { accessType := initialFlags &&& 0xf, lockType := (initialFlags >>> 4) &&& 0x1,
      updateType := (initialFlags >>> 5) &&& 0x3, appendAfter := curObj }

/-- `ClosestNamedAncestor` with the generated opcode table -/
def namedInfo (i : Nat) : Option Bool := (opFlags i).map fun fl => hasFlag fl flagNamed

/-- the bytes of the path expression `parseNameString` returned -/
def sliceExpr (d : Bytes) (sl : Slice) : List UInt8 :=
  match sl.data with
  | some off => sliceBytes d off sl.len
  | none => []

/-- first-pass branch of `parseNamePathOrMethodCall`: a `pOpIntNamePathOrMethodCall` object -/
def namePathOrCallObject (curOffset : Nat) (pathExpr : Slice) : P PRes := do
  let curObj ← newObject opIntNamePathOrMethodCall
  updObj curObj fun o => { o with amlOffset := curOffset }
  updObj curObj fun o => { o with value := sliceVal pathExpr }
  let sc ← derefP (← scopeCurrent)
  tree (·.append sc curObj)
  pure .ok

/-- the simple argument kinds -/
def isSimpleArg (argType : Nat) : Bool :=
  argType = argTypeByteData ∨ argType = argTypeWordData ∨ argType = argTypeDwordData ∨
  argType = argTypeQwordData ∨ argType = argTypeString ∨ argType = argTypeNameString

/-- `case pArgTypeByteList:` -/
def parseByteListArg (d : Bytes) : P (Option Nat × PRes) := do
  let r0 ← reader
  -- a nested package ran past the end of this one: no byte list (the unsigned length would wrap around)
  if r0.offset > r0.pkgEnd then pure (none, .failed) else do
  let argObj ← newObject opIntByteList
  let r ← reader
  parseByteList d argObj (u32 (r.pkgEnd + 4294967296 - r.offset))
  pure (some argObj, .ok)

/-- `case pArgTypePkgLen:` -/
def parsePkgLenArg (d : Bytes) (info curObj : Nat) : P (Option Nat × PRes) := do
  let origOffset ← lex offset
  let pr ← lex (parsePkgLength d)
  if pr.2 ≠ .ok then pure (none, pr.2) else do
  let flags ← optP (opFlags info)
  if !(← allBlocks) ∧ hasFlag flags flagDeferParsing then do
    updObj curObj fun o => { o with pkgEnd := u32 (origOffset + pr.1) }
    lex (setOffset d (u32 (origOffset + pr.1)))
    pure (none, .shortCircuit)
  else if !(← pushPkgEnd d (u32 (origOffset + pr.1))) then pure (none, .failed)
  else pure (none, .ok)

/-- the part of `case pArgTypeTermList:` common to both modes: the new scope block is entered -/
def newScopeBlock : P Nat := do
  let scope ← newObject opIntScopeBlock
  let off ← lex offset
  updObj scope fun o => { o with amlOffset := off }
  scopeEnter (← getObj scope).index
  pure scope

mutual

/-- `parseNextObject()` -/
def parseNextObject (d : Bytes) : Nat → P PRes
  | 0 => throw .outOfFuel
  | f+1 => do
    let curOffset ← lex offset
    let opr ← lex (nextOpcode d)
    if opr.1 = opNoop then pure .ok
    else if opr.2 = .failed then parseNamePathOrMethodCall d f
    else do
      let curObj ← newObject opr.1
      updObj curObj fun o => { o with amlOffset := curOffset }
      let sc ← derefP (← scopeCurrent)
      tree (·.append sc curObj)
      parseObjectArgs d f curObj

/-- `parseObjectArgs(curObj)` -/
def parseObjectArgs (d : Bytes) : Nat → Nat → P PRes
  | 0, _ => throw .outOfFuel
  | f+1, curObj => do
    let o ← getObj curObj
    let res ←
      if o.opcode = opBytePrefix then setNumValue d curObj 1
      else if o.opcode = opWordPrefix then setNumValue d curObj 2
      else if o.opcode = opDwordPrefix then setNumValue d curObj 4
      else if o.opcode = opQwordPrefix then setNumValue d curObj 8
      else if o.opcode = opStringPrefix then setStringValue d curObj
      else do
        let _ ← optP (opFlags o.infoIndex)
        parseArgs d f o.infoIndex curObj 0
    pure (if res = .shortCircuit then .ok else res)

/-- the argument loop of `parseArgs(info, curObj, argOffset)` from `argIndex` -/
def parseArgs (d : Bytes) : Nat → Nat → Nat → Nat → P PRes
  | 0, _, _, _ => throw .outOfFuel
  | f+1, info, curObj, argIndex => do
    let argCount ← optP (opArgCount info)
    if argIndex < argCount then do
      let ar ← parseArg d f info curObj (← optP (opArg info argIndex))
      match ar.1 with
      | some a => tree (·.append curObj a)
      | none => pure ()
      if ar.2 = .ok then parseArgs d f info curObj (argIndex + 1) else pure ar.2
    else pure .ok

/-- `parseArg(info, curObj, argType)` -/
def parseArg (d : Bytes) : Nat → Nat → Nat → Nat → P (Option Nat × PRes)
  | 0, _, _, _ => throw .outOfFuel
  | f+1, info, curObj, argType => do
    if isSimpleArg argType then parseSimpleArg d argType
    else if argType = argTypeByteList then parseByteListArg d
    else if argType = argTypePkgLen then parsePkgLenArg d info curObj
    else if argType = argTypeFieldList then do
      let res ← parseFieldElements d curObj
      pure (none, res)
    else if argType = argTypeTermArg ∨ argType = argTypeDataRefObj then do
      if (← allBlocks) then parseStrictTermArg d f curObj else pure (none, .shortCircuit)
    else if argType = argTypeTermList then do
      let scope ← newScopeBlock
      if !(← allBlocks) then pure (some scope, .shortCircuit) else do
      tree (·.append curObj scope)
      if !(← termListLoop d f) then pure (none, .failed) else do
      scopeExit
      tree (·.detach curObj scope)
      pure (some scope, .ok)
    else parseTarget d f

/-- `for !p.r.EOF() { if p.parseNextObject() != parseResultOk { return failed } }` — `false` = failed -/
def termListLoop (d : Bytes) : Nat → P Bool
  | 0 => throw .outOfFuel
  | f+1 => do
    if (← lex eof) then pure true
    else if (← parseNextObject d f) ≠ .ok then pure false
    else termListLoop d f

/-- `parseNamePathOrMethodCall()` -/
def parseNamePathOrMethodCall (d : Bytes) : Nat → P PRes
  | 0 => throw .outOfFuel
  | f+1 => do
    let curOffset ← lex offset
    let sr ← lex (parseNameString d)
    if sr.2 ≠ .ok then pure .failed
    else if !(← allBlocks) then namePathOrCallObject curOffset sr.1
    else do
      let sc ← scopeCurrent
      let t ← getTree
      let anc ← liftR (t.ClosestNamedAncestor namedInfo sc)
      let targetIndex ← liftR (t.Find anc (sliceExpr d sr.1))
      if targetIndex = invalidIndex then pure .failed else do
      let target ← objectAt targetIndex
      let curObj ← newObject opIntResolvedNamePath
      updObj curObj fun o => { o with amlOffset := curOffset }
      updObj curObj fun o => { o with value := .idx targetIndex }
      let sc ← derefP (← scopeCurrent)
      tree (·.append sc curObj)
      let targetO ← getObj (← derefP target)
      if targetO.opcode ≠ opMethod then pure .ok else do
      updObj curObj fun o => { o with opcode := opIntMethodCall }
      updObj curObj fun o => { o with infoIndex := pOpcodeTableIndex opIntMethodCall true }
      scopeEnter (← getObj curObj).index
      let t ← getTree
      let flagsObj ← derefP (← liftR (t.ArgAt target 1))
      let argCount := (← u64Value flagsObj) &&& 0x7
      if !(← methodArgsLoop d f argCount) then do
        scopeExit
        pure .failed
      else do
        scopeExit
        pure .ok

/-- `for argIndex := 0; argIndex < argCount; argIndex++ { parseNextObject() }` — `false` = failed -/
def methodArgsLoop (d : Bytes) : Nat → Nat → P Bool
  | 0, _ => throw .outOfFuel
  | _+1, 0 => pure true
  | f+1, n+1 => do
    if (← parseNextObject d f) ≠ .ok then pure false
    else methodArgsLoop d f n

/-- `parseStrictTermArg(curObj)` -/
def parseStrictTermArg (d : Bytes) : Nat → Nat → P (Option Nat × PRes)
  | 0, _ => throw .outOfFuel
  | f+1, curObj => do
    let curOffset ← lex offset
    let opr ← lex (peekNextOpcode d)
    if opr.2 ≠ .ok then do
      scopeEnter (← getObj curObj).index
      let res ← parseNamePathOrMethodCall d f
      scopeExit
      let termObj ←
        if res = .ok then do
          let termObj ← objectAt (← getObj curObj).lastArgIndex
          let t ← derefP termObj
          tree (·.detach curObj t)
          pure termObj
        else pure none
      if (← lex eof) then popPkgEnd d else pure ()
      pure (termObj, res)
    else if !pOpIsType2 opr.1 ∧ !pOpIsDataObject opr.1 ∧ !pOpIsArg opr.1 then pure (none, .failed)
    else do
      let _ ← lex (nextOpcode d)
      let termObj ← newObject opr.1
      updObj termObj fun o => { o with amlOffset := curOffset }
      tree (·.append curObj termObj)
      let res ← parseObjectArgs d f termObj
      tree (·.detach curObj termObj)
      if (← lex eof) then popPkgEnd d else pure ()
      pure (some termObj, res)

/-- `parseTarget()` -/
def parseTarget (d : Bytes) : Nat → P (Option Nat × PRes)
  | 0 => throw .outOfFuel
  | f+1 => do
    let origOffset ← lex offset
    let opr ← lex (nextOpcode d)
    if opr.2 = .ok then do
      if opr.1 = opZero then pure (none, .ok)
      else if pOpIsArg opr.1 ∨ opr.1 = opRefOf ∨ opr.1 = opDerefOf ∨ opr.1 = opIndex ∨ opr.1 = opDebug then do
        let obj ← newObject opr.1
        updObj obj fun o => { o with amlOffset := origOffset }
        let res ← parseObjectArgs d f obj
        pure (some obj, res)
      else pure (none, .failed)
    else do
      lex (setOffset d origOffset)
      let curObj ← newObject opIntNamePath
      updObj curObj fun o => { o with amlOffset := origOffset }
      let res ← setNameValue d curObj
      pure (some curObj, res)

end

/-- `for !p.r.EOF() { if p.parseNextObject() != parseResultOk { return failed } }` of `parseObjectList` -/
def objectListInner (d : Bytes) (fuel : Nat) : Nat → P Bool
  | 0 => throw .outOfFuel
  | n+1 => do
    if (← lex eof) then pure true
    else if (← parseNextObject d fuel) ≠ .ok then pure false
    else objectListInner d fuel n

/-- `parseObjectList()` -/
def parseObjectList (d : Bytes) (fuel : Nat) : Nat → P PRes
  | 0 => throw .outOfFuel
  | n+1 => do
    if (← stackSizes).2 = 0 then pure .ok
    else if !(← objectListInner d fuel fuel) then pure .failed
    else do
      let sz ← stackSizes
      if sz.1 = sz.2 then scopeExit else pure ()
      popPkgEnd d
      parseObjectList d fuel n

/-- `attachSiblingsAsArgs(parentObj, targetObj, numArgs, useParentSiblings)` from `siblingIndex` -/
def attachSiblingsAsArgs (parentObj targetObj : Nat) (useParentSiblings : Bool) : Nat → Nat → P PRes
  | 0, _ => pure .ok
  | numArgs+1, siblingIndex0 => do
    let siblingIndex ←
      if siblingIndex0 = invalidIndex ∧ useParentSiblings then do
        let po ← getObj parentObj
        pure po.nextSiblingIndex
      else pure siblingIndex0
    if siblingIndex = invalidIndex then pure .failed else do
    let siblingObj ← derefP (← objectAt siblingIndex)
    let so ← getObj siblingObj
    let realParent ← derefP (← objectAt so.parentIndex)
    tree (·.detach realParent siblingObj)
    tree (·.append targetObj siblingObj)
    attachSiblingsAsArgs parentObj targetObj useParentSiblings numArgs so.nextSiblingIndex

/-- index of the first TermArg/DataRefObj argument of table row `info`, or `argCount` -/
def firstTermArg (info : Nat) : Nat → Nat → Nat → P Nat
  | 0, i, _ => pure i
  | n+1, i, argCount =>
    if i < argCount then do
      let a ← optP (opArg info i)
      if a = argTypeTermArg ∨ a = argTypeDataRefObj then pure i else firstTermArg info n (i + 1) argCount
    else pure i

/-- `NumArgs(obj)` on the current tree -/
def numArgs (obj : Nat) : P Nat := do
  let t ← getTree
  liftR (t.NumArgs (some obj))

/-- `obj.prevSiblingIndex` (the loop increment of the reverse argument loops) -/
def prevOf (obj : Nat) : P Nat := do
  let o ← getObj obj
  pure o.prevSiblingIndex

/-- `obj.nextSiblingIndex` -/
def nextOf (obj : Nat) : P Nat := do
  let o ← getObj obj
  pure o.nextSiblingIndex

/-- the body of one iteration of the `connectNamedObjArgs` loop after the recursive call:
`.inl res` = `return res`, `.inr ()` = `continue`/next -/
def connectNamedStep (d : Bytes) (obj argObj : Nat) : P (Sum PRes Unit) := do
  let ao ← getObj argObj
  let flags ← optP (opFlags ao.infoIndex)
  if !hasFlag flags flagNamed ∨ ao.tableHandle ≠ (← tableHandle) ∨ ao.firstArgIndex = invalidIndex ∨
      ao.opcode = opIntScopeBlock then pure (.inr ())
  else do
    let first ← derefP (← objectAt ao.firstArgIndex)
    match valBytes d (← getObj first).value with
    | none => pure (.inl .failed)
    | some nb =>
      if nb.2.1 < amlNameLen then pure (.inl .failed) else do
      updObj argObj fun o => { o with name := Name.ofList (nb.2.2.drop (nb.2.1 - amlNameLen)) }
      let argCount ← optP (opArgCount ao.infoIndex)
      let termArgIndex ← firstTermArg ao.infoIndex argCount 0 argCount
      let n ← numArgs argObj
      if n = argCount ∨ termArgIndex ≥ argCount then pure (.inr ())
      else if (← attachSiblingsAsArgs obj argObj false (argCount - termArgIndex) (← nextOf argObj)) ≠ .ok then
        pure (.inl .failed)
      else pure (.inr ())

mutual
/-- `connectNamedObjArgs(objIndex)` -/
def connectNamedObjArgs (d : Bytes) : Nat → Nat → P PRes
  | 0, _ => throw .outOfFuel
  | f+1, objIndex => do
    let obj ← derefP (← objectAt objIndex)
    let o ← getObj obj
    connectNamedLoop d f obj o.lastArgIndex

/-- the reverse argument loop of `connectNamedObjArgs` from `argIndex` -/
def connectNamedLoop (d : Bytes) : Nat → Nat → Nat → P PRes
  | 0, _, _ => throw .outOfFuel
  | f+1, obj, argIndex => do
    if argIndex = invalidIndex then pure .ok else do
    let argObj ← derefP (← objectAt argIndex)
    let ao ← getObj argObj
    if (← connectNamedObjArgs d f ao.index) ≠ .ok then pure .failed else do
    match ← connectNamedStep d obj argObj with
    | .inl res => pure res
    | .inr _ => connectNamedLoop d f obj (← prevOf argObj)
end

/-- the loop that looks for the `pOpIntScopeBlock` nested in a scoped object; `none` = not found -/
def findScopeBlock : Nat → Nat → P (Option Nat)
  | 0, _ => throw .outOfFuel
  | f+1, targetIndex => do
    if targetIndex = invalidIndex then pure none else do
    let nextObj ← derefP (← objectAt targetIndex)
    let no ← getObj nextObj
    if no.opcode = opIntScopeBlock then pure (some nextObj)
    else findScopeBlock f no.nextSiblingIndex

/-- "Unless the new parent is an pOpIntScopeBlock it will contain a nested pOpIntScopeBlock":
the scope block to attach to, `none` = "resolved to non-scope object" -/
def scopeBlockOf (fuel targetObj : Nat) : P (Option Nat) := do
  let to ← getObj targetObj
  if to.opcode ≠ opIntScopeBlock then findScopeBlock fuel to.firstArgIndex else pure (some targetObj)

/-- `for siblingIndex := firstArgIndex; …; { detach(contentsObj, argObj); append(targetObj, argObj) }` -/
def moveContents (contentsObj targetObj : Nat) : Nat → Nat → P Unit
  | 0, _ => throw .outOfFuel
  | f+1, siblingIndex => do
    if siblingIndex = invalidIndex then pure () else do
    let argObj ← derefP (← objectAt siblingIndex)
    let next ← nextOf argObj
    tree (·.detach contentsObj argObj)
    tree (·.append targetObj argObj)
    moveContents contentsObj targetObj f next

/-- `x.value.([]byte)` (panicking type assertion): the bytes -/
def bytesValue (d : Bytes) (i : Nat) : P (List UInt8) := do
  match valBytes d (← getObj i).value with
  | some nb => pure nb.2.2
  | none => throw .panic

/-- counters of the resolve loop -/
def passCounters : P (Nat × Nat) := fun s => pure ((s.resolvePasses, s.relocatedObjects), s)

/-- the `pOpScope` case of `mergeScopeDirectives` for the scope directive `obj` (its first arg
exists): `.inl res` = `return res`, `.inr firstArgIndex` = go on with the moved contents -/
def mergeScope (d : Bytes) (fuel obj : Nat) : P (Sum PRes Nat) := do
  let o ← getObj obj
  let nameObj ← derefP (← objectAt o.firstArgIndex)
  let targetName ← bytesValue d nameObj
  let t ← getTree
  let targetIndex ← liftR (t.Find o.parentIndex targetName)
  if targetIndex = invalidIndex then do
    let pc ← passCounters
    if pc.1 > 1 ∧ pc.2 = 0 then pure (.inl .failed) else pure (.inl .requireExtraPass)
  else do
    let target0 ← derefP (← objectAt targetIndex)
    match ← scopeBlockOf fuel target0 with
    | none => pure (.inl .failed)
    | some targetObj => do
      let contentsObj ← derefP (← objectAt (← getObj obj).lastArgIndex)
      let firstArgIndex := (← getObj contentsObj).firstArgIndex
      moveContents contentsObj targetObj fuel firstArgIndex
      tree (·.free nameObj)
      tree (·.free contentsObj)
      tree (·.free obj)
      modify fun s => { s with mergedScopes := u32 (s.mergedScopes + 1) }
      pure (.inr firstArgIndex)

mutual
/-- `mergeScopeDirectives(objIndex)` -/
def mergeScopeDirectives (d : Bytes) : Nat → Nat → P PRes
  | 0, _ => throw .outOfFuel
  | f+1, objIndex => do
    let obj ← derefP (← objectAt objIndex)
    let o ← getObj obj
    if objIndex = 0 then modify fun s => { s with mergedScopes := 0 } else pure ()
    let flags ← optP (opFlags o.infoIndex)
    if hasFlag flags flagExecutable then pure .ok
    else if o.opcode = opScope ∧ o.tableHandle = (← tableHandle) then do
      if o.firstArgIndex = invalidIndex then pure .failed else do
      match ← mergeScope d f obj with
      | .inl res => pure res
      | .inr firstArgIndex => mergeLoop d f firstArgIndex .ok
    else mergeLoop d f o.firstArgIndex .ok

/-- the recursion over the children of `mergeScopeDirectives` -/
def mergeLoop (d : Bytes) : Nat → Nat → PRes → P PRes
  | 0, _, _ => throw .outOfFuel
  | f+1, siblingIndex, res => do
    if siblingIndex = invalidIndex then pure res else do
    let argObj ← derefP (← objectAt siblingIndex)
    let ao ← getObj argObj
    match ← mergeScopeDirectives d f ao.index with
    | .failed => pure .failed
    | .requireExtraPass => mergeLoop d f ao.nextSiblingIndex .requireExtraPass
    | _ => mergeLoop d f ao.nextSiblingIndex res
end

/-- the repaired guard of `relocateNamedObjects`: is `obj` the target or one of its ancestors? -/
def isAncestorOrSelf (obj : Nat) : Nat → Nat → P Bool
  | 0, _ => throw .outOfFuel
  | f+1, ancestorIndex => do
    if ancestorIndex = invalidIndex then pure false else do
    let o ← getObj obj
    if ancestorIndex = o.index then pure true else do
    let a ← derefP (← objectAt ancestorIndex)
    let ao ← getObj a
    isAncestorOrSelf obj f ao.parentIndex

/-- the relocation of the named object `obj` whose namepath `(off, len)` is longer than one segment:
`.inl res` = `return res`, `.inr ()` = go on with the children -/
def relocateOne (d : Bytes) (fuel obj off len : Nat) (bytes : List UInt8) : P (Sum PRes Unit) := do
  let nameIndex := len - amlNameLen
  let t ← getTree
  let anc ← liftR (t.ClosestNamedAncestor namedInfo (some obj))
  let targetIndex ← liftR (t.Find anc (bytes.take nameIndex))
  if targetIndex = invalidIndex then do
    let pc ← passCounters
    if pc.1 > maxResolvePasses then pure (.inl .failed) else pure (.inl .requireExtraPass)
  else do
    let target0 ← derefP (← objectAt targetIndex)
    match ← scopeBlockOf fuel target0 with
    | none => pure (.inl .failed)
    | some targetObj => do
      let tobj ← getObj targetObj
      if (← isAncestorOrSelf obj fuel tobj.index) then pure (.inl .failed) else do
      let parent ← derefP (← objectAt (← getObj obj).parentIndex)
      tree (·.detach parent obj)
      tree (·.append targetObj obj)
      let first ← derefP (← objectAt (← getObj obj).firstArgIndex)
      updObj first fun fo => { fo with value := .bytes (off + nameIndex) (len - nameIndex) }
      modify fun s => { s with relocatedObjects := u32 (s.relocatedObjects + 1) }
      pure (.inr ())

/-- the named-object case of `relocateNamedObjects` -/
def relocateNamed (d : Bytes) (fuel obj : Nat) : P (Sum PRes Unit) := do
  let o ← getObj obj
  let first ← derefP (← objectAt o.firstArgIndex)
  match valBytes d (← getObj first).value with
  | none => pure (.inl .failed)
  | some nb =>
    if nb.2.1 > amlNameLen then relocateOne d fuel obj nb.1 nb.2.1 nb.2.2 else pure (.inr ())

mutual
/-- `relocateNamedObjects(objIndex)` -/
def relocateNamedObjects (d : Bytes) : Nat → Nat → P PRes
  | 0, _ => throw .outOfFuel
  | f+1, objIndex => do
    let obj ← derefP (← objectAt objIndex)
    let o ← getObj obj
    let flags ← optP (opFlags o.infoIndex)
    if objIndex = 0 then modify fun s => { s with relocatedObjects := 0 } else pure ()
    if hasFlag flags flagExecutable then pure .ok
    else if hasFlag flags flagNamed ∧ o.firstArgIndex ≠ invalidIndex ∧ o.tableHandle = (← tableHandle) ∧
        o.opcode ≠ opIntScopeBlock then do
      match ← relocateNamed d f obj with
      | .inl res => pure res
      | .inr _ => relocateLoop d f (← getObj obj).firstArgIndex .ok
    else relocateLoop d f o.firstArgIndex .ok

/-- the recursion over the children of `relocateNamedObjects` -/
def relocateLoop (d : Bytes) : Nat → Nat → PRes → P PRes
  | 0, _, _ => throw .outOfFuel
  | f+1, siblingIndex, res => do
    if siblingIndex = invalidIndex then pure res else do
    let argObj ← derefP (← objectAt siblingIndex)
    let ao ← getObj argObj
    match ← relocateNamedObjects d f ao.index with
    | .failed => pure .failed
    | .requireExtraPass => relocateLoop d f ao.nextSiblingIndex .requireExtraPass
    | _ => relocateLoop d f ao.nextSiblingIndex res
end

/-- `for len(p.pkgEndStack) != 0 { p.popPkgEnd() }` -/
def popAllPkgEnds (d : Bytes) : Nat → P Unit
  | 0 => pure ()
  | n+1 => do
    if (← stackSizes).1 = 0 then pure () else do
    popPkgEnd d
    popAllPkgEnds d n

/-- the deferred-object case of `parseDeferredBlocks` -/
def parseDeferred (d : Bytes) (fuel obj : Nat) : P PRes := do
  let o ← getObj obj
  modify fun s => { s with allBlocks := true }
  let se ← (fun s => pure (s.streamEnd, s) : P Nat)
  let _ ← lex (setPkgEnd d se)
  lex (setOffset d (u32 (o.amlOffset + 1)))
  if o.opcode > 0xff then do
    let _ ← lex (readByte d)
    pure ()
  else pure ()
  if (← parseObjectArgs d fuel obj) ≠ .ok then pure .failed else do
  popAllPkgEnds d ((← stackSizes).1 + 1)
  pure .ok

mutual
/-- `parseDeferredBlocks(objIndex)` -/
def parseDeferredBlocks (d : Bytes) (fuel : Nat) : Nat → Nat → P PRes
  | 0, _ => throw .outOfFuel
  | f+1, objIndex => do
    let obj ← derefP (← objectAt objIndex)
    let o ← getObj obj
    let flags ← optP (opFlags o.infoIndex)
    if hasFlag flags flagDeferParsing ∧ o.tableHandle = (← tableHandle) then parseDeferred d fuel obj
    else deferredLoop d fuel f o.firstArgIndex

/-- the recursion over the children of `parseDeferredBlocks` -/
def deferredLoop (d : Bytes) (fuel : Nat) : Nat → Nat → P PRes
  | 0, _ => throw .outOfFuel
  | f+1, argIndex => do
    if argIndex = invalidIndex then pure .ok
    else if (← parseDeferredBlocks d fuel f argIndex) ≠ .ok then pure .failed
    else do
      let a ← derefP (← objectAt argIndex)
      deferredLoop d fuel f (← nextOf a)
end

/-- one iteration of the `connectNonNamedObjArgs` loop after the recursive call: `false` = failed -/
def connectNonNamedStep (obj argObj : Nat) : P Bool := do
  let ao ← getObj argObj
  let flags ← optP (opFlags ao.infoIndex)
  if hasFlag flags flagNamed ∨ ao.tableHandle ≠ (← tableHandle) then pure true else do
  let argCount ← optP (opArgCount ao.infoIndex)
  let termArgIndex ← firstTermArg ao.infoIndex argCount 0 argCount
  let n ← numArgs argObj
  if termArgIndex ≥ argCount ∨ n > termArgIndex then pure true
  else if (← attachSiblingsAsArgs obj argObj true (argCount - termArgIndex) (← nextOf argObj)) = .failed then pure false
  else pure true

mutual
/-- `connectNonNamedObjArgs(objIndex)` -/
def connectNonNamedObjArgs : Nat → Nat → P PRes
  | 0, _ => throw .outOfFuel
  | f+1, objIndex => do
    let obj ← derefP (← objectAt objIndex)
    let o ← getObj obj
    connectNonNamedLoop f obj o.lastArgIndex

def connectNonNamedLoop : Nat → Nat → Nat → P PRes
  | 0, _, _ => throw .outOfFuel
  | f+1, obj, argIndex => do
    if argIndex = invalidIndex then pure .ok else do
    let argObj ← derefP (← objectAt argIndex)
    let ao ← getObj argObj
    if (← connectNonNamedObjArgs f ao.index) ≠ .ok then pure .failed
    else if !(← connectNonNamedStep obj argObj) then pure .failed
    else connectNonNamedLoop f obj (← prevOf argObj)
end

/-- `argObj.opcode = op; argObj.infoIndex = pOpcodeTableIndex(op, true)` -/
def mutateOpcode (argObj op : Nat) : P Unit := do
  updObj argObj fun o => { o with opcode := op }
  updObj argObj fun o => { o with infoIndex := pOpcodeTableIndex op true }

/-- the `case pOpMethod:` of `resolveMethodCalls`: `false` = failed -/
def resolveToMethod (obj argObj resolvedObj : Nat) : P Bool := do
  let ro ← getObj resolvedObj
  mutateOpcode argObj opIntMethodCall
  updObj argObj fun o => { o with value := .idx ro.index }
  let t ← getTree
  match ← liftR (t.ArgAt (some resolvedObj) 1) with
  | none => pure false
  | some methodFlagsObj =>
    match (← getObj methodFlagsObj).value with
    | .u64 argCount => do
      if (← attachSiblingsAsArgs obj argObj true (argCount &&& 0x7) (← nextOf argObj)) ≠ .ok then pure false
      else pure true
    | _ => pure false

/-- one iteration of the `resolveMethodCalls` loop after the recursive call: `false` = failed -/
def resolveStep (d : Bytes) (obj argObj : Nat) : P Bool := do
  let ao ← getObj argObj
  if ao.opcode ≠ opIntNamePathOrMethodCall ∨ ao.tableHandle ≠ (← tableHandle) then pure true else do
  let expr ← bytesValue d argObj
  let t ← getTree
  let targetIndex ← liftR (t.Find ao.parentIndex expr)
  if targetIndex = invalidIndex then do
    mutateOpcode argObj opIntNamePath
    pure true
  else do
    let resolvedObj ← derefP (← objectAt targetIndex)
    let ro ← getObj resolvedObj
    if ro.opcode = opMethod then resolveToMethod obj argObj resolvedObj
    else do
      mutateOpcode argObj opIntResolvedNamePath
      updObj argObj fun o => { o with value := .idx ro.index }
      pure true

mutual
/-- `resolveMethodCalls(objIndex)` -/
def resolveMethodCalls (d : Bytes) : Nat → Nat → P PRes
  | 0, _ => throw .outOfFuel
  | f+1, objIndex => do
    let obj ← derefP (← objectAt objIndex)
    let o ← getObj obj
    resolveLoop d f obj o.lastArgIndex

def resolveLoop (d : Bytes) : Nat → Nat → Nat → P PRes
  | 0, _, _ => throw .outOfFuel
  | f+1, obj, argIndex => do
    if argIndex = invalidIndex then pure .ok else do
    let argObj ← derefP (← objectAt argIndex)
    let ao ← getObj argObj
    if (← resolveMethodCalls d f ao.index) ≠ .ok then pure .failed
    else if !(← resolveStep d obj argObj) then pure .failed
    else resolveLoop d f obj (← prevOf argObj)
end

/-- the `for ; ; p.resolvePasses++` loop of `ParseAML` — `false` = `errParsingAML` -/
def resolveLoopPasses (d : Bytes) (fuel : Nat) : Nat → P Bool
  | 0 => throw .outOfFuel
  | n+1 => do
    let mergeRes ← mergeScopeDirectives d fuel 0
    if mergeRes = .failed then pure false else do
    let relocateRes ← relocateNamedObjects d fuel 0
    if relocateRes = .failed then pure false
    else if mergeRes = .ok ∧ relocateRes = .ok then pure true
    else do
      modify fun s => { s with resolvePasses := u32 (s.resolvePasses + 1) }
      resolveLoopPasses d fuel n

/-- `init(tableHandle, tableName, header)` -/
def init (d : Bytes) (handle : Nat) : P Unit := do
  modify fun s => { s with tableHandle := handle, resolvePasses := 0, mergedScopes := 0, relocatedObjects := 0,
                           allBlocks := false, scopeStack := #[], pkgEndStack := #[] }
  modify fun s => { s with r := Reader.init d headerLen, streamEnd := d.size }
  let _ ← pushPkgEnd d d.size
  pure ()

/-- `ParseAML` after `p.init(…)` -/
def parseAMLBody (d : Bytes) (fuel : Nat) : P Bool := do
  scopeEnter 0
  if (← parseObjectList d fuel fuel) = .failed then pure false
  else if (← connectNamedObjArgs d fuel 0) ≠ .ok then pure false
  else do
    modify fun s => { s with resolvePasses := 1 }
    if !(← resolveLoopPasses d fuel fuel) then pure false
    else if (← parseDeferredBlocks d fuel fuel 0) ≠ .ok then pure false
    else if (← resolveMethodCalls d fuel 0) ≠ .ok then pure false
    else if (← connectNonNamedObjArgs fuel 0) ≠ .ok then pure false
    else pure true

/-- `ParseAML(tableHandle, tableName, header)`; `d` is the whole table (`header.Length` bytes);
`true` = nil error, `false` = `errParsingAML` -/
def parseAML (d : Bytes) (fuel : Nat) (handle : Nat) : P Bool := do
  init d handle
  parseAMLBody d fuel

/-- the fuel the replay driver and the theorems use: linear in table length + objects present -/
def fuelFor (d : Bytes) (t : ObjectTree) : Nat := 32 * (d.size + t.pool.size) + 64

/-- `NewObjectTree(); CreateDefaultScopes(tableHandle)` -/
def defaultTree (handle : Nat) : Res ObjectTree :=
  NewObjectTree.CreateDefaultScopes (pOpcodeTableIndex opIntScopeBlock true) handle

end Firefly.AmlParser
