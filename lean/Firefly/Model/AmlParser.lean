import Firefly.Model.AmlLex
/-!
# Model of `parser.go` (package `aml`): a statement-by-statement port of `Parser.ParseAML`

Core Lean only.  `P = StateT PState (Except Err)`: the Go `Parser` struct is `PState`, a Go
`*Object` is a pool position, `parseResult` values are returned as data (`PRes`), and the two
ways the Go code can leave the language-level control flow are the two errors of `AmlTree.Err`:
`.panic` (nil dereference, index out of range, failed type assertion, explicit `panic`) and
`.outOfFuel`.  Every recursive Go function (and every loop that is not trivially bounded by the
table length) takes a fuel argument that decreases by one per call / iteration, so the fuel
bounds the length of the longest chain of nested calls and loop iterations — the quantity the
"no stack overflow, no hang" part of C12 is about.

The code modelled is the tree *after* the repairs of this round (relocation into the own subtree
refused; Connection buffer bounded by its package; `attachSiblingsAsArgs` detaches from the real
parent; MultiNamePath length in 32 bits; prefix+NullName keeps its prefix; a strict TermArg is
attached to its parent while its own arguments are parsed).

Go run-time rule reproduced (`runtime.convTslice`): a `[]byte` whose data pointer is nil becomes
the empty slice when stored in `Object.value` (`sliceVal`).
-/
namespace Firefly.AmlParser
open Firefly.AmlTree hiding amlNameLen
open Firefly.AmlLex Firefly.Gen.C12

/-- the Go `Parser` (without `errWriter`, `tableName`) -/
structure PState where
  r : Reader := {}
  tree : ObjectTree := {}
  scopeStack : Array Nat := #[]
  pkgEndStack : Array Nat := #[]
  streamEnd : Nat := 0
  resolvePasses : Nat := 0
  mergedScopes : Nat := 0
  relocatedObjects : Nat := 0
  /-- `mode == parseModeAllBlocks` -/
  allBlocks : Bool := false
  tableHandle : Nat := 0
  deriving Inhabited

abbrev P := StateT PState Res

/-- storing a `[]byte` into `interface{}` -/
def sliceVal (s : Slice) : Val :=
  match s.data with
  | none => .bytes 0 0
  | some off => .bytes off s.len

/-- run a reader action on `p.r` -/
@[inline] def lex (x : LexM α) : P α := fun s => do
  let (a, r) ← x s.r
  pure (a, { s with r := r })

/-- run a tree operation on `p.objTree` (the tree is moved out of the state first so that the
array stays uniquely referenced) -/
@[inline] def tree (f : ObjectTree → Res ObjectTree) : P Unit := fun s => do
  let t := s.tree
  let s := { s with tree := {} }
  let t ← f t
  pure ((), { s with tree := t })

def getObj (i : Nat) : P Obj := fun s => do
  let o ← s.tree.obj i
  pure (o, s)

/-- `p.objTree.ObjectAt(i)` -/
def objectAt (i : Nat) : P (Option Nat) := fun s => pure (s.tree.ObjectAt i, s)

/-- use of a possibly-nil pointer -/
def derefP (o : Option Nat) : P Nat :=
  match o with
  | some i => pure i
  | none => throw .panic

/-- `pOpcodeTable[i]` style accesses: `none` is the Go index panic -/
def optP (o : Option α) : P α :=
  match o with
  | some a => pure a
  | none => throw .panic

/-- run a read-only tree query -/
def liftR (x : Res α) : P α := fun s => do
  let a ← x
  pure (a, s)

def updObj (i : Nat) (f : Obj → Obj) : P Unit := tree (·.upd i f)

/-- `p.objTree.newObject(opcode, p.tableHandle)` -/
def newObject (opcode : Nat) : P Nat := fun s => do
  let t := s.tree
  let s := { s with tree := {} }
  let (t, i) ← t.newObject opcode (pOpcodeTableIndex opcode true) s.tableHandle
  pure (i, { s with tree := t })

def allBlocks : P Bool := fun s => pure (s.allBlocks, s)
def tableHandle : P Nat := fun s => pure (s.tableHandle, s)

/-- `scopeCurrent()`: `ObjectAt(p.scopeStack[len-1])` -/
def scopeCurrent : P (Option Nat) := fun s =>
  match s.scopeStack.back? with
  | none => throw .panic
  | some i => pure (s.tree.ObjectAt i, s)

def scopeEnter (index : Nat) : P Unit := modify fun s => { s with scopeStack := s.scopeStack.push index }

/-- `p.scopeStack = p.scopeStack[:len-1]` (slice bounds panic when empty) -/
def scopeExit : P Unit := fun s =>
  if s.scopeStack.size = 0 then throw .panic else pure ((), { s with scopeStack := s.scopeStack.pop })

/-- `pushPkgEnd(pkgEnd) error` — `true` = nil -/
def pushPkgEnd (d : Bytes) (pkgEnd : Nat) : P Bool := do
  modify fun s => { s with pkgEndStack := s.pkgEndStack.push pkgEnd }
  lex (setPkgEnd d pkgEnd)

def popPkgEnd (d : Bytes) : P Unit := do
  modify fun s => if s.pkgEndStack.size ≠ 0 then { s with pkgEndStack := s.pkgEndStack.pop } else s
  match (← get).pkgEndStack.back? with
  | some e => let _ ← lex (setPkgEnd d e)
  | none => pure ()

/-- the bytes of a `[]byte` value (`none`: the value is not a `[]byte`) -/
def valBytes (d : Bytes) : Val → Option (Nat × Nat × List UInt8)
  | .bytes off len => some (off, len, sliceBytes d off len)
  | _ => none

/-- `parseByteList(obj, dataLen)` -/
def parseByteList (d : Bytes) (obj dataLen : Nat) : P Unit := do
  updObj obj fun o => { o with opcode := opIntByteList }
  updObj obj fun o => { o with infoIndex := pOpcodeTableIndex opIntByteList true }
  let sl ← lex (parseByteListRaw d dataLen)
  updObj obj fun o => { o with value := sliceVal sl }

/-- `parseSimpleArg(argType)` -/
def parseSimpleArg (d : Bytes) (argType : Nat) : P (Option Nat × PRes) := do
  let obj ← newObject 0
  let off ← lex offset
  updObj obj fun o => { o with amlOffset := off }
  let num (op n : Nat) : P PRes := do
    updObj obj fun o => { o with opcode := op }
    let (v, res) ← lex (parseNumConstant d n)
    updObj obj fun o => { o with value := .u64 v }
    pure res
  let res ←
    if argType = argTypeByteData then num opBytePrefix 1
    else if argType = argTypeWordData then num opWordPrefix 2
    else if argType = argTypeDwordData then num opDwordPrefix 4
    else if argType = argTypeQwordData then num opQwordPrefix 8
    else if argType = argTypeString then do
      updObj obj fun o => { o with opcode := opStringPrefix }
      let (sl, res) ← lex (parseString d)
      updObj obj fun o => { o with value := sliceVal sl }
      pure res
    else if argType = argTypeNameString then do
      updObj obj fun o => { o with opcode := opIntNamePath }
      let (sl, res) ← lex (parseNameString d)
      updObj obj fun o => { o with value := sliceVal sl }
      pure res
    else return (none, .failed)
  let o ← getObj obj
  updObj obj fun o' => { o' with infoIndex := pOpcodeTableIndex o.opcode true }
  return (some obj, res)

/-- loop state of `parseFieldElements` -/
structure FieldSt where
  nextFieldOffset : Nat := 0
  accessLength : Nat := 0
  accessType : Nat := 0
  accessAttrib : Nat := 0
  lockType : Nat := 0
  updateType : Nat := 0
  appendAfter : Nat := 0
  connectionIndex : Nat := invalidIndex

/-- the `for i := 0; i < amlNameLen; i++ { field.name[i], err = ReadByte() }` loop -/
def readFieldName (d : Bytes) (field : Nat) : Nat → Nat → P Bool
  | 0, _ => pure true
  | n+1, i => do
    match ← lex (readByte d) with
    | none =>
      updObj field fun o => { o with name := Name.ofList ((o.name.toList.take i) ++ [0] ++ (o.name.toList.drop (i+1))) }
      return false
    | some b =>
      updObj field fun o => { o with name := Name.ofList ((o.name.toList.take i) ++ [b] ++ (o.name.toList.drop (i+1))) }
      readFieldName d field n (i+1)

/-- the body of the `for !p.r.EOF()` loop of `parseFieldElements`; fuel = table length + 1 (every
iteration reads at least one byte) -/
def fieldLoop (d : Bytes) (curObj : Nat) : Nat → FieldSt → P PRes
  | 0, _ => throw .outOfFuel
  | f+1, st => do
    if (← lex eof) then return .shortCircuit
    let next := ((← lex (readByte d)).getD 0).toNat
    if next = 0x00 then
      let (pkgLen, res) ← lex (parsePkgLength d)
      if res = .failed then return .failed
      fieldLoop d curObj f { st with nextFieldOffset := u32 (st.nextFieldOffset + pkgLen) }
    else if next = 0x01 then
      let (v1, res) ← lex (parseNumConstant d 1)
      if res = .failed then return res
      let (v2, res) ← lex (parseNumConstant d 1)
      if res = .failed then return res
      fieldLoop d curObj f { st with accessType := v1 % 256, accessAttrib := v2 % 256 }
    else if next = 0x03 then
      let (v1, res) ← lex (parseNumConstant d 1)
      if res = .failed then return res
      let (v2, res) ← lex (parseNumConstant d 1)
      if res = .failed then return res
      let (v3, res) ← lex (parseNumConstant d 1)
      if res = .failed then return res
      fieldLoop d curObj f { st with accessType := v1 % 256, accessAttrib := v2 % 256, accessLength := v3 % 256 }
    else if next = 0x02 then
      match ← lex (readByte d) with
      | none => return .failed
      | some next2 =>
        let connection ← newObject opIntConnection
        let connectionIndex := (← getObj connection).index
        tree (·.append curObj connection)
        let connArg ←
          if next2.toNat = opBuffer then do
            let r ← lex (fun r => pure (r, r))
            let origPkgEnd := r.pkgEnd
            let origOffset := r.offset
            let (pkgLen, res) ← lex (parsePkgLength d)
            if res ≠ .ok then return res
            let mut dataLen := 0
            if pkgLen > 0 then
              if !(← lex (setPkgEnd d (u32 (origOffset + pkgLen)))) then return .failed
              let (nextOp, res) ← lex (nextOpcode d)
              if res ≠ .ok then return res
              let (dl, res) ←
                if nextOp = opBytePrefix then lex (parseNumConstant d 1)
                else if nextOp = opWordPrefix then lex (parseNumConstant d 2)
                else if nextOp = opDwordPrefix then lex (parseNumConstant d 4)
                else pure (0, PRes.ok)
              dataLen := dl
              if res = .failed then return res
            let r ← lex (fun r => pure (r, r))
            if r.offset + dataLen > r.pkgEnd then return .failed
            let connArg ← newObject opIntByteList
            updObj connArg fun o => { o with amlOffset := origOffset }
            parseByteList d connArg (u32 dataLen)
            let _ ← lex (setPkgEnd d origPkgEnd)
            lex (setOffset d (u32 (origOffset + pkgLen)))
            pure connArg
          else do
            let _ ← lex unreadByte
            let connArg ← newObject opIntNamePath
            let off ← lex offset
            updObj connArg fun o => { o with amlOffset := off }
            let (sl, res) ← lex (parseNameString d)
            updObj connArg fun o => { o with value := sliceVal sl }
            if res ≠ .ok then return res
            pure connArg
        tree (·.append connection connArg)
        fieldLoop d curObj f { st with connectionIndex := connectionIndex }
    else
      let _ ← lex unreadByte
      let field ← newObject opIntNamedField
      let off ← lex offset
      updObj field fun o => { o with amlOffset := off }
      if !(← readFieldName d field amlNameLen 0) then return .failed
      let (pkgLen, res) ← lex (parsePkgLength d)
      if res ≠ .ok then return res
      let co ← getObj curObj
      let fe : Val := .field st.nextFieldOffset pkgLen st.accessLength st.accessType
        st.accessAttrib st.lockType st.updateType st.connectionIndex co.index
      updObj field fun o => { o with value := fe }
      let parent ← derefP (← objectAt co.parentIndex)
      tree (·.appendAfter parent field st.appendAfter)
      fieldLoop d curObj f { st with appendAfter := field, nextFieldOffset := u32 (st.nextFieldOffset + pkgLen) }

/-- `parseFieldElements(curObj)` -/
def parseFieldElements (d : Bytes) (curObj : Nat) : P PRes := do
  let co ← getObj curObj
  let last ← derefP (← objectAt co.lastArgIndex)
  let initialFlags ← match (← getObj last).value with
    | .u64 v => pure (v % 256)
    | _ => throw .panic
  fieldLoop d curObj (d.size + 1)
    { accessType := initialFlags &&& 0xf, lockType := (initialFlags >>> 4) &&& 0x1,
      updateType := (initialFlags >>> 5) &&& 0x3, appendAfter := curObj }

/-- `ClosestNamedAncestor` with the generated opcode table -/
def namedInfo (i : Nat) : Option Bool := (opFlags i).map fun fl => hasFlag fl flagNamed

mutual

/-- `parseNextObject()` -/
def parseNextObject (d : Bytes) : Nat → P PRes
  | 0 => throw .outOfFuel
  | f+1 => do
    let curOffset ← lex offset
    let (nextOp, res) ← lex (nextOpcode d)
    if nextOp = opNoop then return .ok
    if res = .failed then return ← parseNamePathOrMethodCall d f
    let curObj ← newObject nextOp
    updObj curObj fun o => { o with amlOffset := curOffset }
    let sc ← derefP (← scopeCurrent)
    tree (·.append sc curObj)
    parseObjectArgs d f curObj

/-- `parseObjectArgs(curObj)` -/
def parseObjectArgs (d : Bytes) : Nat → Nat → P PRes
  | 0, _ => throw .outOfFuel
  | f+1, curObj => do
    let o ← getObj curObj
    let num (n : Nat) : P PRes := do
      let (v, res) ← lex (parseNumConstant d n)
      updObj curObj fun o => { o with value := .u64 v }
      pure res
    let res ←
      if o.opcode = opBytePrefix then num 1
      else if o.opcode = opWordPrefix then num 2
      else if o.opcode = opDwordPrefix then num 4
      else if o.opcode = opQwordPrefix then num 8
      else if o.opcode = opStringPrefix then do
        let (sl, res) ← lex (parseString d)
        updObj curObj fun o => { o with value := sliceVal sl }
        pure res
      else do
        let _ ← optP (opFlags o.infoIndex)
        parseArgs d f o.infoIndex curObj 0
    return if res = .shortCircuit then .ok else res

/-- the argument loop of `parseArgs(info, curObj, argOffset)` from `argIndex` -/
def parseArgs (d : Bytes) : Nat → Nat → Nat → Nat → P PRes
  | 0, _, _, _ => throw .outOfFuel
  | f+1, info, curObj, argIndex => do
    let argCount ← optP (opArgCount info)
    if argIndex < argCount then
      let (argObj, res) ← parseArg d f info curObj (← optP (opArg info argIndex))
      match argObj with
      | some a => tree (·.append curObj a)
      | none => pure ()
      if res = .ok then parseArgs d f info curObj (argIndex + 1) else return res
    else return .ok

/-- `parseArg(info, curObj, argType)` -/
def parseArg (d : Bytes) : Nat → Nat → Nat → Nat → P (Option Nat × PRes)
  | 0, _, _, _ => throw .outOfFuel
  | f+1, info, curObj, argType => do
    if argType = argTypeByteData ∨ argType = argTypeWordData ∨ argType = argTypeDwordData ∨
       argType = argTypeQwordData ∨ argType = argTypeString ∨ argType = argTypeNameString then
      parseSimpleArg d argType
    else if argType = argTypeByteList then
      let argObj ← newObject opIntByteList
      let r ← lex (fun r => pure (r, r))
      parseByteList d argObj (u32 (r.pkgEnd + 4294967296 - r.offset))
      return (some argObj, .ok)
    else if argType = argTypePkgLen then
      let origOffset ← lex offset
      let (pkgLen, res) ← lex (parsePkgLength d)
      if res ≠ .ok then return (none, res)
      let flags ← optP (opFlags info)
      if !(← allBlocks) ∧ hasFlag flags flagDeferParsing then
        updObj curObj fun o => { o with pkgEnd := u32 (origOffset + pkgLen) }
        lex (setOffset d (u32 (origOffset + pkgLen)))
        return (none, .shortCircuit)
      if !(← pushPkgEnd d (u32 (origOffset + pkgLen))) then return (none, .failed)
      return (none, .ok)
    else if argType = argTypeFieldList then
      return (none, ← parseFieldElements d curObj)
    else if argType = argTypeTermArg ∨ argType = argTypeDataRefObj then
      if (← allBlocks) then parseStrictTermArg d f curObj else return (none, .shortCircuit)
    else if argType = argTypeTermList then
      let scope ← newObject opIntScopeBlock
      let off ← lex offset
      updObj scope fun o => { o with amlOffset := off }
      scopeEnter (← getObj scope).index
      if !(← allBlocks) then return (some scope, .shortCircuit)
      tree (·.append curObj scope)
      if !(← termListLoop d f) then return (none, .failed)
      scopeExit
      tree (·.detach curObj scope)
      return (some scope, .ok)
    else parseTarget d f

/-- `for !p.r.EOF() { if p.parseNextObject() != parseResultOk { return failed } }` — `false` = failed -/
def termListLoop (d : Bytes) : Nat → P Bool
  | 0 => throw .outOfFuel
  | f+1 => do
    if (← lex eof) then return true
    if (← parseNextObject d f) ≠ .ok then return false
    termListLoop d f

/-- `parseNamePathOrMethodCall()` -/
def parseNamePathOrMethodCall (d : Bytes) : Nat → P PRes
  | 0 => throw .outOfFuel
  | f+1 => do
    let curOffset ← lex offset
    let (pathExpr, res) ← lex (parseNameString d)
    if res ≠ .ok then return .failed
    if !(← allBlocks) then
      let curObj ← newObject opIntNamePathOrMethodCall
      updObj curObj fun o => { o with amlOffset := curOffset }
      updObj curObj fun o => { o with value := sliceVal pathExpr }
      let sc ← derefP (← scopeCurrent)
      tree (·.append sc curObj)
      return .ok
    let sc ← scopeCurrent
    let t := (← get).tree
    let anc ← liftR (t.ClosestNamedAncestor namedInfo sc)
    let expr := match pathExpr.data with
      | some off => sliceBytes d off pathExpr.len
      | none => []
    let targetIndex ← liftR (t.Find anc expr)
    if targetIndex = invalidIndex then return .failed
    let target ← objectAt targetIndex
    let curObj ← newObject opIntResolvedNamePath
    updObj curObj fun o => { o with amlOffset := curOffset }
    updObj curObj fun o => { o with value := .idx targetIndex }
    let sc ← derefP (← scopeCurrent)
    tree (·.append sc curObj)
    let targetO ← getObj (← derefP target)
    if targetO.opcode ≠ opMethod then return .ok
    updObj curObj fun o => { o with opcode := opIntMethodCall }
    updObj curObj fun o => { o with infoIndex := pOpcodeTableIndex opIntMethodCall true }
    scopeEnter (← getObj curObj).index
    let t := (← get).tree
    let flagsObj ← derefP (← liftR (t.ArgAt target 1))
    let argCount ← match (← getObj flagsObj).value with
      | .u64 v => pure (v &&& 0x7)
      | _ => throw .panic
    if !(← methodArgsLoop d f argCount) then
      scopeExit
      return .failed
    scopeExit
    return .ok

/-- `for argIndex := 0; argIndex < argCount; argIndex++ { parseNextObject() }` — `false` = failed -/
def methodArgsLoop (d : Bytes) : Nat → Nat → P Bool
  | 0, _ => throw .outOfFuel
  | _+1, 0 => pure true
  | f+1, n+1 => do
    if (← parseNextObject d f) ≠ .ok then return false
    methodArgsLoop d f n

/-- `parseStrictTermArg(curObj)` -/
def parseStrictTermArg (d : Bytes) : Nat → Nat → P (Option Nat × PRes)
  | 0, _ => throw .outOfFuel
  | f+1, curObj => do
    let curOffset ← lex offset
    let (nextOp, res) ← lex (peekNextOpcode d)
    if res ≠ .ok then
      scopeEnter (← getObj curObj).index
      let res ← parseNamePathOrMethodCall d f
      scopeExit
      let mut termObj : Option Nat := none
      if res = .ok then
        termObj ← objectAt (← getObj curObj).lastArgIndex
        let t ← derefP termObj
        tree (·.detach curObj t)
      if (← lex eof) then popPkgEnd d
      return (termObj, res)
    if !pOpIsType2 nextOp ∧ !pOpIsDataObject nextOp ∧ !pOpIsArg nextOp then return (none, .failed)
    let _ ← lex (nextOpcode d)
    let termObj ← newObject nextOp
    updObj termObj fun o => { o with amlOffset := curOffset }
    tree (·.append curObj termObj)
    let res ← parseObjectArgs d f termObj
    tree (·.detach curObj termObj)
    if (← lex eof) then popPkgEnd d
    return (some termObj, res)

/-- `parseTarget()` -/
def parseTarget (d : Bytes) : Nat → P (Option Nat × PRes)
  | 0 => throw .outOfFuel
  | f+1 => do
    let origOffset ← lex offset
    let (nextOp, res) ← lex (nextOpcode d)
    if res = .ok then
      if nextOp = opZero then return (none, .ok)
      else if pOpIsArg nextOp ∨ nextOp = opRefOf ∨ nextOp = opDerefOf ∨ nextOp = opIndex ∨ nextOp = opDebug then
        let obj ← newObject nextOp
        updObj obj fun o => { o with amlOffset := origOffset }
        return (some obj, ← parseObjectArgs d f obj)
      else return (none, .failed)
    lex (setOffset d origOffset)
    let curObj ← newObject opIntNamePath
    updObj curObj fun o => { o with amlOffset := origOffset }
    let (sl, res) ← lex (parseNameString d)
    updObj curObj fun o => { o with value := sliceVal sl }
    return (some curObj, res)

end

/-- `for !p.r.EOF() { if p.parseNextObject() != parseResultOk { return failed } }` of `parseObjectList` -/
def objectListInner (d : Bytes) (fuel : Nat) : Nat → P Bool
  | 0 => throw .outOfFuel
  | n+1 => do
    if (← lex eof) then return true
    if (← parseNextObject d fuel) ≠ .ok then return false
    objectListInner d fuel n

/-- `parseObjectList()` -/
def parseObjectList (d : Bytes) (fuel : Nat) : Nat → P PRes
  | 0 => throw .outOfFuel
  | n+1 => do
    if (← get).scopeStack.size = 0 then return .ok
    if !(← objectListInner d fuel fuel) then return .failed
    let s ← get
    if s.pkgEndStack.size = s.scopeStack.size then scopeExit
    popPkgEnd d
    parseObjectList d fuel n

/-- `attachSiblingsAsArgs(parentObj, targetObj, numArgs, useParentSiblings)` from `siblingIndex` -/
def attachSiblingsAsArgs (parentObj targetObj : Nat) (useParentSiblings : Bool) : Nat → Nat → P PRes
  | 0, _ => pure .ok
  | numArgs+1, siblingIndex => do
    let mut siblingIndex := siblingIndex
    if siblingIndex = invalidIndex ∧ useParentSiblings then
      siblingIndex := (← getObj parentObj).nextSiblingIndex
    if siblingIndex = invalidIndex then return .failed
    let siblingObj ← derefP (← objectAt siblingIndex)
    let so ← getObj siblingObj
    let realParent ← derefP (← objectAt so.parentIndex)
    tree (·.detach realParent siblingObj)
    tree (·.append targetObj siblingObj)
    attachSiblingsAsArgs parentObj targetObj useParentSiblings numArgs so.nextSiblingIndex

/-- index of the first TermArg/DataRefObj argument of table row `info`, or `argCount` -/
def firstTermArg (info : Nat) : Nat → Nat → Nat → P Nat
  | 0, i, _ => pure i
  | n+1, i, argCount =>
    if i < argCount then do
      let a ← optP (opArg info i)
      if a = argTypeTermArg ∨ a = argTypeDataRefObj then pure i else firstTermArg info n (i + 1) argCount
    else pure i

mutual
/-- `connectNamedObjArgs(objIndex)` -/
def connectNamedObjArgs (d : Bytes) : Nat → Nat → P PRes
  | 0, _ => throw .outOfFuel
  | f+1, objIndex => do
    let obj ← derefP (← objectAt objIndex)
    connectNamedLoop d f obj (← getObj obj).lastArgIndex

/-- the reverse argument loop of `connectNamedObjArgs` from `argIndex` -/
def connectNamedLoop (d : Bytes) : Nat → Nat → Nat → P PRes
  | 0, _, _ => throw .outOfFuel
  | f+1, obj, argIndex => do
    if argIndex = invalidIndex then return .ok
    let argObj ← derefP (← objectAt argIndex)
    if (← connectNamedObjArgs d f (← getObj argObj).index) ≠ .ok then return .failed
    let ao ← getObj argObj
    let flags ← optP (opFlags ao.infoIndex)
    if !hasFlag flags flagNamed ∨ ao.tableHandle ≠ (← tableHandle) ∨ ao.firstArgIndex = invalidIndex ∨
        ao.opcode = opIntScopeBlock then
      return ← connectNamedLoop d f obj (← getObj argObj).prevSiblingIndex
    let first ← derefP (← objectAt ao.firstArgIndex)
    match valBytes d (← getObj first).value with
    | none => return .failed
    | some (_, len, bytes) =>
      if len < amlNameLen then return .failed
      updObj argObj fun o => { o with name := Name.ofList (bytes.drop (len - amlNameLen)) }
      let argCount ← optP (opArgCount ao.infoIndex)
      let termArgIndex ← firstTermArg ao.infoIndex argCount 0 argCount
      let t := (← get).tree
      let numArgs ← liftR (t.NumArgs (some argObj))
      if numArgs = argCount ∨ termArgIndex ≥ argCount then
        return ← connectNamedLoop d f obj (← getObj argObj).prevSiblingIndex
      if (← attachSiblingsAsArgs obj argObj false (argCount - termArgIndex) (← getObj argObj).nextSiblingIndex) ≠ .ok then
        return .failed
      connectNamedLoop d f obj (← getObj argObj).prevSiblingIndex
end

/-- the loop that looks for the `pOpIntScopeBlock` nested in a scoped object; `none` = not found -/
def findScopeBlock : Nat → Nat → P (Option Nat)
  | 0, _ => throw .outOfFuel
  | f+1, targetIndex => do
    if targetIndex = invalidIndex then return none
    let nextObj ← derefP (← objectAt targetIndex)
    let no ← getObj nextObj
    if no.opcode = opIntScopeBlock then return some nextObj
    findScopeBlock f no.nextSiblingIndex

/-- `for siblingIndex := firstArgIndex; …; { detach(contentsObj, argObj); append(targetObj, argObj) }` -/
def moveContents (contentsObj targetObj : Nat) : Nat → Nat → P Unit
  | 0, _ => throw .outOfFuel
  | f+1, siblingIndex => do
    if siblingIndex = invalidIndex then return
    let argObj ← derefP (← objectAt siblingIndex)
    let next := (← getObj argObj).nextSiblingIndex
    tree (·.detach contentsObj argObj)
    tree (·.append targetObj argObj)
    moveContents contentsObj targetObj f next

mutual
/-- `mergeScopeDirectives(objIndex)` -/
def mergeScopeDirectives (d : Bytes) : Nat → Nat → P PRes
  | 0, _ => throw .outOfFuel
  | f+1, objIndex => do
    let obj ← derefP (← objectAt objIndex)
    let o ← getObj obj
    let mut firstArgIndex := o.firstArgIndex
    if objIndex = 0 then modify fun s => { s with mergedScopes := 0 }
    let flags ← optP (opFlags o.infoIndex)
    if hasFlag flags flagExecutable then return .ok
    if o.opcode = opScope ∧ o.tableHandle = (← tableHandle) then
      if o.firstArgIndex = invalidIndex then return .failed
      let nameObj ← derefP (← objectAt o.firstArgIndex)
      let targetName ← match valBytes d (← getObj nameObj).value with
        | some (_, _, bytes) => pure bytes
        | none => throw .panic
      let t := (← get).tree
      let targetIndex ← liftR (t.Find o.parentIndex targetName)
      if targetIndex = invalidIndex then
        let s ← get
        if s.resolvePasses > 1 ∧ s.relocatedObjects = 0 then return .failed
        return .requireExtraPass
      let mut targetObj ← derefP (← objectAt targetIndex)
      let to ← getObj targetObj
      if to.opcode ≠ opIntScopeBlock then
        match ← findScopeBlock f to.firstArgIndex with
        | none => return .failed
        | some sb => targetObj := sb
      let contentsObj ← derefP (← objectAt (← getObj obj).lastArgIndex)
      firstArgIndex := (← getObj contentsObj).firstArgIndex
      moveContents contentsObj targetObj f firstArgIndex
      tree (·.free nameObj)
      tree (·.free contentsObj)
      tree (·.free obj)
      modify fun s => { s with mergedScopes := u32 (s.mergedScopes + 1) }
    mergeLoop d f firstArgIndex .ok

/-- the recursion over the children of `mergeScopeDirectives` -/
def mergeLoop (d : Bytes) : Nat → Nat → PRes → P PRes
  | 0, _, _ => throw .outOfFuel
  | f+1, siblingIndex, res => do
    if siblingIndex = invalidIndex then return res
    let argObj ← derefP (← objectAt siblingIndex)
    let ao ← getObj argObj
    match ← mergeScopeDirectives d f ao.index with
    | .failed => return .failed
    | .requireExtraPass => mergeLoop d f ao.nextSiblingIndex .requireExtraPass
    | _ => mergeLoop d f ao.nextSiblingIndex res
end

/-- the repaired guard of `relocateNamedObjects`: is `obj` the target or one of its ancestors? -/
def isAncestorOrSelf (obj : Nat) : Nat → Nat → P Bool
  | 0, _ => throw .outOfFuel
  | f+1, ancestorIndex => do
    if ancestorIndex = invalidIndex then return false
    if ancestorIndex = (← getObj obj).index then return true
    let a ← derefP (← objectAt ancestorIndex)
    isAncestorOrSelf obj f (← getObj a).parentIndex

mutual
/-- `relocateNamedObjects(objIndex)` -/
def relocateNamedObjects (d : Bytes) : Nat → Nat → P PRes
  | 0, _ => throw .outOfFuel
  | f+1, objIndex => do
    let obj ← derefP (← objectAt objIndex)
    let o ← getObj obj
    let flags ← optP (opFlags o.infoIndex)
    if objIndex = 0 then modify fun s => { s with relocatedObjects := 0 }
    if hasFlag flags flagExecutable then return .ok
    if hasFlag flags flagNamed ∧ o.firstArgIndex ≠ invalidIndex ∧ o.tableHandle = (← tableHandle) ∧
        o.opcode ≠ opIntScopeBlock then
      let first ← derefP (← objectAt o.firstArgIndex)
      match valBytes d (← getObj first).value with
      | none => return .failed
      | some (off, len, bytes) =>
        if len > amlNameLen then
          let nameIndex := len - amlNameLen
          let t := (← get).tree
          let anc ← liftR (t.ClosestNamedAncestor namedInfo (some obj))
          let targetIndex ← liftR (t.Find anc (bytes.take nameIndex))
          if targetIndex = invalidIndex then
            if (← get).resolvePasses > maxResolvePasses then return .failed
            return .requireExtraPass
          let mut targetObj ← derefP (← objectAt targetIndex)
          let to ← getObj targetObj
          if to.opcode ≠ opIntScopeBlock then
            match ← findScopeBlock f to.firstArgIndex with
            | none => return .failed
            | some sb => targetObj := sb
          if (← isAncestorOrSelf obj f (← getObj targetObj).index) then return .failed
          let parent ← derefP (← objectAt (← getObj obj).parentIndex)
          tree (·.detach parent obj)
          tree (·.append targetObj obj)
          let first ← derefP (← objectAt (← getObj obj).firstArgIndex)
          updObj first fun fo => { fo with value := .bytes (off + nameIndex) (len - nameIndex) }
          modify fun s => { s with relocatedObjects := u32 (s.relocatedObjects + 1) }
    relocateLoop d f (← getObj obj).firstArgIndex .ok

/-- the recursion over the children of `relocateNamedObjects` -/
def relocateLoop (d : Bytes) : Nat → Nat → PRes → P PRes
  | 0, _, _ => throw .outOfFuel
  | f+1, siblingIndex, res => do
    if siblingIndex = invalidIndex then return res
    let argObj ← derefP (← objectAt siblingIndex)
    let ao ← getObj argObj
    match ← relocateNamedObjects d f ao.index with
    | .failed => return .failed
    | .requireExtraPass => relocateLoop d f ao.nextSiblingIndex .requireExtraPass
    | _ => relocateLoop d f ao.nextSiblingIndex res
end

/-- `for len(p.pkgEndStack) != 0 { p.popPkgEnd() }` -/
def popAllPkgEnds (d : Bytes) : Nat → P Unit
  | 0 => pure ()
  | n+1 => do
    if (← get).pkgEndStack.size = 0 then return
    popPkgEnd d
    popAllPkgEnds d n

mutual
/-- `parseDeferredBlocks(objIndex)` -/
def parseDeferredBlocks (d : Bytes) (fuel : Nat) : Nat → Nat → P PRes
  | 0, _ => throw .outOfFuel
  | f+1, objIndex => do
    let obj ← derefP (← objectAt objIndex)
    let o ← getObj obj
    let flags ← optP (opFlags o.infoIndex)
    if hasFlag flags flagDeferParsing ∧ o.tableHandle = (← tableHandle) then
      modify fun s => { s with allBlocks := true }
      let _ ← lex (setPkgEnd d (← get).streamEnd)
      lex (setOffset d (u32 (o.amlOffset + 1)))
      if o.opcode > 0xff then
        let _ ← lex (readByte d)
      if (← parseObjectArgs d fuel obj) ≠ .ok then return .failed
      popAllPkgEnds d ((← get).pkgEndStack.size + 1)
      return .ok
    deferredLoop d fuel f o.firstArgIndex

/-- the recursion over the children of `parseDeferredBlocks` -/
def deferredLoop (d : Bytes) (fuel : Nat) : Nat → Nat → P PRes
  | 0, _ => throw .outOfFuel
  | f+1, argIndex => do
    if argIndex = invalidIndex then return .ok
    if (← parseDeferredBlocks d fuel f argIndex) ≠ .ok then return .failed
    let a ← derefP (← objectAt argIndex)
    deferredLoop d fuel f (← getObj a).nextSiblingIndex
end

mutual
/-- `connectNonNamedObjArgs(objIndex)` -/
def connectNonNamedObjArgs : Nat → Nat → P PRes
  | 0, _ => throw .outOfFuel
  | f+1, objIndex => do
    let obj ← derefP (← objectAt objIndex)
    connectNonNamedLoop f obj (← getObj obj).lastArgIndex

def connectNonNamedLoop : Nat → Nat → Nat → P PRes
  | 0, _, _ => throw .outOfFuel
  | f+1, obj, argIndex => do
    if argIndex = invalidIndex then return .ok
    let argObj ← derefP (← objectAt argIndex)
    if (← connectNonNamedObjArgs f (← getObj argObj).index) ≠ .ok then return .failed
    let ao ← getObj argObj
    let flags ← optP (opFlags ao.infoIndex)
    if hasFlag flags flagNamed ∨ ao.tableHandle ≠ (← tableHandle) then
      return ← connectNonNamedLoop f obj (← getObj argObj).prevSiblingIndex
    let argCount ← optP (opArgCount ao.infoIndex)
    let termArgIndex ← firstTermArg ao.infoIndex argCount 0 argCount
    let t := (← get).tree
    let numArgs ← liftR (t.NumArgs (some argObj))
    if termArgIndex ≥ argCount ∨ numArgs > termArgIndex then
      return ← connectNonNamedLoop f obj (← getObj argObj).prevSiblingIndex
    if (← attachSiblingsAsArgs obj argObj true (argCount - termArgIndex) (← getObj argObj).nextSiblingIndex) = .failed then
      return .failed
    connectNonNamedLoop f obj (← getObj argObj).prevSiblingIndex
end

mutual
/-- `resolveMethodCalls(objIndex)` -/
def resolveMethodCalls (d : Bytes) : Nat → Nat → P PRes
  | 0, _ => throw .outOfFuel
  | f+1, objIndex => do
    let obj ← derefP (← objectAt objIndex)
    resolveLoop d f obj (← getObj obj).lastArgIndex

def resolveLoop (d : Bytes) : Nat → Nat → Nat → P PRes
  | 0, _, _ => throw .outOfFuel
  | f+1, obj, argIndex => do
    if argIndex = invalidIndex then return .ok
    let argObj ← derefP (← objectAt argIndex)
    if (← resolveMethodCalls d f (← getObj argObj).index) ≠ .ok then return .failed
    let ao ← getObj argObj
    if ao.opcode ≠ opIntNamePathOrMethodCall ∨ ao.tableHandle ≠ (← tableHandle) then
      return ← resolveLoop d f obj (← getObj argObj).prevSiblingIndex
    let expr ← match valBytes d ao.value with
      | some (_, _, bytes) => pure bytes
      | none => throw .panic
    let t := (← get).tree
    let targetIndex ← liftR (t.Find ao.parentIndex expr)
    if targetIndex = invalidIndex then
      updObj argObj fun o => { o with opcode := opIntNamePath }
      updObj argObj fun o => { o with infoIndex := pOpcodeTableIndex opIntNamePath true }
    else
      let resolvedObj ← derefP (← objectAt targetIndex)
      let ro ← getObj resolvedObj
      if ro.opcode = opMethod then
        updObj argObj fun o => { o with opcode := opIntMethodCall }
        updObj argObj fun o => { o with infoIndex := pOpcodeTableIndex opIntMethodCall true }
        updObj argObj fun o => { o with value := .idx ro.index }
        let t := (← get).tree
        match ← liftR (t.ArgAt (some resolvedObj) 1) with
        | none => return .failed
        | some methodFlagsObj =>
          match (← getObj methodFlagsObj).value with
          | .u64 argCount =>
            if (← attachSiblingsAsArgs obj argObj true (argCount &&& 0x7) (← getObj argObj).nextSiblingIndex) ≠ .ok then
              return .failed
          | _ => return .failed
      else
        updObj argObj fun o => { o with opcode := opIntResolvedNamePath }
        updObj argObj fun o => { o with infoIndex := pOpcodeTableIndex opIntResolvedNamePath true }
        updObj argObj fun o => { o with value := .idx ro.index }
    resolveLoop d f obj (← getObj argObj).prevSiblingIndex
end

/-- the `for ; ; p.resolvePasses++` loop of `ParseAML` — `false` = `errParsingAML` -/
def resolveLoopPasses (d : Bytes) (fuel : Nat) : Nat → P Bool
  | 0 => throw .outOfFuel
  | n+1 => do
    let mergeRes ← mergeScopeDirectives d fuel 0
    if mergeRes = .failed then return false
    let relocateRes ← relocateNamedObjects d fuel 0
    if relocateRes = .failed then return false
    if mergeRes = .ok ∧ relocateRes = .ok then return true
    modify fun s => { s with resolvePasses := u32 (s.resolvePasses + 1) }
    resolveLoopPasses d fuel n

/-- `init(tableHandle, tableName, header)` -/
def init (d : Bytes) (handle : Nat) : P Unit := do
  modify fun s => { s with tableHandle := handle, resolvePasses := 0, mergedScopes := 0, relocatedObjects := 0,
                           allBlocks := false, scopeStack := #[], pkgEndStack := #[] }
  modify fun s => { s with r := Reader.init d headerLen, streamEnd := d.size }
  let _ ← pushPkgEnd d d.size

/-- `ParseAML(tableHandle, tableName, header)`; `d` is the whole table (`header.Length` bytes);
`true` = nil error, `false` = `errParsingAML` -/
def parseAML (d : Bytes) (fuel : Nat) (handle : Nat) : P Bool := do
  init d handle
  scopeEnter 0
  if (← parseObjectList d fuel fuel) = .failed then return false
  if (← connectNamedObjArgs d fuel 0) ≠ .ok then return false
  modify fun s => { s with resolvePasses := 1 }
  if !(← resolveLoopPasses d fuel fuel) then return false
  if (← parseDeferredBlocks d fuel fuel 0) ≠ .ok then return false
  if (← resolveMethodCalls d fuel 0) ≠ .ok then return false
  if (← connectNonNamedObjArgs fuel 0) ≠ .ok then return false
  return true

/-- the fuel the replay driver and the theorems use: linear in table length + objects present -/
def fuelFor (d : Bytes) (t : ObjectTree) : Nat := 8 * (d.size + t.pool.size) + 64

/-- `NewObjectTree(); CreateDefaultScopes(tableHandle)` -/
def defaultTree (handle : Nat) : Res ObjectTree :=
  NewObjectTree.CreateDefaultScopes (pOpcodeTableIndex opIntScopeBlock true) handle

end Firefly.AmlParser
