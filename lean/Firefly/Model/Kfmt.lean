import Firefly.Gen.C15
/-!
# Model of `kernel/kfmt/fmt.go` (Fprintf, fmtInt, fmtString, fmtBool, fmtRepeat)

Core Lean only.  The model mirrors the Go code operation by operation:

* the scanner (`scan`) walks the format bytes in the two modes of the Go loop (literal text /
  after a `%`), with its quirks: an unknown character after `%` writes `%!(NOVERB)` and *keeps
  scanning* for a verb; a trailing `%12` writes nothing; the width is accumulated in a Go `int`
  (`wrap64`); literal text is written one byte per `Write`;
* `fmtInt` is the in-place algorithm on the scratch buffer `numFmtBuf` (a `List UInt8` of length
  `len(numFmtBuf)`, threaded through successive calls as the Go global is) with **checked** indices:
  every read/write outside the buffer is the explicit result `.panic`;
* `fmtString` computes the padding count `padLen - len(s)` in a Go `int` (wraps).

What is abstracted: the scanner's index bookkeeping (`blockStart`/`blockEnd`, `nextArgIndex`) is
list traversal here; the io.Writer is the list of chunks passed to `Write`.
-/
namespace Firefly.Kfmt
open Firefly.Gen.C15

abbrev Byte := UInt8

/-- result of running Go code that may panic -/
inductive Res (α : Type) where
  | ok (a : α)
  | panic
  deriving Repr, DecidableEq

@[inline] def Res.bind {α β : Type} (r : Res α) (f : α → Res β) : Res β :=
  match r with
  | .ok a => f a
  | .panic => .panic

instance : Monad Res where
  pure := .ok
  bind := Res.bind

/-- Go `int`/`int64` arithmetic wraps around -/
def wrap64 (x : Int) : Int := (x + 2^63) % 2^64 - 2^63

/-- unsigned integer kinds of the type switch in `fmtInt` -/
inductive UKind where | u8 | u16 | u32 | u64 | uptr
  deriving Repr, DecidableEq
/-- signed integer kinds of the type switch in `fmtInt` -/
inductive SKind where | i8 | i16 | i32 | i64 | int
  deriving Repr, DecidableEq

def UKind.bits : UKind → Nat
  | .u8 => 8 | .u16 => 16 | .u32 => 32 | .u64 => 64 | .uptr => 64
def SKind.bits : SKind → Nat
  | .i8 => 8 | .i16 => 16 | .i32 => 32 | .i64 => 64 | .int => 64

/-- a Go `interface{}` argument, by the dynamic types the formatter distinguishes -/
inductive Arg where
  | uns (k : UKind) (v : Nat)
  | sgn (k : SKind) (v : Int)
  | str (s : List Byte)
  | bytes (s : List Byte)
  | bool (b : Bool)
  | other
  deriving Repr, DecidableEq

/-- the value is one the Go type can hold (the length of a string or slice is a Go `int`) -/
def Arg.inRange : Arg → Bool
  | .uns k v => v < 2 ^ k.bits
  | .sgn k v => -(2 ^ (k.bits - 1) : Int) ≤ v && v < (2 ^ (k.bits - 1) : Int)
  | .str s => s.length < 2 ^ 63
  | .bytes s => s.length < 2 ^ 63
  | _ => true

inductive Base where | b8 | b10 | b16
  deriving Repr, DecidableEq

def Base.divider : Base → Nat
  | .b8 => 8 | .b10 => 10 | .b16 => 16
/-- `'0'` for octal/hex, `' '` for decimal -/
def Base.padCh : Base → Byte
  | .b8 => 48 | .b10 => 32 | .b16 => 48

/-- `byte(remainder)+'0'` / `byte(remainder-10)+'a'` -/
def digitCh (r : Nat) : Byte :=
  if r < 10 then UInt8.ofNat (r + 48) else UInt8.ofNat (r - 10 + 97)

/-- checked store `buf[i] = v` -/
def setB (buf : List Byte) (i : Nat) (v : Byte) : Res (List Byte) :=
  if i < buf.length then .ok (buf.set i v) else .panic

/-- checked load `buf[i]` -/
def getB (buf : List Byte) (i : Nat) : Res Byte :=
  match buf[i]? with
  | some b => .ok b
  | none => .panic

/-- `for right < maxBufSize { buf[right] = digit(uval % d); right++; uval /= d; if uval == 0 {break} }`.
`fuel` only makes the recursion structural: the caller passes `maxBufSize + 1`, and `right` grows by
one per iteration, so the `fuel = 0` branch is never reached. -/
def digitLoop (d : Nat) : Nat → List Byte → Nat → Nat → Res (List Byte × Nat)
  | 0, buf, right, _ => .ok (buf, right)
  | fuel + 1, buf, right, u =>
    if right < maxBufSize then
      match setB buf right (digitCh (u % d)) with
      | .panic => .panic
      | .ok buf =>
        if u / d = 0 then .ok (buf, right + 1) else digitLoop d fuel buf (right + 1) (u / d)
    else .ok (buf, right)

/-- `for ; right-left < padLen; right++ { buf[right] = padCh }` with `left = 0`; `n` is the
number of iterations, `max 0 (padLen - right)`. -/
def padLoop (padCh : Byte) : Nat → List Byte → Nat → Res (List Byte × Nat)
  | 0, buf, right => .ok (buf, right)
  | n + 1, buf, right =>
    match setB buf right padCh with
    | .panic => .panic
    | .ok buf => padLoop padCh n buf (right + 1)

/-- `for end = start; buf[end] == ' '; end-- {}` — running below index 0 is a panic -/
def scanBlank (buf : List Byte) : Nat → Res Nat
  | 0 =>
    match getB buf 0 with
    | .panic => .panic
    | .ok b => if b = 32 then .panic else .ok 0
  | e + 1 =>
    match getB buf (e + 1) with
    | .panic => .panic
    | .ok b => if b = 32 then scanBlank buf e else .ok (e + 1)

/-- `for ; left < right; left, right = left+1, right-1 { swap }`.  `fuel` as in `digitLoop`: the
caller passes `right + 1`. -/
def revLoop : Nat → List Byte → Nat → Nat → Res (List Byte)
  | 0, buf, _, _ => .ok buf
  | fuel + 1, buf, l, r =>
    if l < r then
      match getB buf l, getB buf r with
      | .ok a, .ok b =>
        match setB buf l b with
        | .panic => .panic
        | .ok buf1 =>
          match setB buf1 r a with
          | .panic => .panic
          | .ok buf2 => revLoop fuel buf2 (l + 1) (r - 1)
      | _, _ => .panic
    else .ok buf

/-- `if padLen >= maxBufSize { padLen = maxBufSize - 1 }` -/
def clampPad (padLen : Int) : Int := if padLen ≥ maxBufSize then (maxBufSize : Int) - 1 else padLen

/-- the body of `fmtInt` after the type switch: `neg` = `sval < 0`, `uval` the magnitude.
Returns the scratch buffer and the chunk `numFmtBuf[0:end]`. -/
def fmtIntCore (buf : List Byte) (neg : Bool) (uval : Nat) (b : Base) (padLen : Int) :
    Res (List Byte × List Byte) :=
  let padLen : Int := clampPad padLen
  match digitLoop b.divider (maxBufSize + 1) buf 0 uval with
  | .panic => .panic
  | .ok (buf, right) =>
    match padLoop b.padCh (padLen - right).toNat buf right with
    | .panic => .panic
    | .ok (buf, right) =>
      let signed : Res (List Byte × Nat) :=
        if neg then
          if right = 0 then .panic else
          match scanBlank buf (right - 1) with
          | .panic => .panic
          | .ok e =>
            let right := if e = right - 1 then right + 1 else right
            match setB buf (e + 1) 45 with
            | .panic => .panic
            | .ok buf => .ok (buf, right)
        else .ok (buf, right)
      match signed with
      | .panic => .panic
      | .ok (buf, right) =>
        match revLoop (right + 1) buf 0 (right - 1) with
        | .panic => .panic
        | .ok buf => if right ≤ numFmtBufCap then .ok (buf, buf.take right) else .panic

/-- `uint64(-sval)` -/
def negMag (sval : Int) : Nat := (wrap64 (-sval) % 2^64).toNat

/-- the type switch of `fmtInt`: `(sval < 0, uval)`; `none` = not an integer -/
def classify : Arg → Option (Bool × Nat)
  | .uns _ v => some (false, v % 2^64)
  | .sgn _ v =>
    let s := wrap64 v
    if s < 0 then some (true, negMag s) else some (false, s.toNat)
  | _ => none

def fmtInt (buf : List Byte) (a : Arg) (b : Base) (padLen : Int) : Res (List Byte × List Byte) :=
  match classify a with
  | none => .ok (buf, errWrongArgType)
  | some (neg, uval) => fmtIntCore buf neg uval b padLen

/-- `fmtRepeat`: `count` single-byte writes (none if `count ≤ 0`) -/
def fmtRepeat (ch : Byte) (count : Int) : List (List Byte) := List.replicate count.toNat [ch]

/-- `padLen-len(castedVal)`, a Go `int` -/
def strPadCount (padLen : Int) (len : Nat) : Int := wrap64 (padLen - len)

def fmtString (a : Arg) (padLen : Int) : List (List Byte) :=
  match a with
  | .str s => fmtRepeat 32 (strPadCount padLen s.length) ++ s.map fun c => [c]
  | .bytes s => fmtRepeat 32 (strPadCount padLen s.length) ++ [s]
  | _ => [errWrongArgType]

def fmtBool (a : Arg) : List (List Byte) :=
  match a with
  | .bool true => [trueValue]
  | .bool false => [falseValue]
  | _ => [errWrongArgType]

def isVerb (c : Byte) : Bool := c = 100 || c = 120 || c = 111 || c = 115 || c = 116

/-- dispatch on the verb character (`d x o s t`) -/
def fmtVerb (buf : List Byte) (c : Byte) (a : Arg) (padLen : Int) : Res (List Byte × List (List Byte)) :=
  if c = 111 then (fmtInt buf a .b8 padLen).bind fun (b, w) => .ok (b, [w])
  else if c = 100 then (fmtInt buf a .b10 padLen).bind fun (b, w) => .ok (b, [w])
  else if c = 120 then (fmtInt buf a .b16 padLen).bind fun (b, w) => .ok (b, [w])
  else if c = 115 then .ok (buf, fmtString a padLen)
  else .ok (buf, fmtBool a)

/-- `padLen = (padLen * 10) + int(nextCh-'0')`, a Go `int` -/
def accumWidth (padLen : Int) (c : Byte) : Int := wrap64 (wrap64 (padLen * 10) + (c.toNat - 48 : Nat))

/-- The `Fprintf` loop.  `mode = none`: copying literal text; `mode = some padLen`: after a `%`.
Returns the list of chunks passed to `Write`, in order. -/
def scan : Option Int → List Byte → List Arg → List Byte → Res (List (List Byte))
  | _, [], args, _ => .ok (args.map fun _ => errExtraArg)
  | none, c :: rest, args, buf =>
    if c = 37 then scan (some 0) rest args buf
    else (scan none rest args buf).bind fun ws => .ok ([c] :: ws)
  | some pad, c :: rest, args, buf =>
    if c = 37 then (scan none rest args buf).bind fun ws => .ok ([37] :: ws)
    else if 48 ≤ c ∧ c ≤ 57 then scan (some (accumWidth pad c)) rest args buf
    else if isVerb c then
      match args with
      | [] => (scan none rest [] buf).bind fun ws => .ok (errMissingArg :: ws)
      | a :: args =>
        match fmtVerb buf c a pad with
        | .panic => .panic
        | .ok (buf, out) => (scan none rest args buf).bind fun ws => .ok (out ++ ws)
    else (scan (some pad) rest args buf).bind fun ws => .ok (errNoVerb :: ws)

/-- `Fprintf(w, format, args...)` starting from scratch-buffer contents `buf` -/
def fprintf (buf : List Byte) (format : List Byte) (args : List Arg) : Res (List (List Byte)) :=
  scan none format args buf

/-! ## Index-level model of the `Fprintf` loop

The same loop with the Go code's own bookkeeping: `blockStart`, `blockEnd`, `nextArgIndex` are
indices, and every `format[i]` / `args[i]` is a **checked** access (out of range = `.panic`).
`Proof/Kfmt.lean` proves `fprintfIdx = fprintf`, so every theorem about the list-traversal `scan`
holds for this model too.  `fuel` arguments only make the recursions structural; the callers pass
enough (`len(format)+1`, `len(format)+2`) and the `fuel = 0` branches are provably unreachable. -/

/-- `for i := lo; i < hi; i++ { singleByte[0] = format[i]; doWrite(w, singleByte) }`, `n = hi - lo` -/
def litLoop (fmt : List Byte) : Nat → Nat → Res (List (List Byte))
  | 0, _ => .ok []
  | n + 1, i =>
    match getB fmt i with
    | .panic => .panic
    | .ok c => (litLoop fmt n (i + 1)).bind fun ws => .ok ([c] :: ws)

/-- the `parseFmt:` loop `for ; blockEnd < fmtLen; blockEnd++ { switch … }`.  Returns `blockEnd`
(at the `break`, or `fmtLen` when the loop ran off the end), `nextArgIndex`, the scratch buffer and
the chunks written. -/
def verbLoop (fmt : List Byte) (args : List Arg) :
    Nat → Nat → Int → Nat → List Byte → Res (Nat × Nat × List Byte × List (List Byte))
  | 0, be, _, na, buf => .ok (be, na, buf, [])
  | fuel + 1, be, pad, na, buf =>
    if be < fmt.length then
      match getB fmt be with
      | .panic => .panic
      | .ok c =>
        if c = 37 then .ok (be, na, buf, [[37]])
        else if 48 ≤ c ∧ c ≤ 57 then
          verbLoop fmt args fuel (be + 1) (accumWidth pad c) na buf
        else if isVerb c then
          if na ≥ args.length then .ok (be, na, buf, [errMissingArg])
          else
            match args[na]? with
            | none => .panic
            | some a =>
              match fmtVerb buf c a pad with
              | .panic => .panic
              | .ok (buf, out) => .ok (be, na + 1, buf, out)
        else
          match verbLoop fmt args fuel (be + 1) pad na buf with
          | .panic => .panic
          | .ok (be', na', buf', ws) => .ok (be', na', buf', errNoVerb :: ws)
    else .ok (be, na, buf, [])

/-- the outer loop `for blockEnd < fmtLen { … }` followed by the trailing literal block and the
`%!(EXTRA)` loop -/
def mainLoop (fmt : List Byte) (args : List Arg) : Nat → Nat → Nat → Nat → List Byte → Res (List (List Byte))
  | 0, _, _, _, _ => .ok []
  | fuel + 1, bs, be, na, buf =>
    if be < fmt.length then
      match getB fmt be with
      | .panic => .panic
      | .ok c =>
        if c ≠ 37 then mainLoop fmt args fuel bs (be + 1) na buf
        else
          -- `if blockStart < blockEnd { for i := blockStart; i < blockEnd; i++ … }`
          match litLoop fmt (be - bs) bs with
          | .panic => .panic
          | .ok lits =>
            -- `padLen = 0; blockEnd++; parseFmt: …`
            match verbLoop fmt args (fmt.length + 1) (be + 1) 0 na buf with
            | .panic => .panic
            | .ok (be', na', buf', ws) =>
              -- `blockStart, blockEnd = blockEnd+1, blockEnd+1`
              match mainLoop fmt args fuel (be' + 1) (be' + 1) na' buf' with
              | .panic => .panic
              | .ok rest => .ok (lits ++ (ws ++ rest))
    else
      -- `if blockStart != blockEnd { for i := blockStart; i < blockEnd; i++ … }`
      match (if bs ≠ be then litLoop fmt (be - bs) bs else .ok []) with
      | .panic => .panic
      | .ok lits =>
        -- `for ; nextArgIndex < len(args); nextArgIndex++ { doWrite(w, errExtraArg) }`
        .ok (lits ++ List.replicate (args.length - na) errExtraArg)

/-- `Fprintf(w, format, args...)`, index level -/
def fprintfIdx (buf : List Byte) (format : List Byte) (args : List Arg) : Res (List (List Byte)) :=
  mainLoop format args (format.length + 2) 0 0 0 buf

/-! ## Specification vocabulary (plain lists) -/

/-- little-endian digit characters of `n` in base `base`; `fuel` ≥ number of digits − 1 -/
def digitsLE (base : Nat) : Nat → Nat → List Byte
  | 0, n => [digitCh (n % base)]
  | f + 1, n => digitCh (n % base) :: (if n / base = 0 then [] else digitsLE base f (n / base))

/-- the digits of `n`, most significant first (`"0"` for 0) -/
def digitsOf (base n : Nat) : List Byte := (digitsLE base n n).reverse

def leftPad (c : Byte) (w : Nat) (s : List Byte) : List Byte := List.replicate (w - s.length) c ++ s

/-- an integer of sign `neg` and magnitude `mag`: decimal — sign and digits, left-padded with blanks
to the width; octal/hex — digits zero-padded to the width, then the sign.  Widths above
`maxBufSize - 1` count as `maxBufSize - 1`. -/
def renderInt (b : Base) (width : Nat) (neg : Bool) (mag : Nat) : List Byte :=
  let w := min width (maxBufSize - 1)
  let sign : List Byte := if neg then [45] else []
  match b with
  | .b10 => leftPad 32 w (sign ++ digitsOf 10 mag)
  | b => sign ++ leftPad 48 w (digitsOf b.divider mag)

inductive Verb where | d | x | o | s | t
  deriving Repr, DecidableEq

def Verb.ofByte (c : Byte) : Option Verb :=
  if c = 100 then some .d else if c = 120 then some .x else if c = 111 then some .o
  else if c = 115 then some .s else if c = 116 then some .t else none

def renderIntArg (b : Base) (width : Nat) : Arg → List Byte
  | .uns _ v => renderInt b width false v
  | .sgn _ v => renderInt b width (decide (v < 0)) v.natAbs
  | _ => errWrongArgType

/-- what one verb must print for one argument -/
def render (v : Verb) (width : Nat) (a : Arg) : List Byte :=
  match v with
  | .d => renderIntArg .b10 width a
  | .x => renderIntArg .b16 width a
  | .o => renderIntArg .b8 width a
  | .s =>
    match a with
    | .str s => leftPad 32 width s
    | .bytes s => leftPad 32 width s
    | _ => errWrongArgType
  | .t =>
    match a with
    | .bool true => trueValue
    | .bool false => falseValue
    | _ => errWrongArgType

/-- a format string of the supported grammar, parsed -/
inductive Piece where
  | lit (c : Byte)
  | pct
  | verb (v : Verb) (width : Nat)
  deriving Repr, DecidableEq

/-- parser state: literal text / just after `%` / after `%` and at least one width digit -/
inductive PMode where
  | text
  | pct
  | width (w : Nat)
  deriving Repr, DecidableEq

def PMode.w : PMode → Nat
  | .width w => w
  | _ => 0

/-- Parse a format of the supported grammar: literal bytes, `%%`, `%[decimal width]{d,x,o,s,t}` with
the width's value below 2^63 (it fits a Go `int`).  Anything else (unknown verb character, `%` at the
end, a width before `%`, a width that overflows) is outside the grammar: `none`. -/
def parse : PMode → List Byte → Option (List Piece)
  | m, [] => if m = .text then some [] else none
  | m, c :: rest =>
    if m = .text then
      if c = 37 then parse .pct rest else (parse .text rest).map (Piece.lit c :: ·)
    else if c = 37 then (if m = .pct then (parse .text rest).map (Piece.pct :: ·) else none)
    else if 48 ≤ c ∧ c ≤ 57 then
      if m.w * 10 + (c.toNat - 48) < 2^63 then parse (.width (m.w * 10 + (c.toNat - 48))) rest else none
    else match Verb.ofByte c with
      | some v => (parse .text rest).map (Piece.verb v m.w :: ·)
      | none => none

/-- the bytes a parsed format and its arguments must produce -/
def specOutput : List Piece → List Arg → List Byte
  | [], args => (args.map fun _ => errExtraArg).flatten
  | .lit c :: ps, args => c :: specOutput ps args
  | .pct :: ps, args => 37 :: specOutput ps args
  | .verb _ _ :: ps, [] => errMissingArg ++ specOutput ps []
  | .verb v w :: ps, a :: args => render v w a ++ specOutput ps args

/-- value of a digit string -/
def ofDigits (base : Nat) (ds : List Byte) : Nat :=
  ds.foldl (fun acc c => acc * base + (if c.toNat < 58 then c.toNat - 48 else c.toNat - 87)) 0

end Firefly.Kfmt
