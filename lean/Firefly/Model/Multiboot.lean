import Firefly.Gen.C10
/-!
Model of `kernel/multiboot/multiboot.go`.

Memory is two byte areas with absolute addresses: the information block (`base`, `blk`) and
the area the ELF string-table section points to (`sbase`, `stab`).  Every load and store goes
through `rd8`/`wr8`; an access outside both areas makes the operation return an explicit
`fault` (the Go harness puts a PROT_NONE page directly behind each area), so "no byte outside
the block is read" is the statement "the result is not `fault`".  `uintptr` arithmetic is `Nat`
reduced mod 2^64 where Go wraps; `uint32` mod 2^32.  Loops carry fuel (`fuel` result = the Go
code would spin for ever; never the case on well-formed blocks, see `Props/C10.lean`).
-/
namespace Firefly.Multiboot
open Firefly.Gen.C10

structure Mem where
  base : Nat
  blk : List UInt8
  sbase : Nat
  stab : List UInt8

def Mem.rd8 (m : Mem) (a : Nat) : Option UInt8 :=
  if m.base ≤ a ∧ a - m.base < m.blk.length then m.blk[a - m.base]?
  else if m.sbase ≤ a then m.stab[a - m.sbase]? else none

/-- little-endian load of `n` bytes -/
def Mem.rdLE (m : Mem) (a : Nat) : Nat → Option Nat
  | 0 => some 0
  | n + 1 =>
    match m.rd8 a, m.rdLE (a + 1) n with
    | some b, some r => some (b.toNat + 256 * r)
    | _, _ => none

def Mem.rdBytes (m : Mem) (a : Nat) : Nat → Option (List UInt8)
  | 0 => some []
  | n + 1 =>
    match m.rd8 a, m.rdBytes (a + 1) n with
    | some b, some r => some (b :: r)
    | _, _ => none

def Mem.wr8 (m : Mem) (a : Nat) (b : UInt8) : Option Mem :=
  if m.base ≤ a ∧ a - m.base < m.blk.length then some { m with blk := m.blk.set (a - m.base) b }
  else if m.sbase ≤ a ∧ a - m.sbase < m.stab.length then some { m with stab := m.stab.set (a - m.sbase) b }
  else none

/-- little-endian store of `n` bytes; `none` (nothing stored) if any byte is outside -/
def Mem.wrLE (m : Mem) (a v : Nat) : Nat → Option Mem
  | 0 => some m
  | n + 1 =>
    match m.wr8 a (UInt8.ofNat (v % 256)) with
    | none => none
    | some m1 => m1.wrLE (a + 1) (v / 256) n

inductive Res (α : Type) where
  | ok (a : α)
  | fault
  | fuel

/-- `uintptr(int32(size+7) & ^7)`: 32-bit add, mask, sign-extension to 64 bits -/
def alignStep (size : Nat) : Nat :=
  let s := (size + 7) % 2^32 / 8 * 8
  if s < 2^31 then s else s + (2^64 - 2^32)

/-- the scan loop of `findTagByType`; returns (pointer to tag contents, size - 8) or (0,0) -/
def findTagLoop (m : Mem) (t : Nat) : Nat → Nat → Res (Nat × Nat)
  | 0, _ => .fuel
  | f + 1, cur =>
    match m.rdLE cur 4 with
    | none => .fault
    | some ty =>
      if ty = tagEnd then .ok (0, 0) else
      match m.rdLE (cur + offTagSize) 4 with
      | none => .fault
      | some sz =>
        if ty = t then .ok ((cur + 8) % 2^64, (sz + 2^32 - 8) % 2^32)
        else findTagLoop m t f ((cur + alignStep sz) % 2^64)

def findTag (m : Mem) (t : Nat) : Res (Nat × Nat) :=
  findTagLoop m t (m.blk.length + 1) ((m.base + 8) % 2^64)

/-! ### VisitMemRegions -/

structure Region where
  addr : Nat
  len : Nat
  ty : Nat
deriving DecidableEq, Repr

inductive Status where
  | done | stop | fault | fuel
deriving DecidableEq, Repr

def Status.toString : Status → String
  | .done => "done" | .stop => "stop" | .fault => "fault" | .fuel => "fuel"

/-- `entry.Type == 0 || entry.Type >= memUnknown` (after the D3 repair; it was `>`) -/
def needsNorm (ty : Nat) : Bool := ty = 0 || ty ≥ memUnknown

/-- what happens after the type check of one entry: the visitor reads address and length
through the entry pointer; unless it stops the walk, `entrySize` is re-read from the mmap header
at `hdr` (as the Go code does) and the loop `k` continues behind the entry.
`stop` = the visitor returns false on its `stop`-th call (0: never). -/
def memAfter (m1 : Mem) (hdr cur stop ty' : Nat) (k : Mem → Nat → Nat → List Region × Status × Mem) :
    List Region × Status × Mem :=
  match m1.rdLE (cur + offEntAddr) 8, m1.rdLE (cur + offEntLen) 8 with
  | some a, some l =>
    let r : Region := ⟨a, l, ty'⟩
    if stop = 1 then ([r], .stop, m1) else
    match m1.rdLE (hdr + offEntrySize) 4 with
    | none => ([r], .fault, m1)
    | some esz =>
      let rest := k m1 ((cur + esz) % 2^64) (stop - 1)
      (r :: rest.1, rest.2.1, rest.2.2)
  | _, _ => ([], .fault, m1)

/-- the entry loop `for curPtr != endPtr` -/
def memLoop (hdr endp : Nat) : Nat → Mem → Nat → Nat → List Region × Status × Mem
  | 0, m, _, _ => ([], .fuel, m)
  | f + 1, m, cur, stop =>
    if cur = endp then ([], .done, m) else
    match m.rdLE (cur + offEntType) 4 with
    | none => ([], .fault, m)
    | some ty =>
      if needsNorm ty then
        match m.wrLE (cur + offEntType) memReserved 4 with
        | none => ([], .fault, m)
        | some m1 => memAfter m1 hdr cur stop memReserved (memLoop hdr endp f)
      else memAfter m hdr cur stop ty (memLoop hdr endp f)

/-- fuel: a walk that stops after `stop` visits needs at most `stop` rounds; one that never stops
either reaches `endPtr` within `blk.length` rounds on a block it stays inside, or never -/
def visitMemRegions (m : Mem) (stop : Nat) (fuel : Nat := m.blk.length + 1 + stop) : List Region × Status × Mem :=
  match findTag m tagMemoryMap with
  | .fault => ([], .fault, m)
  | .fuel => ([], .fuel, m)
  | .ok (p, size) =>
    if size = 0 then ([], .done, m) else
    memLoop p ((p + size) % 2^64) fuel m ((p + 8) % 2^64) stop

/-! ### GetFramebufferInfo (+ the field reads through the returned pointer) -/

structure FbInfo where
  ptr : Nat
  phys : Nat
  pitch : Nat
  width : Nat
  height : Nat
  bpp : Nat
  ty : Nat
  /-- `RGBColorInfo()`: six bytes behind the struct, only for type RGB -/
  rgb : Option (List UInt8)
deriving DecidableEq, Repr

def getFramebufferInfo (m : Mem) : Res (Option Nat) :=
  match findTag m tagFramebufferInfo with
  | .fault => .fault
  | .fuel => .fuel
  | .ok (p, size) => if size ≠ 0 then .ok (some p) else .ok none

def fbFields (m : Mem) (p : Nat) : Option FbInfo :=
  match m.rdLE (p + offFbPhys) 8, m.rdLE (p + offFbPitch) 4, m.rdLE (p + offFbWidth) 4,
        m.rdLE (p + offFbHeight) 4, m.rdLE (p + offFbBpp) 1, m.rdLE (p + offFbType) 1 with
  | some phys, some pitch, some w, some h, some bpp, some ty =>
    if ty = fbTypeRGB then
      match m.rdBytes (p + offFbColor) 6 with
      | some c => some ⟨p, phys, pitch, w, h, bpp, ty, some c⟩
      | none => none
    else some ⟨p, phys, pitch, w, h, bpp, ty, none⟩
  | _, _, _, _, _, _ => none

def framebuffer (m : Mem) : Res (Option FbInfo) :=
  match getFramebufferInfo m with
  | .fault => .fault
  | .fuel => .fuel
  | .ok none => .ok none
  | .ok (some p) =>
    match fbFields m p with
    | some i => .ok (some i)
    | none => .fault

/-! ### GetBootCmdLine: `strings.Fields`, `strings.Split(pair, "=")`, the map -/

def isAsciiSpace (b : UInt8) : Bool := b = 9 || b = 10 || b = 11 || b = 12 || b = 13 || b = 32

/-- UTF-8 continuation byte (0x80…0xBF) -/
def isCont (b : UInt8) : Bool := 0x80 ≤ b.toNat && b.toNat ≤ 0xBF

/-- two-byte white-space runes U+0085 (C2 85) and U+00A0 (C2 A0) -/
def mbSpace2 (b c : UInt8) : Bool := b = 0xC2 && (c = 0x85 || c = 0xA0)

/-- three-byte white-space runes U+1680 (E1 9A 80), U+2000–U+200A (E2 80 80…8A), U+2028, U+2029,
U+202F (E2 80 A8/A9/AF), U+205F (E2 81 9F), U+3000 (E3 80 80) -/
def mbSpace3 (b c d : UInt8) : Bool :=
  (b = 0xE1 && c = 0x9A && d = 0x80) ||
  (b = 0xE2 && c = 0x80 && ((0x80 ≤ d.toNat && d.toNat ≤ 0x8A) || d = 0xA8 || d = 0xA9 || d = 0xAF)) ||
  (b = 0xE2 && c = 0x81 && d = 0x9F) ||
  (b = 0xE3 && c = 0x80 && d = 0x80)

/-- width in bytes of the white-space rune (`unicode.IsSpace`) that starts here; 0 = none.
These byte sequences are valid shortest-form UTF-8 whose lead byte is never a continuation byte,
so Go's decoder (which skips one byte on invalid input) always meets them at a rune boundary. -/
def spaceWidth : List UInt8 → Nat
  | [] => 0
  | b :: rest =>
    if isAsciiSpace b then 1 else
    match rest with
    | c :: d :: _ => if mbSpace2 b c then 2 else if mbSpace3 b c d then 3 else 0
    | [c] => if mbSpace2 b c then 2 else 0
    | [] => 0

/-- `strings.Fields` on bytes; `skip` = remaining bytes of a multi-byte space, `cur` = current
field, reversed -/
def fieldsGo : List UInt8 → Nat → List UInt8 → List (List UInt8)
  | [], _, cur => if cur.isEmpty then [] else [cur.reverse]
  | _ :: rest, skip + 1, cur => fieldsGo rest skip cur
  | b :: rest, 0, cur =>
    let w := spaceWidth (b :: rest)
    if w = 0 then fieldsGo rest 0 (b :: cur)
    else if cur.isEmpty then fieldsGo rest (w - 1) []
    else cur.reverse :: fieldsGo rest (w - 1) []

def fields (s : List UInt8) : List (List UInt8) := fieldsGo s 0 []

/-- `strings.Split(s, "=")` -/
def splitEq : List UInt8 → List (List UInt8)
  | [] => [[]]
  | b :: rest =>
    match splitEq rest with
    | hd :: tl => if b = 0x3D then [] :: hd :: tl else (b :: hd) :: tl
    | [] => [[b]]

def bytesLt : List UInt8 → List UInt8 → Bool
  | [], [] => false
  | [], _ :: _ => true
  | _ :: _, [] => false
  | a :: as, b :: bs => if a < b then true else if b < a then false else bytesLt as bs

abbrev KV := List (List UInt8 × List UInt8)

/-- the Go map as an association list sorted by key (the harness prints it sorted) -/
def kvInsert (k v : List UInt8) : KV → KV
  | [] => [(k, v)]
  | (k', v') :: rest =>
    if k = k' then (k, v) :: rest
    else if bytesLt k k' then (k, v) :: (k', v') :: rest
    else (k', v') :: kvInsert k v rest

def kvStep (acc : KV) (pair : List UInt8) : KV :=
  match splitEq pair with
  | [k] => kvInsert k k acc
  | [k, v] => kvInsert k v acc
  | _ => acc

def parseCmdLine (text : List UInt8) : KV := (fields text).foldl kvStep []

def bootCmdLine (m : Mem) : Res KV :=
  match findTag m tagBootCmdLine with
  | .fault => .fault
  | .fuel => .fuel
  | .ok (p, size) =>
    if size = 0 then .ok [] else
    match m.rdBytes p ((size + 2^32 - 1) % 2^32) with
    | none => .fault
    | some text => .ok (parseCmdLine text)

/-! ### VisitElfSections -/

structure Section where
  name : List UInt8
  flags : Nat
  addr : Nat
  size : Nat
deriving DecidableEq, Repr

/-- scan for the terminating NUL from `a`; returns the bytes before it -/
def nameLoop (m : Mem) : Nat → Nat → Res (List UInt8)
  | 0, _ => .fuel
  | f + 1, a =>
    match m.rd8 a with
    | none => .fault
    | some b =>
      if b = 0 then .ok [] else
      match nameLoop m f ((a + 1) % 2^64) with
      | .ok bs => .ok (b :: bs)
      | .fault => .fault
      | .fuel => .fuel

/-- `n` = sections still to visit (`numSections - secIndex`), `sp` = `secPtr`,
`strSec` = address of the string-table section header -/
def elfLoop (m : Mem) (strSec : Nat) : Nat → Nat → List Section × Status
  | 0, _ => ([], .done)
  | n + 1, sp =>
    match m.rdLE (sp + offSecSize) 8 with
    | none => ([], .fault)
    | some size =>
      if size = 0 then elfLoop m strSec n ((sp + sizeofSection) % 2^64) else
      match m.rdLE (sp + offSecName) 4, m.rdLE (strSec + offSecAddr) 8 with
      | some ni, some sa =>
        match nameLoop m (m.blk.length + m.stab.length + 1) ((sa + ni) % 2^64) with
        | .fault => ([], .fault)
        | .fuel => ([], .fuel)
        | .ok name =>
          match m.rdLE (sp + offSecFlags) 8, m.rdLE (sp + offSecAddr) 8 with
          | some fl, some ad =>
            let (rs, st) := elfLoop m strSec n ((sp + sizeofSection) % 2^64)
            (⟨name, fl % 2^32, ad, size⟩ :: rs, st)
          | _, _ => ([], .fault)
      | _, _ => ([], .fault)

def visitElfSections (m : Mem) : List Section × Status :=
  match findTag m tagElfSymbols with
  | .fault => ([], .fault)
  | .fuel => ([], .fuel)
  | .ok (p, size) =>
    if size = 0 then ([], .done) else
    match m.rdLE (p + offElfStrIdx) 4, m.rdLE (p + offElfNum) 2 with
    | some si, some num =>
      let secPtr := (p + offElfData) % 2^64
      elfLoop m ((secPtr + si * sizeofSection) % 2^64) num secPtr
    | _, _ => ([], .fault)

end Firefly.Multiboot
