import Firefly.Model.SpinIsa
import Firefly.Gen.C08
/-!
# Small-step machine for the spin lock (C08)

Shared state: the lock word, plus a *protected counter* that clients read-increment-write inside
their critical sections and a ghost count of completed increments.  Per thread: phase (which
method it is in and at which instruction), the registers AX/BX/CX/DX, the zero flag, the result of
the last atomic read of a Go body.  The thread set is a list of **arbitrary length**; at every
step the scheduler picks any thread (`step cfg s i ch`).  The programs are the *generated* ones
(`Firefly.Gen.C08`).

* `XCHGL mem, reg` is one atomic step; `MOVL mem, reg` is a plain read of the current word;
  `CALL` through the `yieldFn` func value is a step that leaves shared state alone and clobbers
  every register and the flag (values supplied by the scheduler: `Choice.havoc`).
* A memory access through a register that does not hold the address of the lock word, a call
  through anything but a non-nil `yieldFn`, running off the end of a program: the thread enters
  `Phase.fault` and never moves again.
* Client contract (the lock's documented contract): `Acquire` only while not holding (re-acquiring
  deadlocks by design), `Release` only while holding, `TryToAcquire` at any time.

Interleaving is sequentially consistent; x86-TSO and real parallelism are outside this model.
Core Lean only (linked into `drv_C08`).
-/
namespace Firefly.Spin
open Firefly.Gen.C08

inductive Method where
  | acquire | try_ | release
  deriving DecidableEq, Repr, Hashable, Inhabited

def body : Method → List GoOp
  | .acquire => acquireGo
  | .try_ => tryGo
  | .release => releaseGo

inductive Phase where
  /-- between lock operations (inside or outside a critical section, see `Thread.held`) -/
  | idle
  /-- executing the Go body of method `m` at index `pc` -/
  | go (m : Method) (pc : Nat)
  /-- inside `archAcquireSpinlock`, called from `(m, rpc)`, at instruction `pc` -/
  | asm (m : Method) (rpc : Nat) (pc : Nat)
  | fault
  deriving DecidableEq, Repr, Hashable, Inhabited

structure Thread where
  ph : Phase := .idle
  /-- client view: the last Acquire returned / TryToAcquire returned true, and Release has not
  been called since -/
  held : Bool := false
  ax : Nat := 0
  bx : Nat := 0
  cx : Nat := 0
  dx : Nat := 0
  zf : Bool := false
  /-- result of the last atomic read of a Go body -/
  tmp : Nat := 0
  /-- the 32-bit argument `attemptsBeforeYielding` of the running `archAcquireSpinlock` -/
  att : Nat := 0
  /-- boolean returned by the last completed TryToAcquire -/
  ret : Option Bool := none
  /-- between the read and the write of a non-LOCKed read-modify-write instruction on memory: the
  value that was read -/
  mid : Option Nat := none
  /-- critical-section local: the value read from the protected counter, not yet written back -/
  loc : Option Nat := none
  deriving DecidableEq, Repr, Hashable, Inhabited

structure Shared where
  lock : Nat := 0
  /-- protected counter (plain variable, accessed only inside critical sections) -/
  ctr : Nat := 0
  /-- ghost: number of completed read-increment-write rounds -/
  incs : Nat := 0
  deriving DecidableEq, Repr, Hashable, Inhabited

/-- addresses fixed for one execution: where the lock word lives, and the value of the package
variable `yieldFn` (0 = nil, as in the kernel today) -/
structure Config where
  lockAddr : Nat
  yieldFn : Nat
  deriving DecidableEq, Repr

/-- what the scheduler / client / environment decides at a step -/
inductive Choice where
  /-- execute the next instruction of the running method -/
  | run
  /-- execute the next instruction; if it is a `CALL`, the callee leaves these register values -/
  | havoc (a b c d : Nat) (z : Bool)
  | callAcquire | callTry | callRelease
  /-- inside the critical section: read the protected counter / write back the increment -/
  | csRead | csWrite
  deriving DecidableEq, Repr, Inhabited

def two32 : Nat := 4294967296
def two64 : Nat := 18446744073709551616

def getReg (t : Thread) : Reg → Nat
  | .AX => t.ax | .BX => t.bx | .CX => t.cx | .DX => t.dx

def setReg (t : Thread) (r : Reg) (v : Nat) : Thread :=
  match r with
  | .AX => { t with ax := v } | .BX => { t with bx := v }
  | .CX => { t with cx := v } | .DX => { t with dx := v }

/-- 64-bit source operand -/
def load64 (cfg : Config) (t : Thread) : Operand → Option Nat
  | .imm n => some (n % two64)
  | .reg r => some (getReg t r)
  | .fp off => if off = fpStateOff then some cfg.lockAddr else none
  | .sb .yieldFn off => if off = 0 then some cfg.yieldFn else none
  | .mem _ _ => none

/-- 32-bit source operand (`lock` is the current value of the lock word) -/
def load32 (cfg : Config) (lock : Nat) (t : Thread) : Operand → Option Nat
  | .imm n => some (n % two32)
  | .reg r => some (getReg t r % two32)
  | .fp off => if off = fpAttemptsOff then some (t.att % two32)
               else if off = fpStateOff then some (cfg.lockAddr % two32) else none
  | .mem r off => if getReg t r + off = cfg.lockAddr then some lock else none
  | .sb _ _ => none

/-- 32-bit destination (register writes zero-extend) -/
def store32 (cfg : Config) (lock : Nat) (t : Thread) (o : Operand) (v : Nat) : Option (Nat × Thread) :=
  match o with
  | .reg r => some (lock, setReg t r v)
  | .mem r off => if getReg t r + off = cfg.lockAddr then some (v, t) else none
  | _ => none

def store64 (t : Thread) (o : Operand) (v : Nat) : Option Thread :=
  match o with
  | .reg r => some (setReg t r v)
  | _ => none

def faulted (sh : Shared) (t : Thread) : Shared × Thread := (sh, { t with ph := .fault })

/-- one instruction of `archAcquireSpinlock` by a thread at `asm m rpc pc` -/
def asmStep (cfg : Config) (sh : Shared) (t : Thread) (m : Method) (rpc pc : Nat)
    (hv : Option (Nat × Nat × Nat × Nat × Bool)) : Shared × Thread :=
  let next (t : Thread) : Thread := { t with ph := .asm m rpc (pc + 1) }
  let goto (t : Thread) (n : Nat) : Thread := { t with ph := .asm m rpc n }
  -- read-modify-write of a 32-bit destination: `f old = some (new, effect on flags/registers)`.
  -- A register destination, or a LOCKed memory destination, is one step; a memory destination
  -- without LOCK is two steps (read into `mid`; then compute and write), so that other threads can
  -- run in between.
  let rmw (lk : Bool) (dst : Operand) (f : Nat → Option (Nat × (Thread → Thread))) : Shared × Thread :=
    let finish (v : Nat) (t : Thread) : Shared × Thread :=
      match f v with
      | none => faulted sh t
      | some (v', eff) =>
        match store32 cfg sh.lock t dst v' with
        | none => faulted sh t
        | some (l', t') => ({ sh with lock := l' }, next (eff { t' with mid := none }))
    match dst with
    | .mem _ _ =>
      if lk then
        match load32 cfg sh.lock t dst with
        | none => faulted sh t
        | some v => finish v t
      else
        match t.mid with
        | none =>
          match load32 cfg sh.lock t dst with
          | none => faulted sh t
          | some v => (sh, { t with mid := some v })
        | some v => finish v t
    | .reg _ =>
      if lk then faulted sh t   -- LOCK with a register destination is #UD
      else match load32 cfg sh.lock t dst with
        | none => faulted sh t
        | some v => finish v t
    | _ => faulted sh t
  match acquireAsm[pc]? with
  | none => faulted sh t
  | some ins =>
    match ins with
    | .movq s d =>
      match load64 cfg t s with
      | none => faulted sh t
      | some v => match store64 t d v with
        | none => faulted sh t
        | some t' => (sh, next t')
    | .movl s d =>
      match load32 cfg sh.lock t s with
      | none => faulted sh t
      | some v => match store32 cfg sh.lock t d v with
        | none => faulted sh t
        | some (l', t') => ({ sh with lock := l' }, next t')
    | .xchgl a b =>
      match load32 cfg sh.lock t a, load32 cfg sh.lock t b with
      | some va, some vb =>
        match store32 cfg sh.lock t a vb with
        | none => faulted sh t
        | some (l1, t1) => match store32 cfg l1 t1 b va with
          | none => faulted sh t
          | some (l2, t2) => ({ sh with lock := l2 }, next t2)
      | _, _ => faulted sh t
    | .testl a b =>
      match load32 cfg sh.lock t a, load32 cfg sh.lock t b with
      | some va, some vb => (sh, next { t with zf := (va &&& vb) == 0 })
      | _, _ => faulted sh t
    | .testq a b =>
      match load64 cfg t a, load64 cfg t b with
      | some va, some vb => (sh, next { t with zf := (va &&& vb) == 0 })
      | _, _ => faulted sh t
    | .cmpl a b =>
      match load32 cfg sh.lock t a, load32 cfg sh.lock t b with
      | some va, some vb => (sh, next { t with zf := va == vb })
      | _, _ => faulted sh t
    | .xorl lk a b =>
      rmw lk b fun v => match load32 cfg sh.lock t a with
        | none => none
        | some va => some (v ^^^ va, fun t => { t with zf := (v ^^^ va) == 0 })
    | .decl lk a =>
      rmw lk a fun v =>
        let v' := (v + (two32 - 1)) % two32
        some (v', fun t => { t with zf := v' == 0 })
    | .cmpxchgl lk src dst =>
      rmw lk dst fun v => match load32 cfg sh.lock t src with
        | none => none
        | some vs =>
          if t.ax % two32 = v then some (vs, fun t => { t with zf := true })
          else some (v, fun t => { t with zf := false, ax := v })
    | .jz n => (sh, if t.zf then goto t n else next t)
    | .jnz n => (sh, if t.zf then next t else goto t n)
    | .jmp n => (sh, goto t n)
    | .pause => (sh, next t)
    | .call a =>
      match a with
      | .mem r off =>
        if getReg t r + off = cfg.yieldFn ∧ cfg.yieldFn ≠ 0 then
          match hv with
          | some (a, b, c, d, z) => (sh, next { t with ax := a, bx := b, cx := c, dx := d, zf := z })
          | none => (sh, next t)
        else faulted sh t
      | _ => faulted sh t
    | .ret => (sh, { t with ph := .go m (rpc + 1) })

/-- return from method `m` to the client with optional boolean result -/
def finish (t : Thread) (m : Method) (r : Option Bool) : Thread :=
  match m with
  | .acquire => { t with ph := .idle, held := true }
  | .try_ => { t with ph := .idle, held := t.held || r.getD false, ret := some (r.getD false) }
  | .release => { t with ph := .idle }

/-- one atomic operation of a Go body by a thread at `go m pc` -/
def goStep (sh : Shared) (t : Thread) (m : Method) (pc : Nat) : Shared × Thread :=
  match (body m)[pc]? with
  | none => faulted sh t
  | some op =>
    match op with
    | .swap v => ({ sh with lock := v % two32 }, { t with tmp := sh.lock, ph := .go m (pc + 1) })
    | .store v => ({ sh with lock := v % two32 }, { t with ph := .go m (pc + 1) })
    | .load => (sh, { t with tmp := sh.lock, ph := .go m (pc + 1) })
    | .arch n => (sh, { t with att := n, ph := .asm m pc 0 })
    | .retEq v => (sh, finish t m (some (t.tmp == v)))
    | .retNe v => (sh, finish t m (some (t.tmp != v)))
    | .ret => (sh, finish t m none)

/-- Thread-local step. `none` = this choice is not available to the thread in its current state. -/
def tstep (cfg : Config) (sh : Shared) (t : Thread) (ch : Choice) : Option (Shared × Thread) :=
  match t.ph, ch with
  | .idle, .callAcquire => if t.held then none else some (sh, { t with ph := .go .acquire 0 })
  | .idle, .callTry => some (sh, { t with ph := .go .try_ 0 })
  | .idle, .callRelease =>
    if t.held then some (sh, { t with ph := .go .release 0, held := false, loc := none }) else none
  | .idle, .csRead => if t.held then some (sh, { t with loc := some sh.ctr }) else none
  | .idle, .csWrite =>
    match t.held, t.loc with
    | true, some v => some ({ sh with ctr := v + 1, incs := sh.incs + 1 }, { t with loc := none })
    | _, _ => none
  | .go m pc, .run => some (goStep sh t m pc)
  | .go m pc, .havoc .. => some (goStep sh t m pc)
  | .asm m rpc pc, .run => some (asmStep cfg sh t m rpc pc none)
  | .asm m rpc pc, .havoc a b c d z => some (asmStep cfg sh t m rpc pc (some (a, b, c, d, z)))
  | _, _ => none

structure State where
  sh : Shared := {}
  threads : List Thread := []
  deriving DecidableEq, Repr, Hashable, Inhabited

/-- `n` threads, all idle, lock free -/
def init (n : Nat) : State := { sh := {}, threads := List.replicate n {} }

/-- global step: the scheduler lets thread `i` make the move `ch` -/
def step (cfg : Config) (s : State) (i : Nat) (ch : Choice) : Option State :=
  match s.threads[i]? with
  | none => none
  | some t =>
    match tstep cfg s.sh t ch with
    | none => none
    | some (sh', t') => some { sh := sh', threads := s.threads.set i t' }

/-- run a whole schedule (list of (thread, choice)); `none` if some move is unavailable -/
def runSched (cfg : Config) (s : State) : List (Nat × Choice) → Option State
  | [] => some s
  | (i, ch) :: rest => match step cfg s i ch with
    | none => none
    | some s' => runSched cfg s' rest

/-- states reachable from `init n` (any number of threads `n`, any schedule) -/
inductive Reachable (cfg : Config) (n : Nat) : State → Prop where
  | init : Reachable cfg n (init n)
  | step {s s' : State} (i : Nat) (ch : Choice) :
      Reachable cfg n s → step cfg s i ch = some s' → Reachable cfg n s'

end Firefly.Spin
