import Firefly.Model.FbMem
/-!
# Model of `VgaTextConsole` (kernel/device/video/console/vga_text.go) — C19

`Fill`, `Scroll`, `Write` on a framebuffer of 16-bit cells with checked access; coordinates are
`Nat < 2^32` with explicit wrap-around.  A Go index panic is `none`.
-/
namespace Firefly.VgaText
open Firefly.FbMem

structure Cons where
  width : Nat
  height : Nat
  paletteLen : Nat := 16
  defaultFg : Nat := 7
  defaultBg : Nat := 0
  clearChar : Nat := 32
  deriving Repr

/-- `len(cons.fb)` as `DriverInit` sets it up: `uintptr(width*height*2) >> 1` -/
def fbLen (c : Cons) : Nat := mul32 (mul32 c.width c.height) 2 >>> 1

/-- `(((uint16(bg) << 4) | uint16(fg)) << 8) | ch` in 16 bits -/
def cellWord (ch fg bg : Nat) : UInt16 := UInt16.ofNat ((((bg <<< 4) ||| fg) <<< 8) ||| ch)

/-- `if x == 0 { x = 1 } else if x >= n { x = n }` -/
def clampOrigin (x n : Nat) : Nat := if x = 0 then 1 else if x ≥ n then n else x

/-- `if w > n-x+1 { w = n-x+1 }` (32-bit) -/
def clipExtent (w n x : Nat) : Nat :=
  if w > add32 (sub32 n x) 1 then add32 (sub32 n x) 1 else w

/-- the row loop of `Fill` -/
def fillRows (clr : UInt16) (width stride : Nat) : (fb : Array UInt16) → (rowOffset height : Nat) → Option (Array UInt16)
  | fb, _, 0 => some fb
  | fb, rowOffset, h+1 =>
    match fillRange clr fb rowOffset (add32 rowOffset width - rowOffset) with
    | none => none
    | some fb' => fillRows clr width stride fb' (add32 rowOffset stride) h

def fill (c : Cons) (fb : Array UInt16) (x y w h fg bg : Nat) : Option (Array UInt16) :=
  if c.width = 0 ∨ c.height = 0 then some fb else   -- an empty grid has no cells to fill
  let clr := cellWord c.clearChar fg bg
  let x := clampOrigin x c.width
  let y := clampOrigin y c.height
  let w := clipExtent w c.width x
  let h := clipExtent h c.height y
  let rowOffset := add32 (mul32 (sub32 y 1) c.width) (sub32 x 1)
  fillRows clr w c.width fb rowOffset h

/-- `dir`: 0 = up, 1 = down, anything else: no case of the switch matches -/
def scroll (c : Cons) (fb : Array UInt16) (dir lines : Nat) : Option (Array UInt16) :=
  if lines = 0 ∨ lines > c.height then some fb else
  let offset := mul32 lines c.width
  if dir = 0 then
    copyAsc (fun i => add32 i offset) fb 0 (mul32 (sub32 c.height lines) c.width)
  else if dir = 1 then
    let start := sub32 (mul32 c.height c.width) 1
    let lo := mul32 lines c.width
    -- `for i = start; i >= lo; i--` with unsigned `i`: for `lo = 0` the loop only ends by
    -- indexing with 2^32-1, a panic
    if lo = 0 then none else copyDesc (fun i => sub32 i offset) fb start (start + 1 - lo)
  else some fb

def write (c : Cons) (fb : Array UInt16) (ch fg bg x y : Nat) : Option (Array UInt16) :=
  if x < 1 ∨ x > c.width ∨ y < 1 ∨ y > c.height then some fb else
  let maxColorIndex := (c.paletteLen + 255) % 256   -- uint8(len(palette) - 1)
  let fg := if fg > maxColorIndex then c.defaultFg else fg
  let bg := if bg > maxColorIndex then c.defaultBg else bg
  put fb (add32 (mul32 (sub32 y 1) c.width) (sub32 x 1)) (cellWord ch fg bg)

end Firefly.VgaText
