import Firefly.Gen.C12
import Firefly.Model.AmlTree
/-!
# Model of `stream_reader.go` and the lexical decoders of `parser.go` (package `aml`)

Core Lean only.  `amlStreamReader` is `Reader = {offset, pkgEnd}` over an immutable table
`d : Bytes` (header included, offsets are table offsets exactly as in Go); every Go function is
a `LexM` action (`StateT Reader (Except Err)`) named after it.  `uint32` arithmetic that can wrap
in Go wraps here (`u32`).  A Go `[]byte` aliasing the table is a `Slice` (`data = none` is the nil
data pointer `DataPtr()` returns at EOF).  The opcode tables come from `Gen/C12.lean`, printed by
the compiled Go code on every run.
-/
namespace Firefly.AmlLex
open Firefly.AmlTree (Res Err)
open Firefly.Gen.C12

abbrev Bytes := Array UInt8

def u32 (n : Nat) : Nat := n % 4294967296

/-- `parseResult` -/
inductive PRes where
  | failed | ok | shortCircuit | requireExtraPass
  deriving DecidableEq, Repr, Inhabited

structure Reader where
  offset : Nat := 0
  pkgEnd : Nat := 0
  deriving DecidableEq, Repr, Inhabited

/-- a Go `[]byte` whose backing store is the table: `data` = offset of the first byte
(`none` = nil pointer), `len` -/
structure Slice where
  data : Option Nat := none
  len : Nat := 0
  deriving DecidableEq, Repr, Inhabited

abbrev LexM := StateT Reader Res

/-- `EOF()` -/
def Reader.eof (r : Reader) : Bool := decide (r.pkgEnd ≤ r.offset)

section
variable (d : Bytes)

/-- `Init(dataAddr, dataLen, initialOffset)`: `SetPkgEnd(dataLen); SetOffset(initialOffset)` -/
def Reader.init (initialOffset : Nat) : Reader :=
  { offset := if initialOffset > d.size then d.size else initialOffset, pkgEnd := d.size }

/-- `SetPkgEnd(pkgEnd) error` — `true` = nil error -/
def setPkgEnd (pkgEnd : Nat) : LexM Bool := fun r =>
  if pkgEnd > d.size then pure (false, r) else pure (true, { r with pkgEnd := pkgEnd })

/-- `ReadByte() (byte, error)`; `none` = `errReadPastPkgEnd`. `r.data[r.offset-1]` outside the
table is the Go index panic. -/
def readByte : LexM (Option UInt8) := fun r =>
  if r.eof then pure (none, r)
  else match d[r.offset]? with
    | some b => pure (some b, { r with offset := r.offset + 1 })
    | none => throw .panic

/-- `PeekByte()` -/
def peekByte : LexM (Option UInt8) := fun r =>
  if r.eof then pure (none, r)
  else match d[r.offset]? with
    | some b => pure (some b, r)
    | none => throw .panic

/-- `UnreadByte() error` — `true` = nil error -/
def unreadByte : LexM Bool := fun r =>
  if r.offset = 0 then pure (false, r) else pure (true, { r with offset := r.offset - 1 })

/-- `Offset()` -/
def offset : LexM Nat := fun r => pure (r.offset, r)

/-- `r.pkgEnd` (field read) -/
def pkgEnd : LexM Nat := fun r => pure (r.pkgEnd, r)

/-- `EOF()` -/
def eof : LexM Bool := fun r => pure (r.eof, r)

/-- `DataPtr()`: nil at EOF, else `&r.data[r.offset]` (index panic outside the table) -/
def dataPtr : LexM (Option Nat) := fun r =>
  if r.eof then pure (none, r)
  else if r.offset < d.size then pure (some r.offset, r) else throw .panic

/-- `SetOffset(off)` (clamped to the table length) -/
def setOffset (off : Nat) : LexM Unit := fun r =>
  pure ((), { r with offset := if off > d.size then d.size else off })

/-! ## opcode tables -/

/-- `pOpcodeTableIndex(opcode, allowInternalOp)` for `opcode ≤ 0x1fe` (every value the parser can
form: `0xff + byte`, or a constant) -/
def pOpcodeTableIndex (opcode : Nat) (allowInternalOp : Bool) : Nat :=
  if opcode ≤ 0xff then opcodeMap.getD opcode badOpcode
  else
    let index := extendedOpcodeMap.getD (opcode - 0xff) badOpcode
    if index = badOpcode ∧ allowInternalOp then (opcodeTable.size + opcode + 512 - 0x1fe) % 256
    else index

/-- `pOpcodeTable[i].flags` (`none`: index out of range, a Go panic) -/
def opFlags (i : Nat) : Option Nat := (opcodeTable[i]?).map fun e => e.2.1
/-- `pOpcodeTable[i].argFlags.argCount()` -/
def opArgCount (i : Nat) : Option Nat := (opcodeTable[i]?).map fun e => e.2.2.2.1
/-- `pOpcodeTable[i].argFlags.arg(k)` -/
def opArg (i k : Nat) : Option Nat := (opcodeTable[i]?).map fun e => e.2.2.2.2.getD k 0
def hasFlag (flags flag : Nat) : Bool := flags &&& flag ≠ 0

def pOpIsType2 (op : Nat) : Bool := isType2.contains op
def pOpIsDataObject (op : Nat) : Bool := isDataObject.contains op
def pOpIsArg (op : Nat) : Bool := isArg.contains op

/-! ## decoders -/

/-- `parsePkgLength() (uint32, parseResult)` -/
def parsePkgLength : LexM (Nat × PRes) := do
  let origOffset ← offset
  match ← readByte d with
  | none => setOffset d origOffset; return (0, .failed)
  | some lead =>
    let lead := lead.toNat
    match lead >>> 6 with
    | 0 => return (lead, .ok)
    | 1 =>
      match ← readByte d with
      | none => setOffset d origOffset; return (0, .failed)
      | some b1 => return (b1.toNat <<< 4 ||| (lead &&& 0xf), .ok)
    | 2 =>
      match ← readByte d with
      | none => setOffset d origOffset; return (0, .failed)
      | some b1 =>
        match ← readByte d with
        | none => setOffset d origOffset; return (0, .failed)
        | some b2 => return (b2.toNat <<< 12 ||| b1.toNat <<< 4 ||| (lead &&& 0xf), .ok)
    | _ =>
      match ← readByte d with
      | none => setOffset d origOffset; return (0, .failed)
      | some b1 =>
        match ← readByte d with
        | none => setOffset d origOffset; return (0, .failed)
        | some b2 =>
          match ← readByte d with
          | none => setOffset d origOffset; return (0, .failed)
          | some b3 =>
            return (b3.toNat <<< 20 ||| b2.toNat <<< 12 ||| b1.toNat <<< 4 ||| (lead &&& 0xf), .ok)

/-- the loop of `parseNumConstant`: `c` bytes already read -/
def parseNumLoop : Nat → Nat → Nat → LexM (Nat × PRes)
  | 0, _, res => pure (res, .ok)
  | n+1, c, res => do
    match ← readByte d with
    | none => return (0, .failed)
    | some next => parseNumLoop n (c + 1) (res ||| (next.toNat <<< (8 * c)))

/-- `parseNumConstant(numBytes) (uint64, parseResult)` -/
def parseNumConstant (numBytes : Nat) : LexM (Nat × PRes) := parseNumLoop d numBytes 0 0

/-- the loop of `parseString` (fuel = bytes left in the table + 1; every iteration reads one) -/
def parseStringLoop : Nat → Nat → LexM (Nat × PRes)
  | 0, len => pure (len, .failed)
  | f+1, len => do
    match ← readByte d with
    | none => return (len, .failed)
    | some next =>
      if next = 0 then return (len, .ok)
      else if 1 ≤ next ∧ next ≤ 0x7f then parseStringLoop f (len + 1)
      else return (len, .failed)

/-- `parseString() ([]byte, parseResult)` -/
def parseString : LexM (Slice × PRes) := do
  let data ← dataPtr d
  let (len, res) ← parseStringLoop d (d.size + 1) 0
  return ({ data := data, len := len }, res)

/-- the prefix loop of `parseNameString`; `none` = `PeekByte` failed -/
def skipNamePrefix : Nat → LexM Bool
  | 0 => pure false
  | f+1 => do
    match ← peekByte d with
    | none => return false
    | some next =>
      if next ≠ 0x5c ∧ next ≠ 0x5e then return true
      else
        let _ ← readByte d
        skipNamePrefix f

/-- the `switch next` of `parseNameString` after the prefixes were skipped and `next` was read:
consumes the NamePath and returns the (possibly reset) `startOffset`, `none` = `return nil, failed` -/
def parseNamePath (next startOffset : Nat) : LexM (Option Nat) := do
  if next = 0x00 then
    -- Go: a lone NullName resets startOffset to Offset() (= startOffset+1); after a prefix nullLen = 1
    -- is subtracted instead: either way `len = Offset() - (startOffset + 1)`
    return some (startOffset + 1)
  else if next = 0x2e then
    let endOffset := u32 ((← offset) + amlNameLen * 2)
    if endOffset > (← pkgEnd) then return none
    else
      setOffset d endOffset
      return some startOffset
  else if next = 0x2f then
    match ← readByte d with
    | none => return none
    | some segCount =>
      if segCount = 0 then return none
      else
        let endOffset := u32 ((← offset) + amlNameLen * segCount.toNat)
        if endOffset > (← pkgEnd) then return none
        else
          setOffset d endOffset
          return some startOffset
  else if (next < 0x41 ∨ next > 0x5a) ∧ next ≠ 0x5f then return none
  else
    let endOffset := u32 ((← offset) + (amlNameLen - 1))
    if endOffset > (← pkgEnd) then return none
    else
      setOffset d endOffset
      return some startOffset

/-- `parseNameString() ([]byte, parseResult)`; on failure Go returns the nil slice -/
def parseNameString : LexM (Slice × PRes) := do
  let data ← dataPtr d
  let startOffset ← offset
  if (← skipNamePrefix d (d.size + 1)) then
    let next := ((← readByte d).getD 0).toNat
    match ← parseNamePath d next startOffset with
    | none => return ({}, .failed)
    | some startOffset =>
      return ({ data := data, len := u32 ((← offset) + 4294967296 - startOffset) }, .ok)
  else return ({}, .failed)

/-- the tail of `nextOpcode`: "if this is not a valid opcode, rewind the stream" -/
def checkOpcode (op opLen : Nat) : LexM (Nat × PRes) := do
  if pOpcodeTableIndex op false = badOpcode then
    setOffset d (u32 ((← offset) + 4294967296 - opLen))
    return (0xffff, .failed)
  else return (op, .ok)

/-- `nextOpcode() (uint16, parseResult)` -/
def nextOpcode : LexM (Nat × PRes) := do
  match ← readByte d with
  | none => return (0xffff, .failed)
  | some next =>
    if next.toNat = extOpPrefix then
      match ← readByte d with
      | none =>
        let _ ← unreadByte
        return (0xffff, .failed)
      | some next2 => checkOpcode d (0xff + next2.toNat) 2
    else checkOpcode d next.toNat 1

/-- `peekNextOpcode()` -/
def peekNextOpcode : LexM (Nat × PRes) := do
  let curOffset ← offset
  let r ← nextOpcode d
  setOffset d curOffset
  return r

/-- the slice header `parseByteList` builds and the offset update that follows:
`{Len: dataLen, Data: DataPtr()}`; `SetOffset(Offset() + dataLen)` -/
def parseByteListRaw (dataLen : Nat) : LexM Slice := do
  let data ← dataPtr d
  setOffset d (u32 ((← offset) + dataLen))
  return { data := data, len := dataLen }

/-- the bytes a slice denotes (shorter if it leaves the table: the theorems show it does not) -/
def sliceBytes (off len : Nat) : List UInt8 := (d.extract off (off + len)).toList

end

/-! ## encoders (used by the round-trip theorems and by C11's `encode`) -/

/-- PkgLength value `v` in exactly `width` bytes (1 ≤ width ≤ 4; width 1 holds `v < 64`) -/
def encPkgLength (v width : Nat) : List UInt8 :=
  if width ≤ 1 then [UInt8.ofNat (v % 64)]
  else
    UInt8.ofNat (((width - 1) % 4) * 64 + v % 16) ::
      (List.range (width - 1)).map fun i => UInt8.ofNat ((v / 16 / 256 ^ i) % 256)

/-- little-endian constant of `n` bytes -/
def encConst (v n : Nat) : List UInt8 := (List.range n).map fun i => UInt8.ofNat ((v / 256 ^ i) % 256)

/-- NUL-terminated string -/
def encString (s : List UInt8) : List UInt8 := s ++ [0]

/-- NameString: `root` ⇒ `\`, `carets` × `^`, then NullName / NameSeg / DualNamePath / MultiNamePath
chosen by the number of segments (each segment is 4 bytes) -/
def encName (root : Bool) (carets : Nat) (segs : List (List UInt8)) : List UInt8 :=
  (if root then [0x5c] else []) ++ List.replicate carets 0x5e ++
  match segs with
  | [] => [0x00]
  | [s] => s
  | [s, t] => 0x2e :: (s ++ t)
  | _ => 0x2f :: UInt8.ofNat segs.length :: segs.flatten

end Firefly.AmlLex
