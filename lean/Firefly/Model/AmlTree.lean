/-!
# Model of `kernel/device/acpi/aml/obj_tree.go` (package `aml`)

Executable, core-Lean-only mirror of the AML object pool (`ObjectTree`): pool of `Obj` records
linked by five `uint32` index fields, the free list threaded through `nextSiblingIndex`, the
list-surgery operations (`newObject`, `append`, `appendAfter`, `detach`, `free`) and the lookups
(`ObjectAt`, `Find`, `findRelative`, `ClosestNamedAncestor`, `NumArgs`, `ArgAt`).

Conventions
* A Go `*Object` is a pool position (`Nat`); `nil` is `none` where the Go function tolerates or
  returns nil (`ObjectAt`, `ArgAt`, `NumArgs`, `ClosestNamedAncestor`).  Dereferencing `nil` or a
  position outside the pool is `.error .panic`, exactly where the Go statement would fault.
* Every Go statement that writes through a pointer is one `upd`; reads are re-done after writes, so
  aliasing (`obj == arg`, `nextTo == arg`, …) behaves as in Go.
* List walks (`for i := first; i != InvalidIndex; i = ObjectAt(i).next`) are structurally recursive
  on a fuel argument; callers pass `fuel t = pool.size + 1`, and running out is the distinct
  result `.error .outOfFuel` (a cycle in the links: the Go code would spin forever).
* `uint32` indices are `Nat`; `InvalidIndex = 2^32-1`.  (`len(pool) < 2^32-1` is an explicit
  hypothesis of the theorems in `Props/C13.lean`.)

API stability: `Model/AmlParser.lean` (C11/C12) imports this file — names are only ever added.
-/
namespace Firefly.AmlTree

/-- `InvalidIndex uint32 = (1<<32)-1` -/
def InvalidIndex : Nat := 4294967295
/-- `amlNameLen = 4` -/
def amlNameLen : Nat := 4
/-- `pOpIntFreedObject = 0xff + 0xff` -/
def pOpIntFreedObject : Nat := 0x1fe
/-- `pOpScope = 0x10` -/
def pOpScope : Nat := 0x10
/-- `pOpIntScopeBlock = 0xff + 0xf7` -/
def pOpIntScopeBlock : Nat := 0x1f6

/-- failure modes that are not Go return values -/
inductive Err where
  /-- Go run-time panic: nil dereference, index out of range, explicit `panic(...)` -/
  | panic
  /-- a list walk exceeded `pool.size + 1` steps (the links contain a cycle) -/
  | outOfFuel
  deriving DecidableEq, Repr, Inhabited

abbrev Res := Except Err

instance [DecidableEq α] : DecidableEq (Res α)
  | .ok a, .ok b => if h : a = b then isTrue (congrArg _ h) else isFalse (fun e => h (Except.ok.inj e))
  | .error a, .error b => if h : a = b then isTrue (congrArg _ h) else isFalse (fun e => h (Except.error.inj e))
  | .ok _, .error _ => isFalse (fun e => by cases e)
  | .error _, .ok _ => isFalse (fun e => by cases e)

/-- `[amlNameLen]byte` -/
structure Name where
  b0 : UInt8
  b1 : UInt8
  b2 : UInt8
  b3 : UInt8
  deriving DecidableEq, Repr, Inhabited

def Name.zero : Name := ⟨0, 0, 0, 0⟩
def Name.toList (n : Name) : List UInt8 := [n.b0, n.b1, n.b2, n.b3]
/-- first four bytes of `l` (missing bytes are 0, like a Go array literal) -/
def Name.ofList (l : List UInt8) : Name := ⟨l.getD 0 0, l.getD 1 0, l.getD 2 0, l.getD 3 0⟩
/-- `name[k]` for `k < 4` (0 otherwise; the Go index is a loop variable `< amlNameLen`) -/
def Name.get (n : Name) (k : Nat) : UInt8 :=
  match k with
  | 0 => n.b0 | 1 => n.b1 | 2 => n.b2 | 3 => n.b3 | _ => 0
def Name.ofString (s : String) : Name := Name.ofList (s.toList.map fun c => UInt8.ofNat c.toNat)

/-- the dynamic type of `Object.value` (`interface{}`) -/
inductive Val where
  | none
  | u64 (v : Nat)
  /-- a `[]byte` aliasing the AML table: offset of its first byte and its length -/
  | bytes (off len : Nat)
  /-- a `uint32` object index (resolved name paths / method calls) -/
  | idx (i : Nat)
  /-- `*fieldElement` -/
  | field (offset width accessLength accessType accessAttrib lockType updateType connectionIndex fieldIndex : Nat)
  deriving DecidableEq, Repr, Inhabited

/-- `type Object struct` (field names as in Go) -/
structure Obj where
  opcode : Nat := 0
  infoIndex : Nat := 0
  tableHandle : Nat := 0
  name : Name := Name.zero
  index : Nat := 0
  parentIndex : Nat := 0
  prevSiblingIndex : Nat := 0
  nextSiblingIndex : Nat := 0
  firstArgIndex : Nat := 0
  lastArgIndex : Nat := 0
  amlOffset : Nat := 0
  pkgEnd : Nat := 0
  value : Val := .none
  deriving DecidableEq, Repr, Inhabited

/-- `type ObjectTree struct { objPool []*Object; freeListHeadIndex uint32 }` -/
structure ObjectTree where
  pool : Array Obj := #[]
  freeListHeadIndex : Nat := InvalidIndex
  deriving DecidableEq, Repr, Inhabited

/-- `NewObjectTree()` -/
def NewObjectTree : ObjectTree := { pool := #[], freeListHeadIndex := InvalidIndex }

namespace ObjectTree

/-- fuel for every list walk: one more than the number of pool slots -/
def fuel (t : ObjectTree) : Nat := t.pool.size + 1

/-- `*p` for a pointer to pool slot `i` (`tree.objPool[i]`); out of range = panic -/
def obj (t : ObjectTree) (i : Nat) : Res Obj :=
  match t.pool[i]? with
  | some o => .ok o
  | none => .error .panic

/-- one write through a pointer to pool slot `i` -/
def upd (t : ObjectTree) (i : Nat) (f : Obj → Obj) : Res ObjectTree :=
  if h : i < t.pool.size then .ok { t with pool := t.pool.set i (f t.pool[i]) }
  else .error .panic

/-- dereference a possibly-nil pointer -/
def deref (p : Option Nat) : Res Nat :=
  match p with
  | some i => .ok i
  | none => .error .panic

/-- `ObjectAt(index)`: pointer to the live object at `index`, nil (`none`) if out of range or freed. -/
def ObjectAt (t : ObjectTree) (index : Nat) : Option Nat :=
  match t.pool[index]? with
  | none => none
  | some o => if o.opcode = pOpIntFreedObject then none else some index

/-- `newObject(opcode, tableHandle)`; `infoIndex` is `pOpcodeTableIndex(opcode, true)`, supplied by
the caller from the generated opcode table.  Returns the tree and the position of the object.
`name`, `amlOffset`, `pkgEnd`, `index` keep their old values when a freed slot is reused. -/
def newObject (t : ObjectTree) (opcode infoIndex tableHandle : Nat) : Res (ObjectTree × Nat) := do
  let init : Obj → Obj := fun o =>
    { o with opcode := opcode, infoIndex := infoIndex, tableHandle := tableHandle,
             parentIndex := InvalidIndex, prevSiblingIndex := InvalidIndex,
             nextSiblingIndex := InvalidIndex, firstArgIndex := InvalidIndex,
             lastArgIndex := InvalidIndex, value := .none }
  if t.freeListHeadIndex ≠ InvalidIndex then
    let i := t.freeListHeadIndex
    let o ← t.obj i
    let t : ObjectTree := { t with freeListHeadIndex := o.nextSiblingIndex }
    let t ← t.upd i init
    return (t, i)
  else
    let i := t.pool.size
    let o : Obj := { index := i }
    return ({ t with pool := t.pool.push (init o) }, i)

/-- `newNamedObject(opcode, tableHandle, name)` -/
def newNamedObject (t : ObjectTree) (opcode infoIndex tableHandle : Nat) (name : Name) :
    Res (ObjectTree × Nat) := do
  let (t, i) ← t.newObject opcode infoIndex tableHandle
  let t ← t.upd i fun o => { o with name := name }
  return (t, i)

/-- `append(obj, arg)` -/
def append (t : ObjectTree) (obj arg : Nat) : Res ObjectTree := do
  let o ← t.obj obj
  let t ← t.upd arg fun a => { a with parentIndex := o.index }
  let o ← t.obj obj
  let a ← t.obj arg
  if o.lastArgIndex = InvalidIndex then
    let t ← t.upd obj fun o => { o with firstArgIndex := a.index }
    let t ← t.upd obj fun o => { o with lastArgIndex := a.index }
    return t
  else
    let last ← deref (t.ObjectAt o.lastArgIndex)
    let t ← t.upd last fun l => { l with nextSiblingIndex := a.index }
    let l ← t.obj last
    let t ← t.upd arg fun a => { a with prevSiblingIndex := l.index }
    let t ← t.upd arg fun a => { a with nextSiblingIndex := InvalidIndex }
    let t ← t.upd obj fun o => { o with lastArgIndex := a.index }
    return t

/-- `appendAfter(obj, arg, nextTo)` -/
def appendAfter (t : ObjectTree) (obj arg nextTo : Nat) : Res ObjectTree := do
  let n ← t.obj nextTo
  if n.nextSiblingIndex = InvalidIndex then
    t.append obj arg
  else
    let o ← t.obj obj
    let t ← t.upd arg fun a => { a with parentIndex := o.index }
    let n ← t.obj nextTo
    let t ← t.upd arg fun a => { a with prevSiblingIndex := n.index }
    let n ← t.obj nextTo
    let t ← t.upd arg fun a => { a with nextSiblingIndex := n.nextSiblingIndex }
    let a ← t.obj arg
    let nx ← deref (t.ObjectAt a.nextSiblingIndex)
    let t ← t.upd nx fun x => { x with prevSiblingIndex := a.index }
    let a ← t.obj arg
    let t ← t.upd nextTo fun n => { n with nextSiblingIndex := a.index }
    return t

/-- `detach`, statement 1: `if obj.firstArgIndex == arg.index { obj.firstArgIndex = arg.nextSiblingIndex }` -/
def detachFirst (t : ObjectTree) (obj arg : Nat) : Res ObjectTree := do
  let o ← t.obj obj
  let a ← t.obj arg
  if o.firstArgIndex = a.index then
    t.upd obj fun o => { o with firstArgIndex := a.nextSiblingIndex }
  else pure t

/-- `detach`, statement 2: `if obj.lastArgIndex == arg.index { obj.lastArgIndex = arg.prevSiblingIndex }` -/
def detachLast (t : ObjectTree) (obj arg : Nat) : Res ObjectTree := do
  let o ← t.obj obj
  let a ← t.obj arg
  if o.lastArgIndex = a.index then
    t.upd obj fun o => { o with lastArgIndex := a.prevSiblingIndex }
  else pure t

/-- `detach`, statement 3: `if arg.nextSiblingIndex != InvalidIndex { ObjectAt(arg.next).prev = arg.prev }` -/
def detachNext (t : ObjectTree) (arg : Nat) : Res ObjectTree := do
  let a ← t.obj arg
  if a.nextSiblingIndex ≠ InvalidIndex then do
    let nx ← deref (t.ObjectAt a.nextSiblingIndex)
    t.upd nx fun x => { x with prevSiblingIndex := a.prevSiblingIndex }
  else pure t

/-- `detach`, statement 4: `if arg.prevSiblingIndex != InvalidIndex { ObjectAt(arg.prev).next = arg.next }` -/
def detachPrev (t : ObjectTree) (arg : Nat) : Res ObjectTree := do
  let a ← t.obj arg
  if a.prevSiblingIndex ≠ InvalidIndex then do
    let pv ← deref (t.ObjectAt a.prevSiblingIndex)
    t.upd pv fun x => { x with nextSiblingIndex := a.nextSiblingIndex }
  else pure t

/-- `detach`, statements 5–7: `arg.prev = Invalid; arg.next = Invalid; arg.parent = Invalid` -/
def detachClear (t : ObjectTree) (arg : Nat) : Res ObjectTree :=
  (t.upd arg fun a => { a with prevSiblingIndex := InvalidIndex }) >>= fun t =>
  (t.upd arg fun a => { a with nextSiblingIndex := InvalidIndex }) >>= fun t =>
  t.upd arg fun a => { a with parentIndex := InvalidIndex }

/-- `detach(obj, arg)` (the seven statements in order) -/
def detach (t : ObjectTree) (obj arg : Nat) : Res ObjectTree :=
  t.detachFirst obj arg >>= fun t => t.detachLast obj arg >>= fun t =>
  t.detachNext arg >>= fun t => t.detachPrev arg >>= fun t => t.detachClear arg

/-- `free`, first statement: `if obj.parentIndex != InvalidIndex { detach(ObjectAt(obj.parentIndex), obj) }` -/
def freeDetach (t : ObjectTree) (obj : Nat) : Res ObjectTree := do
  let o ← t.obj obj
  if o.parentIndex ≠ InvalidIndex then do
    let p ← deref (t.ObjectAt o.parentIndex)
    t.detach p obj
  else pure t

/-- `free`, the rest: the explicit `panic` if arguments remain, then the push on the free list -/
def freePush (t : ObjectTree) (obj : Nat) : Res ObjectTree := do
  let o ← t.obj obj
  if o.firstArgIndex ≠ InvalidIndex ∨ o.lastArgIndex ≠ InvalidIndex then
    throw .panic
  else
    (t.upd obj fun o => { o with opcode := pOpIntFreedObject }) >>= fun t =>
    (t.upd obj fun o => { o with nextSiblingIndex := t.freeListHeadIndex }) >>= fun t =>
    t.obj obj >>= fun o => pure { t with freeListHeadIndex := o.index }

/-- `free(obj)`; the explicit Go `panic("… still contains argument references")` is `.panic` -/
def free (t : ObjectTree) (obj : Nat) : Res ObjectTree :=
  t.freeDetach obj >>= fun t => t.freePush obj

/-- `CreateDefaultScopes(tableHandle)`; `info` = `pOpcodeTableIndex(pOpIntScopeBlock, true)` -/
def CreateDefaultScopes (t : ObjectTree) (info tableHandle : Nat) : Res ObjectTree := do
  let (t, root) ← t.newNamedObject pOpIntScopeBlock info tableHandle ⟨0x5c, 0, 0, 0⟩
  let add (t : ObjectTree) (s : String) : Res ObjectTree := do
    let (t, i) ← t.newNamedObject pOpIntScopeBlock info tableHandle (Name.ofString s)
    t.append root i
  let t ← add t "_GPE"
  let t ← add t "_PR_"
  let t ← add t "_SB_"
  let t ← add t "_SI_"
  add t "_TZ_"

/-! ## lookups -/

/-- the four-byte comparison loop `expr[seg+k] != obj.name[k] → continue`, left to right; an
index past the end of `expr` is a Go index panic -/
def matchName (expr : List UInt8) (seg : Nat) (nm : Name) : List Nat → Res Bool
  | [] => .ok true
  | k :: ks =>
    match expr[seg + k]? with
    | none => .error .panic
    | some b => if b ≠ nm.get k then .ok false else matchName expr seg nm ks

/-- the sibling loop shared by `Find` and `findRelative`:
`for i := start; i != InvalidIndex; i = ObjectAt(i).nextSiblingIndex { obj := ObjectAt(i); … }`
returns the first position whose name equals `expr[seg:seg+4]` (with the object). -/
def scanSiblings (t : ObjectTree) (expr : List UInt8) (seg : Nat) : Nat → Nat → Res (Option (Nat × Obj))
  | 0, i => if i = InvalidIndex then .ok none else .error .outOfFuel
  | f+1, i =>
    if i = InvalidIndex then .ok none else do
      let p ← deref (t.ObjectAt i)
      let o ← t.obj p
      if ← matchName expr seg o.name [0, 1, 2, 3] then
        return some (i, o)
      else
        scanSiblings t expr seg f o.nextSiblingIndex

/-- is `b` a byte the prefix-skipping loop of `findRelative` stops at (`'_'` or `'A'..'Z'`) -/
def isNameStart (b : UInt8) : Bool := b = 0x5f || (0x41 ≤ b && b ≤ 0x5a)

/-- the inner skipping loop of `findRelative`:
`for ; segIndex < exprLen && expr[segIndex] != '_' && (expr[segIndex] < 'A' || expr[segIndex] > 'Z'); segIndex++ { if expr[segIndex] == 0x2f { segIndex++ } }`
(the byte after a MultiNamePrefix `0x2f` is the segment count and is skipped with it; the result
may be `exprLen + 1`). -/
def skipPrefix (expr : List UInt8) : Nat → Nat → Nat
  | 0, seg => seg
  | f+1, seg =>
    match expr[seg]? with
    | none => seg
    | some b =>
      if isNameStart b then seg
      else skipPrefix expr f (if b = 0x2f then seg + 2 else seg + 1)

/-- the `nextSegment` loop of `findRelative` from `segIndex`; `n` bounds the iterations by the
expression length -/
def findRelativeLoop (t : ObjectTree) (expr : List UInt8) : Nat → Nat → Nat → Res Nat
  | 0, scopeIndex, segIndex => if segIndex < expr.length then .error .outOfFuel else .ok scopeIndex
  | n+1, scopeIndex, segIndex =>
    if segIndex < expr.length then
      let segIndex := skipPrefix expr expr.length segIndex
      if expr.length - segIndex < amlNameLen then .ok InvalidIndex
      else do
        let s ← deref (t.ObjectAt scopeIndex)
        let so ← t.obj s
        match ← scanSiblings t expr segIndex t.fuel so.firstArgIndex with
        | some (i, _) => findRelativeLoop t expr n i (segIndex + amlNameLen)
        | none => return InvalidIndex
    else .ok scopeIndex

/-- `findRelative(scopeIndex, expr)` -/
def findRelative (t : ObjectTree) (scopeIndex : Nat) (expr : List UInt8) : Res Nat :=
  findRelativeLoop t expr (expr.length + 1) scopeIndex 0

/-- the `'^'` loop of `Find` over the remaining bytes `rest` of the expression -/
def findCarets (t : ObjectTree) : Nat → List UInt8 → Res Nat
  | scopeIndex, [] => .ok scopeIndex
  | scopeIndex, b :: rest =>
    if b = 0x5e then do
      let s ← deref (t.ObjectAt scopeIndex)
      let so ← t.obj s
      if so.parentIndex = InvalidIndex then return InvalidIndex
      else findCarets t so.parentIndex rest
    else t.findRelative scopeIndex (b :: rest)

/-- the scope-then-ancestors loop of `Find` for a plain four-byte name -/
def findUpward (t : ObjectTree) (expr : List UInt8) : Nat → Nat → Res Nat
  | 0, scopeIndex => if scopeIndex = InvalidIndex then .ok InvalidIndex else .error .outOfFuel
  | f+1, scopeIndex =>
    if scopeIndex = InvalidIndex then .ok InvalidIndex else do
      let s ← deref (t.ObjectAt scopeIndex)
      let so ← t.obj s
      match ← scanSiblings t expr 0 t.fuel so.firstArgIndex with
      | some (_, o) => return o.index
      | none =>
        let s ← deref (t.ObjectAt scopeIndex)
        let so ← t.obj s
        findUpward t expr f so.parentIndex

/-- `Find(scopeIndex, expr)` -/
def Find (t : ObjectTree) (scopeIndex : Nat) (expr : List UInt8) : Res Nat :=
  match expr with
  | [] => .ok InvalidIndex
  | b :: rest =>
    if scopeIndex = InvalidIndex then .ok InvalidIndex
    else if b = 0x5c then
      (if rest.isEmpty then .ok 0 else t.findRelative 0 rest)
    else if b = 0x5e then t.findCarets scopeIndex expr
    else if expr.length > amlNameLen then t.findRelative scopeIndex expr
    else if expr.length = amlNameLen then t.findUpward expr t.fuel scopeIndex
    else .ok InvalidIndex

/-- the ancestor loop of `ClosestNamedAncestor` -/
def closestLoop (named : Nat → Option Bool) (t : ObjectTree) : Nat → Nat → Res Nat
  | 0, a => if a = InvalidIndex then .ok InvalidIndex else .error .outOfFuel
  | f+1, a =>
    if a = InvalidIndex then .ok InvalidIndex else do
      let p ← deref (t.ObjectAt a)
      let o ← t.obj p
      if o.opcode = pOpScope then return InvalidIndex
      match named o.infoIndex with
      | none => throw .panic
      | some true => return a
      | some false => closestLoop named t f o.parentIndex

/-- `ClosestNamedAncestor(obj)`. `named i` = `pOpcodeTable[i].flags & pOpFlagNamed != 0`
(`none` when `i` is outside the table: Go index panic). -/
def ClosestNamedAncestor (named : Nat → Option Bool) (t : ObjectTree) (obj : Option Nat) : Res Nat :=
  match obj with
  | none => .ok InvalidIndex
  | some i => do
    let o ← t.obj i
    closestLoop named t t.fuel o.parentIndex

/-- the loop of `NumArgs` -/
def countLoop (t : ObjectTree) : Nat → Nat → Nat → Res Nat
  | 0, i, acc => if i = InvalidIndex then .ok acc else .error .outOfFuel
  | f+1, i, acc =>
    if i = InvalidIndex then .ok acc else do
      let p ← deref (t.ObjectAt i)
      let o ← t.obj p
      countLoop t f o.nextSiblingIndex (acc + 1)

/-- `NumArgs(obj)` -/
def NumArgs (t : ObjectTree) (obj : Option Nat) : Res Nat :=
  match obj with
  | none => .ok 0
  | some i => do
    let o ← t.obj i
    countLoop t t.fuel o.firstArgIndex 0

/-- the loop of `ArgAt` -/
def argLoop (t : ObjectTree) (index : Nat) : Nat → Nat → Nat → Res (Option Nat)
  | 0, i, _ => if i = InvalidIndex then .ok none else .error .outOfFuel
  | f+1, i, argIndex =>
    if i = InvalidIndex then .ok none
    else if argIndex = index then .ok (t.ObjectAt i)
    else do
      let p ← deref (t.ObjectAt i)
      let o ← t.obj p
      argLoop t index f o.nextSiblingIndex (argIndex + 1)

/-- `ArgAt(obj, index)` -/
def ArgAt (t : ObjectTree) (obj : Option Nat) (index : Nat) : Res (Option Nat) :=
  match obj with
  | none => .ok none
  | some i => do
    let o ← t.obj i
    argLoop t index t.fuel o.firstArgIndex 0

/-- the child positions of `i` in list order (the walk of `NumArgs`, collecting) -/
def kidsLoop (t : ObjectTree) : Nat → Nat → Res (List Nat)
  | 0, i => if i = InvalidIndex then .ok [] else .error .outOfFuel
  | f+1, i =>
    if i = InvalidIndex then .ok [] else do
      let p ← deref (t.ObjectAt i)
      let o ← t.obj p
      let rest ← kidsLoop t f o.nextSiblingIndex
      return i :: rest

/-- ordered argument list of the object at position `i` -/
def args (t : ObjectTree) (i : Nat) : Res (List Nat) := do
  let o ← t.obj i
  kidsLoop t t.fuel o.firstArgIndex

end ObjectTree
end Firefly.AmlTree
