/-!
# Framebuffer memory with checked access, and the 32-bit wrap-around arithmetic of the consoles

Shared by `Model/VgaText.lean` and `Model/VesaFb.lean` (C19).  A framebuffer is an `Array α`
(`α = UInt16` text cells, `α = UInt8` pixel bytes); every access is checked and an out-of-range
index — a Go slice-index panic — makes the whole operation return `none`.

All coordinates are `uint32` in the Go code; the model keeps them as `Nat < 2^32` and spells the
reduction out (`add32`, `sub32`, `mul32`).  Counting loops `for o := a; o < b; o++` are
structural recursions on their trip count `b - a` (the loop variable cannot wrap: it stays below
`b < 2^32`).
-/
namespace Firefly.FbMem

@[reducible] def add32 (a b : Nat) : Nat := (a + b) % 4294967296
@[reducible] def sub32 (a b : Nat) : Nat := (a + (4294967296 - b % 4294967296)) % 4294967296
@[reducible] def mul32 (a b : Nat) : Nat := (a * b) % 4294967296

/-- checked store: `fb[i] = v` -/
@[inline] def put (fb : Array α) (i : Nat) (v : α) : Option (Array α) :=
  if h : i < fb.size then some (fb.set i v) else none

/-- `for o := s; o < s+n; o++ { fb[o] = v }` -/
def fillRange (v : α) : (fb : Array α) → (s n : Nat) → Option (Array α)
  | fb, _, 0 => some fb
  | fb, s, n+1 =>
    match put fb s v with
    | none => none
    | some fb' => fillRange v fb' (s+1) n

/-- `for k := i; k < i+n; k++ { fb[k] = fb[src k] }` (ascending) -/
def copyAsc (src : Nat → Nat) : (fb : Array α) → (i n : Nat) → Option (Array α)
  | fb, _, 0 => some fb
  | fb, i, n+1 =>
    match fb[src i]? with
    | none => none
    | some v =>
      match put fb i v with
      | none => none
      | some fb' => copyAsc src fb' (i+1) n

/-- `for k := i; <n times>; k-- { fb[k] = fb[src k] }` (descending) -/
def copyDesc (src : Nat → Nat) : (fb : Array α) → (i n : Nat) → Option (Array α)
  | fb, _, 0 => some fb
  | fb, i, n+1 =>
    match fb[src i]? with
    | none => none
    | some v =>
      match put fb i v with
      | none => none
      | some fb' => copyDesc src fb' (i-1) n

/-- store the bytes of one pixel at `off, off+1, …` (each index computed in 32 bits) -/
def putPixel : (fb : Array α) → (off : Nat) → List α → Option (Array α)
  | fb, _, [] => some fb
  | fb, off, c :: cs =>
    match put fb off c with
    | none => none
    | some fb' => putPixel fb' (add32 off 1) cs

/-- `n` pixels of the same colour, `step` bytes apart -/
def pixRow (comp : List α) (step : Nat) : (fb : Array α) → (off n : Nat) → Option (Array α)
  | fb, _, 0 => some fb
  | fb, off, n+1 =>
    match putPixel fb off comp with
    | none => none
    | some fb' => pixRow comp step fb' (add32 off step) n

end Firefly.FbMem
