import Firefly.Gen.C04
/-!
Model of `kernel/mm/vmm` (map.go, pdt.go, fault_amd64.go, vmm.go, addr_space.go) over an explicit
physical memory and a software MMU.  `uintptr` is `BitVec 64`; all arithmetic wraps as in Go.

* Physical memory (`Mem`) is a write log over frames of 512 words; frames outside `[base, base+n)`
  are not RAM.  A dereference that the hardware would perform on something that is not RAM, or
  through a non-present entry, is the explicit result `Abort.fault`; a Go `panic` is `Abort.panic`.
* `mmu` is the hardware: 4-level walk from CR3, present bit at each level, huge-page bit = stop.
  Its constants are hardware facts and are *not* taken from the kernel's constants.
* The kernel's `walk` is modelled as written: entry *virtual* addresses are computed from
  `pdtVirtualAddr` by the add / shift-left recurrence and every dereference goes through `mmu` on
  the active root (`ptePtr`), so the recursive-mapping trick is verified, not assumed.
-/
namespace Firefly.Vmm
open Firefly.Gen.C04

abbrev W := BitVec 64
@[inline] def w (n : Nat) : W := BitVec.ofNat 64 n

/-! ## kernel constants (regenerated from the compiled code) -/
def physMask : W := w ptePhysPageMask
def pdtVA : W := w pdtVirtualAddr
def tempVA : W := w tempMappingAddr
def pageSizeW : W := w pageSize
def levelBits (l : Nat) : Nat := pageLevelBits.getD l 0
def levelShift (l : Nat) : Nat := pageLevelShifts.getD l 0
def fPresent : W := w flagPresent
def fRW : W := w flagRW
def fUser : W := w flagUserAccessible
def fHuge : W := w flagHugePage
def fCoW : W := w flagCopyOnWrite
def fNX : W := w flagNoExecute
def invalidFrameW : W := w invalidFrame

/-! error codes of the trace protocol (0 = nil) -/
def eInvalidMapping : Nat := 1
def eNoHuge : Nat := 2
def eRWZero : Nat := 3
def eAlloc : Nat := 4
def eNoSpace : Nat := 5
def eTmp : Nat := 6
def eUnrecoverable : Nat := 7

/-! ## physical memory -/
inductive Cell where
  | word (f i : Nat) (v : W)
  | frame (f : Nat) (g : Nat → W)

structure Mem where
  base : Nat
  n : Nat
  log : List Cell

def rdLog : List Cell → Nat → Nat → W
  | [], _, _ => 0
  | .word f' i' v :: r, f, i => if f' = f ∧ i' = i then v else rdLog r f i
  | .frame f' g :: r, f, i => if f' = f then g i else rdLog r f i

def Mem.backed (m : Mem) (f : Nat) : Bool := decide (m.base ≤ f ∧ f < m.base + m.n)
def Mem.rd (m : Mem) (f i : Nat) : W := rdLog m.log f i
def Mem.wr (m : Mem) (f i : Nat) (v : W) : Mem := { m with log := .word f i v :: m.log }
def Mem.setFrame (m : Mem) (f : Nat) (g : Nat → W) : Mem := { m with log := .frame f g :: m.log }

/-! ## page-table entries (pdt.go) -/
def hasFlags (e fl : W) : Bool := (e &&& fl) == fl
def setFlags (e fl : W) : W := e ||| fl
def clearFlags (e fl : W) : W := e &&& ~~~fl
def frameAddr (f : W) : W := f <<< pageShift
def frameOf (e : W) : W := (e &&& physMask) >>> pageShift
def setFrame (e f : W) : W := (e &&& ~~~physMask) ||| frameAddr f
/-- `mm.PageFromAddress` / `mm.FrameFromAddress` -/
def pageOf (addr : W) : W := (addr &&& ~~~(pageSizeW - 1)) >>> pageShift
/-- `Page.Address` -/
def pageAddr (p : W) : W := p <<< pageShift
/-- `PageOffset` -/
def pageOffset (va : W) : W := va &&& (((1 : W) <<< levelShift (pageLevels - 1)) - 1)

/-! ## the hardware MMU -/
def hwMask : W := 0x000ffffffffff000#64
def hwIdx (va : W) (shift : Nat) : Nat := ((va >>> shift) &&& 511#64).toNat

def mmuWalk (m : Mem) (va : W) : List Nat → W → Option W
  | [], _ => none
  | s :: rest, table =>
    let t := (table >>> 12).toNat
    if !m.backed t then none else
    let e := m.rd t (hwIdx va s)
    if (e &&& 1#64) == 0#64 then none else
    let next := e &&& hwMask
    match rest with
    | [] => some (next + (va &&& 0xfff#64))
    | _ :: _ =>
      if (s == 30 || s == 21) && (e &&& 128#64) != 0#64 then
        let mask : W := ((1 : W) <<< s) - 1
        some ((next &&& ~~~mask) + (va &&& mask))
      else mmuWalk m va rest next

def mmu (m : Mem) (cr3 va : W) : Option W := mmuWalk m va [39, 30, 21, 12] (cr3 &&& hwMask)

/-! ## machine state -/
structure St where
  mem : Mem
  cr3 : W
  /-- frames the scripted allocator hands out next; `[]` ⇒ allocation error -/
  free : List W := []
  allocs : Nat := 0
  /-- addresses passed to `flushTLBEntryFn`, oldest first -/
  flushes : List W := []
  /-- `earlyReserveLastUsed` -/
  cursor : W := tempVA
  /-- `ReservedZeroedFrame`, `protectReservedZeroedPage` -/
  zeroFrame : W := 0
  protect : Bool := false
  /-- `kernelPDT.pdtFrame` -/
  kpdt : W := 0
  /-- scripted failure of `mapTemporaryFn` (C06) -/
  tmpFail : Bool := false

inductive Abort where
  | fault
  | panic (code : Nat)
deriving DecidableEq, Repr

abbrev R (α : Type) := Except Abort (α × St)

abbrev Loc := Nat × Nat

def St.rdLoc (st : St) (l : Loc) : W := st.mem.rd l.1 l.2
def St.wrLoc (st : St) (l : Loc) (v : W) : St := { st with mem := st.mem.wr l.1 l.2 v }
def St.flush (st : St) (a : W) : St := { st with flushes := st.flushes ++ [a] }

/-- physical address → (frame, word index) if it is RAM and word-aligned -/
def physLoc (st : St) (pa : W) : Option Loc :=
  if st.mem.backed (pa >>> 12).toNat && (pa &&& 7#64) == 0#64 then
    some ((pa >>> 12).toNat, ((pa &&& 0xfff#64) >>> 3).toNat)
  else none

/-- dereference of a virtual address: through the MMU on the active root -/
def ptePtr (st : St) (va : W) : Option Loc :=
  match mmu st.mem st.cr3 va with
  | none => none
  | some pa => physLoc st pa

/-- `kernel.Memset(va, 0, PageSize)` of a page-aligned virtual address -/
def memsetPage (st : St) (va : W) : Except Abort St :=
  match mmu st.mem st.cr3 va with
  | none => .error .fault
  | some pa =>
    if st.mem.backed (pa >>> 12).toNat && (pa &&& 0xfff#64) == 0#64 then
      .ok { st with mem := st.mem.setFrame (pa >>> 12).toNat (fun _ => 0) }
    else .error .fault

/-! ## walk (pdt.go) -/
abbrev Walker (σ : Type) := (level : Nat) → (entryAddr : W) → Loc → σ → St → R (Bool × σ)

def walkFrom {σ : Type} (fn : Walker σ) (va : W) : List Nat → W → σ → St → R σ
  | [], _, a, st => .ok (a, st)
  | level :: rest, tableAddr, a, st =>
    let entryIndex := (va >>> levelShift level) &&& (((1 : W) <<< levelBits level) - 1)
    let entryAddr := tableAddr + (entryIndex <<< pointerShift)
    match ptePtr st entryAddr with
    | none => .error .fault
    | some loc =>
      match fn level entryAddr loc a st with
      | .error e => .error e
      | .ok ((false, a), st) => .ok (a, st)
      | .ok ((true, a), st) => walkFrom fn va rest (entryAddr <<< levelBits level) a st

def walk {σ : Type} (fn : Walker σ) (va : W) (a : σ) (st : St) : R σ :=
  walkFrom fn va (List.range pageLevels) pdtVA a st

/-! ## Map / Unmap / Translate / MapTemporary (map.go) -/

/-- `*pte = 0; pte.SetFrame(frame); pte.SetFlags(flags)` (one store of the composed value) -/
def mkEntry (frame flags : W) : W := setFlags (setFrame 0 frame) flags

def mapCb (page frame flags : W) : Walker Nat := fun level entryAddr loc err st =>
  if level = pageLevels - 1 then
    .ok ((true, err), (st.wrLoc loc (mkEntry frame flags)).flush (pageAddr page))
  else
    let e := st.rdLoc loc
    if hasFlags e fHuge then .ok ((false, eNoHuge), st)
    else if !hasFlags e fPresent then
      match st.free with
      | [] => .ok ((false, eAlloc), st)
      | f :: rest =>
        let st := { st with free := rest, allocs := st.allocs + 1 }
        let st := st.wrLoc loc (mkEntry f (fPresent ||| fRW))
        match memsetPage st (entryAddr <<< levelBits (level + 1)) with
        | .error e => .error e
        | .ok st => .ok ((true, err), st)
    else .ok ((true, err), st)

def mapOp (st : St) (page frame flags : W) : R Nat :=
  if st.protect && frame == st.zeroFrame && (flags &&& fRW) != 0 then .ok (eRWZero, st)
  else walk (mapCb page frame flags) (pageAddr page) 0 st

def unmapCb (page : W) : Walker Nat := fun level _ loc err st =>
  let e := st.rdLoc loc
  if level = pageLevels - 1 then
    .ok ((true, err), (st.wrLoc loc (clearFlags e fPresent)).flush (pageAddr page))
  else if !hasFlags e fPresent then .ok ((false, eInvalidMapping), st)
  else if hasFlags e fHuge then .ok ((false, eNoHuge), st)
  else .ok ((true, err), st)

def unmapOp (st : St) (page : W) : R Nat := walk (unmapCb page) (pageAddr page) 0 st

def pteCb : Walker (Option Loc × Nat) := fun _ _ loc acc st =>
  if !hasFlags (st.rdLoc loc) fPresent then .ok ((false, (none, eInvalidMapping)), st)
  else .ok ((true, (some loc, acc.2)), st)

/-- `Translate`: (error code, physical address) -/
def translate (st : St) (va : W) : R (Nat × W) :=
  match walk pteCb va (none, 0) st with
  | .error e => .error e
  | .ok ((entry, err), st) =>
    if err ≠ 0 then .ok ((err, 0), st) else
    match entry with
    | none => .error (.panic 298)
    | some loc => .ok ((0, frameAddr (frameOf (st.rdLoc loc)) + pageOffset va), st)

def mapTemporary (st : St) (frame : W) : R (Nat × W) :=
  if st.protect && frame == st.zeroFrame then .ok ((eRWZero, 0), st) else
  match mapOp st (pageOf tempVA) frame (fPresent ||| fRW) with
  | .error e => .error e
  | .ok (err, st) => if err ≠ 0 then .ok ((err, 0), st) else .ok ((0, pageOf tempVA), st)

/-- the `mapTemporaryFn` seam: scripted failure or the real `MapTemporary` -/
def mapTemporaryFn (st : St) (frame : W) : R (Nat × W) :=
  if st.tmpFail then .ok ((eTmp, 0), st) else mapTemporary st frame

/-! ## address-space reservations and region mapping (addr_space.go, map.go) -/
def roundUp (size : W) : W := (size + (pageSizeW - 1)) &&& ~~~(pageSizeW - 1)
def roundWraps (size : W) : Bool := size > ~~~(pageSizeW - 1)

def earlyReserve (st : St) (size : W) : (Nat × W) × St :=
  if roundWraps size then ((eNoSpace, 0), st) else
  let s := roundUp size
  if s > st.cursor then ((eNoSpace, 0), st) else
  ((0, st.cursor - s), { st with cursor := st.cursor - s })

def mapLoop (flags : W) : Nat → W → W → St → R Nat
  | 0, _, _, st => .ok (0, st)
  | n + 1, page, frame, st =>
    match mapOp st page frame flags with
    | .error e => .error e
    | .ok (err, st) => if err ≠ 0 then .ok (err, st) else mapLoop flags n (page + 1) (frame + 1) st

def mapRegion (st : St) (frame size flags : W) : R (Nat × W) :=
  if roundWraps size then .ok ((eNoSpace, 0), st) else
  let s := roundUp size
  match earlyReserve st s with
  | ((0, start), st) =>
    match mapLoop flags (s >>> pageShift).toNat (pageOf start) frame st with
    | .error e => .error e
    | .ok (err, st) => if err ≠ 0 then .ok ((err, 0), st) else .ok ((0, pageOf start), st)
  | ((err, _), st) => .ok ((err, 0), st)

def identityMapRegion (st : St) (startFrame size flags : W) : R (Nat × W) :=
  let count := roundUp size >>> pageShift
  let lim := startFrame + count
  let n := if startFrame < lim then (lim - startFrame).toNat else 0
  match mapLoop flags n startFrame startFrame st with
  | .error e => .error e
  | .ok (err, st) => if err ≠ 0 then .ok ((err, 0), st) else .ok ((0, startFrame), st)

/-! ## PageDirectoryTable (pdt.go) -/

/-- byte offset of the last entry of the top-level table -/
def lastEntryOff : W := ((((1 : W) <<< levelBits 0) - 1) <<< pointerShift)

def pdtInit (st : St) (pdtFrame : W) : R Nat :=
  if frameAddr pdtFrame == st.cr3 then .ok (0, st) else
  match mapTemporaryFn st pdtFrame with
  | .error e => .error e
  | .ok ((err, page), st) =>
    if err ≠ 0 then .ok (err, st) else
    match memsetPage st (pageAddr page) with
    | .error e => .error e
    | .ok st =>
      match ptePtr st (pageAddr page + lastEntryOff) with
      | none => .error .fault
      | some loc =>
        let st := st.wrLoc loc (setFrame (setFlags 0 (fPresent ||| fRW)) pdtFrame)
        match unmapOp st page with
        | .error e => .error e
        | .ok (_, st) => .ok (0, st)

/-- the swap / restore of the active root's last entry around an operation on an inactive PDT.
The kernel uses the active root's *physical* address as a pointer (identity mapping). -/
def withPdt (st : St) (pdtFrame : W) (op : St → R Nat) : R Nat :=
  let activeFrame := st.cr3 >>> pageShift
  if activeFrame == pdtFrame then op st else
  let lastAddr := frameAddr activeFrame + lastEntryOff
  match physLoc st lastAddr with
  | none => .error .fault
  | some loc =>
    let st := (st.wrLoc loc (setFrame (st.rdLoc loc) pdtFrame)).flush lastAddr
    match op st with
    | .error e => .error e
    | .ok (err, st) =>
      .ok (err, (st.wrLoc loc (setFrame (st.rdLoc loc) activeFrame)).flush lastAddr)

def pdtMap (st : St) (pdtFrame page frame flags : W) : R Nat :=
  withPdt st pdtFrame (fun st => mapOp st page frame flags)

def pdtUnmap (st : St) (pdtFrame page : W) : R Nat :=
  withPdt st pdtFrame (fun st => unmapOp st page)

def pdtActivate (st : St) (pdtFrame : W) : St := { st with cr3 := frameAddr pdtFrame }

/-! ## vmm.go / fault_amd64.go (C06) -/
def allocFrame (st : St) : Option (W × St) :=
  match st.free with
  | [] => none
  | f :: rest => some (f, { st with free := rest, allocs := st.allocs + 1 })

def reserveZeroedFrame (st : St) : R Nat :=
  match allocFrame st with
  | none => .ok (eAlloc, { st with zeroFrame := invalidFrameW })
  | some (f, st) =>
    let st := { st with zeroFrame := f }
    match mapTemporaryFn st f with
    | .error e => .error e
    | .ok ((err, page), st) =>
      if err ≠ 0 then .ok (err, st) else
      match memsetPage st (pageAddr page) with
      | .error e => .error e
      | .ok st =>
        match unmapOp st page with
        | .error e => .error e
        | .ok (_, st) => .ok (0, { st with protect := true })

def faultCb : Walker (Option Loc) := fun level _ loc acc st =>
  let present := hasFlags (st.rdLoc loc) fPresent
  .ok ((present, if level = pageLevels - 1 ∧ present then some loc else acc), st)

/-- contents of the frame a virtual page shows (zeros when it does not resolve to RAM: the harness's
host page is zero-filled then) -/
def pageContents (st : St) (va : W) : Nat → W :=
  match mmu st.mem st.cr3 va with
  | none => fun _ => 0
  | some pa => if st.mem.backed (pa >>> 12).toNat then fun i => st.mem.rd (pa >>> 12).toNat i else fun _ => 0

def pageFault (st : St) (faultAddr : W) : R Unit :=
  let faultPage := pageOf faultAddr
  match walk faultCb (pageAddr faultPage) none st with
  | .error e => .error e
  | .ok (entry, st) =>
    match entry with
    | none => .error (.panic (200 + eUnrecoverable))
    | some loc =>
      let e := st.rdLoc loc
      if !hasFlags e fRW && hasFlags e fCoW then
        match allocFrame st with
        | none => .error (.panic (200 + eAlloc))
        | some (copy, st) =>
          match mapTemporaryFn st copy with
          | .error e => .error e
          | .ok ((err, tmpPage), st) =>
            if err ≠ 0 then .error (.panic (200 + err)) else
            let src := pageContents st (pageAddr faultPage)
            match mmu st.mem st.cr3 (pageAddr tmpPage) with
            | none => .error .fault
            | some pa =>
              if !(st.mem.backed (pa >>> 12).toNat && (pa &&& 0xfff#64) == 0#64) then .error .fault else
              let st := { st with mem := st.mem.setFrame (pa >>> 12).toNat src }
              match unmapOp st tmpPage with
              | .error e => .error e
              | .ok (_, st) =>
                let e := st.rdLoc loc
                let e := setFrame (setFlags (clearFlags e fCoW) (fPresent ||| fRW)) copy
                .ok ((), (st.wrLoc loc e).flush (pageAddr faultPage))
      else .error (.panic (200 + eUnrecoverable))

def gpFault (_st : St) : R Unit := .error (.panic (200 + eUnrecoverable))

/-! ## setupPDTForKernel (pdt.go, C05) -/
structure Section where
  flags : W
  addr : W
  size : W

/-- a mapping function as `kernelPDT.Map`: page, frame, flags -/
abbrev MapFn := W → W → W → St → R Nat

/-- the visitor's page loop: `for ; curPage <= lastPage; curFrame, curPage = curFrame+1, curPage+1` -/
def pdtMapLoop (mp : MapFn) (flags : W) : Nat → W → W → St → R Nat
  | 0, _, _, st => .ok (0, st)
  | n + 1, page, frame, st =>
    match mp page frame flags st with
    | .error e => .error e
    | .ok (err, st) => if err ≠ 0 then .ok (err, st) else pdtMapLoop mp flags n (page + 1) (frame + 1) st

def sectionFlags (secFlags : W) : W :=
  let fl := fPresent
  let fl := if (secFlags &&& w elfSectionExecutable) == 0 then fl ||| fNX else fl
  if (secFlags &&& w elfSectionWritable) != 0 then fl ||| fRW else fl

/-- number of iterations of the visitor's page loop -/
def sectionPageCount (s : Section) : Nat :=
  let curPage := pageOf s.addr
  let lastPage := pageOf (s.addr + (s.size - 1))
  if curPage ≤ lastPage then (lastPage - curPage).toNat + 1 else 0

/-- the ELF-section visitor of `setupPDTForKernel`, over the mapping function it calls -/
def visitSectionsG (mp : MapFn) (off : W) : List Section → Nat → St → R Nat
  | [], err, st => .ok (err, st)
  | s :: rest, err, st =>
    if err ≠ 0 || s.addr < off then visitSectionsG mp off rest err st else
    match pdtMapLoop mp (sectionFlags s.flags) (sectionPageCount s) (pageOf s.addr) ((s.addr - off) >>> pageShift) st with
    | .error e => .error e
    | .ok (err, st) => visitSectionsG mp off rest err st

def visitSections (pdtFrame off : W) : List Section → Nat → St → R Nat :=
  visitSectionsG (fun page frame flags st => pdtMap st pdtFrame page frame flags) off

def copyReservations (pdtFrame : W) : Nat → W → St → R Nat
  | 0, _, st => .ok (0, st)
  | n + 1, rsvAddr, st =>
    match translate st rsvAddr with
    | .error e => .error e
    | .ok ((err, frameAddr'), st) =>
      if err ≠ 0 then .ok (err, st) else
      match pdtMap st pdtFrame (pageOf rsvAddr) (frameAddr' >>> pageShift) (fPresent ||| fRW) with
      | .error e => .error e
      | .ok (err, st) =>
        if err ≠ 0 then .ok (err, st) else copyReservations pdtFrame n (rsvAddr + pageSizeW) st

def setupPDTForKernel (st : St) (off : W) (secs : List Section) : R Nat :=
  match allocFrame st with
  | none => .ok (eAlloc, st)
  | some (f, st) =>
    let st := { st with kpdt := f }
    match pdtInit st f with
    | .error e => .error e
    | .ok (err, st) =>
      if err ≠ 0 then .ok (err, st) else
      match visitSections f off secs 0 st with
      | .error e => .error e
      | .ok (err, st) =>
        if err ≠ 0 then .ok (err, st) else
        let n := if st.cursor < tempVA then ((tempVA - st.cursor).toNat + (pageSize - 1)) / pageSize else 0
        match copyReservations f n st.cursor st with
        | .error e => .error e
        | .ok (err, st) =>
          if err ≠ 0 then .ok (err, st) else .ok (0, pdtActivate st f)

end Firefly.Vmm
