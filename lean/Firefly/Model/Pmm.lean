import Firefly.Gen.Pmm
/-!
Model of `kernel/mm/pmm` (boot-time allocator, bitmap allocator, `Init`).

Frames, addresses and lengths are `Nat`; the theorems carry the domain hypotheses under which
the Go `uintptr`/`uint32` arithmetic does not wrap (`addr+len < 2^64`, fewer than `4294967296` frames).
The 32-bit counters (`freeCount`, `totalPages`, `reservedPages`) wrap in the model exactly as in
Go, bitmap words are `BitVec 64` with the code's MSB-first bit order, and every slice index is
checked: an out-of-range index is an explicit `panic`.
-/
namespace Firefly.Pmm
open Firefly.Gen.Pmm

structure Region where
  addr : Nat
  len : Nat
  typ : Nat
deriving Repr, DecidableEq

/-- first frame wholly inside the region: round the start address up -/
def regionStart (r : Region) : Nat := (r.addr + (pageSize - 1)) / pageSize
/-- one past the last frame wholly inside the region: round the end address down -/
def regionEndExcl (r : Region) : Nat := (r.addr + r.len) / pageSize

/-! ## Boot allocator (`bootmem_allocator.go`) -/

structure Boot where
  allocCount : Nat
  last : Nat
  kStart : Nat
  kEnd : Nat
deriving Repr, DecidableEq

/-- `BootMemAllocator.init` (kernelEnd > 0 assumed: `(ke+4095)/4096 ≥ 1`) -/
def bootInit (ks ke : Nat) : Boot :=
  { allocCount := 0, last := 0, kStart := ks / pageSize, kEnd := (ke + (pageSize - 1)) / pageSize - 1 }

/-- the cursor update of `AllocFrame` inside a candidate region `[s, e]` -/
def bootNext (b : Boot) (s e : Nat) : Nat :=
  if (b.last ≤ s ∧ b.kStart = s) ∨ (b.last ≤ e ∧ b.last + 1 = b.kStart) then
    (if b.kEnd + 1 < s then s else b.kEnd + 1)
  else if b.last < s ∨ b.allocCount = 0 then s
  else b.last + 1

/-- The visitor of `AllocFrame` folded over the memory map: returns the allocator with its cursor
as mutated on the way, and the frame found (if any). -/
def bootScan (b : Boot) : List Region → Boot × Option Nat
  | [] => (b, none)
  | r :: rs =>
    if r.typ ≠ memAvailable ∨ r.len < pageSize then bootScan b rs else
    let s := regionStart r
    let e := regionEndExcl r - 1
    if b.last ≥ e then bootScan b rs else
    let b' := { b with last := bootNext b s e }
    if b'.last > e then bootScan b' rs else (b', some b'.last)

def bootAlloc (m : List Region) (b : Boot) : Boot × Option Nat :=
  match bootScan b m with
  | (b', some f) => ({ b' with allocCount := b'.allocCount + 1 }, some f)
  | (b', none) => (b', none)

/-- `n` consecutive allocations; stops counting at the first failure but keeps calling, like a
caller that ignores errors would. Returns the frames obtained in order. -/
def bootAllocN (m : List Region) : Nat → Boot → Boot × List (Option Nat)
  | 0, b => (b, [])
  | n+1, b =>
    let (b1, r) := bootAlloc m b
    let (b2, rs) := bootAllocN m n b1
    (b2, r :: rs)

/-! ## Bitmap allocator (`bitmap_allocator.go`) -/

abbrev Word := BitVec 64

structure Pool where
  start : Nat
  end_ : Nat
  freeCount : Nat
  words : List Word
deriving Repr, DecidableEq

structure Bitmap where
  pools : List Pool
  total : Nat
  reserved : Nat
deriving Repr, DecidableEq

def u32 (n : Nat) : Nat := n % 4294967296
/-- `n - 1` in `uint32` (for `n < 2^32`); written without large-literal addition so that
definitional unfolding stays cheap -/
def dec32 (n : Nat) : Nat := if n = 0 then 4294967295 else n - 1
/-- `n + 1` in `uint32` (for `n < 2^32`) -/
def inc32 (n : Nat) : Nat := if n = 4294967295 then 0 else n + 1

/-- frames of an available region that contains at least one whole frame: `(first, last)` -/
def regionFrames (r : Region) : Option (Nat × Nat) :=
  if regionEndExcl r ≤ regionStart r then none else some (regionStart r, regionEndExcl r - 1)

def wordsFor (n : Nat) : Nat := (n + 63) / 64

def mkPool (s e : Nat) : Pool :=
  { start := s, end_ := e, freeCount := u32 (e - s + 1), words := List.replicate (wordsFor (e - s + 1)) 0 }

/-- both passes of `setupPoolBitmaps` over the map: the pools in map order -/
def poolsOf : List Region → List Pool
  | [] => []
  | r :: rs =>
    if r.typ ≠ memAvailable then poolsOf rs else
    match regionFrames r with
    | none => poolsOf rs
    | some (s, e) => mkPool s e :: poolsOf rs

def totalOf (ps : List Pool) : Nat := ps.foldl (fun t p => u32 (t + u32 (p.end_ - p.start + 1))) 0

/-- bytes reserved for the allocator's own state, page rounded -/
def requiredBytes (ps : List Pool) : Nat :=
  let bitmapBytes := (ps.map fun p => wordsFor (p.end_ - p.start + 1) * 8).sum
  (ps.length * sizeofPool + bitmapBytes + (pageSize - 1)) / pageSize * pageSize

inductive Outcome where
  | ok | oom | reserveErr | mapErr | panic
deriving Repr, DecidableEq

/-- `poolForFrame` -/
def poolForFrame (ps : List Pool) (f : Nat) : Option Nat :=
  ps.findIdx? fun p => decide (p.start ≤ f ∧ f ≤ p.end_)

def bitMask (rel : Nat) : Word := (1 : Word) <<< (63 - rel % 64)

/-- set the bit `off` (scan order) of word `blk`: `freeBitmap[blk] |= mask; freeCount--` -/
def Pool.take (p : Pool) (blk off : Nat) : Pool :=
  { p with freeCount := dec32 p.freeCount, words := p.words.set blk (p.words.getD blk 0 ||| bitMask off) }

/-- clear the bit of relative frame `rel`: `freeBitmap[block] &^= mask; freeCount++` -/
def Pool.give (p : Pool) (rel : Nat) : Pool :=
  { p with freeCount := inc32 p.freeCount,
           words := p.words.set (rel / 64) (p.words.getD (rel / 64) 0 &&& ~~~(bitMask rel)) }

inductive Mark where | free | reserved
deriving DecidableEq

/-- `markFrame(poolIndex, frame, flag)`; `none` = Go would panic (index out of range) -/
def markFrame (bm : Bitmap) (pi : Option Nat) (f : Nat) (flag : Mark) : Option Bitmap :=
  match pi with
  | none => some bm
  | some i =>
    match bm.pools[i]? with
    | none => none
    | some p =>
      if f > p.end_ then some bm else
      if f < p.start then none else
      let rel := f - p.start
      match p.words[rel / 64]? with
      | none => none
      | some _ =>
        match flag with
        | .free => some { bm with pools := bm.pools.set i (p.give rel), reserved := dec32 bm.reserved }
        | .reserved => some { bm with pools := bm.pools.set i (p.take (rel / 64) rel), reserved := inc32 bm.reserved }

/-- `reserveKernelFrames`: frames `kStart … kEnd`, all against the pool of `kStart` -/
def reserveKernel (bm : Bitmap) (b : Boot) : Option Bitmap :=
  let pi := poolForFrame bm.pools b.kStart
  (List.range (b.kEnd + 1 - b.kStart)).foldlM (fun bm i => markFrame bm pi (b.kStart + i) .reserved) bm

/-- `reserveEarlyAllocatorFrames`: reset the boot allocator and replay its allocations -/
def reserveEarly (m : List Region) (bm : Bitmap) (b : Boot) : Option (Bitmap × Boot) :=
  let b0 := { b with allocCount := 0, last := 0 }
  (List.range b.allocCount).foldlM (fun (st : Bitmap × Boot) _ =>
    let (b', r) := bootAlloc m st.2
    let f := r.getD invalidFrame
    (markFrame st.1 (poolForFrame st.1.pools f) f .reserved).map (·, b')) (bm, b0)

/-- the metadata pages of `setupPoolBitmaps` come from the boot allocator, one `mapFn` call each -/
def metaPages (m : List Region) (mapFailAt : Option Nat) : Nat → Nat → Boot → Boot × Outcome
  | 0, _, b => (b, .ok)
  | n+1, idx, b =>
    match bootAlloc m b with
    | (b', none) => (b', .oom)
    | (b', some _) => if mapFailAt = some idx then (b', .mapErr) else metaPages m mapFailAt n (idx+1) b'

structure InitResult where
  outcome : Outcome
  boot : Boot
  bm : Bitmap

/-- `BitmapAllocator.init` after `BootMemAllocator.init`; `reserveOk`/`mapFailAt` script the two
vmm seams (`reserveRegionFn`, `mapFn`). -/
def bitmapInit (m : List Region) (b : Boot) (reserveOk : Bool) (mapFailAt : Option Nat) : InitResult :=
  let ps := poolsOf m
  let bm0 : Bitmap := { pools := ps, total := totalOf ps, reserved := 0 }
  let empty : Bitmap := { pools := [], total := totalOf ps, reserved := 0 }
  if !reserveOk then { outcome := .reserveErr, boot := b, bm := empty } else
  let pages := requiredBytes ps / pageSize
  match metaPages m mapFailAt pages 0 b with
  | (b1, .ok) =>
    match reserveKernel bm0 b1 with
    | none => { outcome := .panic, boot := b1, bm := bm0 }
    | some bm1 =>
      match reserveEarly m bm1 b1 with
      | none => { outcome := .panic, boot := b1, bm := bm1 }
      | some (bm2, b2) => { outcome := .ok, boot := b2, bm := bm2 }
  | (b1, o) => { outcome := o, boot := b1, bm := empty }

/-- first clear bit of a word in the code's scan order (bit 63 first); offset 0…63 -/
def findClear (w : Word) : Option Nat :=
  (List.range 64).find? fun i => !w.getLsbD (63 - i)

/-- scan the bitmap words of one pool: `(blockIndex, blockOffset)` of the first clear bit -/
def scanWords : List Word → Nat → Option (Nat × Nat)
  | [], _ => none
  | w :: ws, i =>
    if w = BitVec.allOnes 64 then scanWords ws (i + 1) else
    match findClear w with
    | some off => some (i, off)
    | none => scanWords ws (i + 1)

/-- pool scan of `AllocFrame` from pool index `i` -/
def allocScan : List Pool → Nat → Option (Nat × Nat × Nat)
  | [], _ => none
  | p :: ps, i =>
    if p.freeCount = 0 then allocScan ps (i + 1) else
    match scanWords p.words 0 with
    | some (blk, off) => some (i, blk, off)
    | none => allocScan ps (i + 1)

/-- `AllocFrame` -/
def alloc (bm : Bitmap) : Bitmap × Option Nat :=
  match allocScan bm.pools 0 with
  | none => (bm, none)
  | some (i, blk, off) =>
    match bm.pools[i]? with
    | none => (bm, none)
    | some p =>
      ({ bm with pools := bm.pools.set i (p.take blk off), reserved := inc32 bm.reserved },
        some (p.start + (blk * 64 + off)))

inductive FreeRes where | ok | notManaged | doubleFree | panic
deriving Repr, DecidableEq

/-- `FreeFrame` -/
def free (bm : Bitmap) (f : Nat) : Bitmap × FreeRes :=
  match poolForFrame bm.pools f with
  | none => (bm, .notManaged)
  | some i =>
    match bm.pools[i]? with
    | none => (bm, .panic)
    | some p =>
      let rel := f - p.start
      match p.words[rel / 64]? with
      | none => (bm, .panic)
      | some w =>
        if w &&& bitMask rel = 0 then (bm, .doubleFree) else
        ({ bm with pools := bm.pools.set i (p.give rel), reserved := dec32 bm.reserved }, .ok)

end Firefly.Pmm
