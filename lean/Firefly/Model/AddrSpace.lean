import Firefly.Gen.C07
/-!
Model of `kernel/mm/vmm/addr_space.go` (EarlyReserveRegion) and of the page loops of
`MapRegion` / `IdentityMapRegion` in `kernel/mm/vmm/map.go`.  `uintptr` is `BitVec 64`,
all arithmetic wraps exactly as in Go.
-/
namespace Firefly.AddrSpace
open Firefly.Gen.C07

abbrev W := BitVec 64

def pageSizeW : W := BitVec.ofNat 64 pageSize
def tempMappingAddrW : W := BitVec.ofNat 64 tempMappingAddr

/-- `(size + (PageSize-1)) & ^(PageSize-1)` -/
def roundUp (size : W) : W := (size + (pageSizeW - 1)) &&& ~~~(pageSizeW - 1)

/-- the overflow guard added by the fix for D2: rounding `size` up would wrap -/
def roundWraps (size : W) : Bool := size > ~~~(pageSizeW - 1)

/-- `EarlyReserveRegion`: cursor, size ↦ (new cursor = address) or error (cursor unchanged). -/
def earlyReserve (cursor size : W) : Option W :=
  if roundWraps size then none else
  let s := roundUp size
  if s > cursor then none else some (cursor - s)

/-- `PageFromAddress` -/
def pageOf (addr : W) : W := (addr &&& ~~~(pageSizeW - 1)) >>> pageShift

/-- The page loop shared by `MapRegion`: `count` calls `(page+i, frame+i, flags)`; the call with
index `failAt` (if any) returns an error and stops the loop. Result: calls made, success. -/
def mapLoop (page frame : W) (flags : W) (failAt : Option Nat) : (count : Nat) → (idx : Nat) → List (W × W × W) × Bool
  | 0, _ => ([], true)
  | n+1, idx =>
    if failAt = some idx then ([(page, frame, flags)], false)
    else
      let (rest, ok) := mapLoop (page + 1) (frame + 1) flags failAt n (idx+1)
      ((page, frame, flags) :: rest, ok)

structure RegionResult where
  ok : Bool
  page : W
  cursor : W
  calls : List (W × W × W)

/-- `MapRegion` with `earlyReserveRegionFn = EarlyReserveRegion` and a scripted `mapFn`. -/
def mapRegion (cursor frame size flags : W) (failAt : Option Nat) : RegionResult :=
  if roundWraps size then { ok := false, page := 0, cursor := cursor, calls := [] } else
  let s := roundUp size
  match earlyReserve cursor s with
  | none => { ok := false, page := 0, cursor := cursor, calls := [] }
  | some start =>
    let count := (s >>> pageShift).toNat
    let (calls, ok) := mapLoop (pageOf start) frame flags failAt count 0
    { ok := ok, page := if ok then pageOf start else 0, cursor := start, calls := calls }

/-- `IdentityMapRegion`: loop `for cur := start; cur < start+count; cur++`. The wrap-around of
`start+count` is modelled: if it wraps below `start` the loop body never runs. -/
def identityMapRegion (startFrame size flags : W) (failAt : Option Nat) : RegionResult :=
  let count := roundUp size >>> pageShift
  let lim := startFrame + count
  let n := if startFrame < lim then (lim - startFrame).toNat else 0
  let (calls, ok) := mapLoop startFrame startFrame flags failAt n 0
  { ok := ok, page := if ok then startFrame else 0, cursor := 0, calls := calls }

/-! ## `kernel/goruntime/bootstrap.go`: the Go runtime's memory hooks as clients of the reservation -/

/-- page loop with one fixed frame (`sysMap` maps every page to the shared zero frame) -/
def mapLoopConst (page frame flags : W) (failAt : Option Nat) : (count : Nat) → (idx : Nat) → List (W × W × W) × Bool
  | 0, _ => ([], true)
  | n+1, idx =>
    if failAt = some idx then ([(page, frame, flags)], false)
    else
      let (rest, ok) := mapLoopConst (page + 1) frame flags failAt n (idx+1)
      ((page, frame, flags) :: rest, ok)

def cowFlags : W := BitVec.ofNat 64 (flagPresent + flagNoExecute + flagCopyOnWrite)
def rwFlags : W := BitVec.ofNat 64 (flagPresent + flagNoExecute + flagRW)

/-- `sysReserve`: `none` = the function panics (no space, or the size cannot be page-rounded) -/
def gortReserve (cursor size : W) : Option W :=
  if roundWraps size then none else earlyReserve cursor (roundUp size)

/-- `sysMap`: returns the region start (0 on failure) and the `mapFn` calls made -/
def gortMap (va size zeroFrame : W) (failAt : Option Nat) : W × List (W × W × W) :=
  if roundWraps size then (0, []) else
  let start := roundUp va
  let (calls, ok) := mapLoopConst (pageOf start) zeroFrame cowFlags failAt (roundUp size >>> pageShift).toNat 0
  (if ok then start else 0, calls)

/-- `sysAlloc` with a frame allocator handing out `firstFrame, firstFrame+1, …` that fails at call
`allocFailAt`: returns (pointer or 0, new cursor, memset calls, map calls) -/
def gortAllocLoop (page frame : W) (allocFailAt mapFailAt : Option Nat) :
    (count : Nat) → (idx : Nat) → List (W × W × W) × Nat × Bool
  | 0, _ => ([], 0, true)
  | n+1, idx =>
    if allocFailAt = some idx then ([], 0, false)
    else if mapFailAt = some idx then ([(page, frame, rwFlags)], 0, false)
    else
      let (rest, ms, ok) := gortAllocLoop (page + 1) (frame + 1) allocFailAt mapFailAt n (idx+1)
      ((page, frame, rwFlags) :: rest, ms + 1, ok)

def gortAlloc (cursor size firstFrame : W) (allocFailAt mapFailAt : Option Nat) :
    W × W × Nat × List (W × W × W) :=
  if roundWraps size then (0, cursor, 0, []) else
  match earlyReserve cursor (roundUp size) with
  | none => (0, cursor, 0, [])
  | some start =>
    let (calls, ms, ok) := gortAllocLoop (pageOf start) firstFrame allocFailAt mapFailAt
      (roundUp size >>> pageShift).toNat 0
    (if ok then start else 0, start, ms, calls)

end Firefly.AddrSpace
