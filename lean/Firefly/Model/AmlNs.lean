import Firefly.Model.AmlParser
import Firefly.Model.AmlProg
/-!
`modelNs`: encode a sequence of tables, run the parser model on them in order (default scopes,
handles 1, 2, …) and read the namespace off the resulting tree; `agrees`: does that namespace equal
the one the ACPI scoping rules assign to the program (`namespaceOf`)?  Core Lean only; small enough
to be evaluated by the kernel (`decide +kernel`) on the witness programs of `Props/C11.lean`.
-/
namespace Firefly.AmlNs
open Firefly.AmlProg Firefly.AmlParser Firefly.AmlLex Firefly.AmlTree
open Firefly.Gen.C12 (headerLen)

/-- header + payload exactly as `amlStream` (parser_fuzz.go): "DSDT", Length LE, Revision 2, zeros -/
def mkTable (payload : Array UInt8) : Array UInt8 :=
  let n := headerLen + payload.size
  let hdr : Array UInt8 := #[0x44, 0x53, 0x44, 0x54,
    UInt8.ofNat (n % 256), UInt8.ofNat (n / 256 % 256), UInt8.ofNat (n / 65536 % 256), UInt8.ofNat (n / 16777216 % 256), 2]
  (hdr ++ Array.replicate (headerLen - 9) (0 : UInt8)) ++ payload

def loadAll (t : ObjectTree) (tables : Array Bytes) (h : Nat) : List (List AmlProg.Obj) → Option Namespace
  | [] => some (nsOf t tables)
  | p :: rest =>
    let d := mkTable (encode p).toArray
    match parseAML d (fuelFor d t) h { tree := t } with
    | .ok (true, s) => loadAll s.tree (tables.push d) (h + 1) rest
    | _ => none

/-- the namespace the parser model builds for the program (`none`: a table was rejected, or the
model ended in `.panic`/`.outOfFuel`) -/
def modelNs (ps : List (List AmlProg.Obj)) : Option Namespace :=
  match defaultTree 0 with
  | .ok t => loadAll t #[] 1 ps
  | .error _ => none

def sameList [BEq α] (a b : List α) : Bool := a.length == b.length && a.all b.contains && b.all a.contains

/-- same named objects (path ↦ kind, arguments, values) and same call sites, in any order -/
def sameNs (a b : Namespace) : Bool := sameList a.objs b.objs && sameList a.calls b.calls

/-- the program is well-scoped, the model accepts it, and the namespace in the tree is the one the
ACPI scoping rules give -/
def agrees (ps : List (List AmlProg.Obj)) : Bool :=
  (namespaceOf ps).errors.isEmpty &&
  match modelNs ps with
  | some ns => sameNs ns (namespaceOf ps)
  | none => false

end Firefly.AmlNs
