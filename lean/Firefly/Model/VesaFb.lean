import Firefly.Model.FbMem
/-!
# Model of `VesaFbConsole` (kernel/device/video/console/vesa_fb.go) — C19

`fbOffset`, `packColor16/24`, `SetFont`, the effect of `SetLogo` on `offsetY`, `Fill`
(`fill8/16/24`), `Scroll`, `Write` (`write8/16/24`: the glyph-row walk with the running mask) on
a framebuffer of bytes with checked access.  Coordinates are `Nat < 2^32` with explicit
wrap-around; a Go index panic is `none`.

Modelling notes.  Pixel loops `for o := a; o < b; o += step` are recursions on the trip count
`⌈(b-a)/step⌉`; this is the loop as written whenever `b ≤ 2^32 - step` (the loop variable does
not wrap), which holds for every framebuffer smaller than 4 GiB - 8 bytes because the stores are
bounds-checked.  `SetLogo`'s drawing of the logo pixels and its palette remapping are not
modelled (the replay takes the palette from the trace and checks that the drawing stays inside
the logo rows).
-/
namespace Firefly.VesaFb
open Firefly.FbMem

structure Font where
  gw : Nat
  gh : Nat
  bpr : Nat
  data : Array UInt8

structure Cons where
  bpp : Nat
  bytesPerPixel : Nat
  width : Nat
  height : Nat
  pitch : Nat
  offsetY : Nat := 0
  font : Option Font := none
  cols : Nat := 0
  rows : Nat := 0
  palette : Array (UInt8 × UInt8 × UInt8) := #[]
  rPos : Nat := 0
  rSize : Nat := 0
  gPos : Nat := 0
  gSize : Nat := 0
  bPos : Nat := 0
  bSize : Nat := 0

/-- `uint32(bpp+1) >> 3` with `bpp : uint8` -/
def bytesPerPixelOf (bpp : Nat) : Nat := ((bpp + 1) % 256) >>> 3

/-- `NewVesaFbConsole` -/
def new (width height bpp pitch rPos rSize gPos gSize bPos bSize : Nat) : Cons :=
  { bpp := bpp, bytesPerPixel := bytesPerPixelOf bpp, width := width, height := height, pitch := pitch,
    rPos := rPos, rSize := rSize, gPos := gPos, gSize := gSize, bPos := bPos, bSize := bSize }

/-- `len(cons.fb)` as `DriverInit` sets it up -/
def fbLen (c : Cons) : Nat := mul32 c.height c.pitch

/-- `SetFont` -/
def setFont (c : Cons) (f : Font) : Cons :=
  { c with font := some f, cols := c.width / f.gw, rows := sub32 c.height c.offsetY / f.gh }

/-- `SetLogo`: the part that matters for text output -/
def setLogoHeight (c : Cons) (h : Nat) : Cons := { c with offsetY := h }

/-- `((y + offsetY) * pitch) + (x * bytesPerPixel)` -/
def fbOffset (c : Cons) (x y : Nat) : Nat :=
  add32 (mul32 (add32 y c.offsetY) c.pitch) (mul32 x c.bytesPerPixel)

/-- one colour component: `uintN(v >> (8 - size)) << pos`; `8 - size` is `uint8` arithmetic and
Go shifts by a count ≥ the operand width give 0 — exactly what `Nat` shifts followed by the
reduction give. -/
def component (v size pos modulus : Nat) : Nat :=
  ((v >>> ((8 + (256 - size % 256)) % 256)) <<< pos) % modulus

def packed (c : Cons) (rgb : UInt8 × UInt8 × UInt8) (modulus : Nat) : Nat :=
  component rgb.1.toNat c.rSize c.rPos modulus |||
  component rgb.2.1.toNat c.gSize c.gPos modulus |||
  component rgb.2.2.toNat c.bSize c.bPos modulus

/-- `packColor16`; `none` = palette index out of range -/
def packColor16 (c : Cons) (idx : Nat) : Option (List UInt8) :=
  match c.palette[idx]? with
  | none => none
  | some rgb =>
    let p := packed c rgb 65536
    some [UInt8.ofNat p, UInt8.ofNat (p >>> 8)]

/-- `packColor24` -/
def packColor24 (c : Cons) (idx : Nat) : Option (List UInt8) :=
  match c.palette[idx]? with
  | none => none
  | some rgb =>
    let p := packed c rgb 4294967296
    some [UInt8.ofNat p, UInt8.ofNat (p >>> 8), UInt8.ofNat (p >>> 16)]

/-- how the `switch cons.bpp` of `Fill`/`Write` dispatches: bytes stored per pixel, the pixel
stride used by the loop, and the packed colour -/
def pixelBytes (c : Cons) (idx : Nat) : Option (Option (List UInt8)) :=
  if c.bpp = 8 then some (some [UInt8.ofNat idx])
  else if c.bpp = 15 ∨ c.bpp = 16 then some (packColor16 c idx)
  else if c.bpp = 24 ∨ c.bpp = 32 then some (packColor24 c idx)
  else none

/-- the row loop shared by `fill8/16/24` -/
def fillRows (comp : List UInt8) (step pitch rowLen : Nat) :
    (fb : Array UInt8) → (rowOffset h : Nat) → Option (Array UInt8)
  | fb, _, 0 => some fb
  | fb, rowOffset, h+1 =>
    match pixRow comp step fb rowOffset ((add32 rowOffset rowLen - rowOffset + (step - 1)) / step) with
    | none => none
    | some fb' => fillRows comp step pitch rowLen fb' (add32 rowOffset pitch) h

def clampOrigin (x n : Nat) : Nat := if x = 0 then 1 else if x ≥ n then n else x
def clipExtent (w n x : Nat) : Nat :=
  if w > add32 (sub32 n x) 1 then add32 (sub32 n x) 1 else w

def fill (c : Cons) (fb : Array UInt8) (x y w h _fg bg : Nat) : Option (Array UInt8) :=
  match c.font with
  | none => some fb
  | some f =>
    if c.cols = 0 ∨ c.rows = 0 then some fb else   -- an empty grid has no cells to fill
    let x := clampOrigin x c.cols
    let y := clampOrigin y c.rows
    let w := clipExtent w c.cols x
    let h := clipExtent h c.rows y
    let pX := mul32 (sub32 x 1) f.gw
    let pY := mul32 (sub32 y 1) f.gh
    let pW := mul32 w f.gw
    let pH := mul32 h f.gh
    match pixelBytes c bg with
    | none => some fb                       -- no case of the switch matches
    | some none => none                     -- palette lookup panicked
    | some (some comp) =>
      if c.bpp = 8 then
        -- fill8: `for o := row; o < row+pW; o++`
        fillRows comp 1 c.pitch pW fb (fbOffset c pX pY) pH
      else
        -- fill16/24: `for o := row; o < row+pW*bytesPerPixel; o += bytesPerPixel`
        fillRows comp c.bytesPerPixel c.pitch (mul32 pW c.bytesPerPixel) fb (fbOffset c pX pY) pH

/-- the row loop of `Scroll` (after the padding repair): copy `rowBytes` bytes of each row -/
def scrollRowsUp (offset rowBytes pitch : Nat) : (fb : Array UInt8) → (rowOffset n : Nat) → Option (Array UInt8)
  | fb, _, 0 => some fb
  | fb, rowOffset, n+1 =>
    match copyAsc (fun i => add32 i offset) fb rowOffset (add32 rowOffset rowBytes - rowOffset) with
    | none => none
    | some fb' => scrollRowsUp offset rowBytes pitch fb' (add32 rowOffset pitch) n

def scrollRowsDown (offset rowBytes pitch : Nat) : (fb : Array UInt8) → (rowEnd n : Nat) → Option (Array UInt8)
  | fb, _, 0 => some fb
  | fb, rowEnd, n+1 =>
    let s := sub32 rowEnd pitch
    match copyAsc (fun i => sub32 i offset) fb s (add32 s rowBytes - s) with
    | none => none
    | some fb' => scrollRowsDown offset rowBytes pitch fb' s n

def scroll (c : Cons) (fb : Array UInt8) (dir lines : Nat) : Option (Array UInt8) :=
  match c.font with
  | none => some fb
  | some f =>
    if lines = 0 ∨ lines > c.rows then some fb else
    let offset := fbOffset c 0 (sub32 (mul32 lines f.gh) c.offsetY)
    let rowBytes := mul32 c.width c.bytesPerPixel
    if dir = 0 then
      let startOffset := fbOffset c 0 0
      let endOffset := fbOffset c 0 (sub32 (sub32 c.height (mul32 lines f.gh)) c.offsetY)
      scrollRowsUp offset rowBytes c.pitch fb startOffset ((endOffset - startOffset + (c.pitch - 1)) / c.pitch)
    else if dir = 1 then
      let startOffset := fbOffset c 0 (mul32 lines f.gh)
      -- `for rowEnd := len(fb); rowEnd > startOffset; rowEnd -= pitch`
      if c.pitch = 0 ∧ fb.size > startOffset then none   -- would never terminate
      else scrollRowsDown offset rowBytes c.pitch fb (fb.size % 4294967296) ((fb.size % 4294967296 - startOffset + (c.pitch - 1)) / c.pitch)
    else some fb

/-- the pixel loop of one glyph row in `write8/16/24`; returns the framebuffer and the font offset -/
def glyphRow (f : Font) (fgC bgC : List UInt8) (step : Nat) :
    (n : Nat) → (fb : Array UInt8) → (fbOff fontOff rowData mask : Nat) → Option (Array UInt8 × Nat)
  | 0, fb, _, fontOff, _, _ => some (fb, fontOff)
  | n+1, fb, fbOff, fontOff, rowData, mask =>
    -- `if mask == 0 { fontOffset++; fontRowData = Data[fontOffset]; mask = 1 << 7 }`
    let st : Option (Nat × Nat × Nat) :=
      if mask = 0 then (f.data[add32 fontOff 1]?).map (fun d => (add32 fontOff 1, d.toNat, 128))
      else some (fontOff, rowData, mask)
    match st with
    | none => none
    | some (fo, rd, m) =>
      match putPixel fb fbOff (if rd &&& m ≠ 0 then fgC else bgC) with
      | none => none
      | some fb' => glyphRow f fgC bgC step n fb' (add32 fbOff step) fo rd (m >>> 1)

/-- the row loop of `write8/16/24` -/
def glyphRows (f : Font) (fgC bgC : List UInt8) (step pitch : Nat) :
    (n : Nat) → (fb : Array UInt8) → (fbRowOff fontOff : Nat) → Option (Array UInt8)
  | 0, fb, _, _ => some fb
  | n+1, fb, fbRowOff, fontOff =>
    match f.data[fontOff]? with
    | none => none
    | some d =>
      match glyphRow f fgC bgC step f.gw fb fbRowOff fontOff d.toNat 128 with
      | none => none
      | some (fb', fo) => glyphRows f fgC bgC step pitch n fb' (add32 fbRowOff pitch) (add32 fo 1)

def write (c : Cons) (fb : Array UInt8) (ch fg bg x y : Nat) : Option (Array UInt8) :=
  match c.font with
  | none => some fb
  | some f =>
    if x < 1 ∨ x > c.cols ∨ y < 1 ∨ y > c.rows then some fb else
    let pX := mul32 (sub32 x 1) f.gw
    let pY := mul32 (sub32 y 1) f.gh
    match pixelBytes c fg, pixelBytes c bg with
    | some (some fgC), some (some bgC) =>
      let fontOffset := mul32 (mul32 ch f.bpr) f.gh
      let step := if c.bpp = 8 then 1 else c.bytesPerPixel
      glyphRows f fgC bgC step c.pitch f.gh fb (fbOffset c pX pY) fontOffset
    | none, _ => some fb
    | _, _ => none

end Firefly.VesaFb
