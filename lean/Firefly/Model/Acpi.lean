import Firefly.Gen.C14
/-!
Executable model of the ACPI table discovery in `kernel/device/acpi/acpi.go`
(`validTable`, `locateRSDT`, `mapACPITable`, `acpiDriver.enumerateTables`), mirroring the code
as it is. Core Lean only.

Firmware (physical) memory is a total function from addresses to bytes; `identityMapFn` is the
identity (its contract; C07), so a table is read at its physical address. Every constant
(window, stride, signature, struct sizes and field offsets, number of bytes summed for a root
pointer) comes from `Firefly.Gen.C14`, which the harness prints from the compiled Go code.
-/
namespace Firefly.Acpi
open Firefly.Gen.C14

/-- firmware memory: one byte per physical address -/
abbrev Mem := Nat → UInt8

/-- `*(*uint8)(unsafe.Pointer(a))`; `uintptr` arithmetic wraps at 2^64 -/
def rd (m : Mem) (a : Nat) : Nat := (m (a % 2^64)).toNat

/-- the loop of `validTable`: `n` more bytes from `a` on, `acc` is the `uint8` accumulator -/
def sumLoop (m : Mem) (a : Nat) : Nat → Nat → Nat
  | 0, acc => acc
  | n + 1, acc => sumLoop m (a + 1) n ((acc + rd m a) % 256)

/-- `validTable(tablePtr, tableLength)` -/
def validTable (m : Mem) (a n : Nat) : Bool := sumLoop m a n 0 == 0

/-- little-endian load of `k` bytes (`*(*uint32)`, `*(*uint64)`, struct fields) -/
def rdLE (m : Mem) (a : Nat) : Nat → Nat
  | 0 => 0
  | k + 1 => rd m a + 256 * rdLE m (a + 1) k

/-! ### locateRSDT -/

/-- the signature loop: all bytes of `sig` found at `a` -/
def matchSig (m : Mem) (a : Nat) : List Nat → Bool
  | [] => true
  | b :: bs => rd m a == b && matchSig m (a + 1) bs

/-- result of `locateRSDT` / `probeForACPI` -/
inductive Probe where
  | missing
  | found (root : Nat) (useXSDT : Bool)
  deriving DecidableEq, Repr

/-- body of the scan loop for the block at `a`: `none` = `continue` -/
def checkSlot (m : Mem) (a : Nat) : Option (Nat × Bool) :=
  if !matchSig m a rsdpSignature then none
  else if rd m (a + rsdpRevisionOff) == acpiRev1 then
    if validTable m a rsdpChecksumLen then some (rdLE m (a + rsdpRSDTAddrOff) rsdpRSDTAddrSize, false) else none
  else
    if validTable m a extRsdpChecksumLen then some (rdLE m (a + rsdpXSDTAddrOff) rsdpXSDTAddrSize, true) else none

/-- `n` iterations of `for curPtr := a; …; curPtr += rsdpAlignment` -/
def scan (m : Mem) (a : Nat) : Nat → Probe
  | 0 => .missing
  | n + 1 =>
    match checkSlot m a with
    | some (root, x) => .found root x
    | none => scan m (a + rsdpAlignment) n

/-- number of blocks visited: the `curPtr` with `low + k*align < hi` -/
def nslots (low hi : Nat) : Nat := (hi - low + rsdpAlignment - 1) / rsdpAlignment

def locateRSDT (m : Mem) (low hi : Nat) : Probe := scan m low (nslots low hi)

/-- pages identity-mapped (and unmapped again) around the scan -/
def probePages (low hi : Nat) : List Nat :=
  List.range' (low >>> pageShift) ((hi >>> pageShift) + 1 - (low >>> pageShift))

/-! ### mapACPITable / enumerateTables -/

def sigAt (m : Mem) (a : Nat) : Nat := rdLE m a hdrSignatureSize
def lenAt (m : Mem) (a : Nat) : Nat := rdLE m (a + hdrLengthOff) hdrLengthSize

/-- does the table at `a` pass `validTable(header, header.Length)`? -/
def tableOK (m : Mem) (a : Nat) : Bool := validTable m a (lenAt m a)

/-- state of the enumeration: `tableMap` (signature ↦ header address; at most one entry per
signature, newest first), tables skipped with a log line (in order), `identityMapFn` calls
(frame, size) in order -/
structure St where
  tables : List (Nat × Nat) := []
  skipped : List Nat := []
  maps : List (Nat × Nat) := []
  deriving Repr

/-- `drv.tableMap[sig] = header` -/
def insert (t : List (Nat × Nat)) (s a : Nat) : List (Nat × Nat) :=
  (s, a) :: t.filter (fun p => p.1 != s)

/-- `mapACPITable(a)`: map the header, then `Length` bytes, then checksum. Returns whether the
checksum is good. -/
def mapACPITable (m : Mem) (a : Nat) (st : St) : Bool × St :=
  (tableOK m a,
   { st with maps := st.maps ++ [(a >>> pageShift, sizeofSDTHeader), (a >>> pageShift, lenAt m a)] })

/-- the DSDT address the code takes from a FADT at `f` -/
def dsdtPtr (m : Mem) (rootRev f : Nat) : Nat :=
  if rootRev ≥ acpiRev2Plus then rdLE m (f + fadtExtDsdtOff) fadtExtDsdtSize
  else rdLE m (f + fadtDsdtOff) fadtDsdtSize

/-- one iteration of `for _, addr := range sdtAddresses` -/
def stepEntry (m : Mem) (rootRev : Nat) (st : St) (a : Nat) : St :=
  let (ok, st) := mapACPITable m a st
  if !ok then { st with skipped := st.skipped ++ [a] }
  else
    let st := { st with tables := insert st.tables (sigAt m a) a }
    if sigAt m a == fadtSignature then
      let d := dsdtPtr m rootRev a
      let (ok, st) := mapACPITable m d st
      if !ok then { st with skipped := st.skipped ++ [d] }
      else { st with tables := insert st.tables (sigAt m d) d }
    else st

/-- `payloadLen = header.Length - uint32(sizeofHeader)` (uint32 arithmetic) -/
def payloadLen (m : Mem) (root : Nat) : Nat := (lenAt m root + 2^32 - sizeofSDTHeader) % 2^32

/-- `sdtAddresses`: 8-byte entries for the XSDT, 4-byte entries for the RSDT -/
def entries (m : Mem) (root : Nat) (useXSDT : Bool) : List Nat :=
  if useXSDT then
    (List.range (payloadLen m root >>> 3)).map fun i => rdLE m (root + sizeofSDTHeader + 8 * i) 8
  else
    (List.range (payloadLen m root >>> 2)).map fun i => rdLE m (root + sizeofSDTHeader + 4 * i) 4

inductive InitRes where
  | ok
  | checksumMismatch
  deriving DecidableEq, Repr

/-- `acpiDriver.enumerateTables` with `drv.rsdtAddr = root`, `drv.useXSDT = useXSDT` -/
def enumerateTables (m : Mem) (root : Nat) (useXSDT : Bool) : InitRes × St :=
  let (ok, st) := mapACPITable m root {}
  if !ok then (.checksumMismatch, st)
  else
    let rootRev := rd m (root + hdrRevisionOff)
    (.ok, (entries m root useXSDT).foldl (stepEntry m rootRev) st)

end Firefly.Acpi
