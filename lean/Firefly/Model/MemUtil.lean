/-!
Model of `kernel/mem_util.go` (`Memset`, `Memcopy`) over byte-addressed memory, as written.

* memory is `Nat → Byte` (absolute addresses); the slice Go overlays at `addr` with `Len = size` is the
  bytes `addr … addr+size-1` (domain: `addr + size` does not wrap);
* Go's builtin `copy(dst, src)` is the primitive: it copies `min(len dst, len src)` bytes and behaves
  as if the source were read before anything is written (`goCopy`);
* `Memset`: `size == 0` → nothing; `target[0] = value`; `for index := 1; index < size; index *= 2
  { copy(target[index:], target[:index]) }` with `index` a 64-bit `uintptr`: for `size > 2^63` the
  index reaches `2^63`, wraps to 0 and the real loop never terminates — the explicit result `.hang`
  (the loop is run with fuel 66: 64 doublings reach 0 or `≥ size`).
-/
namespace Firefly.MemUtil

abbrev Byte := BitVec 8
abbrev Bytes := Nat → Byte

inductive Res where
  | done (mem : Bytes) (iters : Nat)
  | hang

/-- `copy(dst[0:dlen], src[0:slen])` for slices at absolute addresses `dst`, `src` -/
def goCopy (mem : Bytes) (dst dlen src slen : Nat) : Bytes :=
  fun i => if dst ≤ i ∧ i < dst + min dlen slen then mem (src + (i - dst)) else mem i

def memsetLoop (addr : Nat) (size : BitVec 64) : Nat → BitVec 64 → Bytes → Nat → Res
  | 0, _, _, _ => .hang
  | fuel + 1, index, mem, it =>
    if index < size then
      memsetLoop addr size fuel (index * 2)
        (goCopy mem (addr + index.toNat) (size.toNat - index.toNat) addr index.toNat) (it + 1)
    else .done mem it

/-- `Memset(addr, value, size)` -/
def memset (mem : Bytes) (addr : Nat) (value : Byte) (size : BitVec 64) : Res :=
  if size = 0 then .done mem 0
  else memsetLoop addr size 66 1 (fun i => if i = addr then value else mem i) 0

/-- `Memcopy(src, dst, size)` -/
def memcopy (mem : Bytes) (src dst : Nat) (size : BitVec 64) : Bytes :=
  if size = 0 then mem else goCopy mem dst size.toNat src size.toNat

end Firefly.MemUtil
