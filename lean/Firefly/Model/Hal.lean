import Firefly.Gen.C16
import Firefly.Model.Ring
import Firefly.Model.Prefix
/-!
# Model of `kernel/hal/hal.go` + the sink logic of `kernel/kfmt/fmt.go` (C16)

Drivers are records; the mock state of the one TTY stored in `devices.activeTTY` is part of the
state (`AttachTo`, `SetState` and `Write` are only ever called on that device).  `sort.Sort`'s result
enters as a parameter (`detectHardware sort regs`).  The three `kfmt.Fprintf` calls of `probe` are
modelled by their specified output, written one byte per `Write` as the formatter does.
Ghost fields (`logged`, `linkedAt`) record the history for the theorems; no operation reads them.
Core Lean only.
-/
namespace Firefly.Hal
open Firefly.Ring Firefly.Prefix

inductive Kind | console | tty | other
  deriving DecidableEq, Repr, Inhabited

structure Driver where
  id : Nat
  /-- `DriverInfo.Order` (an int8 in Go) -/
  order : Int
  kind : Kind
  /-- `Probe()` returns a driver (true) or nil -/
  probeOk : Bool
  name : List UInt8
  major : Nat
  minor : Nat
  patch : Nat
  /-- the writes `DriverInit` performs on the writer it is given -/
  initLog : List (List UInt8)
  /-- `DriverInit`'s error message, if it fails -/
  initErr : Option (List UInt8)
  deriving Inhabited

def stateInactive : Nat := Firefly.Gen.C16.ttyStateInactive
def stateActive : Nat := Firefly.Gen.C16.ttyStateActive

structure Hal where
  /-- `devices.activeConsole` (driver id) -/
  activeConsole : Option Nat := none
  /-- `devices.activeTTY` -/
  activeTTY : Option Nat := none
  /-- `devices.activeDrivers` -/
  activeDrivers : List Nat := []
  /-- `kfmt.earlyPrintBuffer` -/
  ring : Ring
  /-- `kfmt.outputSink`: none = nil (early buffer), some id = that TTY -/
  sink : Option Nat := none
  /-- state of the TTY object held in `devices.activeTTY` -/
  ttyAttached : Option Nat := none
  ttyState : Nat := stateInactive
  ttyAttachCalls : Nat := 0
  ttySetStateCalls : Nat := 0
  ttyRecv : List UInt8 := []
  /-- `Probe()` / `DriverInit()` calls seen by the drivers, in order -/
  probes : List Nat := []
  inits : List Nat := []
  /-- ghost: every byte ever sent to the current log target, in order -/
  logged : List UInt8 := []
  /-- ghost: `logged.length` at the moment `SetOutputSink` ran -/
  linkedAt : Option Nat := none

def ascii (s : String) : List UInt8 := s.toList.map fun c => UInt8.ofNat c.toNat
/-- `%d` of a uint16 -/
def dec (n : Nat) : List UInt8 := (Nat.toDigits 10 n).map fun c => UInt8.ofNat c.toNat

/-- `kfmt.Fprintf(&strBuf, "[hal] %s(%d.%d.%d): ", name, major, minor, patch)` -/
def halPrefix (d : Driver) : List UInt8 :=
  ascii "[hal] " ++ d.name ++ ascii "(" ++ dec d.major ++ ascii "." ++ dec d.minor ++ ascii "." ++ dec d.patch ++ ascii "): "

/-- `"init failed: %s\n"` / `"initialized\n"` -/
def tailOf (d : Driver) : List UInt8 :=
  match d.initErr with
  | some msg => ascii "init failed: " ++ msg ++ [10]
  | none => ascii "initialized" ++ [10]

/-- a write to the writer `tgt` obtained earlier from `GetOutputSink()`:
none = `&earlyPrintBuffer`, some _ = the active TTY -/
def Hal.writeTo (st : Hal) (tgt : Option Nat) (bs : List UInt8) : Hal :=
  match tgt with
  | none => { st with ring := st.ring.write bs, logged := st.logged ++ bs }
  | some _ => { st with ttyRecv := st.ttyRecv ++ bs, logged := st.logged ++ bs }

/-- `kfmt.Printf` / `GetOutputSink().Write` -/
def Hal.log (st : Hal) (bs : List UInt8) : Hal := st.writeTo st.sink bs

/-- `kfmt.SetOutputSink(tty)`: `outputSink = w; io.Copy(w, &earlyPrintBuffer)` -/
def Hal.setOutputSink (st : Hal) (t : Nat) : Hal :=
  let d := st.ring.drainAll
  { st with sink := some t, ring := d.2, ttyRecv := st.ttyRecv ++ d.1, linkedAt := some st.logged.length }

/-- `linkTTYToConsole` (callers guarantee both are set) -/
def Hal.link (st : Hal) : Hal :=
  match st.activeTTY with
  | none => st
  | some t =>
    let st := { st with ttyAttached := st.activeConsole, ttyAttachCalls := st.ttyAttachCalls + 1 }
    let st := st.setOutputSink t
    { st with ttyState := stateActive, ttySetStateCalls := st.ttySetStateCalls + 1 }

/-- `onDriverInit` with `onConsoleInit` inlined (consoles without FontSetter/LogoSetter) -/
def Hal.onDriverInit (st : Hal) (d : Driver) : Hal :=
  match d.kind with
  | .console =>
    if st.activeConsole.isSome then st
    else
      let st := { st with activeConsole := some d.id }
      if st.activeTTY.isSome then st.link else st
  | .tty =>
    if st.activeTTY.isSome then st
    else
      let st := { st with activeTTY := some d.id }
      if st.activeConsole.isSome then st.link else st
  | .other => st

/-- `PrefixWriter.Write(p)` with `Sink = tgt` -/
def pwWrite (tgt : Option Nat) (s : Hal × PW) (p : List UInt8) : Hal × PW :=
  let r := s.2.write p
  (r.chunks.foldl (fun st c => st.writeTo tgt c) s.1, r.pw)

def pwWrites (tgt : Option Nat) (s : Hal × PW) (ps : List (List UInt8)) : Hal × PW :=
  ps.foldl (pwWrite tgt) s

/-- the formatter hands literal text and string arguments to the writer one byte at a time -/
def bytewise (bs : List UInt8) : List (List UInt8) := bs.map fun b => [b]

/-- one iteration of the `for _, info := range driverInfoList` loop of `probe` -/
def probeOne (s : Hal × PW) (d : Driver) : Hal × PW :=
  let st := { s.1 with probes := s.1.probes ++ [d.id] }
  if d.probeOk = false then (st, s.2)
  else
    let pw := { s.2 with pfx := halPrefix d }
    let tgt := st.sink
    let st := { st with inits := st.inits ++ [d.id] }
    let s := pwWrites tgt (st, pw) d.initLog
    let s := pwWrites tgt s (bytewise (tailOf d))
    match d.initErr with
    | some _ => s
    | none =>
      let st := s.1.onDriverInit d
      ({ st with activeDrivers := st.activeDrivers ++ [d.id] }, s.2)

/-- `probe(driverInfoList)` -/
def probe (st : Hal) (ds : List Driver) : Hal := (ds.foldl probeOne (st, ({} : PW))).1

/-- `DetectHardware`: `sort.Sort(drivers); probe(drivers)` -/
def detectHardware (sort : List Driver → List Driver) (st : Hal) (regs : List Driver) : Hal :=
  probe st (sort regs)

end Firefly.Hal
