module verif/exprgen

go 1.21
