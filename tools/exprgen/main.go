// exprgen: translates selected pure integer expressions of the Go source under -repo into Lean 4
// BitVec definitions (one `def` per anchor). It interprets nothing; it only prints what the source
// says. Anchors are (file, func, assigned variable | "returnN" | "ifN" | "arg:<callee>:<k>", occurrence). Free identifiers of the
// expression become parameters of the definition, named constants given in the spec become literals.
//
//	exprgen -repo /repo -spec anchors.json -ns Firefly.Gen.C07Expr > C07Expr.lean
//
// Exit status 0 even when anchors are lost; lost anchors are listed in a trailing comment
// `-- LOST: name` and in `def lostAnchors : List String`, so the caller can distinguish a refactored
// site (anchor lost) from a changed expression (definition changed).
package main

import (
	"encoding/json"
	"flag"
	"fmt"
	"go/ast"
	"go/parser"
	"go/token"
	"os"
	"path/filepath"
	"sort"
	"strconv"
	"strings"
)

type anchor struct {
	Name   string            `json:"name"`
	File   string            `json:"file"`
	Func   string            `json:"func"` // "Name" or "Recv.Name"
	Var    string            `json:"var"`  // assigned variable / field (printed form) or "return"
	Occ    int               `json:"occ"`
	Width  int               `json:"width"`  // bit width of the expression (default 64)
	Consts map[string]interface{} `json:"consts"` // printed identifier -> value (number) or Lean term (string)
	Widths map[string]int    `json:"widths"` // conversion name -> width (e.g. uint32: 32)
	Signed bool              `json:"signed"` // ordered comparisons are signed (Go int/int64 operands)
	// Params, when present, is the list of free identifiers (sanitized) the tie lemmas expect. An
	// identifier outside it that is a local of the function with exactly one definition (a hoisted
	// sub-expression: `scrollPixels := lines * glyphHeight`) is replaced by its defining expression,
	// so that naming a sub-expression in the source does not change the regenerated term.
	Params []string `json:"params"`
}

type tr struct {
	a        anchor
	params   []string
	seen     map[string]bool
	err      error
	fd       *ast.FuncDecl
	inlining map[string]bool
}

// singleDef returns the defining expression of local `name` in the function when it is defined exactly
// once (`name := e` or `var name = e`) and never assigned again; nil otherwise.
func (t *tr) singleDef(name string) ast.Expr {
	if t.fd == nil {
		return nil
	}
	var def ast.Expr
	defs, writes := 0, 0
	ast.Inspect(t.fd, func(nd ast.Node) bool {
		switch s := nd.(type) {
		case *ast.AssignStmt:
			for i, lhs := range s.Lhs {
				if id, ok := lhs.(*ast.Ident); ok && id.Name == name {
					if s.Tok == token.DEFINE && len(s.Lhs) == len(s.Rhs) {
						defs++
						def = s.Rhs[i]
					} else {
						writes++
					}
				}
			}
		case *ast.ValueSpec:
			for i, nm := range s.Names {
				if nm.Name == name {
					if i < len(s.Values) {
						defs++
						def = s.Values[i]
					} else {
						writes++
					}
				}
			}
		case *ast.IncDecStmt:
			if id, ok := s.X.(*ast.Ident); ok && id.Name == name {
				writes++
			}
		case *ast.UnaryExpr:
			if id, ok := s.X.(*ast.Ident); ok && s.Op == token.AND && id.Name == name {
				writes++
			}
		case *ast.RangeStmt:
			for _, e := range []ast.Expr{s.Key, s.Value} {
				if id, ok := e.(*ast.Ident); ok && id.Name == name {
					writes++
				}
			}
		}
		return true
	})
	if defs == 1 && writes == 0 {
		return def
	}
	return nil
}

func (t *tr) expected(p string) bool {
	for _, q := range t.a.Params {
		if q == p {
			return true
		}
	}
	return false
}

func exprString(e ast.Expr) string {
	switch x := e.(type) {
	case *ast.Ident:
		return x.Name
	case *ast.SelectorExpr:
		return exprString(x.X) + "." + x.Sel.Name
	case *ast.IndexExpr:
		return exprString(x.X) + "[" + exprString(x.Index) + "]"
	case *ast.ParenExpr:
		return exprString(x.X)
	case *ast.StarExpr:
		return "*" + exprString(x.X)
	case *ast.BasicLit:
		return x.Value
	}
	return fmt.Sprintf("<%T>", e)
}

func sanitize(s string) string {
	r := strings.NewReplacer(".", "_", "[", "_at_", "]", "", "*", "deref_")
	s = r.Replace(s)
	if s == "end" || s == "at" || s == "from" || s == "fun" || s == "open" {
		s += "'"
	}
	return s
}

func (t *tr) param(name string) string {
	p := sanitize(name)
	if !t.seen[p] {
		t.seen[p] = true
		t.params = append(t.params, p)
	}
	return p
}

var convWidth = map[string]int{"uintptr": 64, "uint64": 64, "int": 64, "int64": 64, "uint": 64,
	"uint32": 32, "int32": 32, "uint16": 16, "uint8": 8, "byte": 8,
	"mm.Frame": 64, "mm.Page": 64, "Frame": 64, "Page": 64, "pageTableEntry": 64, "PageTableEntryFlag": 64}

func (t *tr) expr(e ast.Expr) string {
	switch x := e.(type) {
	case *ast.ParenExpr:
		return "(" + t.expr(x.X) + ")"
	case *ast.BasicLit:
		if x.Kind == token.INT {
			var v uint64
			fmt.Sscan(x.Value, &v)
			if strings.HasPrefix(strings.ToLower(x.Value), "0x") {
				fmt.Sscanf(x.Value[2:], "%x", &v)
			}
			return fmt.Sprintf("%d#64", v)
		}
		if x.Kind == token.CHAR {
			// a rune literal such as '0' is its code point
			if r, _, _, err := strconv.UnquoteChar(strings.Trim(x.Value, "'"), '\''); err == nil {
				return fmt.Sprintf("%d#64", uint64(r))
			}
		}
	case *ast.Ident, *ast.SelectorExpr, *ast.IndexExpr, *ast.StarExpr:
		s := exprString(e)
		if v, ok := t.a.Consts[s]; ok {
			switch c := v.(type) {
			case float64:
				return fmt.Sprintf("%d#64", uint64(c))
			case string:
				return "(BitVec.ofNat 64 " + c + ")"
			}
		}
		if id, ok := e.(*ast.Ident); ok && t.a.Params != nil && !t.expected(sanitize(s)) && !t.inlining[id.Name] {
			if def := t.singleDef(id.Name); def != nil {
				if t.inlining == nil {
					t.inlining = map[string]bool{}
				}
				t.inlining[id.Name] = true
				saveErr, saveParams, saveSeen := t.err, append([]string(nil), t.params...), map[string]bool{}
				for k, v := range t.seen {
					saveSeen[k] = v
				}
				r := "(" + t.expr(def) + ")"
				delete(t.inlining, id.Name)
				if t.err == saveErr {
					return r
				}
				// the definition is not a translatable pure expression: keep the identifier as a parameter
				t.err, t.params, t.seen = saveErr, saveParams, saveSeen
			}
		}
		return t.param(s)
	case *ast.UnaryExpr:
		switch x.Op {
		case token.XOR:
			return "(~~~" + t.expr(x.X) + ")"
		case token.SUB:
			return "(-" + t.expr(x.X) + ")"
		}
	case *ast.BinaryExpr:
		l, r := t.expr(x.X), t.expr(x.Y)
		switch x.Op {
		case token.ADD:
			return "(" + l + " + " + r + ")"
		case token.SUB:
			return "(" + l + " - " + r + ")"
		case token.MUL:
			return "(" + l + " * " + r + ")"
		case token.QUO:
			return "(" + l + " / " + r + ")"
		case token.REM:
			return "(" + l + " % " + r + ")"
		case token.AND:
			return "(" + l + " &&& " + r + ")"
		case token.OR:
			return "(" + l + " ||| " + r + ")"
		case token.XOR:
			return "(" + l + " ^^^ " + r + ")"
		case token.AND_NOT:
			return "(" + l + " &&& ~~~" + r + ")"
		case token.SHL:
			return "(" + l + " <<< " + r + ")"
		case token.SHR:
			return "(" + l + " >>> " + r + ")"
		}
	case *ast.CallExpr:
		if len(x.Args) == 1 {
			name := exprString(x.Fun)
			w, ok := convWidth[name]
			if ow, ok2 := t.a.Widths[name]; ok2 {
				w, ok = ow, true
			}
			if ok {
				if w >= 64 {
					return t.expr(x.Args[0])
				}
				return fmt.Sprintf("(BitVec.setWidth 64 (BitVec.setWidth %d %s))", w, t.expr(x.Args[0]))
			}
		}
	}
	if t.err == nil {
		t.err = fmt.Errorf("unsupported expression %s (%T)", exprString(e), e)
	}
	return "0#64"
}

// cond translates a boolean condition (comparisons of integer expressions, &&, ||, !) to a Lean Bool
func (t *tr) cond(e ast.Expr) string {
	switch x := e.(type) {
	case *ast.ParenExpr:
		return "(" + t.cond(x.X) + ")"
	case *ast.UnaryExpr:
		if x.Op == token.NOT {
			return "(!" + t.cond(x.X) + ")"
		}
	case *ast.BinaryExpr:
		switch x.Op {
		case token.LAND:
			return "(" + t.cond(x.X) + " && " + t.cond(x.Y) + ")"
		case token.LOR:
			return "(" + t.cond(x.X) + " || " + t.cond(x.Y) + ")"
		case token.LSS, token.GTR, token.LEQ, token.GEQ, token.EQL, token.NEQ:
			if t.a.Signed && x.Op != token.EQL && x.Op != token.NEQ {
				// comparison of Go signed integers (anchor option "signed": true)
				l, r := t.expr(x.X), t.expr(x.Y)
				switch x.Op {
				case token.LSS:
					return "(BitVec.slt " + l + " " + r + ")"
				case token.GTR:
					return "(BitVec.slt " + r + " " + l + ")"
				case token.LEQ:
					return "(BitVec.sle " + l + " " + r + ")"
				default:
					return "(BitVec.sle " + r + " " + l + ")"
				}
			}
			op := map[token.Token]string{token.LSS: "<", token.GTR: ">", token.LEQ: "≤", token.GEQ: "≥", token.EQL: "=", token.NEQ: "≠"}[x.Op]
			return "(decide (" + t.expr(x.X) + " " + op + " " + t.expr(x.Y) + "))"
		}
	}
	if t.err == nil {
		t.err = fmt.Errorf("unsupported condition %s (%T)", exprString(e), e)
	}
	return "false"
}

func funcName(fd *ast.FuncDecl) string {
	if fd.Recv != nil && len(fd.Recv.List) == 1 {
		rt := fd.Recv.List[0].Type
		if s, ok := rt.(*ast.StarExpr); ok {
			rt = s.X
		}
		return exprString(rt) + "." + fd.Name.Name
	}
	return fd.Name.Name
}

// find the occ-th expression assigned to variable v (or returned) inside fd, in source order
// findAll lists, in source order, every expression the anchor description (v) can refer to; the
// index of an `ifN` anchor is folded into the list position.
func findAll(fd *ast.FuncDecl, v string) []ast.Expr {
	var all []ast.Expr
	ast.Inspect(fd, func(nd ast.Node) bool {
		switch s := nd.(type) {
		case *ast.AssignStmt:
			for i, lhs := range s.Lhs {
				if exprString(lhs) == v && i < len(s.Rhs) && len(s.Lhs) == len(s.Rhs) {
					{
						found := s.Rhs[i]
						if s.Tok != token.ASSIGN && s.Tok != token.DEFINE {
							// x op= y  ==>  x op y
							op := map[token.Token]token.Token{token.ADD_ASSIGN: token.ADD, token.SUB_ASSIGN: token.SUB,
								token.MUL_ASSIGN: token.MUL, token.QUO_ASSIGN: token.QUO, token.REM_ASSIGN: token.REM,
								token.AND_ASSIGN: token.AND, token.OR_ASSIGN: token.OR, token.AND_NOT_ASSIGN: token.AND_NOT,
								token.SHL_ASSIGN: token.SHL, token.SHR_ASSIGN: token.SHR, token.XOR_ASSIGN: token.XOR}[s.Tok]
							found = &ast.BinaryExpr{X: lhs, Op: op, Y: s.Rhs[i]}
						}
						all = append(all, found)
					}
				}
			}
		case *ast.ValueSpec:
			for i, nm := range s.Names {
				if nm.Name == v && i < len(s.Values) {
					all = append(all, s.Values[i])
				}
			}
		case *ast.IfStmt:
			if strings.HasPrefix(v, "if") && !strings.HasPrefix(v, "ifx") {
				idx := -1
				fmt.Sscanf(v, "if%d", &idx)
				if idx >= 0 {
					all = append(all, s.Cond)
				}
			}
		case *ast.CallExpr:
			// "arg:<callee>:<k>": the k-th argument of the occ-th call of <callee> (e.g. arg:fmtRepeat:2)
			if strings.HasPrefix(v, "arg:") {
				parts := strings.Split(v, ":")
				if len(parts) == 3 && exprString(s.Fun) == parts[1] {
					k := -1
					fmt.Sscanf(parts[2], "%d", &k)
					if k >= 0 && k < len(s.Args) {
						all = append(all, s.Args[k])
					}
				}
			}
		case *ast.ReturnStmt:
			if strings.HasPrefix(v, "return") && len(s.Results) > 0 {
				idx := 0
				fmt.Sscanf(v, "return%d", &idx)
				if idx < len(s.Results) {
					all = append(all, s.Results[idx])
				}
			}
		}
		return true
	})
	return all
}

// anchorIndex: position of the anchor in findAll's list (`ifN` carries it in its name)
func anchorIndex(v string, occ int) int {
	if strings.HasPrefix(v, "if") && !strings.HasPrefix(v, "ifx") {
		idx := -1
		fmt.Sscanf(v, "if%d", &idx)
		return idx
	}
	return occ
}

// sameParams: does the candidate translate, and to a term over exactly the expected identifiers?
func sameParams(a anchor, fd *ast.FuncDecl, e ast.Expr) bool {
	if e == nil {
		return false
	}
	t := &tr{a: a, seen: map[string]bool{}, fd: fd}
	if strings.HasPrefix(a.Var, "if") {
		t.cond(e)
	} else {
		t.expr(e)
	}
	if t.err != nil || len(t.params) != len(a.Params) {
		return false
	}
	for _, p := range t.params {
		if !t.expected(p) {
			return false
		}
	}
	return true
}

func main() {
	repo := flag.String("repo", "/repo", "repository root")
	spec := flag.String("spec", "", "anchor list (JSON)")
	ns := flag.String("ns", "Firefly.Gen.Expr", "Lean namespace")
	flag.Parse()
	data, err := os.ReadFile(*spec)
	if err != nil {
		fmt.Fprintln(os.Stderr, err)
		os.Exit(2)
	}
	var anchors []anchor
	if err := json.Unmarshal(data, &anchors); err != nil {
		fmt.Fprintln(os.Stderr, err)
		os.Exit(2)
	}
	fset := token.NewFileSet()
	files := map[string]*ast.File{}
	var lost []string
	fmt.Printf("-- GENERATED by tools/exprgen from the Go source (spec %s); do not edit.\nnamespace %s\n", filepath.Base(*spec), *ns)
	for _, a := range anchors {
		f, ok := files[a.File]
		if !ok {
			f, err = parser.ParseFile(fset, filepath.Join(*repo, a.File), nil, 0)
			if err != nil {
				f = nil
			}
			files[a.File] = f
		}
		var e ast.Expr
		var theFd *ast.FuncDecl
		if f != nil {
			for _, d := range f.Decls {
				if fd, ok := d.(*ast.FuncDecl); ok && funcName(fd) == a.Func && fd.Body != nil {
					theFd = fd
					cands := findAll(fd, a.Var)
					want := anchorIndex(a.Var, a.Occ)
					if want >= 0 && want < len(cands) {
						e = cands[want]
					}
					// The position of an `if` / assignment among its peers moves when statements are added,
					// removed or restructured around it. When the expected free identifiers are known and the
					// candidate at the recorded position does not have exactly those, take the first candidate
					// that does (a changed expression with the same identifiers still lands on the tie lemma).
					if a.Params != nil && !sameParams(a, fd, e) {
						for _, c := range cands {
							if sameParams(a, fd, c) {
								e = c
								break
							}
						}
					}
				}
			}
		}
		if e == nil {
			lost = append(lost, a.Name)
			continue
		}
		t := &tr{a: a, seen: map[string]bool{}, fd: theFd}
		isCond := strings.HasPrefix(a.Var, "if")
		var body string
		if isCond {
			body = t.cond(e)
		} else {
			body = t.expr(e)
		}
		if t.err != nil {
			lost = append(lost, a.Name)
			fmt.Printf("-- %s: %v\n", a.Name, t.err)
			continue
		}
		if a.Params != nil {
			// The tie lemma is about a term over the recorded identifiers. When the code was restructured so
			// that the anchored expression is now written over OTHER identifiers (a table lookup instead of
			// arithmetic, a value threaded through a new local that cannot be inlined), the anchor no longer
			// denotes the quantity the lemma talks about: it is lost (a note and an escalated correspondence
			// search), not a changed expression.
			same := len(t.params) == len(a.Params)
			for _, p := range t.params {
				if !t.expected(p) {
					same = false
				}
			}
			if !same {
				lost = append(lost, a.Name)
				fmt.Printf("-- %s: written over other identifiers now (%s; the tie lemma expects %s)\n", a.Name, strings.Join(t.params, " "), strings.Join(a.Params, " "))
				continue
			}
		}
		ps := ""
		if len(t.params) > 0 {
			ps = " (" + strings.Join(t.params, " ") + " : BitVec 64)"
		}
		pos := fset.Position(e.Pos())
		ty := "BitVec 64"
		if isCond {
			ty = "Bool"
		}
		fmt.Printf("/-- %s:%d  %s: `%s` -/\ndef %s%s : %s := %s\n", a.File, pos.Line, a.Func, a.Var, a.Name, ps, ty, body)
	}
	sort.Strings(lost)
	q := make([]string, len(lost))
	for i, l := range lost {
		q[i] = fmt.Sprintf("%q", l)
		fmt.Printf("-- LOST: %s\n", l)
	}
	fmt.Printf("def lostAnchors : List String := [%s]\nend %s\n", strings.Join(q, ", "), *ns)
}
