module verif/srccopy

go 1.21
