//go:build verif

package pmm

// C08 — the real clients of sync.Spinlock under concurrency (extra run of ./check C08).
//
// The Lean side proves that the regenerated lock skeletons of AllocFrame/FreeFrame are disciplined
// (Props/C08.clients_disciplined).  This harness is the search for a failing input when that
// breaks: N goroutines call AllocFrame / FreeFrame on one small BitmapAllocator — including frees of
// frames the allocator does not manage and double frees, the paths that return early — with a CAS
// ownership table.  A frame handed to two goroutines at once is a `duplicate`; frames or counters
// that do not add up after every goroutine has returned what it held are `lost`.
//
//   CL <workers> <ops each> <pool frames> <seed> | <duplicates> <lost> <stuck>

import (
	"os"
	"path/filepath"
	"strings"
	"runtime"
	gosync "sync"
	"sync/atomic"
	"testing"
	"time"

	"github.com/ProjectSerenity/firefly/kernel/mm"
	ksync "github.com/ProjectSerenity/firefly/kernel/sync"
)

const c08Base = 4096 // first frame of the pool

func c08NewAlloc(frames int) *BitmapAllocator {
	words := (frames + 63) / 64
	bm := make([]uint64, words)
	for i := frames; i < words*64; i++ { // bits past the end of the pool are permanently reserved
		bm[i>>6] |= 1 << (63 - uint(i&63))
	}
	return &BitmapAllocator{
		totalPages: uint32(frames),
		pools: []framePool{{
			startFrame: mm.Frame(c08Base), endFrame: mm.Frame(c08Base + frames - 1),
			freeCount: uint32(frames), freeBitmap: bm,
		}},
	}
}

func c08ClientRound(seed uint64, workers, ops, frames int, tick *int64, watchdog time.Duration) (dups, lost int64, stuck int) {
	alloc := c08NewAlloc(frames)
	owner := make([]int32, frames)
	var wg gosync.WaitGroup
	var crashed int64
	start := make(chan struct{})
	wg.Add(workers)
	for w := 0; w < workers; w++ {
		go func(id int32, r *vrng) {
			defer wg.Done()
			defer func() {
				if recover() != nil {
					atomic.AddInt64(&crashed, 1)
				}
			}()
			var held []int
			<-start
			release := func(k int) {
				f := held[k]
				held[k] = held[len(held)-1]
				held = held[:len(held)-1]
				if !atomic.CompareAndSwapInt32(&owner[f], id, 0) {
					atomic.AddInt64(&dups, 1)
				}
				if err := alloc.FreeFrame(mm.Frame(c08Base + f)); err != nil {
					atomic.AddInt64(&lost, 1) // a frame we hold must be free-able
				}
			}
			for it := 0; it < ops; it++ {
				switch c := r.intn(100); {
				case c < 45 || len(held) == 0 && c < 70:
					f, err := alloc.AllocFrame()
					if err == nil {
						i := int(f) - c08Base
						if i < 0 || i >= frames || !atomic.CompareAndSwapInt32(&owner[i], 0, id) {
							atomic.AddInt64(&dups, 1) // handed out while somebody else holds it
						} else {
							held = append(held, i)
						}
					}
				case c < 70:
					release(r.intn(len(held)))
				case c < 90:
					// a frame outside every pool: the early-return path of FreeFrame
					if alloc.FreeFrame(mm.Frame(c08Base+frames+r.intn(64))) == nil {
						atomic.AddInt64(&lost, 1)
					}
				default:
					// a frame below the pool: the other unmanaged side
					if alloc.FreeFrame(mm.Frame(r.intn(c08Base))) == nil {
						atomic.AddInt64(&lost, 1)
					}
				}
				atomic.AddInt64(tick, 1)
				if r.chance(5) {
					runtime.Gosched()
				}
			}
			for len(held) > 0 {
				release(len(held) - 1)
			}
		}(int32(w+1), &vrng{s: seed + uint64(w)*0x9e3779b97f4a7c15})
	}
	done := make(chan struct{})
	go func() { wg.Wait(); close(done) }()
	close(start)
	last, lastChange := atomic.LoadInt64(tick), time.Now()
wait:
	for {
		select {
		case <-done:
			break wait
		case <-time.After(500 * time.Millisecond):
			if now := atomic.LoadInt64(tick); now != last {
				last, lastChange = now, time.Now()
			} else if time.Since(lastChange) > watchdog ||
				(time.Since(lastChange) > 5*time.Second && atomic.LoadInt64(&dups)+atomic.LoadInt64(&lost) > 0) {
				// (a hang after a failure has already been observed is not waited out in full)
				return atomic.LoadInt64(&dups), atomic.LoadInt64(&lost), 1
			}
		}
	}
	if atomic.LoadInt64(&crashed) != 0 {
		stuck = 2
	}
	// quiescence: everything was returned, so the pool must be exactly as it started
	p := &alloc.pools[0]
	if alloc.reservedPages != 0 || p.freeCount != uint32(frames) {
		lost++
	}
	for i := 0; i < frames; i++ {
		if p.freeBitmap[i>>6]&(1<<(63-uint(i&63))) != 0 || atomic.LoadInt32(&owner[i]) != 0 {
			lost++
		}
	}
	return atomic.LoadInt64(&dups), lost, stuck
}

func TestVerifC08Client(t *testing.T) {
	out := verifOpen("VERIF_OUT")
	defer out.close()
	ksync.VerifC08SetYield(runtime.Gosched)
	defer ksync.VerifC08SetYield(nil)
	defer runtime.GOMAXPROCS(runtime.GOMAXPROCS(0))
	rng := &vrng{s: verifSeed() ^ 0xc08c11e47}
	ops := verifN(20000)
	reps := 1
	if os.Getenv("VERIF_TIER") == "thorough" {
		reps = 4
	}
	if strings.Contains(os.Getenv("VERIF_OUT"), "-search") {
		// the runner's targeted search after a broken proof / tie: a bounded look for a failing input
		reps, ops = 1, ops/2
	}
	watchdog := time.Duration(verifEnvInt("VERIF_WATCHDOG_S", 120)) * time.Second
	if _, err := os.Stat(filepath.Join(os.Getenv("VERIF_BUILD"), "c08-suspect")); err == nil && os.Getenv("VERIF_BUILD") != "" && watchdog > 15*time.Second {
		// the lock harness that ran before this one already saw a failure / a broken tie: the verdict
		// is "violation" whatever happens here, so a hang is not waited out in full
		watchdog = 15 * time.Second
	}
	var tick int64
	round := 0
	for rep := 0; rep < reps; rep++ {
		for _, procs := range []int{runtime.NumCPU(), 2} {
			for _, workers := range []int{2, 3, 4, 8, 16} {
				for _, frames := range []int{1, 3, 64, 130} {
					if procs == 2 && (workers == 3 || frames == 3) {
						continue
					}
					runtime.GOMAXPROCS(procs)
					seed := rng.next()
					out.printf("case client-%d\n", round)
					round++
					d, l, s := c08ClientRound(seed, workers, ops, frames, &tick, watchdog)
					pr := procs
					if procs == runtime.NumCPU() {
						pr = 0
					}
					out.printf("CL %d %d %d %d %d | %d %d %d\n", workers, ops, frames, pr, seed&0xffffffff, d, l, s)
					out.w.Flush()
					if s == 1 || d != 0 || l != 0 {
						return // stuck inside the lock, or the failing input is found: stop here
					}
				}
			}
		}
	}
}
