//go:build verif

package pmm

// C10, client side: "the kernel reports exactly what the block encodes" must keep holding after
// the real clients of multiboot.VisitMemRegions have run. The visitor receives a pointer INTO the
// information block, so a client that assigns through it silently changes what every later
// enumeration reports. This harness builds memory maps with unaligned / sub-page / reserved /
// undefined-type regions behind a PROT_NONE page, enumerates them (C10 line protocol: the same
// `#S/#I/#B`, `M`, `D` lines as harness/multiboot/c10_test.go, so drv_C10 compares every
// enumeration with the encoded block), then drives the boot allocator (init + k x AllocFrame up to
// and past exhaustion) and the real pmm.Init path, enumerating again after each step (`#X <step>`
// marks a client step for the oracle's feature tag).
//
// Helpers from pmm_test.go (pmmHarness: install/binit/pinit with scripted reserveRegionFn/mapFn)
// are reused with their own output discarded; the block is built and placed here.

import (
	"bufio"
	"fmt"
	"io"
	"os"
	"runtime/debug"
	"strings"
	"sync/atomic"
	"syscall"
	"testing"
	"time"
	"unsafe"

	"github.com/ProjectSerenity/firefly/kernel/mm"
	"github.com/ProjectSerenity/firefly/kernel/multiboot"
)

const (
	c10pPage  = 4096
	c10pPages = 4
	c10pHint  = 0x210000000000
)

type c10pArena struct {
	addr uintptr
	mem  []byte
	end  uintptr // first byte of the guard page behind the block area
}

func c10pNewArena() *c10pArena {
	total := uintptr((1 + c10pPages + 1) * c10pPage)
	prot := uintptr(syscall.PROT_READ | syscall.PROT_WRITE)
	addr, _, errno := syscall.Syscall6(syscall.SYS_MMAP, c10pHint, total, prot,
		uintptr(syscall.MAP_PRIVATE|syscall.MAP_ANON|0x100000), ^uintptr(0), 0)
	if errno != 0 || addr != c10pHint {
		if errno == 0 {
			syscall.Syscall(syscall.SYS_MUNMAP, addr, total, 0)
		}
		addr, _, errno = syscall.Syscall6(syscall.SYS_MMAP, 0, total, prot,
			uintptr(syscall.MAP_PRIVATE|syscall.MAP_ANON), ^uintptr(0), 0)
		if errno != 0 {
			panic("c10pmm: mmap failed")
		}
	}
	a := &c10pArena{addr: addr}
	a.mem = (*[1 << 30]byte)(unsafe.Pointer(addr))[:total:total]
	for _, page := range []int{0, 1 + c10pPages} {
		if _, _, e := syscall.Syscall(syscall.SYS_MPROTECT, addr+uintptr(page*c10pPage), c10pPage, syscall.PROT_NONE); e != 0 {
			panic("c10pmm: mprotect failed")
		}
	}
	a.end = addr + uintptr((1+c10pPages)*c10pPage)
	return a
}

func c10pLe(b []byte, v uint64, n int) []byte {
	for i := 0; i < n; i++ {
		b = append(b, byte(v>>(8*uint(i))))
	}
	return b
}

func c10pHex(b []byte) string {
	if len(b) == 0 {
		return "-"
	}
	const d = "0123456789abcdef"
	var sb strings.Builder
	for _, c := range b {
		sb.WriteByte(d[c>>4])
		sb.WriteByte(d[c&15])
	}
	return sb.String()
}

type c10pCase struct {
	esz    uint32
	regs   []pmmRegion
	before []byte // payload of an unknown tag (type 2) in front of the memory map; nil = none
	ks, ke uint64
}

// same layout as c10Encode (harness/multiboot) and MBSpec.encode (Lean): 0xEE entry filler,
// 0xA5 padding, end tag {0,8}
func (c *c10pCase) encode() []byte {
	var b []byte
	tag := func(ty uint32, body []byte) {
		b = c10pLe(b, uint64(ty), 4)
		b = c10pLe(b, uint64(8+len(body)), 4)
		b = append(b, body...)
		for len(b)%8 != 0 {
			b = append(b, 0xA5)
		}
	}
	if c.before != nil {
		tag(2, c.before)
	}
	var m []byte
	m = c10pLe(m, uint64(c.esz), 4)
	m = c10pLe(m, 0, 4)
	for _, r := range c.regs {
		m = c10pLe(m, r.addr, 8)
		m = c10pLe(m, r.length, 8)
		m = c10pLe(m, r.typ, 4)
		for i := 20; i < int(c.esz); i++ {
			m = append(m, 0xEE)
		}
	}
	tag(6, m)
	b = c10pLe(b, 0, 4)
	b = c10pLe(b, 8, 4)
	hdr := c10pLe(nil, uint64(len(b)+8), 4)
	hdr = c10pLe(hdr, 0, 4)
	return append(hdr, b...)
}

type c10pRun struct {
	out   *verifWriter
	arena *c10pArena
	h     *pmmHarness
	base  uintptr
	tick  int64        // bumped on every step (watchdog)
	where atomic.Value // case id / step in flight
}

// watchdog: a client that spins for ever (e.g. the allocators on a degenerate kernel range) must
// not hang the check; it is a harness failure with the place named, not a C10 observation.
func (c *c10pRun) watchdog(limit time.Duration) {
	go func() {
		last, since := int64(-1), time.Now()
		for {
			time.Sleep(200 * time.Millisecond)
			if t := atomic.LoadInt64(&c.tick); t != last {
				last, since = t, time.Now()
			} else if time.Since(since) > limit {
				w, _ := c.where.Load().(string)
				fmt.Fprintf(os.Stderr, "c10pmm: no progress for %v at %s\n", limit, w)
				os.Exit(3)
			}
		}
	}()
}

func (c *c10pRun) enumerate(stop int) {
	type ent struct {
		a, l uint64
		t    uint32
	}
	var seen []ent
	status, calls := "done", 0
	func() {
		defer func() {
			if r := recover(); r != nil {
				status = "panic"
				if _, ok := r.(interface{ Addr() uintptr }); ok {
					status = "fault"
				}
			}
		}()
		multiboot.VisitMemRegions(func(e *multiboot.MemoryMapEntry) bool {
			calls++
			seen = append(seen, ent{e.PhysAddress, e.Length, uint32(e.Type)})
			if calls == stop {
				status = "stop"
				return false
			}
			return true
		})
	}()
	c.out.printf("M %d | %s %d", stop, status, len(seen))
	for _, e := range seen {
		c.out.printf(" %d %d %d", e.a, e.l, e.t)
	}
	c.out.printf("\n")
}

func (c *c10pRun) dump() {
	c.out.printf("D | %s\n", c10pHex(c.arena.mem[c.base-c.arena.addr:c.arena.end-c.arena.addr]))
}

func (c *c10pRun) step(name string) {
	atomic.AddInt64(&c.tick, 1)
	c.out.printf("#X %s\n", name)
}

func (c *c10pRun) ballocOnce() (ok bool) {
	defer func() {
		if r := recover(); r != nil {
			ok = false
		}
	}()
	_, err := bootMemAllocator.AllocFrame()
	return err == nil
}

func (c *c10pRun) run(id string, cs *c10pCase, r *vrng) {
	block := cs.encode()
	c.base = c.arena.end - uintptr(len(block))
	copy(c.arena.mem[c.base-c.arena.addr:], block)
	c.out.printf("case p%s\n", id)
	c.where.Store("case p" + id)
	atomic.AddInt64(&c.tick, 1)
	// the string table is not used by this run; it is declared behind the guard page
	c.out.printf("#S %d %d 00\n", uint64(c.base), uint64(c.arena.end)+c10pPage)
	if cs.before != nil {
		c.out.printf("#I other 2 %s\n", c10pHex(cs.before))
	}
	c.out.printf("#I mmap %d 0 %d", cs.esz, len(cs.regs))
	for _, g := range cs.regs {
		c.out.printf(" %d %d %d", g.addr, g.length, g.typ)
	}
	c.out.printf("\n#B wf %s\n", c10pHex(block))
	multiboot.SetInfoPtr(c.base)

	c.enumerate(0) // fresh block
	if len(cs.regs) > 1 {
		c.enumerate(1 + r.intn(len(cs.regs)))
	}

	// the early allocator: init, then AllocFrame up to and past exhaustion
	c.step("boot-init")
	c.h.binit(cs.ks, cs.ke)
	c.enumerate(0)
	allocs, failed := 0, 0
	for allocs < 600 && failed < 2 {
		ok := c.ballocOnce()
		allocs++
		if !ok {
			failed++
		}
		if allocs <= 3 || allocs%32 == 0 || !ok {
			c.step("boot-alloc")
			c.enumerate(0)
		}
	}
	c.step("boot-alloc")
	c.enumerate(0)
	c.dump()

	// the real package entry point: boot allocator + bitmap allocator set-up + registration
	if r.chance(70) {
		c.step("pmm-init")
		ok := c.h.pinit(cs.ks, cs.ke)
		c.enumerate(0)
		if ok {
			for k := r.intn(6); k > 0; k-- {
				c.h.alloc()
			}
			c.step("pmm-alloc")
			c.enumerate(0)
		}
		c.dump()
	}
}

func c10pGen(r *vrng) *c10pCase {
	cs := &c10pCase{esz: uint32(r.pick(24, 24, 24, 32, 40))}
	if r.chance(40) {
		cs.before = make([]byte, r.intn(12))
		for i := range cs.before {
			cs.before[i] = byte(r.next())
		}
	}
	cur := uint64(r.intn(3)) * 0x1000
	if r.chance(50) {
		cur += uint64(r.intn(4096))
	}
	for n := 1 + r.intn(6); n > 0; n-- {
		length := uint64(r.intn(40)) * 0x1000
		switch r.intn(4) {
		case 0:
			length += uint64(r.intn(4096)) // unaligned end
		case 1:
			length = uint64(r.intn(4096)) // sub-page
		}
		typ := r.pick(1, 1, 1, 1, 2, 3, 4, 5, 0, 7, 0xFFFFFFFF)
		cs.regs = append(cs.regs, pmmRegion{cur, length, typ})
		cur += length
		switch r.intn(3) {
		case 0:
			cur += uint64(r.intn(3)) * 0x1000
		case 1:
			cur += uint64(r.intn(8192)) // unaligned start of the next region
		}
	}
	if r.chance(60) {
		g := cs.regs[r.intn(len(cs.regs))]
		cs.ks = g.addr + uint64(r.intn(2))*0x1000
		cs.ke = cs.ks + uint64(1+r.intn(4))*0x1000 - uint64(r.intn(2))
	} else {
		cs.ks, cs.ke = 0x4000000, 0x4004000
	}
	return cs
}

func TestVerifC10Pmm(t *testing.T) {
	out := verifOpen("VERIF_OUT")
	defer out.close()
	old := debug.SetPanicOnFault(true)
	defer debug.SetPanicOnFault(old)
	rng := &vrng{s: verifSeed() ^ 0xC10E}
	n := verifN(40)
	h := &pmmHarness{out: &verifWriter{w: bufio.NewWriter(io.Discard)}} // its own protocol lines are not C10's
	h.install()
	c := &c10pRun{out: out, arena: c10pNewArena(), h: h}
	c.watchdog(60 * time.Second)
	br := &vrng{s: 0xC10E}

	// deterministic boundary list
	classic := []pmmRegion{{0, 0x9fc00, 1}, {0x9fc00, 0x400, 2}, {0xf0000, 0x10000, 2}, {0x100000, 0x40000, 1},
		{0x140000, 0x20000, 2}, {0xfffc0000, 0x40000, 2}}
	for i, cs := range []*c10pCase{
		{esz: 24, regs: classic, ks: 0x100000, ke: 0x104000},
		{esz: 24, regs: []pmmRegion{{0, 0x9fc00, 1}, {0x100800, 0x20400, 1}}, ks: 0x4000000, ke: 0x4001000},
		{esz: 32, regs: []pmmRegion{{0x100800, 0x20400, 1}, {0x200010, 0x800, 1}, {0x300000, 0x3000, 7}}, ks: 0x101000, ke: 0x102fff},
		{esz: 24, regs: []pmmRegion{{0x5010, 0x800, 1}, {0x8000, 0x2001, 1}, {0xb000, 0x1000, 5}, {0xc000, 0x1fff, 0}, {0xe800, 0x2000, 0xFFFFFFFF}},
			before: []byte("GRUB\x00"), ks: 0x8000, ke: 0x9000},
		{esz: 40, regs: []pmmRegion{{0xfff, 0x2002, 1}}, ks: 0x4000000, ke: 0x4001000},
		{esz: 24, regs: []pmmRegion{{0x1000, 0x1000, 2}, {0x2000, 0x1000, 3}}, ks: 0x1000, ke: 0x2000},
	} {
		c.run(fmt.Sprintf("b%d", i), cs, br)
	}
	for i := 0; i < n; i++ {
		r := rng.fork()
		c.run(fmt.Sprint(i), c10pGen(r), r)
	}
	_ = mm.PageSize
}
