//go:build verif

package pmm

import (
	"testing"
	"unsafe"

	"github.com/ProjectSerenity/firefly/kernel"
	"github.com/ProjectSerenity/firefly/kernel/mm"
	"github.com/ProjectSerenity/firefly/kernel/mm/vmm"
)

// TestVerifC07Pmm: the bitmap allocator as a client of the virtual-region reservation (C07's last
// sentence): the pages it maps for its own state must be exactly the pages of the region it
// reserved — ceil(requested/PageSize) consecutive pages starting at the reserved address.
func TestVerifC07Pmm(t *testing.T) {
	h := &pmmHarness{out: verifOpen("VERIF_OUT")}
	defer h.out.close()
	defer func() {
		mapFn = vmm.Map
		reserveRegionFn = vmm.EarlyReserveRegion
		bootMemAllocator = BootMemAllocator{}
		bitmapAllocator = BitmapAllocator{}
	}()
	var requested, base uint64
	var pages []uint64
	var arena []byte
	reserveRegionFn = func(size uintptr) (uintptr, *kernel.Error) {
		requested = uint64(size)
		arena = make([]byte, int(size)+3*int(mm.PageSize))
		p := (uintptr(unsafe.Pointer(&arena[0])) + mm.PageSize - 1) &^ (mm.PageSize - 1)
		base = uint64(p)
		return p, nil
	}
	mapFn = func(p mm.Page, _ mm.Frame, _ vmm.PageTableEntryFlag) *kernel.Error {
		pages = append(pages, uint64(p))
		return nil
	}
	sizeofPool := uint64(unsafe.Sizeof(framePool{}))
	run := func(id string, regs []pmmRegion) {
		h.out.printf("case %s\n", id)
		h.setMap(regs)
		bootMemAllocator = BootMemAllocator{}
		bitmapAllocator = BitmapAllocator{}
		ks := regs[len(regs)-1].addr
		bootMemAllocator.init(uintptr(ks), uintptr(ks+1))
		requested, base, pages = 0, 0, pages[:0]
		code := 0
		func() {
			defer func() {
				if r := recover(); r != nil {
					code = 9
				}
			}()
			if err := bitmapAllocator.init(); err != nil {
				code = 1
			}
		}()
		first, contig := int64(0), 1
		if len(pages) > 0 {
			first = int64(pages[0]) - int64(base>>mm.PageShift)
			for i, p := range pages {
				if p != pages[0]+uint64(i) {
					contig = 0
				}
			}
		}
		if code != 0 {
			// init failed (e.g. the early allocator ran out of frames part-way): nothing to judge
			h.out.printf("# init failed code=%d after %d pages\n", code, len(pages))
			return
		}
		h.out.printf("P %d | %d %d %d %d\n", requested, code, len(pages), first, contig)
	}
	// state size = pools*sizeof(framePool) + 8 bytes per 64 frames: hit exact page multiples
	for _, pools := range []uint64{1, 2, 3} {
		for _, target := range []uint64{4096, 8192} {
			words := (target - pools*sizeofPool) / 8
			for _, dw := range []int64{-1, 0, 1} {
				w := int64(words) + dw
				var regs []pmmRegion
				addr := uint64(0x100000)
				for i := uint64(0); i < pools-1; i++ {
					regs = append(regs, pmmRegion{addr, 64 * 4096, 1})
					addr += 65 * 4096
				}
				rest := uint64(w) - (pools - 1)
				for _, frames := range []uint64{rest*64 - 63, rest * 64} {
					run("b", append(append([]pmmRegion{}, regs...), pmmRegion{addr, frames * 4096, 1}))
				}
			}
		}
	}
	rng := &vrng{s: verifSeed()}
	for i := 0; i < verifN(100); i++ {
		r := rng.fork()
		regs, _, _ := pmmGenMap(r)
		if r.chance(30) {
			regs = append(regs, pmmRegion{regs[len(regs)-1].addr + regs[len(regs)-1].length + 0x100000, uint64(r.between(20000, 70000)) * 4096, 1})
		}
		run("r", regs)
	}
}
