//go:build verif

package pmm

// C09 — concurrent frame allocation and freeing never duplicates or loses a frame.
//
//   TestVerifFactsC09  reads the SOURCE of bitmap_allocator.go (go/parser) and prints the
//                      lock-discipline skeletons of BitmapAllocator.AllocFrame / FreeFrame as Lean terms.
//   TestVerifC09       per round: a small multi-pool allocator, a deterministic sequential history
//                      (replayed through the Lean model), a multi-core stress phase with a per-frame
//                      ownership table and a watchdog, then quiescence accounting and a drain.

import (
	"encoding/binary"
	"fmt"
	"go/ast"
	"go/parser"
	"go/token"
	"os"
	"path/filepath"
	"runtime"
	"runtime/debug"
	"sort"
	"strings"
	gosync "sync"
	"sync/atomic"
	"testing"
	"time"
	"unsafe"

	"github.com/ProjectSerenity/firefly/kernel"
	"github.com/ProjectSerenity/firefly/kernel/mm"
	"github.com/ProjectSerenity/firefly/kernel/mm/vmm"
	"github.com/ProjectSerenity/firefly/kernel/multiboot"
	ksync "github.com/ProjectSerenity/firefly/kernel/sync"
)

// ------------------------------------------------------------------------------------------------
// Fact extraction: lock-discipline skeletons
// ------------------------------------------------------------------------------------------------
//
// The extractor turns the body of a method into a `Skel` term (lean/Firefly/Model/Locked.lean).  Every
// statement and expression becomes a sequence of `.touch` / `.peek` leaves inside the control-flow
// constructors; whatever contributes no leaf is `.skip`.  The proof obligation downstream is
// `disciplined skel = true`, so the extractor is sound as long as it never UNDER-reports: a leaf may be
// reported that does not happen (a disciplined trace stays disciplined when touches are removed from
// it), but an access to lock-protected state must never become `.skip`, and a lock operation or a
// control transfer must never be lost.  The argument for what is treated as `.skip`:
//
//  (S1) Allocator state is reachable only through *access paths* rooted at the receiver (or at a
//       package variable of the allocator type, which is treated as the same root): alloc.reservedPages,
//       alloc.pools[i].freeBitmap[j], ...  Every syntactic occurrence of such a path is classified by
//       `access` (protected => `.touch`, written by initialisation only => `.peek`, unknown field =>
//       extraction fails).
//  (S2) A local variable can come to denote allocator state only by `p := &path`, `p := path` where
//       path is a struct/slice (the copy shares the bitmap words), `p := q` for such a q, a range value
//       variable over such a slice, or by being the parameter of a package-local callee that receives
//       one of these.  All of these are *tracked*: the local becomes an alias for the path and every
//       later use `p.f`, `p[i]`, `*p` is classified as the path it stands for (a copy is treated like
//       the original: over-reporting).  Every other way of producing such a value fails the
//       extraction: `&` anywhere else, an alias/struct/slice used as a plain value (assigned to an
//       existing variable, stored, compared, passed to another package, returned), re-assignment of an
//       alias, slicing, closures, go/defer, channel operations, type assertions, composite literals,
//       calls through function values.  A declaration that shadows a package-level name fails as well,
//       so an identifier never changes meaning.
//       Hence an untracked local never points into allocator state, and an expression over untracked
//       locals, constants and other packages' constants/functions is `.skip`.
//  (S3) A read of a package variable is `.peek` and is recorded in `peeked`; Lean checks that nothing in
//       the package writes (or takes the address of) a peeked name outside the initialisation functions.
//       A write to a package variable fails the extraction.
//  (S4) A call to a function or method of this package is analysed with the same rules (receiver and
//       alias arguments bound to the caller's paths, recursion cut by an `active` set: a recursive
//       activation adds no access the outer activation does not already report).  If the callee performs
//       no lock operation, all its accesses happen at the call, during which the lock phase cannot
//       change, so the call is summarised by its strongest access (`.touch` > `.peek` > nothing).  If
//       it does perform lock operations its skeleton is spliced in at the call; this is exact only when
//       every `return` of the callee is in tail position (then `return` = fall out of the spliced
//       block), anything else fails.  Calls into other packages cannot reach allocator state (it is
//       unexported and no alias may be passed), functions without a body (assembly) fail.
//  (S5) Control flow: if/else, for (3-clause, condition-only, range), switch without fallthrough (an
//       if/else chain; all case expressions are reported — over-reporting; an unlabelled `break` that
//       belongs to a switch fails because `.brk` means "leave the loop"), return, unlabelled
//       break/continue; `defer <alloc>.mutex.Release()` as a top-level statement of a body (see `body`).
//       Labels, goto, fallthrough, select, type switches, any other defer, go fail.

// State of the allocator that AllocFrame/FreeFrame change (must be accessed under the lock) ...
var c09Mutable = map[string]bool{"freeCount": true, "reservedPages": true, "totalPages": true}

var c09Builtins = map[string]bool{"len": true, "cap": true, "uint64": true, "uint32": true, "uint16": true,
	"uint8": true, "uint": true, "int": true, "int64": true, "int32": true, "uintptr": true, "bool": true}

// struct type reached by an access path (for method lookup)
var c09PathType = map[string]string{"": "BitmapAllocator", "pools.[]": "framePool"}

type c09Env struct {
	alias    map[string][]string // names that denote allocator state (receiver, tracked locals): name -> path
	tailOnly bool                // body spliced into a caller: `return` is understood in tail position only
	inSwitch int                 // switch statements entered since the innermost loop
	deferRel bool                // `defer <alloc>.mutex.Release()` has been executed at the top level of the body
}

type c09Extract struct {
	typ       string                              // the allocator type
	imports   map[string]bool                     // import names
	pkgVars   map[string]bool                     // package-level variables (all non-test files)
	allocVars map[string]bool                     // ... those of the allocator type: another root of the state
	funcs     map[string]*ast.FuncDecl            // package-level functions
	methods   map[string]map[string]*ast.FuncDecl // receiver type -> method name -> declaration
	peeked    map[string]bool                     // init-only fields / package variables read by the skeletons
	callees   map[string]bool                     // package-local functions/methods analysed on behalf of the skeletons
	analysed  map[string]bool                     // ... and the two methods themselves, as "Type.name" / ".name"
	active    map[string]bool                     // callee activations in progress
	recursed  map[string]bool                     // ... that were re-entered
	env       *c09Env
	fset      *token.FileSet
}

type c09Fail struct{ msg string }

func (x *c09Extract) fail(n ast.Node, format string, args ...interface{}) {
	pos := ""
	if n != nil {
		pos = x.fset.Position(n.Pos()).String() + ": "
	}
	panic(c09Fail{pos + fmt.Sprintf(format, args...)})
}

func c09Block(xs []string) string {
	var ys []string
	for _, s := range xs {
		if s != ".skip" {
			ys = append(ys, s)
		}
	}
	switch len(ys) {
	case 0:
		return ".skip"
	case 1:
		return ys[0]
	}
	return "(.block [" + strings.Join(ys, ", ") + "])"
}

func c09HasLockOps(sk string) bool {
	return strings.Contains(sk, ".acquire") || strings.Contains(sk, ".release")
}

func c09Unparen(e ast.Expr) ast.Expr {
	for {
		p, ok := e.(*ast.ParenExpr)
		if !ok {
			return e
		}
		e = p.X
	}
}

// recvPath resolves alloc.a[i].b[j], p.b[j], *p, ... (p a tracked alias) into the access path
// ["a","[]","b","[]"] plus the index expressions on the way.
func (x *c09Extract) recvPath(e ast.Expr) (path []string, idx []ast.Expr, ok bool) {
	switch e := e.(type) {
	case *ast.Ident:
		if p, ok := x.env.alias[e.Name]; ok {
			return append([]string{}, p...), nil, true
		}
		if x.allocVars[e.Name] {
			return []string{}, nil, true
		}
		return nil, nil, false
	case *ast.ParenExpr:
		return x.recvPath(e.X)
	case *ast.StarExpr:
		return x.recvPath(e.X)
	case *ast.SelectorExpr:
		p, i, ok := x.recvPath(e.X)
		if !ok {
			return nil, nil, false
		}
		return append(p, e.Sel.Name), i, true
	case *ast.IndexExpr:
		p, i, ok := x.recvPath(e.X)
		if !ok {
			return nil, nil, false
		}
		return append(p, "[]"), append(i, e.Index), true
	}
	return nil, nil, false
}

// classify an access path. whole=true: the value is consumed element-wise (range with a value
// variable, struct copy); write=true: the path is assigned to.
func (x *c09Extract) access(n ast.Node, path []string, whole, write bool) string {
	p := strings.Join(path, ".")
	peek := func(names ...string) string {
		if write {
			x.fail(n, "write to init-only allocator state %s", p)
		}
		for _, s := range names {
			x.peeked[s] = true
		}
		return ".peek"
	}
	switch {
	case len(path) == 0:
		x.fail(n, "the allocator itself is used as a value (not understood)")
	case path[0] == "mutex":
		x.fail(n, "use of the mutex other than the statements <alloc>.mutex.Acquire() / <alloc>.mutex.Release()")
	case len(path) == 1 && c09Mutable[path[0]]:
		return ".touch"
	case p == "pools":
		if whole {
			return ".touch" // copies every framePool, freeCount included
		}
		return peek("pools")
	case p == "pools.[]":
		if write {
			x.fail(n, "a whole pool (with its init-only fields) is overwritten")
		}
		return ".touch" // a whole framePool
	case len(path) == 3 && path[0] == "pools" && path[1] == "[]":
		f := path[2]
		switch {
		case c09Mutable[f]:
			return ".touch"
		case f == "freeBitmap":
			if whole {
				return ".touch" // reads the bitmap words
			}
			return peek("pools", "freeBitmap")
		case f == "startFrame" || f == "endFrame":
			return peek("pools", f)
		}
	case p == "pools.[].freeBitmap.[]":
		return ".touch"
	}
	x.fail(n, "access to allocator state <alloc>.%s is not understood", p)
	return ""
}

// values that share memory with the allocator when copied: the allocator, slices, a pool (holds a slice)
func c09IsAggregate(path []string) bool {
	switch strings.Join(path, ".") {
	case "", "pools", "pools.[]", "pools.[].freeBitmap":
		return true
	}
	return false
}

// declare introduces a local name; path != nil makes it a tracked alias (S2).
func (x *c09Extract) declare(id *ast.Ident, path []string) {
	n := id.Name
	if n == "_" {
		return
	}
	if x.pkgVars[n] || x.funcs[n] != nil || x.imports[n] || c09Builtins[n] || n == x.typ {
		x.fail(id, "local %s shadows a package-level name", n)
	}
	if _, ok := x.env.alias[n]; ok {
		x.fail(id, "%s, which denotes allocator state, is declared again", n)
	}
	if path != nil {
		x.env.alias[n] = path
	}
}

// aliasOf recognises the right-hand sides that make a local denote allocator state (S2) and reports
// the accesses of evaluating them.
func (x *c09Extract) aliasOf(e ast.Expr, out *[]string) ([]string, bool) {
	e = c09Unparen(e)
	if u, ok := e.(*ast.UnaryExpr); ok && u.Op == token.AND {
		path, idx, ok := x.recvPath(u.X)
		if !ok {
			return nil, false
		}
		if len(path) > 0 && path[0] == "mutex" {
			x.fail(e, "the address of the mutex is taken")
		}
		for _, i := range idx {
			x.expr(i, out, false)
		}
		// computing an element address reads the slice headers on the way, not the element
		for k, s := range path {
			if s == "[]" {
				x.peeked[path[k-1]] = true
				*out = append(*out, ".peek")
			}
		}
		x.access(e, path, true, false) // only to reject paths that are not understood
		return path, true
	}
	path, idx, ok := x.recvPath(e)
	if !ok {
		return nil, false
	}
	if id, isId := e.(*ast.Ident); isId {
		_ = id
		return path, true // copy of a tracked pointer / of the receiver: no memory access
	}
	if !c09IsAggregate(path) {
		return nil, false
	}
	for _, i := range idx {
		x.expr(i, out, false)
	}
	*out = append(*out, x.access(e, path, strings.Join(path, ".") == "pools.[]", false))
	return path, true
}

func (x *c09Extract) expr(e ast.Expr, out *[]string, hdrOK bool) {
	switch e := e.(type) {
	case nil:
	case *ast.BasicLit:
	case *ast.Ident:
		if _, ok := x.env.alias[e.Name]; ok || x.allocVars[e.Name] {
			x.fail(e, "%s denotes allocator state and is used as a plain value (not understood)", e.Name)
		}
		if x.funcs[e.Name] != nil {
			x.fail(e, "function value %s is not understood", e.Name)
		}
		if x.pkgVars[e.Name] {
			x.peeked[e.Name] = true
			*out = append(*out, ".peek")
		}
	case *ast.ParenExpr:
		x.expr(e.X, out, hdrOK)
	case *ast.BinaryExpr:
		x.expr(e.X, out, false)
		x.expr(e.Y, out, false)
	case *ast.UnaryExpr:
		if e.Op == token.AND || e.Op == token.ARROW {
			x.fail(e, "operator %s is understood only in `p := &<allocator state>`", e.Op)
		}
		x.expr(e.X, out, false)
	case *ast.SelectorExpr, *ast.IndexExpr, *ast.StarExpr:
		if path, idx, ok := x.recvPath(e); ok {
			for _, i := range idx {
				x.expr(i, out, false)
			}
			switch p := strings.Join(path, "."); {
			case p == "" || p == "pools.[]":
				x.fail(e, "allocator state <alloc>.%s is copied into a plain value (not understood)", p)
			case c09IsAggregate(path) && !hdrOK:
				x.fail(e, "slice <alloc>.%s escapes (only len/cap/range/indexing/`s := slice` are understood)", p)
			}
			*out = append(*out, x.access(e, path, false, false))
			return
		}
		switch e := e.(type) {
		case *ast.SelectorExpr:
			if id, ok := e.X.(*ast.Ident); ok && x.imports[id.Name] {
				return // qualified constant / variable of another package: not allocator state
			}
			x.expr(e.X, out, false)
		case *ast.IndexExpr:
			x.expr(e.X, out, false)
			x.expr(e.Index, out, false)
		case *ast.StarExpr:
			x.expr(e.X, out, false) // an untracked pointer does not point into allocator state (S2)
		}
	case *ast.CallExpr:
		x.call(e, out)
	default:
		x.fail(e, "expression %T is not understood", e)
	}
}

func (x *c09Extract) call(e *ast.CallExpr, out *[]string) {
	if e.Ellipsis != token.NoPos {
		x.fail(e, "variadic call is not understood")
	}
	switch f := c09Unparen(e.Fun).(type) {
	case *ast.Ident:
		if c09Builtins[f.Name] {
			for _, a := range e.Args {
				x.expr(a, out, f.Name == "len" || f.Name == "cap")
			}
			return
		}
		if fd := x.funcs[f.Name]; fd != nil {
			x.inline(e, fd, nil, e.Args, out)
			return
		}
		x.fail(e, "call to %s is not understood (not a conversion, len/cap or a function of this package)", f.Name)
	case *ast.SelectorExpr:
		if id, ok := f.X.(*ast.Ident); ok && x.imports[id.Name] {
			for _, a := range e.Args {
				x.expr(a, out, false) // no alias can be passed (S2): the callee cannot reach allocator state
			}
			return
		}
		if path, idx, ok := x.recvPath(f.X); ok {
			typ, known := c09PathType[strings.Join(path, ".")]
			fd := x.methods[typ][f.Sel.Name]
			if !known || fd == nil {
				x.fail(e, "method call %s on allocator state is not understood", f.Sel.Name)
			}
			for _, i := range idx {
				x.expr(i, out, false)
			}
			x.inline(e, fd, path, e.Args, out)
			return
		}
		x.fail(e, "call is not understood")
	default:
		x.fail(e, "call is not understood")
	}
}

// inline analyses a package-local callee on behalf of a call (S4).
func (x *c09Extract) inline(at *ast.CallExpr, fd *ast.FuncDecl, recv []string, args []ast.Expr, out *[]string) {
	name := fd.Name.Name
	if fd.Body == nil {
		x.fail(at, "%s has no Go body", name)
	}
	var params []*ast.Ident
	for _, p := range fd.Type.Params.List {
		if _, ok := p.Type.(*ast.Ellipsis); ok {
			x.fail(at, "%s is variadic", name)
		}
		if len(p.Names) == 0 {
			params = append(params, nil)
		}
		for _, id := range p.Names {
			params = append(params, id)
		}
	}
	if len(params) != len(args) {
		x.fail(at, "call of %s: %d arguments for %d parameters", name, len(args), len(params))
	}
	bound := map[string][]string{}
	key := name
	if fd.Recv != nil {
		key = strings.Join(recv, ".") + "." + name
		if len(fd.Recv.List) == 1 && len(fd.Recv.List[0].Names) == 1 {
			bound[fd.Recv.List[0].Names[0].Name] = recv
		}
	}
	for k, a := range args {
		if p, ok := x.aliasOf(a, out); ok {
			if params[k] != nil && params[k].Name != "_" {
				bound[params[k].Name] = p
				key += fmt.Sprintf("|%d=%s", k, strings.Join(p, "."))
			}
		} else {
			x.expr(a, out, false)
		}
	}
	x.callees[name] = true
	x.analysed[c09FuncKey(fd)] = true
	if x.active[key] {
		x.recursed[key] = true
		return // the outer activation reports everything this one could
	}
	x.active[key] = true
	defer delete(x.active, key)
	run := func(tailOnly bool) string {
		saved := x.env
		defer func() { x.env = saved }()
		x.env = &c09Env{alias: map[string][]string{}, tailOnly: tailOnly}
		for n, p := range bound {
			x.env.alias[n] = p
		}
		for _, id := range params {
			if id != nil && bound[id.Name] == nil {
				x.declare(id, nil)
			}
		}
		if fd.Type.Results != nil {
			for _, r := range fd.Type.Results.List {
				for _, id := range r.Names {
					x.declare(id, nil)
				}
			}
		}
		return x.body(fd.Body)
	}
	sk := run(false)
	switch {
	case c09HasLockOps(sk):
		if x.recursed[key] {
			x.fail(at, "%s handles the lock and is recursive", name)
		}
		*out = append(*out, run(true)) // spliced in; fails unless every return is in tail position
	case strings.Contains(sk, ".touch"):
		*out = append(*out, ".touch")
	case strings.Contains(sk, ".peek"):
		*out = append(*out, ".peek")
	}
}

func (x *c09Extract) exprs(es []ast.Expr) string {
	var out []string
	for _, e := range es {
		x.expr(e, &out, false)
	}
	return c09Block(out)
}

func (x *c09Extract) lhs(e ast.Expr, out *[]string) {
	switch e := e.(type) {
	case *ast.Ident:
		if _, ok := x.env.alias[e.Name]; ok || x.allocVars[e.Name] || x.pkgVars[e.Name] || x.funcs[e.Name] != nil {
			x.fail(e, "assignment to %s is not understood", e.Name)
		}
	case *ast.ParenExpr:
		x.lhs(e.X, out)
	case *ast.SelectorExpr, *ast.IndexExpr, *ast.StarExpr:
		if path, idx, ok := x.recvPath(e); ok {
			for _, i := range idx {
				x.expr(i, out, false)
			}
			*out = append(*out, x.access(e, path, false, true))
			return
		}
		// a field / element / target of an untracked local: not allocator state (S2); a package
		// variable at the root is reported as read here and as written in `writers`
		x.expr(e, out, false)
	default:
		x.fail(e, "assignment target %T is not understood", e)
	}
}

func (x *c09Extract) mutexCall(s ast.Stmt) string {
	es, ok := s.(*ast.ExprStmt)
	if !ok {
		return ""
	}
	call, ok := es.X.(*ast.CallExpr)
	if !ok {
		return ""
	}
	sel, ok := call.Fun.(*ast.SelectorExpr)
	if !ok {
		return ""
	}
	path, _, ok := x.recvPath(sel.X)
	if !ok || len(path) != 1 || path[0] != "mutex" {
		return ""
	}
	if len(call.Args) != 0 {
		x.fail(s, "mutex call with arguments")
	}
	switch sel.Sel.Name {
	case "Acquire":
		return ".acquire"
	case "Release":
		return ".release"
	}
	x.fail(s, "mutex method %s is not understood", sel.Sel.Name)
	return ""
}

// define handles `a, b := e1, e2` / `var a, b = e1, e2`: alias tracking (S2) pairwise, otherwise plain locals.
func (x *c09Extract) define(names []*ast.Ident, values []ast.Expr, out *[]string) {
	if len(names) == len(values) {
		paths := make([][]string, len(names))
		for k, v := range values {
			if p, ok := x.aliasOf(v, out); ok {
				paths[k] = p
				if paths[k] == nil {
					paths[k] = []string{}
				}
			} else {
				x.expr(v, out, false)
			}
		}
		for k, id := range names {
			if id.Name == "_" && paths[k] != nil {
				continue
			}
			x.declare(id, paths[k])
		}
		return
	}
	for _, v := range values {
		x.expr(v, out, false)
	}
	for _, id := range names {
		x.declare(id, nil)
	}
}

func (x *c09Extract) block(list []ast.Stmt, tail bool) string {
	var out []string
	for k, t := range list {
		out = append(out, x.stmt(t, tail && k == len(list)-1))
	}
	return c09Block(out)
}

// body translates a function body.  `defer <alloc>.mutex.Release()` as an unconditional top-level statement is
// understood exactly: from there on every `return` evaluates its results, releases, returns, and so does
// falling off the end (statements in front of the defer are translated before the flag is set).
func (x *c09Extract) body(b *ast.BlockStmt) string {
	var out []string
	for k, t := range b.List {
		if d, ok := t.(*ast.DeferStmt); ok && x.mutexCall(&ast.ExprStmt{X: d.Call}) == ".release" {
			if x.env.deferRel || x.env.tailOnly {
				x.fail(t, "this use of defer is not understood")
			}
			x.env.deferRel = true
			continue
		}
		out = append(out, x.stmt(t, k == len(b.List)-1))
	}
	if x.env.deferRel {
		out = append(out, ".release")
	}
	return c09Block(out)
}

// stmt translates a statement; tail = nothing of the function body is executed after it.
func (x *c09Extract) stmt(s ast.Stmt, tail bool) string {
	if m := x.mutexCall(s); m != "" {
		return m
	}
	switch s := s.(type) {
	case nil:
		return ".skip"
	case *ast.EmptyStmt:
		return ".skip"
	case *ast.ExprStmt:
		return x.exprs([]ast.Expr{s.X})
	case *ast.BlockStmt:
		return x.block(s.List, tail)
	case *ast.AssignStmt:
		var out []string
		if s.Tok == token.DEFINE {
			var names []*ast.Ident
			for _, l := range s.Lhs {
				id, ok := l.(*ast.Ident)
				if !ok {
					x.fail(s, ":= with a non-identifier")
				}
				names = append(names, id)
			}
			x.define(names, s.Rhs, &out)
			return c09Block(out)
		}
		for _, e := range s.Rhs {
			x.expr(e, &out, false)
		}
		for _, e := range s.Lhs {
			x.lhs(e, &out)
		}
		return c09Block(out)
	case *ast.IncDecStmt:
		var out []string
		x.lhs(s.X, &out)
		return c09Block(out)
	case *ast.DeclStmt:
		gd, ok := s.Decl.(*ast.GenDecl)
		if !ok || (gd.Tok != token.VAR && gd.Tok != token.CONST) {
			x.fail(s, "declaration is not understood")
		}
		var out []string
		for _, sp := range gd.Specs {
			vs, ok := sp.(*ast.ValueSpec)
			if !ok {
				x.fail(s, "declaration is not understood")
			}
			x.define(vs.Names, vs.Values, &out)
		}
		return c09Block(out)
	case *ast.IfStmt:
		init := x.stmt(s.Init, false)
		cond := x.exprs([]ast.Expr{s.Cond})
		body := x.stmt(s.Body, tail)
		els := ".skip"
		if s.Else != nil {
			els = x.stmt(s.Else, tail)
		}
		return c09Block([]string{init, "(.ite " + cond + " " + body + " " + els + ")"})
	case *ast.ForStmt:
		init := x.stmt(s.Init, false)
		cond := x.exprs([]ast.Expr{s.Cond})
		saved := x.env.inSwitch
		x.env.inSwitch = 0
		body := x.stmt(s.Body, false)
		x.env.inSwitch = saved
		post := x.stmt(s.Post, false)
		return c09Block([]string{init, "(.loop " + cond + " " + body + " " + post + ")"})
	case *ast.RangeStmt:
		var kv []*ast.Ident
		for _, e := range []ast.Expr{s.Key, s.Value} {
			if e != nil {
				id, ok := e.(*ast.Ident)
				if !ok || s.Tok != token.DEFINE {
					x.fail(s, "range variables must be newly defined identifiers")
				}
				kv = append(kv, id)
			}
		}
		var cond []string
		whole := s.Value != nil && s.Value.(*ast.Ident).Name != "_"
		var elem []string
		if path, idx, ok := x.recvPath(s.X); ok {
			for _, i := range idx {
				x.expr(i, &cond, false)
			}
			cond = append(cond, x.access(s.X, path, whole, false))
			if e := append(append([]string{}, path...), "[]"); whole && c09IsAggregate(e) {
				elem = e // a copied pool shares its bitmap with the original: tracked like the element itself
			}
		} else {
			x.expr(s.X, &cond, true)
		}
		for k, id := range kv {
			if k == 1 {
				x.declare(id, elem)
			} else {
				x.declare(id, nil)
			}
		}
		saved := x.env.inSwitch
		x.env.inSwitch = 0
		body := x.stmt(s.Body, false)
		x.env.inSwitch = saved
		return "(.loop " + c09Block(cond) + " " + body + " .skip)"
	case *ast.SwitchStmt:
		init := x.stmt(s.Init, false)
		tag := x.exprs([]ast.Expr{s.Tag})
		x.env.inSwitch++
		els := ".skip"
		type arm struct{ cond, body string }
		var arms []arm
		for _, c := range s.Body.List {
			cc, ok := c.(*ast.CaseClause)
			if !ok {
				x.fail(c, "switch clause is not understood")
			}
			body := x.block(cc.Body, tail)
			if cc.List == nil {
				els = body
			} else {
				arms = append(arms, arm{x.exprs(cc.List), body})
			}
		}
		x.env.inSwitch--
		for k := len(arms) - 1; k >= 0; k-- {
			els = "(.ite " + arms[k].cond + " " + arms[k].body + " " + els + ")"
		}
		return c09Block([]string{init, tag, els})
	case *ast.ReturnStmt:
		res := x.exprs(s.Results)
		if x.env.tailOnly {
			if !tail {
				x.fail(s, "a helper that handles the lock returns from the middle of its body (not understood)")
			}
			return res
		}
		if x.env.deferRel {
			return c09Block([]string{res, ".release", ".ret"})
		}
		return c09Block([]string{res, ".ret"})
	case *ast.BranchStmt:
		if s.Label != nil {
			x.fail(s, "labelled %s is not understood", s.Tok)
		}
		switch s.Tok {
		case token.BREAK:
			if x.env.inSwitch > 0 {
				x.fail(s, "break out of a switch is not understood")
			}
			return ".brk"
		case token.CONTINUE:
			return ".cont"
		}
		x.fail(s, "%s is not understood", s.Tok)
	}
	x.fail(s, "statement %T is not understood", s)
	return ""
}

type c09Writer struct{ name, fn string }

func c09FuncKey(fd *ast.FuncDecl) string {
	typ := ""
	if fd.Recv != nil && len(fd.Recv.List) == 1 {
		t := fd.Recv.List[0].Type
		if st, ok := t.(*ast.StarExpr); ok {
			t = st.X
		}
		if id, ok := t.(*ast.Ident); ok {
			typ = id.Name
		}
	}
	if typ == "" {
		return fd.Name.Name
	}
	return typ + "." + fd.Name.Name
}

// c09CallGraph: syntactic call graph of the package (non-test files), over-approximated: an edge for every
// mention of a package function (called or used as a value) and, for every selector `.m`, to every method
// called m of any type of the package.  Closures belong to the function that contains them.
func c09CallGraph(files []*ast.File, x *c09Extract) map[string][]string {
	byName := map[string][]string{}
	for _, ms := range x.methods {
		for n, fd := range ms {
			byName[n] = append(byName[n], c09FuncKey(fd))
		}
	}
	g := map[string][]string{}
	for _, f := range files {
		for _, d := range f.Decls {
			fd, ok := d.(*ast.FuncDecl)
			if !ok {
				continue
			}
			from := c09FuncKey(fd)
			g[from] = append(g[from]) // every function is a node
			if fd.Body == nil {
				continue
			}
			ast.Inspect(fd.Body, func(n ast.Node) bool {
				switch n := n.(type) {
				case *ast.Ident:
					if x.funcs[n.Name] != nil {
						g[from] = append(g[from], n.Name)
					}
				case *ast.SelectorExpr:
					if id, ok := n.X.(*ast.Ident); !ok || !x.imports[id.Name] {
						g[from] = append(g[from], byName[n.Sel.Name]...)
					}
				}
				return true
			})
		}
	}
	return g
}

func c09Reach(g map[string][]string, roots []string) []string {
	seen := map[string]bool{}
	todo := append([]string{}, roots...)
	for len(todo) > 0 {
		n := todo[len(todo)-1]
		todo = todo[:len(todo)-1]
		if seen[n] {
			continue
		}
		seen[n] = true
		todo = append(todo, g[n]...)
	}
	var out []string
	for n := range seen {
		out = append(out, n)
	}
	sort.Strings(out)
	return out
}

// c09Writers lists every (name, function) such that the function assigns to, increments or takes
// the address of something called name (the field or element written, or the variable at the root
// of the written location), in all non-test files of the package.  Exception: `&s[i]` inside a function the
// extractor has analysed is not reported as taking the address of s: there the pointer is a tracked
// alias (S2), every use of it is classified, and a write to init-only state through it fails the extraction.
func c09Writers(files []*ast.File, names, analysed map[string]bool) []c09Writer {
	seen := map[c09Writer]bool{}
	chain := func(e ast.Expr) (ns []string) {
		first := true
		for {
			switch t := e.(type) {
			case *ast.ParenExpr:
				e = t.X
			case *ast.IndexExpr:
				e = t.X
			case *ast.SliceExpr:
				e = t.X
			case *ast.StarExpr:
				e = t.X
			case *ast.SelectorExpr:
				if first {
					ns = append(ns, t.Sel.Name)
					first = false
				}
				e = t.X
			case *ast.Ident:
				return append(ns, t.Name)
			default:
				return ns
			}
		}
	}
	for _, f := range files {
		for _, d := range f.Decls {
			fd, ok := d.(*ast.FuncDecl)
			if !ok || fd.Body == nil {
				continue
			}
			note := func(e ast.Expr) {
				for _, n := range chain(e) {
					if names[n] {
						seen[c09Writer{n, c09FuncKey(fd)}] = true
					}
				}
			}
			ast.Inspect(fd.Body, func(n ast.Node) bool {
				switch n := n.(type) {
				case *ast.AssignStmt:
					if n.Tok != token.DEFINE {
						for _, l := range n.Lhs {
							note(l)
						}
					}
				case *ast.IncDecStmt:
					note(n.X)
				case *ast.UnaryExpr:
					if _, elem := c09Unparen(n.X).(*ast.IndexExpr); n.Op == token.AND && !(elem && analysed[c09FuncKey(fd)]) {
						note(n.X)
					}
				}
				return true
			})
		}
	}
	var ws []c09Writer
	for w := range seen {
		ws = append(ws, w)
	}
	sort.Slice(ws, func(i, j int) bool {
		if ws[i].name != ws[j].name {
			return ws[i].name < ws[j].name
		}
		return ws[i].fn < ws[j].fn
	})
	return ws
}

func c09Facts() (text string, err error) {
	defer func() {
		if r := recover(); r != nil {
			if f, ok := r.(c09Fail); ok {
				err = fmt.Errorf("skeleton extraction failed: %s", f.msg)
				return
			}
			panic(r)
		}
	}()
	repo := os.Getenv("VERIF_REPO")
	if repo == "" {
		repo = "/repo"
	}
	dir := filepath.Join(repo, "kernel", "mm", "pmm")
	fset := token.NewFileSet()
	names, _ := filepath.Glob(filepath.Join(dir, "*.go"))
	sort.Strings(names)
	var files []*ast.File
	x := &c09Extract{typ: "BitmapAllocator", imports: map[string]bool{}, pkgVars: map[string]bool{}, allocVars: map[string]bool{},
		funcs: map[string]*ast.FuncDecl{}, methods: map[string]map[string]*ast.FuncDecl{}, peeked: map[string]bool{},
		callees: map[string]bool{}, analysed: map[string]bool{}, active: map[string]bool{}, recursed: map[string]bool{}, fset: fset}
	for _, n := range names {
		if strings.HasSuffix(n, "_test.go") {
			continue
		}
		f, perr := parser.ParseFile(fset, n, nil, 0)
		if perr != nil {
			return "", perr
		}
		files = append(files, f)
		for _, im := range f.Imports {
			p := strings.Trim(im.Path.Value, `"`)
			name := p[strings.LastIndex(p, "/")+1:]
			if im.Name != nil {
				name = im.Name.Name
			}
			x.imports[name] = true
		}
		for _, d := range f.Decls {
			switch d := d.(type) {
			case *ast.GenDecl:
				if d.Tok == token.VAR {
					for _, sp := range d.Specs {
						vs := sp.(*ast.ValueSpec)
						for _, id := range vs.Names {
							x.pkgVars[id.Name] = true
							if t, ok := vs.Type.(*ast.Ident); ok && t.Name == x.typ {
								x.allocVars[id.Name] = true
							}
						}
					}
				}
			case *ast.FuncDecl:
				if d.Recv == nil {
					x.funcs[d.Name.Name] = d
				} else if len(d.Recv.List) == 1 {
					t := d.Recv.List[0].Type
					if st, ok := t.(*ast.StarExpr); ok {
						t = st.X
					}
					if id, ok := t.(*ast.Ident); ok {
						if x.methods[id.Name] == nil {
							x.methods[id.Name] = map[string]*ast.FuncDecl{}
						}
						x.methods[id.Name][d.Name.Name] = d
					}
				}
			}
		}
	}
	var b strings.Builder
	b.WriteString("-- GENERATED by ./check from /repo (TestVerifFactsC09: go/parser over kernel/mm/pmm); do not edit.\n")
	b.WriteString("import Firefly.Model.Locked\nnamespace Firefly.Gen.C09\nopen Firefly.Locked\n")
	for _, m := range []struct{ goName, leanName string }{{"AllocFrame", "allocFrameSkel"}, {"FreeFrame", "freeFrameSkel"}} {
		fd := x.methods[x.typ][m.goName]
		if fd == nil || fd.Body == nil {
			return "", fmt.Errorf("skeleton extraction failed: method %s.%s not found", x.typ, m.goName)
		}
		if _, ok := fd.Recv.List[0].Type.(*ast.StarExpr); !ok || len(fd.Recv.List[0].Names) != 1 {
			return "", fmt.Errorf("skeleton extraction failed: %s must have a named pointer receiver", m.goName)
		}
		x.env = &c09Env{alias: map[string][]string{fd.Recv.List[0].Names[0].Name: {}}}
		x.analysed[c09FuncKey(fd)] = true
		for _, p := range fd.Type.Params.List {
			for _, id := range p.Names {
				x.declare(id, nil)
			}
		}
		if fd.Type.Results != nil {
			for _, r := range fd.Type.Results.List {
				for _, id := range r.Names {
					x.declare(id, nil)
				}
			}
		}
		fmt.Fprintf(&b, "/-- `%s.%s` (%s) -/\ndef %s : Skel :=\n  %s\n", x.typ, m.goName,
			filepath.Base(fset.Position(fd.Pos()).Filename), m.leanName, x.body(fd.Body))
	}
	var pk []string
	for n := range x.peeked {
		pk = append(pk, n)
	}
	sort.Strings(pk)
	q := func(xs []string) string {
		var ys []string
		for _, s := range xs {
			ys = append(ys, fmt.Sprintf("%q", s))
		}
		return "[" + strings.Join(ys, ", ") + "]"
	}
	fmt.Fprintf(&b, "/-- allocator fields / package variables the two methods (and their helpers) read outside the lock-protected set -/\ndef peeked : List String := %s\n", q(pk))
	// Init-only argument: a function that writes a peeked name must run during initialisation only, i.e. be
	// reachable from the initialisation entry and NOT from the two methods (or anything that may run at any
	// time: functions stored in package variables).
	graph := c09CallGraph(files, x)
	if x.funcs["Init"] == nil {
		return "", fmt.Errorf("skeleton extraction failed: initialisation entry Init not found")
	}
	initEntries := []string{"Init"}
	runEntries := []string{x.typ + ".AllocFrame", x.typ + ".FreeFrame"}
	for _, f := range files {
		for _, d := range f.Decls {
			if gd, ok := d.(*ast.GenDecl); ok && gd.Tok == token.VAR {
				ast.Inspect(gd, func(n ast.Node) bool {
					switch n := n.(type) {
					case *ast.Ident:
						if x.funcs[n.Name] != nil {
							runEntries = append(runEntries, n.Name)
						}
					case *ast.SelectorExpr:
						if id, ok := n.X.(*ast.Ident); !ok || !x.imports[id.Name] {
							for _, ms := range x.methods {
								if fd := ms[n.Sel.Name]; fd != nil {
									runEntries = append(runEntries, c09FuncKey(fd))
								}
							}
						}
					}
					return true
				})
			}
		}
	}
	sort.Strings(runEntries)
	initReach, runReach := c09Reach(graph, initEntries), c09Reach(graph, runEntries)
	inList := func(xs []string, s string) bool {
		for _, y := range xs {
			if y == s {
				return true
			}
		}
		return false
	}
	var ws, bad []string
	for _, w := range c09Writers(files, x.peeked, x.analysed) {
		e := fmt.Sprintf("(%q, %q)", w.name, w.fn)
		ws = append(ws, e)
		if !inList(initReach, w.fn) || inList(runReach, w.fn) {
			bad = append(bad, e)
		}
	}
	fmt.Fprintf(&b, "/-- every (name, function) of the package where the function assigns to or takes the address of a peeked name -/\ndef writers : List (String × String) := [%s]\n", strings.Join(ws, ", "))
	fmt.Fprintf(&b, "/-- entry of the initialisation, which runs once before the allocator is shared -/\ndef initEntries : List String := %s\n", q(initEntries))
	fmt.Fprintf(&b, "/-- what may run at any time: the two methods and every function stored in a package variable -/\ndef runEntries : List String := %s\n", q(runEntries))
	fmt.Fprintf(&b, "/-- functions reachable from initEntries in the (over-approximated, syntactic) call graph of the package -/\ndef initReach : List String := %s\n", q(initReach))
	fmt.Fprintf(&b, "/-- functions reachable from runEntries -/\ndef runReach : List String := %s\n", q(runReach))
	fmt.Fprintf(&b, "/-- writers that are not initialisation-only: not reachable from initEntries, or reachable from runEntries (expected: none) -/\ndef initOnlyWriters : List (String × String) := [%s]\n", strings.Join(bad, ", "))
	var cs []string
	for n := range x.callees {
		cs = append(cs, n)
	}
	sort.Strings(cs)
	fmt.Fprintf(&b, "/-- functions and methods of the package analysed on behalf of the two methods (summarised by their strongest access, or spliced in when they handle the lock) -/\ndef callees : List String := %s\n", q(cs))
	b.WriteString("end Firefly.Gen.C09\n")
	return b.String(), nil
}

func TestVerifFactsC09(t *testing.T) {
	text, err := c09Facts()
	if err != nil {
		t.Fatal(err)
	}
	out := verifOpen("VERIF_FACTS_OUT")
	defer out.close()
	out.printf("%s", text)
}

// ------------------------------------------------------------------------------------------------
// Stress + correspondence harness
// ------------------------------------------------------------------------------------------------

type c09Region struct{ addr, length, typ uint64 }

const (
	c09Main     = 0xfffe // owner id of the sequential phase
	c09Drain    = 0xfffd // owner id of the drain phase
	c09Reserved = 0xffff // frames that must never be handed out
	c09Table    = 4096   // ownership table size (frame numbers in the harness are small)
)

type c09H struct {
	out        *verifWriter
	mbBuf      []uint64
	arena      []byte
	meta       []uint64
	owner      []uint32
	stuckAfter time.Duration
}

type c09Stuck struct{}

// guarded runs one call of the code under test in its own goroutine; if it has not returned after the
// watchdog time (120 s by default for a call that takes microseconds) the hang becomes an observation:
// `stuck` is printed as the call's result and the harness stops.
func (h *c09H) guarded(line, stuckObs string, f func()) {
	done := make(chan struct{})
	go func() { defer close(done); f() }()
	select {
	case <-done:
	case <-time.After(h.stuckAfter):
		h.out.printf("%s | %s\n", line, stuckObs)
		panic(c09Stuck{})
	}
}

func (h *c09H) setMap(regs []c09Region) {
	n := len(regs)
	size := 8 + 16 + 24*n + 8
	buf := make([]uint64, (size+7)/8+1)
	b := (*[1 << 20]byte)(unsafe.Pointer(&buf[0]))[: len(buf)*8 : len(buf)*8]
	binary.LittleEndian.PutUint32(b[0:], uint32(size))
	binary.LittleEndian.PutUint32(b[8:], 6) // tagMemoryMap
	binary.LittleEndian.PutUint32(b[12:], uint32(16+24*n))
	binary.LittleEndian.PutUint32(b[16:], 24)
	off := 24
	for _, r := range regs {
		binary.LittleEndian.PutUint64(b[off:], r.addr)
		binary.LittleEndian.PutUint64(b[off+8:], r.length)
		binary.LittleEndian.PutUint32(b[off+16:], uint32(r.typ))
		off += 24
	}
	binary.LittleEndian.PutUint32(b[off+4:], 8) // end tag {0, 8}
	h.mbBuf = buf
	multiboot.SetInfoPtr(uintptr(unsafe.Pointer(&buf[0])))
	h.out.printf("map")
	for _, r := range regs {
		h.out.printf(" %d %d %d", r.addr, r.length, r.typ)
	}
	h.out.printf("\n")
}

func (h *c09H) install() {
	reserveRegionFn = func(size uintptr) (uintptr, *kernel.Error) {
		h.arena = make([]byte, int(size)+2*int(mm.PageSize))
		p := (uintptr(unsafe.Pointer(&h.arena[0])) + mm.PageSize - 1) &^ (mm.PageSize - 1)
		return p, nil
	}
	mapFn = func(_ mm.Page, f mm.Frame, _ vmm.PageTableEntryFlag) *kernel.Error {
		h.meta = append(h.meta, uint64(f))
		return nil
	}
}

func (h *c09H) dump() {
	a := &bitmapAllocator
	h.out.printf("%d %d %d", a.totalPages, a.reservedPages, len(a.pools))
	for i := range a.pools {
		p := &a.pools[i]
		h.out.printf(" %d %d %d %d", uint64(p.startFrame), uint64(p.endFrame), p.freeCount, len(p.freeBitmap))
		for _, w := range p.freeBitmap {
			h.out.printf(" %d", w)
		}
	}
}

// setup prints the same map/binit/init lines as the C01 harness, so the Lean side rebuilds the state.
func (h *c09H) setup(regs []c09Region, ks, ke uint64) bool {
	h.setMap(regs)
	bootMemAllocator = BootMemAllocator{}
	bitmapAllocator = BitmapAllocator{}
	bootMemAllocator.init(uintptr(ks), uintptr(ke))
	h.out.printf("binit %d %d | %d %d\n", ks, ke, uint64(bootMemAllocator.kernelStartFrame), uint64(bootMemAllocator.kernelEndFrame))
	h.meta = h.meta[:0]
	code := 0
	func() {
		defer func() {
			if r := recover(); r != nil {
				code = 9
			}
		}()
		if err := bitmapAllocator.init(); err != nil {
			code = 3
			if err == errBootAllocOutOfMemory {
				code = 1
			}
		}
	}()
	h.out.printf("init 1 -1 | %d %d %d ", code, bootMemAllocator.allocCount, uint64(bootMemAllocator.lastAllocFrame))
	if code == 0 {
		h.dump()
	}
	h.out.printf(" m %d", len(h.meta))
	for _, f := range h.meta {
		h.out.printf(" %d", f)
	}
	h.out.printf("\n")
	return code == 0
}

// lockLeak reports (and repairs) a lock left held by an operation that has returned.
func (h *c09H) lockLeak() {
	leaked := 1
	if bitmapAllocator.mutex.TryToAcquire() {
		leaked = 0
	}
	bitmapAllocator.mutex.Release()
	h.out.printf("lk | %d\n", leaked)
}

func (h *c09H) seqAlloc() (uint64, bool) {
	var f mm.Frame
	var err *kernel.Error
	panicked := false
	h.guarded("a", "stuck", func() {
		defer func() {
			if r := recover(); r != nil {
				panicked = true
			}
		}()
		f, err = bitmapAllocator.AllocFrame()
	})
	ok := false
	switch {
	case panicked:
		h.out.printf("a | panic\n")
	case err != nil:
		h.out.printf("a | -1\n")
	default:
		h.out.printf("a | %d\n", uint64(f))
		ok = true
	}
	h.lockLeak()
	return uint64(f), ok
}

func c09FreeCode(f uint64) (code int) {
	defer func() {
		if r := recover(); r != nil {
			code = 9
		}
	}()
	switch bitmapAllocator.FreeFrame(mm.Frame(f)) {
	case nil:
		return 0
	case errBitmapAllocFrameNotManaged:
		return 1
	case errBitmapAllocDoubleFree:
		return 2
	}
	return 8
}

func (h *c09H) seqFree(f uint64) bool {
	code := 0
	h.guarded(fmt.Sprintf("f %d", f), "stuck", func() { code = c09FreeCode(f) })
	h.out.printf("f %d | %d\n", f, code)
	h.lockLeak()
	return code == 0
}

func (h *c09H) stats() {
	h.out.printf("s | ")
	h.dump()
	h.out.printf("\n")
}

type c09Round struct {
	pools   []int // frames per pool, in memory-map order (the first region also hosts the one-frame kernel image)
	rank    []int // rank[i] = position of pool i by address (nil: ascending, i.e. rank[i] = i)
	workers int
	ops     int
	yield   int // 0: sync.yieldFn = nil (the kernel's configuration), 1: runtime.Gosched
	seed    uint64
}

type c09Stats struct {
	dup, foreign, allocOk, oom, allocBad, freeOk, freeBad, unmOk, unmBad, panics int64
}

// buildMap lays the pools out from frame 256 upwards, separated by gaps or reserved regions.
// The memory map lists the pools in the order given (a bootloader need not sort its map); rank says
// where each pool lies by address: rank = [1 2 0] puts the third listed pool lowest.
func c09BuildMap(r *vrng, pools, rank []int) (regs []c09Region, ks, ke uint64, unmanaged []uint64) {
	slotPool := make([]int, len(pools)) // address slot -> pool index
	for i := range pools {
		k := i
		if rank != nil {
			k = rank[i]
		}
		slotPool[k] = i
	}
	groups := make([][]c09Region, len(pools))
	cur := uint64(0x100000)
	for slot, i := range slotPool {
		n := pools[i]
		addr, length := cur, uint64(n)*4096
		if slot > 0 && i > 0 && r.chance(30) { // unaligned region: the partial pages at both ends are not frames
			addr -= uint64(1 + r.intn(4095))
			length += uint64(1+r.intn(4095)) + (cur - addr)
		}
		groups[i] = append(groups[i], c09Region{addr, length, 1})
		if i == 0 {
			ks, ke = cur, cur+1+uint64(r.intn(4096))
		}
		cur += uint64(n) * 4096
		gap := uint64(1 + r.intn(3))
		if r.chance(40) {
			groups[i] = append(groups[i], c09Region{cur + 4096, gap * 4096, r.pick(2, 3, 4)})
		}
		for g := uint64(0); g <= gap+1; g++ {
			unmanaged = append(unmanaged, cur/4096+g)
		}
		cur += (gap + 2) * 4096
	}
	for _, g := range groups {
		regs = append(regs, g...)
	}
	unmanaged = append(unmanaged, 0, 1, 255, cur/4096+7)
	return
}

// c09Perm: a random permutation of 0..n-1
func c09Perm(r *vrng, n int) []int {
	p := make([]int, n)
	for i := range p {
		p[i] = i
	}
	for i := n - 1; i > 0; i-- {
		j := r.intn(i + 1)
		p[i], p[j] = p[j], p[i]
	}
	return p
}

func (h *c09H) round(id string, rd c09Round) (stuck bool) {
	stuckAfter := h.stuckAfter
	defer func() {
		if r := recover(); r != nil {
			if _, ok := r.(c09Stuck); !ok {
				panic(r)
			}
			stuck = true
		}
	}()
	h.out.printf("case %s\n", id)
	r := &vrng{s: rd.seed}
	regs, ks, ke, unmanaged := c09BuildMap(r, rd.pools, rd.rank)
	if !h.setup(regs, ks, ke) {
		return false
	}
	h.stats()
	a := &bitmapAllocator

	// ---- ownership table: every frame that may not be handed out is reserved
	for i := range h.owner {
		h.owner[i] = c09Reserved
	}
	for i := range a.pools {
		p := &a.pools[i]
		for f := uint64(p.startFrame); f <= uint64(p.endFrame) && f < c09Table; f++ {
			rel := f - uint64(p.startFrame)
			if p.freeBitmap[rel>>6]&(1<<(63-rel&63)) == 0 {
				h.owner[f] = 0
			}
		}
	}

	// ---- deterministic sequential history (model correspondence, every return path, lock leaks)
	var held, freed []uint64
	steps := r.between(8, 40)
	for i := 0; i < steps; i++ {
		c := r.intn(100)
		switch {
		case c < 50:
			if f, ok := h.seqAlloc(); ok {
				held = append(held, f)
				if f < c09Table {
					h.owner[f] = c09Main
				}
			}
		case c < 72 && len(held) > 0:
			j := r.intn(len(held))
			f := held[j]
			held[j] = held[len(held)-1]
			held = held[:len(held)-1]
			if h.seqFree(f) {
				freed = append(freed, f)
				h.owner[f] = 0
			}
		case c < 84 && len(freed) > 0: // free a frame again (rejected unless it was handed out again)
			f := freed[r.intn(len(freed))]
			isHeld := false
			for _, x := range held {
				isHeld = isHeld || x == f
			}
			if !isHeld {
				h.seqFree(f)
			}
		case c < 94:
			h.seqFree(unmanaged[r.intn(len(unmanaged))])
		default:
			h.seqAlloc0Free(r)
		}
	}
	for len(held) > 6 { // keep a few frames held by the main goroutine during the stress phase
		f := held[len(held)-1]
		held = held[:len(held)-1]
		if h.seqFree(f) {
			h.owner[f] = 0
		}
	}
	h.stats()
	h.out.w.Flush()

	// ---- concurrent phase
	procs := runtime.GOMAXPROCS(0)
	workers, yield := rd.workers, rd.yield
	if yield == 0 && workers > procs-2 {
		// spinning goroutines cannot be preempted: leave cores for the lock holder and the watchdog
		if procs >= 4 {
			workers = procs - 2
		} else {
			yield = 1
		}
	}
	if yield == 1 {
		ksync.VerifC09SetYield(runtime.Gosched)
	} else {
		ksync.VerifC09SetYield(nil)
	}
	free0 := int64(a.totalPages) - int64(a.reservedPages)
	var (
		tick    int64
		st      c09Stats
		wg      gosync.WaitGroup
		start   = make(chan struct{})
		heldW   = make([][]uint64, workers)
		holdCap = 1 + int(free0)/workers + r.intn(4)
	)
	if r.chance(30) {
		holdCap = 1 + r.intn(3)
	}
	wg.Add(workers)
	for w := 0; w < workers; w++ {
		heldW[w] = make([]uint64, 0, holdCap+1)
		go func(w int, wr *vrng) {
			defer wg.Done()
			id := uint32(w + 1)
			mine := heldW[w]
			var s c09Stats
			<-start
			for it := 0; it < rd.ops; it++ {
				func() {
					defer func() {
						if rec := recover(); rec != nil {
							s.panics++
							a.mutex.Release()
						}
					}()
					c := wr.intn(100)
					switch {
					case (c < 55 && len(mine) < holdCap) || (len(mine) == 0 && c < 96):
						f, err := a.AllocFrame()
						switch {
						case err == errBitmapAllocOutOfMemory:
							s.oom++
						case err != nil:
							s.allocBad++
						case uint64(f) >= c09Table:
							s.foreign++
						case !atomic.CompareAndSwapUint32(&h.owner[f], 0, id):
							if atomic.LoadUint32(&h.owner[f]) == c09Reserved {
								s.foreign++ // a frame that was never free
							} else {
								s.dup++ // somebody else holds it right now
							}
						default:
							s.allocOk++
							mine = append(mine, uint64(f))
						}
					case c < 96 && len(mine) > 0:
						j := wr.intn(len(mine))
						f := mine[j]
						mine[j] = mine[len(mine)-1]
						mine = mine[:len(mine)-1]
						if !atomic.CompareAndSwapUint32(&h.owner[f], id, 0) {
							s.dup++
						}
						if err := a.FreeFrame(mm.Frame(f)); err == nil {
							s.freeOk++
						} else {
							s.freeBad++
						}
					default:
						if err := a.FreeFrame(mm.Frame(unmanaged[wr.intn(len(unmanaged))])); err == errBitmapAllocFrameNotManaged {
							s.unmOk++
						} else {
							s.unmBad++
						}
					}
				}()
				atomic.AddInt64(&tick, 1)
				if wr.intn(64) == 0 {
					runtime.Gosched()
				}
			}
			heldW[w] = mine
			for _, p := range []struct{ dst, src *int64 }{{&st.dup, &s.dup}, {&st.foreign, &s.foreign}, {&st.allocOk, &s.allocOk},
				{&st.oom, &s.oom}, {&st.allocBad, &s.allocBad}, {&st.freeOk, &s.freeOk}, {&st.freeBad, &s.freeBad},
				{&st.unmOk, &s.unmOk}, {&st.unmBad, &s.unmBad}, {&st.panics, &s.panics}} {
				atomic.AddInt64(p.dst, *p.src)
			}
		}(w, &vrng{s: rd.seed ^ (uint64(w+1) * 0x9e3779b97f4a7c15)})
	}
	done := make(chan struct{})
	go func() { wg.Wait(); close(done) }()
	gc := debug.SetGCPercent(-1) // a stop-the-world cannot interrupt a goroutine spinning in the assembly loop
	close(start)
	last, lastChange := int64(-1), time.Now()
wait:
	for {
		select {
		case <-done:
			break wait
		case <-time.After(100 * time.Millisecond):
			if now := atomic.LoadInt64(&tick); now != last {
				last, lastChange = now, time.Now()
			} else if time.Since(lastChange) > stuckAfter {
				stuck = true // nobody completed an operation for a very long time
				break wait
			}
		}
	}
	debug.SetGCPercent(gc)
	roundOp := fmt.Sprintf("round %d %d %d %d p", workers, rd.ops, yield, procs)
	for _, n := range rd.pools {
		roundOp += fmt.Sprintf(" %d", n)
	}
	roundOp += " o"
	for i := range rd.pools {
		k := i
		if rd.rank != nil {
			k = rd.rank[i]
		}
		roundOp += fmt.Sprintf(" %d", k)
	}
	stuckObs := fmt.Sprintf("%d 0 1 0 t 0 0 %d 0 0 c %d 0 0 0 0 0 0 0 0 0", atomic.LoadInt64(&st.dup), free0, atomic.LoadInt64(&tick))
	if stuck {
		h.out.printf("%s | %s\n", roundOp, stuckObs)
		return true
	}

	// ---- quiescence: totals, drain, clean-up
	total, reserved := int64(a.totalPages), int64(a.reservedPages)
	var nHeld int64
	for _, m := range heldW {
		nHeld += int64(len(m))
	}
	totalsOk := 0
	if total-reserved == free0-nHeld {
		totalsOk = 1
	}
	var drained []uint64
	var cleanupBad, drainBad, lost int64
	h.guarded(roundOp, stuckObs, func() {
		for i := int64(0); i <= free0+8; i++ {
			f, err := a.AllocFrame()
			if err != nil {
				break
			}
			if uint64(f) >= c09Table || !atomic.CompareAndSwapUint32(&h.owner[f], 0, c09Drain) {
				drainBad++ // handed out although somebody holds it (or it was never free)
				continue
			}
			drained = append(drained, uint64(f))
		}
		lost = free0 - nHeld - int64(len(drained)) - drainBad
		for _, f := range drained {
			h.owner[f] = 0
			if c09FreeCode(f) != 0 {
				cleanupBad++
			}
		}
		for _, m := range heldW {
			for _, f := range m {
				h.owner[f] = 0
				if c09FreeCode(f) != 0 {
					cleanupBad++
				}
			}
		}
	})
	h.out.printf("%s | %d %d 0 %d t %d %d %d %d %d c %d %d %d %d %d %d %d %d %d %d\n",
		roundOp, st.dup+drainBad, lost, totalsOk, total, reserved, free0, nHeld, len(drained),
		st.allocOk, st.oom, st.freeOk, st.unmOk, st.foreign, st.allocBad, st.freeBad, st.unmBad, st.panics, cleanupBad)
	h.lockLeak()
	h.stats() // must be the state the sequential phase left: nothing lost, nothing invented
	return false
}

// seqAlloc0Free frees a frame whose bit is clear (free) in some pool: a double free.
func (h *c09H) seqAlloc0Free(r *vrng) {
	a := &bitmapAllocator
	if len(a.pools) == 0 {
		return
	}
	p := &a.pools[r.intn(len(a.pools))]
	n := uint64(p.endFrame-p.startFrame) + 1
	for try := 0; try < 8; try++ {
		rel := uint64(r.intn(int(n)))
		if p.freeBitmap[rel>>6]&(1<<(63-rel&63)) == 0 {
			h.seqFree(uint64(p.startFrame) + rel)
			return
		}
	}
}

var c09Sizes = []int{1, 1, 2, 3, 5, 8, 31, 33, 62, 63, 64, 65, 66, 100, 127, 128, 129, 130}

func TestVerifC09(t *testing.T) {
	h := &c09H{out: verifOpen("VERIF_OUT"), owner: make([]uint32, c09Table)}
	defer h.out.close()
	defer func() {
		mapFn = vmm.Map
		reserveRegionFn = vmm.EarlyReserveRegion
		bootMemAllocator = BootMemAllocator{}
		bitmapAllocator = BitmapAllocator{}
		ksync.VerifC09SetYield(nil)
	}()
	h.install()
	h.stuckAfter = time.Duration(verifEnvInt("VERIF_C09_STUCK_S", 120)) * time.Second
	ops := verifEnvInt("VERIF_C09_OPS", 4000)
	if os.Getenv("VERIF_TIER") == "thorough" {
		ops *= 4
	}
	rng := &vrng{s: verifSeed()}

	// deterministic boundary list: one-frame pools, bitmap word boundaries, 2 and 16 workers, both yield modes;
	// then memory maps that list the pools in non-ascending address order (descending, [high low middle], ...)
	b := 0
	type cfg struct{ pools, rank []int }
	for _, c := range []cfg{{[]int{2}, nil}, {[]int{3, 1}, nil}, {[]int{2, 1, 1}, nil}, {[]int{64}, nil}, {[]int{65}, nil},
		{[]int{66, 1}, nil}, {[]int{130}, nil}, {[]int{63, 64, 65}, nil}, {[]int{5, 130, 1}, nil}, {[]int{2, 1, 2, 3, 130}, nil},
		{[]int{3, 64}, []int{1, 0}}, {[]int{2, 65, 1}, []int{2, 0, 1}}, {[]int{5, 130, 1}, []int{1, 2, 0}},
		{[]int{4, 63, 64, 65}, []int{3, 2, 1, 0}}} {
		for _, wy := range [][2]int{{2, 0}, {16, 1}, {14, 0}} {
			b++
			if h.round(fmt.Sprintf("b%d", b), c09Round{c.pools, c.rank, wy[0], ops, wy[1], uint64(b)}) {
				return
			}
			h.out.w.Flush()
		}
	}
	n := verifN(20)
	for i := 0; i < n; i++ {
		r := rng.fork()
		pools := []int{r.between(2, 5)}
		for k := r.intn(4); k > 0; k-- {
			pools = append(pools, c09Sizes[r.intn(len(c09Sizes))])
		}
		var rank []int
		if len(pools) > 1 && r.chance(50) {
			rank = c09Perm(r, len(pools))
		}
		rd := c09Round{pools, rank, r.between(2, 16), ops/2 + r.intn(ops), r.intn(2), r.next()}
		if h.round(fmt.Sprint(i), rd) {
			return
		}
		h.out.w.Flush()
	}
}
