//go:build verif

package sync

// Export shim of the /verif C09 harness (injected with `go test -overlay`; never committed to /repo).

// VerifC09SetYield sets the function the spinlock calls between acquisition attempts
// (nil is the kernel's current configuration: pure spinning).
func VerifC09SetYield(f func()) { yieldFn = f }
