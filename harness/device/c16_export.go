//go:build verif

package device

// Export shim of the /verif C16 harness (injected with `go test -overlay`; never committed to /repo).

// VerifSetDrivers replaces the driver registry.
func VerifSetDrivers(l DriverInfoList) { registeredDrivers = l }
