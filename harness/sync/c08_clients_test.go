//go:build verif

package sync

// C08 — clients of sync.Spinlock.
//
// The composed machine of lean/Firefly/Proof/SpinLocked.lean (`cstep`) assumes that every client
// call is `Acquire(); …; Release()`: the lock is taken once, released exactly once on every return
// path, and never released un-acquired.  c08Clients ties that assumption to the source on every
// run: it walks every non-test Go file under $VERIF_REPO/kernel, finds every declaration of
// sync.Spinlock type and every function that calls Acquire/Release/TryToAcquire on one, and prints
// the lock skeleton of each such function (control flow + lock calls, everything else `.skip`) as a
// `Firefly.Locked.Skel` term.  A new client is therefore noticed (it appears in `clients`, and the
// theorem `clients_disciplined` must hold of it); anything the reader cannot represent — a lock in
// a container or embedded, passed around, used in a closure / defer / goroutine / switch with
// control transfer, TryToAcquire in a client, a method named like a lock method on an unknown
// receiver — is an error (broken tie), never skipped.

import (
	"fmt"
	"go/ast"
	"go/parser"
	"go/token"
	"os"
	"path/filepath"
	"sort"
	"strings"
)

var c08LockMethods = map[string]bool{"Acquire": true, "Release": true, "TryToAcquire": true}

type c08Pkg struct {
	rel   string // directory relative to kernel/
	files []*ast.File
	fset  *token.FileSet
	// name by which each file refers to package sync ("" = the file is in package sync itself,
	// "-" = it does not import it)
	syncName map[*ast.File]string
	locks    map[string]string // field / variable name -> description
	// per function: a top-level `defer <lock>.Release()` has been seen (every later return releases
	// first, and so does the end of the body); we are directly inside a switch (an unlabelled
	// `break` would leave the switch, which the skeleton language cannot say)
	deferRel, inSwitch bool
}

type c08ClientErr struct{ msg string }

func c08Fail(fset *token.FileSet, n ast.Node, format string, args ...interface{}) {
	pos := ""
	if n != nil {
		p := fset.Position(n.Pos())
		pos = fmt.Sprintf("%s:%d: ", filepath.Base(p.Filename), p.Line)
	}
	panic(c08ClientErr{pos + fmt.Sprintf(format, args...)})
}

// isLock: 1 = sync.Spinlock or *sync.Spinlock, 2 = a composite type containing one, 0 = no
func (p *c08Pkg) isLock(f *ast.File, e ast.Expr) int {
	switch t := e.(type) {
	case *ast.StarExpr:
		return p.isLock(f, t.X)
	case *ast.ParenExpr:
		return p.isLock(f, t.X)
	case *ast.Ident:
		if p.syncName[f] == "" && t.Name == "Spinlock" {
			return 1
		}
	case *ast.SelectorExpr:
		if id, ok := t.X.(*ast.Ident); ok && t.Sel.Name == "Spinlock" && p.syncName[f] != "" && id.Name == p.syncName[f] {
			return 1
		}
	case *ast.ArrayType:
		if p.isLock(f, t.Elt) != 0 {
			return 2
		}
	case *ast.MapType:
		if p.isLock(f, t.Value) != 0 || p.isLock(f, t.Key) != 0 {
			return 2
		}
	case *ast.ChanType:
		if p.isLock(f, t.Value) != 0 {
			return 2
		}
	case *ast.FuncType:
		for _, fl := range []*ast.FieldList{t.Params, t.Results} {
			if fl != nil {
				for _, x := range fl.List {
					if p.isLock(f, x.Type) != 0 {
						return 2
					}
				}
			}
		}
	}
	return 0
}

// lastName: the field / variable name a receiver expression ends in
func c08LastName(e ast.Expr) string {
	switch t := e.(type) {
	case *ast.Ident:
		return t.Name
	case *ast.SelectorExpr:
		return t.Sel.Name
	case *ast.ParenExpr:
		return c08LastName(t.X)
	case *ast.StarExpr:
		return c08LastName(t.X)
	case *ast.UnaryExpr:
		if t.Op == token.AND {
			return c08LastName(t.X)
		}
	}
	return ""
}

// lockCall: is `e` a call X.Acquire() / X.Release() / X.TryToAcquire() on a known lock?
func (p *c08Pkg) lockCall(f *ast.File, e ast.Expr) (method string, sel *ast.SelectorExpr) {
	c, ok := e.(*ast.CallExpr)
	if !ok || len(c.Args) != 0 {
		return "", nil
	}
	s, ok := c.Fun.(*ast.SelectorExpr)
	if !ok || !c08LockMethods[s.Sel.Name] {
		return "", nil
	}
	if n := c08LastName(s.X); n != "" && p.locks[n] != "" {
		return s.Sel.Name, s
	}
	if p.syncName[f] != "-" {
		// a lock method name on a receiver we cannot identify, in a file that can see sync.Spinlock
		c08Fail(p.fset, e, "call of %s() on a receiver that is not a declared sync.Spinlock field or variable", s.Sel.Name)
	}
	return "", nil
}

func (p *c08Pkg) hasLockCall(f *ast.File, n ast.Node) bool {
	found := false
	if n == nil {
		return false
	}
	ast.Inspect(n, func(x ast.Node) bool {
		if e, ok := x.(ast.Expr); ok {
			if m, _ := p.lockCall(f, e); m != "" {
				found = true
			}
		}
		return !found
	})
	return found
}

func c08HasTransfer(n ast.Node) bool {
	found := false
	ast.Inspect(n, func(x ast.Node) bool {
		switch x.(type) {
		case *ast.ReturnStmt, *ast.BranchStmt:
			found = true
		case *ast.FuncLit:
			return false
		}
		return !found
	})
	return found
}

func c08Block(xs []string) string {
	if len(xs) == 1 {
		return xs[0]
	}
	return "(.block [" + strings.Join(xs, ", ") + "])"
}

// pure: the node must not contain a lock call; it contributes nothing to the skeleton
func (p *c08Pkg) pure(f *ast.File, n ast.Node, what string) {
	if n != nil && p.hasLockCall(f, n) {
		c08Fail(p.fset, n, "lock call inside %s is not supported", what)
	}
}

func (p *c08Pkg) stmts(f *ast.File, ss []ast.Stmt) string {
	var out []string
	for _, s := range ss {
		if t := p.stmt(f, s); t != ".skip" {
			out = append(out, t)
		}
	}
	if len(out) == 0 {
		return ".skip"
	}
	return c08Block(out)
}

// body: the statements of a client function. A top-level `defer <lock>.Release()` is understood
// exactly: from there on every `return` is `[.release, .ret]` and `.release` ends the body.
func (p *c08Pkg) body(f *ast.File, fd *ast.FuncDecl) string {
	p.deferRel, p.inSwitch = false, false
	var out []string
	for _, s := range fd.Body.List {
		if d, ok := s.(*ast.DeferStmt); ok {
			if m, _ := p.lockCall(f, d.Call); m == "Release" && !p.deferRel {
				p.deferRel = true
				continue
			}
		}
		if t := p.stmt(f, s); t != ".skip" {
			out = append(out, t)
		}
	}
	if p.deferRel {
		out = append(out, ".release")
		p.deferRel = false
	}
	if len(out) == 0 {
		return ".skip"
	}
	return c08Block(out)
}

func (p *c08Pkg) ret() string {
	if p.deferRel {
		return "(.block [.release, .ret])"
	}
	return ".ret"
}

func (p *c08Pkg) stmt(f *ast.File, s ast.Stmt) string {
	switch t := s.(type) {
	case nil:
		return ".skip"
	case *ast.ExprStmt:
		if m, _ := p.lockCall(f, t.X); m != "" {
			switch m {
			case "Acquire":
				return ".acquire"
			case "Release":
				return ".release"
			}
			c08Fail(p.fset, s, "TryToAcquire in a client is not supported by the composed machine")
		}
		p.pure(f, t.X, "an expression")
		if c, ok := t.X.(*ast.CallExpr); ok {
			if id, ok := c.Fun.(*ast.Ident); ok && id.Name == "panic" {
				return p.ret() // leaves the function: the lock must not be held
			}
		}
		return ".skip"
	case *ast.BlockStmt:
		return p.stmts(f, t.List)
	case *ast.IfStmt:
		if t.Init != nil {
			p.pure(f, t.Init, "an if initialiser")
		}
		p.pure(f, t.Cond, "a condition")
		th, el := p.stmts(f, t.Body.List), ".skip"
		if t.Else != nil {
			el = p.stmt(f, t.Else)
		}
		if th == ".skip" && el == ".skip" {
			return ".skip"
		}
		return "(.ite .skip " + th + " " + el + ")"
	case *ast.ForStmt:
		if t.Init != nil {
			p.pure(f, t.Init, "a loop initialiser")
		}
		if t.Cond != nil {
			p.pure(f, t.Cond, "a loop condition")
		}
		if t.Post != nil {
			p.pure(f, t.Post, "a loop post statement")
		}
		saved := p.inSwitch
		p.inSwitch = false
		body := p.stmts(f, t.Body.List)
		p.inSwitch = saved
		if body == ".skip" {
			return ".skip"
		}
		return "(.loop .skip " + body + " .skip)"
	case *ast.RangeStmt:
		p.pure(f, t.X, "a range expression")
		saved := p.inSwitch
		p.inSwitch = false
		body := p.stmts(f, t.Body.List)
		p.inSwitch = saved
		if body == ".skip" {
			return ".skip"
		}
		return "(.loop .skip " + body + " .skip)"
	case *ast.ReturnStmt:
		for _, r := range t.Results {
			p.pure(f, r, "a return value")
		}
		return p.ret()
	case *ast.BranchStmt:
		if t.Label == nil && t.Tok == token.BREAK {
			if p.inSwitch {
				c08Fail(p.fset, s, "unlabelled break inside a switch in a lock client is not supported")
			}
			return ".brk"
		}
		if t.Label == nil && t.Tok == token.CONTINUE {
			return ".cont"
		}
		c08Fail(p.fset, s, "labelled branch / goto / fallthrough in a lock client is not supported")
	case *ast.AssignStmt, *ast.DeclStmt, *ast.IncDecStmt, *ast.EmptyStmt, *ast.SendStmt:
		p.pure(f, s, "an assignment or declaration")
		return ".skip"
	case *ast.SwitchStmt:
		// an expression switch without fallthrough = an if/else chain over its arms, default last
		if t.Init != nil {
			p.pure(f, t.Init, "a switch initialiser")
		}
		if t.Tag != nil {
			p.pure(f, t.Tag, "a switch tag")
		}
		saved := p.inSwitch
		p.inSwitch = true
		var arms []string
		def := ".skip"
		for _, c := range t.Body.List {
			cc := c.(*ast.CaseClause)
			for _, e := range cc.List {
				p.pure(f, e, "a case expression")
			}
			for _, st := range cc.Body {
				if b, ok := st.(*ast.BranchStmt); ok && b.Tok == token.FALLTHROUGH {
					c08Fail(p.fset, st, "fallthrough in a lock client is not supported")
				}
			}
			b := p.stmts(f, cc.Body)
			if cc.List == nil {
				def = b
			} else {
				arms = append(arms, b)
			}
		}
		p.inSwitch = saved
		res := def
		for i := len(arms) - 1; i >= 0; i-- {
			if arms[i] == ".skip" && res == ".skip" {
				continue
			}
			res = "(.ite .skip " + arms[i] + " " + res + ")"
		}
		return res
	default:
		// type switch, select, labelled statement, defer, go: only if they can neither touch the lock
		// nor leave the function / a loop
		if p.hasLockCall(f, s) || c08HasTransfer(s) {
			c08Fail(p.fset, s, "%T with lock calls or control transfer in a lock client is not supported", s)
		}
		return ".skip"
	}
	return ".skip"
}

func c08FuncName(rel string, d *ast.FuncDecl) string {
	name := d.Name.Name
	if d.Recv != nil && len(d.Recv.List) == 1 {
		name = c08LastName(d.Recv.List[0].Type) + "." + name
	}
	return rel + "." + name
}

// c08Clients returns the Lean definitions `lockDecls` and `clients`.
func c08Clients(repo string) (text string, err error) {
	defer func() {
		if r := recover(); r != nil {
			if e, ok := r.(c08ClientErr); ok {
				text, err = "", fmt.Errorf("lock clients: %s", e.msg)
				return
			}
			panic(r)
		}
	}()
	root := filepath.Join(repo, "kernel")
	pkgs := map[string]*c08Pkg{}
	fset := token.NewFileSet()
	werr := filepath.Walk(root, func(path string, info os.FileInfo, err error) error {
		if err != nil {
			return err
		}
		if info.IsDir() || !strings.HasSuffix(path, ".go") || strings.HasSuffix(path, "_test.go") {
			return nil
		}
		f, err := parser.ParseFile(fset, path, nil, 0)
		if err != nil {
			return err
		}
		rel, _ := filepath.Rel(root, filepath.Dir(path))
		p := pkgs[rel]
		if p == nil {
			p = &c08Pkg{rel: rel, fset: fset, syncName: map[*ast.File]string{}, locks: map[string]string{}}
			pkgs[rel] = p
		}
		p.files = append(p.files, f)
		p.syncName[f] = "-"
		if rel == "sync" {
			p.syncName[f] = ""
		}
		for _, im := range f.Imports {
			if strings.HasSuffix(strings.Trim(im.Path.Value, `"`), "/kernel/sync") {
				p.syncName[f] = "sync"
				if im.Name != nil {
					if im.Name.Name == "." || im.Name.Name == "_" {
						c08Fail(fset, im, "dot/blank import of kernel/sync is not supported")
					}
					p.syncName[f] = im.Name.Name
				}
			}
		}
		return nil
	})
	if werr != nil {
		return "", werr
	}
	var rels []string
	for r := range pkgs {
		rels = append(rels, r)
	}
	sort.Strings(rels)

	var decls, clients []string
	for _, rel := range rels {
		p := pkgs[rel]
		// 1. declarations of lock type
		for _, f := range p.files {
			if p.syncName[f] == "-" {
				continue
			}
			ast.Inspect(f, func(n ast.Node) bool {
				switch t := n.(type) {
				case *ast.TypeSpec:
					if st, ok := t.Type.(*ast.StructType); ok {
						for _, fl := range st.Fields.List {
							k := p.isLock(f, fl.Type)
							if k == 0 {
								continue
							}
							if k == 2 || len(fl.Names) == 0 {
								c08Fail(fset, fl, "embedded sync.Spinlock or Spinlock inside a composite type is not supported")
							}
							if _, ptr := fl.Type.(*ast.StarExpr); ptr {
								c08Fail(fset, fl, "pointer-to-Spinlock field (a shared lock) is not supported")
							}
							for _, nm := range fl.Names {
								p.locks[nm.Name] = rel + "." + t.Name.Name + "." + nm.Name
							}
						}
					} else if p.isLock(f, t.Type) != 0 {
						c08Fail(fset, t, "named type built from sync.Spinlock is not supported")
					}
				case *ast.ValueSpec:
					if t.Type != nil {
						if k := p.isLock(f, t.Type); k == 1 {
							if _, ptr := t.Type.(*ast.StarExpr); ptr {
								c08Fail(fset, t, "pointer-to-Spinlock variable is not supported")
							}
							for _, nm := range t.Names {
								p.locks[nm.Name] = rel + "." + nm.Name
							}
						} else if k == 2 {
							c08Fail(fset, t, "Spinlock inside a composite type is not supported")
						}
					}
				case *ast.FuncDecl:
					own := rel == "sync" && t.Recv != nil && len(t.Recv.List) == 1 && c08LastName(t.Recv.List[0].Type) == "Spinlock"
					if !own {
						if p.isLock(f, t.Type) != 0 {
							c08Fail(fset, t, "function %s takes or returns a Spinlock", t.Name.Name)
						}
						if t.Recv != nil && p.isLock(f, t.Recv.List[0].Type) != 0 {
							c08Fail(fset, t, "method on Spinlock outside spinlock.go: %s", t.Name.Name)
						}
					}
				case *ast.FuncLit:
					if p.isLock(f, t.Type) != 0 {
						c08Fail(fset, t, "function literal takes or returns a Spinlock")
					}
				}
				return true
			})
		}
		for _, d := range p.locks {
			decls = append(decls, d)
		}
		// 2. client functions
		lockFuncs := map[string]bool{}
		type cl struct {
			f *ast.File
			d *ast.FuncDecl
		}
		var found []cl
		for _, f := range p.files {
			for _, d := range f.Decls {
				fd, ok := d.(*ast.FuncDecl)
				if !ok || fd.Body == nil {
					if gd, ok := d.(*ast.GenDecl); ok && p.hasLockCall(f, gd) {
						c08Fail(fset, gd, "lock call in a package-level initialiser")
					}
					continue
				}
				if rel == "sync" && fd.Recv != nil && c08LastName(fd.Recv.List[0].Type) == "Spinlock" {
					continue // the lock's own methods (modelled instruction by instruction)
				}
				if p.hasLockCall(f, fd.Body) {
					lockFuncs[fd.Name.Name] = true
					found = append(found, cl{f, fd})
				}
			}
		}
		for _, c := range found {
			f, fd := c.f, c.d
			approved := map[*ast.SelectorExpr]bool{}
			ast.Inspect(fd.Body, func(n ast.Node) bool {
				switch t := n.(type) {
				case *ast.FuncLit:
					if p.hasLockCall(f, t) {
						c08Fail(fset, t, "lock call inside a function literal")
					}
				case *ast.GoStmt:
					if p.hasLockCall(f, t) {
						c08Fail(fset, t, "lock call in a go statement")
					}
				case *ast.DeferStmt:
					topLevel := false
					for _, st := range fd.Body.List {
						topLevel = topLevel || st == ast.Stmt(t)
					}
					if m, _ := p.lockCall(f, t.Call); p.hasLockCall(f, t) && !(topLevel && m == "Release") {
						c08Fail(fset, t, "lock call in defer (only a top-level `defer <lock>.Release()` is understood)")
					}
				case *ast.CallExpr:
					if _, s := p.lockCall(f, t); s != nil {
						if inner, ok := s.X.(*ast.SelectorExpr); ok {
							approved[inner] = true
						}
					} else if nm := c08LastName(t.Fun); lockFuncs[nm] {
						c08Fail(fset, t, "lock client %s calls lock client %s (nested use of the lock)", fd.Name.Name, nm)
					}
				}
				return true
			})
			clients = append(clients, fmt.Sprintf("(%q, %s)", c08FuncName(rel, fd), p.body(f, fd)))
		}
		// 3. any other use of a lock field (copy, address taken, passed on) escapes the analysis
		for _, f := range p.files {
			ast.Inspect(f, func(n ast.Node) bool {
				if c, ok := n.(*ast.CallExpr); ok {
					if _, s := p.lockCall(f, c); s != nil {
						// the receiver of a lock call is fine; look only at its own sub-expressions
						if inner, ok := s.X.(*ast.SelectorExpr); ok {
							ast.Inspect(inner.X, func(m ast.Node) bool {
								if se, ok := m.(*ast.SelectorExpr); ok && p.locks[se.Sel.Name] != "" {
									c08Fail(fset, se, "use of lock field %s other than as the receiver of Acquire/Release/TryToAcquire", se.Sel.Name)
								}
								return true
							})
						}
						return false
					}
				}
				if se, ok := n.(*ast.SelectorExpr); ok && p.locks[se.Sel.Name] != "" {
					if rel == "sync" {
						return true // spinlock.go's own `l.state` style accesses are not lock fields
					}
					c08Fail(fset, se, "use of lock field %s other than as the receiver of Acquire/Release/TryToAcquire", se.Sel.Name)
				}
				return true
			})
		}
	}
	sort.Strings(decls)
	sort.Strings(clients)
	var b strings.Builder
	b.WriteString("/-- every field / variable of type sync.Spinlock declared under kernel/ -/\ndef lockDecls : List String := [")
	for i, d := range decls {
		if i > 0 {
			b.WriteString(", ")
		}
		fmt.Fprintf(&b, "%q", d)
	}
	b.WriteString("]\n\n/-- lock skeleton of every function under kernel/ that calls Acquire / Release / TryToAcquire on one of\nthem (control flow and lock calls; every other statement is `.skip`) -/\ndef clients : List (String × Firefly.Locked.Skel) := [\n")
	for i, c := range clients {
		sep := ","
		if i == len(clients)-1 {
			sep = ""
		}
		fmt.Fprintf(&b, "  %s%s\n", c, sep)
	}
	b.WriteString("]\n")
	return b.String(), nil
}
