//go:build verif

package sync

// C08 — spin lock: mutual exclusion; try-acquire never lies.
//
//   TestVerifFactsC08  reads the SOURCE files (assembly is invisible to reflection) under
//                      $VERIF_REPO and prints lean/Firefly/Gen/C08.lean: archAcquireSpinlock as a
//                      List Instr, the three Go method bodies as atomic-op IR.  Anything it does
//                      not understand is an error (broken tie), never skipped.
//   TestVerifC08       (a) deterministic single-goroutine traces, (b) multi-goroutine stress with
//                      a holder counter and a plain protected counter, (c) `search` lines that make
//                      the Lean driver explore the regenerated model.

import (
	"fmt"
	"go/ast"
	"go/constant"
	"go/importer"
	"go/parser"
	"go/token"
	"go/types"
	"os"
	"path/filepath"
	"runtime"
	"runtime/debug"
	"strconv"
	"strings"
	gosync "sync"
	"sync/atomic"
	"testing"
	"time"
)

// ------------------------------------------------------------------ fact generator

type c08Param struct {
	name      string
	off, size int
}

var c08Regs = map[string]bool{"AX": true, "BX": true, "CX": true, "DX": true}

// mnemonic -> (lean constructor, operand count, isJump, rmw). rmw = read-modify-write of its last
// operand: the constructor takes a leading Bool "carries a LOCK prefix"; with a memory destination
// and no LOCK the Lean machine executes it as two steps (read; write).  XCHGL with a memory operand
// is implicitly locked and stays one step.
var c08Mnemonics = map[string]struct {
	ctor string
	n    int
	jump bool
	rmw  bool
}{
	"MOVQ": {"movq", 2, false, false}, "MOVL": {"movl", 2, false, false}, "XCHGL": {"xchgl", 2, false, false},
	"TESTL": {"testl", 2, false, false}, "TESTQ": {"testq", 2, false, false}, "CMPL": {"cmpl", 2, false, false},
	"XORL": {"xorl", 2, false, true}, "DECL": {"decl", 1, false, true}, "CMPXCHGL": {"cmpxchgl", 2, false, true},
	"PAUSE": {"pause", 0, false, false}, "CALL": {"call", 1, false, false}, "RET": {"ret", 0, false, false},
	"JZ": {"jz", 1, true, false}, "JE": {"jz", 1, true, false}, "JEQ": {"jz", 1, true, false},
	"JNZ": {"jnz", 1, true, false}, "JNE": {"jnz", 1, true, false}, "JMP": {"jmp", 1, true, false},
}

func c08Operand(s string, params []c08Param) (string, error) {
	s = strings.TrimSpace(s)
	if strings.HasPrefix(s, "$") {
		n, err := strconv.ParseUint(s[1:], 0, 64)
		if err != nil {
			return "", fmt.Errorf("immediate %q: %v", s, err)
		}
		return fmt.Sprintf("(.imm %d)", n), nil
	}
	if c08Regs[s] {
		return "(.reg ." + s + ")", nil
	}
	if i := strings.Index(s, "("); i >= 0 && strings.HasSuffix(s, ")") {
		base, pre := s[i+1:len(s)-1], s[:i]
		switch {
		case c08Regs[base]:
			off := uint64(0)
			if pre != "" {
				var err error
				if off, err = strconv.ParseUint(pre, 0, 32); err != nil {
					return "", fmt.Errorf("memory operand %q: %v", s, err)
				}
			}
			return fmt.Sprintf("(.mem .%s %d)", base, off), nil
		case base == "FP" || base == "SB":
			j := strings.Index(pre, "+")
			name, off := pre, uint64(0)
			if j >= 0 {
				var err error
				name = pre[:j]
				if off, err = strconv.ParseUint(pre[j+1:], 0, 32); err != nil {
					return "", fmt.Errorf("operand %q: %v", s, err)
				}
			}
			if base == "FP" {
				for _, p := range params {
					if p.name == name && p.off == int(off) {
						return fmt.Sprintf("(.fp %d)", off), nil
					}
				}
				return "", fmt.Errorf("operand %q does not name a parameter of the Go prototype %v", s, params)
			}
			if name == "·yieldFn" {
				return fmt.Sprintf("(.sb .yieldFn %d)", off), nil
			}
			return "", fmt.Errorf("unknown symbol in %q", s)
		}
	}
	return "", fmt.Errorf("unknown operand form %q", s)
}

// c08ParseAsm turns the body of TEXT ·fn(SB) into Lean `Instr` terms (labels resolved).
// c08Ins is one parsed instruction: `term` is the Lean constructor application without the jump
// target; kind is "plain", "jz", "jnz", "jmp" or "ret"; target is a raw instruction index.
type c08Ins struct {
	term, text, kind string
	target           int
}

func c08ParseAsm(src, fn string, params []c08Param) (prog []c08Ins, frame string, err error) {
	type raw struct {
		mn   string
		args []string
		line string
		lock bool
	}
	var ins []raw
	labels := map[string]int{}
	in, lockNext := false, false
	var lines []string
	for _, line := range strings.Split(src, "\n") {
		if i := strings.Index(line, "//"); i >= 0 {
			line = line[:i]
		}
		if strings.HasPrefix(strings.TrimSpace(line), "#") || strings.HasPrefix(strings.TrimSpace(line), "TEXT") {
			lines = append(lines, line)
			continue
		}
		lines = append(lines, strings.Split(line, ";")...) // `LOCK; CMPXCHGL …` on one line
	}
	for _, line := range lines {
		line = strings.TrimSpace(line)
		if line == "" || strings.HasPrefix(line, "#include") {
			continue
		}
		if strings.HasPrefix(line, "TEXT") {
			in = strings.HasPrefix(strings.TrimSpace(line[4:]), "·"+fn+"(SB)")
			if in {
				f := strings.Split(line, ",")
				frame = strings.TrimSpace(f[len(f)-1])
			}
			continue
		}
		if !in {
			continue
		}
		if strings.HasSuffix(line, ":") && !strings.ContainsAny(line, " \t,") {
			l := strings.TrimSuffix(line, ":")
			if _, dup := labels[l]; dup {
				return nil, "", fmt.Errorf("duplicate label %q", l)
			}
			labels[l] = len(ins)
			continue
		}
		f := strings.Fields(line)
		if f[0] == "LOCK" && len(f) == 1 {
			if lockNext {
				return nil, "", fmt.Errorf("LOCK LOCK")
			}
			lockNext = true
			continue
		}
		r := raw{mn: f[0], line: strings.Join(f, " "), lock: lockNext}
		if lockNext {
			r.line = "LOCK; " + r.line
		}
		lockNext = false
		rest := strings.TrimSpace(line[len(f[0]):])
		if rest != "" {
			for _, a := range strings.Split(rest, ",") {
				r.args = append(r.args, strings.TrimSpace(a))
			}
		}
		ins = append(ins, r)
	}
	if lockNext {
		return nil, "", fmt.Errorf("dangling LOCK prefix")
	}
	if len(ins) == 0 {
		return nil, "", fmt.Errorf("TEXT ·%s(SB) not found or empty", fn)
	}
	for i, r := range ins {
		m, ok := c08Mnemonics[r.mn]
		if !ok {
			return nil, "", fmt.Errorf("instruction %d: unknown mnemonic %q in %q", i, r.mn, r.line)
		}
		if len(r.args) != m.n {
			return nil, "", fmt.Errorf("instruction %d: %q expects %d operands", i, r.line, m.n)
		}
		term := "." + m.ctor
		isMem := func(a string) bool {
			return strings.HasSuffix(a, ")") && !strings.HasSuffix(a, "(FP)") && !strings.HasSuffix(a, "(SB)")
		}
		switch {
		case m.rmw:
			term += fmt.Sprintf(" %v", r.lock)
			if r.lock && !isMem(r.args[len(r.args)-1]) {
				return nil, "", fmt.Errorf("instruction %d: LOCK prefix on %q without a memory destination", i, r.line)
			}
		case r.lock && !(m.ctor == "xchgl" && (isMem(r.args[0]) || isMem(r.args[1]))):
			return nil, "", fmt.Errorf("instruction %d: LOCK prefix on %q is not modelled", i, r.line)
		}
		in := c08Ins{text: r.line, kind: "plain"}
		if m.ctor == "ret" {
			in.kind = "ret"
		}
		if m.jump {
			t, ok := labels[r.args[0]]
			if !ok {
				return nil, "", fmt.Errorf("instruction %d: unknown label in %q", i, r.line)
			}
			in.kind, in.target = m.ctor, t
		} else {
			for _, a := range r.args {
				o, err := c08Operand(a, params)
				if err != nil {
					return nil, "", fmt.Errorf("instruction %d (%s): %v", i, r.line, err)
				}
				term += " " + o
			}
		}
		in.term = term
		prog = append(prog, in)
	}
	return prog, frame, nil
}

// c08Canon re-linearises the program in a layout-independent order so that the pc-indexed Lean
// proofs see the same instruction list for every block layout / jump polarity of the same control
// flow graph.  Basic blocks; conditional edges normalised to (successor if ZF, successor if not ZF);
// blocks that only jump are threaded away; depth-first from the entry, placing at a conditional the
// Z successor as fall-through — unless the NZ successor is a straight block leading into the Z
// successor, which then comes first — and emitting explicit jumps only to blocks already placed.
// Returns the canonical program (jump targets = canonical indices) and, per canonical instruction,
// the raw index it stands for (checked in Lean: Props/C08.canonical_program_is_source_program).
func c08Canon(raw []c08Ins) (canon []c08Ins, origin []int, err error) {
	n := len(raw)
	leader := make([]bool, n+1)
	leader[0] = true
	for i, in := range raw {
		if in.kind != "plain" {
			leader[i+1] = true
			if in.kind != "ret" {
				if in.target < 0 || in.target >= n {
					return nil, nil, fmt.Errorf("jump target out of range in %q", in.text)
				}
				leader[in.target] = true
			}
		}
	}
	type block struct {
		body         []int // raw indices of plain instructions
		term         string
		termIdx      int // raw index of the terminating jz/jnz/ret (or -1)
		z, nz, next  int // successor blocks (leader indices)
	}
	blocks := map[int]*block{}
	for i := 0; i < n; i++ {
		if !leader[i] {
			continue
		}
		b := &block{termIdx: -1}
		j := i
		for j < n && raw[j].kind == "plain" && (j == i || !leader[j]) {
			b.body = append(b.body, j)
			j++
		}
		switch {
		case j >= n:
			return nil, nil, fmt.Errorf("control falls off the end of the function")
		case j > i && leader[j]:
			b.term, b.next = "goto", j // the next instruction starts another block
		case raw[j].kind == "ret":
			b.term, b.termIdx = "ret", j
		case raw[j].kind == "jmp":
			b.term, b.next = "goto", raw[j].target
		case j+1 >= n:
			return nil, nil, fmt.Errorf("control falls off the end of the function")
		case raw[j].kind == "jz":
			b.term, b.termIdx, b.z, b.nz = "cond", j, raw[j].target, j+1
		case raw[j].kind == "jnz":
			b.term, b.termIdx, b.z, b.nz = "cond", j, j+1, raw[j].target
		}
		blocks[i] = b
	}
	// thread blocks that consist of a jump only
	var resolve func(b int, depth int) int
	resolve = func(b int, depth int) int {
		if blk := blocks[b]; blk != nil && len(blk.body) == 0 && blk.term == "goto" && depth < n+1 {
			return resolve(blk.next, depth+1)
		}
		return b
	}
	for _, b := range blocks {
		b.z, b.nz, b.next = resolve(b.z, 0), resolve(b.nz, 0), resolve(b.next, 0)
		if b.term == "cond" && b.z == b.nz {
			b.term, b.next = "goto", b.z
		}
	}
	type item struct {
		ins    c08Ins
		origin int
		tblock int // target block of a jump (-1 otherwise)
	}
	var out []item
	start := map[int]int{}
	straightInto := func(a, b int) bool {
		return a != b && blocks[a].term == "goto" && blocks[a].next == b
	}
	var place func(b int)
	place = func(b int) {
		if _, done := start[b]; done {
			return
		}
		start[b] = len(out)
		blk := blocks[b]
		for _, i := range blk.body {
			out = append(out, item{raw[i], i, -1})
		}
		jump := func(kind string, to, origin int) {
			out = append(out, item{c08Ins{term: "." + kind, text: strings.ToUpper(kind) + " ", kind: kind}, origin, to})
		}
		placed := func(x int) bool { _, ok := start[x]; return ok }
		switch blk.term {
		case "ret":
			out = append(out, item{raw[blk.termIdx], blk.termIdx, -1})
		case "goto":
			if placed(blk.next) {
				jump("jmp", blk.next, -1)
			} else {
				place(blk.next)
			}
		case "cond":
			first, second := blk.z, blk.nz
			switch {
			case placed(blk.z) && placed(blk.nz):
				jump("jz", blk.z, blk.termIdx)
				jump("jmp", blk.nz, -1)
				return
			case placed(blk.z):
				first, second = blk.nz, blk.z
			case placed(blk.nz):
			case straightInto(blk.nz, blk.z):
				first, second = blk.nz, blk.z
			}
			if second == blk.z {
				jump("jz", second, blk.termIdx)
			} else {
				jump("jnz", second, blk.termIdx)
			}
			place(first)
			place(second)
		}
	}
	place(resolve(0, 0))
	for _, it := range out {
		in := it.ins
		if it.tblock >= 0 {
			in.target = start[it.tblock]
			in.text += fmt.Sprintf("@%d", in.target)
		}
		canon = append(canon, in)
		origin = append(origin, it.origin)
	}
	return canon, origin, nil
}


func c08TypeSize(e ast.Expr) (int, string, error) {
	switch t := e.(type) {
	case *ast.StarExpr:
		if id, ok := t.X.(*ast.Ident); ok {
			return 8, "*" + id.Name, nil
		}
	case *ast.Ident:
		switch t.Name {
		case "uint32", "int32":
			return 4, t.Name, nil
		case "uint64", "int64", "uintptr":
			return 8, t.Name, nil
		}
	}
	return 0, "", fmt.Errorf("unsupported parameter type %T", e)
}

// c08Bind: what a name stands for while a method body (and the package-local helpers it calls,
// which are inlined) is translated: the lock itself (the *Spinlock receiver), the address of its
// state word, or an integer constant.
type c08Bind struct {
	kind string // "lock", "state", "const"
	val  uint64
}

type c08GoTr struct {
	method     string // the exported method being translated (for messages)
	atomicName string
	info       *types.Info
	decls      map[types.Object]*ast.FuncDecl // package-local functions and Spinlock methods with a body
	ops        []string
	tmpLocal   types.Object // the local that holds the last atomic read, if any
	active     map[*ast.FuncDecl]bool
}

func (t *c08GoTr) errf(format string, args ...interface{}) error {
	return fmt.Errorf("%s: "+format, append([]interface{}{t.method}, args...)...)
}

// constant: a literal, a named constant, a conversion/arithmetic over them (go/types), or a
// parameter bound to one
func (t *c08GoTr) constant(env map[types.Object]c08Bind, e ast.Expr) (uint64, bool) {
	if tv, ok := t.info.Types[e]; ok && tv.Value != nil && tv.Value.Kind() == constant.Int {
		if v, exact := constant.Uint64Val(tv.Value); exact && v < 1<<32 {
			return v, true
		}
	}
	if id, ok := e.(*ast.Ident); ok {
		if b, ok := env[t.info.Uses[id]]; ok && b.kind == "const" {
			return b.val, true
		}
	}
	if p, ok := e.(*ast.ParenExpr); ok {
		return t.constant(env, p.X)
	}
	return 0, false
}

func (t *c08GoTr) isLock(env map[types.Object]c08Bind, e ast.Expr) bool {
	id, ok := e.(*ast.Ident)
	return ok && env[t.info.Uses[id]].kind == "lock"
}

// isState: `&l.state` for a name bound to the lock, or a parameter bound to that address
func (t *c08GoTr) isState(env map[types.Object]c08Bind, e ast.Expr) bool {
	switch x := e.(type) {
	case *ast.ParenExpr:
		return t.isState(env, x.X)
	case *ast.Ident:
		return env[t.info.Uses[x]].kind == "state"
	case *ast.UnaryExpr:
		if s, ok := x.X.(*ast.SelectorExpr); ok && x.Op == token.AND && s.Sel.Name == "state" {
			return t.isLock(env, s.X)
		}
	}
	return false
}

// callee: the package-local function or Spinlock method (with a body) that `c` calls, with the
// bindings of its parameters; nil if `c` is not such a call
func (t *c08GoTr) callee(env map[types.Object]c08Bind, c *ast.CallExpr) (*ast.FuncDecl, map[types.Object]c08Bind, error) {
	var obj types.Object
	cenv := map[types.Object]c08Bind{}
	switch f := c.Fun.(type) {
	case *ast.Ident:
		obj = t.info.Uses[f]
	case *ast.SelectorExpr:
		if t.isLock(env, f.X) {
			obj = t.info.Uses[f.Sel]
		}
	}
	fd := t.decls[obj]
	if fd == nil {
		return nil, nil, nil
	}
	if fd.Recv != nil {
		if len(fd.Recv.List) != 1 || len(fd.Recv.List[0].Names) != 1 {
			return nil, nil, t.errf("helper method %s has no named receiver", fd.Name.Name)
		}
		if _, isPtr := fd.Recv.List[0].Type.(*ast.StarExpr); !isPtr {
			return nil, nil, t.errf("the receiver of helper method %s is not a pointer (it would operate on a copy of the lock)", fd.Name.Name)
		}
		cenv[t.info.Defs[fd.Recv.List[0].Names[0]]] = c08Bind{kind: "lock"}
	}
	var params []*ast.Ident
	for _, fl := range fd.Type.Params.List {
		params = append(params, fl.Names...)
	}
	if len(params) != len(c.Args) || c.Ellipsis.IsValid() {
		return nil, nil, t.errf("call of helper %s: parameters cannot be bound", fd.Name.Name)
	}
	for i, a := range c.Args {
		switch v, isConst := t.constant(env, a); {
		case t.isState(env, a):
			cenv[t.info.Defs[params[i]]] = c08Bind{kind: "state"}
		case t.isLock(env, a):
			cenv[t.info.Defs[params[i]]] = c08Bind{kind: "lock"}
		case isConst:
			cenv[t.info.Defs[params[i]]] = c08Bind{kind: "const", val: v}
		default:
			return nil, nil, t.errf("call of helper %s: argument %d is neither the lock, &lock.state nor an integer constant", fd.Name.Name, i)
		}
	}
	if t.active[fd] {
		return nil, nil, t.errf("helper %s is recursive", fd.Name.Name)
	}
	return fd, cenv, nil
}

// call translates a call used as a statement or as a value.  Returns whether it leaves a value in
// `tmp` (an atomic read).  Package-local helpers are inlined; a helper used as a value must be
// `return <value-producing call>` after any number of statements.
func (t *c08GoTr) call(env map[types.Object]c08Bind, e ast.Expr, mode string) (produces bool, err error) {
	if p, ok := e.(*ast.ParenExpr); ok {
		return t.call(env, p.X, mode)
	}
	c, ok := e.(*ast.CallExpr)
	if !ok {
		return false, t.errf("expected a call, found %T", e)
	}
	if fd, cenv, err := t.callee(env, c); err != nil {
		return false, err
	} else if fd != nil {
		return t.inline(fd, cenv, mode)
	}
	name := ""
	switch f := c.Fun.(type) {
	case *ast.Ident:
		name = f.Name
	case *ast.SelectorExpr:
		if id, ok := f.X.(*ast.Ident); ok && id.Name == t.atomicName {
			name = "atomic." + f.Sel.Name
		}
	}
	if len(c.Args) == 0 || !t.isState(env, c.Args[0]) {
		return false, t.errf("call %s must take the address of the lock's state word first", name)
	}
	arg := func() (uint64, error) {
		if v, ok := t.constant(env, c.Args[1]); ok {
			return v, nil
		}
		return 0, t.errf("call %s: expected a 32-bit integer constant, found %T", name, c.Args[1])
	}
	t.tmpLocal = nil
	switch {
	case name == "atomic.SwapUint32" && len(c.Args) == 2:
		v, err := arg()
		t.ops = append(t.ops, fmt.Sprintf(".swap %d", v))
		return true, err
	case name == "atomic.StoreUint32" && len(c.Args) == 2:
		v, err := arg()
		t.ops = append(t.ops, fmt.Sprintf(".store %d", v))
		return false, err
	case name == "atomic.LoadUint32" && len(c.Args) == 1:
		t.ops = append(t.ops, ".load")
		return true, nil
	case name == "archAcquireSpinlock" && len(c.Args) == 2:
		v, err := arg()
		t.ops = append(t.ops, fmt.Sprintf(".arch %d", v))
		return false, err
	}
	if id, isId := c.Fun.(*ast.Ident); isId {
		return false, t.errf("calls routine %s, which is not modelled (the model knows atomic.SwapUint32/StoreUint32/"+
			"LoadUint32, archAcquireSpinlock and package-local helpers with a body)", id.Name)
	}
	return false, t.errf("unknown call %q", name)
}

// inline translates the body of `fd`.  mode "method": returns become `.ret`/`.retEq`/`.retNe`;
// "stmt": a helper called as a statement (its result, if any, is dropped; `return` only last);
// "value": a helper used as a value — its last statement is `return <value-producing call>`;
// "tail": a helper whose result is returned by the caller — translated like "method".
func (t *c08GoTr) inline(fd *ast.FuncDecl, env map[types.Object]c08Bind, mode string) (produces bool, err error) {
	t.active[fd] = true
	defer delete(t.active, fd)
	uses := func(obj types.Object) int {
		n := 0
		for _, o := range t.info.Uses {
			if o == obj {
				n++
			}
		}
		return n
	}
	returned := false
	for i, st := range fd.Body.List {
		if returned {
			return false, t.errf("statement after return in %s", fd.Name.Name)
		}
		last := i == len(fd.Body.List)-1
		switch s := st.(type) {
		case *ast.ExprStmt:
			if _, err := t.call(env, s.X, "stmt"); err != nil {
				return false, err
			}
			t.tmpLocal = nil
		case *ast.AssignStmt:
			var name *ast.Ident
			if len(s.Lhs) == 1 {
				name, _ = s.Lhs[0].(*ast.Ident)
			}
			if name == nil || s.Tok != token.DEFINE || len(s.Rhs) != 1 {
				return false, t.errf("unsupported assignment in %s", fd.Name.Name)
			}
			p, err := t.call(env, s.Rhs[0], "value")
			if err != nil {
				return false, err
			}
			obj := t.info.Defs[name]
			if !p || obj == nil || uses(obj) != 1 {
				return false, t.errf("local %s must hold the result of one atomic read and be used exactly once", name.Name)
			}
			t.tmpLocal = obj
		case *ast.ReturnStmt:
			returned = true
			if !last {
				return false, t.errf("return before the end of %s", fd.Name.Name)
			}
			if len(s.Results) == 0 {
				if mode == "method" || mode == "tail" {
					t.ops = append(t.ops, ".ret")
				}
				continue
			}
			if len(s.Results) != 1 {
				return false, t.errf("unsupported return in %s", fd.Name.Name)
			}
			r := s.Results[0]
			for {
				p, ok := r.(*ast.ParenExpr)
				if !ok {
					break
				}
				r = p.X
			}
			if mode == "value" {
				// the value of the helper is the value of this expression: an atomic read
				if id, isId := r.(*ast.Ident); isId && t.tmpLocal != nil && t.info.Uses[id] == t.tmpLocal {
					return true, nil
				}
				p, err := t.call(env, r, "value")
				if err == nil && !p {
					err = t.errf("helper %s returns something that is not an atomic read", fd.Name.Name)
				}
				return p, err
			}
			if mode == "stmt" {
				return false, t.errf("result of helper %s is dropped", fd.Name.Name)
			}
			b, isCmp := r.(*ast.BinaryExpr)
			if !isCmp || (b.Op != token.EQL && b.Op != token.NEQ) {
				if c, isCall := r.(*ast.CallExpr); isCall {
					// `return helper(...)`: the helper's own return is ours
					if cfd, cenv, err := t.callee(env, c); err != nil {
						return false, err
					} else if cfd != nil {
						return t.inline(cfd, cenv, "tail")
					}
					if id, isId := c.Fun.(*ast.Ident); isId {
						return false, t.errf("now returns the result of routine %s, which is not modelled (the model knows "+
							"atomic.SwapUint32/StoreUint32/LoadUint32, archAcquireSpinlock and package-local helpers with a body)", id.Name)
					}
				}
				return false, t.errf("unsupported return expression in %s", fd.Name.Name)
			}
			x, y := b.X, b.Y
			if _, isConst := t.constant(env, x); isConst { // == and != are symmetric
				x, y = y, x
			}
			v, isConst := t.constant(env, y)
			if !isConst {
				return false, t.errf("comparison in %s is not against a 32-bit integer constant", fd.Name.Name)
			}
			if id, isId := x.(*ast.Ident); isId {
				if t.tmpLocal == nil || t.info.Uses[id] != t.tmpLocal {
					return false, t.errf("%s is not the result of the immediately preceding atomic read", id.Name)
				}
			} else {
				p, err := t.call(env, x, "value")
				if err != nil {
					return false, err
				}
				if !p {
					return false, t.errf("compared call in %s has no result", fd.Name.Name)
				}
			}
			if b.Op == token.EQL {
				t.ops = append(t.ops, fmt.Sprintf(".retEq %d", v))
			} else {
				t.ops = append(t.ops, fmt.Sprintf(".retNe %d", v))
			}
		default:
			return false, t.errf("unsupported statement %T in %s", st, fd.Name.Name)
		}
	}
	if !returned {
		if mode == "value" {
			return false, t.errf("helper %s does not return a value", fd.Name.Name)
		}
		if mode == "method" || mode == "tail" {
			t.ops = append(t.ops, ".ret")
		}
	}
	return false, nil
}

// c08GoBody translates a method body into the atomic-op IR; every statement must be one of the
// known shapes and the only location touched must be the receiver's state word.  Calls of
// package-local functions / Spinlock methods with a body are inlined (parameters bound to the lock,
// the address of its state word, or integer constants), so a refactoring into helpers regenerates
// the same facts.
func c08GoBody(fd *ast.FuncDecl, atomicName string, info *types.Info, decls map[types.Object]*ast.FuncDecl) ([]string, error) {
	if fd.Recv == nil || len(fd.Recv.List) != 1 || len(fd.Recv.List[0].Names) != 1 {
		return nil, fmt.Errorf("%s: no named receiver", fd.Name.Name)
	}
	t := &c08GoTr{method: fd.Name.Name, atomicName: atomicName, info: info, decls: decls, active: map[*ast.FuncDecl]bool{}}
	env := map[types.Object]c08Bind{info.Defs[fd.Recv.List[0].Names[0]]: {kind: "lock"}}
	if _, err := t.inline(fd, env, "method"); err != nil {
		return nil, err
	}
	return t.ops, nil
}

// c08Facts never takes the harness down: a crash of the reader on source it was not written for is
// a broken tie like any other untranslatable construct.
func c08Facts() (text string, err error) {
	defer func() {
		if r := recover(); r != nil {
			text, err = "", fmt.Errorf("the fact reader crashed on the current source: %v", r)
		}
	}()
	return c08FactsRaw()
}

func c08FactsRaw() (string, error) {
	repo := os.Getenv("VERIF_REPO")
	if repo == "" {
		repo = "/repo"
	}
	dir := filepath.Join(repo, "kernel", "sync")
	fset := token.NewFileSet()
	gf, err := parser.ParseFile(fset, filepath.Join(dir, "spinlock.go"), nil, 0)
	if err != nil {
		return "", err
	}
	atomicName := ""
	for _, im := range gf.Imports {
		if im.Path.Value == `"sync/atomic"` {
			atomicName = "atomic"
			if im.Name != nil {
				atomicName = im.Name.Name
			}
		}
	}
	// type-check package sync (non-test files) so that constant expressions resolve to values
	var files []*ast.File
	ents, err := os.ReadDir(dir)
	if err != nil {
		return "", err
	}
	for _, e := range ents {
		if n := e.Name(); strings.HasSuffix(n, ".go") && !strings.HasSuffix(n, "_test.go") {
			f := gf
			if n != "spinlock.go" {
				if f, err = parser.ParseFile(fset, filepath.Join(dir, n), nil, 0); err != nil {
					return "", err
				}
			}
			files = append(files, f)
		}
	}
	info := &types.Info{Types: map[ast.Expr]types.TypeAndValue{}, Defs: map[*ast.Ident]types.Object{}, Uses: map[*ast.Ident]types.Object{}}
	tconf := types.Config{Importer: importer.ForCompiler(fset, "source", nil), Error: func(error) {}}
	if _, err := tconf.Check("sync", fset, files, info); err != nil {
		return "", fmt.Errorf("package sync does not type-check: %v", err)
	}
	// package-local functions and Spinlock methods with a body (candidates for inlining)
	helperDecls := map[types.Object]*ast.FuncDecl{}
	for _, f := range files {
		for _, d := range f.Decls {
			if fd, ok := d.(*ast.FuncDecl); ok && fd.Body != nil {
				helperDecls[info.Defs[fd.Name]] = fd
			}
		}
	}
	bodies := map[string][]string{}
	var params []c08Param
	haveState, haveYield := false, false
	for _, d := range gf.Decls {
		switch d := d.(type) {
		case *ast.FuncDecl:
			switch {
			case d.Recv != nil && (d.Name.Name == "Acquire" || d.Name.Name == "TryToAcquire" || d.Name.Name == "Release"):
				st, isPtr := d.Recv.List[0].Type.(*ast.StarExpr)
				if !isPtr {
					return "", fmt.Errorf("the receiver of Spinlock method %s is not a pointer (a value receiver operates on a private copy of the lock word)", d.Name.Name)
				}
				if id, ok2 := st.X.(*ast.Ident); !ok2 || id.Name != "Spinlock" {
					return "", fmt.Errorf("%s: receiver is not *Spinlock", d.Name.Name)
				}
				if bodies[d.Name.Name], err = c08GoBody(d, atomicName, info, helperDecls); err != nil {
					return "", err
				}
			case d.Body == nil && d.Name.Name != "archAcquireSpinlock":
				return "", fmt.Errorf("spinlock.go declares a new assembly routine %s: only archAcquireSpinlock is modelled", d.Name.Name)
			case d.Recv == nil && d.Name.Name == "archAcquireSpinlock":
				if d.Body != nil {
					return "", fmt.Errorf("archAcquireSpinlock has a Go body")
				}
				off := 0
				for _, f := range d.Type.Params.List {
					sz, _, err := c08TypeSize(f.Type)
					if err != nil {
						return "", err
					}
					for _, n := range f.Names {
						off = (off + sz - 1) / sz * sz
						params = append(params, c08Param{n.Name, off, sz})
						off += sz
					}
				}
			}
		case *ast.GenDecl:
			for _, sp := range d.Specs {
				switch sp := sp.(type) {
				case *ast.TypeSpec:
					if st, ok := sp.Type.(*ast.StructType); ok && sp.Name.Name == "Spinlock" {
						for _, f := range st.Fields.List {
							id, ok := f.Type.(*ast.Ident)
							for _, n := range f.Names {
								if n.Name == "state" && ok && id.Name == "uint32" {
									haveState = true
								}
							}
						}
					}
				case *ast.ValueSpec:
					for _, n := range sp.Names {
						if ft, ok := sp.Type.(*ast.FuncType); ok && n.Name == "yieldFn" &&
							(ft.Params == nil || len(ft.Params.List) == 0) && ft.Results == nil {
							haveYield = true
						}
					}
				}
			}
		}
	}
	if !haveState || !haveYield {
		return "", fmt.Errorf("Spinlock.state uint32 / yieldFn func() not found")
	}
	for _, m := range []string{"Acquire", "TryToAcquire", "Release"} {
		if bodies[m] == nil {
			return "", fmt.Errorf("method %s not found", m)
		}
	}
	if len(params) != 2 || params[0].size != 8 || params[1].size != 4 {
		return "", fmt.Errorf("archAcquireSpinlock prototype is not (pointer, uint32): %v", params)
	}
	asm, err := os.ReadFile(filepath.Join(dir, "spinlock_amd64.s"))
	if err != nil {
		return "", err
	}
	for _, line := range strings.Split(string(asm), "\n") {
		if t := strings.TrimSpace(line); strings.HasPrefix(t, "TEXT") && !strings.HasPrefix(strings.TrimSpace(t[4:]), "·archAcquireSpinlock(SB)") {
			return "", fmt.Errorf("spinlock_amd64.s defines a new routine (%s): only archAcquireSpinlock is modelled", strings.Split(t, ",")[0])
		}
	}
	rawProg, frame, err := c08ParseAsm(string(asm), "archAcquireSpinlock", params)
	if err != nil {
		return "", err
	}
	canon, origin, err := c08Canon(rawProg)
	if err != nil {
		return "", err
	}
	termOf := func(in c08Ins) string {
		if in.kind == "jz" || in.kind == "jnz" || in.kind == "jmp" {
			return fmt.Sprintf(".%s %d", in.kind, in.target)
		}
		return in.term
	}
	var lean, text []string
	for _, in := range canon {
		lean = append(lean, termOf(in))
		text = append(text, in.text)
	}
	var b strings.Builder
	b.WriteString("-- GENERATED by ./check from kernel/sync/spinlock_amd64.s and spinlock.go (TestVerifFactsC08); do not edit.\n")
	b.WriteString("import Firefly.Model.SpinIsa\nimport Firefly.Model.Locked\nnamespace Firefly.Gen.C08\nopen Firefly.Spin\n\n")
	b.WriteString("/-- reasons why the source could not be translated (empty = the tie is intact) -/\ndef tieBroken : List String := []\n\n")
	fmt.Fprintf(&b, "/-- TEXT ·archAcquireSpinlock(SB), frame %s, in source order (jump targets = indices into this list) -/\ndef rawAsm : List Instr := [\n", frame)
	for i, in := range rawProg {
		sep := ","
		if i == len(rawProg)-1 {
			sep = ""
		}
		fmt.Fprintf(&b, "  /- %2d  %-34s -/ %s%s\n", i, in.text, termOf(in), sep)
	}
	b.WriteString("]\n\n/-- for every instruction of `acquireAsm`: the index in `rawAsm` it stands for (jumps inserted by the\nre-lineariser: 0, ignored) -/\ndef canonOrigin : List Nat := [")
	for i, o := range origin {
		if i > 0 {
			b.WriteString(", ")
		}
		if o < 0 {
			o = 0
		}
		fmt.Fprintf(&b, "%d", o)
	}
	b.WriteString("]\n\n")
	b.WriteString("/-- the same control-flow graph re-linearised in canonical order (layout- and jump-polarity-independent);\nthis is the program the machine runs and the theorems are about -/\ndef acquireAsm : List Instr := [\n")
	for i, l := range lean {
		sep := ","
		if i == len(lean)-1 {
			sep = ""
		}
		fmt.Fprintf(&b, "  /- %2d  %-34s -/ %s%s\n", i, text[i], l, sep)
	}
	b.WriteString("]\n\n/-- the same instructions as source text (used when printing schedules) -/\ndef acquireAsmText : List String := [\n")
	for i, l := range text {
		sep := ","
		if i == len(text)-1 {
			sep = ""
		}
		fmt.Fprintf(&b, "  %q%s\n", l, sep)
	}
	b.WriteString("]\n\n")
	fmt.Fprintf(&b, "/-- FP offset of parameter `%s` (the pointer to the lock word) -/\ndef fpStateOff : Nat := %d\n", params[0].name, params[0].off)
	fmt.Fprintf(&b, "/-- FP offset of parameter `%s` (32-bit) -/\ndef fpAttemptsOff : Nat := %d\n\n", params[1].name, params[1].off)
	for _, m := range [][2]string{{"Acquire", "acquireGo"}, {"TryToAcquire", "tryGo"}, {"Release", "releaseGo"}} {
		fmt.Fprintf(&b, "/-- func (l *Spinlock) %s -/\ndef %s : List GoOp := [%s]\n", m[0], m[1], strings.Join(bodies[m[0]], ", "))
	}
	clients, err := c08Clients(repo)
	if err != nil {
		return "", err
	}
	b.WriteString("\n" + clients)
	b.WriteString("\nend Firefly.Gen.C08\n")
	return b.String(), nil
}

// c08BrokenFacts: the source can no longer be translated.  The tie is broken EXPLICITLY: the
// generated file carries the reason in `tieBroken` and empty programs, so the theorem
// `Firefly.C08.tie_intact` (and everything about the programs) stops checking, the driver stops
// comparing with the model and only judges the implementation's observations.
func c08BrokenFacts(reason string) string {
	var b strings.Builder
	b.WriteString("-- GENERATED by ./check (TestVerifFactsC08): THE SOURCE COULD NOT BE TRANSLATED — broken tie; do not edit.\n")
	b.WriteString("import Firefly.Model.SpinIsa\nimport Firefly.Model.Locked\nnamespace Firefly.Gen.C08\nopen Firefly.Spin\n\n")
	fmt.Fprintf(&b, "/-- reasons why the source could not be translated (empty = the tie is intact) -/\ndef tieBroken : List String := [%q]\n\n", reason)
	b.WriteString("def rawAsm : List Instr := []\ndef canonOrigin : List Nat := []\ndef acquireAsm : List Instr := []\ndef acquireAsmText : List String := []\ndef fpStateOff : Nat := 0\ndef fpAttemptsOff : Nat := 8\n")
	b.WriteString("def acquireGo : List GoOp := []\ndef tryGo : List GoOp := []\ndef releaseGo : List GoOp := []\n")
	b.WriteString("def lockDecls : List String := []\ndef clients : List (String × Firefly.Locked.Skel) := []\n")
	b.WriteString("\nend Firefly.Gen.C08\n")
	return b.String()
}

func TestVerifFactsC08(t *testing.T) {
	s, err := c08Facts()
	if err != nil {
		t.Logf("C08: broken tie: %v", err)
		s = c08BrokenFacts(err.Error())
	}
	out := verifOpen("VERIF_FACTS_OUT")
	defer out.close()
	out.printf("%s", s)
}

// ------------------------------------------------------------------ deterministic traces

// The yield hook must be a plain top-level function: the assembly calls the func value without
// loading a closure context.
var (
	c08Lock      *Spinlock
	c08Yields    int
	c08ReleaseAt int
	c08Bailed    bool
)

const c08YieldLimit = 100000

func c08YieldHook() {
	c08Yields++
	if c08Yields == c08ReleaseAt {
		c08Lock.Release()
	}
	if c08Yields >= c08YieldLimit && !c08Bailed {
		// nobody is going to release: turn the endless spin into an observation
		c08Bailed = true
		atomic.StoreUint32(&c08Lock.state, 0)
	}
}

// c08Suspect is set as soon as the real code has shown a failure (a try that lied, a release that
// did not free, two holders, …).  From then on the verdict of the run is already "violation", so a
// hang no longer has to be waited out for the full watchdog period: the watchdog shrinks to a few
// seconds and the remaining stress rounds are skipped.  A passing run never shortens anything.
var c08Suspect int32

// c08TieBroken: the fact generator cannot translate the current source, so the check is already
// going to report a violation (broken tie) and this run is only the search for a failing input.
var c08TieBroken bool

func c08Watchdog(full time.Duration) time.Duration {
	if atomic.LoadInt32(&c08Suspect) != 0 && full > 5*time.Second {
		return 5 * time.Second
	}
	if c08TieBroken && full > 15*time.Second {
		return 15 * time.Second
	}
	return full
}

type c08Det struct {
	out  *verifWriter
	l    *Spinlock
	held bool // according to the values the real code returned
	tick *int64
	cur  atomic.Value // the op being executed (reported by the watchdog when it never returns)
}

func (d *c08Det) word() uint32 { return atomic.LoadUint32(&d.l.state) }

func (d *c08Det) op(name string, args ...int) {
	atomic.AddInt64(d.tick, 1)
	cur := name
	for _, a := range args {
		cur += " " + strconv.Itoa(a)
	}
	d.cur.Store(cur)
	defer func() {
		if r := recover(); r != nil {
			// a crash of the real code (e.g. a wild pointer in the assembly) is an observation;
			// the lock's state is unknown afterwards, so the case continues on a fresh lock
			yieldFn = nil
			atomic.StoreInt32(&c08Suspect, 1)
			d.out.printf("%s | panic\n", cur)
			d.l, d.held = new(Spinlock), false
		}
	}()
	switch name {
	case "T":
		r, before := 0, d.word()
		if d.l.TryToAcquire() {
			r = 1
			d.held = true
		}
		if (r == 1) != (before == 0) || d.word() != 1 {
			atomic.StoreInt32(&c08Suspect, 1)
		}
		d.out.printf("T | %d %d\n", r, d.word())
	case "R":
		d.l.Release()
		d.held = false
		if d.word() != 0 {
			atomic.StoreInt32(&c08Suspect, 1)
		}
		d.out.printf("R | %d\n", d.word())
	case "A", "AX":
		// A k: l.Acquire() while the yield hook releases the lock at its k-th call (k=0: never;
		// only issued when the lock word is 0).  AX k a: archAcquireSpinlock(&state, a) directly.
		c08Lock, c08Yields, c08ReleaseAt, c08Bailed = d.l, 0, args[0], false
		yieldFn = c08YieldHook
		if name == "A" {
			d.l.Acquire()
		} else {
			archAcquireSpinlock(&d.l.state, uint32(args[1]))
		}
		yieldFn = nil
		d.held = true
		if c08Bailed || d.word() != 1 {
			atomic.StoreInt32(&c08Suspect, 1)
		}
		if c08Bailed {
			d.out.printf("%s | hang %d\n", cur, d.word())
		} else {
			d.out.printf("%s | %d %d\n", cur, c08Yields, d.word())
		}
	}
}

// c08NilYield: Acquire with yieldFn == nil (the kernel's configuration) while another goroutine,
// running on another P, holds the lock and releases it a little later.
func c08NilYield(d *c08Det, spins int) {
	atomic.AddInt64(d.tick, 1)
	d.cur.Store("AN")
	defer func() {
		if r := recover(); r != nil {
			d.out.printf("AN | panic\n")
			d.l, d.held = new(Spinlock), false
		}
	}()
	old := debug.SetGCPercent(-1) // a spinning assembly loop cannot be preempted: no stop-the-world now
	defer debug.SetGCPercent(old)
	yieldFn = nil
	d.l.Acquire()
	var started int32
	done := make(chan struct{})
	go func() {
		for atomic.LoadInt32(&started) == 0 {
		}
		for i := 0; i < spins; i++ {
			atomic.AddInt32(&started, 1)
		}
		d.l.Release()
		close(done)
	}()
	atomic.StoreInt32(&started, 1)
	d.l.Acquire()
	<-done
	d.out.printf("AN | %d\n", d.word())
	d.l.Release()
	d.out.printf("R | %d\n", d.word())
}

// ------------------------------------------------------------------ stress

type c08StressRes struct {
	violations, lost, sections, tryTrue, tryFalse, acquires, panics int64
	word                                                  uint32
	hang                                                  bool
}

// c08Stress: n goroutines, each performing `iters` lock operations (a fixed amount of work, so the
// verdict never depends on machine speed).  tryPct = share of TryToAcquire among the attempts.
func c08Stress(seed uint64, n, iters, tryPct int, tick *int64, watchdog time.Duration) c08StressRes {
	var (
		l          = new(Spinlock)
		holders    int32
		violations int64
		protected  int64 // plain, deliberately not atomic: protected by l
		res        c08StressRes
		wg         gosync.WaitGroup
		mu         gosync.Mutex
		start      = make(chan struct{})
	)
	yieldFn = runtime.Gosched
	wg.Add(n)
	for w := 0; w < n; w++ {
		go func(r *vrng) {
			defer wg.Done()
			var sections, tt, tf, acq int64
			defer func() {
				if r := recover(); r != nil {
					atomic.AddInt64(&res.panics, 1) // a crash of the real code is an observation
				}
			}()
			<-start
			for it := 0; it < iters; it++ {
				if r.intn(100) < tryPct {
					if !l.TryToAcquire() {
						tf++
						atomic.AddInt64(tick, 1)
						if r.chance(50) {
							runtime.Gosched()
						}
						continue
					}
					tt++
				} else {
					l.Acquire()
					acq++
				}
				// ---- critical section
				if atomic.AddInt32(&holders, 1) != 1 {
					atomic.AddInt64(&violations, 1)
					atomic.StoreInt32(&c08Suspect, 1)
				}
				c := protected
				switch r.intn(16) {
				case 0:
					runtime.Gosched() // the holder is descheduled while holding
				case 1:
					if l.TryToAcquire() { // must be false: we hold the lock
						atomic.AddInt64(&violations, 1)
					}
				case 2, 3:
					for k := r.intn(64); k > 0; k-- {
						atomic.LoadInt32(&holders)
					}
				}
				protected = c + 1
				if atomic.AddInt32(&holders, -1) != 0 {
					atomic.AddInt64(&violations, 1)
				}
				l.Release()
				sections++
				atomic.AddInt64(tick, 1)
			}
			mu.Lock()
			res.sections += sections
			res.tryTrue += tt
			res.tryFalse += tf
			res.acquires += acq
			mu.Unlock()
		}(&vrng{s: seed + uint64(w)*0x9e3779b97f4a7c15})
	}
	done := make(chan struct{})
	go func() { wg.Wait(); close(done) }()
	close(start)
	last, lastChange := atomic.LoadInt64(tick), time.Now()
	for {
		select {
		case <-done:
			res.violations = atomic.LoadInt64(&violations)
			res.lost = res.sections - protected
			res.word = atomic.LoadUint32(&l.state)
			return res
		case <-time.After(500 * time.Millisecond):
			if now := atomic.LoadInt64(tick); now != last {
				last, lastChange = now, time.Now()
			} else if time.Since(lastChange) > c08Watchdog(watchdog) {
				// no goroutine completed any operation for a very long time: a hang is an observation
				res.hang = true
				res.violations = atomic.LoadInt64(&violations)
				res.word = atomic.LoadUint32(&l.state)
				return res
			}
		}
	}
}

func TestVerifC08(t *testing.T) {
	out := verifOpen("VERIF_OUT")
	defer out.close()
	defer func(f func()) { yieldFn = f }(yieldFn)
	defer runtime.GOMAXPROCS(runtime.GOMAXPROCS(0))
	rng := &vrng{s: verifSeed()}
	n := verifN(300)
	thorough := os.Getenv("VERIF_TIER") == "thorough"
	// the runner's "targeted search" re-runs the thorough generators after a broken proof / tie; it
	// looks for a failing input, so it gets twice the quick work instead of the full thorough budget
	searchRun := strings.Contains(filepath.Base(os.Getenv("VERIF_OUT")), "-search")
	watchdog := time.Duration(verifEnvInt("VERIF_WATCHDOG_S", 120)) * time.Second
	if _, err := c08Facts(); err != nil {
		c08TieBroken = true
		out.printf("# tie broken: %s\n", strings.ReplaceAll(err.Error(), "\n", " "))
	}
	// tell the client harness (extra run in package pmm, started after this one) that the run is
	// already failing, so that it does not wait out a hang for the full watchdog period either
	defer func() {
		if dir := os.Getenv("VERIF_BUILD"); dir != "" && (c08TieBroken || atomic.LoadInt32(&c08Suspect) != 0) {
			os.WriteFile(filepath.Join(dir, "c08-suspect"), []byte("1\n"), 0o644)
		}
	}()
	var tick int64

	// model exploration requests (the driver runs a breadth-first search of the regenerated model)
	out.printf("case search\n")
	out.printf("search 2 | ok\n")
	out.printf("search 3 | ok\n")
	if thorough && !searchRun {
		out.printf("search 4 | ok\n")
	}
	out.w.Flush()

	// The deterministic part runs in its own goroutine so that an endless spin (possible only with
	// a broken lock) becomes a `hang` observation instead of a stuck harness.
	detDone := make(chan struct{})
	d := &c08Det{out: out, tick: &tick}
	d.cur.Store("-")
	go func() {
		defer close(detDone)
		fresh := func(id string) {
			out.w.Flush() // keep the trace usable if the real code takes the process down
			out.printf("case %s\n", id)
			d.l, d.held = new(Spinlock), false
		}
		// deterministic boundary list (does not depend on the seed)
		fresh("b-try")
		d.op("T")
		d.op("T")
		d.op("R")
		d.op("T")
		d.op("R")
		d.op("R") // release while free: documented as "no effect"
		fresh("b-acquire")
		d.op("A", 0)
		d.op("T")
		d.op("R")
		d.op("A", 0)
		d.op("R")
		fresh("b-handover")
		for _, k := range []int{1, 2, 3, 7} {
			d.op("T")
			d.op("A", k)
			d.op("T")
			d.op("R")
		}
		fresh("b-attempts")
		for _, a := range []int{1, 2, 3, 5, 64} {
			d.op("AX", 0, a)
			for _, k := range []int{1, 2, 5} {
				d.op("AX", k, a)
			}
			d.op("R")
		}
		fresh("b-nil-yield")
		for i := 0; i < 8 && runtime.NumCPU() >= 2; i++ {
			c08NilYield(d, 1000*(i+1))
		}
		for i := 0; i < n; i++ {
			r := rng.fork()
			fresh(strconv.Itoa(i))
			for j := r.between(1, 24); j > 0; j-- {
				c := r.intn(100)
				switch {
				case c < 35:
					d.op("T")
				case c < 65:
					if d.held || r.chance(10) {
						d.op("R")
					} else {
						d.op("T")
					}
				case c < 85:
					k := 0
					if d.word() != 0 {
						k = r.between(1, 9)
					}
					d.op("A", k)
				default:
					k := 0
					if d.word() != 0 {
						k = r.between(1, 5)
					}
					d.op("AX", k, r.between(1, 6))
				}
			}
		}
	}()
	detHang := false
wait:
	for last, lastChange := int64(-1), time.Now(); ; {
		select {
		case <-detDone:
			break wait
		case <-time.After(500 * time.Millisecond):
			if now := atomic.LoadInt64(&tick); now != last {
				last, lastChange = now, time.Now()
			} else if time.Since(lastChange) > c08Watchdog(watchdog) {
				detHang = true
				break wait
			}
		}
	}
	if detHang {
		// the deterministic goroutine is stuck inside a lock operation (it prints only after the
		// operation returns, so the writer is at a line start)
		out.printf("H %s | hang\n", d.cur.Load().(string))
		return
	}

	// stress: fixed work per round; thread counts 2..32 on all cores, plus restricted-P variants
	all := runtime.NumCPU()
	iters := verifEnvInt("VERIF_C08_ITERS", 4000)
	reps := 1
	if thorough {
		iters, reps = iters*8, 6
	}
	if searchRun {
		iters, reps = iters/4, 2
	}
	round := 0
	for rep := 0; rep < reps; rep++ {
		for _, procs := range []int{all, 2, 1} {
			for _, nt := range []int{2, 3, 4, 8, 16, 32} {
				for _, tryPct := range []int{0, 30, 100} {
					if procs != all && (tryPct == 100 || nt == 3 || nt == 16) {
						continue
					}
					runtime.GOMAXPROCS(procs)
					it := iters
					if procs != all {
						it = iters / 4
					}
					out.printf("case stress-%d\n", round)
					round++
					seed := rng.next()
					res := c08Stress(seed, nt, it, tryPct, &tick, watchdog)
					hang := 0 // 0 = completed, 1 = watchdog (no progress), 2 = the real code crashed
					if res.hang {
						hang = 1
					} else if atomic.LoadInt64(&res.panics) != 0 {
						hang = 2
					}
					pr := procs
					if procs == all {
						pr = 0 // "all cores": keep the trace independent of the machine
					}
					out.printf("# stress sections=%d acquires=%d tryTrue=%d tryFalse=%d\n", res.sections, res.acquires, res.tryTrue, res.tryFalse)
					out.printf("S %d %d %d %d %d | %d %d %d %d\n", nt, it, pr, tryPct, seed&0xffffffff, res.violations, res.lost, res.word, hang)
					out.w.Flush()
					if res.hang {
						return
					}
					if res.violations != 0 || res.lost != 0 || res.word != 0 || hang != 0 {
						// the run has its failing input; the remaining rounds would only repeat it
						atomic.StoreInt32(&c08Suspect, 1)
						out.printf("# stress stopped after the first failing round\n")
						return
					}
				}
			}
		}
	}
}
