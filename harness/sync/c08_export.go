//go:build verif

package sync

// Export shim of the /verif C08 client harness (injected with `go test -overlay`; never committed
// to /repo): the stress of the lock's clients in package pmm needs a yield function so that a
// spinning goroutine lets the holder run.

// VerifC08SetYield sets the function the spinlock calls between acquisition attempts.
func VerifC08SetYield(f func()) { yieldFn = f }
