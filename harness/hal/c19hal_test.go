//go:build verif

package hal

// C19 HAL harness: the console *as the kernel configures it*.  Builds the real VesaFbConsole (and
// once the text console) through DriverInit on a framebuffer inside a pattern-filled host buffer,
// boots a multiboot command line (no options / consoleFont=<each shipped font> / consoleLogo=off /
// both / unknown font), lets the real hal.onConsoleInit select logo and font, and then prints — in
// the C19 line protocol, see harness/console/c19_test.go — the resulting geometry (`hal` op:
// offsetY, grid) followed by Write/Fill/Scroll at the edges of the grid the console itself
// reports (Dimensions(Characters)).  The replay checks that the grid fits the framebuffer and runs
// the usual model comparison and framebuffer oracle.  Panics are observations.

import (
	"encoding/binary"
	"os"
	"runtime"
	"strings"
	"testing"
	"unsafe"

	"github.com/ProjectSerenity/firefly/kernel/device/video/console"
	"github.com/ProjectSerenity/firefly/kernel/device/video/console/font"
	"github.com/ProjectSerenity/firefly/kernel/multiboot"
)

var c19halFontNames = []string{"terminus8x16", "terminus10x18", "terminus14x28"}

// font ids used in this trace (the console harness uses 0..; ids are keys, not positions)
const c19halFontBase = 100

func c19halPat(salt, i uint32) uint32 { return ((i + salt*40503) * 2654435761) >> 16 }

func c19halHost(n, guard int) []byte {
	raw := make([]byte, n+2*guard+2*4096)
	base := uintptr(unsafe.Pointer(&raw[0]))
	a := (base + uintptr(guard) + 4095) &^ 4095
	start := int(a-base) - guard
	return raw[start : start+guard+n+guard : start+guard+n+guard]
}

const c19halHex = "0123456789abcdef"

func c19halItoa(v int) string {
	if v == 0 {
		return "0"
	}
	neg := v < 0
	if neg {
		v = -v
	}
	var b [24]byte
	i := len(b)
	for v > 0 {
		i--
		b[i] = byte('0' + v%10)
		v /= 10
	}
	if neg {
		i--
		b[i] = '-'
	}
	return string(b[i:])
}

// c19halDiff prints the runs of units (1 or 2 bytes each, unit-indexed offsets relative to the
// framebuffer start) that differ between cur and prev, then syncs prev.
func c19halDiff(sb *strings.Builder, cur, prev []byte, guard, unit int) {
	n := len(cur) / unit
	differs := func(i int) bool {
		for k := 0; k < unit; k++ {
			if cur[i*unit+k] != prev[i*unit+k] {
				return true
			}
		}
		return false
	}
	any := false
	for i := 0; i < n; {
		if !differs(i) {
			i++
			continue
		}
		j := i
		for j < n && differs(j) {
			j++
		}
		sb.WriteByte(' ')
		sb.WriteString(c19halItoa(i - guard/unit))
		sb.WriteByte(':')
		for k := i; k < j; k++ {
			// words are printed most significant byte first (little-endian memory)
			for b := unit - 1; b >= 0; b-- {
				v := cur[k*unit+b]
				sb.WriteByte(c19halHex[v>>4])
				sb.WriteByte(c19halHex[v&15])
				prev[k*unit+b] = v
			}
		}
		any = true
		i = j
	}
	if !any {
		sb.WriteString(" -")
	}
}

func c19halTry(f func()) (panicked bool) {
	defer func() {
		if recover() != nil {
			panicked = true
		}
	}()
	f()
	return false
}

// c19halBoot installs a multiboot info block that carries only the given command line.
func c19halBoot(cmdLine string) (keep []uint64) {
	var tags []byte
	put32 := func(v uint32) {
		var b [4]byte
		binary.LittleEndian.PutUint32(b[:], v)
		tags = append(tags, b[:]...)
	}
	if cmdLine != "" {
		put32(1)
		put32(uint32(8 + len(cmdLine) + 1))
		tags = append(tags, cmdLine...)
		tags = append(tags, 0)
		for len(tags)%8 != 0 {
			tags = append(tags, 0)
		}
	}
	put32(0)
	put32(8)
	store := make([]uint64, (8+len(tags)+7)/8+1)
	blob := (*[1 << 20]byte)(unsafe.Pointer(&store[0]))[: 8+len(tags) : 8+len(tags)]
	binary.LittleEndian.PutUint32(blob[0:], uint32(8+len(tags)))
	copy(blob[8:], tags)
	multiboot.VerifC19ResetCmdLine()
	multiboot.SetInfoPtr(uintptr(unsafe.Pointer(&store[0])))
	return store
}

type c19halCons struct {
	out   *verifWriter
	dev   console.Device
	host  []byte
	prev  []byte
	guard int
	unit  int
	pfx   string // "v" or "t"
	sb    strings.Builder
}

func (hc *c19halCons) obs(panicked bool) {
	hc.sb.Reset()
	if panicked {
		copy(hc.host, hc.prev)
		hc.out.printf(" panic\n")
		return
	}
	c19halDiff(&hc.sb, hc.host, hc.prev, hc.guard, hc.unit)
	hc.out.printf("%s\n", hc.sb.String())
}
func (hc *c19halCons) write(ch, fg, bg uint8, x, y uint32) {
	hc.out.printf("%sw %d %d %d %d %d |", hc.pfx, ch, fg, bg, x, y)
	hc.obs(c19halTry(func() { hc.dev.Write(ch, fg, bg, x, y) }))
}
func (hc *c19halCons) fill(x, y, w, h uint32, fg, bg uint8) {
	hc.out.printf("%sf %d %d %d %d %d %d |", hc.pfx, x, y, w, h, fg, bg)
	hc.obs(c19halTry(func() { hc.dev.Fill(x, y, w, h, fg, bg) }))
}
func (hc *c19halCons) scroll(dir uint8, lines uint32) {
	hc.out.printf("%ss %d %d |", hc.pfx, dir, lines)
	hc.obs(c19halTry(func() { hc.dev.Scroll(console.ScrollDir(dir), lines) }))
}
func (hc *c19halCons) chk() {
	var sum uint32
	n := (len(hc.host) - 2*hc.guard) / hc.unit
	for i := 0; i < n; i++ {
		var v uint32
		for b := hc.unit - 1; b >= 0; b-- {
			v = v<<8 | uint32(hc.host[hc.guard+i*hc.unit+b])
		}
		sum += uint32(i+1) * v
	}
	hc.out.printf("chk | %d\n", sum)
}

// edgeOps: operations at the edges of the grid the console reports.
func (hc *c19halCons) edgeOps(r *vrng) {
	cols, rows := hc.dev.Dimensions(console.Characters)
	fg, bg := uint8(r.intn(16)), uint8(r.intn(16))
	hc.write('A', fg, bg, 1, 1)
	hc.write('B', fg, bg, cols, 1)
	hc.write('C', fg, bg, 1, rows)
	hc.write('D', fg, bg, cols, rows)
	hc.write('E', fg, bg, cols+1, rows)
	hc.write('F', fg, bg, 1, rows+1)
	hc.write('G', fg, bg, uint32(r.between(1, int(cols))), uint32(r.between(1, int(rows))))
	hc.fill(1, rows, cols, 1, fg, uint8(r.intn(16)))
	hc.fill(cols, 1, 1, rows, fg, uint8(r.intn(16)))
	hc.scroll(0, 1)
	hc.write('H', fg, bg, cols, rows)
	hc.scroll(1, rows-1)
	hc.scroll(0, rows)
	hc.scroll(0, rows+1)
	hc.fill(1, 1, cols, rows, fg, uint8(r.intn(16)))
	hc.fill(1, 1, 0xFFFFFFFF, 0xFFFFFFFF, fg, uint8(r.intn(16)))
	hc.chk()
}

type c19halGeo struct {
	width, height uint32
	bpp           uint8
	slack         uint32
}

func c19halMasks(bpp uint8) multiboot.FramebufferRGBColorInfo {
	switch bpp {
	case 15:
		return multiboot.FramebufferRGBColorInfo{RedPosition: 10, RedMaskSize: 5, GreenPosition: 5, GreenMaskSize: 5, BluePosition: 0, BlueMaskSize: 5}
	case 16:
		return multiboot.FramebufferRGBColorInfo{RedPosition: 11, RedMaskSize: 5, GreenPosition: 5, GreenMaskSize: 6, BluePosition: 0, BlueMaskSize: 5}
	}
	return multiboot.FramebufferRGBColorInfo{RedPosition: 16, RedMaskSize: 8, GreenPosition: 8, GreenMaskSize: 8, BluePosition: 0, BlueMaskSize: 8}
}

func c19halFontID(f *font.Font) int {
	for i, n := range c19halFontNames {
		if f != nil && f.Name == n {
			return c19halFontBase + i
		}
	}
	return -1
}

// c19halVesaCase: one pixel console configured by the real onConsoleInit under cmdLine.
func c19halVesaCase(out *verifWriter, r *vrng, g c19halGeo, cmdLine string, guard int, salt uint32) {
	keep := c19halBoot(cmdLine)
	defer runtime.KeepAlive(keep)
	bytesPP := uint32(g.bpp+1) >> 3
	pitch := g.width*bytesPP + g.slack
	n := int(g.height * pitch)
	hc := &c19halCons{out: out, guard: guard, unit: 1, pfx: "v"}
	hc.host = c19halHost(n, guard)
	for i := range hc.host {
		hc.host[i] = uint8(c19halPat(salt, uint32(i)))
	}
	hc.prev = append([]byte(nil), hc.host...)
	ci := c19halMasks(g.bpp)
	cons := console.VerifC19Vesa(g.width, g.height, g.bpp, pitch, &ci, uintptr(unsafe.Pointer(&hc.host[guard])))
	hc.dev = cons
	bpp, fbLen, _, _, dfg, dbg, clr := console.VerifC19VesaState(cons)
	out.printf("V %d %d %d %d %d %d %d %d %d %d %d %d | %d %d %d %d %d", g.width, g.height, g.bpp, pitch,
		ci.RedPosition, ci.RedMaskSize, ci.GreenPosition, ci.GreenMaskSize, ci.BluePosition, ci.BlueMaskSize, guard, salt,
		bpp, fbLen, dfg, dbg, clr)
	hc.obs(false)
	hc.chk()

	// the kernel's own configuration step
	devices = managedDevices{}
	panicked := c19halTry(func() { onConsoleInit(cons) })
	_, _, offY, f, _, _, _ := console.VerifC19VesaState(cons)
	out.printf("# cmdline %q\n", cmdLine)
	fid := c19halFontID(f)
	out.printf("hal %d |", fid)
	if panicked || fid < 0 {
		hc.obs(true)
		return
	}
	cols, rows := cons.Dimensions(console.Characters)
	out.printf(" %d %d %d", offY, cols, rows)
	hc.obs(false)
	var sb strings.Builder
	for _, b := range console.VerifC19VesaPalette(cons) {
		sb.WriteByte(c19halHex[b>>4])
		sb.WriteByte(c19halHex[b&15])
	}
	out.printf("pal %s |\n", sb.String())
	hc.edgeOps(r)
}

func c19halTextCase(out *verifWriter, r *vrng, cols, rows uint32, cmdLine string, guardW int, salt uint32) {
	keep := c19halBoot(cmdLine)
	defer runtime.KeepAlive(keep)
	hc := &c19halCons{out: out, guard: guardW * 2, unit: 2, pfx: "t"}
	hc.host = c19halHost(int(cols*rows)*2, guardW*2)
	for i := 0; i < len(hc.host)/2; i++ {
		v := uint16(c19halPat(salt, uint32(i)))
		hc.host[2*i], hc.host[2*i+1] = uint8(v), uint8(v>>8)
	}
	hc.prev = append([]byte(nil), hc.host...)
	cons := console.VerifC19Text(cols, rows, uintptr(unsafe.Pointer(&hc.host[guardW*2])))
	hc.dev = cons
	fbLen, palLen, dfg, dbg, clr := console.VerifC19TextState(cons)
	out.printf("T %d %d %d %d | %d %d %d %d %d\n", cols, rows, guardW, salt, fbLen, palLen, dfg, dbg, clr)
	hc.chk()
	devices = managedDevices{}
	if c19halTry(func() { onConsoleInit(cons) }) {
		out.printf("ts 2 0 | panic\n")
		return
	}
	hc.edgeOps(r)
}

var c19halCmdLines = []string{
	"",
	"consoleFont=terminus8x16",
	"consoleFont=terminus10x18",
	"consoleFont=terminus14x28",
	"consoleLogo=off",
	"consoleLogo=off consoleFont=terminus10x18",
	"consoleFont=nosuchfont",
	"consoleFont=terminus8x16 consoleLogo=on quiet",
}

func TestVerifC19Hal(t *testing.T) {
	out := verifOpen("VERIF_OUT")
	defer out.close()
	defer console.VerifC19StubPorts()()
	defer func() { devices = managedDevices{}; multiboot.VerifC19ResetCmdLine() }()
	_ = os.Getenv

	var sb strings.Builder
	for i, name := range c19halFontNames {
		f := font.FindByName(name)
		if f == nil {
			t.Fatalf("font %s not found", name)
		}
		sb.Reset()
		for _, b := range f.Data {
			sb.WriteByte(c19halHex[b>>4])
			sb.WriteByte(c19halHex[b&15])
		}
		out.printf("fontdef %d %d %d %d %s\n", c19halFontBase+i, f.GlyphWidth, f.GlyphHeight, f.BytesPerRow, sb.String())
	}

	// deterministic part: every command line on three geometries
	geos := []c19halGeo{{160, 200, 32, 0}, {200, 230, 16, 3}, {176, 300, 8, 1}}
	br := &vrng{s: 0xA1C19}
	for gi, g := range geos {
		for ci, cl := range c19halCmdLines {
			out.printf("case hb%d_%d\n", gi, ci)
			c19halVesaCase(out, br.fork(), g, cl, 64, uint32(gi*16+ci+1))
		}
	}
	out.printf("case hbt\n")
	c19halTextCase(out, br.fork(), 80, 25, "consoleFont=terminus10x18", 8, 5)
	out.w.Flush()

	rng := &vrng{s: verifSeed() ^ 0xC19A1}
	n := verifN(20)
	for i := 0; i < n; i++ {
		r := rng.fork()
		if i%10 == 9 {
			out.printf("case ht%d\n", i)
			c19halTextCase(out, r, uint32(r.between(1, 80)), uint32(r.between(1, 30)), c19halCmdLines[r.intn(len(c19halCmdLines))], r.between(1, 32), uint32(r.intn(1<<16)))
			continue
		}
		g := c19halGeo{width: uint32(r.between(100, 240)), height: uint32(r.between(160, 330)),
			bpp: uint8(r.pick(8, 15, 16, 24, 32)), slack: uint32(r.pick(0, 1, 3, 17))}
		out.printf("case hv%d\n", i)
		c19halVesaCase(out, r, g, c19halCmdLines[r.intn(len(c19halCmdLines))], r.between(1, 96), uint32(r.intn(1<<16)))
		out.w.Flush()
	}
}
