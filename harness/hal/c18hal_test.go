//go:build verif

package hal

// C18 HAL harness: the terminal/console pair AS THE KERNEL LINKS IT.  The shipped consoles
// (VgaTextConsole over a buffer pre-filled with boot-loader-like junk, VesaFbConsole over a
// non-black framebuffer) and the shipped VT go through the real onDriverInit → onConsoleInit /
// linkTTYToConsole in both detection orders, with and without early kfmt output buffered before the
// link; then the screen is read back and compared with the viewport right after linking, after
// writes, after scrolling and after a deactivate/write/activate cycle — in the C18 line protocol
// (/verif/lean/Firefly/Replay/C18.lean; op `L` = the link), so the same "console equals viewport"
// oracle judges them.  Export shims: harness/console/c18_export.go, harness/tty/c18_export.go and
// (reused, not edited) harness/console/c19_export.go, harness/multiboot/c19_export.go.

import (
	"encoding/binary"
	"encoding/hex"
	"testing"
	"unsafe"

	"github.com/ProjectSerenity/firefly/kernel/device"
	"github.com/ProjectSerenity/firefly/kernel/device/tty"
	"github.com/ProjectSerenity/firefly/kernel/device/video/console"
	"github.com/ProjectSerenity/firefly/kernel/device/video/console/font"
	"github.com/ProjectSerenity/firefly/kernel/kfmt"
	"github.com/ProjectSerenity/firefly/kernel/multiboot"
)

const (
	c18halHash0 = uint64(0xcbf29ce484222325)
	c18halPrime = uint64(0x100000001b3)
)

func c18halMix(h, v uint64) uint64 { return (h ^ v) * c18halPrime }

var c18halFontNames = []string{"terminus8x16", "terminus10x18", "terminus14x28"}

type c18halDiscard struct{}

func (c18halDiscard) Write(p []byte) (int, error) { return len(p), nil }

// c18halBoot installs a multiboot info block that carries only the given command line.
func c18halBoot(cmdLine string) (keep []uint64) {
	var tags []byte
	put32 := func(v uint32) {
		var b [4]byte
		binary.LittleEndian.PutUint32(b[:], v)
		tags = append(tags, b[:]...)
	}
	if cmdLine != "" {
		put32(1)
		put32(uint32(8 + len(cmdLine) + 1))
		tags = append(tags, cmdLine...)
		tags = append(tags, 0)
		for len(tags)%8 != 0 {
			tags = append(tags, 0)
		}
	}
	put32(0)
	put32(8)
	store := make([]uint64, (8+len(tags)+7)/8+1)
	blob := (*[1 << 20]byte)(unsafe.Pointer(&store[0]))[: 8+len(tags) : 8+len(tags)]
	binary.LittleEndian.PutUint32(blob[0:], uint32(8+len(tags)))
	copy(blob[8:], tags)
	multiboot.VerifC19ResetCmdLine()
	multiboot.SetInfoPtr(uintptr(unsafe.Pointer(&store[0])))
	return store
}

// ---------------------------------------------------------------- screens

type c18halScreen interface {
	dev() device.Driver
	// configured is called once hal has configured the console (font / logo)
	configured()
	header(out *verifWriter)
	screen() (text, outside uint64)
}

// --- text mode: the screen the boot loader left behind
type c18halText struct {
	cons       *console.VgaTextConsole
	cols, rows uint32
	host       []uint16
	guard      int
}

func c18halNewText(cols, rows uint32, salt uint32) *c18halText {
	guard := 16
	n := int(cols * rows)
	t := &c18halText{cols: cols, rows: rows, guard: guard, host: make([]uint16, n+2*guard)}
	for i := range t.host {
		// 'B'.. white on blue, like a boot loader banner: never a blank terminal cell
		t.host[i] = 0x1f00 | uint16('B'+(uint32(i)+salt)%20)
	}
	t.cons = console.VerifTextConsole(cols, rows, t.host[guard:guard+n:guard+n])
	return t
}
func (t *c18halText) dev() device.Driver { return t.cons }
func (t *c18halText) configured()        {}
func (t *c18halText) header(out *verifWriter) {
	fg, bg := t.cons.DefaultColors()
	out.printf("K text %d %d %d %d", t.cols, t.rows, fg, bg)
}
func (t *c18halText) screen() (uint64, uint64) {
	n := int(t.cols * t.rows)
	h, o := c18halHash0, c18halHash0
	for i, v := range t.host {
		if i >= t.guard && i < t.guard+n {
			h = c18halMix(h, uint64(v))
		} else {
			o = c18halMix(o, uint64(v))
		}
	}
	return h, o
}

// --- framebuffer: non-black contents
type c18halVesaSpec struct {
	width, height uint32
	bpp           uint8
	slack         uint32
	bgr           bool
	salt          uint32
}

type c18halVesa struct {
	cons                 *console.VesaFbConsole
	spec                 c18halVesaSpec
	pitch                uint32
	host                 []uint8
	guard                int
	f                    *font.Font
	fontID               int
	bytesPP, nb, offsetY uint32
	cols, rows           uint32
}

func c18halMasks(bpp uint8, bgr bool) multiboot.FramebufferRGBColorInfo {
	var ci multiboot.FramebufferRGBColorInfo
	switch bpp {
	case 15:
		ci = multiboot.FramebufferRGBColorInfo{RedPosition: 10, RedMaskSize: 5, GreenPosition: 5, GreenMaskSize: 5, BluePosition: 0, BlueMaskSize: 5}
	case 16:
		ci = multiboot.FramebufferRGBColorInfo{RedPosition: 11, RedMaskSize: 5, GreenPosition: 5, GreenMaskSize: 6, BluePosition: 0, BlueMaskSize: 5}
	default:
		ci = multiboot.FramebufferRGBColorInfo{RedPosition: 16, RedMaskSize: 8, GreenPosition: 8, GreenMaskSize: 8, BluePosition: 0, BlueMaskSize: 8}
	}
	if bgr {
		ci.RedPosition, ci.BluePosition = ci.BluePosition, ci.RedPosition
	}
	return ci
}

func c18halNewVesa(s c18halVesaSpec) *c18halVesa {
	v := &c18halVesa{spec: s, guard: 64}
	bytesPP := uint32(s.bpp+1) >> 3
	v.pitch = s.width*bytesPP + s.slack
	n := int(s.height * v.pitch)
	v.host = make([]uint8, n+2*v.guard)
	for i := range v.host {
		// non-black junk that depends on the in-row byte offset only: a correct Scroll copies whole
		// scanlines (left-over columns included) onto equal bytes, see harness/tty/c18_test.go
		b := uint32(0)
		if i >= v.guard && i < v.guard+n {
			b = uint32(i-v.guard) % v.pitch
		} else {
			b = uint32(i)
		}
		v.host[i] = uint8(((b+s.salt*40503)*2654435761)>>16) | 1
	}
	ci := c18halMasks(s.bpp, s.bgr)
	// no font yet: hal.onConsoleInit selects logo and font
	v.cons = console.VerifVesaConsole(s.width, s.height, s.bpp, v.pitch, &ci, v.host[v.guard:v.guard+n:v.guard+n], 0, nil)
	return v
}
func (v *c18halVesa) dev() device.Driver { return v.cons }
func (v *c18halVesa) configured() {
	var fbLen uint32
	v.bytesPP, fbLen, v.offsetY, v.f, _, _, _ = console.VerifC19VesaState(v.cons)
	_ = fbLen
	v.nb = uint32(len(console.VerifVesaPixel(v.cons, 0)))
	v.cols, v.rows = v.cons.Dimensions(console.Characters)
	v.fontID = -1
	for i, name := range c18halFontNames {
		if v.f != nil && v.f.Name == name {
			v.fontID = i
		}
	}
}
func (v *c18halVesa) header(out *verifWriter) {
	fg, bg := v.cons.DefaultColors()
	out.printf("K vesa %d %d %d %d %d %d %s %s", v.fontID, v.cols, v.rows, fg, bg, v.nb,
		hex.EncodeToString(console.VerifVesaPixel(v.cons, fg)), hex.EncodeToString(console.VerifVesaPixel(v.cons, bg)))
}
func (v *c18halVesa) screen() (uint64, uint64) {
	h, o := c18halHash0, c18halHash0
	s := v.spec
	fb := v.host[v.guard : v.guard+int(s.height*v.pitch)]
	gw, gh := uint32(1), uint32(1)
	if v.f != nil {
		gw, gh = v.f.GlyphWidth, v.f.GlyphHeight
	}
	for r := uint32(0); r < v.rows*gh; r++ {
		row := fb[(v.offsetY+r)*v.pitch:]
		for px := uint32(0); px < v.cols*gw; px++ {
			for k := uint32(0); k < v.nb; k++ {
				h = c18halMix(h, uint64(row[px*v.bytesPP+k]))
			}
		}
	}
	// outside the cell grid: guards, logo rows, row padding, left-over pixel columns and rows
	for _, b := range v.host[:v.guard] {
		o = c18halMix(o, uint64(b))
	}
	for r := uint32(0); r < s.height; r++ {
		row := fb[r*v.pitch : (r+1)*v.pitch]
		from := v.cols * gw * v.bytesPP
		if r < v.offsetY || r >= v.offsetY+v.rows*gh {
			from = 0
		}
		for _, b := range row[from:] {
			o = c18halMix(o, uint64(b))
		}
	}
	for _, b := range v.host[v.guard+int(s.height*v.pitch):] {
		o = c18halMix(o, uint64(b))
	}
	return h, o
}

// ---------------------------------------------------------------- one linked pair

type c18halRun struct {
	out  *verifWriter
	vt   *tty.VT
	scr  c18halScreen
	dead bool
}

func (c *c18halRun) obs(panicked bool) {
	if panicked {
		c.dead = true
		c.out.printf("panic")
	} else {
		cx, cy, vy, st, data := tty.VerifVTState(c.vt)
		h := c18halHash0
		for _, b := range data {
			h = c18halMix(h, uint64(b))
		}
		c.out.printf("%d %d %d %d %d", cx, cy, vy, st, h)
	}
	text, outside := c.scr.screen()
	c.out.printf(" ; %d %d\n", text, outside)
}

func (c *c18halRun) do(op func()) {
	panicked := false
	func() {
		defer func() {
			if r := recover(); r != nil {
				panicked = true
			}
		}()
		op()
	}()
	c.obs(panicked)
}

func c18halHex(b []byte) string {
	if len(b) == 0 {
		return "-"
	}
	return hex.EncodeToString(b)
}

// printf: output through kfmt.Printf, i.e. through the sink hal installed (plain text, no verbs)
func (c *c18halRun) printf(s string) {
	if c.dead {
		return
	}
	c.out.printf("W %s | ", c18halHex([]byte(s)))
	c.do(func() { kfmt.Printf(s) })
}

func (c *c18halRun) write(b []byte) {
	if c.dead {
		return
	}
	c.out.printf("W %s | ", c18halHex(b))
	c.do(func() { ActiveTTY().Write(b) })
}

func (c *c18halRun) state(active bool) {
	if c.dead {
		return
	}
	a := 0
	if active {
		a = 1
	}
	c.out.printf("S %d | ", a)
	c.do(func() {
		if active {
			ActiveTTY().SetState(tty.StateActive)
		} else {
			ActiveTTY().SetState(tty.StateInactive)
		}
	})
}

type c18halCase struct {
	id       string
	text     bool
	cols     uint32 // text mode
	rows     uint32
	vesa     c18halVesaSpec
	cmdLine  string
	ttyFirst bool
	early1   string // printed before any device is detected
	early2   string // printed between the two detections
	tab      uint8
	sb       uint32
}

func c18halReset() {
	devices = managedDevices{}
	kfmt.SetOutputSink(c18halDiscard{}) // drains the early print buffer
	kfmt.SetOutputSink(nil)
	multiboot.VerifC19ResetCmdLine()
}

func c18halRunCase(out *verifWriter, k c18halCase) {
	c18halReset()
	keep := c18halBoot(k.cmdLine)
	defer func() { _ = keep }()
	info := &device.DriverInfo{}

	var scr c18halScreen
	if k.text {
		scr = c18halNewText(k.cols, k.rows, k.vesa.salt)
	} else {
		// dry run on an identical framebuffer: what hal's console set-up (logo, font) alone leaves
		// on the screen is the baseline for "nothing outside the cell grid is touched by the link"
		dry := c18halNewVesa(k.vesa)
		panicked := false
		func() {
			defer func() {
				if recover() != nil {
					panicked = true
				}
			}()
			onDriverInit(info, dry.cons)
		}()
		c18halReset()
		keep = c18halBoot(k.cmdLine)
		if panicked {
			out.printf("# case hal-%s skipped: console set-up panics (C19)\n", k.id)
			return
		}
		dry.configured()
		if dry.f == nil || dry.cols == 0 || dry.rows == 0 {
			out.printf("# case hal-%s skipped: no cell fits\n", k.id)
			return
		}
		v := c18halNewVesa(k.vesa)
		v.bytesPP, v.nb, v.offsetY, v.f, v.fontID, v.cols, v.rows = dry.bytesPP, dry.nb, dry.offsetY, dry.f, dry.fontID, dry.cols, dry.rows
		scr = v
		out.printf("case hal-%s\n", k.id)
		dry.header(out)
		text, outside := dry.screen()
		out.printf(" | %d %d\n", text, outside)
	}
	if k.text {
		out.printf("case hal-%s\n", k.id)
		scr.header(out)
		text, outside := scr.screen()
		out.printf(" | %d %d\n", text, outside)
	}

	c := &c18halRun{out: out, scr: scr, vt: tty.NewVT(k.tab, k.sb)}
	early := k.early1 + k.early2
	out.printf("L %d %d %s | ", k.tab, k.sb, c18halHex([]byte(early)))
	c.do(func() {
		if k.early1 != "" {
			kfmt.Printf(k.early1)
		}
		if k.ttyFirst {
			onDriverInit(info, c.vt)
		} else {
			onDriverInit(info, scr.dev())
		}
		if k.early2 != "" {
			kfmt.Printf(k.early2)
		}
		if k.ttyFirst {
			onDriverInit(info, scr.dev())
		} else {
			onDriverInit(info, c.vt)
		}
		scr.configured()
	})

	var w, h uint32
	if k.text {
		w, h = k.cols, k.rows
	} else {
		v := scr.(*c18halVesa)
		w, h = v.cols, v.rows
	}
	c.printf("hello from the kernel\n")
	c.printf("x")
	c.write([]byte("ab\bc\td\r\n"))
	line := make([]byte, 0, int(w)+2)
	for i := 0; i < int(w)+1; i++ {
		line = append(line, byte('a'+i%26))
	}
	c.write(line) // wraps
	nl := make([]byte, int(h)+2)
	for i := range nl {
		nl[i] = '\n'
	}
	c.write(nl) // scrolls (through the scrollback first)
	c.printf("after scroll\n")
	c.state(false)
	c.write([]byte("written while inactive\n\n"))
	c.state(true)
	c.printf("z")
	big := make([]byte, 0, int(w*h)+int(w))
	for i := 0; i < int(w*h)+int(w)/2; i++ {
		big = append(big, byte('0'+i%10))
	}
	c.write(big) // more than a screenful
	c.write(nl)
	c.state(false)
	c.state(true)
}

func TestVerifC18Hal(t *testing.T) {
	out := verifOpen("VERIF_OUT")
	defer out.close()
	defer console.VerifC19StubPorts()()
	defer c18halReset()
	rng := &vrng{s: verifSeed() ^ 0xC18A1}
	n := verifN(20)

	for i, name := range c18halFontNames {
		f := font.FindByName(name)
		if f == nil {
			t.Fatalf("font %s not found", name)
		}
		out.printf("font %d %d %d %d %s\n", i, f.GlyphWidth, f.GlyphHeight, f.BytesPerRow, hex.EncodeToString(f.Data))
	}

	early := []struct{ a, b string }{
		{"", ""},
		{"early boot line 1\nline 2\n", ""},
		{"", "between the detections\n"},
		{"one\n", "two\tthree\n"},
	}
	long := ""
	for i := 0; i < 40; i++ {
		long += "early line that is long enough to wrap on narrow consoles " + string(rune('A'+i%26)) + "\n"
	}
	early = append(early, struct{ a, b string }{long[:1500], "tail\n"})

	type shape struct {
		text       bool
		cols, rows uint32
		vesa       c18halVesaSpec
		cmdLine    string
	}
	shapes := []shape{
		{text: true, cols: 80, rows: 25},
		{text: true, cols: 13, rows: 4},
		{text: true, cols: 1, rows: 1},
		{vesa: c18halVesaSpec{width: 200, height: 150, bpp: 8, slack: 0}, cmdLine: ""},
		{vesa: c18halVesaSpec{width: 200, height: 150, bpp: 32, slack: 7, bgr: true}, cmdLine: "consoleFont=terminus8x16"},
		{vesa: c18halVesaSpec{width: 203, height: 171, bpp: 16, slack: 1}, cmdLine: "consoleFont=terminus10x18"},
		{vesa: c18halVesaSpec{width: 76, height: 89, bpp: 24, slack: 3}, cmdLine: "consoleLogo=off consoleFont=terminus14x28"},
		{vesa: c18halVesaSpec{width: 47, height: 70, bpp: 15, slack: 7}, cmdLine: "consoleLogo=off consoleFont=terminus10x18"},
		{vesa: c18halVesaSpec{width: 64, height: 48, bpp: 32, slack: 0}, cmdLine: "consoleLogo=off"},
	}
	// deterministic boundary list: every shape × both detection orders × early output variants
	bi := 0
	for si, s := range shapes {
		for _, ttyFirst := range []bool{false, true} {
			for ei, e := range early {
				if !s.text && ei == 2 && si%2 == 0 {
					continue
				}
				k := c18halCase{id: "b" + itoa18(bi), text: s.text, cols: s.cols, rows: s.rows, vesa: s.vesa, cmdLine: s.cmdLine,
					ttyFirst: ttyFirst, early1: e.a, early2: e.b, tab: tty.DefaultTabWidth, sb: tty.DefaultScrollback}
				k.vesa.salt = uint32(bi + 1)
				if bi%5 == 4 {
					k.tab, k.sb = 8, 0
				}
				bi++
				c18halRunCase(out, k)
			}
		}
	}
	// seeded cases
	for i := 0; i < n; i++ {
		r := rng.fork()
		e := early[r.intn(len(early))]
		k := c18halCase{id: itoa18(i), ttyFirst: r.chance(50), early1: e.a, early2: e.b, tab: uint8(r.pick(0, 1, 4, 8)), sb: uint32(r.pick(0, 1, 2, 80))}
		if r.chance(40) {
			k.text, k.cols, k.rows = true, uint32(r.between(1, 80)), uint32(r.between(1, 25))
			k.vesa.salt = uint32(r.next())
		} else {
			k.vesa = c18halVesaSpec{width: uint32(r.between(130, 260)), height: uint32(r.between(100, 200)), bpp: uint8(r.pick(8, 15, 16, 24, 32)),
				slack: uint32(r.pick(0, 1, 7)), bgr: r.chance(30), salt: uint32(r.next())}
			k.cmdLine = []string{"", "consoleLogo=off", "consoleFont=terminus8x16", "consoleLogo=off consoleFont=terminus14x28", "consoleFont=terminus10x18"}[r.intn(5)]
			if r.chance(40) {
				k.vesa.width, k.vesa.height = uint32(r.between(30, 120)), uint32(r.between(30, 100))
				k.cmdLine = []string{"consoleLogo=off", "consoleLogo=off consoleFont=terminus8x16", "consoleLogo=off consoleFont=terminus10x18"}[r.intn(3)]
			}
		}
		c18halRunCase(out, k)
		out.w.Flush()
	}
}

func itoa18(v int) string {
	if v == 0 {
		return "0"
	}
	s := ""
	for ; v > 0; v /= 10 {
		s = string(rune('0'+v%10)) + s
	}
	return s
}
