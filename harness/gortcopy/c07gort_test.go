//go:build verif

package gortcopy

// Harness for kernel/goruntime/bootstrap.go's sysReserve / sysMap / sysAlloc. That package cannot be
// linked into a test binary under the installed toolchain, so /verif/tools/srccopy copies the three
// functions (and their function-variable seams) verbatim into this synthetic package on every run.
// They are clients of the virtual-region reservation (C07) and of the zero-frame mapping rule (C06).

import (
	"testing"
	"unsafe"

	"github.com/ProjectSerenity/firefly/kernel"
	"github.com/ProjectSerenity/firefly/kernel/mm"
	"github.com/ProjectSerenity/firefly/kernel/mm/vmm"
)

type gortCall struct{ page, frame, flags uint64 }

func TestVerifC07Gort(t *testing.T) {
	out := verifOpen("VERIF_OUT")
	defer out.close()
	var calls []gortCall
	mapFailAt, allocFailAt, allocs, memsets := -1, -1, 0, 0
	mapFn = func(p mm.Page, f mm.Frame, fl vmm.PageTableEntryFlag) *kernel.Error {
		calls = append(calls, gortCall{uint64(p), uint64(f), uint64(fl)})
		if mapFailAt >= 0 && len(calls)-1 == mapFailAt {
			return &kernel.Error{Module: "verif", Message: "scripted map failure"}
		}
		return nil
	}
	memsetFn = func(_ uintptr, _ byte, _ uintptr) { memsets++ }
	mm.SetFrameAllocator(func() (mm.Frame, *kernel.Error) {
		allocs++
		if allocFailAt >= 0 && allocs-1 == allocFailAt {
			return mm.InvalidFrame, &kernel.Error{Module: "verif", Message: "scripted alloc failure"}
		}
		return mm.Frame(0x1000 + allocs), nil
	})
	defer mm.SetFrameAllocator(nil)
	vmm.ReservedZeroedFrame = mm.Frame(0x77)
	cursor := func() uint64 { // a zero-byte reservation returns the cursor and moves nothing
		a, _ := vmm.EarlyReserveRegion(0)
		return uint64(a)
	}
	printCalls := func() {
		out.printf(" %d", len(calls))
		for _, c := range calls {
			out.printf(" %d %d %d", c.page, c.frame, c.flags)
		}
	}
	reserve := func(size uint64) {
		c := cursor()
		var reserved bool
		var ptr unsafe.Pointer
		panicked := 0
		func() {
			defer func() {
				if r := recover(); r != nil {
					panicked = 1
				}
			}()
			ptr = sysReserve(nil, uintptr(size), &reserved)
		}()
		rf := 0
		if reserved {
			rf = 1
		}
		out.printf("GR %d %d | %d %d %d %d\n", c, size, panicked, uint64(uintptr(ptr)), rf, cursor())
	}
	smap := func(va, size uint64, fa int) {
		if fa < 0 && size > 64*4096 && size <= ^uint64(0)-4095 {
			fa = 5 // sysMap does not reserve: a huge size would map 2^52 pages; cut the loop short
		}
		calls, mapFailAt = calls[:0], fa
		var stat uint64
		ptr := sysMap(unsafe.Pointer(uintptr(va)), uintptr(size), true, &stat)
		out.printf("GM %d %d %d %d | %d", va, size, fa, uint64(vmm.ReservedZeroedFrame), uint64(uintptr(ptr)))
		printCalls()
		out.printf("\n")
	}
	alloc := func(size uint64, afa, mfa int) {
		c := cursor()
		calls, mapFailAt, allocFailAt, allocs, memsets = calls[:0], mfa, afa, 0, 0
		var stat uint64
		ptr := sysAlloc(uintptr(size), &stat)
		out.printf("GA %d %d %d %d | %d %d %d", c, size, afa, mfa, uint64(uintptr(ptr)), cursor(), memsets)
		printCalls()
		out.printf("\n")
		allocFailAt = -1
	}
	max := ^uint64(0)
	out.printf("case gort-boundary\n")
	for _, sz := range []uint64{0, 1, 4095, 4096, 4097, 3 * 4096, max, max - 1, max - 4094, max - 4095, max - 4096, 1 << 63, cursor() + 1, cursor() + 4096} {
		reserve(sz)
	}
	for _, sz := range []uint64{0, 1, 4096, 4097, 5 * 4096, max, max - 4095} {
		smap(0xffffff7000000000, sz, -1)
		smap(0xffffff7000000123, sz, -1)
	}
	smap(0xffffff7000000000, 10*4096, 3)
	for _, sz := range []uint64{0, 1, 4096, 4097, 4 * 4096, max, max - 4095, cursor() + 1} {
		alloc(sz, -1, -1)
	}
	alloc(6*4096, 2, -1)
	alloc(6*4096, -1, 4)
	rng := &vrng{s: verifSeed()}
	for i := 0; i < verifN(100); i++ {
		r := rng.fork()
		out.printf("case gort-%d\n", i)
		sz := func() uint64 {
			switch r.intn(6) {
			case 0:
				return r.pick(0, 1, 4095, 4096, 4097)
			case 1:
				return max - uint64(r.intn(8200))
			default:
				return uint64(r.intn(30*4096 + 1))
			}
		}
		for j := r.between(1, 4); j > 0; j-- {
			switch r.intn(3) {
			case 0:
				reserve(sz())
			case 1:
				fa := -1
				if r.chance(20) {
					fa = r.intn(5)
				}
				smap(0xffffff7000000000+uint64(r.intn(3)*0x1000)+uint64(r.intn(2)*r.intn(4096)), sz(), fa)
			default:
				afa, mfa := -1, -1
				if r.chance(15) {
					afa = r.intn(5)
				} else if r.chance(15) {
					mfa = r.intn(5)
				}
				alloc(sz(), afa, mfa)
			}
		}
	}
}
