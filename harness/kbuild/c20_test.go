//go:build verif

package main

// C20 — "Kernel build finds every runtime redirect, exactly once, reproducibly".
//
// TestVerifFactsC20: go/ast + go/types extractor over the package under test: the loop nest
// that encloses the `ctx.Redirects = append(...)` of FindRedirects (is any of them a `range`
// over a Go map?) and the two string constants the model is instantiated with.
//
// TestVerifC20: writes generated source trees under $VERIF_BUILD/trees, chdirs into each, runs
// the real FindRedirects c20Runs times per tree (map-iteration order needs repeats), and once
// more on <repo>/kernel itself.  Per tree one `#tree` line carries the abstract tree (so the
// Lean model runs on the same tree) and one `run` line per run carries the ordered result.
//
// Line protocol (all strings are hex of their UTF-8 bytes, "-" = empty):
//   #module <import path of the kernel module, from <repo>/kernel/go.mod>
//   case <id>
//   #tree <digest> <entries>
//       entries := <n> entry*n
//       entry   := D <name> entries | F <name> <ndecls> decl* <ncomments> <text>*
//       decl    := f <funcname> <ndoc> <text>* | o <ndoc> <text>*
//   run <digest> | <n> (<src> <dst>)*n          (or: run <digest> | panic)

import (
	"encoding/hex"
	"fmt"
	"go/ast"
	"go/build"
	"go/constant"
	"go/importer"
	"go/parser"
	"go/token"
	"go/types"
	"hash/fnv"
	"os"
	"path/filepath"
	"strings"
	"testing"
)

// ------------------------------------------------------------------ facts

type c20Loop struct {
	desc  string
	isMap bool
}

type c20Facts struct {
	fset  *token.FileSet
	info  *types.Info
	funcs map[types.Object]*ast.FuncDecl
}

// c20IsRedirectsAppend reports whether n is `<x>.Redirects = append(...)` (or `+=`-like forms
// that write the field).
func c20IsRedirectsAppend(n ast.Node) bool {
	as, ok := n.(*ast.AssignStmt)
	if !ok {
		return false
	}
	for _, l := range as.Lhs {
		if sel, ok := l.(*ast.SelectorExpr); ok && sel.Sel.Name == "Redirects" {
			return true
		}
	}
	return false
}

// sites returns, for every write to `.Redirects` reachable from fn (through calls of functions
// of the same package), the nest of loops that encloses it, outermost first.
func (cf *c20Facts) sites(fn *ast.FuncDecl, prefix []c20Loop, seen map[*ast.FuncDecl]bool) [][]c20Loop {
	if fn == nil || fn.Body == nil || seen[fn] {
		return nil
	}
	seen[fn] = true
	defer delete(seen, fn)
	var out [][]c20Loop
	var stack []ast.Node
	loopsOf := func() []c20Loop {
		ls := append([]c20Loop(nil), prefix...)
		for _, s := range stack {
			switch s := s.(type) {
			case *ast.RangeStmt:
				tv := cf.info.TypeOf(s.X)
				isMap, ts := false, "?"
				if tv != nil {
					ts = tv.String()
					_, isMap = tv.Underlying().(*types.Map)
				}
				kind := "slice-or-other"
				if isMap {
					kind = "map"
				}
				pos := cf.fset.Position(s.Pos())
				ls = append(ls, c20Loop{fmt.Sprintf("%s:%d range over %s [%s]", filepath.Base(pos.Filename), pos.Line, ts, kind), isMap})
			case *ast.ForStmt:
				pos := cf.fset.Position(s.Pos())
				ls = append(ls, c20Loop{fmt.Sprintf("%s:%d for-loop", filepath.Base(pos.Filename), pos.Line), false})
			}
		}
		return ls
	}
	ast.Inspect(fn.Body, func(n ast.Node) bool {
		if n == nil {
			stack = stack[:len(stack)-1]
			return true
		}
		stack = append(stack, n)
		if c20IsRedirectsAppend(n) {
			out = append(out, loopsOf())
		}
		if call, ok := n.(*ast.CallExpr); ok {
			var id *ast.Ident
			switch f := call.Fun.(type) {
			case *ast.Ident:
				id = f
			case *ast.SelectorExpr:
				id = f.Sel
			}
			if id != nil {
				if callee := cf.funcs[cf.info.Uses[id]]; callee != nil {
					out = append(out, cf.sites(callee, loopsOf(), seen)...)
				}
			}
		}
		return true
	})
	return out
}

func c20LeanString(t *testing.T, s string) string {
	for _, c := range s {
		if c < 0x20 || c > 0x7e {
			t.Fatalf("facts: non-ASCII constant %q", s)
		}
	}
	return `"` + strings.NewReplacer(`\`, `\\`, `"`, `\"`).Replace(s) + `"`
}

func TestVerifFactsC20(t *testing.T) {
	dir, err := os.Getwd()
	if err != nil {
		t.Fatal(err)
	}
	fset := token.NewFileSet()
	ents, err := os.ReadDir(dir)
	if err != nil {
		t.Fatal(err)
	}
	var files []*ast.File
	for _, e := range ents {
		n := e.Name()
		if e.IsDir() || !strings.HasSuffix(n, ".go") || strings.HasSuffix(n, "_test.go") {
			continue
		}
		if ok, _ := build.Default.MatchFile(dir, n); !ok {
			continue
		}
		f, err := parser.ParseFile(fset, filepath.Join(dir, n), nil, parser.ParseComments)
		if err != nil {
			t.Fatalf("facts: parse %s: %v", n, err)
		}
		files = append(files, f)
	}
	info := &types.Info{Types: map[ast.Expr]types.TypeAndValue{}, Defs: map[*ast.Ident]types.Object{}, Uses: map[*ast.Ident]types.Object{}}
	conf := types.Config{Importer: importer.ForCompiler(fset, "source", nil), Error: func(error) {}}
	conf.Check("main", fset, files, info) // errors tolerated: only the types of ranged expressions are needed
	cf := &c20Facts{fset: fset, info: info, funcs: map[types.Object]*ast.FuncDecl{}}
	var root *ast.FuncDecl
	for _, f := range files {
		for _, d := range f.Decls {
			if fd, ok := d.(*ast.FuncDecl); ok {
				if obj := info.Defs[fd.Name]; obj != nil {
					cf.funcs[obj] = fd
				}
				if fd.Name.Name == "FindRedirects" && fd.Recv != nil {
					root = fd
				}
			}
		}
	}
	if root == nil {
		t.Fatal("facts: method FindRedirects not found")
	}
	sites := cf.sites(root, nil, map[*ast.FuncDecl]bool{})
	if len(sites) == 0 {
		t.Fatal("facts: no write to .Redirects reachable from FindRedirects")
	}
	// the two constants the model is instantiated with
	consts := map[string]string{}
	for _, local := range []bool{false, true} { // a constant declared inside FindRedirects wins
		for id, obj := range info.Defs {
			c, ok := obj.(*types.Const)
			if !ok || (id.Name != "redirectComment" && id.Name != "pkgPrefix") || c.Val().Kind() != constant.String {
				continue
			}
			if inRoot := id.Pos() >= root.Pos() && id.Pos() <= root.End(); inRoot == local {
				consts[id.Name] = constant.StringVal(c.Val())
			}
		}
	}
	for _, k := range []string{"redirectComment", "pkgPrefix"} {
		if _, ok := consts[k]; !ok {
			t.Fatalf("facts: string constant %s not found", k)
		}
	}

	out := verifOpen("VERIF_FACTS_OUT")
	defer out.close()
	out.printf("-- GENERATED by ./check from /repo (TestVerifFactsC20); do not edit.\n")
	out.printf("namespace Firefly.Gen.C20\n")
	out.printf("/-- the directive prefix `FindRedirects` matches doc-comment lines against -/\n")
	out.printf("def redirectComment : String := %s\n", c20LeanString(t, consts["redirectComment"]))
	out.printf("/-- import-path prefix of the destination symbols -/\n")
	out.printf("def pkgPrefix : String := %s\n", c20LeanString(t, consts["pkgPrefix"]))
	out.printf("/-- every write to `ctx.Redirects` reachable from `FindRedirects`: the loops that enclose it,\n")
	out.printf("outermost first; the flag says whether the loop is a `range` over a Go map (go/types) -/\n")
	out.printf("def appendSites : List (List (String × Bool)) := [\n")
	anyMap := false
	for i, s := range sites {
		out.printf("  [")
		for j, l := range s {
			if j > 0 {
				out.printf(",\n   ")
			}
			out.printf("(%s, %v)", c20LeanString(t, l.desc), l.isMap)
			anyMap = anyMap || l.isMap
		}
		out.printf("]")
		if i+1 < len(sites) {
			out.printf(",")
		}
		out.printf("\n")
	}
	out.printf("]\n")
	out.printf("/-- does the collection loop of `FindRedirects` range over a Go map on a path that appends to the\n")
	out.printf("redirect list?  (iteration order of a Go map is randomised per `range` statement) -/\n")
	out.printf("def rangesOverMap : Bool := %v\n", anyMap)
	out.printf("end Firefly.Gen.C20\n")
}

// ------------------------------------------------------------------ abstract trees

type c20Decl struct {
	kind  string   // func method | var type const varfunc struct iface varblock
	name  string
	doc   []string // the comments of the doc group (each a complete comment text)
	inner []string // comments inside the declaration (body, fields, specs): not doc
	trail string   // comment on the closing line: not doc
	after []string // free-standing comment group after the declaration
	padLen int     // kind "padstr": length of the string literal
}

// c20Align asks the renderer to size the "padstr" declaration decls[pad] so that comment
// doc[line] of decls[decl] begins exactly at byte offset `at` of the file.
type c20Align struct{ pad, decl, line, at int }

type c20File struct {
	goSyntax bool
	pkg      string
	header   []string
	decls    []c20Decl
	raw      []string // content lines of a file that is not Go syntax
	crlf     bool
	aligns   []c20Align // in increasing file order
}

type c20Ent struct {
	name string
	file *c20File  // nil for a directory
	kids []*c20Ent // directory entries, in generation (not sorted) order
}

func c20Hex(s string) string {
	if s == "" {
		return "-"
	}
	return hex.EncodeToString([]byte(s))
}

func (d *c20Decl) isFunc() bool { return d.kind == "func" || d.kind == "method" }

func (f *c20File) comments() []string {
	if !f.goSyntax {
		return f.raw
	}
	cs := append([]string(nil), f.header...)
	for _, d := range f.decls {
		cs = append(cs, d.inner...)
		if d.trail != "" {
			cs = append(cs, d.trail)
		}
		cs = append(cs, d.after...)
	}
	return cs
}

func c20Describe(b *strings.Builder, ents []*c20Ent) {
	fmt.Fprintf(b, " %d", len(ents))
	for _, e := range ents {
		if e.file == nil {
			fmt.Fprintf(b, " D %s", c20Hex(e.name))
			c20Describe(b, e.kids)
			continue
		}
		f := e.file
		nd := 0
		if f.goSyntax {
			nd = len(f.decls)
		}
		fmt.Fprintf(b, " F %s %d", c20Hex(e.name), nd)
		if f.goSyntax {
			for _, d := range f.decls {
				if d.isFunc() {
					fmt.Fprintf(b, " f %s %d", c20Hex(d.name), len(d.doc))
				} else {
					fmt.Fprintf(b, " o %d", len(d.doc))
				}
				for _, l := range d.doc {
					b.WriteString(" " + c20Hex(l))
				}
			}
		}
		cs := f.comments()
		fmt.Fprintf(b, " %d", len(cs))
		for _, c := range cs {
			b.WriteString(" " + c20Hex(c))
		}
	}
}

const c20PadChars = "0123456789abcdefghijklmnopqrstuvwxyz-+*=<>()[] ABCDEFGHIJKLMNOPQRSTUVWXYZ.,;:_"

func c20PadText(n int) string {
	return strings.Repeat(c20PadChars, n/len(c20PadChars)+1)[:n]
}

// render sizes the padding declarations until every requested alignment holds.
func (f *c20File) render() string {
	s, offs := f.renderRaw()
	at := func(a c20Align) int {
		off := offs[a.decl]
		for _, l := range f.decls[a.decl].doc[:a.line] {
			off += len(l) + 1
		}
		return off
	}
	for _, a := range f.aligns {
		if off := at(a); off > a.at || f.crlf {
			panic(fmt.Sprintf("c20: cannot place comment at %d (already at %d)", a.at, off))
		} else {
			f.decls[a.pad].padLen += a.at - off
		}
		s, offs = f.renderRaw()
	}
	for _, a := range f.aligns {
		if l := f.decls[a.decl].doc[a.line]; at(a) != a.at || !strings.HasPrefix(s[a.at:], l+"\n") {
			panic(fmt.Sprintf("c20: alignment at %d failed", a.at))
		}
	}
	return s
}

// renderRaw returns the file text and, per declaration, the offset at which its doc group starts.
func (f *c20File) renderRaw() (string, []int) {
	var b strings.Builder
	var offs []int
	if !f.goSyntax {
		for _, l := range f.raw {
			b.WriteString(l + "\n")
		}
		return b.String(), nil
	}
	for _, h := range f.header {
		b.WriteString(h + "\n")
	}
	if len(f.header) > 0 {
		b.WriteString("\n")
	}
	b.WriteString("package " + f.pkg + "\n\n")
	for _, d := range f.decls {
		offs = append(offs, b.Len())
		for _, l := range d.doc {
			b.WriteString(l + "\n")
		}
		inner := func() {
			for _, c := range d.inner {
				b.WriteString("\t" + c + "\n")
			}
		}
		switch d.kind {
		case "func":
			b.WriteString("func " + d.name + "(a, b uintptr) uintptr {\n")
			inner()
			b.WriteString("\tf := func() {}\n\t_ = f\n\treturn a + b\n}")
		case "method":
			b.WriteString("func (r *recv) " + d.name + "() {\n")
			inner()
			b.WriteString("}")
		case "var":
			b.WriteString("var " + d.name + " = 1")
		case "const":
			b.WriteString("const " + d.name + " = 2")
		case "type":
			b.WriteString("type " + d.name + " uintptr")
		case "varfunc":
			b.WriteString("var " + d.name + " = func() {\n")
			inner()
			b.WriteString("}")
		case "struct":
			b.WriteString("type " + d.name + " struct {\n")
			inner()
			b.WriteString("\tfield int\n}")
		case "iface":
			b.WriteString("type " + d.name + " interface {\n")
			inner()
			b.WriteString("\tMethod()\n}")
		case "varblock":
			b.WriteString("var (\n")
			inner()
			b.WriteString("\t" + d.name + " = 3\n)")
		case "padstr":
			b.WriteString("var " + d.name + " = \"" + c20PadText(d.padLen) + "\"")
		}
		if d.trail != "" {
			b.WriteString(" " + d.trail)
		}
		b.WriteString("\n\n")
		for _, c := range d.after {
			b.WriteString(c + "\n")
		}
		if len(d.after) > 0 {
			b.WriteString("\n")
		}
	}
	s := b.String()
	if f.crlf {
		s = strings.ReplaceAll(s, "\n", "\r\n")
	}
	return s, offs
}

func c20Write(t *testing.T, dir string, ents []*c20Ent) {
	for _, e := range ents {
		p := filepath.Join(dir, e.name)
		if e.file == nil {
			if err := os.Mkdir(p, 0755); err != nil {
				t.Fatal(err)
			}
			c20Write(t, p, e.kids)
		} else if err := os.WriteFile(p, []byte(e.file.render()), 0644); err != nil {
			t.Fatal(err)
		}
	}
}

// ------------------------------------------------------------------ running the real code

type c20Pair struct{ src, dst string }

func c20Find(t *testing.T, root string) (res []c20Pair, panicked bool) {
	old, err := os.Getwd()
	if err != nil {
		t.Fatal(err)
	}
	if err := os.Chdir(root); err != nil {
		t.Fatal(err)
	}
	defer os.Chdir(old)
	defer func() {
		if recover() != nil {
			panicked = true
		}
	}()
	ctx := &Context{}
	ctx.FindRedirects()
	for _, r := range ctx.Redirects {
		res = append(res, c20Pair{r.SrcSymbol, r.DstSymbol})
	}
	return res, false
}

const c20Runs = 20

func c20Case(t *testing.T, out *verifWriter, id string, ents []*c20Ent, root string, runs int) {
	var b strings.Builder
	c20Describe(&b, ents)
	h := fnv.New64a()
	h.Write([]byte(b.String()))
	digest := fmt.Sprintf("%016x", h.Sum64())
	out.printf("case %s\n#tree %s%s\n", id, digest, b.String())
	for k := 0; k < runs; k++ {
		res, panicked := c20Find(t, root)
		if panicked {
			out.printf("run %s | panic\n", digest)
			continue
		}
		out.printf("run %s | %d", digest, len(res))
		for _, p := range res {
			out.printf(" %s %s", c20Hex(p.src), c20Hex(p.dst))
		}
		out.printf("\n")
	}
	out.w.Flush()
}

// c20Generated materialises a generated tree under $VERIF_BUILD/trees/<id> and runs the case.
func c20Generated(t *testing.T, out *verifWriter, base, id string, ents []*c20Ent, runs int) {
	root := filepath.Join(base, id)
	if err := os.MkdirAll(root, 0755); err != nil {
		t.Fatal(err)
	}
	c20Write(t, root, ents)
	c20Case(t, out, id, ents, root, runs)
	if os.Getenv("VERIF_KEEP") == "" {
		os.RemoveAll(root)
	}
}

// ------------------------------------------------------------------ abstraction of an existing tree

// c20Abstract describes an existing directory as an abstract tree: directory listing by
// os.ReadDir, declarations and doc groups by go/parser (this is the "parser is trusted" half:
// for /repo/kernel the abstract tree is not known by construction).
func c20Abstract(t *testing.T, dir string) []*c20Ent {
	des, err := os.ReadDir(dir)
	if err != nil {
		t.Fatal(err)
	}
	var ents []*c20Ent
	for i := len(des) - 1; i >= 0; i-- { // reversed listing: the model must sort
		de := des[i]
		p := filepath.Join(dir, de.Name())
		if de.IsDir() {
			ents = append(ents, &c20Ent{name: de.Name(), kids: c20Abstract(t, p)})
			continue
		}
		f := &c20File{}
		ents = append(ents, &c20Ent{name: de.Name(), file: f})
		if !strings.HasSuffix(de.Name(), ".go") {
			continue
		}
		fset := token.NewFileSet()
		af, err := parser.ParseFile(fset, p, nil, parser.ParseComments)
		if err != nil {
			continue
		}
		f.goSyntax = true
		docs := map[*ast.CommentGroup]bool{}
		for _, d := range af.Decls {
			var cd c20Decl
			var doc *ast.CommentGroup
			switch d := d.(type) {
			case *ast.FuncDecl:
				cd.kind, cd.name, doc = "func", d.Name.Name, d.Doc
			case *ast.GenDecl:
				cd.kind, doc = "var", d.Doc
			default:
				cd.kind = "var"
			}
			if doc != nil {
				docs[doc] = true
				for _, c := range doc.List {
					cd.doc = append(cd.doc, c.Text)
				}
			}
			f.decls = append(f.decls, cd)
		}
		for _, g := range af.Comments {
			if !docs[g] {
				for _, c := range g.List {
					f.header = append(f.header, c.Text)
				}
			}
		}
	}
	return ents
}

// ------------------------------------------------------------------ generators

var c20Idents = []string{"sysAlloc", "sysMap", "nanotime", "gopanic", "throw", "init", "mallocinit", "getRandomData", "Sys_Reserve", "x", "Ω"}

func c20Sym(r *vrng) string {
	switch r.intn(8) {
	case 0:
		return "runtime.(*mheap)." + c20Idents[r.intn(len(c20Idents))]
	case 1:
		return c20Idents[r.intn(len(c20Idents))]
	case 2:
		return "github.com/x/y." + c20Idents[r.intn(len(c20Idents))]
	default:
		return "runtime." + c20Idents[r.intn(len(c20Idents))]
	}
}

const c20Directive = "//go:redirect-from"

// c20Line yields one comment text: a directive, a variant that still carries the prefix, a
// look-alike that does not, another compiler directive, or prose.
func c20Line(r *vrng) string {
	s := c20Sym(r)
	switch r.intn(28) {
	case 0, 1, 2, 3, 4, 5, 6, 7, 8, 9:
		return c20Directive + " " + s
	case 10:
		return c20Directive + "\t" + s + "  "
	case 11:
		return c20Directive + s
	case 12:
		return c20Directive
	case 13:
		return c20Directive + "   "
	case 14:
		return c20Directive + " \u00a0" + s + "\u2003"
	case 15:
		return c20Directive + " " + s + " " + c20Sym(r)
	case 16:
		return "// go:redirect-from " + s
	case 17:
		return "// see " + c20Directive + " " + s
	case 18:
		return "/*go:redirect-from " + s + "*/"
	case 19:
		return "/*\n" + c20Directive + " " + s + "\n*/"
	case 20:
		return "//go:redirect-to " + s
	case 21:
		return "//Go:redirect-from " + s
	case 22:
		return "//go:redirect-fro"
	case 23:
		return "//go:nosplit"
	case 24:
		return "//go:noinline"
	case 25:
		return "//"
	case 26:
		return c20Directive + " \u200b" + s // zero-width space is not white space for TrimSpace
	default:
		return "// " + s + " is replaced at boot."
	}
}

func c20Lines(r *vrng, lo, hi int) []string {
	var ls []string
	for n := r.between(lo, hi); n > 0; n-- {
		ls = append(ls, c20Line(r))
	}
	return ls
}

var c20Kinds = []string{"func", "func", "func", "func", "func", "func", "func", "func", "func", "method", "method",
	"var", "var", "type", "const", "varfunc", "struct", "iface", "varblock"}

func c20GenDecl(r *vrng, i int) c20Decl {
	d := c20Decl{kind: c20Kinds[r.intn(len(c20Kinds))]}
	d.name = fmt.Sprintf("%s%d", []string{"f", "Alloc", "sys", "init", "T"}[r.intn(5)], i)
	if r.chance(15) {
		d.name = []string{"init", "main", "_", "sysAlloc", "Ωmega"}[r.intn(5)] // repeated names across files and dirs
	}
	if r.chance(75) {
		d.doc = c20Lines(r, 1, 4)
	}
	if d.kind != "var" && d.kind != "const" && d.kind != "type" && r.chance(40) {
		d.inner = c20Lines(r, 1, 2)
	}
	if r.chance(15) {
		d.trail = c20Line(r)
		if strings.HasPrefix(d.trail, "/*\n") {
			d.trail = "// trailing"
		}
	}
	if r.chance(30) {
		d.after = c20Lines(r, 1, 2)
	}
	return d
}

func c20GenGoFile(r *vrng) *c20File {
	f := &c20File{goSyntax: true, pkg: []string{"kernel", "main", "vmm", "kfmt"}[r.intn(4)], crlf: r.chance(5)}
	if r.chance(40) {
		f.header = c20Lines(r, 1, 2)
	}
	n := r.between(0, 7)
	if r.chance(10) {
		n = r.between(8, 14) // more annotated functions than fit one map bucket
	}
	for i := 0; i < n; i++ {
		f.decls = append(f.decls, c20GenDecl(r, i))
	}
	return f
}

var c20DirNames = []string{"mm", "vmm", "pmm", "kfmt", "hal", "a", "B", "a-b", "a.b", "a_b", "a0", "z", "pkg.go", "x_test.go", "vendor", "testdata", ".hidden", "_skip"}
var c20GoNames = []string{"a.go", "b.go", "main.go", "z.go", "a0.go", "a-b.go", "a_b.go", "B.go", "mm.go", ".go", "test.go", "x_test.go.go", "_tests.go", "vmm_amd64.go"}
var c20TestNames = []string{"a_test.go", "main_test.go", "_test.go", "x_test.go", "zz_test.go"}
var c20OtherNames = []string{"README.md", "a.go.bak", "notes.txt", "go", "a.golang", "a.go~", "x.s", "a.GO", "go.mod"}

func c20GenDir(r *vrng, depth, width int) []*c20Ent {
	var ents []*c20Ent
	used := map[string]bool{}
	n := r.between(0, width)
	if depth == 0 {
		n = r.between(1, width+1)
	}
	for i := 0; i < n; i++ {
		var e *c20Ent
		switch k := r.intn(100); {
		case k < 25 && depth < 4:
			e = &c20Ent{name: c20DirNames[r.intn(len(c20DirNames))]}
			if !used[e.name] {
				e.kids = c20GenDir(r, depth+1, width)
			}
		case k < 75:
			e = &c20Ent{name: c20GoNames[r.intn(len(c20GoNames))], file: c20GenGoFile(r)}
			if r.chance(4) {
				e.file = c20GenBigFile(r)
			}
		case k < 88:
			e = &c20Ent{name: c20TestNames[r.intn(len(c20TestNames))], file: c20GenGoFile(r)}
		default:
			e = &c20Ent{name: c20OtherNames[r.intn(len(c20OtherNames))]}
			if r.chance(50) {
				e.file = c20GenGoFile(r) // Go syntax under a name that is not *.go
			} else {
				e.file = &c20File{raw: c20Lines(r, 0, 3)}
			}
		}
		if used[e.name] {
			continue
		}
		used[e.name] = true
		ents = append(ents, e)
	}
	return ents
}

// ------------------------------------------------------------------ big files: annotations at chosen byte offsets

// Comment texts that do not contain the directive text anywhere (so that the annotation placed
// at the chosen offset is the only occurrence of the marker in the file).
var c20Filler = []string{"// filler: tables below are generated.", "//go:nosplit", "// go:redirect-from runtime.spaced",
	"//go:redirect-to runtime.other", "/*go:redirect-from runtime.block*/", "//", "// see the boot assembly for NUM_REDIRECTS.", "//go:noinline"}

// c20FillerDecls yields about `bytes` bytes of ordinary declarations, comments and literals
// (style 0: one string literal does the work later; 1: comments; 2: many declarations).
func c20FillerDecls(style, bytes int) []c20Decl {
	if bytes < 400 {
		return nil
	}
	ds := []c20Decl{{kind: "var", name: "tableSize", doc: []string{c20Filler[0]}},
		{kind: "struct", name: "glyph", doc: []string{c20Filler[2]}, inner: []string{c20Filler[3]}}}
	switch style {
	case 1: // a free-standing block comment and a long line comment, about half of the distance
		ds = append(ds, c20Decl{kind: "type", name: "pad", after: []string{"/* " + c20PadText(bytes/3) + " */", "// " + c20PadText(bytes/6)}})
	case 2: // many small declarations, some documented
		n := bytes / 24
		if n > 2500 {
			n = 2500
		}
		for i := 0; i < n; i++ {
			d := c20Decl{kind: []string{"var", "const", "type"}[i%3], name: fmt.Sprintf("pad%d", i)}
			if i%50 == 0 {
				d.doc = []string{c20Filler[i/50%len(c20Filler)]}
			}
			if i%70 == 0 {
				d = c20Decl{kind: "func", name: fmt.Sprintf("padFn%d", i), doc: []string{c20Filler[4]}, inner: []string{c20Filler[1]}}
			}
			ds = append(ds, d)
		}
	}
	return ds
}

// c20BigFile builds a Go file whose annotations begin exactly at the byte offsets `ats`
// (increasing); `early` adds one more annotated function at the very top of the file, `tail`
// bytes of literal follow the last annotated function.
func c20BigFile(style int, ats []int, early bool, tail int, tag string) *c20File {
	f := &c20File{goSyntax: true, pkg: "kernel"}
	if early {
		f.decls = append(f.decls, c20Fn("early"+tag, c20Directive+" runtime.early"+tag))
	}
	prev := 0
	for i, at := range ats {
		f.decls = append(f.decls, c20FillerDecls(style, at-prev-400)...)
		f.decls = append(f.decls, c20Decl{kind: "padstr", name: fmt.Sprintf("padData%d", i)})
		doc := []string{fmt.Sprintf("%s runtime.at%s_%d", c20Directive, tag, i)}
		line := 0
		if (at+i)%2 == 1 { // the annotation is not always the first comment of the group
			doc = []string{"// " + fmt.Sprintf("Target%d replaces a runtime symbol.", i), doc[0], "//go:nosplit"}
			line = 1
		}
		kind := "func"
		if at%3 == 0 {
			kind = "method"
		}
		f.decls = append(f.decls, c20Decl{kind: kind, name: fmt.Sprintf("Target%s_%d", tag, i), doc: doc})
		f.aligns = append(f.aligns, c20Align{pad: len(f.decls) - 2, decl: len(f.decls) - 1, line: line, at: at})
		prev = at
		style = 0 // later gaps are bridged by the literal alone
	}
	if tail > 0 {
		f.decls = append(f.decls, c20Decl{kind: "padstr", name: "padTail", padLen: tail})
	}
	return f
}

// c20Sweep: one file per offset mult*k-24 … mult*k+2, each with its annotation exactly there.
func c20Sweep(mult, k int, early bool) []*c20Ent {
	var files []*c20Ent
	for d := -24; d <= 2; d++ {
		tag := fmt.Sprintf("m%dk%dd%d", mult, k, d+24)
		files = append(files, c20F(fmt.Sprintf("o%02d.go", d+24), c20BigFile((d+24)%3, []int{mult*k + d}, early, (d+24)%4*mult/2, tag)))
	}
	return []*c20Ent{c20F("small.go", c20GoFile(c20Fn("small", c20Directive+" runtime.small"))), c20D("font", files...)}
}

// c20SweepPairs: files with two annotations, each near a (different) multiple of mult.
func c20SweepPairs(mult int) []*c20Ent {
	var files []*c20Ent
	for i, p := range [][4]int{{1, -17, 2, -1}, {1, -1, 2, -17}, {1, -9, 3, -9}, {2, -18, 3, 0}, {1, 0, 2, -18}, {1, -5, 4, -12}, {2, -1, 4, -1}} {
		tag := fmt.Sprintf("p%dn%d", mult, i)
		files = append(files, c20F(fmt.Sprintf("p%d.go", i), c20BigFile(i%3, []int{mult*p[0] + p[1], mult*p[2] + p[3]}, false, mult/3, tag)))
	}
	return []*c20Ent{c20D("device", c20D("acpi", files...))}
}

// c20GenBigFile: seeded counterpart — random padding, the annotation near a multiple of a
// plausible buffer size (or anywhere), alone or with company.
func c20GenBigFile(r *vrng) *c20File {
	mult := []int{512, 1024, 4096, 8192, 16384, 32768, 65536}[r.intn(7)]
	k := r.between(1, 4)
	for mult*k > 200000 {
		k--
	}
	for mult*k < 1024 {
		k++
	}
	at := mult*k + r.between(-24, 2)
	if r.chance(25) {
		at = r.between(600, 150000)
	}
	ats := []int{at}
	if r.chance(20) {
		ats = append(ats, at+mult*r.between(1, 2)+r.between(-24, 2))
	}
	f := c20BigFile(r.intn(3), ats, r.chance(15), r.intn(3)*r.intn(40000), fmt.Sprintf("r%d", r.intn(1000)))
	if r.chance(15) { // company that carries the marker text without being an annotation
		f.decls = append(f.decls, c20Decl{kind: "var", name: "tailVar", doc: []string{c20Directive + " runtime.onVar"}})
	}
	return f
}

// ------------------------------------------------------------------ deterministic boundary list

func c20Fn(name string, doc ...string) c20Decl { return c20Decl{kind: "func", name: name, doc: doc} }

func c20GoFile(decls ...c20Decl) *c20File { return &c20File{goSyntax: true, pkg: "kernel", decls: decls} }

func c20F(name string, f *c20File) *c20Ent { return &c20Ent{name: name, file: f} }

func c20D(name string, kids ...*c20Ent) *c20Ent {
	return &c20Ent{name: name, kids: kids}
}

func c20Boundary() [][]*c20Ent {
	dir := c20Directive
	many := func(prefix string, n int) *c20File {
		f := c20GoFile()
		for i := 0; i < n; i++ {
			f.decls = append(f.decls, c20Fn(fmt.Sprintf("%s%d", prefix, i), "// doc", fmt.Sprintf("%s runtime.%s%d", dir, prefix, i)))
		}
		return f
	}
	lookalikeDecls := func() []c20Decl {
		return []c20Decl{
			{kind: "var", name: "v", doc: []string{dir + " runtime.onVar"}},
			{kind: "type", name: "T", doc: []string{dir + " runtime.onType"}},
			{kind: "const", name: "c", doc: []string{dir + " runtime.onConst"}},
			{kind: "varfunc", name: "vf", doc: []string{dir + " runtime.onFuncValue"}, inner: []string{dir + " runtime.inFuncValueBody"}},
			{kind: "struct", name: "S", doc: []string{dir + " runtime.onStruct"}, inner: []string{dir + " runtime.onField"}},
			{kind: "iface", name: "I", doc: []string{dir + " runtime.onIface"}, inner: []string{dir + " runtime.onIfaceMethod"}},
			{kind: "varblock", name: "vb", doc: []string{dir + " runtime.onVarBlock"}, inner: []string{dir + " runtime.onVarSpec"}},
			{kind: "func", name: "plain", doc: []string{"// plain has no directive."}, inner: []string{dir + " runtime.inBody"},
				trail: dir + " runtime.trailing", after: []string{dir + " runtime.freeStanding"}},
			{kind: "func", name: "nodoc"},
		}
	}
	return [][]*c20Ent{
		// 0: a directory without entries
		{},
		// 1: one file, one function, one directive
		{c20F("a.go", c20GoFile(c20Fn("alloc", dir+" runtime.sysAlloc")))},
		// 2: two annotated functions in one file (smallest D12 witness), 3: six, 4: twelve
		{c20F("a.go", c20GoFile(c20Fn("first", dir+" runtime.first"), c20Fn("second", dir+" runtime.second")))},
		{c20F("a.go", many("f", 6))},
		{c20F("a.go", many("g", 12)), c20D("sub", c20F("b.go", many("h", 9)))},
		// 5: several directives on one function, mixed with prose and other directives
		{c20F("a.go", c20GoFile(c20Fn("multi", "// multi replaces three symbols.", dir+" runtime.one", "//go:nosplit", dir+" runtime.two",
			"//", dir+" runtime.three", "//go:noinline"), c20Decl{kind: "method", name: "meth", doc: []string{dir + " runtime.meth"}}))},
		// 6: look-alikes that must be ignored, next to one real directive
		{c20F("a.go", &c20File{goSyntax: true, pkg: "kernel", header: []string{dir + " runtime.aboveHeader"},
			decls: append(lookalikeDecls(), c20Fn("real", dir+" runtime.real"))}),
			c20F("a_test.go", c20GoFile(c20Fn("inTest", dir+" runtime.inTestFile"))),
			c20F("_test.go", c20GoFile(c20Fn("inTest2", dir+" runtime.inBareTestFile"))),
			c20F("a.go.bak", c20GoFile(c20Fn("inBak", dir+" runtime.inBackup"))),
			c20F("notes.txt", &c20File{raw: []string{dir + " runtime.inText", "func f() {}"}}),
			c20F("a.GO", c20GoFile(c20Fn("inUpper", dir+" runtime.inUpperExt"))),
			c20F("go", c20GoFile(c20Fn("inNoExt", dir+" runtime.inNoExt")))},
		// 7: what does and does not carry the directive prefix; trimming of the source symbol
		{c20F("a.go", c20GoFile(
			c20Fn("t0", dir+"\truntime.tab  "), c20Fn("t1", dir+"runtime.nospace"), c20Fn("t2", dir), c20Fn("t3", dir+"    "),
			c20Fn("t4", dir+" \u00a0runtime.nbsp\u2003\u3000"), c20Fn("t5", dir+" runtime.two words"), c20Fn("t6", "// go:redirect-from runtime.leadingSpace"),
			c20Fn("t7", "// see "+dir+" runtime.midLine"), c20Fn("t8", "/*go:redirect-from runtime.block*/"), c20Fn("t9", "/*\n"+dir+" runtime.inBlock\n*/"),
			c20Fn("t10", "//go:redirect-to runtime.other"), c20Fn("t11", "//Go:redirect-from runtime.upper"), c20Fn("t12", "//go:redirect-fro"),
			c20Fn("t13", dir+" \u200bruntime.zwsp"), c20Fn("t14", dir+" \u0085runtime.nel\u1680"), c20Fn("t15", dir+dir+" runtime.twice")))},
		// 8: nesting to depth 4; sorted-name traps (per-directory name order is not full-path order)
		{c20F("z.go", many("z", 2)), c20F("a-b.go", many("ab", 1)), c20F("a.go", many("a", 1)), c20F("B.go", many("b", 1)),
			c20D("a", c20F("x.go", many("ax", 2)), c20D("a", c20F("x.go", many("aax", 1)), c20D("a", c20D("a", c20F("deep.go", many("deep", 2)))))),
			c20D("a0", c20F("x.go", many("a0x", 1))), c20D("a.go.d", c20F("x.go", many("agod", 1))),
			c20D("pkg.go", c20F("inside.go", many("dirNamedGo", 1))), c20D("x_test.go", c20F("inside.go", many("dirNamedTest", 1))),
			c20D("empty"), c20D("Z", c20F("_test.go", many("zt", 1)), c20F(".go", many("dotgo", 1)))},
		// 9: the same function name and the same source symbol in several places: one entry each
		{c20F("a.go", c20GoFile(c20Fn("init", dir+" runtime.init"), c20Fn("init", dir+" runtime.init"))),
			c20D("mm", c20F("a.go", c20GoFile(c20Fn("init", dir+" runtime.init", dir+" runtime.init"))),
				c20D("vmm", c20F("a.go", c20GoFile(c20Fn("init", dir+" runtime.init")))))},
		// 10: CRLF line endings
		{c20F("a.go", &c20File{goSyntax: true, pkg: "kernel", crlf: true, decls: []c20Decl{c20Fn("crlf", "// doc", dir+" runtime.crlf"), c20Fn("crlf2", dir+" runtime.crlf2 ")}})},
		// 11: a test file that does not even parse is never opened
		{c20F("a.go", c20GoFile(c20Fn("ok", dir+" runtime.ok"))),
			c20F("broken_test.go", &c20File{raw: []string{"this is not Go {{{", dir + " runtime.inBrokenTest"}}),
			c20D("sub", c20F("notgo.txt", &c20File{raw: []string{"func {{{", dir + " runtime.inBrokenText"}}))},
	}
}

// ------------------------------------------------------------------ the test

func TestVerifC20(t *testing.T) {
	out := verifOpen("VERIF_OUT")
	defer out.close()
	build := os.Getenv("VERIF_BUILD")
	if build == "" {
		t.Fatal("VERIF_BUILD not set (generated trees are written below it)")
	}
	base := filepath.Join(build, "trees")
	os.RemoveAll(base)
	if err := os.MkdirAll(base, 0755); err != nil {
		t.Fatal(err)
	}
	defer func() {
		if os.Getenv("VERIF_KEEP") == "" {
			os.RemoveAll(base)
		}
	}()

	// the import path of the kernel module, from its go.mod: what "fully qualified" means,
	// independently of the constant in redirects.go
	cwd, err := os.Getwd()
	if err != nil {
		t.Fatal(err)
	}
	kernel := filepath.Join(cwd, "..", "kernel")
	gomod, err := os.ReadFile(filepath.Join(kernel, "go.mod"))
	if err != nil {
		t.Fatalf("kernel tree not found: %v", err)
	}
	module := ""
	for _, l := range strings.Split(string(gomod), "\n") {
		if f := strings.Fields(l); len(f) == 2 && f[0] == "module" {
			module = f[1]
		}
	}
	out.printf("#module %s\n", c20Hex(module))

	for i, ents := range c20Boundary() {
		c20Generated(t, out, base, fmt.Sprintf("b%d", i), ents, c20Runs)
	}

	// byte-offset sweep: the annotation at every offset around multiples of plausible buffer sizes
	// (4 runs per tree: these trees probe file size / position, not iteration order)
	for _, mk := range [][2]int{{512, 2}, {512, 3}, {1024, 1}, {4096, 1}, {4096, 2}, {4096, 3}, {4096, 4}, {32768, 1}, {32768, 2}, {32768, 3}, {32768, 4}, {65536, 3}} {
		c20Generated(t, out, base, fmt.Sprintf("sweep-%d-%d", mk[0], mk[1]), c20Sweep(mk[0], mk[1], false), 4)
		c20Generated(t, out, base, fmt.Sprintf("sweep-%d-%d-early", mk[0], mk[1]), c20Sweep(mk[0], mk[1], true), 4)
	}
	for _, m := range []int{4096, 32768, 65536} {
		c20Generated(t, out, base, fmt.Sprintf("pairs-%d", m), c20SweepPairs(m), 4)
	}

	// the kernel tree itself (relative to the package under test: <repo>/kbuild/../kernel)
	c20Case(t, out, "kernel", c20Abstract(t, kernel), kernel, c20Runs)

	rng := &vrng{s: verifSeed()}
	n := verifN(120)
	width := 5
	if os.Getenv("VERIF_TIER") == "thorough" {
		width = 7
	}
	for i := 0; i < n; i++ {
		r := rng.fork()
		c20Generated(t, out, base, fmt.Sprintf("%d", i), c20GenDir(r, 0, width), c20Runs)
	}
}
