//go:build verif

package multiboot

// Export shim for the C19 HAL harness: the parsed boot command line is cached in a package
// variable; a harness that boots several command lines has to drop the cache in between.
func VerifC19ResetCmdLine() { cmdLineKV = nil }
