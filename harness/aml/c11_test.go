//go:build verif

package aml

// C11 — well-formed AML is parsed into a namespace that matches the program.
// A case = 1..3 tables generated from the grammar subset (Lean twin: Firefly.AmlProg); trace lines:
//   case <id>
//   T <handle> <hex of the encoded payload> <s-expression of the table's AST> | <observation>
// observation = the canonical pool dump of amlObservation (all rows, no limit).
// The Lean driver re-encodes the AST with `encode` (byte-for-byte cross-check), runs the parser model,
// and decides nsOf(tree of the REAL parser) = namespaceOf(AST).

import (
	"fmt"
	"os"
	"strings"
	"testing"
	"time"
)

func TestVerifFactsC11(t *testing.T) {
	out := verifOpen("VERIF_FACTS_OUT")
	defer out.close()
	amlPrintFacts(out.w, "C11")
}

// ---- AST (generic s-expression nodes with an encoder per kind)

type c11Name struct {
	root   bool
	carets int
	segs   []string
}

func (n c11Name) sx() string {
	r := 0
	if n.root {
		r = 1
	}
	return fmt.Sprintf("N%d%d:%s", r, n.carets, strings.Join(n.segs, "."))
}
func (n c11Name) enc() []byte {
	var out []byte
	if n.root {
		out = append(out, '\\')
	}
	for i := 0; i < n.carets; i++ {
		out = append(out, '^')
	}
	switch len(n.segs) {
	case 0:
		out = append(out, 0)
	case 1:
		out = append(out, n.segs[0]...)
	case 2:
		out = append(out, 0x2e)
		out = append(out, n.segs[0]...)
		out = append(out, n.segs[1]...)
	default:
		out = append(out, 0x2f, byte(len(n.segs)))
		for _, s := range n.segs {
			out = append(out, s...)
		}
	}
	return out
}

type c11Node interface {
	sx() string
	enc() []byte
}

func c11Pkg(op []byte, w int, body []byte) []byte {
	out := append([]byte(nil), op...)
	out = append(out, c12EncPkgLen(uint32(w+len(body)), w)...)
	return append(out, body...)
}

// minimal width for a package whose body has n bytes
func c11Width(r *vrng, n int) int {
	w := 1
	for ; w < 4; w++ {
		max := 0x3f
		if w > 1 {
			max = 1<<uint(4+8*(w-1)) - 1
		}
		if n+w <= max {
			break
		}
	}
	if r != nil && r.chance(25) && w < 4 {
		w += 1 + r.intn(4-w)
	}
	return w
}

type c11Int struct {
	w int
	v uint64
}

func (i c11Int) sx() string { return fmt.Sprintf("i%d:%d", i.w, i.v) }
func (i c11Int) enc() []byte {
	le := func(n int) []byte {
		b := make([]byte, n)
		for k := 0; k < n; k++ {
			b[k] = byte(i.v >> uint(8*k))
		}
		return b
	}
	switch i.w {
	case 0:
		switch i.v {
		case 0:
			return []byte{0x00}
		case 1:
			return []byte{0x01}
		}
		return []byte{0xff}
	case 1:
		return append([]byte{0x0a}, le(1)...)
	case 2:
		return append([]byte{0x0b}, le(2)...)
	case 4:
		return append([]byte{0x0c}, le(4)...)
	}
	return append([]byte{0x0e}, le(8)...)
}

type c11Str struct{ s []byte }

func (s c11Str) sx() string  { return "s" + amlHex(s.s) }
func (s c11Str) enc() []byte { return append(append([]byte{0x0d}, s.s...), 0) }

type c11Buf struct {
	w, size int
	bytes   []byte
}

func (b c11Buf) sx() string { return fmt.Sprintf("b%d:%d:%s", b.w, b.size, amlHex(b.bytes)) }
func (b c11Buf) enc() []byte {
	return c11Pkg([]byte{0x11}, b.w, append([]byte{0x0a, byte(b.size)}, b.bytes...))
}

type c11List struct {
	kind  string // p (package), call, add, store, ret, if, while, name, scope, device, method, region, field, mutex, event, proc, power, thermal
	w     int
	name  c11Name
	ints  []uint64
	kids  []c11Node
	units []string // field units (already in s-expression form), with encodings in unitEnc
	uenc  [][]byte
	tgt   int     // add: target local or -1
	name2 c11Name // ifield: data register; bfield: bank register
	val   c11Int  // bfield: bank value
}

func c11Kids(ks []c11Node) (string, []byte) { return c11KidsSx(ks), c11KidsEnc(ks) }

// the two halves separately: sx() must not encode and enc() must not print, or the cost doubles at every nesting level
func c11KidsSx(ks []c11Node) string {
	var sb strings.Builder
	for _, k := range ks {
		sb.WriteByte(' ')
		sb.WriteString(k.sx())
	}
	return sb.String()
}

func c11KidsEnc(ks []c11Node) []byte {
	var out []byte
	for _, k := range ks {
		out = append(out, k.enc()...)
	}
	return out
}

func (l *c11List) sx() string {
	ks := c11KidsSx(l.kids)
	switch l.kind {
	case "p":
		return fmt.Sprintf("( p %d%s )", l.w, ks)
	case "call":
		return fmt.Sprintf("( call %s%s )", l.name.sx(), ks)
	case "add":
		t := "-"
		if l.tgt >= 0 {
			t = fmt.Sprint(l.tgt)
		}
		return fmt.Sprintf("( add%s T%s )", ks, t)
	case "store":
		return fmt.Sprintf("( store%s L%d )", ks, l.ints[0])
	case "ret":
		return fmt.Sprintf("( ret%s )", ks)
	case "if", "while":
		return fmt.Sprintf("( %s %d%s )", l.kind, l.w, ks)
	case "name":
		return fmt.Sprintf("( name %s%s )", l.name.sx(), ks)
	case "scope", "device", "thermal":
		return fmt.Sprintf("( %s %d %s%s )", l.kind, l.w, l.name.sx(), ks)
	case "method":
		return fmt.Sprintf("( method %d %s %d%s )", l.w, l.name.sx(), l.ints[0], ks)
	case "region":
		return fmt.Sprintf("( region %s %d%s )", l.name.sx(), l.ints[0], ks)
	case "field":
		return fmt.Sprintf("( field %d %s %d %s )", l.w, l.name.sx(), l.ints[0], strings.Join(l.units, " "))
	case "ifield":
		return fmt.Sprintf("( ifield %d %s %s %d %s )", l.w, l.name.sx(), l.name2.sx(), l.ints[0], strings.Join(l.units, " "))
	case "bfield":
		return fmt.Sprintf("( bfield %d %s %s %s %d %s )", l.w, l.name.sx(), l.name2.sx(), l.val.sx(), l.ints[0], strings.Join(l.units, " "))
	case "mutex":
		return fmt.Sprintf("( mutex %s %d )", l.name.sx(), l.ints[0])
	case "event":
		return fmt.Sprintf("( event %s )", l.name.sx())
	case "proc":
		return fmt.Sprintf("( proc %d %s %d %d %d%s )", l.w, l.name.sx(), l.ints[0], l.ints[1], l.ints[2], ks)
	case "power":
		return fmt.Sprintf("( power %d %s %d %d%s )", l.w, l.name.sx(), l.ints[0], l.ints[1], ks)
	}
	return "noop"
}

// body bytes (without opcode and PkgLength) — used to choose the width before encoding
func (l *c11List) body() []byte {
	kb := c11KidsEnc(l.kids)
	switch l.kind {
	case "p":
		return append([]byte{byte(len(l.kids))}, kb...)
	case "if", "while":
		return kb
	case "scope", "device", "thermal":
		return append(l.name.enc(), kb...)
	case "method":
		return append(append(l.name.enc(), byte(l.ints[0])), kb...)
	case "field":
		b := append(l.name.enc(), byte(l.ints[0]))
		for _, u := range l.uenc {
			b = append(b, u...)
		}
		return b
	case "ifield", "bfield":
		b := append(l.name.enc(), l.name2.enc()...)
		if l.kind == "bfield" {
			b = append(b, l.val.enc()...)
		}
		b = append(b, byte(l.ints[0]))
		for _, u := range l.uenc {
			b = append(b, u...)
		}
		return b
	case "proc":
		a := uint32(l.ints[1])
		b := append(l.name.enc(), byte(l.ints[0]), byte(a), byte(a>>8), byte(a>>16), byte(a>>24), byte(l.ints[2]))
		return append(b, kb...)
	case "power":
		b := append(l.name.enc(), byte(l.ints[0]), byte(l.ints[1]), byte(l.ints[1]>>8))
		return append(b, kb...)
	}
	return nil
}

func (l *c11List) enc() []byte {
	// every level encodes its children exactly once (programs may be nested 40 deep)
	switch l.kind {
	case "p", "if", "while", "scope", "device", "thermal", "method", "field", "ifield", "bfield", "proc", "power":
		op := map[string][]byte{"p": {0x12}, "if": {0xa0}, "while": {0xa2}, "scope": {0x10}, "device": {0x5b, 0x82}, "thermal": {0x5b, 0x85},
			"method": {0x14}, "field": {0x5b, 0x81}, "ifield": {0x5b, 0x86}, "bfield": {0x5b, 0x87}, "proc": {0x5b, 0x83}, "power": {0x5b, 0x84}}[l.kind]
		return c11Pkg(op, l.w, l.body())
	}
	kb := c11KidsEnc(l.kids)
	switch l.kind {
	case "p":
		return c11Pkg([]byte{0x12}, l.w, l.body())
	case "call":
		return append(l.name.enc(), kb...)
	case "add":
		t := byte(0)
		if l.tgt >= 0 {
			t = byte(0x60 + l.tgt)
		}
		return append(append([]byte{0x72}, kb...), t)
	case "store":
		return append(append([]byte{0x70}, kb...), byte(0x60+l.ints[0]))
	case "ret":
		return append([]byte{0xa4}, kb...)
	case "if":
		return c11Pkg([]byte{0xa0}, l.w, l.body())
	case "while":
		return c11Pkg([]byte{0xa2}, l.w, l.body())
	case "name":
		return append(append([]byte{0x08}, l.name.enc()...), kb...)
	case "scope":
		return c11Pkg([]byte{0x10}, l.w, l.body())
	case "device":
		return c11Pkg([]byte{0x5b, 0x82}, l.w, l.body())
	case "thermal":
		return c11Pkg([]byte{0x5b, 0x85}, l.w, l.body())
	case "method":
		return c11Pkg([]byte{0x14}, l.w, l.body())
	case "region":
		return append(append(append([]byte{0x5b, 0x80}, l.name.enc()...), byte(l.ints[0])), kb...)
	case "field":
		return c11Pkg([]byte{0x5b, 0x81}, l.w, l.body())
	case "ifield":
		return c11Pkg([]byte{0x5b, 0x86}, l.w, l.body())
	case "bfield":
		return c11Pkg([]byte{0x5b, 0x87}, l.w, l.body())
	case "mutex":
		return append(append([]byte{0x5b, 0x01}, l.name.enc()...), byte(l.ints[0]))
	case "event":
		return append([]byte{0x5b, 0x02}, l.name.enc()...)
	case "proc":
		return c11Pkg([]byte{0x5b, 0x83}, l.w, l.body())
	case "power":
		return c11Pkg([]byte{0x5b, 0x84}, l.w, l.body())
	}
	return []byte{0xa3}
}

type c11Leaf struct {
	s string
	b []byte
}

func (l c11Leaf) sx() string  { return l.s }
func (l c11Leaf) enc() []byte { return l.b }

// ---- generator

type c11Method struct {
	scope []string
	name  string
	argc  int
	node  *c11List
}

type c11Gen struct {
	r       *vrng
	seq     int
	decl    map[string]string // absolute path -> kind
	scopes  [][]string        // scopes that can be re-opened / named into (absolute paths); [] = root
	methods []*c11Method
	feature map[string]bool
	units   map[string][]string // field units declared per scope
	clean   bool                // avoid every construct with a recorded known finding (most cases), so that they pass the whole oracle
	inWhile bool
	// single-segment Scope(NAME) directives: where they stand and what they mean there; the parser resolves them only after
	// the whole table has been read, so a nearer NAME declared BEHIND the directive captures it (known finding
	// scope-search-shadowed-later): avoided in clean cases, recorded as a feature otherwise
	searches   []c11Search
	searchSegs map[string]bool
}

type c11Search struct{ from, tgt []string }

func c11Key(p []string) string { return strings.Join(p, ".") }

func (g *c11Gen) fresh(prefix byte, scope []string) string {
	// NameSeg := LeadNameChar NameChar NameChar NameChar; lead from the whole legal set incl. its
	// boundaries ('A', 'Z', '_'), the rest from A-Z, 0-9, '_' incl. boundary characters
	const lead = "AABCMXYZZ__"
	const rest = "AAZZ0099__BCMNXY12345678"
	r := g.r
	for {
		g.seq++
		var s string
		switch r.intn(10) {
		case 0, 1, 2: // readable sequential names (kind letter + number)
			s = fmt.Sprintf("%c%03d", prefix, g.seq%1000)
		case 3: // a short pool reused across scopes
			s = fmt.Sprintf("%c_%02d", prefix, r.intn(6))
		default:
			s = string([]byte{lead[r.intn(len(lead))], rest[r.intn(len(rest))], rest[r.intn(len(rest))], rest[r.intn(len(rest))]})
		}
		if g.clean && g.searchSegs[s] {
			continue
		}
		if _, ok := g.decl[c11Key(append(append([]string(nil), scope...), s))]; !ok {
			return s
		}
	}
}

func (g *c11Gen) declare(scope []string, seg, kind string) []string {
	p := append(append([]string(nil), scope...), seg)
	g.decl[c11Key(p)] = kind
	return p
}

func (g *c11Gen) integer() c11Int {
	r := g.r
	switch r.intn(7) {
	case 0:
		return c11Int{0, uint64(r.intn(3))}
	case 1:
		return c11Int{2, r.next() & 0xffff}
	case 2:
		return c11Int{4, r.next() & 0xffffffff}
	case 3:
		return c11Int{8, r.next()}
	}
	return c11Int{1, r.next() & 0xff}
}

func (g *c11Gen) data(depth int) c11Node {
	r := g.r
	switch r.intn(8) {
	case 0:
		n := r.intn(6)
		s := make([]byte, n)
		for i := range s {
			s[i] = byte(0x20 + r.intn(0x5f))
		}
		return c11Str{s}
	case 1:
		n := r.intn(6)
		b := make([]byte, n)
		for i := range b {
			b[i] = byte(r.next())
		}
		size := n + r.intn(3)
		return c11Buf{c11Width(r, 2+n), size, b}
	case 2:
		if depth > 0 {
			l := &c11List{kind: "p"}
			for k := r.intn(4); k > 0; k-- {
				l.kids = append(l.kids, g.data(depth-1))
			}
			l.w = c11Width(r, len(l.body()))
			return l
		}
	}
	return g.integer()
}

// a name for a new object declared from `scope`; returns the NameString and the scope it lands in
func (g *c11Gen) declName(scope []string, prefix byte) (c11Name, []string, string) {
	r := g.r
	switch k := r.intn(12); {
	case k == 0 && len(scope) > 0 && !g.clean: // ^NAME -> parent scope
		up := 1
		if len(scope) > 1 && r.chance(30) {
			up = 2
		}
		tgt := scope[:len(scope)-up]
		seg := g.fresh(prefix, tgt)
		g.feature["name-caret"] = true
		return c11Name{carets: up, segs: []string{seg}}, tgt, seg
	case k == 1: // \abs.path.NAME into an existing scope
		tgt := g.pickScope()
		seg := g.fresh(prefix, tgt)
		g.feature["name-absolute"] = true
		g.noteThrough(tgt)
		return c11Name{root: true, segs: append(append([]string(nil), tgt...), seg)}, tgt, seg
	case k == 2: // relative multi-segment: CHILD.NAME where CHILD is a scope declared directly in `scope`
		for _, s := range g.scopes {
			if len(s) == len(scope)+1 && c11Key(s[:len(scope)]) == c11Key(scope) && len(scope) > 0 {
				seg := g.fresh(prefix, s)
				g.feature["name-relative-multi"] = true
				return c11Name{segs: []string{s[len(scope)], seg}}, s, seg
			}
		}
	}
	seg := g.fresh(prefix, scope)
	return c11Name{segs: []string{seg}}, scope, seg
}

// through: does looking `path` up descend through a table-declared scoped object?
func (g *c11Gen) through(path []string) bool {
	for i := 1; i < len(path); i++ {
		if k := g.decl[c11Key(path[:i])]; k != "scope" && k != "" {
			return true
		}
	}
	return false
}

func (g *c11Gen) pickScope() []string {
	for {
		tgt := g.scopes[g.r.intn(len(g.scopes))]
		if !g.clean || !g.through(tgt) {
			return tgt
		}
	}
}

// noteThrough records the D6 feature: a path whose lookup has to descend through an object that is
// not a bare scope block (a Device/Processor/... declared by a table) to reach a further segment.
func (g *c11Gen) noteThrough(path []string) {
	for i := 1; i < len(path); i++ {
		if k := g.decl[c11Key(path[:i])]; k != "scope" && k != "" {
			g.feature["path-descends-through-scoped-object"] = true
		}
	}
}

func (g *c11Gen) objs(scope []string, depth, n int) []c11Node {
	r := g.r
	var out []c11Node
	for ; n > 0; n-- {
		switch k := r.intn(20); {
		case k < 4: // Name
			nm, tgt, seg := g.declName(scope, 'N')
			g.declare(tgt, seg, "name")
			out = append(out, &c11List{kind: "name", name: nm, kids: []c11Node{g.data(2)}})
		case k < 7 && depth > 0: // Device
			nm, tgt, seg := g.declName(scope, 'D')
			p := g.declare(tgt, seg, "device")
			g.scopes = append(g.scopes, p)
			l := &c11List{kind: "device", name: nm}
			l.kids = g.objs(p, depth-1, r.intn(4))
			l.w = c11Width(r, len(l.body()))
			out = append(out, l)
		case k < 9 && depth > 0: // Scope(existing)
			tgt := g.pickScope()
			var nm c11Name
			switch {
			case len(tgt) == 0:
				nm = c11Name{root: true}
				g.feature["scope-root"] = true
			case r.chance(50) && g.visible(scope, tgt):
				nm = c11Name{segs: []string{tgt[len(tgt)-1]}}
				g.feature["scope-single-seg-search"] = true
				g.searches = append(g.searches, c11Search{append([]string(nil), scope...), append([]string(nil), tgt...)})
				g.searchSegs[tgt[len(tgt)-1]] = true
			default:
				nm = c11Name{root: true, segs: tgt}
				g.feature["scope-absolute"] = true
				g.noteThrough(tgt)
			}
			l := &c11List{kind: "scope", name: nm}
			l.kids = g.objs(tgt, depth-1, r.intn(4))
			l.w = c11Width(r, len(l.body()))
			out = append(out, l)
		case k < 12: // Method (body filled later so that forward references are possible)
			nm, tgt, seg := g.declName(scope, 'M')
			p := g.declare(tgt, seg, "method")
			argc := r.intn(8)
			l := &c11List{kind: "method", name: nm, ints: []uint64{uint64(argc) | uint64(r.intn(2))<<3}}
			g.methods = append(g.methods, &c11Method{scope: p[:len(p)-1], name: seg, argc: argc, node: l})
			out = append(out, l)
		case k < 14: // OperationRegion + Field
			nm, tgt, seg := g.declName(scope, 'R')
			g.declare(tgt, seg, "region")
			out = append(out, &c11List{kind: "region", name: nm, ints: []uint64{uint64(r.intn(5))}, kids: []c11Node{g.integer(), g.integer()}})
			if c11Key(tgt) == c11Key(scope) {
				f := &c11List{kind: "field", name: c11Name{segs: []string{seg}}, ints: []uint64{uint64(r.intn(128))}}
				g.fieldUnits(f, scope, r.intn(5))
				out = append(out, f)
				// IndexField / BankField over units declared in this scope
				us := g.units[c11Key(scope)]
				if len(us) >= 2 && r.chance(40) {
					f2 := &c11List{kind: "ifield", name: c11Name{segs: []string{us[r.intn(len(us))]}}, name2: c11Name{segs: []string{us[r.intn(len(us))]}}, ints: []uint64{uint64(r.intn(128))}}
					g.fieldUnits(f2, scope, 1+r.intn(3))
					g.feature["indexfield"] = true
					out = append(out, f2)
				}
				if len(us) >= 1 && r.chance(40) {
					f3 := &c11List{kind: "bfield", name: c11Name{segs: []string{seg}}, name2: c11Name{segs: []string{us[r.intn(len(us))]}}, val: g.integer(), ints: []uint64{uint64(r.intn(128))}}
					g.fieldUnits(f3, scope, 1+r.intn(3))
					g.feature["bankfield-deferred"] = true
					out = append(out, f3)
				}
			}
		case k < 15: // Mutex / Event
			nm, tgt, seg := g.declName(scope, 'X')
			if r.chance(50) {
				g.declare(tgt, seg, "mutex")
				out = append(out, &c11List{kind: "mutex", name: nm, ints: []uint64{uint64(r.intn(16))}})
			} else {
				g.declare(tgt, seg, "event")
				out = append(out, &c11List{kind: "event", name: nm})
			}
		case k < 17 && depth > 0: // Processor / PowerResource / ThermalZone
			nm, tgt, seg := g.declName(scope, 'P')
			var l *c11List
			switch r.intn(3) {
			case 0:
				l = &c11List{kind: "proc", name: nm, ints: []uint64{uint64(r.intn(8)), r.next() & 0xffffffff, uint64(r.intn(7))}}
			case 1:
				l = &c11List{kind: "power", name: nm, ints: []uint64{uint64(r.intn(5)), uint64(r.intn(0x10000))}}
			default:
				l = &c11List{kind: "thermal", name: nm}
			}
			p := g.declare(tgt, seg, l.kind)
			g.scopes = append(g.scopes, p)
			l.kids = g.objs(p, depth-1, r.intn(3))
			l.w = c11Width(r, len(l.body()))
			out = append(out, l)
		default: // plain Name with an integer (keeps programs from being dominated by containers)
			nm, tgt, seg := g.declName(scope, 'N')
			g.declare(tgt, seg, "name")
			out = append(out, &c11List{kind: "name", name: nm, kids: []c11Node{g.integer()}})
		}
	}
	return out
}

// noteCallArgs records the feature "a method call has an argument that itself takes arguments".
func (g *c11Gen) noteCallArgs(l *c11List) {
	for _, k := range l.kids {
		if a, ok := k.(*c11List); ok && a.kind == "add" {
			g.feature["call-arg-expression"] = true
		}
	}
}

// c11HasCall: does the term contain a method call?
func c11HasCall(n c11Node) bool {
	l, ok := n.(*c11List)
	if !ok {
		return false
	}
	if l.kind == "call" {
		return true
	}
	for _, k := range l.kids {
		if c11HasCall(k) {
			return true
		}
	}
	return false
}

// noteDeferred records the features of While (deferred) blocks: a nested If/While inside a While,
// and an expression inside a While that has a method call among its operands.
func (g *c11Gen) noteDeferred(ns []c11Node, inWhile bool) {
	for _, n := range ns {
		l, ok := n.(*c11List)
		if !ok {
			continue
		}
		if inWhile && (l.kind == "if" || l.kind == "while") {
			g.feature["deferred-nested-block"] = true
		}
		if inWhile && l.kind == "add" {
			for _, k := range l.kids {
				if c11HasCall(k) {
					g.feature["deferred-call-in-expression"] = true
				}
			}
		}
		g.noteDeferred(l.kids, inWhile || l.kind == "while")
	}
}

// c11NoObjects: does a statement list create no object at all (only Noops)?
func c11NoObjects(ss []c11Node) bool {
	for _, s := range ss {
		if _, ok := s.(c11Leaf); !ok {
			return false
		}
	}
	return true
}

// c11WideBits are the unit widths at the edges of the four PkgLength forms (1, 2, 3 and 4 bytes)
var c11WideBits = []int{0x3f, 0x40, 0xfff, 0x1000, 0xffff, 0x10000, 0xfffff, 0x100000, 0xfffffff}

// c11BitsWidth is the shortest PkgLength form that holds v
func c11BitsWidth(v int) int {
	switch {
	case v <= 0x3f:
		return 1
	case v <= 0xfff:
		return 2
	case v <= 0xfffff:
		return 3
	}
	return 4
}

// c11WideUnit picks a unit width near one of the PkgLength form boundaries and a form that can hold it
func c11WideUnit(r *vrng) (bits, w int) {
	bits = c11WideBits[r.intn(len(c11WideBits))]
	if r.chance(40) && bits > 8 {
		bits -= r.intn(8)
	}
	w = c11BitsWidth(bits)
	if w < 4 && r.chance(25) {
		w += 1 + r.intn(4-w)
	}
	return
}

// c11ConnBuf is a Connection element with n bytes of BufferData: 02 11 PkgLength 0a n bytes
func c11ConnBuf(r *vrng, n int) (string, []byte) {
	data := make([]byte, n)
	for i := range data {
		if r != nil {
			data[i] = byte(r.next())
		} else {
			data[i] = byte(0x11 * (i + 1))
		}
	}
	body := append([]byte{0x0a, byte(n)}, data...)
	w := 1
	if r != nil && r.chance(25) {
		w = 2 + r.intn(3)
	}
	enc := append([]byte{2, 0x11}, c12EncPkgLen(uint32(w+len(body)), w)...)
	return fmt.Sprintf("b%d:%s", w, amlHex(data)), append(enc, body...)
}

// fieldUnits fills a Field/IndexField/BankField with n field-list elements declared in `scope`
func (g *c11Gen) fieldUnits(f *c11List, scope []string, n int) {
	r := g.r
	wide := 0 // at most three wide elements per list: offsets stay below 2^32
	for u := n; u > 0; u-- {
		switch r.intn(10) {
		case 0:
			bits := r.intn(300)
			w := 1
			if bits > 0x3f {
				w = 2
			}
			if r.chance(20) {
				w = 2 + r.intn(3)
			}
			if r.chance(30) && wide < 3 {
				bits, w = c11WideUnit(r)
				wide++
			}
			f.units = append(f.units, fmt.Sprintf("r%d:%d", w, bits))
			f.uenc = append(f.uenc, append([]byte{0}, c12EncPkgLen(uint32(bits), w)...))
		case 1:
			ty, at := r.intn(6), r.intn(16)
			f.units = append(f.units, fmt.Sprintf("a%d:%d", ty, at))
			f.uenc = append(f.uenc, []byte{1, byte(ty), byte(at)})
		case 2: // ExtendedAccessField
			ty, at, ln := r.intn(6), r.intn(16), r.intn(256)
			f.units = append(f.units, fmt.Sprintf("x%d:%d:%d", ty, at, ln))
			f.uenc = append(f.uenc, []byte{3, byte(ty), byte(at), byte(ln)})
		case 3: // Connection with a NameString (at any position of the list, several per list)
			seg := fmt.Sprintf("CN%c%c", 'A'+byte(r.intn(26)), '0'+byte(r.intn(10)))
			f.units = append(f.units, "c"+seg)
			f.uenc = append(f.uenc, append([]byte{2}, seg...))
		case 4: // Connection with BufferData
			u, e := c11ConnBuf(r, r.intn(6))
			f.units = append(f.units, u)
			f.uenc = append(f.uenc, e)
		default:
			useg := g.fresh('F', scope)
			g.declare(scope, useg, "field")
			g.units[c11Key(scope)] = append(g.units[c11Key(scope)], useg)
			bits := r.intn(64)
			w := 1
			if r.chance(30) {
				bits = r.intn(5000)
				w = 2 + r.intn(3)
				if bits > 0xfff && w < 3 {
					w = 3
				}
			}
			if r.chance(30) && wide < 3 {
				bits, w = c11WideUnit(r)
				wide++
			}
			f.units = append(f.units, fmt.Sprintf("u%s:%d:%d", useg, w, bits))
			f.uenc = append(f.uenc, append([]byte(useg), c12EncPkgLen(uint32(bits), w)...))
		}
	}
	f.w = c11Width(r, len(f.body()))
}

// visible: is `tgt` found by the single-segment upward search started in `scope`?
func (g *c11Gen) visible(scope, tgt []string) bool {
	seg := tgt[len(tgt)-1]
	for s := scope; ; s = s[:len(s)-1] {
		if _, ok := g.decl[c11Key(append(append([]string(nil), s...), seg))]; ok {
			return c11Key(append(append([]string(nil), s...), seg)) == c11Key(tgt)
		}
		if len(s) == 0 {
			return false
		}
	}
}

func (g *c11Gen) callable(scope []string) []*c11Method {
	var out []*c11Method
	for _, m := range g.methods {
		if g.visible(scope, append(append([]string(nil), m.scope...), m.name)) {
			out = append(out, m)
		}
	}
	return out
}

func (g *c11Gen) term(scope []string, depth int) c11Node { return g.termX(scope, depth, false) }

// termX: asArg = the term is an argument of a method call
func (g *c11Gen) termX(scope []string, depth int, asArg bool) c11Node {
	r := g.r
	switch r.intn(8) {
	case 0:
		return c11Leaf{fmt.Sprintf("L%d", 0), []byte{0x60}}
	case 1:
		n := r.intn(7)
		return c11Leaf{fmt.Sprintf("A%d", n), []byte{byte(0x68 + n)}}
	case 2, 3:
		if ms := g.callable(scope); len(ms) > 0 && depth > 0 {
			m := ms[r.intn(len(ms))]
			l := &c11List{kind: "call", name: c11Name{segs: []string{m.name}}}
			for i := 0; i < m.argc; i++ {
				l.kids = append(l.kids, g.termX(scope, depth-1, true))
			}
			g.feature["call"] = true
			if depth < 2 {
				g.feature["call-nested"] = true
			}
			g.noteCallArgs(l)
			return l
		}
	case 4:
		if depth > 0 && !(g.clean && asArg) {
			l := &c11List{kind: "add", tgt: r.intn(3) - 1}
			l.kids = []c11Node{g.term(scope, depth-1), g.term(scope, depth-1)}
			return l
		}
	}
	return g.integer()
}

func (g *c11Gen) stmts(scope []string, depth, n int) []c11Node {
	r := g.r
	var out []c11Node
	for ; n > 0; n-- {
		switch r.intn(7) {
		case 0:
			out = append(out, &c11List{kind: "store", kids: []c11Node{g.term(scope, 2)}, ints: []uint64{uint64(r.intn(8))}})
		case 1:
			out = append(out, &c11List{kind: "ret", kids: []c11Node{g.term(scope, 2)}})
		case 2, 3:
			if ms := g.callable(scope); len(ms) > 0 {
				m := ms[r.intn(len(ms))]
				l := &c11List{kind: "call", name: c11Name{segs: []string{m.name}}}
				for i := 0; i < m.argc; i++ {
					l.kids = append(l.kids, g.termX(scope, 1, true))
				}
				g.feature["call"] = true
				g.noteCallArgs(l)
				out = append(out, l)
			}
		case 4:
			if depth > 0 && !(g.clean && g.inWhile) {
				body := g.stmts(scope, depth-1, r.intn(3))
				if g.clean && c11NoObjects(body) {
					body = append(body, &c11List{kind: "store", kids: []c11Node{g.integer()}, ints: []uint64{uint64(r.intn(8))}})
				}
				l := &c11List{kind: "if", kids: append([]c11Node{g.term(scope, 1)}, body...)}
				l.w = c11Width(r, len(l.body()))
				g.feature["if"] = true
				if c11NoObjects(body) {
					g.feature["if-empty-body"] = true
				}
				out = append(out, l)
			}
		case 5:
			if depth > 0 && !(g.clean && g.inWhile) {
				was := g.inWhile
				g.inWhile = true
				l := &c11List{kind: "while", kids: append([]c11Node{g.term(scope, 1)}, g.stmts(scope, depth-1, r.intn(3))...)}
				g.inWhile = was
				l.w = c11Width(r, len(l.body()))
				g.feature["while-deferred"] = true
				out = append(out, l)
			}
		default:
			out = append(out, c11Leaf{"noop", []byte{0xa3}})
		}
	}
	return out
}

// fix the PkgLength widths bottom-up after method bodies were filled in
func c11Fix(r *vrng, ns []c11Node) {
	for _, n := range ns {
		if l, ok := n.(*c11List); ok {
			c11Fix(r, l.kids)
			switch l.kind {
			case "p", "if", "while", "scope", "device", "thermal", "method", "field", "ifield", "bfield", "proc", "power":
				if min := c11Width(nil, len(l.body())); l.w < min {
					l.w = min
				}
			}
		}
	}
}

func (g *c11Gen) table(first bool) []c11Node {
	r := g.r
	nm := len(g.methods)
	ns := len(g.searches)
	defer func() {
		for _, sr := range g.searches[ns:] {
			if !g.visible(sr.from, sr.tgt) {
				g.feature["scope-search-shadowed-later"] = true
			}
		}
	}()
	var top []c11Node
	if first {
		top = g.objs(nil, 3, 2+r.intn(6))
	} else { // later tables mostly extend existing scopes
		for k := 1 + r.intn(3); k > 0; k-- {
			tgt := g.pickScope()
			if len(tgt) == 0 {
				top = append(top, g.objs(nil, 2, 1+r.intn(2))...)
				continue
			}
			g.feature["later-table-scope"] = true
			g.noteThrough(tgt)
			l := &c11List{kind: "scope", name: c11Name{root: true, segs: tgt}}
			l.kids = g.objs(tgt, 2, 1+r.intn(3))
			top = append(top, l)
		}
	}
	// now and then: a block nested 16..40 deep with root-level declarations behind it, or a sequence of deferred blocks
	if r.chance(4) {
		top = append(top, g.deepChain(nil)...)
		top = append(top, g.plainName(nil), g.plainName(nil))
	}
	if r.chance(6) {
		top = append(top, g.deferredSeq()...)
	}
	// method bodies: calls may reference any visible method, declared before or after (forward)
	for _, m := range g.methods[nm:] {
		m.node.kids = g.stmts(append(append([]string(nil), m.scope...), m.name), 2, r.intn(5))
		g.noteDeferred(m.node.kids, false)
	}
	c11Fix(r, top)
	c11Fix(r, top)
	c11Fix(r, top)
	return top
}

// plainName declares Name(XXXX, integer) in `scope`
func (g *c11Gen) plainName(scope []string) c11Node {
	seg := g.fresh('N', scope)
	g.declare(scope, seg, "name")
	return &c11List{kind: "name", name: c11Name{segs: []string{seg}}, kids: []c11Node{g.integer()}}
}

// deepChain: 16..40 scoped objects nested directly in each other, declarations before and behind the nested block on
// the levels (seeded change I: as many package ends open at once as the parser's stacks must hold independently)
func (g *c11Gen) deepChain(scope []string) []c11Node {
	r := g.r
	depth := 16 + r.intn(25)
	paths := make([][]string, depth+1)
	kinds := make([]string, depth)
	segs := make([]string, depth)
	paths[0] = scope
	for lv := 0; lv < depth; lv++ {
		segs[lv] = g.fresh('D', paths[lv])
		kinds[lv] = []string{"device", "device", "thermal", "proc", "power"}[r.intn(5)]
		paths[lv+1] = g.declare(paths[lv], segs[lv], kinds[lv])
	}
	var inner []c11Node
	for lv := depth - 1; lv >= 0; lv-- {
		var kids []c11Node
		if r.chance(50) {
			kids = append(kids, g.plainName(paths[lv+1]))
		}
		kids = append(kids, inner...)
		if r.chance(50) {
			kids = append(kids, g.plainName(paths[lv+1]))
		}
		l := &c11List{kind: kinds[lv], name: c11Name{segs: []string{segs[lv]}}}
		switch kinds[lv] {
		case "proc":
			l.ints = []uint64{uint64(r.intn(8)), r.next() & 0xffffffff, uint64(r.intn(7))}
		case "power":
			l.ints = []uint64{uint64(r.intn(5)), uint64(r.intn(0x10000))}
		}
		l.kids = kids
		l.w = c11Width(r, len(l.body()))
		inner = []c11Node{l}
	}
	g.feature["deep-nesting"] = true
	return inner
}

// deferredData: a Buffer or Package whose initializer is empty about half of the time
func (g *c11Gen) deferredData(depth int) c11Node {
	r := g.r
	if r.chance(60) || depth == 0 {
		n := 0
		if r.chance(50) {
			n = 1 + r.intn(5)
		}
		b := make([]byte, n)
		for i := range b {
			b[i] = byte(r.next())
		}
		return c11Buf{c11Width(r, 2+n), n + r.intn(5), b}
	}
	l := &c11List{kind: "p"}
	if r.chance(50) {
		for k := 1 + r.intn(3); k > 0; k-- {
			if r.chance(50) {
				l.kids = append(l.kids, g.deferredData(depth-1))
			} else {
				l.kids = append(l.kids, g.integer())
			}
		}
	}
	l.w = c11Width(r, len(l.body()))
	return l
}

// deferredSeq: deferred blocks one after the other (seeded change J): a method whose While body ends in a nested If /
// While (itself with a body that creates an object), with Buffers / Packages declared before and behind it; the method in
// the root scope or in \_SB (the pre-defined scopes are walked before the table's own root objects)
func (g *c11Gen) deferredSeq() []c11Node {
	r := g.r
	var out []c11Node
	dataName := func(scope []string) c11Node {
		seg := g.fresh('B', scope)
		g.declare(scope, seg, "name")
		return &c11List{kind: "name", name: c11Name{segs: []string{seg}}, kids: []c11Node{g.deferredData(1)}}
	}
	store := func() c11Node {
		return &c11List{kind: "store", kids: []c11Node{g.integer()}, ints: []uint64{uint64(r.intn(8))}}
	}
	pred := func() c11Node {
		if r.chance(50) {
			return c11Leaf{"A0", []byte{0x68}}
		}
		return g.integer()
	}
	var nested func(d int) c11Node
	nested = func(d int) c11Node {
		kind := "if"
		if r.chance(35) {
			kind = "while"
		}
		body := []c11Node{store()}
		if d > 0 && r.chance(40) {
			body = append(body, nested(d-1))
		}
		l := &c11List{kind: kind, kids: append([]c11Node{pred()}, body...)}
		l.w = c11Width(r, len(l.body()))
		return l
	}
	for k := r.intn(3); k > 0; k-- {
		out = append(out, dataName(nil))
	}
	mscope := []string(nil)
	if r.chance(50) {
		mscope = []string{"_SB_"}
	}
	mseg := g.fresh('M', mscope)
	g.declare(mscope, mseg, "method")
	var body []c11Node
	for k := 1 + r.intn(2); k > 0; k-- {
		var wb []c11Node
		for j := r.intn(2); j > 0; j-- {
			wb = append(wb, store())
		}
		wb = append(wb, nested(2))
		w := &c11List{kind: "while", kids: append([]c11Node{pred()}, wb...)}
		w.w = c11Width(r, len(w.body()))
		body = append(body, w)
	}
	m := &c11List{kind: "method", name: c11Name{segs: []string{mseg}}, ints: []uint64{1}, kids: body}
	m.w = c11Width(r, len(m.body()))
	if len(mscope) == 0 {
		out = append(out, m)
	} else {
		sc := &c11List{kind: "scope", name: c11Name{root: true, segs: mscope}, kids: []c11Node{m}}
		if r.chance(50) {
			sc.kids = append(sc.kids, dataName(mscope))
		}
		sc.w = c11Width(r, len(sc.body()))
		g.feature["scope-absolute"] = true
		out = append(out, sc)
	}
	for k := 1 + r.intn(3); k > 0; k-- {
		out = append(out, dataName(nil))
	}
	g.feature["while-deferred"] = true
	g.feature["deferred-nested-block"] = true
	g.feature["deferred-sequence"] = true
	return out
}

func c11NewGen(r *vrng) *c11Gen {
	g := &c11Gen{r: r, decl: map[string]string{}, feature: map[string]bool{}, units: map[string][]string{}, searchSegs: map[string]bool{}}
	g.scopes = append(g.scopes, nil)
	for _, s := range []string{"_GPE", "_PR_", "_SB_", "_SI_", "_TZ_"} {
		g.decl[s] = "scope"
		g.scopes = append(g.scopes, []string{s})
	}
	return g
}

// ---- run

type c11Case struct {
	id     string
	tables [][]c11Node
	feats  string
}

func c11Hand(id string, feats string, tables ...[]c11Node) c11Case {
	return c11Case{id: id, tables: tables, feats: feats}
}

func TestVerifC11(t *testing.T) {
	if os.Getenv(amlChildEnv) != "" {
		t.Skip("parent only")
	}
	out := verifOpen("VERIF_OUT")
	defer out.close()
	amlRowLimit = 1 << 30
	os.Setenv("VERIF_AML_ROWS", "1073741824")
	rng := &vrng{s: verifSeed()}
	n := verifN(300)

	N := func(root bool, carets int, segs ...string) c11Name { return c11Name{root, carets, segs} }
	name := func(nm c11Name, d c11Node) c11Node { return &c11List{kind: "name", name: nm, kids: []c11Node{d}} }
	cont := func(kind string, nm c11Name, kids ...c11Node) c11Node {
		l := &c11List{kind: kind, name: nm, kids: kids}
		l.w = c11Width(nil, len(l.body()))
		return l
	}
	method := func(nm c11Name, flags uint64, kids ...c11Node) c11Node {
		l := &c11List{kind: "method", name: nm, ints: []uint64{flags}, kids: kids}
		l.w = c11Width(nil, len(l.body()))
		return l
	}
	call := func(nm string, args ...c11Node) c11Node {
		return &c11List{kind: "call", name: N(false, 0, nm), kids: args}
	}
	i1 := func(v uint64) c11Node { return c11Int{1, v} }
	// field-list containers: units are "NAME:bits" (named) or ":bits" (reserved)
	flist := func(kind string, n1, n2 c11Name, val c11Int, flags uint64, units ...string) c11Node {
		l := &c11List{kind: kind, name: n1, name2: n2, val: val, ints: []uint64{flags}}
		for _, u := range units {
			if strings.HasPrefix(u, "@") { // @cSEG | @bN | @aT:A | @xT:A:L
				switch u[1] {
				case 'c':
					l.units = append(l.units, "c"+u[2:])
					l.uenc = append(l.uenc, append([]byte{2}, u[2:]...))
				case 'b':
					var n int
					fmt.Sscanf(u[2:], "%d", &n)
					us, e := c11ConnBuf(nil, n)
					l.units = append(l.units, us)
					l.uenc = append(l.uenc, e)
				case 'a':
					var ty, at int
					fmt.Sscanf(u[2:], "%d:%d", &ty, &at)
					l.units = append(l.units, fmt.Sprintf("a%d:%d", ty, at))
					l.uenc = append(l.uenc, []byte{1, byte(ty), byte(at)})
				case 'x':
					var ty, at, ln int
					fmt.Sscanf(u[2:], "%d:%d:%d", &ty, &at, &ln)
					l.units = append(l.units, fmt.Sprintf("x%d:%d:%d", ty, at, ln))
					l.uenc = append(l.uenc, []byte{3, byte(ty), byte(at), byte(ln)})
				}
				continue
			}
			var nm string
			var bits int
			fmt.Sscanf(u[strings.Index(u, ":")+1:], "%d", &bits)
			nm = u[:strings.Index(u, ":")]
			w := c11BitsWidth(bits)
			if nm == "" {
				l.units = append(l.units, fmt.Sprintf("r%d:%d", w, bits))
				l.uenc = append(l.uenc, append([]byte{0}, c12EncPkgLen(uint32(bits), w)...))
			} else {
				l.units = append(l.units, fmt.Sprintf("u%s:%d:%d", nm, w, bits))
				l.uenc = append(l.uenc, append([]byte(nm), c12EncPkgLen(uint32(bits), w)...))
			}
		}
		l.w = c11Width(nil, len(l.body()))
		return l
	}
	region := func(nm string, space uint64, off, ln c11Node) c11Node {
		return &c11List{kind: "region", name: N(false, 0, nm), ints: []uint64{space}, kids: []c11Node{off, ln}}
	}
	leafL := func(k string, nm c11Name, ints ...uint64) *c11List { return &c11List{kind: k, name: nm, ints: ints} }
	three := func(p string) []c11Node { // three plain siblings
		return []c11Node{name(N(false, 0, p+"0"), i1(1)), name(N(false, 0, p+"1"), c11Str{[]byte("x")}), name(N(false, 0, p+"2"), i1(3))}
	}
	cat := func(parts ...[]c11Node) []c11Node {
		var out []c11Node
		for _, p := range parts {
			out = append(out, p...)
		}
		return out
	}
	one := func(n c11Node) []c11Node { return []c11Node{n} }
	noName := c11Name{}

	var cases []c11Case
	// deterministic boundary list
	cases = append(cases,
		c11Hand("b-empty", "", nil),
		c11Hand("b-names", "", []c11Node{name(N(false, 0, "N000"), c11Int{0, 0}), name(N(false, 0, "N001"), c11Int{0, 1}), name(N(false, 0, "N002"), c11Int{0, 2}),
			name(N(false, 0, "N003"), c11Int{2, 0x1234}), name(N(false, 0, "N004"), c11Int{4, 0xdeadbeef}), name(N(false, 0, "N005"), c11Int{8, 0x0123456789abcdef}),
			name(N(false, 0, "N006"), c11Str{[]byte("hello")}), name(N(false, 0, "N007"), c11Buf{1, 4, []byte{1, 2, 3, 4}}), name(N(true, 0, "N008"), i1(7))}),
		// the program of the non-vacuity example of C11.flat_programs_agree (Props/C11.lean): a table of Name(NAME, integer)
		// declarations, every integer width - the theorem is about the model, this case ties it to the real parser
		c11Hand("b-flat-names", "", []c11Node{name(N(false, 0, "N000"), c11Int{1, 7}), name(N(false, 0, "_X01"), c11Int{0, 0}),
			name(N(false, 0, "ABCD"), c11Int{8, 0x1122334455667788}), name(N(false, 0, "N003"), c11Int{2, 0x1234}),
			name(N(false, 0, "N004"), c11Int{0, 5}), name(N(false, 0, "N005"), c11Int{4, 9})}),
		// the program of the non-vacuity example of C11.nested_programs_agree: devices nested three deep with forced PkgLength
		// widths 1, 2 and 3, the name N000 reused in three scopes, a string and an empty string
		c11Hand("b-nested-devices", "", []c11Node{
			&c11List{kind: "device", w: 1, name: N(false, 0, "DEV0"), kids: []c11Node{name(N(false, 0, "N000"), c11Int{1, 1}),
				&c11List{kind: "device", w: 2, name: N(false, 0, "DEV1"), kids: []c11Node{name(N(false, 0, "N000"), c11Int{2, 0x1234}),
					&c11List{kind: "device", w: 3, name: N(false, 0, "DEV2")}, name(N(false, 0, "S000"), c11Str{[]byte("hi")})}},
				name(N(false, 0, "N001"), c11Int{0, 0})}},
			name(N(false, 0, "N000"), c11Int{8, 0x0123456789abcdef}), name(N(false, 0, "S000"), c11Str{[]byte{}})}),
		// the program of the non-vacuity example of C11.multi_table_programs_agree: three tables of the nested fragment
		c11Hand("b-three-tables-devices", "",
			[]c11Node{&c11List{kind: "device", w: 1, name: N(false, 0, "DEV0"), kids: []c11Node{name(N(false, 0, "N000"), c11Int{1, 1})}},
				name(N(false, 0, "N001"), c11Int{0, 1}),
				&c11List{kind: "proc", w: 1, name: N(false, 0, "CPU0"), ints: []uint64{1, 0x00000410, 6}, kids: []c11Node{name(N(false, 0, "N000"), c11Int{1, 2})}},
				&c11List{kind: "power", w: 2, name: N(false, 0, "PWR0"), ints: []uint64{3, 0x0102}, kids: []c11Node{&c11List{kind: "event", name: N(false, 0, "EV00")}}}},
			[]c11Node{name(N(false, 0, "N002"), c11Int{4, 0xdeadbeef}),
				&c11List{kind: "device", w: 2, name: N(false, 0, "DEV1"), kids: []c11Node{&c11List{kind: "device", w: 1, name: N(false, 0, "DEV0")}}},
				name(N(false, 0, "S002"), c11Str{[]byte("two")})},
			[]c11Node{name(N(false, 0, "N003"), c11Int{0, 7}),
				&c11List{kind: "thermal", w: 1, name: N(false, 0, "TZ00"), kids: []c11Node{name(N(false, 0, "N000"), c11Int{1, 3}),
					&c11List{kind: "event", name: N(false, 0, "EV00")}, &c11List{kind: "mutex", name: N(false, 0, "MX00"), ints: []uint64{3}}}},
				&c11List{kind: "mutex", name: N(false, 0, "MX00"), ints: []uint64{15}}, &c11List{kind: "event", name: N(false, 0, "EV00")}}),
		c11Hand("b-device-nesting", "", []c11Node{cont("scope", N(false, 0, "_SB_"), cont("device", N(false, 0, "DEV0"), name(N(false, 0, "_HID"), c11Int{4, 0x0a0cd041}),
			cont("device", N(false, 0, "DEV1"), name(N(false, 0, "N000"), i1(1)))))}),
		c11Hand("b-scope-absolute-2seg", "scope-absolute", []c11Node{cont("scope", N(false, 0, "_SB_"), cont("device", N(false, 0, "DEV0"))),
			cont("scope", N(true, 0, "_SB_", "DEV0"), name(N(false, 0, "N000"), i1(1)))}),
		c11Hand("b-D6-scope-3seg", "path-descends-through-scoped-object,scope-absolute", []c11Node{cont("scope", N(false, 0, "_SB_"), cont("device", N(false, 0, "DEV0"), cont("device", N(false, 0, "DEV1")))),
			cont("scope", N(true, 0, "_SB_", "DEV0", "DEV1"), name(N(false, 0, "N000"), i1(1)))}),
		c11Hand("b-scope-root", "scope-root", []c11Node{cont("scope", N(true, 0), name(N(false, 0, "N000"), i1(1)))}),
		// the witness of C11.scope_search_shadowed_later_counterexample
		c11Hand("b-scope-search-shadowed-later", "scope-single-seg-search,scope-search-shadowed-later", []c11Node{cont("device", N(false, 0, "DEV0")),
			cont("scope", N(true, 0, "DEV0"), cont("scope", N(false, 0, "DEV0"), name(N(false, 0, "N000"), i1(1))), cont("device", N(false, 0, "DEV0")))}),
		c11Hand("b-name-caret", "name-caret", []c11Node{cont("scope", N(false, 0, "_SB_"), cont("device", N(false, 0, "DEV0"), name(N(false, 1, "N000"), i1(1))))}),
		c11Hand("b-name-dual-relative", "name-relative-multi", []c11Node{cont("scope", N(false, 0, "_SB_"), cont("device", N(false, 0, "DEV0")), name(N(false, 0, "DEV0", "N000"), i1(1)))}),
		c11Hand("b-call-forward-backward", "call,call-nested", []c11Node{method(N(false, 0, "M000"), 2, &c11List{kind: "ret", kids: []c11Node{call("M001", c11Leaf{"A0", []byte{0x68}}, call("M002"), c11Leaf{"A1", []byte{0x69}})}}),
			method(N(false, 0, "M001"), 3), method(N(false, 0, "M002"), 0, &c11List{kind: "store", kids: []c11Node{call("M000", i1(1), i1(2))}, ints: []uint64{0}})}),
		c11Hand("b-call-7-args", "call", []c11Node{method(N(false, 0, "M007"), 7), method(N(false, 0, "M000"), 0, call("M007", i1(1), i1(2), i1(3), i1(4), i1(5), i1(6), i1(7)))}),
		c11Hand("b-call-arg-expression", "call,call-arg-expression", []c11Node{method(N(false, 0, "M002"), 2), method(N(false, 0, "M000"), 0,
			call("M002", &c11List{kind: "add", tgt: -1, kids: []c11Node{i1(1), i1(2)}}, i1(3)))}),
		c11Hand("b-if-empty-last", "if,if-empty-body", []c11Node{method(N(false, 0, "M000"), 0, &c11List{kind: "if", w: 1, kids: []c11Node{i1(1)}})}),
		c11Hand("b-if-body", "if", []c11Node{method(N(false, 0, "M000"), 0, &c11List{kind: "if", w: 1, kids: []c11Node{i1(1), &c11List{kind: "ret", kids: []c11Node{i1(2)}}}})}),
		c11Hand("b-while-deferred", "while-deferred", []c11Node{method(N(false, 0, "M001"), 1), method(N(false, 0, "M000"), 0,
			&c11List{kind: "while", w: 1, kids: []c11Node{call("M001", i1(1)), &c11List{kind: "store", kids: []c11Node{i1(2)}, ints: []uint64{0}}}})}),
		c11Hand("b-while-nested-block", "while-deferred,deferred-nested-block,call", []c11Node{method(N(false, 0, "M001"), 1), method(N(false, 0, "M000"), 0,
			&c11List{kind: "while", w: 1, kids: []c11Node{i1(1), &c11List{kind: "while", w: 1, kids: []c11Node{i1(2), c11Leaf{"noop", []byte{0xa3}}}}, call("M001", i1(3))}})}),
		c11Hand("b-while-call-in-expression", "while-deferred,deferred-call-in-expression,call", []c11Node{method(N(false, 0, "M001"), 0), method(N(false, 0, "M000"), 0,
			&c11List{kind: "while", w: 1, kids: []c11Node{i1(1), &c11List{kind: "store", ints: []uint64{0}, kids: []c11Node{&c11List{kind: "add", tgt: -1, kids: []c11Node{i1(1), call("M001")}}}}}})}),
		// resolve-pass chains (seeded change A): every statement refers only to objects declared earlier,
		// yet DEVC is parked in \_GPE until pass 2 and Scope(DEVC) resolves in pass 3
		c11Hand("b-three-resolve-passes", "scope-absolute,name-absolute,resolve-passes-3", []c11Node{
			cont("device", N(true, 0, "_SB_", "DEVA"), name(N(false, 0, "_ADR"), i1(1))),
			cont("scope", N(true, 0, "_GPE"), cont("device", N(true, 0, "_SB_", "DEVA", "DEVC"), name(N(false, 0, "_ADR"), i1(2)))),
			cont("scope", N(true, 0, "_SB_", "DEVA"), cont("scope", N(false, 0, "DEVC"), name(N(false, 0, "XXXX"), i1(3)))),
			name(N(false, 0, "TAIL"), i1(4))}),
		c11Hand("b-three-resolve-passes-2", "scope-absolute,name-absolute,name-relative-multi,resolve-passes-3", []c11Node{
			cont("device", N(true, 0, "_SB_", "DEVA")),
			cont("scope", N(true, 0, "_GPE"), cont("device", N(true, 0, "_SB_", "DEVA", "DEVC"), cont("device", N(false, 0, "DEVD")))),
			cont("scope", N(true, 0, "_PR_"), cont("thermal", N(true, 0, "_SB_", "DEVA", "TZN0"))),
			cont("scope", N(true, 0, "_SB_", "DEVA"), cont("scope", N(false, 0, "DEVC"), cont("device", N(false, 0, "DEVD", "DEVY")),
				cont("scope", N(false, 0, "DEVD"), name(N(false, 0, "N000"), i1(5)))), cont("scope", N(false, 0, "TZN0"), name(N(false, 0, "N001"), i1(6)))),
			name(N(false, 0, "TAIL"), i1(4))}),
		// multi-table (seeded change B): a BankField of table 1 followed by its units and >= 3 siblings, then table 2
		c11Hand("b-bankfield-two-tables", "later-table-scope,bankfield-deferred", cat(
			one(region("GIO0", 1, c11Int{2, 0x125}, c11Int{2, 0x100})),
			one(flist("field", N(false, 0, "GIO0"), noName, c11Int{}, 1, "GLB1:1", "GLB2:1", ":6", "BNK1:4")),
			one(flist("bfield", N(false, 0, "GIO0"), N(false, 0, "BNK1"), c11Int{0, 0}, 1, ":384", "FET0:1", "FET1:3")),
			one(name(N(false, 0, "AFTR"), i1(0x42))), one(cont("device", N(false, 0, "DEVA"), name(N(false, 0, "_ADR"), i1(7)))), three("NX0")),
			[]c11Node{name(N(false, 0, "LATE"), i1(9))}),
		// field units whose bit width needs each of the four PkgLength forms (seeded change F), with reserved gaps of
		// those sizes in between so that the offsets of the later units depend on them
		c11Hand("b-field-wide-units", "indexfield", cat(
			one(region("WR00", 0, c11Int{4, 0x80000000}, c11Int{4, 0x40000000})), three("WA0"),
			one(flist("field", N(false, 0, "WR00"), noName, c11Int{}, 1, "WF00:63", "WF01:64", ":63", "WF02:4095", ":64", "WF03:4096", ":4095", "WF04:65535",
				"WF05:65536", ":4096", "WF06:1048575", "WF07:1048576", ":65536")), three("WB0"),
			one(flist("field", N(false, 0, "WR00"), noName, c11Int{}, 3, ":1048576", "WF08:268435455", "WF09:1", ":268435455", "WF0A:7")), three("WC0"),
			one(flist("ifield", N(false, 0, "WF00"), N(false, 0, "WF01"), c11Int{}, 1, "WI00:65536", ":1048575", "WI01:1048576", "WI02:268435455", "WI03:3")), three("WD0"))),
		// Connection elements (NameString and BufferData form) at every position of a field list: first, after named
		// units, after ReservedField gaps, after AccessField / ExtendedAccessField, last, several per list (seeded change G)
		c11Hand("b-field-connections", "indexfield", cat(
			one(region("CR00", 0, c11Int{2, 0x4000}, c11Int{2, 0x400})), three("CA0"),
			one(flist("field", N(false, 0, "CR00"), noName, c11Int{}, 1, "@cGPI0", "CF00:8", "@cGPI1", "CF01:8", ":16", "@b4", "CF02:4", "@a2:1", "@cGPI2",
				"CF03:12", "@x3:2:7", "@b0", "CF04:1", "CF05:7", "@cGPI3", "@b2", "CF06:32", ":8", "@cGPI4", "CF07:8", "@b1")), three("CB0"),
			one(flist("field", N(false, 0, "CR00"), noName, c11Int{}, 2, "CG00:16", "CG01:16", "@b3", "CG02:64", "@cGPI5", ":65", "CG03:4095", "@b5", "CG04:1")), three("CC0"),
			one(flist("ifield", N(false, 0, "CF00"), N(false, 0, "CF01"), c11Int{}, 1, "CI00:8", "@cGPI6", "CI01:8", ":8", "@b2", "CI02:16", "@a1:0", "@cGPI7", "CI03:3")), three("CD0"))),
		c11Hand("b-bankfield-connections", "bankfield-deferred", cat(
			one(region("CR10", 1, c11Int{2, 0x300}, c11Int{2, 0x100})),
			one(flist("field", N(false, 0, "CR10"), noName, c11Int{}, 1, "CB10:8", "@cGPJ0", "CB11:8")),
			one(flist("bfield", N(false, 0, "CR10"), N(false, 0, "CB10"), c11Int{1, 1}, 1, "CK00:8", "@cGPJ1", "CK01:8", ":8", "@b3", "CK02:16", "@cGPJ2", "@b1", "CK03:5")), three("CE0"))),
		c11Hand("b-bankfield-wide-units", "bankfield-deferred", cat(
			one(region("WR10", 1, c11Int{2, 0x200}, c11Int{2, 0x100})),
			one(flist("field", N(false, 0, "WR10"), noName, c11Int{}, 1, "WB10:8", "WB11:65536", ":65535")),
			one(flist("bfield", N(false, 0, "WR10"), N(false, 0, "WB10"), c11Int{1, 2}, 1, "WK00:65536", ":1048576", "WK01:268435455", "WK02:5")), three("WE0"))),
		// every named-object kind in table 1, each followed by >= 3 siblings; table 1 has a Buffer, a While and a
		// BankField (deferred blocks); table 2 and 3 use forward method references and methods of table 1
		c11Hand("b-all-kinds-three-tables", "later-table-scope,bankfield-deferred,indexfield,while-deferred,call", cat(
			one(region("REG0", 0, c11Int{2, 0x1000}, c11Int{1, 0x40})), three("NA0"),
			one(flist("field", N(false, 0, "REG0"), noName, c11Int{}, 0x21, "FLD0:8", "FLD1:8", ":16", "FLD2:4")), three("NB0"),
			one(flist("ifield", N(false, 0, "FLD0"), N(false, 0, "FLD1"), c11Int{}, 1, "IDX0:8", "IDX1:8")), three("NC0"),
			one(flist("bfield", N(false, 0, "REG0"), N(false, 0, "FLD2"), c11Int{1, 3}, 2, "BFL0:4", ":4", "BFL1:8")), three("ND0"),
			one(method(N(false, 0, "MTH0"), 2, &c11List{kind: "while", w: 1, kids: []c11Node{c11Leaf{"A0", []byte{0x68}}, &c11List{kind: "store", kids: []c11Node{call("MTH1", i1(1))}, ints: []uint64{0}}}},
				&c11List{kind: "ret", kids: []c11Node{c11Leaf{"A1", []byte{0x69}}}})), three("NE0"),
			one(method(N(false, 0, "MTH1"), 1)), three("NF0"),
			one(name(N(false, 0, "BUF0"), c11Buf{1, 4, []byte{1, 2, 3}})), three("NG0"),
			one(leafL("mutex", N(false, 0, "MTX0"), 3)), three("NH0"), one(leafL("event", N(false, 0, "EVT0"))), three("NI0"),
			one(func() c11Node {
				l := leafL("proc", N(false, 0, "CPU0"), 1, 0x410, 6)
				l.kids = three("PN0")
				l.w = c11Width(nil, len(l.body()))
				return l
			}()), three("NJ0"),
			one(func() c11Node {
				l := leafL("power", N(false, 0, "PWR0"), 2, 7)
				l.kids = three("QN0")
				l.w = c11Width(nil, len(l.body()))
				return l
			}()), three("NK0"),
			one(cont("thermal", N(false, 0, "THM0"), three("TN0")...)), three("NL0"),
			one(cont("device", N(false, 0, "DEV0"), cat(one(region("REG1", 1, c11Int{1, 0x80}, c11Int{1, 8})),
				one(flist("field", N(false, 0, "REG1"), noName, c11Int{}, 1, "DFL0:8", "DFL1:8")),
				one(flist("bfield", N(false, 0, "REG1"), N(false, 0, "DFL0"), c11Int{0, 1}, 1, "DBF0:8")), three("DN0"))...)), three("NM0")),
			[]c11Node{method(N(false, 0, "MTH2"), 0, call("MTH3", call("MTH1", i1(5)), i1(6)), &c11List{kind: "store", kids: []c11Node{call("MTH0", i1(1), i1(2))}, ints: []uint64{1}}),
				method(N(false, 0, "MTH3"), 2), name(N(false, 0, "LAT0"), i1(9)),
				cont("scope", N(true, 0, "DEV0"), method(N(false, 0, "MTH4"), 0, call("MTH5"), call("MTH2")), method(N(false, 0, "MTH5"), 0))},
			[]c11Node{cont("scope", N(true, 0, "_SB_"), method(N(false, 0, "MTH6"), 1, call("MTH7", c11Leaf{"A0", []byte{0x68}})), method(N(false, 0, "MTH7"), 1, call("MTH2"))),
				name(N(false, 0, "LAT1"), c11Buf{1, 2, []byte{9}})}),
		c11Hand("b-names-leading-A", "call,scope-absolute,name-absolute", []c11Node{
			cont("scope", N(false, 0, "_SB_"), cont("device", N(false, 0, "ADEV"), name(N(false, 0, "AAAA"), i1(1)), method(N(false, 0, "AMTH"), 1))),
			cont("scope", N(true, 0, "_SB_", "ADEV"), name(N(false, 0, "A_Z9"), i1(2)), name(N(true, 0, "_SB_", "ZZZZ"), i1(3))),
			method(N(true, 0, "AMT2"), 2), method(N(false, 0, "ZMTH"), 0, &c11List{kind: "call", name: N(true, 0, "AMT2"), kids: []c11Node{i1(1), i1(2)}}),
			name(N(true, 0, "ANAM"), i1(4)), name(N(false, 0, "____"), i1(5)), name(N(false, 0, "Z999"), i1(6))}),
		c11Hand("b-later-table", "call,later-table-scope", []c11Node{cont("scope", N(false, 0, "_SB_"), cont("device", N(false, 0, "DEV0"), method(N(false, 0, "M000"), 1)))},
			[]c11Node{cont("scope", N(true, 0, "_SB_", "DEV0"), name(N(false, 0, "N000"), i1(1)), method(N(false, 0, "M001"), 0, call("M000", i1(9))))}),
	)
	// ---- deep nesting (seeded change I: the parser's scope stack and package-end stack must be independent however many
	// packages are open at once): `depth` scoped objects nested directly in each other, every level with a declaration
	// before and after the nested block, then declarations in the root scope behind the whole block
	deep := func(depth int, mixed bool) []c11Node {
		var inner []c11Node
		for lv := depth - 1; lv >= 0; lv-- {
			kids := []c11Node{name(N(false, 0, fmt.Sprintf("NA%02d", lv)), i1(uint64(lv)))}
			kids = append(kids, inner...)
			kids = append(kids, name(N(false, 0, fmt.Sprintf("NB%02d", lv)), c11Int{2, uint64(0x100 + lv)}))
			nm := N(false, 0, fmt.Sprintf("D%03d", lv))
			kind := "device"
			if mixed {
				kind = []string{"device", "thermal", "proc", "power"}[lv%4]
			}
			var l *c11List
			switch kind {
			case "proc":
				l = leafL("proc", nm, uint64(lv), uint64(0x400+lv), 6)
			case "power":
				l = leafL("power", nm, uint64(lv%5), uint64(lv))
			default:
				l = &c11List{kind: kind, name: nm}
			}
			l.kids = kids
			l.w = c11Width(nil, len(l.body()))
			inner = []c11Node{l}
		}
		return cat(inner, []c11Node{name(N(false, 0, "TAIL"), i1(0x77)), cont("device", N(false, 0, "AFTR"), name(N(false, 0, "AVAL"), i1(0x55))),
			method(N(false, 0, "MTAL"), 0)})
	}
	manyNames := func(k int) []c11Node {
		var out []c11Node
		for i := 0; i < k; i++ {
			out = append(out, name(N(false, 0, fmt.Sprintf("Q%03d", i)), c11Int{2, uint64(i)}))
		}
		return out
	}
	for depth := 1; depth <= 40; depth++ {
		cases = append(cases, c11Hand(fmt.Sprintf("b-deep-%d", depth), "", deep(depth, false)))
	}
	for _, depth := range []int{15, 16, 17, 18, 24, 33, 40} {
		cases = append(cases, c11Hand(fmt.Sprintf("b-deep-mixed-%d", depth), "", deep(depth, true)))
		cases = append(cases, c11Hand(fmt.Sprintf("b-deep-in-sb-%d", depth), "", []c11Node{cont("scope", N(true, 0, "_SB_"), deep(depth, false)...), name(N(false, 0, "ROOT"), i1(1))}))
	}
	for _, depth := range []int{14, 15, 16, 17, 20, 40} {
		cases = append(cases, c11Hand(fmt.Sprintf("b-deep-later-table-%d", depth), "", manyNames(400), deep(depth, false)))
		cases = append(cases, c11Hand(fmt.Sprintf("b-deep-third-table-%d", depth), "", manyNames(150), []c11Node{cont("device", N(false, 0, "DEVX"), manyNames(150)...)}, deep(depth, depth%2 == 0)))
	}
	// ---- deferred blocks one after the other (seeded change J: what one deferred block leaves on the package-end stack
	// must not reach the next one): a While whose body ends in a nested If / While, and Buffers / Packages with empty and
	// non-empty initializers, in both orders, in the root scope and in \_SB (the pre-defined scopes are walked first)
	arg0 := c11Leaf{"A0", []byte{0x68}}
	storeL := func(v uint64, local uint64) c11Node {
		return &c11List{kind: "store", kids: []c11Node{i1(v)}, ints: []uint64{local}}
	}
	blk := func(kind string, pred c11Node, body ...c11Node) c11Node {
		l := &c11List{kind: kind, kids: append([]c11Node{pred}, body...)}
		l.w = c11Width(nil, len(l.body()))
		return l
	}
	pkgD := func(elems ...c11Node) c11Node {
		l := &c11List{kind: "p", kids: elems}
		l.w = c11Width(nil, len(l.body()))
		return l
	}
	loops := map[string]func() c11Node{
		"if": func() c11Node {
			return method(N(false, 0, "LOOP"), 1, blk("while", arg0, storeL(1, 0), blk("if", arg0, storeL(2, 1))))
		},
		"while": func() c11Node {
			return method(N(false, 0, "LOOP"), 1, blk("while", arg0, storeL(1, 0), blk("while", i1(0), storeL(2, 1))))
		},
		"ifif": func() c11Node {
			return method(N(false, 0, "LOOP"), 1, blk("while", arg0, blk("if", arg0, storeL(2, 1), blk("if", i1(1), storeL(3, 2)))))
		},
		"two-loops": func() c11Node {
			return method(N(false, 0, "LOOP"), 2, blk("while", arg0, blk("if", arg0, storeL(2, 1))), blk("while", c11Leaf{"A1", []byte{0x69}}, blk("if", arg0, storeL(4, 3))))
		},
		"plain": func() c11Node { return method(N(false, 0, "LOOP"), 1, blk("while", arg0, storeL(1, 0))) },
	}
	datas := map[string]func() []c11Node{
		"buf-empty": func() []c11Node { return []c11Node{name(N(false, 0, "BUF0"), c11Buf{1, 4, nil})} },
		"buf-full": func() []c11Node {
			return []c11Node{name(N(false, 0, "BUF0"), c11Buf{1, 4, []byte{0xde, 0xad, 0xbe, 0xef}})}
		},
		"buf-both": func() []c11Node {
			return []c11Node{name(N(false, 0, "BUF0"), c11Buf{1, 4, nil}), name(N(false, 0, "BUF1"), c11Buf{1, 4, []byte{0xde, 0xad, 0xbe, 0xef}}),
				name(N(false, 0, "BUF2"), c11Buf{2, 0, nil})}
		},
		"pkg-empty": func() []c11Node { return []c11Node{name(N(false, 0, "PKG0"), pkgD())} },
		"pkg-full": func() []c11Node {
			return []c11Node{name(N(false, 0, "PKG0"), pkgD(i1(1), c11Str{[]byte("ab")}, c11Buf{1, 2, nil}))}
		},
		"mixed": func() []c11Node {
			return []c11Node{name(N(false, 0, "PKG0"), pkgD(c11Buf{1, 3, nil}, pkgD())), name(N(false, 0, "BUF0"), c11Buf{1, 4, nil}),
				name(N(false, 0, "PKG1"), pkgD(i1(7)))}
		},
	}
	for _, lk := range []string{"if", "while", "ifif", "two-loops", "plain"} {
		for _, dk := range []string{"buf-empty", "buf-full", "buf-both", "pkg-empty", "pkg-full", "mixed"} {
			feats := "while-deferred"
			if lk != "plain" {
				feats += ",deferred-nested-block"
			}
			tail := []c11Node{name(N(false, 0, "TAIL"), i1(0x77))}
			// loop first, data behind it (root scope)
			cases = append(cases, c11Hand("b-defer-"+lk+"-then-"+dk, feats, cat(one(loops[lk]()), datas[dk](), tail)))
			// data first, loop behind it
			cases = append(cases, c11Hand("b-defer-"+dk+"-then-"+lk, feats, cat(datas[dk](), one(loops[lk]()), tail)))
			// data in the root scope, the loop in \_SB: the deferred pass reaches the loop first
			cases = append(cases, c11Hand("b-defer-"+lk+"-in-sb-"+dk, feats, cat(datas[dk](), one(cont("scope", N(true, 0, "_SB_"), loops[lk]())), tail)))
			// both in \_SB, and the data again in a later table
			cases = append(cases, c11Hand("b-defer-"+lk+"-sb-both-"+dk, feats+",later-table-scope",
				[]c11Node{cont("scope", N(true, 0, "_SB_"), cat(one(loops[lk]()), datas[dk]())...), name(N(false, 0, "TAIL"), i1(0x77))},
				[]c11Node{cont("scope", N(true, 0, "_TZ_"), datas[dk]()...), name(N(false, 0, "TAI2"), i1(0x78))}))
		}
	}

	for i := 0; i < n; i++ {
		r := rng.fork()
		g := c11NewGen(r)
		g.clean = r.chance(70)
		c := c11Case{id: fmt.Sprint(i)}
		for k := 1 + r.intn(3); k > 0; k-- {
			c.tables = append(c.tables, g.table(len(c.tables) == 0))
		}
		var fs []string
		for f := range g.feature {
			fs = append(fs, f)
		}
		sortStrings(fs)
		c.feats = strings.Join(fs, ",")
		cases = append(cases, c)
	}

	items := make([]*amlItem, len(cases))
	for i, c := range cases {
		it := &amlItem{id: c.id}
		for _, tb := range c.tables {
			_, b := c11Kids(tb)
			it.tables = append(it.tables, b)
		}
		items[i] = it
	}
	amlRunItems(items, 20*time.Second)
	for i, c := range cases {
		f := c.feats
		if f == "" {
			f = "-"
		}
		out.printf("case %s %s\n", c.id, f)
		for ti, tb := range c.tables {
			sx, b := c11Kids(tb)
			o := "not-run"
			if ti < len(items[i].obs) {
				o = items[i].obs[ti]
			} else if ti > 0 {
				break
			}
			out.printf("T %d %s%s | %s\n", ti+1, amlHex(b), sx, o)
		}
	}
}
