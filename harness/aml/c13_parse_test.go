//go:build verif

package aml

// C13 harness, part 2: histories produced by a CLIENT of the object tree - the real AML parser.
// Tables (the shipped corpus and small generated ones) are fed through the real ParseAML; after
// every table the changed pool rows are dumped in the C13 protocol and lookups for the declared
// names are issued from several scopes.  The Lean driver does not replay the parser: it judges the
// dump (WF of the implementation's pool) and every lookup (model Find and `resolve` on the
// abstracted dump).
//
//   PT <tableHandle> <label|payloadhex> | <ok|err|panic> <freeHead> <poolLen> <k> {row}*k

import (
	"fmt"
	"io/ioutil"
	"os"
	"path/filepath"
	"time"
	"unsafe"

	"github.com/ProjectSerenity/firefly/kernel/device/acpi/table"
)

func c13stream(payload []byte) *table.SDTHeader {
	hl := int(unsafe.Sizeof(table.SDTHeader{}))
	stream := make([]byte, hl+len(payload))
	copy(stream[hl:], payload)
	h := (*table.SDTHeader)(unsafe.Pointer(&stream[0]))
	h.Signature = [4]byte{'D', 'S', 'D', 'T'}
	h.Length = uint32(len(stream))
	h.Revision = 2
	return h
}

func c13shipped() (names []string, payloads [][]byte) {
	hl := int(unsafe.Sizeof(table.SDTHeader{}))
	wd, _ := os.Getwd()
	for _, n := range []string{"DSDT.aml", "SSDT.aml", "parser-testsuite-DSDT.aml"} {
		data, err := ioutil.ReadFile(filepath.Join(wd, "../table/tabletest", n))
		if err != nil || len(data) < hl {
			continue
		}
		names = append(names, n)
		payloads = append(payloads, data[hl:])
	}
	return
}

// rebuild recomputes the reference bookkeeping (live/par/kids) from the real pool with bounded
// walks, so that the lookup generators of part 1 can be reused on parser-built trees.
func (h *c13h) rebuild() {
	pool := h.tree.objPool
	n := len(pool)
	h.live, h.par, h.kids = make([]bool, n), make([]int, n), make([][]int, n)
	for i, o := range pool {
		h.live[i] = o.opcode != pOpIntFreedObject
		h.par[i] = -1
	}
	for i, o := range pool {
		if !h.live[i] {
			continue
		}
		if p := o.parentIndex; int(p) < n && h.live[p] {
			h.par[i] = int(p)
		}
		steps := 0
		for k := o.firstArgIndex; int(k) < n && h.live[k] && steps <= n; k, steps = pool[k].nextSiblingIndex, steps+1 {
			h.kids[i] = append(h.kids[i], int(k))
		}
	}
}

func c13isNameStart(b byte) bool { return b == '_' || (b >= 'A' && b <= 'Z') }

// declared returns the live objects that carry a proper name and hang (by parent links) below the root.
func (h *c13h) declared() []int {
	var d []int
	for i := range h.tree.objPool {
		if i == 0 || !h.live[i] || !c13isNameStart(h.tree.objPool[i].name[0]) {
			continue
		}
		c := h.chain(i)
		if c[len(c)-1] != 0 {
			continue
		}
		ok := true
		for _, x := range c[:len(c)-1] {
			if !c13isNameStart(h.tree.objPool[x].name[0]) {
				ok = false // path runs through an unnamed object: cannot be written as a name string
			}
		}
		if ok {
			d = append(d, i)
		}
	}
	return d
}

// probes: every declared name (a sample when there are many) is looked up by its absolute path from
// the root, from its own scope and from another live scope, and by its bare name from its scope and
// from a scope nested in it; then the random expression generator of part 1 runs on the tree.
func (h *c13h) probes(r *vrng, maxDeclared, nRandom int) {
	if len(h.tree.objPool) == 0 || !h.acyclic() {
		return
	}
	h.rebuild()
	lives := h.liveList()
	if len(lives) == 0 || !h.live[0] {
		return
	}
	d := h.declared()
	for len(d) > maxDeclared {
		k := r.intn(len(d))
		d = append(d[:k], d[k+1:]...)
	}
	for _, x := range d {
		c := h.chain(x)
		var segs [][amlNameLen]byte
		for i := len(c) - 2; i >= 0; i-- {
			segs = append(segs, h.nameOfIdx(c[i]))
		}
		abs := c13enc(r, true, 0, segs, 0)
		h.lookup(0, abs)
		h.lookup(uint32(h.par[x]), abs)
		h.lookup(uint32(lives[r.intn(len(lives))]), c13enc(r, true, 0, segs, r.intn(3)))
		nm := h.nameOfIdx(x)
		h.lookup(uint32(h.par[x]), nm[:])
		if ks := h.kids[h.par[x]]; len(ks) > 0 {
			h.lookup(uint32(ks[r.intn(len(ks))]), nm[:])
		}
		if len(segs) >= 2 {
			h.lookup(uint32(c[len(c)-2]), c13enc(r, false, 0, segs[1:], r.intn(3)))
			h.lookup(uint32(h.par[x]), c13enc(r, false, len(segs)-1, segs, r.intn(2)))
		}
	}
	h.lookups(r, nRandom)
}

// c13hangs counts parser runs that did not return; each leaves a spinning goroutine behind, so the
// parser-driven part stops after a few of them.
var c13hangs int

// parseTable loads one table with the real parser. The parser runs in its own goroutine: if it does
// not return within the watchdog time (it walks the tree with unbounded loops, so a cyclic link
// left behind by an earlier fault makes it spin), the observation is `hang`, the pool is not dumped
// (it is still being written) and the tree is abandoned. Returns false when the case must stop.
func (h *c13h) parseTable(p *Parser, handle uint8, label string, payload []byte) bool {
	hdr := c13stream(payload)
	done := make(chan string, 1)
	go func() {
		res := "ok"
		defer func() {
			if recover() != nil {
				res = "panic"
			}
			done <- res
		}()
		if err := p.ParseAML(handle, "DSDT", hdr); err != nil {
			res = "err"
		}
	}()
	var res string
	select {
	case res = <-done:
	case <-time.After(10 * time.Second):
		c13hangs++
		h.out.printf("PT %d %s | hang 0 0 0\n", handle, label)
		h.out.w.Flush()
		return false
	}
	h.out.printf("PT %d %s | %s %d %d", handle, label, res, h.tree.freeListHeadIndex, len(h.tree.objPool))
	h.diff()
	h.out.w.Flush()
	// a pool with a cyclic next/parent chain is not handed to the parser again: the dump above is
	// what the oracle judges (and rejects)
	return res != "panic" && h.acyclic()
}

// ---- small generated tables ----

func c13pkg(body []byte) []byte {
	n := len(body)
	switch {
	case n+1 <= 63:
		return append([]byte{byte(n + 1)}, body...)
	case n+2 <= 4095:
		t := n + 2
		return append([]byte{0x40 | byte(t&0xf), byte(t >> 4)}, body...)
	default:
		t := n + 3
		return append([]byte{0x80 | byte(t&0xf), byte(t >> 4), byte(t >> 12)}, body...)
	}
}

var c13tblNames = []string{"AAAA", "BBBB", "CCCC", "DEV0", "DEV1", "MTH0", "MTH1", "REG0", "REG1", "NAM0", "NAM1", "X___", "_ADR", "_HID", "PCI0", "FLD0"}

func c13pickName(r *vrng) []byte { return []byte(c13tblNames[r.intn(len(c13tblNames))]) }

func c13const(r *vrng) []byte {
	switch r.intn(5) {
	case 0:
		return []byte{0x00}
	case 1:
		return []byte{0x01}
	case 2:
		return []byte{0x0b, byte(r.intn(256)), byte(r.intn(256))}
	default:
		return []byte{0x0a, byte(r.intn(256))}
	}
}

// c13expr2 emits a type-2 expression (possibly with operands missing: they are then taken from
// whatever follows, which is exactly what attachSiblingsAsArgs has to sort out).
func c13expr2(r *vrng, depth int, complete bool) []byte {
	ops := []struct {
		op    byte
		nargs int
	}{{0x72, 3}, {0x74, 3}, {0x77, 3}, {0x7b, 3}, {0x70, 2}, {0x75, 1}, {0x80, 2}, {0x79, 3}}
	o := ops[r.intn(len(ops))]
	b := []byte{o.op}
	n := o.nargs
	if !complete {
		n = r.intn(o.nargs + 1)
	}
	for i := 0; i < n; i++ {
		switch {
		case i == o.nargs-1 && o.nargs >= 2: // target
			b = append(b, byte(r.pick(0x00, 0x60, 0x61, 0x68)))
		case depth > 0 && r.chance(25):
			b = append(b, c13expr2(r, depth-1, complete)...)
		default:
			b = append(b, c13const(r)...)
		}
	}
	return b
}

// ---- deferred blocks (Buffer / While / BankField): their TermArg is parsed in a later pass ----

var c13type2 = []struct {
	op    byte
	nargs int
}{{0x72, 3}, {0x74, 3}, {0x77, 3}, {0x7b, 3}, {0x70, 2}, {0x75, 1}, {0x80, 2}, {0x79, 3}}

// c13cutExpr emits opcode `op` with only its first `have` operands; operand `nestAt` (if < have) is
// itself an expression cut short (Add(1, Subtract <missing>)).
func c13cutExpr(r *vrng, op byte, have, nestAt int) []byte {
	b := []byte{op}
	for i := 0; i < have; i++ {
		if i == nestAt {
			b = append(b, 0x74)
			if r.chance(50) {
				b = append(b, 0x0a, 0x05)
			}
		} else {
			b = append(b, c13const(r)...)
		}
	}
	return b
}

// c13deferred wraps a (possibly cut) TermArg into one of the deferred constructs. kind: 0 Buffer
// size, 1 While predicate inside a method, 2 BankField value.
func c13deferred(r *vrng, kind int, term []byte, name []byte) []byte {
	switch kind {
	case 0:
		body := append([]byte{}, term...)
		return append(append([]byte{0x08}, name...), append([]byte{0x11}, c13pkg(body)...)...)
	case 1:
		wh := append([]byte{0xa2}, c13pkg(term)...)
		m := append(append([]byte{}, name...), 0x00)
		m = append(m, wh...)
		return append([]byte{0x14}, c13pkg(m)...)
	default:
		reg := append(append([]byte{0x5b, 0x80}, []byte("REGB")...), 0x00, 0x0a, 0x00, 0x0a, 0x10)
		fld := append(append([]byte("REGB"), 0x01), append([]byte("BNK0"), 0x08)...)
		reg = append(reg, append([]byte{0x5b, 0x81}, c13pkg(fld)...)...)
		bf := append([]byte("REGB"), []byte("BNK0")...)
		bf = append(bf, term...)
		if len(term) > 0 && r.chance(50) {
			bf = append(append(bf, 0x01), append(append([]byte{}, name...), 0x08)...)
		}
		return append(reg, append([]byte{0x5b, 0x87}, c13pkg(bf)...)...)
	}
}

// c13deferredRandom: a deferred construct whose TermArg is complete (then the rest of the block is
// well-formed too) or cut at a random operand boundary.
func c13deferredRandom(r *vrng) []byte {
	kind := r.intn(3)
	o := c13type2[r.intn(len(c13type2))]
	name := c13pickName(r)
	if r.chance(55) {
		have := r.intn(o.nargs)
		nest := -1
		if have > 0 && r.chance(30) {
			nest = have - 1
		}
		return c13deferred(r, kind, c13cutExpr(r, o.op, have, nest), name)
	}
	term := c13cutExpr(r, o.op, o.nargs, -1)
	if o.nargs >= 2 {
		term[len(term)-1] = 0x60
		// the last operand is a target: constants written by c13const may be 2-3 bytes, rebuild
		term = []byte{o.op}
		for i := 0; i < o.nargs-1; i++ {
			term = append(term, 0x0a, byte(r.intn(8)))
		}
		term = append(term, 0x60)
	}
	switch kind {
	case 0:
		return c13deferred(r, 0, append(term, 1, 2, 3), name)
	case 1:
		return c13deferred(r, 1, append(term, 0xa4, 0x00), name)
	default:
		return c13deferred(r, 2, append(append(term, 0x01), append(append([]byte{}, name...), 0x08)...), name)
	}
}

// c13scopeBody emits the statements of one scope.
func c13scopeBody(r *vrng, depth int) []byte {
	var b []byte
	for n := r.between(0, 4); n > 0; n-- {
		switch r.intn(9) {
		case 0, 1: // Name(x, const)
			b = append(b, 0x08)
			b = append(b, c13pickName(r)...)
			b = append(b, c13const(r)...)
		case 2: // Device
			if depth > 0 {
				body := append(c13pickName(r), c13scopeBody(r, depth-1)...)
				b = append(append(b, 0x5b, 0x82), c13pkg(body)...)
			}
		case 3: // Scope(existing or new name)
			if depth > 0 {
				nm := [][]byte{[]byte("\\_SB_"), []byte("_SB_"), []byte("\\"), []byte("^_TZ_"), c13pickName(r)}[r.intn(5)]
				body := append(append([]byte{}, nm...), c13scopeBody(r, depth-1)...)
				b = append(append(b, 0x10), c13pkg(body)...)
			}
		case 4: // Method
			body := append(c13pickName(r), byte(r.intn(8)))
			for k := r.intn(3); k > 0; k-- {
				body = append(body, c13expr2(r, 1, true)...)
			}
			if r.chance(50) {
				body = append(append(body, 0xa4), c13const(r)...)
			}
			b = append(append(b, 0x14), c13pkg(body)...)
		case 5, 6: // OperationRegion, operands constant or expressions, sometimes missing
			b = append(append(b, 0x5b, 0x80), c13pickName(r)...)
			b = append(b, byte(r.intn(3)))
			for k := r.intn(3); k > 0; k-- {
				if r.chance(50) {
					b = append(b, c13const(r)...)
				} else {
					b = append(b, c13expr2(r, 1, r.chance(60))...)
				}
			}
		case 7: // Field over a region name
			body := append(c13pickName(r), 0x01)
			for k := r.between(1, 3); k > 0; k-- {
				body = append(append(body, c13pickName(r)...), byte(r.between(1, 32)))
			}
			b = append(append(b, 0x5b, 0x81), c13pkg(body)...)
		default: // expression opcodes at scope level (complete or cut short)
			b = append(b, c13expr2(r, 2, r.chance(50))...)
		}
	}
	// deferred blocks, about half of them with the operands of their TermArg cut short
	if r.chance(30) {
		b = append(b, c13deferredRandom(r)...)
	}
	// the end of a scope: sometimes a region followed by bare expression opcodes
	if r.chance(35) {
		b = append(append(b, 0x5b, 0x80), c13pickName(r)...)
		b = append(b, 0x00)
		for k := r.between(1, 2); k > 0; k-- {
			b = append(b, c13expr2(r, 1, r.chance(70))...)
		}
		if r.chance(40) {
			b = append(b, c13const(r)...)
		}
	}
	return b
}

func c13parseCase(out *verifWriter, r *vrng, labels []string, tables [][]byte, maxDeclared, nRandom int) {
	h := c13new(out)
	info := pOpcodeTableIndex(pOpIntScopeBlock, true)
	h.mut(fmt.Sprintf("DS %d 0", info), func() uint32 { h.tree.CreateDefaultScopes(0); return 0 })
	p := NewParser(ioutil.Discard, h.tree)
	for i, tb := range tables {
		if c13hangs >= 3 || !h.parseTable(p, uint8(i+1), labels[i], tb) {
			return
		}
		h.probes(r, maxDeclared, nRandom)
	}
}

func c13parseBoundary(out *verifWriter) {
	r := &vrng{s: 4242}
	// operands borrowed from the enclosing scope at the end of that scope, then a second table
	out.printf("case p-region-borrows-parent-siblings\n")
	t1 := []byte{0x5b, 0x80, 'R', 'E', 'G', '0', 0x00, 0x72, 0x0a, 0x01, 0x0a, 0x02, 0x00}
	t2 := append([]byte{0x08}, append([]byte("BBBB"), 0x0a, 0x07)...)
	c13parseCase(out, r, []string{c13hex(t1), c13hex(t2)}, [][]byte{t1, t2}, 50, 10)
	out.printf("case p-all-borrowed\n")
	t3 := []byte{0x08, 'A', 'A', 'A', 'A', 0xa4, 0x60}
	c13parseCase(out, r, []string{c13hex(t3), c13hex(t2)}, [][]byte{t3, t2}, 50, 10)
	out.printf("case p-nested-scopes\n")
	dev := append([]byte("DEV0"), append([]byte{0x08}, append([]byte("_ADR"), 0x0a, 0x01)...)...)
	inner := append([]byte{0x5b, 0x82}, c13pkg(dev)...)
	sb := append([]byte("\\_SB_"), inner...)
	t4 := append([]byte{0x10}, c13pkg(sb)...)
	sc := append([]byte("\\_SB_DEV0"), append([]byte{0x08}, append([]byte("_HID"), 0x0a, 0x02)...)...)
	t5 := append([]byte{0x10}, c13pkg(sc)...)
	c13parseCase(out, r, []string{c13hex(t4), c13hex(t5), c13hex(t2)}, [][]byte{t4, t5, t2}, 50, 10)
	// rejected tables: a deferred block (Buffer size / While predicate / BankField value) whose TermArg
	// is a Type2 opcode cut at every operand boundary (and the nested variant); the tree outlives the
	// rejected table, a well-formed table follows
	ok0 := append([]byte{0x08}, append([]byte("OK00"), 0x01)...)
	for kind := 0; kind < 3; kind++ {
		for _, o := range c13type2 {
			for have := 0; have < o.nargs; have++ {
				for _, nest := range []int{-1, have - 1} {
					if nest >= have || (nest < 0 && have > 0 && false) {
						continue
					}
					out.printf("case p-deferred-k%d-op%02x-have%d-nest%d\n", kind, o.op, have, nest)
					tb := append(append([]byte{}, ok0...), c13deferred(r, kind, c13cutExpr(r, o.op, have, nest), []byte("FOO_"))...)
					c13parseCase(out, r, []string{c13hex(tb), c13hex(t2)}, [][]byte{tb, t2}, 20, 4)
				}
			}
		}
	}
	// the shipped tables, alone and loaded one after the other into one namespace
	names, payloads := c13shipped()
	for i, n := range names {
		out.printf("case p-shipped-%s\n", n)
		c13parseCase(out, r, []string{"shipped:" + n}, [][]byte{payloads[i]}, 40, 20)
	}
	if len(names) >= 2 {
		out.printf("case p-shipped-DSDT+SSDT+generated\n")
		c13parseCase(out, r, []string{"shipped:" + names[0], "shipped:" + names[1], c13hex(t2)},
			[][]byte{payloads[0], payloads[1], t2}, 40, 20)
	}
}

func c13parseRandom(out *verifWriter, r *vrng, id int) {
	out.printf("case p%d\n", id)
	var labels []string
	var tables [][]byte
	for n := r.between(1, 3); n > 0; n-- {
		tb := c13scopeBody(r, 2)
		labels = append(labels, c13hex(tb))
		tables = append(tables, tb)
	}
	c13parseCase(out, r, labels, tables, 12, 8)
}
