//go:build verif

package aml

// C12 — malformed AML is rejected with an error, never a crash, hang or stray pointer.
// Trace lines:
//   base <k> <hex>                               payload (bytes after the SDT header) of base table k
//   case <id>
//   P <handle> <base> <edits> | <observation>    parse (base k with edits applied) into the case's tree
// observation = <outcome> <print> <pool> <free> <orphans> <slicebad> <wf> <hash> [rows...]
//   or a bare crash kind (overflow | timeout | fatal | memory | flaky-*) when the child process died.

import (
	"fmt"
	"os"
	"testing"
	"time"
)

func TestVerifFactsC12(t *testing.T) {
	out := verifOpen("VERIF_FACTS_OUT")
	defer out.close()
	amlPrintFacts(out.w, "C12")
}

// ------------------------------------------------------------------ generators

type c12Base struct {
	payload []byte
	hot     []int // offsets of bytes that look like opcodes with a PkgLength, prefixes, name leads
	lens    []int // offsets that are probably PkgLength lead bytes
}

var c12PkgOps = map[byte]bool{0x10: true, 0x11: true, 0x12: true, 0x13: true, 0x14: true, 0xa0: true, 0xa1: true, 0xa2: true}
var c12ExtPkgOps = map[byte]bool{0x81: true, 0x82: true, 0x83: true, 0x84: true, 0x85: true, 0x86: true, 0x87: true}

func c12Index(p []byte) *c12Base {
	b := &c12Base{payload: p}
	for i := 0; i < len(p); i++ {
		c := p[i]
		switch {
		case c12PkgOps[c]:
			b.hot = append(b.hot, i)
			if i+1 < len(p) {
				b.lens = append(b.lens, i+1)
			}
		case c == 0x5b && i+1 < len(p):
			b.hot = append(b.hot, i, i+1)
			if c12ExtPkgOps[p[i+1]] && i+2 < len(p) {
				b.lens = append(b.lens, i+2)
			}
		case c == 0x08 || c == 0x06 || (c >= 0x0a && c <= 0x0e) || c == 0x2e || c == 0x2f || c == 0x5c || c == 0x5e || c == 0x00 ||
			(c >= 0x60 && c <= 0xa5):
			b.hot = append(b.hot, i)
		}
	}
	return b
}

var c12Interesting = []byte{0x00, 0x01, 0x02, 0x03, 0x06, 0x08, 0x0a, 0x0b, 0x0c, 0x0d, 0x0e, 0x10, 0x11, 0x12, 0x13, 0x14, 0x15,
	0x2e, 0x2f, 0x5b, 0x5c, 0x5e, 0x5f, 0x41, 0x5a, 0x60, 0x68, 0x70, 0x71, 0x72, 0x83, 0x86, 0x88, 0x8d, 0xa0, 0xa1, 0xa2, 0xa3, 0xa4,
	0xcc, 0xff, 0x3f, 0x40, 0x4f, 0x80, 0x81, 0x82, 0x87, 0x88, 0xc0, 0xcf, 0xfe, 0x7f, 0x30}

func c12Pos(r *vrng, b *c12Base) int {
	n := len(b.payload)
	if n == 0 {
		return 0
	}
	switch {
	case len(b.lens) > 0 && r.chance(30):
		return b.lens[r.intn(len(b.lens))]
	case len(b.hot) > 0 && r.chance(60):
		p := b.hot[r.intn(len(b.hot))] + r.intn(3) - 1
		if p < 0 {
			p = 0
		}
		if p >= n {
			p = n - 1
		}
		return p
	}
	return r.intn(n)
}

func c12Byte(r *vrng) byte {
	if r.chance(70) {
		return c12Interesting[r.intn(len(c12Interesting))]
	}
	return byte(r.next())
}

// c12Mutate returns 1..3 edits of base k (others may donate splice material).
func c12Mutate(r *vrng, bases []*c12Base, k int) []amlEdit {
	b := bases[k]
	var es []amlEdit
	cur := b.payload
	for m := 1 + r.intn(3); m > 0; m-- {
		n := len(cur)
		idx := c12Index(cur)
		var e amlEdit
		switch r.intn(13) {
		case 0: // truncation
			e = amlEdit{kind: 't', off: c12Pos(r, idx) + r.intn(2)}
			if r.chance(30) {
				e.off = r.intn(n + 1)
			}
		case 1: // bit flip
			e = amlEdit{kind: 'x', off: c12Pos(r, idx), n: 1 << uint(r.intn(8))}
		case 2, 3: // byte substitution
			e = amlEdit{kind: 's', off: c12Pos(r, idx), n: int(c12Byte(r))}
		case 4, 5: // length-field corruption: rewrite a PkgLength with another value/width
			if len(idx.lens) == 0 {
				e = amlEdit{kind: 's', off: c12Pos(r, idx), n: int(c12Byte(r))}
				break
			}
			p := idx.lens[r.intn(len(idx.lens))]
			lead := cur[p]
			oldw := int(lead>>6) + 1
			old := uint32(lead & 0x3f)
			if oldw > 1 {
				old = uint32(lead & 0xf)
				for i := 1; i < oldw && p+i < n; i++ {
					old |= uint32(cur[p+i]) << uint(4+8*(i-1))
				}
			}
			var nv uint32
			switch r.intn(8) {
			case 0:
				nv = 0
			case 1:
				nv = uint32(r.intn(4))
			case 2:
				nv = old + uint32(r.intn(5)) - 2
			case 3:
				nv = old * 2
			case 4:
				nv = 0x0fffffff
			case 5:
				nv = uint32(n-p) + uint32(r.intn(4)) // just past / at the end of the table
			case 6:
				nv = old / 2
			default:
				nv = uint32(r.next()) & 0x0fffffff >> uint(r.intn(28))
			}
			w := 1 + r.intn(4)
			if w == 1 && nv > 0x3f {
				w = 2
			}
			if p+oldw > n {
				oldw = n - p
			}
			es = append(es, amlEdit{kind: 'd', off: p, n: oldw})
			cur = amlApplyEdits(cur, es[len(es)-1:])
			e = amlEdit{kind: 'i', off: p, data: c12EncPkgLen(nv, w)}
		case 6: // splice: a segment of another (or the same) base inserted here, optionally replacing bytes
			src := bases[r.intn(len(bases))]
			if len(src.payload) == 0 {
				src = b
			}
			sidx := src
			a := c12Pos(r, sidx)
			l := 1 + r.intn(24)
			if r.chance(20) {
				l = 1 + r.intn(200)
			}
			if a+l > len(src.payload) {
				l = len(src.payload) - a
			}
			at := c12Pos(r, idx)
			if r.chance(50) {
				dl := r.intn(l + 1)
				es = append(es, amlEdit{kind: 'd', off: at, n: dl})
				cur = amlApplyEdits(cur, es[len(es)-1:])
			}
			e = amlEdit{kind: 'i', off: at, data: append([]byte(nil), src.payload[a:a+l]...)}
		case 7: // delete a range
			e = amlEdit{kind: 'd', off: c12Pos(r, idx), n: 1 + r.intn(8)}
		case 8: // insert interesting/random bytes
			l := 1 + r.intn(6)
			d := make([]byte, l)
			for i := range d {
				d[i] = c12Byte(r)
			}
			e = amlEdit{kind: 'i', off: c12Pos(r, idx), data: d}
		case 10, 11: // shrink an enclosing PkgLength so that a nested package ends beyond it (both inside the table)
			if len(idx.lens) < 2 {
				e = amlEdit{kind: 's', off: c12Pos(r, idx), n: int(c12Byte(r))}
				break
			}
			oi := r.intn(len(idx.lens) - 1)
			p, q := idx.lens[oi], idx.lens[oi+1+r.intn(len(idx.lens)-oi-1)]
			if q-p > 0x3c || cur[p]>>6 != 0 { // keep it a one-byte length: end somewhere between the nested length byte and a few bytes after
				q = p + 1 + r.intn(8)
			}
			nv := q - p + r.intn(4)
			if nv > 0x3f {
				nv = 0x3f
			}
			e = amlEdit{kind: 's', off: p, n: nv}
		case 12: // a name segment whose first 1-3 bytes are illegal and whose tail is the head of an existing name
			var segs []int
			for i := 0; i+4 < n; i++ {
				if (cur[i] == 0x2e || cur[i] == 0x5c || cur[i] == 0x5e || cur[i] == 0x2f) && (cur[i+1] == '_' || (cur[i+1] >= 'A' && cur[i+1] <= 'Z')) {
					segs = append(segs, i+1)
				}
			}
			if len(segs) == 0 {
				e = amlEdit{kind: 's', off: c12Pos(r, idx), n: int(c12Byte(r))}
				break
			}
			p := segs[r.intn(len(segs))]
			if r.chance(30) && p+8 <= n {
				p += 4
			}
			k := 1 + r.intn(3)
			heads := [][]byte{cur[p : p+4], []byte("_SB_"), []byte("_GPE"), []byte("_PR_"), []byte("_TZ_"), []byte("_SI_")}
			h := heads[r.intn(len(heads))]
			seg := make([]byte, 4)
			for i := 0; i < k; i++ {
				seg[i] = []byte{'1', '9', 'a', 'z', 0x00, 0x01, 0x2f, 0x2e, 0x40, 0x5b, 0x60}[r.intn(11)]
			}
			copy(seg[k:], h[:4-k])
			es = append(es, amlEdit{kind: 'd', off: p, n: 4})
			cur = amlApplyEdits(cur, es[len(es)-1:])
			e = amlEdit{kind: 'i', off: p, data: seg}
		default: // duplicate a segment in place
			a := c12Pos(r, idx)
			l := 1 + r.intn(32)
			if a+l > n {
				l = n - a
			}
			e = amlEdit{kind: 'i', off: a, data: append([]byte(nil), cur[a:a+l]...)}
		}
		es = append(es, e)
		cur = amlApplyEdits(cur, es[len(es)-1:])
		if len(cur) > 20000 { // keep mutants of the big table from growing without bound
			break
		}
	}
	return es
}

// ---- small program generator (byte level; well-formed by construction, all PkgLength widths)

type c12Gen struct {
	r       *vrng
	methods []c12Method // declared so far (name, argc)
	names   [][]byte
	nest    int // While / If bodies that hold declarations, currently open
}

// declBody: now and then the body of a While / If holds declarations (Method, Field, BankField, Name, Buffer, ...):
// in the strict pass they are parsed with parseModeAllBlocks (a Method is built while lookups are possible, field
// units are appended next to an object that is being parsed, deferred opcodes are nested)
func (g *c12Gen) declBody() []byte {
	if g.nest >= 2 || !g.r.chance(30) {
		return nil
	}
	g.nest++
	b := g.termList(0, 1+g.r.intn(3))
	g.nest--
	return b
}
type c12Method struct {
	name []byte
	argc int
}

func (g *c12Gen) seg() []byte {
	r := g.r
	if len(g.names) > 0 && r.chance(30) {
		return g.names[r.intn(len(g.names))]
	}
	const lead = "ABCDEFGHIJKLMNOPQRSTUVWXYZ_"
	const rest = "ABCDEFGHIJKLMNOPQRSTUVWXYZ_0123456789"
	s := []byte{lead[r.intn(len(lead))], rest[r.intn(len(rest))], rest[r.intn(len(rest))], rest[r.intn(len(rest))]}
	if r.chance(50) {
		s = []byte{"ABCDXYZ_"[r.intn(8)], "AB0_"[r.intn(4)], '0', "012"[r.intn(3)]}
	}
	g.names = append(g.names, s)
	return s
}

// nameString: optional prefixes + NameSeg | Dual | Multi
func (g *c12Gen) nameString(simple bool) []byte {
	r := g.r
	var out []byte
	if !simple {
		switch r.intn(8) {
		case 0:
			out = append(out, '\\')
		case 1:
			for k := 1 + r.intn(2); k > 0; k-- {
				out = append(out, '^')
			}
		}
	}
	switch {
	case simple || r.chance(75):
		out = append(out, g.seg()...)
	case r.chance(60):
		out = append(out, 0x2e)
		out = append(out, g.seg()...)
		out = append(out, g.seg()...)
	default:
		n := 1 + r.intn(4)
		out = append(out, 0x2f, byte(n))
		for ; n > 0; n-- {
			out = append(out, g.seg()...)
		}
	}
	return out
}

func (g *c12Gen) pkg(op []byte, body []byte) []byte {
	r := g.r
	w := 1
	for ; w < 4; w++ {
		max := uint32(0x3f)
		if w > 1 {
			max = 1<<uint(4+8*(w-1)) - 1
		}
		if uint32(len(body)+w) <= max {
			break
		}
	}
	if r.chance(25) && w < 4 {
		w += 1 + r.intn(4-w)
	}
	out := append([]byte(nil), op...)
	out = append(out, c12EncPkgLen(uint32(len(body)+w), w)...)
	return append(out, body...)
}

func (g *c12Gen) integer() []byte {
	r := g.r
	switch r.intn(8) {
	case 0:
		return []byte{0x00}
	case 1:
		return []byte{0x01}
	case 2:
		return []byte{0xff}
	case 3:
		return []byte{0x0b, byte(r.next()), byte(r.next())}
	case 4:
		return []byte{0x0c, byte(r.next()), byte(r.next()), byte(r.next()), byte(r.next())}
	case 5:
		v := r.next()
		return []byte{0x0e, byte(v), byte(v >> 8), byte(v >> 16), byte(v >> 24), byte(v >> 32), byte(v >> 40), byte(v >> 48), byte(v >> 56)}
	}
	return []byte{0x0a, byte(r.next())}
}

func (g *c12Gen) data(depth int) []byte {
	r := g.r
	switch r.intn(7) {
	case 0: // string
		n := r.intn(6)
		s := []byte{0x0d}
		for i := 0; i < n; i++ {
			s = append(s, byte(0x20+r.intn(0x5f)))
		}
		return append(s, 0)
	case 1: // buffer (the size expression is sometimes itself a Buffer or a Package)
		n := r.intn(6)
		body := []byte{0x0a, byte(n + r.intn(2))}
		if depth > 0 && r.chance(25) {
			body = g.data(depth - 1)
		}
		for i := 0; i < n; i++ {
			body = append(body, byte(r.next()))
		}
		return g.pkg([]byte{0x11}, body)
	case 2: // package
		if depth <= 0 {
			return g.integer()
		}
		n := r.intn(4)
		body := []byte{byte(n)}
		for i := 0; i < n; i++ {
			body = append(body, g.data(depth-1)...)
		}
		return g.pkg([]byte{0x12}, body)
	}
	return g.integer()
}

// termArg inside a method body
func (g *c12Gen) termArg(depth int) []byte {
	r := g.r
	switch r.intn(8) {
	case 0:
		return []byte{byte(0x60 + r.intn(8))} // LocalN
	case 1:
		return []byte{byte(0x68 + r.intn(7))} // ArgN
	case 2:
		if depth > 0 {
			out := []byte{[]byte{0x72, 0x74, 0x7b, 0x7d, 0x79}[r.intn(5)]}
			out = append(out, g.termArg(depth-1)...)
			out = append(out, g.termArg(depth-1)...)
			return append(out, g.target()...)
		}
	case 3:
		if len(g.methods) > 0 && depth > 0 {
			m := g.methods[r.intn(len(g.methods))]
			out := append([]byte(nil), m.name...)
			for i := 0; i < m.argc; i++ {
				out = append(out, g.termArg(depth-1)...)
			}
			return out
		}
	case 4:
		if depth > 0 {
			out := []byte{[]byte{0x93, 0x94, 0x95, 0x90, 0x91}[r.intn(5)]}
			out = append(out, g.termArg(depth-1)...)
			return append(out, g.termArg(depth-1)...)
		}
	case 5:
		return g.seg()
	}
	return g.integer()
}

func (g *c12Gen) target() []byte {
	r := g.r
	switch r.intn(4) {
	case 0:
		return []byte{0x00}
	case 1:
		return []byte{byte(0x60 + r.intn(8))}
	case 2:
		return g.seg()
	}
	return []byte{byte(0x68 + r.intn(7))}
}

func (g *c12Gen) stmt(depth int) []byte {
	r := g.r
	switch r.intn(9) {
	case 0: // Store
		out := append([]byte{0x70}, g.termArg(2)...)
		return append(out, g.target()...)
	case 1: // If
		if depth > 0 {
			body := g.termArg(2)
			for k := r.intn(3); k > 0; k-- {
				body = append(body, g.stmt(depth-1)...)
			}
			body = append(body, g.declBody()...)
			out := g.pkg([]byte{0xa0}, body)
			if r.chance(30) {
				var eb []byte
				for k := r.intn(3); k > 0; k-- {
					eb = append(eb, g.stmt(depth-1)...)
				}
				out = append(out, g.pkg([]byte{0xa1}, eb)...)
			}
			return out
		}
	case 2: // While
		if depth > 0 {
			body := g.termArg(2)
			for k := r.intn(3); k > 0; k-- {
				body = append(body, g.stmt(depth-1)...)
			}
			body = append(body, g.declBody()...)
			return g.pkg([]byte{0xa2}, body)
		}
	case 3: // Return
		return append([]byte{0xa4}, g.termArg(2)...)
	case 4: // call statement
		if len(g.methods) > 0 {
			m := g.methods[r.intn(len(g.methods))]
			out := append([]byte(nil), m.name...)
			for i := 0; i < m.argc; i++ {
				out = append(out, g.termArg(1)...)
			}
			return out
		}
	case 5: // Increment / Notify
		if r.chance(50) {
			return append([]byte{0x75}, g.target()[0:]...)
		}
		out := append([]byte{0x86}, g.seg()...)
		return append(out, g.integer()...)
	case 6: // CreateDWordField(buf, idx, name)
		out := append([]byte{0x8a}, g.termArg(0)...)
		out = append(out, g.integer()...)
		return append(out, g.seg()...)
	case 7:
		return []byte{0xa3}
	}
	out := append([]byte{0x70}, g.integer()...)
	return append(out, byte(0x60+r.intn(8)))
}

func (g *c12Gen) fieldList() []byte {
	r := g.r
	var out []byte
	for k := r.intn(5); k > 0; k-- {
		switch r.intn(8) {
		case 0: // reserved
			out = append(out, 0x00)
			out = append(out, c12EncPkgLen(uint32(r.intn(300)), 1+r.intn(3))...)
			if out[len(out)-1] == 0 && false {
				out = out[:len(out)-1]
			}
		case 1: // access
			out = append(out, 0x01, byte(r.intn(6)), byte(r.intn(16)))
		case 2: // extended access
			out = append(out, 0x03, byte(r.intn(6)), byte(r.intn(16)), byte(r.next()))
		case 3: // connection: name or buffer
			out = append(out, 0x02)
			if r.chance(50) {
				out = append(out, g.nameString(false)...)
			} else {
				n := r.intn(5)
				body := []byte{0x0a, byte(n)}
				for i := 0; i < n; i++ {
					body = append(body, byte(r.next()))
				}
				out = append(out, g.pkg([]byte{0x11}, body)...)
			}
		default:
			out = append(out, g.seg()...)
			w := 1
			v := uint32(r.intn(64))
			if r.chance(30) {
				v = uint32(r.intn(5000))
				w = 2 + r.intn(3)
			}
			out = append(out, c12EncPkgLen(v, w)...)
		}
	}
	return out
}

func (g *c12Gen) termList(depth int, n int) []byte {
	r := g.r
	var out []byte
	for ; n > 0; n-- {
		switch r.intn(16) {
		case 0, 1: // Name
			out = append(out, 0x08)
			out = append(out, g.nameString(r.chance(70))...)
			out = append(out, g.data(2)...)
		case 2: // Scope
			if depth > 0 {
				body := g.nameString(r.chance(50))
				body = append(body, g.termList(depth-1, r.intn(4))...)
				out = append(out, g.pkg([]byte{0x10}, body)...)
			}
		case 3, 4: // Device
			if depth > 0 {
				body := g.nameString(r.chance(70))
				body = append(body, g.termList(depth-1, r.intn(4))...)
				out = append(out, g.pkg([]byte{0x5b, 0x82}, body)...)
			}
		case 5, 6: // Method
			nm := g.seg()
			argc := r.intn(8)
			fwd := r.chance(30)
			if fwd { // visible to calls generated before the body is emitted (forward reference)
				g.methods = append(g.methods, c12Method{nm, argc})
			}
			body := append([]byte(nil), nm...)
			body = append(body, byte(argc)|byte(r.intn(2))<<3)
			for k := r.intn(4); k > 0; k-- {
				body = append(body, g.stmt(2)...)
			}
			out = append(out, g.pkg([]byte{0x14}, body)...)
			if !fwd {
				g.methods = append(g.methods, c12Method{nm, argc})
			}
		case 7: // OpRegion + Field
			reg := g.seg()
			out = append(out, 0x5b, 0x80)
			out = append(out, reg...)
			out = append(out, byte(r.intn(5)))
			out = append(out, g.integer()...)
			out = append(out, g.integer()...)
			body := append([]byte(nil), reg...)
			body = append(body, byte(r.intn(128)))
			body = append(body, g.fieldList()...)
			out = append(out, g.pkg([]byte{0x5b, 0x81}, body)...)
		case 8: // Mutex / Event
			if r.chance(50) {
				out = append(out, 0x5b, 0x01)
				out = append(out, g.nameString(true)...)
				out = append(out, byte(r.intn(16)))
			} else {
				out = append(out, 0x5b, 0x02)
				out = append(out, g.nameString(true)...)
			}
		case 9: // Processor / PowerRes / ThermalZone
			if depth > 0 {
				body := g.nameString(true)
				op := []byte{0x5b, 0x85}
				switch r.intn(3) {
				case 0:
					op = []byte{0x5b, 0x83}
					body = append(body, byte(r.intn(4)), 0x10, 0x08, 0, 0, 6)
				case 1:
					op = []byte{0x5b, 0x84}
					body = append(body, byte(r.intn(4)), 0x01, 0x00)
				}
				body = append(body, g.termList(depth-1, r.intn(3))...)
				out = append(out, g.pkg(op, body)...)
			}
		case 10: // IndexField
			body := append(g.seg(), g.seg()...)
			body = append(body, byte(r.intn(128)))
			body = append(body, g.fieldList()...)
			out = append(out, g.pkg([]byte{0x5b, 0x86}, body)...)
		case 11: // BankField (deferred)
			body := append(g.seg(), g.seg()...)
			body = append(body, g.integer()...)
			body = append(body, byte(r.intn(128)))
			body = append(body, g.fieldList()...)
			out = append(out, g.pkg([]byte{0x5b, 0x87}, body)...)
		case 12: // Alias
			out = append(out, 0x06)
			out = append(out, g.nameString(false)...)
			out = append(out, g.nameString(true)...)
		case 13: // top-level call / name reference
			if len(g.methods) > 0 {
				m := g.methods[r.intn(len(g.methods))]
				out = append(out, m.name...)
				for i := 0; i < m.argc; i++ {
					out = append(out, g.integer()...)
				}
			}
		case 14: // statement at definition level (If/While/Store are legal in a table's term list)
			out = append(out, g.stmt(1)...)
		default: // External
			out = append(out, 0x15)
			out = append(out, g.nameString(true)...)
			out = append(out, byte(r.intn(16)), byte(r.intn(8)))
		}
	}
	return out
}

func c12GenProg(r *vrng) []byte {
	g := &c12Gen{r: r}
	return g.termList(3, 1+r.intn(6))
}

// ------------------------------------------------------------------ the run

type c12Case struct {
	id     string
	tables []c12Input
	cont   bool // one Parser for all tables, also after a rejected one
}
type c12Input struct {
	base  int
	edits []amlEdit
}

func TestVerifC12(t *testing.T) {
	if os.Getenv(amlChildEnv) != "" {
		t.Skip("parent only")
	}
	out := verifOpen("VERIF_OUT")
	defer out.close()
	rng := &vrng{s: verifSeed()}
	n := verifN(3000)
	thorough := os.Getenv("VERIF_TIER") == "thorough"

	var bases []*c12Base
	addBase := func(p []byte) int {
		bases = append(bases, c12Index(p))
		out.printf("base %d %s\n", len(bases)-1, amlHex(p))
		return len(bases) - 1
	}
	empty := addBase(nil)
	_, ship := amlShipped()
	var shipIdx []int
	for _, p := range ship {
		shipIdx = append(shipIdx, addBase(p))
	}
	var cases []c12Case
	raw := func(id string, b []byte) {
		cases = append(cases, c12Case{id: id, tables: []c12Input{{empty, []amlEdit{{kind: 'i', off: 0, data: b}}}}})
	}

	// ---- deterministic boundary list (independent of the seed)
	raw("b-empty", nil)
	witnesses := map[string]string{
		"D4-device-dual-self":   "5b820a2e4141414141414141",
		"D5-conn-buffer-ffff":   "5b80" + "52454730" + "000a000a10" + "5b8113" + "52454730" + "01" + "02" + "11050bffff00" + "464c4430" + "08",
		"D5-conn-buffer-dword":  "5b80" + "52454730" + "000a000a10" + "5b8114" + "52454730" + "01" + "02" + "11070cffffffff00" + "464c4430" + "08",
		"D7-multiname-64":       "08" + "2f40" + c12Repeat("41424344", 64) + "0a01",
		"D7-multiname-65":       "08" + "2f41" + c12Repeat("41424344", 65) + "0a01",
		"D6-scope-3seg":         "10" + "1a" + "5f53425f" + "5b8214" + "44455630" + "5b820d" + "44455631" + "08" + "58585858" + "0a01" + "10" + "12" + "5c2f03" + "5f53425f" + "44455630" + "44455631" + "08" + "59595959" + "00",
		"scope-root":            "1006" + "5c00" + "085858585800",
		"name-null":             "0800" + "0a01",
		"method-call-fwd":       "4d54483100" + "1408" + "4d54483101" + "a468",
		"pkglen-past-end":       "10ff0f" + "5f53425f",
		"buffer-deferred-huge":  "08" + "42554630" + "11" + "cfffffff" + "0a04" + "01020304",
		"while-deferred":        "1410" + "4d54483000" + "a208" + "9360" + "0a05" + "7560" + "a3",
		"bankfield":             "5b80" + "52454730" + "000a000a10" + "5b8713" + "52454730" + "42414e4b" + "0a01" + "01" + "464c443008",
		"if-else":               "1412" + "4d54483001" + "a007" + "9368" + "0a01" + "a401" + "a103" + "a400",
		"field-access":          "5b80" + "52454730" + "000a000a10" + "5b8116" + "52454730" + "01" + "0004" + "010203" + "03010203" + "464c443008" + "464c443110",
		"ext-5b-00-is-ones":     "5b00",
		"ext-5b-eof":            "5b",
		"string-unterminated":   "0d414243",
		"string-highbit":        "0d41ff00",
		"alias":                 "0641424344" + "45464748",
		"package-nested":        "08" + "504b4730" + "120b" + "03" + "0a01" + "1204" + "01" + "0a02" + "0d4100",
		"freed-reuse":           "1009" + "5f53425f" + "0858585858" + "00" + "1009" + "5f53425f" + "0859595959" + "01",
		"relocate-caret":        "5b820f" + "44455630" + "08" + "5e5858585800" + "0859595959" + "00",
		"relocate-unresolvable": "08" + "2e" + "4e4f5045" + "58585858" + "00",
		"scope-unresolvable":    "1005" + "4e4f5045",
		"scope-of-name":         "0858585858" + "00" + "1005" + "58585858",
		"method-no-flags":       "1405" + "4d544830" + "4d544830",
		"device-self-caret":     "5b8206" + "5e41414141",
		"device-in-own-child":   "5b8210" + "41414141" + "5b8209" + "2e4141414142424242",
		// seeded C12-C: outer Buffer PkgLength shrunk so that the Buffer nested in its size expression ends after
		// the outer package but inside the table (ByteList length pkgEnd-offset underflows)
		"inner-pkg-beyond-outer": "084141414111041108" + "0a010000000000" + "084242424200",
		"inner-pkg-beyond-outer-2": "084141414111051205" + "020a010a02" + "0a03" + "084242424200",
		// seeded C12-D: a name segment that starts with 1-3 illegal bytes whose tail is a prefix of a sibling's name
		"nameseg-illegal-1": "082e315f534258585858" + "00",
		"nameseg-illegal-3": "082e3132335f58585858" + "00",
		"nameseg-illegal-2": "082e01025f5458585858" + "00",
		"nameseg-illegal-scope": "10" + "0b" + "5c2e315f5342" + "5f53495f" + "0858585858" + "00",
		"mutual-reloc":          "5b820a" + "2e4242424241414141" + "5b820a" + "2e4141414142424242",
	}
	var wk []string
	for k := range witnesses {
		wk = append(wk, k)
	}
	sortStrings(wk)
	for _, k := range wk {
		raw("w-"+k, amlUnhex(witnesses[k]))
	}
	for b := 0; b < 256; b++ { // every 1-byte table
		raw(fmt.Sprintf("b1-%02x", b), []byte{byte(b)})
	}
	// every (opcode byte that takes a PkgLength | 5b-prefixed) x every second byte
	for _, op := range []byte{0x10, 0x11, 0x12, 0x14, 0xa0, 0xa2, 0x5b, 0x08, 0x2e, 0x2f, 0x5c, 0x5e, 0x0d} {
		for b := 0; b < 256; b++ {
			if !thorough && b%5 != 0 && b > 0x20 {
				continue
			}
			raw(fmt.Sprintf("b2-%02x%02x", op, b), []byte{op, byte(b)})
		}
	}
	// shipped tables: alone, and DSDT followed by SSDT in one tree
	for i, k := range shipIdx {
		cases = append(cases, c12Case{id: fmt.Sprintf("ship-%d", i), tables: []c12Input{{k, nil}}})
	}
	cases = append(cases, c12Case{id: "ship-dsdt-ssdt", tables: []c12Input{{shipIdx[0], nil}, {shipIdx[1], nil}}})
	// every truncation of the small shipped tables (sampled for the large one)
	for _, k := range shipIdx {
		L := len(bases[k].payload)
		step := 1
		if L > 1200 {
			step = 37
			if thorough {
				step = 5
			}
		} else if !thorough {
			step = 3
		}
		for cut := 0; cut < L; cut += step {
			cases = append(cases, c12Case{id: fmt.Sprintf("trunc-%d-%d", k, cut), tables: []c12Input{{k, []amlEdit{{kind: 't', off: cut}}}}})
		}
	}

	// histories on ONE Parser in which an earlier table is rejected at a given stage and further tables follow
	// (seeded change E: whatever a rejected table leaves in the Parser must not leak into the next parse)
	stageFail := map[string][]byte{
		"firstpass-trunc-scope":   {0x10, 0x0a, 0x5c, 0x5f, 0x53, 0x42, 0x5f, 0x08},                                  // Scope(\_SB_){ Name( <eof>
		"firstpass-nested-device": {0x5b, 0x82, 0x0f, 0x44, 0x45, 0x56, 0x30, 0x5b, 0x82, 0x08, 0x44, 0x45, 0x56, 0x31, 0x08, 0x41}, // Device{Device{Name(A<eof>
		"firstpass-bad-opcode":    {0x10, 0x06, 0x5c, 0x5f, 0x53, 0x42, 0x5f, 0xfe},
		"deferred-scope-deeper":   {0xa2, 0x09, 0x01, 0xa0, 0x02, 0x01, 0x5a, 0x5a, 0x5a, 0x5a},                     // While(One){If(One){} ZZZZ}
		"deferred-nested-if":      {0xa2, 0x0d, 0x01, 0xa0, 0x06, 0x01, 0xa0, 0x02, 0x01, 0x5a, 0x5a, 0x5a, 0x5a, 0x5a}, // While{If{If{}} ZZZZ Z}
		"deferred-method-while":   {0x14, 0x12, 0x4d, 0x30, 0x30, 0x30, 0x00, 0xa2, 0x0a, 0x01, 0xa0, 0x03, 0x01, 0xa3, 0x5a, 0x5a, 0x5a, 0x5a, 0xa3},
		"deferred-buffer-bad":     {0x08, 0x42, 0x55, 0x46, 0x30, 0x11, 0x05, 0x5a, 0x5a, 0x5a, 0x5a},                 // Name(BUF0, Buffer(ZZZZ){})
		"resolve-scope-missing":   {0x10, 0x06, 0x5c, 0x58, 0x58, 0x58, 0x58},                                           // Scope(\XXXX){}
		"relocate-missing":        {0x5b, 0x82, 0x0a, 0x5c, 0x2e, 0x59, 0x59, 0x59, 0x59, 0x44, 0x45, 0x56, 0x30},   // Device(\YYYY.DEV0){}
	}
	followUps := [][]byte{
		{}, // empty table
		{0x08, 0x46, 0x4f, 0x4f, 0x5f, 0x01},                                     // Name(FOO_, One)
		{0x10, 0x0c, 0x5c, 0x5f, 0x53, 0x42, 0x5f, 0x08, 0x42, 0x41, 0x52, 0x5f, 0x00}, // Scope(\_SB_){Name(BAR_, Zero)}
		{0x14, 0x09, 0x4d, 0x54, 0x48, 0x39, 0x00, 0xa2, 0x03, 0x01, 0xa3},       // Method(MTH9){While(One){Noop}}
	}
	var failBases []int
	var failNames []string
	for nm := range stageFail {
		failNames = append(failNames, nm)
	}
	sortStrings(failNames)
	for _, nm := range failNames {
		fb := addBase(stageFail[nm])
		failBases = append(failBases, fb)
		for fi, fu := range followUps {
			ub := addBase(fu)
			cases = append(cases, c12Case{id: fmt.Sprintf("hist-%s-%d", nm, fi), tables: []c12Input{{fb, nil}, {ub, nil}}, cont: true})
		}
		// two rejected tables in a row, then a good one
		cases = append(cases, c12Case{id: "hist2-" + nm, tables: []c12Input{{fb, nil}, {failBases[0], nil}, {addBase(followUps[1]), nil}}, cont: true})
	}

	// deferred-parsing opcodes nested inside deferred-parsing opcodes (seeded change G: a nested deferred block must
	// be parsed once; the oracle bounds the objects a table may allocate by its length).  Depths 2..14 are cheap
	// even when the work doubles per level; the larger depths rely on the runner's time/memory watchdog.
	{
		one := []byte{0x01}
		nestDepths := []int{2, 3, 4, 5, 6, 7, 8, 9, 10, 11, 12, 13, 14}
		whileN := func(n int, inner []byte) []byte { // While(One){ While(One){ ... inner } }
			b := inner
			for i := 0; i < n; i++ {
				b = c12Pkg([]byte{0xa2}, append(append([]byte{}, one...), b...))
			}
			return b
		}
		bufN := func(n int) []byte { // Buffer(Buffer(...Buffer(One){}...){}){}
			b := one
			for i := 0; i < n; i++ {
				b = c12Pkg([]byte{0x11}, b)
			}
			return b
		}
		name := func(seg string, v []byte) []byte { return append(append([]byte{0x08}, seg...), v...) }
		region := amlUnhex("5b80" + "52454730" + "000a000a10" + "5b810b" + "52454730" + "01" + "42414e4b" + "08") // OpRegion REG0; Field{BANK,8}
		bank := func(val []byte) []byte { // BankField(REG0, BANK, val, 1){FLD0, 8}
			body := append([]byte("REG0BANK"), val...)
			body = append(body, 0x01, 'F', 'L', 'D', '0', 0x08)
			return c12Pkg([]byte{0x5b, 0x87}, body)
		}
		mixed := func(n int) []byte {
			b := []byte{0xa3}
			for i := 0; i < n; i++ {
				switch i % 3 {
				case 0:
					b = c12Pkg([]byte{0xa2}, append([]byte{0x01}, b...))
				case 1: // While(Buffer(Buffer(One){}){} ) { Name(Bnnn, Buffer(One){}) ... }
					body := append(bufN(2), name(fmt.Sprintf("B%03X", i), bufN(1))...)
					b = c12Pkg([]byte{0xa2}, append(body, b...))
				default:
					b = c12Pkg([]byte{0xa2}, append(append([]byte{0x01}, bank(bufN(1))...), b...))
				}
			}
			return append(append([]byte{}, region...), b...)
		}
		for _, n := range nestDepths {
			raw(fmt.Sprintf("nest-while-%d", n), whileN(n, nil))
			raw(fmt.Sprintf("nest-while-method-%d", n), c12Pkg([]byte{0x14}, append([]byte("MTH0\x00"), whileN(n, []byte{0xa3})...)))
			raw(fmt.Sprintf("nest-buffer-%d", n), name("BUF0", bufN(n)))
			raw(fmt.Sprintf("nest-while-buffer-%d", n), whileN(1, name("BUF0", bufN(n-1))))
			raw(fmt.Sprintf("nest-whilepred-buffer-%d", n), c12Pkg([]byte{0xa2}, bufN(n-1)))
			raw(fmt.Sprintf("nest-while-bank-%d", n), append(append([]byte{}, region...), whileN(n-1, bank(one))...))
			raw(fmt.Sprintf("nest-bank-buffer-%d", n), append(append([]byte{}, region...), bank(bufN(n-1))...))
			raw(fmt.Sprintf("nest-mixed-%d", n), mixed(n))
		}
		for _, n := range []int{16, 20, 28, 40, 64} {
			raw(fmt.Sprintf("nest-while-%d", n), whileN(n, nil))
			raw(fmt.Sprintf("nest-buffer-%d", n), name("BUF0", bufN(n)))
		}
		raw("nest-mixed-18", mixed(18))
	}

	// two-table histories on ONE Parser (seeded change H): table 1 is a truncated / corrupted declaration of a named
	// object and is rejected; table 2 refers to that name from first-pass code, from deferred blocks and as a call
	{
		type decl struct {
			kind string
			op   []byte // opcode bytes
			pkg  bool   // a PkgLength follows the opcode
			body []byte // everything after the PkgLength
			cuts []int  // argument boundaries inside body
		}
		foof := []byte("FOOF")
		cat := func(bs ...[]byte) []byte {
			var o []byte
			for _, b := range bs {
				o = append(o, b...)
			}
			return o
		}
		decls := []decl{
			{"method", []byte{0x14}, true, cat(foof, []byte{0x02, 0xa4, 0x68}), []int{0, 2, 4, 5, 6}},
			{"method-serial", []byte{0x14}, true, cat(foof, []byte{0x0b, 0xa3}), []int{4, 5}},
			{"device", []byte{0x5b, 0x82}, true, cat(foof, []byte{0x08, 'X', 'X', 'X', 'X', 0x00}), []int{0, 2, 4, 5, 9}},
			{"processor", []byte{0x5b, 0x83}, true, cat(foof, []byte{0x01, 0x10, 0x04, 0x00, 0x00, 0x06, 0xa3}), []int{0, 4, 5, 7, 9, 10}},
			{"powerres", []byte{0x5b, 0x84}, true, cat(foof, []byte{0x01, 0x02, 0x00, 0xa3}), []int{0, 4, 5, 6, 7}},
			{"thermalzone", []byte{0x5b, 0x85}, true, cat(foof, []byte{0x08, 'X', 'X', 'X', 'X', 0x00}), []int{0, 3, 4, 5}},
			{"opregion", []byte{0x5b, 0x80}, false, cat(foof, []byte{0x00, 0x0a, 0x00, 0x0a, 0x10}), []int{0, 2, 4, 5, 6, 7, 8}},
			{"field", []byte{0x5b, 0x81}, true, cat([]byte("REG0"), []byte{0x01}, foof, []byte{0x08}, []byte("FLD1"), []byte{0x08}), []int{0, 4, 5, 7, 9, 10, 14}},
			{"indexfield", []byte{0x5b, 0x86}, true, cat([]byte("REG0BANK"), []byte{0x01}, foof, []byte{0x08}), []int{4, 8, 9, 13}},
			{"bankfield", []byte{0x5b, 0x87}, true, cat([]byte("REG0BANK"), []byte{0x0a, 0x01, 0x01}, foof, []byte{0x08}), []int{8, 9, 10, 11, 15}},
			{"name", []byte{0x08}, false, cat(foof, []byte{0x0c, 1, 2, 3, 4}), []int{0, 2, 4, 5, 7}},
			{"alias", []byte{0x06}, false, cat([]byte("_SB_"), foof), []int{4, 6}},
			{"mutex", []byte{0x5b, 0x01}, false, cat(foof, []byte{0x00}), []int{2, 4}},
			{"event", []byte{0x5b, 0x02}, false, foof, []int{2}},
			{"createfield", []byte{0x8a}, false, cat([]byte("BUF0"), []byte{0x00}, foof), []int{4, 5, 7}},
		}
		refs := [][]byte{
			cat([]byte{0xa2, 0x05}, foof),                                      // While (FOOF) {}
			cat([]byte{0xa2, 0x09, 0x01}, foof, []byte{0x01, 0x0a, 0x02}, []byte{0xa3}), // While (One) { FOOF (One, 2)  Noop }
			foof,                                                                // FOOF at the top level (first pass)
			cat(foof, []byte{0x01, 0x0a, 0x02}),                                // FOOF One 2 at the top level
			cat([]byte{0xa2, 0x06, 0x01}, foof),                                // While (One) { FOOF }
			cat([]byte{0xa2, 0x07}, foof, []byte{0x01, 0x01}),                  // While (FOOF One One) {}
			cat([]byte{0x70}, foof, []byte{0x60}),                              // Store (FOOF, Local0)
			cat([]byte{0xa0, 0x06}, foof, []byte{0xa3}),                        // If (FOOF) { Noop }
			cat([]byte{0x14, 0x0c}, []byte("MTH9"), []byte{0x00, 0x70}, foof, []byte{0x60}), // Method (MTH9) { Store (FOOF, Local0) }
			cat([]byte{0x14, 0x10}, []byte("MTH9"), []byte{0x00, 0xa2, 0x09, 0x01}, foof, []byte{0x01, 0x0a, 0x02, 0xa3}), // Method { While (One) { FOOF (One, 2) } }
			cat([]byte{0x08}, []byte("BUF9"), []byte{0x11, 0x05}, foof),       // Name (BUF9, Buffer (FOOF) {})
			cat(amlUnhex("5b80"+"52454739"+"000a000a10"), []byte{0x5b, 0x87, 0x13}, []byte("REG9BNK9"), foof, []byte{0x01}, []byte("FLD9"), []byte{0x08}), // BankField (REG9, BNK9, FOOF, 1) {FLD9, 8}
			cat([]byte{0x10, 0x06, 0x5c}, foof),                                // Scope (\FOOF) {}
			cat([]byte{0x5b, 0x82, 0x0a, 0x2e}, foof, []byte("DEV9")),          // Device (FOOF.DEV9) {}
		}
		refBases := make([]int, len(refs))
		for i, rf := range refs {
			refBases[i] = addBase(rf)
		}
		for _, dc := range decls {
			var firsts [][]byte
			var firstIds []string
			add := func(tag string, b []byte) {
				firsts = append(firsts, b)
				firstIds = append(firstIds, tag)
			}
			for _, c := range dc.cuts {
				if dc.pkg {
					add(fmt.Sprintf("pkgend-%d", c), cat(dc.op, c12EncPkgLen(uint32(c+1), 1), dc.body[:c]))               // the package and the table end at the cut
					add(fmt.Sprintf("pkgshort-%d", c), cat(dc.op, c12EncPkgLen(uint32(c+1), 1), dc.body))                  // PkgLength corrupted: package ends at the cut, bytes go on
					add(fmt.Sprintf("eof-%d", c), cat(dc.op, c12EncPkgLen(uint32(len(dc.body)+1), 1), dc.body[:c]))       // table truncated inside the package
					add(fmt.Sprintf("scope-%d", c), c12Pkg([]byte{0x10}, cat([]byte("\\"), []byte{0x00}, dc.op, c12EncPkgLen(uint32(len(dc.body)+1), 1), dc.body[:c]))) // enclosing Scope(\) ends at the cut
				} else {
					add(fmt.Sprintf("eof-%d", c), cat(dc.op, dc.body[:c]))
					add(fmt.Sprintf("scope-%d", c), c12Pkg([]byte{0x10}, cat([]byte("\\"), []byte{0x00}, dc.op, dc.body[:c])))
					add(fmt.Sprintf("method-%d", c), c12Pkg([]byte{0x14}, cat([]byte("MTH8"), []byte{0x00}, dc.op, dc.body[:c])))
				}
			}
			for fi, fb := range firsts {
				b1 := addBase(fb)
				id := fmt.Sprintf("decl-%s-%s", dc.kind, firstIds[fi])
				// all references one after the other on the same Parser
				tabs := []c12Input{{b1, nil}}
				for _, rb := range refBases {
					tabs = append(tabs, c12Input{rb, nil})
				}
				cases = append(cases, c12Case{id: id + "-all", tables: tabs, cont: true})
				for ri, rb := range refBases {
					if !thorough && ri >= 4 && ri != 4+fi%(len(refBases)-4) {
						continue
					}
					cases = append(cases, c12Case{id: fmt.Sprintf("%s-r%d", id, ri), tables: []c12Input{{b1, nil}, {rb, nil}}, cont: true})
				}
			}
		}
	}

	// ---- seeded cases
	progBases := []int{}
	for i := 0; i < n; i++ {
		r := rng.fork()
		id := fmt.Sprintf("%d", i)
		switch k := r.intn(20); {
		case k < 3: // uniform random short string
			b := make([]byte, r.intn(25))
			for j := range b {
				b[j] = byte(r.next())
			}
			raw(id, b)
		case k < 6: // opcode-biased random string
			b := make([]byte, r.intn(40))
			for j := range b {
				b[j] = c12Byte(r)
			}
			raw(id, b)
		case k < 9: // generated program, unmodified (sometimes as a second table after a shipped one)
			pb := addBase(c12GenProg(r))
			progBases = append(progBases, pb)
			if r.chance(10) {
				cases = append(cases, c12Case{id: id, tables: []c12Input{{shipIdx[1+r.intn(2)], nil}, {pb, nil}}})
			} else {
				cases = append(cases, c12Case{id: id, tables: []c12Input{{pb, nil}}})
			}
		case k < 15: // mutated generated program
			var pb int
			if len(progBases) > 0 && r.chance(50) {
				pb = progBases[r.intn(len(progBases))]
			} else {
				pb = addBase(c12GenProg(r))
				progBases = append(progBases, pb)
			}
			cases = append(cases, c12Case{id: id, tables: []c12Input{{pb, c12Mutate(r, bases, pb)}}})
		case k < 17: // mutated small shipped table
			pb := shipIdx[1+r.intn(2)]
			cases = append(cases, c12Case{id: id, tables: []c12Input{{pb, c12Mutate(r, bases, pb)}}})
		case k < 19: // history on one Parser: a (probably rejected) table, then one or two more tables
			var first c12Input
			switch r.intn(3) {
			case 0:
				first = c12Input{failBases[r.intn(len(failBases))], nil}
			case 1:
				fb := failBases[r.intn(len(failBases))]
				first = c12Input{fb, c12Mutate(r, bases, fb)}
			default:
				pb := addBase(c12GenProg(r))
				progBases = append(progBases, pb)
				first = c12Input{pb, c12Mutate(r, bases, pb)}
			}
			tabs := []c12Input{first}
			for more := 1 + r.intn(2); more > 0; more-- {
				if r.chance(40) {
					tabs = append(tabs, c12Input{addBase(followUps[r.intn(len(followUps))]), nil})
				} else if r.chance(50) {
					fb := failBases[r.intn(len(failBases))]
					tabs = append(tabs, c12Input{fb, nil})
				} else {
					pb := addBase(c12GenProg(r))
					progBases = append(progBases, pb)
					tabs = append(tabs, c12Input{pb, nil})
				}
			}
			cases = append(cases, c12Case{id: id, tables: tabs, cont: true})
		default: // mutated DSDT (large: fewer of them)
			cases = append(cases, c12Case{id: id, tables: []c12Input{{shipIdx[0], c12Mutate(r, bases, shipIdx[0])}}})
		}
	}

	// ---- run everything in child processes
	items := make([]*amlItem, len(cases))
	for i, c := range cases {
		it := &amlItem{id: c.id, contErr: c.cont}
		for _, in := range c.tables {
			it.tables = append(it.tables, amlApplyEdits(bases[in.base].payload, in.edits))
		}
		items[i] = it
	}
	amlRunItems(items, 20*time.Second)
	for i, c := range cases {
		out.printf("case %s\n", c.id)
		for ti, o := range items[i].obs {
			if ti >= len(c.tables) {
				break
			}
			out.printf("P %d %d %s | %s\n", ti+1, c.tables[ti].base, amlEditsString(c.tables[ti].edits), o)
		}
		if len(items[i].obs) == 0 {
			out.printf("P 1 %d %s | fatal\n", c.tables[0].base, amlEditsString(c.tables[0].edits))
		}
	}
}

// c12Pkg is op ++ PkgLength ++ body with the shortest PkgLength encoding that fits
func c12Pkg(op []byte, body []byte) []byte {
	w := 1
	for ; w < 4; w++ {
		max := uint32(0x3f)
		if w > 1 {
			max = uint32(1)<<(4+8*uint(w-1)) - 1
		}
		if uint32(len(body)+w) <= max {
			break
		}
	}
	out := append([]byte{}, op...)
	out = append(out, c12EncPkgLen(uint32(len(body)+w), w)...)
	return append(out, body...)
}

func c12Repeat(s string, n int) string {
	out := ""
	for i := 0; i < n; i++ {
		out += s
	}
	return out
}

