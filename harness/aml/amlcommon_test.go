//go:build verif

package aml

// Shared by the C11 and C12 harnesses (package aml, injected with go test -overlay):
// table construction, canonical tree dump, Go-side well-formedness / slice checks (cross-checked by the
// Lean oracle whenever the rows are printed), edit scripts, the child-process runner that turns
// stack overflows / hangs / fatal faults into observations, and the generated-facts printer.

import (
	"bufio"
	"bytes"
	"encoding/hex"
	"fmt"
	"io"
	"io/ioutil"
	"os"
	"os/exec"
	"path/filepath"
	"runtime"
	"runtime/debug"
	"strconv"
	"strings"
	"sync"
	"testing"
	"time"
	"unsafe"

	"github.com/ProjectSerenity/firefly/kernel/device/acpi/table"
)

// ------------------------------------------------------------------ tables

func amlHdrLen() int { return int(unsafe.Sizeof(table.SDTHeader{})) }

// amlStream builds header+payload exactly like parser_fuzz.go does.
func amlStream(payload []byte) []byte {
	hl := amlHdrLen()
	stream := make([]byte, hl+len(payload))
	copy(stream[hl:], payload)
	h := (*table.SDTHeader)(unsafe.Pointer(&stream[0]))
	h.Signature = [4]byte{'D', 'S', 'D', 'T'}
	h.Length = uint32(len(stream))
	h.Revision = 2
	return stream
}

func amlHex(b []byte) string {
	if len(b) == 0 {
		return "-"
	}
	return hex.EncodeToString(b)
}

func amlUnhex(s string) []byte {
	if s == "-" {
		return nil
	}
	b, err := hex.DecodeString(s)
	if err != nil {
		panic(err)
	}
	return b
}

func amlShipped() (names []string, payloads [][]byte) {
	_, f, _, _ := runtime.Caller(0)
	dir := filepath.Dir(f)
	if wd, err := os.Getwd(); err == nil {
		if _, err := os.Stat(filepath.Join(wd, "../table/tabletest")); err == nil {
			dir = wd
		}
	}
	for _, n := range []string{"DSDT.aml", "SSDT.aml", "parser-testsuite-DSDT.aml"} {
		data, err := ioutil.ReadFile(filepath.Join(dir, "../table/tabletest", n))
		if err != nil {
			panic(err)
		}
		names = append(names, n)
		payloads = append(payloads, data[amlHdrLen():])
	}
	return
}

// ------------------------------------------------------------------ edit scripts
//
// An input is (base payload, edits); edits are applied left to right:
//   t<n>          truncate to n bytes
//   x<off>:<hh>   xor byte at off with hh
//   s<off>:<hh>   set byte at off to hh
//   i<off>:<hex>  insert bytes before off
//   d<off>:<n>    delete n bytes at off
// Offsets/lengths outside the current string are clamped (twin: Firefly.Replay.AmlTrace.applyEdit).

type amlEdit struct {
	kind byte
	off  int
	n    int
	data []byte
}

func (e amlEdit) String() string {
	switch e.kind {
	case 't':
		return fmt.Sprintf("t%d", e.off)
	case 'x', 's':
		return fmt.Sprintf("%c%d:%02x", e.kind, e.off, e.n&0xff)
	case 'i':
		return fmt.Sprintf("i%d:%s", e.off, amlHex(e.data))
	case 'd':
		return fmt.Sprintf("d%d:%d", e.off, e.n)
	}
	return "?"
}

func amlEditsString(es []amlEdit) string {
	if len(es) == 0 {
		return "-"
	}
	parts := make([]string, len(es))
	for i, e := range es {
		parts[i] = e.String()
	}
	return strings.Join(parts, ",")
}

func amlApplyEdits(base []byte, es []amlEdit) []byte {
	b := append([]byte(nil), base...)
	for _, e := range es {
		off := e.off
		if off > len(b) {
			off = len(b)
		}
		switch e.kind {
		case 't':
			b = b[:off]
		case 'x':
			if off < len(b) {
				b[off] ^= byte(e.n)
			}
		case 's':
			if off < len(b) {
				b[off] = byte(e.n)
			}
		case 'i':
			nb := make([]byte, 0, len(b)+len(e.data))
			nb = append(nb, b[:off]...)
			nb = append(nb, e.data...)
			nb = append(nb, b[off:]...)
			b = nb
		case 'd':
			n := e.n
			if off+n > len(b) {
				n = len(b) - off
			}
			b = append(b[:off:off], b[off+n:]...)
		}
	}
	return b
}

// ------------------------------------------------------------------ canonical dump

func amlIdx(i uint32) string {
	if i == InvalidIndex {
		return "-"
	}
	return strconv.FormatUint(uint64(i), 10)
}

// amlValStr prints Object.value: n (nil interface) | u<dec> | z (slice with nil data pointer) |
// b<data-base>:<len> | i<index> | f<9 ints> | ? (anything else)
func amlValStr(v interface{}, bases []uintptr, tlens []int) string {
	switch x := v.(type) {
	case nil:
		return "n"
	case uint64:
		return "u" + strconv.FormatUint(x, 10)
	case uint32:
		return "i" + amlIdx(x)
	case []byte:
		hdr := (*[3]uintptr)(unsafe.Pointer(&x))
		if hdr[0] == 0 {
			return "z" + strconv.Itoa(len(x))
		}
		cur := len(bases) - 1
		for k := cur - 1; k >= 0; k-- { // a value left by an earlier table of the same session
			if hdr[0] >= bases[k] && hdr[0] <= bases[k]+uintptr(tlens[k]) && !(hdr[0] >= bases[cur] && hdr[0] <= bases[cur]+uintptr(tlens[cur])) {
				return "B" + strconv.Itoa(k) + ":" + strconv.FormatInt(int64(hdr[0])-int64(bases[k]), 10) + ":" + strconv.Itoa(len(x))
			}
		}
		return "b" + strconv.FormatInt(int64(hdr[0])-int64(bases[cur]), 10) + ":" + strconv.Itoa(len(x))
	case *fieldElement:
		return fmt.Sprintf("f%d:%d:%d:%d:%d:%d:%d:%s:%s", x.offset, x.width, x.accessLength, x.accessType,
			x.accessAttrib, x.lockType, x.updateType, amlIdx(x.connectionIndex), amlIdx(x.fieldIndex))
	}
	return "?"
}

func amlRow(o *Object, bases []uintptr, tlens []int) string {
	return fmt.Sprintf("%d,%d,%d,%02x%02x%02x%02x,%s,%s,%s,%s,%s,%d,%d,%s", o.opcode, o.infoIndex, o.tableHandle,
		o.name[0], o.name[1], o.name[2], o.name[3], amlIdx(o.parentIndex), amlIdx(o.prevSiblingIndex),
		amlIdx(o.nextSiblingIndex), amlIdx(o.firstArgIndex), amlIdx(o.lastArgIndex), o.amlOffset, o.pkgEnd,
		amlValStr(o.value, bases, tlens))
}

func amlFNV(h uint64, s string) uint64 {
	for i := 0; i < len(s); i++ {
		h ^= uint64(s[i])
		h *= 0x100000001b3
	}
	return h
}

// amlSliceBad counts []byte values of live objects that do not lie inside [base, base+tlen).
// bases/tlens list every table parsed into this tree so far (values of earlier tables stay).
func amlSliceBad(tree *ObjectTree, bases []uintptr, tlens []int) int {
	bad := 0
	for _, o := range tree.objPool {
		if o.opcode == pOpIntFreedObject {
			continue
		}
		x, ok := o.value.([]byte)
		if !ok {
			continue
		}
		hdr := (*[3]uintptr)(unsafe.Pointer(&x))
		if hdr[0] == 0 {
			if len(x) != 0 {
				bad++
			}
			continue
		}
		in := false
		for k, b := range bases {
			if hdr[0] >= b && hdr[0]+uintptr(len(x)) <= b+uintptr(tlens[k]) {
				in = true
			}
		}
		if !in {
			bad++
		}
	}
	return bad
}

// amlWF is the Go twin of Firefly.AmlSpec.wfCheck: first failing clause or "ok".
func amlWF(tree *ObjectTree) string {
	pool := tree.objPool
	n := uint32(len(pool))
	if n == 0 {
		return "ok"
	}
	live := func(i uint32) bool { return i < n && pool[i].opcode != pOpIntFreedObject }
	if !live(0) || pool[0].parentIndex != InvalidIndex {
		return "root"
	}
	// free list: acyclic, all freed, covers every freed slot
	freed := make([]bool, n)
	cnt := uint32(0)
	for i := tree.freeListHeadIndex; i != InvalidIndex; i = pool[i].nextSiblingIndex {
		if i >= n || pool[i].opcode != pOpIntFreedObject || freed[i] {
			return "freelist"
		}
		freed[i] = true
		cnt++
	}
	for i := uint32(0); i < n; i++ {
		if pool[i].opcode == pOpIntFreedObject && !freed[i] {
			return "freelist"
		}
		if pool[i].index != i {
			return "index"
		}
	}
	// child lists
	childCount := make([]uint32, n)
	for i := uint32(0); i < n; i++ {
		o := pool[i]
		if !live(i) {
			continue
		}
		if (o.firstArgIndex == InvalidIndex) != (o.lastArgIndex == InvalidIndex) {
			return "list"
		}
		prev := InvalidIndex
		steps := uint32(0)
		for c := o.firstArgIndex; c != InvalidIndex; c = pool[c].nextSiblingIndex {
			if !live(c) {
				return "dangling"
			}
			if steps > n {
				return "cycle"
			}
			steps++
			if pool[c].parentIndex != i || pool[c].prevSiblingIndex != prev {
				return "list"
			}
			prev = c
		}
		if prev != o.lastArgIndex {
			return "list"
		}
		childCount[i] = steps
	}
	// every live node with a parent is in that parent's list; parent chains are acyclic
	hasParent := make([]uint32, n)
	for i := uint32(0); i < n; i++ {
		if !live(i) {
			continue
		}
		o := pool[i]
		if o.parentIndex == InvalidIndex {
			if o.prevSiblingIndex != InvalidIndex || o.nextSiblingIndex != InvalidIndex {
				return "orphan-links"
			}
			continue
		}
		if !live(o.parentIndex) {
			return "dangling"
		}
		hasParent[o.parentIndex]++
	}
	for i := uint32(0); i < n; i++ {
		if live(i) && hasParent[i] != childCount[i] {
			return "parent"
		}
	}
	for i := uint32(0); i < n; i++ {
		if !live(i) {
			continue
		}
		steps := uint32(0)
		for a := pool[i].parentIndex; a != InvalidIndex; a = pool[a].parentIndex {
			if steps > n {
				return "cycle"
			}
			steps++
		}
	}
	// index values refer to live objects
	for i := uint32(0); i < n; i++ {
		if !live(i) {
			continue
		}
		if x, ok := pool[i].value.(uint32); ok && !live(x) {
			return "ref"
		}
	}
	return "ok"
}

// amlOrphans counts live, parentless objects other than the root (leaked on error paths).
func amlOrphans(tree *ObjectTree) int {
	c := 0
	for i, o := range tree.objPool {
		if i != 0 && o.opcode != pOpIntFreedObject && o.parentIndex == InvalidIndex {
			c++
		}
	}
	return c
}

// amlStackTop returns the innermost package frames of the current (panicking) stack, for debugging.
func amlStackTop() string {
	var out []string
	for _, l := range strings.Split(string(debug.Stack()), "\n") {
		if strings.Contains(l, "/aml/") && !strings.Contains(l, "zz_verif") && !strings.Contains(l, "amlcommon") {
			out = append(out, strings.TrimSpace(l))
		}
		if len(out) >= 3 {
			break
		}
	}
	return strings.Join(out, " <- ")
}

type amlSession struct {
	tree    *ObjectTree
	parser  *Parser
	streams [][]byte
	bases   []uintptr
	tlens   []int
}

func amlNewSession() *amlSession {
	tree := NewObjectTree()
	tree.CreateDefaultScopes(0)
	var w io.Writer = ioutil.Discard
	if os.Getenv("VERIF_AML_DEBUG") != "" {
		w = os.Stderr
	}
	return &amlSession{tree: tree, parser: NewParser(w, tree)}
}

var amlRowLimit = verifEnvInt("VERIF_AML_ROWS", 160)

// observe parses one table into the session's tree and returns the canonical observation:
//   <outcome> <print> <pool> <free> <orphans> <slicebad> <wf> <hash> [rows...]
func (s *amlSession) observe(handle uint8, payload []byte) string {
	stream := amlStream(payload)
	s.streams = append(s.streams, stream)
	base := uintptr(unsafe.Pointer(&stream[0]))
	s.bases = append(s.bases, base)
	s.tlens = append(s.tlens, len(stream))
	outcome := "ok"
	func() {
		defer func() {
			if r := recover(); r != nil {
				outcome = "panic"
				if os.Getenv("VERIF_AML_DEBUG") != "" {
					fmt.Fprintf(os.Stderr, "DEBUG parse panic: %v\n%s\n", r, amlStackTop())
				}
			}
		}()
		if err := s.parser.ParseAML(handle, "DSDT", (*table.SDTHeader)(unsafe.Pointer(&stream[0]))); err != nil {
			outcome = "err"
		}
	}()
	if os.Getenv("VERIF_AML_PRINT") != "" {
		s.tree.PrettyPrint(os.Stderr)
	}
	return amlObservation(s.tree, outcome, s.bases, s.tlens)
}

func amlObservation(tree *ObjectTree, outcome string, bases []uintptr, tlens []int) string {
	bad := amlSliceBad(tree, bases, tlens)
	wf := "ok"
	func() {
		defer func() {
			if r := recover(); r != nil {
				wf = "walk-panic"
			}
		}()
		wf = amlWF(tree)
	}()
	pr := "skip"
	if bad == 0 && wf == "ok" {
		pr = "ok"
		func() {
			defer func() {
				if r := recover(); r != nil {
					pr = "panic"
					if os.Getenv("VERIF_AML_DEBUG") != "" {
						fmt.Fprintf(os.Stderr, "DEBUG print panic: %v\n%s\n", r, amlStackTop())
					}
				}
			}()
			tree.PrettyPrint(ioutil.Discard)
		}()
	}
	h := uint64(0xcbf29ce484222325)
	rows := make([]string, len(tree.objPool))
	for i, o := range tree.objPool {
		rows[i] = amlRow(o, bases, tlens)
		h = amlFNV(h, rows[i])
		h = amlFNV(h, " ")
	}
	var sb strings.Builder
	fmt.Fprintf(&sb, "%s %s %d %s %d %d %s %016x", outcome, pr, len(tree.objPool), amlIdx(tree.freeListHeadIndex),
		amlOrphans(tree), bad, wf, h)
	if len(rows) <= amlRowLimit {
		for _, r := range rows {
			sb.WriteByte(' ')
			sb.WriteString(r)
		}
	}
	return sb.String()
}

// ------------------------------------------------------------------ child-process runner

// One item = one case = a fresh tree and 1..n tables parsed into it in order.
type amlItem struct {
	id     string
	tables [][]byte
	// contErr: keep parsing the following tables with the same Parser after one was rejected with the
	// parse error (the default stops at the first table that is not accepted)
	contErr bool
	// filled by the runner: one observation per table actually parsed
	obs []string
}

const (
	amlChildEnv   = "VERIF_AML_CHILD"
	amlChildBatch = "VERIF_AML_BATCH"
)

// amlChildMain runs inside the re-executed test binary: parses every case of the batch file and
// prints "S <case> <table>" before and "O <case> <table> <obs>" after each table.
func amlChildMain() {
	debug.SetMaxStack(64 << 20)
	debug.SetPanicOnFault(true)
	go func() { // memory watchdog: a runaway allocation is an observation, not an OOM of the host
		var ms runtime.MemStats
		for {
			time.Sleep(200 * time.Millisecond)
			runtime.ReadMemStats(&ms)
			if ms.Sys > 3<<30 {
				fmt.Fprintln(os.Stderr, "verif: memory limit exceeded")
				os.Exit(97)
			}
		}
	}()
	ppid := os.Getppid()
	go func() { // the runner that watches this child is gone (killed check): do not outlive it
		for {
			time.Sleep(500 * time.Millisecond)
			if os.Getppid() != ppid {
				os.Exit(98)
			}
		}
	}()
	f, err := os.Open(os.Getenv(amlChildBatch))
	if err != nil {
		panic(err)
	}
	defer f.Close()
	sc := bufio.NewScanner(f)
	sc.Buffer(make([]byte, 1<<20), 64<<20)
	out := os.Stdout
	for sc.Scan() {
		parts := strings.Split(sc.Text(), " ")
		ci := parts[0]
		cont := strings.HasPrefix(ci, "c")
		ci = strings.TrimPrefix(ci, "c")
		sess := amlNewSession()
		for ti, hx := range parts[1:] {
			fmt.Fprintf(out, "S %s %d\n", ci, ti)
			o := sess.observe(uint8(ti+1), amlUnhex(hx))
			fmt.Fprintf(out, "O %s %d %s\n", ci, ti, o)
			if !strings.HasPrefix(o, "ok ") && !(cont && strings.HasPrefix(o, "err ")) {
				break
			}
		}
	}
	fmt.Fprintf(out, "D\n")
}

var amlBatchSeq struct {
	sync.Mutex
	n int
}

// amlRunChild runs items[from:] in one child; returns index of the first item NOT completed
// (len(items) if all done) and, if the child died, the crash kind for that item.
func amlRunChild(items []*amlItem, from int, perInput time.Duration) (next int, crash string) {
	amlBatchSeq.Lock()
	amlBatchSeq.n++
	seq := amlBatchSeq.n
	amlBatchSeq.Unlock()
	dir := os.Getenv("VERIF_BUILD")
	if dir == "" {
		dir = os.TempDir()
	}
	bpath := filepath.Join(dir, fmt.Sprintf("aml-batch-%d-%d.txt", os.Getpid(), seq))
	var bb bytes.Buffer
	for i := from; i < len(items); i++ {
		if items[i].contErr {
			bb.WriteByte('c')
		}
		fmt.Fprintf(&bb, "%d", i)
		for _, t := range items[i].tables {
			bb.WriteByte(' ')
			bb.WriteString(amlHex(t))
		}
		bb.WriteByte('\n')
	}
	if err := ioutil.WriteFile(bpath, bb.Bytes(), 0644); err != nil {
		panic(err)
	}
	defer os.Remove(bpath)

	cmd := exec.Command(os.Args[0], "-test.run", "^TestVerifAmlChild$", "-test.count=1", "-test.timeout", "0")
	cmd.Env = append(os.Environ(), amlChildEnv+"=1", amlChildBatch+"="+bpath, "GOMEMLIMIT=2GiB")
	stdout, _ := cmd.StdoutPipe()
	var stderr bytes.Buffer
	cmd.Stderr = &stderr
	if err := cmd.Start(); err != nil {
		panic(err)
	}
	lines := make(chan string, 1024)
	go func() {
		rd := bufio.NewReaderSize(stdout, 1<<20)
		for {
			l, err := rd.ReadString('\n')
			if len(l) > 0 {
				lines <- strings.TrimRight(l, "\n")
			}
			if err != nil {
				break
			}
		}
		close(lines)
	}()
	cur := -1 // item whose table is being parsed
	done := false
	timedOut := false
	timer := time.NewTimer(perInput)
loop:
	for {
		select {
		case l, ok := <-lines:
			if !ok {
				break loop
			}
			if !timer.Stop() {
				select {
				case <-timer.C:
				default:
				}
			}
			timer.Reset(perInput)
			switch {
			case strings.HasPrefix(l, "S "):
				f := strings.SplitN(l, " ", 3)
				cur, _ = strconv.Atoi(f[1])
			case strings.HasPrefix(l, "O "):
				f := strings.SplitN(l, " ", 4)
				ci, _ := strconv.Atoi(f[1])
				items[ci].obs = append(items[ci].obs, f[3])
				cur = -1
				next = ci + 1
			case l == "D":
				done = true
			}
		case <-timer.C:
			timedOut = true
			_ = cmd.Process.Kill()
			break loop
		}
	}
	if timedOut {
		for range lines {
		}
	}
	_ = cmd.Wait()
	if done {
		return len(items), ""
	}
	// the child died (or was killed) while parsing item `cur`
	if cur < 0 {
		cur = next
		if cur < from {
			cur = from
		}
	}
	es := stderr.String()
	switch {
	case timedOut:
		crash = "timeout"
	case strings.Contains(es, "stack overflow") || strings.Contains(es, "goroutine stack exceeds"):
		crash = "overflow"
	case strings.Contains(es, "memory limit exceeded"):
		crash = "memory"
	default:
		crash = "fatal"
	}
	return cur, crash
}

// amlRunItems fills items[i].obs for every item, running them in child processes (several in
// parallel); an item that kills its child gets the crash kind as its (last) observation, after the
// kind was confirmed by re-running that item alone.
func amlRunItems(items []*amlItem, perInput time.Duration) {
	workers := runtime.NumCPU() / 2
	if workers < 1 {
		workers = 1
	}
	if workers > 8 {
		workers = 8
	}
	chunk := 2000
	if len(items) < chunk*workers {
		chunk = len(items)/workers + 1
	}
	var wg sync.WaitGroup
	sem := make(chan struct{}, workers)
	for lo := 0; lo < len(items); lo += chunk {
		hi := lo + chunk
		if hi > len(items) {
			hi = len(items)
		}
		part := items[lo:hi]
		wg.Add(1)
		sem <- struct{}{}
		go func() {
			defer wg.Done()
			defer func() { <-sem }()
			from := 0
			for from < len(part) {
				next, crash := amlRunChild(part, from, perInput)
				if crash == "" {
					break
				}
				// confirm alone
				it := part[next]
				solo := &amlItem{id: it.id, tables: it.tables, contErr: it.contErr}
				n2, crash2 := amlRunChild([]*amlItem{solo}, 0, perInput)
				if crash2 == "" && n2 == 1 {
					// did not reproduce alone: report as flaky with the batch's kind
					it.obs = append(solo.obs[:0:0], solo.obs...)
					it.obs = append(it.obs, "flaky-"+crash)
				} else {
					it.obs = append(it.obs[:0:0], solo.obs...)
					it.obs = append(it.obs, crash2)
				}
				from = next + 1
			}
		}()
	}
	wg.Wait()
}

// ------------------------------------------------------------------ generated facts

func amlPrintFacts(out io.Writer, ns string) {
	p := func(format string, a ...interface{}) { fmt.Fprintf(out, format, a...) }
	p("-- GENERATED by ./check from /repo (TestVerifFacts%s); do not edit.\n", ns)
	p("namespace Firefly.Gen.%s\n", ns)
	p("def headerLen : Nat := %d\n", amlHdrLen())
	p("def amlNameLen : Nat := %d\n", amlNameLen)
	p("def maxResolvePasses : Nat := %d\n", maxResolvePasses)
	p("def invalidIndex : Nat := %d\n", uint64(InvalidIndex))
	p("def badOpcode : Nat := %d\n", badOpcode)
	p("def extOpPrefix : Nat := %d\n", extOpPrefix)
	p("def flagNamed : Nat := %d\ndef flagConstant : Nat := %d\ndef flagReference : Nat := %d\ndef flagCreate : Nat := %d\n", pOpFlagNamed, pOpFlagConstant, pOpFlagReference, pOpFlagCreate)
	p("def flagExecutable : Nat := %d\ndef flagScoped : Nat := %d\ndef flagDeferParsing : Nat := %d\n", pOpFlagExecutable, pOpFlagScoped, pOpFlagDeferParsing)
	{ // what Parser.init leaves of a Parser that was used before (a rejected table leaves its stacks behind)
		tree := NewObjectTree()
		tree.CreateDefaultScopes(0)
		ps := NewParser(ioutil.Discard, tree)
		ps.scopeStack = []uint32{1, 2, 3}
		ps.pkgEndStack = []uint32{7, 8}
		ps.resolvePasses, ps.mergedScopes, ps.relocatedObjects = 9, 9, 9
		ps.mode = parseModeAllBlocks
		ps.tableHandle = 77
		stream := amlStream(nil)
		ps.init(5, "DSDT", (*table.SDTHeader)(unsafe.Pointer(&stream[0])))
		mode := 0
		if ps.mode == parseModeAllBlocks {
			mode = 1
		}
		p("def initFromDirty : List Nat := [%d, %d, %d, %d, %d, %d, %d, %d, %d, %d]\n", len(ps.scopeStack), len(ps.pkgEndStack),
			ps.resolvePasses, ps.mergedScopes, ps.relocatedObjects, mode, ps.tableHandle, ps.streamEnd, ps.r.offset, ps.r.pkgEnd)
	}
	argNames := []struct {
		n string
		v pArgType
	}{{"TermList", pArgTypeTermList}, {"TermArg", pArgTypeTermArg}, {"ByteList", pArgTypeByteList}, {"String", pArgTypeString},
		{"ByteData", pArgTypeByteData}, {"WordData", pArgTypeWordData}, {"DwordData", pArgTypeDwordData}, {"QwordData", pArgTypeQwordData},
		{"NameString", pArgTypeNameString}, {"SuperName", pArgTypeSuperName}, {"SimpleName", pArgTypeSimpleName},
		{"DataRefObj", pArgTypeDataRefObj}, {"Target", pArgTypeTarget}, {"FieldList", pArgTypeFieldList}, {"PkgLen", pArgTypePkgLen}}
	for _, a := range argNames {
		p("def argType%s : Nat := %d\n", a.n, a.v)
	}
	ops := []struct {
		n string
		v uint16
	}{{"Zero", pOpZero}, {"BytePrefix", pOpBytePrefix}, {"WordPrefix", pOpWordPrefix}, {"DwordPrefix", pOpDwordPrefix},
		{"StringPrefix", pOpStringPrefix}, {"QwordPrefix", pOpQwordPrefix}, {"Scope", pOpScope}, {"Buffer", pOpBuffer},
		{"Method", pOpMethod}, {"Noop", pOpNoop}, {"RefOf", pOpRefOf}, {"DerefOf", pOpDerefOf}, {"Index", pOpIndex}, {"Debug", pOpDebug},
		{"IntScopeBlock", pOpIntScopeBlock}, {"IntByteList", pOpIntByteList}, {"IntConnection", pOpIntConnection},
		{"IntNamedField", pOpIntNamedField}, {"IntResolvedNamePath", pOpIntResolvedNamePath}, {"IntNamePath", pOpIntNamePath},
		{"IntNamePathOrMethodCall", pOpIntNamePathOrMethodCall}, {"IntMethodCall", pOpIntMethodCall}, {"IntFreedObject", pOpIntFreedObject}}
	for _, o := range ops {
		p("def op%s : Nat := %d\n", o.n, o.v)
	}
	// the opcode table: (op, flags, argFlags as the raw uint64, argCount(), [arg(0..6)])
	p("/-- rows of pOpcodeTable: (op, flags, raw argFlags, argCount(), arg(0..6)) -/\n")
	p("def opcodeTable : Array (Nat × Nat × Nat × Nat × List Nat) := #[\n")
	for i, e := range pOpcodeTable {
		args := make([]string, 7)
		for k := uint8(0); k < 7; k++ {
			args[k] = strconv.Itoa(int(e.argFlags.arg(k)))
		}
		sep := ","
		if i == len(pOpcodeTable)-1 {
			sep = ""
		}
		p("  (%d, %d, %d, %d, [%s])%s -- %s\n", e.op, e.flags, uint64(e.argFlags), e.argFlags.argCount(), strings.Join(args, ", "), sep, e.opName)
	}
	p("]\n")
	pm := func(name string, m *[256]uint8) {
		p("def %s : Array Nat := #[", name)
		for i, v := range m {
			if i%16 == 0 {
				p("\n  ")
			}
			p("%d", v)
			if i != 255 {
				p(", ")
			}
		}
		p("]\n")
	}
	pm("opcodeMap", &opcodeMap)
	pm("extendedOpcodeMap", &extendedOpcodeMap)
	// pOpcodeTableIndex as computed by the compiled code, for every opcode value 0..0x1fe, both modes
	pt := func(name string, allow bool) {
		p("def %s : Array Nat := #[", name)
		for op := 0; op <= 0x1fe; op++ {
			if op%16 == 0 {
				p("\n  ")
			}
			p("%d", pOpcodeTableIndex(uint16(op), allow))
			if op != 0x1fe {
				p(", ")
			}
		}
		p("]\n")
	}
	pt("tableIndexStrict", false)
	pt("tableIndexInternal", true)
	ps := func(name string, f func(uint16) bool) {
		var xs []string
		for op := 0; op <= 0x1fe; op++ {
			if f(uint16(op)) {
				xs = append(xs, strconv.Itoa(op))
			}
		}
		p("def %s : List Nat := [%s]\n", name, strings.Join(xs, ", "))
	}
	ps("isType2", pOpIsType2)
	ps("isDataObject", pOpIsDataObject)
	ps("isArg", pOpIsArg)
	p("end Firefly.Gen.%s\n", ns)
}

func c12EncPkgLen(v uint32, width int) []byte {
	// value v in exactly `width` bytes (1..4); width 1 holds 6 bits
	switch width {
	case 1:
		return []byte{byte(v & 0x3f)}
	default:
		out := []byte{byte((width-1)<<6) | byte(v&0xf)}
		v >>= 4
		for i := 1; i < width; i++ {
			out = append(out, byte(v))
			v >>= 8
		}
		return out
	}
}


func sortStrings(xs []string) {
	for i := 1; i < len(xs); i++ {
		for j := i; j > 0 && xs[j] < xs[j-1]; j-- {
			xs[j], xs[j-1] = xs[j-1], xs[j]
		}
	}
}

// TestVerifAmlChild is the entry point of the re-executed child process (see amlRunChild).
func TestVerifAmlChild(t *testing.T) {
	if os.Getenv(amlChildEnv) == "" {
		t.Skip("child only")
	}
	amlChildMain()
}

