//go:build verif

package tty

// Export shim for the C18 HAL harness (package hal): read-only access to the state of the shipped
// VT that the line protocol reports.  Injected with `go test -overlay`; not part of /repo.

// VerifVTState returns cursor, viewport origin, state and the data buffer of a VT.
func VerifVTState(t *VT) (cx, cy, vy uint32, state uint8, data []uint8) {
	return t.cursorX, t.cursorY, t.viewportY, uint8(t.state), t.data
}
