// +build verif

package vmm

import (
	"bufio"
	"fmt"
	"io/ioutil"
	"testing"
)

// TestVerifC07Setup: reservation histories that continue across the switch to the kernel's own
// address space. Reservations are made (and mapped, as the allocators do) on the real cursor, then
// the real setupPDTForKernel runs on the software MMU, then more reservations follow. Lines are in
// the C07 protocol: "R cursor size | ok addr cursor'" per reservation, "K cursor | code cursor'"
// for the switch.
func TestVerifC07Setup(t *testing.T) {
	out := verifOpen("VERIF_OUT")
	defer out.close()
	sink := &verifWriter{w: bufio.NewWriter(ioutil.Discard)}
	m := newVMachine()
	defer m.install()()
	rng := &vrng{s: verifSeed()}
	n := verifN(60)
	g := &c04gen{m: m, out: sink}
	const off = uint64(0xffff800000000000)

	code := func(obs string) int {
		c := -1
		fmt.Sscanf(obs, "%d", &c)
		return c
	}
	for i := -4; i < n; i++ {
		if i < 0 {
			g.r = &vrng{s: uint64(1000 - i)}
		} else {
			g.r = rng.fork()
		}
		r := g.r
		out.printf("case setup%d\n", i)
		g.begin()
		g.refill(120)
		alive := g.alive
		reserve := func(k int) {
			for ; k > 0 && alive; k-- {
				before := uint64(earlyReserveLastUsed)
				size := uint64(1 + r.intn(3*4096))
				if r.chance(25) {
					size = r.pick(1, 4095, 4096, 4097, 8192)
				}
				obs, cont := m.exec([]uint64{uint64(1 + r.intn(1<<20)), size, 3}, "region")
				if !cont || code(obs) != 0 {
					alive = false // allocator script exhausted etc.: not a reservation outcome
					return
				}
				out.printf("R %d %d | 1 %d %d\n", before, size, uint64(earlyReserveLastUsed), uint64(earlyReserveLastUsed))
			}
		}
		pre := r.between(1, 5)
		if i == -1 {
			pre = 0
		}
		reserve(pre)
		if !alive {
			continue
		}
		m.exec([]uint64{5, off + 0x100000, 2 * 4096, 3, off + 0x103000, 100}, "secs")
		before := uint64(earlyReserveLastUsed)
		obs, cont := m.exec([]uint64{off}, "setup")
		if !cont {
			out.printf("K %d | %d %d\n", before, code(obs), uint64(earlyReserveLastUsed))
			continue
		}
		out.printf("K %d | %d %d\n", before, code(obs), uint64(earlyReserveLastUsed))
		reserve(r.between(1, 5))
	}
}
