// +build verif

package vmm

import (
	"bufio"
	"fmt"
	"io/ioutil"
	"testing"
)

// TestVerifC07Setup: reservation histories that continue across the switch to the kernel's own
// address space. Reservations are made (and mapped, as the allocators do) on the real cursor, then
// the real setupPDTForKernel runs on the software MMU, then more reservations follow. Lines are in
// the C07 protocol: "R cursor size | ok addr cursor'" per reservation, "K cursor | code cursor'"
// for the switch.
func TestVerifC07Setup(t *testing.T) {
	out := verifOpen("VERIF_OUT")
	defer out.close()
	sink := &verifWriter{w: bufio.NewWriter(ioutil.Discard)}
	m := newVMachine()
	defer m.install()()
	rng := &vrng{s: verifSeed()}
	n := verifN(60)
	g := &c04gen{m: m, out: sink}
	const off = uint64(0xffff800000000000)

	code := func(obs string) int {
		c := -1
		fmt.Sscanf(obs, "%d", &c)
		return c
	}
	for i := -4; i < n; i++ {
		if i < 0 {
			g.r = &vrng{s: uint64(1000 - i)}
		} else {
			g.r = rng.fork()
		}
		r := g.r
		out.printf("case setup%d\n", i)
		mappedPages := map[uint64]bool{}
		g.begin()
		g.refill(120)
		alive := g.alive
		// pages the harness has mapped so far (page numbers); after every region the leaf tables the
		// region touches must hold nothing else (allocator frames are dirty: a table that is not
		// cleared in full shows as stray translations)
		tempPage := uint64(tempMappingAddr) >> 12
		stray := func(first, n uint64) int {
			cnt := 0
			lo, hi := first&^511, (first+n-1)|511
			for p := lo; p <= hi; p++ {
				if mappedPages[p] || p == tempPage {
					continue
				}
				ok := false
				func() {
					defer func() { _ = recover() }()
					_, err := Translate(uintptr(p << 12))
					ok = err == nil
				}()
				if ok {
					cnt++
				}
			}
			return cnt
		}
		reserve := func(k int) {
			for ; k > 0 && alive; k-- {
				before := uint64(earlyReserveLastUsed)
				size := uint64(1 + r.intn(3*4096))
				if r.chance(25) {
					size = r.pick(1, 4095, 4096, 4097, 8192)
				}
				obs, cont := m.exec([]uint64{uint64(1 + r.intn(1<<20)), size, 3}, "region")
				if !cont || code(obs) != 0 {
					// with 120 free frames a small region always fits and maps: a failure or a fault of the
					// software MMU (walking through table entries that should have been cleared) is reported
					out.printf("R %d %d | 0 0 %d\n", before, size, uint64(earlyReserveLastUsed))
					out.printf("# region failed: %s\n", obs)
					alive = false
					return
				}
				out.printf("R %d %d | 1 %d %d\n", before, size, uint64(earlyReserveLastUsed), uint64(earlyReserveLastUsed))
				first, n := uint64(earlyReserveLastUsed)>>12, (size+4095)/4096
				for p := first; p < first+n; p++ {
					mappedPages[p] = true
				}
				out.printf("X | %d %d %d\n", stray(first, n), first, n)
			}
		}
		pre := r.between(1, 5)
		if i == -1 {
			pre = 0
		}
		reserve(pre)
		if !alive {
			continue
		}
		m.exec([]uint64{5, off + 0x100000, 2 * 4096, 3, off + 0x103000, 100}, "secs")
		before := uint64(earlyReserveLastUsed)
		obs, cont := m.exec([]uint64{off}, "setup")
		if !cont {
			out.printf("K %d | %d %d\n", before, code(obs), uint64(earlyReserveLastUsed))
			continue
		}
		out.printf("K %d | %d %d\n", before, code(obs), uint64(earlyReserveLastUsed))
		reserve(r.between(1, 5))
	}
}
